import PP.Spec.RaceWF
import PP.Lemmas.RoundTrip
import PP.Lemmas.RaceCreator
/-
C08: the scanner, run over the lines of a printed race report, builds exactly
the goroutines the report describes.  Same method as `PP/Lemmas/RoundTrip.lean`.
-/
namespace PP.Spec
open PP Bytes

/-! ### the three race regexps on what the printer emits -/

theorem hex12_eq (n : Nat) : hex12 n = List.replicate (12 - (natToHex n).length) 48 ++ natToHex n := rfl

theorem hex12_ne_nil (n : Nat) : hex12 n ≠ [] := by
  rw [hex12_eq]; simp [natToHex_ne_nil]

theorem hex12_all_lowerHex (n : Nat) : (hex12 n).all isLowerHex = true := by
  rw [hex12_eq, List.all_append, natToHex_all_lowerHex, Bool.and_true, List.all_eq_true]
  intro x hx
  rw [(List.mem_replicate.1 hx).2]
  decide

/-- the part of an operation header after the kind -/
def raceTailText (addr id : Nat) : Bytes :=
  b!" at 0x" ++ (hex12 addr ++ (b!" by goroutine " ++ (natToDec id ++ b!":")))

theorem raceOpHeader_eq (first : Bool) (op : RaceOp) :
    raceOpHeader first op =
      (if first then (if op.write then b!"Write" else b!"Read")
       else (if op.write then b!"Previous write" else b!"Previous read")) ++ raceTailText op.addr op.id := by
  simp [raceOpHeader, raceTailText]

theorem raceOpTail_print (addr id : Nat) :
    raceOpTail (raceTailText addr id) = some (b!"0x" ++ hex12 addr, natToDec id) := by
  unfold raceOpTail raceTailText
  simp only [Option.bind_eq_bind, stripPrefix_append, Option.bind_some]
  have h1 : span1 isLowerHex (hex12 addr ++ (b!" by goroutine " ++ (natToDec id ++ b!":"))) =
      some (hex12 addr, b!" by goroutine " ++ (natToDec id ++ b!":")) :=
    span1_append isLowerHex (hex12 addr) 32 _ (hex12_ne_nil addr) (hex12_all_lowerHex addr) (by decide)
  rw [h1]
  simp only [Option.bind_some, stripPrefix_append]
  have h2 : span1 isDigit (natToDec id ++ b!":") = some (natToDec id, b!":") :=
    span1_append isDigit (natToDec id) 58 [] (natToDec_ne_nil id) (natToDec_all_digit id) (by decide)
  rw [h2]
  simp

theorem matchRaceOp_print (w : Bool) (addr id : Nat) :
    matchRaceOp ((if w then b!"Write" else b!"Read") ++ raceTailText addr id) =
      some ((if w then b!"Write" else b!"Read"), b!"0x" ++ hex12 addr, natToDec id) := by
  unfold matchRaceOp
  cases w with
  | false =>
    simp only [Bool.false_eq_true, if_false, stripPrefix_append, raceOpTail_print, Option.map_some]
  | true =>
    have hno : stripPrefix b!"Read" (b!"Write" ++ raceTailText addr id) = none :=
      stripPrefix_cons_ne 87 82 _ _ (by decide)
    simp only [if_true, hno, stripPrefix_append, raceOpTail_print, Option.map_some]

theorem matchRacePrev_print (w : Bool) (addr id : Nat) :
    matchRacePrev ((if w then b!"Previous write" else b!"Previous read") ++ raceTailText addr id) =
      some ((if w then b!"write" else b!"read"), b!"0x" ++ hex12 addr, natToDec id) := by
  unfold matchRacePrev
  cases w with
  | false =>
    simp only [Bool.false_eq_true, if_false, stripPrefix_append, raceOpTail_print, Option.map_some]
  | true =>
    have hno : stripPrefix b!"Previous read" (b!"Previous write" ++ raceTailText addr id) = none := by
      simp [stripPrefix, hasPrefix]
    simp only [if_true, hno, stripPrefix_append, raceOpTail_print, Option.map_some]

theorem parseRaceOp_ok (kind word : Bytes) (addr id : Nat) (ha : addr < 2 ^ 64) (hi : id < 10 ^ 18) :
    parseRaceOp (some (kind, b!"0x" ++ hex12 addr, natToDec id)) word = some (.ok (kind == word, addr, id)) := by
  unfold parseRaceOp
  simp only [hex12_eq, parseUint0_hex_padded _ addr ha, atou_natToDec id hi]

/-- the header of the first operation, seen by `reRaceOperationHeader` -/
theorem raceOp_print (op : RaceOp) (ha : op.addr < 2 ^ 64) (hi : op.id < 10 ^ 18) :
    parseRaceOp (matchRaceOp (raceOpHeader true op)) Extracted.writeCap = some (.ok (op.write, op.addr, op.id)) := by
  rw [raceOpHeader_eq]
  simp only [if_true]
  rw [matchRaceOp_print, parseRaceOp_ok _ _ _ _ ha hi]
  cases op.write <;> rfl

/-- the header of a later operation, seen by `reRacePreviousOperationHeader` -/
theorem racePrev_print (op : RaceOp) (ha : op.addr < 2 ^ 64) (hi : op.id < 10 ^ 18) :
    parseRaceOp (matchRacePrev (raceOpHeader false op)) Extracted.writeLow = some (.ok (op.write, op.addr, op.id)) := by
  rw [raceOpHeader_eq]
  simp only [Bool.false_eq_true, if_false]
  rw [matchRacePrev_print, parseRaceOp_ok _ _ _ _ ha hi]
  cases op.write <;> rfl

def raceStateText (finished : Bool) : Bytes := if finished then b!"finished" else b!"running"

theorem raceGorHeader_eq (g : RaceGor) :
    raceGorHeader g = b!"Goroutine " ++ (natToDec g.id ++
      ((if g.finished then b!" (finished)" else b!" (running)") ++ b!" created at:")) := by
  simp [raceGorHeader]

theorem matchRaceGoroutine_print (g : RaceGor) :
    matchRaceGoroutine (raceGorHeader g) = some (natToDec g.id, raceStateText g.finished) := by
  rw [raceGorHeader_eq]
  unfold matchRaceGoroutine
  simp only [Option.bind_eq_bind, stripPrefix_append, Option.bind_some]
  have h : span1 isDigit (natToDec g.id ++ ((if g.finished then b!" (finished)" else b!" (running)") ++ b!" created at:")) =
      some (natToDec g.id, (if g.finished then b!" (finished)" else b!" (running)") ++ b!" created at:") := by
    cases g.finished
    · exact span1_append isDigit (natToDec g.id) 32 _ (natToDec_ne_nil _) (natToDec_all_digit _) (by decide)
    · exact span1_append isDigit (natToDec g.id) 32 _ (natToDec_ne_nil _) (natToDec_all_digit _) (by decide)
  rw [h]
  cases g.finished <;> simp [raceStateText]

theorem raceGor_print (g : RaceGor) (hi : g.id < 10 ^ 18) :
    (matchRaceGoroutine (raceGorHeader g)).map (fun (d, st) => (atou d, st)) =
      some (some g.id, raceStateText g.finished) := by
  rw [matchRaceGoroutine_print]
  simp [atou_natToDec g.id hi]

/-- a `Goroutine …` line is not a `Previous read/write` header -/
theorem matchRacePrev_gor (g : RaceGor) : matchRacePrev (raceGorHeader g) = none := by
  rw [raceGorHeader_eq]
  unfold matchRacePrev
  have h1 : ∀ t, stripPrefix b!"Previous read" (b!"Goroutine " ++ t) = none :=
    fun t => stripPrefix_cons_ne 71 80 _ _ (by decide)
  have h2 : ∀ t, stripPrefix b!"Previous write" (b!"Goroutine " ++ t) = none :=
    fun t => stripPrefix_cons_ne 71 80 _ _ (by decide)
  simp only [h1, h2]

/-! ### the lines of a frame -/

structure RaceFrameOK (f : FrameSpec) : Prop where
  ok : FrameOK raceCfg f false false
  inl : f.inlined = false

theorem raceFrameWF_ok (f : FrameSpec) (h : raceFrameWF f = true) : RaceFrameOK f := by
  simp only [raceFrameWF, Bool.and_eq_true, Bool.not_eq_true'] at h
  exact ⟨frameWF_ok raceCfg f false false h.1, h.2⟩

/-- the function line of a race frame: two spaces, then the function line of a dump -/
def raceFuncLine (f : FrameSpec) : Bytes := b!"  " ++ funcLine f

/-- the file line of a race frame: six spaces, the file, the position -/
def raceFileLine (f : FrameSpec) : Bytes := List.replicate 6 32 ++ (f.file ++ tailText f.line f.off none)

theorem raceFrameLines_eq (f : FrameSpec) (hin : f.inlined = false) :
    raceFrameLines f = [raceFuncLine f, raceFileLine f] := by
  simp [raceFrameLines, raceFuncLine, raceFileLine, funcLine, hin, tailText, fpText]

theorem trimLeftSpace_raceFunc (f : FrameSpec) (hs : SymOK f false) :
    trimLeftSpace (raceFuncLine f) = funcLine f := by
  obtain ⟨c, t, hsym, hb⟩ := hs.head
  unfold raceFuncLine
  rw [funcLine_eq, hsym]
  show List.dropWhile isBlank (32 :: 32 :: (c :: t ++ _)) = _
  have h32 : isBlank 32 = true := by decide
  simp only [List.cons_append, List.dropWhile_cons, h32, if_true, hb, Bool.false_eq_true, if_false]

theorem raceFuncLine_ne_nil (f : FrameSpec) : raceFuncLine f ≠ [] := by simp [raceFuncLine]

theorem raceFuncLine_last (f : FrameSpec) : (raceFuncLine f).getLast? = some 41 := by
  unfold raceFuncLine
  rw [getLast?_append_ne_nil _ _ (funcLine_ne_nil f), funcLine_last]

theorem raceFuncLine_not_sep (f : FrameSpec) : (raceFuncLine f == Extracted.raceHeaderFooter) = false := by
  simp [raceFuncLine, Extracted.raceHeaderFooter]

theorem raceFuncLine_funcL (f : FrameSpec) (hf : RaceFrameOK f) :
    (lineOf (raceFuncLine f)).funcL = some (preCall f, none) := by
  show parseFunc (trimLeftSpace (raceFuncLine f)) = _
  rw [trimLeftSpace_raceFunc f hf.ok.sym]
  exact parseFunc_print f hf.ok.sym (hf.ok.args rfl)

theorem raceFileLine_file (f : FrameSpec) (hf : RaceFrameOK f) :
    (lineOf (raceFileLine f)).file = some (some (f.file, f.line)) :=
  parseFile_print (List.replicate (5 + 1) 32) f.file (FileIndentOK.spaces 5) hf.ok.file.path hf.ok.file.sp
    f.line hf.ok.line f.off none

theorem raceFileLine_last (f : FrameSpec) : (raceFileLine f).getLast? ≠ some 13 :=
  fileLine_last _ _ _ _ _

/-! ### the state machine on states of explicit shape -/

/-- a race goroutine under construction -/
def buildRG (op : RaceOp) (first : Bool) (state : Bytes) (calls created : List Call) : Goroutine :=
  { id := op.id, first := first, raceWrite := op.write, raceAddr := op.addr,
    sig := { state := state, stack := { calls := calls }, createdBy := { calls := created } } }

theorem scan_race_sep (l : Line) (hl : LineOK l) (gi : Nat) (hh : l.header = none) (hs : l.sep = true) :
    scan ⟨.looking, [], gi, []⟩ l = .ok (⟨.gotRaceHeader1, [], gi, []⟩, true, none) := by
  unfold scan
  simp [hl.eol, hl.ind, hh, hs]

theorem scan_race_warn (l : Line) (hl : LineOK l) (gi : Nat) (hw : l.warn = true) :
    scan ⟨.gotRaceHeader1, [], gi, []⟩ l = .ok (⟨.gotRaceHeader2, [], gi, []⟩, true, none) := by
  unfold scan
  simp [hl.eol, hl.ind, hw]

theorem scan_race_op (l : Line) (hl : LineOK l) (gi : Nat) (op : RaceOp)
    (ho : l.raceOp = some (.ok (op.write, op.addr, op.id))) :
    scan ⟨.gotRaceHeader2, [], gi, []⟩ l =
      .ok (⟨.gotRaceOperationHeader, [] ++ [buildRG op true [] [] []], 0, []⟩, true, none) := by
  unfold scan
  simp [hl.eol, hl.ind, ho, buildRG]

theorem scan_race_op_func (pre : List Goroutine) (gi : Nat) (l : Line) (hl : LineOK l)
    (op : RaceOp) (first : Bool) (cs : List Call) (c : Call) (st : St)
    (hst : st = .gotRaceOperationHeader ∨ (st = .gotRaceOperationFile ∧ l.empty = false))
    (hf : l.funcL = some (c, none)) :
    scan ⟨st, pre ++ [buildRG op first [] cs []], gi, []⟩ l =
      .ok (⟨.gotRaceOperationFunc, pre ++ [buildRG op first [] (cs ++ [c]) []], gi, []⟩, true, none) := by
  unfold scan
  rcases hst with h | ⟨h, he⟩
  · subst h
    simp [hl.eol, hl.ind, hf, funcStep, curAppendCall, modifyLast_snoc, setStack, buildRG]
  · subst h
    simp [hl.eol, hl.ind, he, hf, funcStep, curAppendCall, modifyLast_snoc, setStack, buildRG]

theorem scan_race_op_file (pre : List Goroutine) (gi : Nat) (l : Line) (hl : LineOK l)
    (op : RaceOp) (first : Bool) (cs : List Call) (c : Call) (pl : Bytes × Nat)
    (hf : l.file = some (some pl)) :
    scan ⟨.gotRaceOperationFunc, pre ++ [buildRG op first [] (cs ++ [c]) []], gi, []⟩ l =
      .ok (⟨.gotRaceOperationFile, pre ++ [buildRG op first [] (cs ++ [c.init pl.1 pl.2]) []], gi, []⟩, true, none) := by
  unfold scan
  simp [hl.eol, hl.ind, hf, needLastCall, modifyLast_snoc, setStack, buildRG, initLast]

theorem scan_race_op_blank (gs : List Goroutine) (gi : Nat) (l : Line) (hl : LineOK l) (he : l.empty = true) :
    scan ⟨.gotRaceOperationFile, gs, gi, []⟩ l = .ok (⟨.betweenRaceOperations, gs, gi, []⟩, true, none) := by
  unfold scan
  simp [hl.eol, hl.ind, he]

theorem scan_race_prev (gs : List Goroutine) (gi : Nat) (l : Line) (hl : LineOK l) (op : RaceOp)
    (ho : l.racePrev = some (.ok (op.write, op.addr, op.id))) :
    scan ⟨.betweenRaceOperations, gs, gi, []⟩ l =
      .ok (⟨.gotRaceOperationHeader, gs ++ [buildRG op false [] [] []], gs.length, []⟩, true, none) := by
  unfold scan
  simp [hl.eol, hl.ind, ho, buildRG]

theorem scan_race_gor_func (pre post : List Goroutine) (l : Line) (hl : LineOK l)
    (op : RaceOp) (first : Bool) (stt : Bytes) (stk cs : List Call) (c : Call) (st : St)
    (hst : st = .gotRaceGoroutineHeader ∨ (st = .gotRaceGoroutineFile ∧ l.empty = false ∧ l.sep = false))
    (hf : l.funcL = some (c, none)) :
    scan ⟨st, pre ++ buildRG op first stt stk cs :: post, pre.length, []⟩ l =
      .ok (⟨.gotRaceGoroutineFunc, pre ++ buildRG op first stt stk (cs ++ [c]) :: post, pre.length, []⟩, true, none) := by
  unfold scan
  rcases hst with h | ⟨h, he, hs⟩
  · subst h
    simp [hl.eol, hl.ind, hf, modifyAt_append_cons, setCreated, buildRG]
  · subst h
    simp [hl.eol, hl.ind, he, hs, hf, modifyAt_append_cons, setCreated, buildRG]

theorem scan_race_gor_file (pre post : List Goroutine) (l : Line) (hl : LineOK l)
    (op : RaceOp) (first : Bool) (stt : Bytes) (stk cs : List Call) (c : Call) (pl : Bytes × Nat)
    (hf : l.file = some (some pl)) :
    scan ⟨.gotRaceGoroutineFunc, pre ++ buildRG op first stt stk (cs ++ [c]) :: post, pre.length, []⟩ l =
      .ok (⟨.gotRaceGoroutineFile, pre ++ buildRG op first stt stk (cs ++ [c.init pl.1 pl.2]) :: post, pre.length, []⟩, true, none) := by
  unfold scan
  simp [hl.eol, hl.ind, hf, setCreated, buildRG, initLast]

theorem scan_race_gor_blank (gs : List Goroutine) (gi : Nat) (l : Line) (hl : LineOK l) (he : l.empty = true) :
    scan ⟨.gotRaceGoroutineFile, gs, gi, []⟩ l = .ok (⟨.betweenRaceGoroutines, gs, gi, []⟩, true, none) := by
  unfold scan
  simp [hl.eol, hl.ind, he]

theorem scan_race_end (gs : List Goroutine) (gi : Nat) (l : Line) (hl : LineOK l) (he : l.empty = false)
    (hs : l.sep = true) :
    scan ⟨.gotRaceGoroutineFile, gs, gi, []⟩ l = .ok (⟨.done, gs, gi, []⟩, true, none) := by
  unfold scan
  simp [hl.eol, hl.ind, he, hs]

/-- the header of a creation section: the FIRST goroutine with that id gets the state -/
theorem scan_race_gor_header (pre post : List Goroutine) (gi : Nat) (l : Line) (hl : LineOK l)
    (op : RaceOp) (first : Bool) (stt0 stt : Bytes) (stk cs : List Call) (st : St)
    (hst : st = .betweenRaceOperations ∨ st = .betweenRaceGoroutines)
    (hprev : l.racePrev = none) (hg : l.raceGor = some (some op.id, stt))
    (hpre : ∀ x ∈ pre, x.id ≠ op.id) :
    scan ⟨st, pre ++ buildRG op first stt0 stk cs :: post, gi, []⟩ l =
      .ok (⟨.gotRaceGoroutineHeader, pre ++ buildRG op first stt stk cs :: post, pre.length, []⟩, true, none) := by
  have := creator_lookup_sound ⟨st, pre ++ buildRG op first stt0 stk cs :: post, gi, []⟩ l op.id stt
    pre (buildRG op first stt0 stk cs) post hst hl.eol hl.ind (fun _ => hprev) hg rfl hpre rfl
  rw [this]
  rfl

/-! ### runs of consumed lines -/

/-- one line of a race report (no dump prefix is ever set) -/
theorem race_step (crlf : Bool) (s s1 : S) (t : Bytes) (hp : s.pfx = []) (hd : s.st ≠ .done)
    (hcr : t.getLast? ≠ some 13) (h : scan s (lineOf t) = .ok (s1, true, none)) :
    Steps s [t ++ eolOf crlf] s1 := by
  refine Steps.one hd (by cases crlf <;> simp [eolOf]) ?_
  unfold scanBytes
  rw [hp, classify_nopfx crlf t (fun _ => hcr)]
  exact h

theorem lineOf_empty_false (t : Bytes) (h : t ≠ []) : (lineOf t).empty = false := by
  cases t with
  | nil => exact absurd rfl h
  | cons a b => rfl

/-- the two lines of a frame of an operation -/
theorem race_op_frame_steps (crlf : Bool) (f : FrameSpec) (hf : RaceFrameOK f)
    (pre : List Goroutine) (gi : Nat) (op : RaceOp) (first : Bool) (cs : List Call) (st : St)
    (hst : st = .gotRaceOperationHeader ∨ st = .gotRaceOperationFile) :
    Steps ⟨st, pre ++ [buildRG op first [] cs []], gi, []⟩
      ((raceFrameLines f).map (· ++ eolOf crlf))
      ⟨.gotRaceOperationFile, pre ++ [buildRG op first [] (cs ++ [expCall f none true]) []], gi, []⟩ := by
  rw [raceFrameLines_eq f hf.inl]
  simp only [List.map_cons, List.map_nil]
  have hinit := preCall_init f (pathOK_ne_nil hf.ok.file.path)
  have h1 : Steps ⟨st, pre ++ [buildRG op first [] cs []], gi, []⟩ [raceFuncLine f ++ eolOf crlf]
      ⟨.gotRaceOperationFunc, pre ++ [buildRG op first [] (cs ++ [preCall f]) []], gi, []⟩ := by
    refine race_step crlf _ _ _ rfl ?_ (by rw [raceFuncLine_last]; simp) ?_
    · rcases hst with h | h <;> rw [h] <;> simp
    · refine scan_race_op_func pre gi _ (lineOf_ok _) op first cs _ st ?_ (raceFuncLine_funcL f hf)
      rcases hst with h | h
      · exact Or.inl h
      · exact Or.inr ⟨h, lineOf_empty_false _ (raceFuncLine_ne_nil f)⟩
  have h2 : Steps ⟨.gotRaceOperationFunc, pre ++ [buildRG op first [] (cs ++ [preCall f]) []], gi, []⟩
      [raceFileLine f ++ eolOf crlf]
      ⟨.gotRaceOperationFile, pre ++ [buildRG op first [] (cs ++ [expCall f none true]) []], gi, []⟩ := by
    refine race_step crlf _ _ _ rfl (by simp) (raceFileLine_last f) ?_
    rw [scan_race_op_file pre gi _ (lineOf_ok _) op first cs (preCall f) (f.file, f.line) (raceFileLine_file f hf)]
    simp only [hinit]
  exact Steps.append h1 h2

/-- the frames of an operation after the first -/
theorem race_op_frames_steps (crlf : Bool) (fs : List FrameSpec) (hfs : ∀ f ∈ fs, RaceFrameOK f)
    (pre : List Goroutine) (gi : Nat) (op : RaceOp) (first : Bool) (cs : List Call) :
    Steps ⟨.gotRaceOperationFile, pre ++ [buildRG op first [] cs []], gi, []⟩
      ((fs.flatMap raceFrameLines).map (· ++ eolOf crlf))
      ⟨.gotRaceOperationFile, pre ++ [buildRG op first [] (cs ++ fs.map (fun f => expCall f none true)) []], gi, []⟩ := by
  induction fs generalizing cs with
  | nil => simp; exact Steps.nil _
  | cons f fs ih =>
    have h1 := race_op_frame_steps crlf f (hfs f (by simp)) pre gi op first cs .gotRaceOperationFile (Or.inr rfl)
    have h2 := ih (fun x hx => hfs x (by simp [hx])) (cs ++ [expCall f none true])
    simp only [List.flatMap_cons, List.map_append, List.map_cons, List.append_assoc, List.singleton_append] at h2 ⊢
    exact Steps.append h1 h2

/-- all the frames of an operation, after its header -/
theorem race_op_stack_steps (crlf : Bool) (fs : List FrameSpec) (hne : fs ≠ []) (hfs : ∀ f ∈ fs, RaceFrameOK f)
    (pre : List Goroutine) (gi : Nat) (op : RaceOp) (first : Bool) :
    Steps ⟨.gotRaceOperationHeader, pre ++ [buildRG op first [] [] []], gi, []⟩
      ((fs.flatMap raceFrameLines).map (· ++ eolOf crlf))
      ⟨.gotRaceOperationFile, pre ++ [buildRG op first [] (fs.map (fun f => expCall f none true)) []], gi, []⟩ := by
  cases fs with
  | nil => exact absurd rfl hne
  | cons f0 rest =>
    have h0 := race_op_frame_steps crlf f0 (hfs f0 (by simp)) pre gi op first [] .gotRaceOperationHeader (Or.inl rfl)
    have h1 := race_op_frames_steps crlf rest (fun x hx => hfs x (by simp [hx])) pre gi op first ([] ++ [expCall f0 none true])
    simp only [List.flatMap_cons, List.map_append, List.map_cons, List.nil_append, List.singleton_append] at h1 ⊢
    exact Steps.append h0 h1

/-- the two lines of a frame of a creation section -/
theorem race_gor_frame_steps (crlf : Bool) (f : FrameSpec) (hf : RaceFrameOK f)
    (pre post : List Goroutine) (op : RaceOp) (first : Bool) (stt : Bytes) (stk cs : List Call) (st : St)
    (hst : st = .gotRaceGoroutineHeader ∨ st = .gotRaceGoroutineFile) :
    Steps ⟨st, pre ++ buildRG op first stt stk cs :: post, pre.length, []⟩
      ((raceFrameLines f).map (· ++ eolOf crlf))
      ⟨.gotRaceGoroutineFile, pre ++ buildRG op first stt stk (cs ++ [expCall f none true]) :: post, pre.length, []⟩ := by
  rw [raceFrameLines_eq f hf.inl]
  simp only [List.map_cons, List.map_nil]
  have hinit := preCall_init f (pathOK_ne_nil hf.ok.file.path)
  have h1 : Steps ⟨st, pre ++ buildRG op first stt stk cs :: post, pre.length, []⟩ [raceFuncLine f ++ eolOf crlf]
      ⟨.gotRaceGoroutineFunc, pre ++ buildRG op first stt stk (cs ++ [preCall f]) :: post, pre.length, []⟩ := by
    refine race_step crlf _ _ _ rfl ?_ (by rw [raceFuncLine_last]; simp) ?_
    · rcases hst with h | h <;> rw [h] <;> simp
    · refine scan_race_gor_func pre post _ (lineOf_ok _) op first stt stk cs _ st ?_ (raceFuncLine_funcL f hf)
      rcases hst with h | h
      · exact Or.inl h
      · exact Or.inr ⟨h, lineOf_empty_false _ (raceFuncLine_ne_nil f), raceFuncLine_not_sep f⟩
  have h2 : Steps ⟨.gotRaceGoroutineFunc, pre ++ buildRG op first stt stk (cs ++ [preCall f]) :: post, pre.length, []⟩
      [raceFileLine f ++ eolOf crlf]
      ⟨.gotRaceGoroutineFile, pre ++ buildRG op first stt stk (cs ++ [expCall f none true]) :: post, pre.length, []⟩ := by
    refine race_step crlf _ _ _ rfl (by simp) (raceFileLine_last f) ?_
    rw [scan_race_gor_file pre post _ (lineOf_ok _) op first stt stk cs (preCall f) (f.file, f.line) (raceFileLine_file f hf)]
    simp only [hinit]
  exact Steps.append h1 h2

theorem race_gor_frames_steps (crlf : Bool) (fs : List FrameSpec) (hfs : ∀ f ∈ fs, RaceFrameOK f)
    (pre post : List Goroutine) (op : RaceOp) (first : Bool) (stt : Bytes) (stk cs : List Call) :
    Steps ⟨.gotRaceGoroutineFile, pre ++ buildRG op first stt stk cs :: post, pre.length, []⟩
      ((fs.flatMap raceFrameLines).map (· ++ eolOf crlf))
      ⟨.gotRaceGoroutineFile, pre ++ buildRG op first stt stk (cs ++ fs.map (fun f => expCall f none true)) :: post,
        pre.length, []⟩ := by
  induction fs generalizing cs with
  | nil => simp; exact Steps.nil _
  | cons f fs ih =>
    have h1 := race_gor_frame_steps crlf f (hfs f (by simp)) pre post op first stt stk cs .gotRaceGoroutineFile (Or.inr rfl)
    have h2 := ih (fun x hx => hfs x (by simp [hx])) (cs ++ [expCall f none true])
    simp only [List.flatMap_cons, List.map_append, List.map_cons, List.append_assoc, List.singleton_append] at h2 ⊢
    exact Steps.append h1 h2

/-- all the frames of a creation section, after its header -/
theorem race_gor_stack_steps (crlf : Bool) (fs : List FrameSpec) (hne : fs ≠ []) (hfs : ∀ f ∈ fs, RaceFrameOK f)
    (pre post : List Goroutine) (op : RaceOp) (first : Bool) (stt : Bytes) (stk cs : List Call) :
    Steps ⟨.gotRaceGoroutineHeader, pre ++ buildRG op first stt stk cs :: post, pre.length, []⟩
      ((fs.flatMap raceFrameLines).map (· ++ eolOf crlf))
      ⟨.gotRaceGoroutineFile, pre ++ buildRG op first stt stk (cs ++ fs.map (fun f => expCall f none true)) :: post,
        pre.length, []⟩ := by
  cases fs with
  | nil => exact absurd rfl hne
  | cons f0 rest =>
    have h0 := race_gor_frame_steps crlf f0 (hfs f0 (by simp)) pre post op first stt stk cs .gotRaceGoroutineHeader (Or.inl rfl)
    have h1 := race_gor_frames_steps crlf rest (fun x hx => hfs x (by simp [hx])) pre post op first stt stk (cs ++ [expCall f0 none true])
    simp only [List.flatMap_cons, List.map_append, List.map_cons, List.append_assoc, List.singleton_append] at h1 ⊢
    exact Steps.append h0 h1

/-! ### the operations -/

structure RaceOpOK (op : RaceOp) : Prop where
  id : op.id < 10 ^ 18
  addr : op.addr < 2 ^ 64
  ne : op.frames ≠ []
  frames : ∀ f ∈ op.frames, RaceFrameOK f

theorem raceOpWF_ok (op : RaceOp) (h : raceOpWF op = true) : RaceOpOK op := by
  simp only [raceOpWF, Bool.and_eq_true, decide_eq_true_eq, List.all_eq_true, Bool.not_eq_true'] at h
  obtain ⟨⟨⟨h1, h2⟩, h3⟩, h4⟩ := h
  refine ⟨h1, h2, ?_, fun f hf => raceFrameWF_ok f (h4 f hf)⟩
  intro he; rw [he] at h3; simp at h3

/-- the goroutine of an operation whose frames have been read -/
def opG (op : RaceOp) (first : Bool) : Goroutine :=
  buildRG op first [] (op.frames.map (fun f => expCall f none true)) []

theorem raceOpHeader_last (first : Bool) (op : RaceOp) : (raceOpHeader first op).getLast? = some 58 := by
  have : raceOpHeader first op = ((if first then (if op.write then b!"Write" else b!"Read")
      else (if op.write then b!"Previous write" else b!"Previous read")) ++
      b!" at 0x" ++ hex12 op.addr ++ b!" by goroutine " ++ natToDec op.id) ++ [58] := by
    simp [raceOpHeader]
  rw [this, List.getLast?_append]; rfl

/-- the first operation: header and frames -/
theorem race_first_op_steps (crlf : Bool) (op : RaceOp) (hop : RaceOpOK op) (gi : Nat) :
    Steps ⟨.gotRaceHeader2, [], gi, []⟩ ((raceOpLines true op).map (· ++ eolOf crlf))
      ⟨.gotRaceOperationFile, [opG op true], 0, []⟩ := by
  have h1 : Steps ⟨.gotRaceHeader2, [], gi, []⟩ [raceOpHeader true op ++ eolOf crlf]
      ⟨.gotRaceOperationHeader, [] ++ [buildRG op true [] [] []], 0, []⟩ := by
    refine race_step crlf _ _ _ rfl (by simp) (by rw [raceOpHeader_last]; simp) ?_
    exact scan_race_op _ (lineOf_ok _) gi op (raceOp_print op hop.addr hop.id)
  have h2 := race_op_stack_steps crlf op.frames hop.ne hop.frames [] 0 op true
  have := Steps.append h1 h2
  simpa [raceOpLines, opG] using this

/-- a later operation: blank line, header and frames -/
theorem race_next_op_steps (crlf : Bool) (op : RaceOp) (hop : RaceOpOK op) (pre : List Goroutine) (gi : Nat) :
    Steps ⟨.gotRaceOperationFile, pre, gi, []⟩ ((raceOpLines false op).map (· ++ eolOf crlf))
      ⟨.gotRaceOperationFile, pre ++ [opG op false], pre.length, []⟩ := by
  have h0 : Steps ⟨.gotRaceOperationFile, pre, gi, []⟩ [[] ++ eolOf crlf] ⟨.betweenRaceOperations, pre, gi, []⟩ :=
    race_step crlf _ _ _ rfl (by simp) (by simp) (scan_race_op_blank pre gi _ (lineOf_ok _) rfl)
  have h1 : Steps ⟨.betweenRaceOperations, pre, gi, []⟩ [raceOpHeader false op ++ eolOf crlf]
      ⟨.gotRaceOperationHeader, pre ++ [buildRG op false [] [] []], pre.length, []⟩ := by
    refine race_step crlf _ _ _ rfl (by simp) (by rw [raceOpHeader_last]; simp) ?_
    exact scan_race_prev pre gi _ (lineOf_ok _) op (racePrev_print op hop.addr hop.id)
  have h2 := race_op_stack_steps crlf op.frames hop.ne hop.frames pre pre.length op false
  have := Steps.append h0 (Steps.append h1 h2)
  simpa [raceOpLines, opG] using this

/-- the operations after the first -/
theorem race_next_ops_steps (crlf : Bool) (ops : List RaceOp) (hops : ∀ op ∈ ops, RaceOpOK op)
    (pre : List Goroutine) (gi : Nat) :
    ∃ gi', Steps ⟨.gotRaceOperationFile, pre, gi, []⟩ ((raceOpsLines false ops).map (· ++ eolOf crlf))
      ⟨.gotRaceOperationFile, pre ++ ops.map (fun op => opG op false), gi', []⟩ := by
  induction ops generalizing pre gi with
  | nil => exact ⟨gi, by simpa [raceOpsLines] using Steps.nil _⟩
  | cons op ops ih =>
    have h1 := race_next_op_steps crlf op (hops op (by simp)) pre gi
    obtain ⟨gi', h2⟩ := ih (fun x hx => hops x (by simp [hx])) (pre ++ [opG op false]) pre.length
    refine ⟨gi', ?_⟩
    have := Steps.append h1 h2
    simpa [raceOpsLines] using this

/-! ### the creation sections -/

/-- the operations with their `first` flag -/
def flagOps : List RaceOp → List (RaceOp × Bool)
  | [] => []
  | op :: ops => (op, true) :: ops.map (fun o => (o, false))

/-- the goroutine of an operation after the creation sections `done` have been read -/
def partG (done : List RaceGor) (x : RaceOp × Bool) : Goroutine :=
  buildRG x.1 x.2 (raceApplyGors x.1.id done ([], [])).1 (x.1.frames.map (fun f => expCall f none true))
    (raceApplyGors x.1.id done ([], [])).2

theorem partG_nil (x : RaceOp × Bool) : partG [] x = opG x.1 x.2 := rfl

theorem expectedRace_eq (r : RaceSpec) : expectedRace r = (flagOps r.ops).map (partG r.gors) := by
  unfold expectedRace
  cases r.ops with
  | nil => rfl
  | cons op ops =>
    simp only [flagOps, List.map_cons, List.map_map]
    rfl

theorem raceApplyGors_snoc (id : Nat) (gs : List RaceGor) (g : RaceGor) (acc : Bytes × List Call) :
    raceApplyGors id (gs ++ [g]) acc =
      if g.id = id then (raceStateText g.finished,
        (raceApplyGors id gs acc).2 ++ g.frames.map (fun f => expCall f none true))
      else raceApplyGors id gs acc := by
  induction gs generalizing acc with
  | nil =>
    obtain ⟨st, cs⟩ := acc
    simp only [List.nil_append, raceApplyGors, raceStateText]
  | cons a gs ih =>
    obtain ⟨st, cs⟩ := acc
    simp only [List.cons_append, raceApplyGors]
    split <;> exact ih _

theorem partG_snoc_ne (done : List RaceGor) (g : RaceGor) (x : RaceOp × Bool) (h : x.1.id ≠ g.id) :
    partG (done ++ [g]) x = partG done x := by
  unfold partG
  rw [raceApplyGors_snoc, if_neg (fun e => h e.symm)]

theorem partG_snoc_eq (done : List RaceGor) (g : RaceGor) (x : RaceOp × Bool) (h : x.1.id = g.id) :
    partG (done ++ [g]) x =
      buildRG x.1 x.2 (raceStateText g.finished) (x.1.frames.map (fun f => expCall f none true))
        ((raceApplyGors x.1.id done ([], [])).2 ++ g.frames.map (fun f => expCall f none true)) := by
  unfold partG
  rw [raceApplyGors_snoc, if_pos h.symm]

theorem partG_id (done : List RaceGor) (x : RaceOp × Bool) : (partG done x).id = x.1.id := rfl

theorem raceGorHeader_last (g : RaceGor) : (raceGorHeader g).getLast? = some 58 := by
  have : raceGorHeader g = (b!"Goroutine " ++ natToDec g.id ++
      (if g.finished then b!" (finished)" else b!" (running)") ++ b!" created at") ++ [58] := by
    simp [raceGorHeader]
  rw [this, List.getLast?_append]; rfl

structure RaceGorOK (g : RaceGor) : Prop where
  ne : g.frames ≠ []
  frames : ∀ f ∈ g.frames, RaceFrameOK f

/-- one creation section: blank line, header, frames -/
theorem race_section_steps (crlf : Bool) (fl : List (RaceOp × Bool)) (hnd : (fl.map (·.1.id)).Nodup)
    (hids : ∀ x ∈ fl, x.1.id < 10 ^ 18)
    (done : List RaceGor) (g : RaceGor) (hmem : g.id ∈ fl.map (·.1.id)) (hg : RaceGorOK g)
    (st : St) (hst : st = .gotRaceOperationFile ∨ st = .gotRaceGoroutineFile) (gi : Nat) :
    ∃ gi', Steps ⟨st, fl.map (partG done), gi, []⟩ ((raceGorLines g).map (· ++ eolOf crlf))
      ⟨.gotRaceGoroutineFile, fl.map (partG (done ++ [g])), gi', []⟩ := by
  obtain ⟨x, hx, hxid⟩ := List.mem_map.1 hmem
  obtain ⟨pre, post, hfl⟩ := List.append_of_mem hx
  subst hfl
  have hidx : x.1.id < 10 ^ 18 := hids x hx
  simp only [List.map_append, List.map_cons] at hnd
  have hnd' := List.nodup_append.1 hnd
  have hpre : ∀ y ∈ pre, y.1.id ≠ x.1.id := by
    intro y hy
    exact hnd'.2.2 _ (List.mem_map.2 ⟨y, hy, rfl⟩) _ (by simp)
  have hpost : ∀ y ∈ post, y.1.id ≠ x.1.id := by
    intro y hy he
    exact (List.nodup_cons.1 hnd'.2.1).1 (List.mem_map.2 ⟨y, hy, he⟩)
  refine ⟨(pre.map (partG done)).length, ?_⟩
  simp only [List.map_append, List.map_cons]
  -- the resulting list
  have e1 : pre.map (partG (done ++ [g])) = pre.map (partG done) :=
    List.map_congr_left (fun y hy => partG_snoc_ne done g y (by rw [← hxid]; exact hpre y hy))
  have e2 : post.map (partG (done ++ [g])) = post.map (partG done) :=
    List.map_congr_left (fun y hy => partG_snoc_ne done g y (by rw [← hxid]; exact hpost y hy))
  rw [e1, e2, partG_snoc_eq done g x hxid]
  -- the blank line
  have h0 : ∃ st1, (st1 = .betweenRaceOperations ∨ st1 = .betweenRaceGoroutines) ∧
      Steps ⟨st, pre.map (partG done) ++ partG done x :: post.map (partG done), gi, []⟩ [[] ++ eolOf crlf]
        ⟨st1, pre.map (partG done) ++ partG done x :: post.map (partG done), gi, []⟩ := by
    rcases hst with h | h
    · subst h
      exact ⟨_, Or.inl rfl, race_step crlf _ _ _ rfl (by simp) (by simp) (scan_race_op_blank _ gi _ (lineOf_ok _) rfl)⟩
    · subst h
      exact ⟨_, Or.inr rfl, race_step crlf _ _ _ rfl (by simp) (by simp) (scan_race_gor_blank _ gi _ (lineOf_ok _) rfl)⟩
  obtain ⟨st1, hst1, h0⟩ := h0
  -- the header
  have h1 : Steps ⟨st1, pre.map (partG done) ++ partG done x :: post.map (partG done), gi, []⟩
      [raceGorHeader g ++ eolOf crlf]
      ⟨.gotRaceGoroutineHeader, pre.map (partG done) ++
        buildRG x.1 x.2 (raceStateText g.finished) (x.1.frames.map (fun f => expCall f none true))
          (raceApplyGors x.1.id done ([], [])).2 :: post.map (partG done), (pre.map (partG done)).length, []⟩ := by
    refine race_step crlf _ _ _ rfl ?_ (by rw [raceGorHeader_last]; simp) ?_
    · rcases hst1 with h | h <;> rw [h] <;> simp
    · unfold partG
      refine scan_race_gor_header _ _ gi _ (lineOf_ok _) x.1 x.2 _ _ _ _ st1 hst1 ?_ ?_ ?_
      · show parseRaceOp (matchRacePrev (raceGorHeader g)) Extracted.writeLow = none
        rw [matchRacePrev_gor]; rfl
      · show (matchRaceGoroutine (raceGorHeader g)).map _ = _
        rw [raceGor_print g (by rw [← hxid]; exact hidx), hxid]
      · intro y hy
        obtain ⟨z, hz, rfl⟩ := List.mem_map.1 hy
        exact hpre z hz
  -- the frames
  have h2 := race_gor_stack_steps crlf g.frames hg.ne hg.frames (pre.map (partG done)) (post.map (partG done))
    x.1 x.2 (raceStateText g.finished) (x.1.frames.map (fun f => expCall f none true))
    (raceApplyGors x.1.id done ([], [])).2
  have := Steps.append h0 (Steps.append h1 h2)
  simpa [raceGorLines] using this

/-- all the creation sections -/
theorem race_sections_steps (crlf : Bool) (fl : List (RaceOp × Bool)) (hnd : (fl.map (·.1.id)).Nodup)
    (hids : ∀ x ∈ fl, x.1.id < 10 ^ 18)
    (g : RaceGor) (todo : List RaceGor)
    (hgs : ∀ g' ∈ g :: todo, g'.id ∈ fl.map (·.1.id) ∧ RaceGorOK g')
    (done : List RaceGor) (st : St) (hst : st = .gotRaceOperationFile ∨ st = .gotRaceGoroutineFile) (gi : Nat) :
    ∃ gi', Steps ⟨st, fl.map (partG done), gi, []⟩ (((g :: todo).flatMap raceGorLines).map (· ++ eolOf crlf))
      ⟨.gotRaceGoroutineFile, fl.map (partG (done ++ g :: todo)), gi', []⟩ := by
  induction todo generalizing g done st gi with
  | nil =>
    obtain ⟨gi', h⟩ := race_section_steps crlf fl hnd hids done g (hgs g (by simp)).1 (hgs g (by simp)).2 st hst gi
    exact ⟨gi', by simpa using h⟩
  | cons g2 todo ih =>
    obtain ⟨gi1, h1⟩ := race_section_steps crlf fl hnd hids done g (hgs g (by simp)).1 (hgs g (by simp)).2 st hst gi
    obtain ⟨gi2, h2⟩ := ih g2 (fun x hx => hgs x (List.mem_cons_of_mem _ hx)) (done ++ [g]) .gotRaceGoroutineFile
      (Or.inr rfl) gi1
    refine ⟨gi2, ?_⟩
    have := Steps.append h1 h2
    simpa [List.flatMap_cons] using this

/-! ### the whole report -/

structure RaceOK (r : RaceSpec) : Prop where
  opsNe : r.ops ≠ []
  gorsNe : r.gors ≠ []
  ops : ∀ op ∈ r.ops, RaceOpOK op
  gors : ∀ g ∈ r.gors, g.id ∈ r.ops.map (·.id) ∧ RaceGorOK g
  nodup : (r.ops.map (·.id)).Nodup

theorem raceWF_ok (r : RaceSpec) (h : raceWF r = true) : RaceOK r := by
  simp only [raceWF, Bool.and_eq_true, decide_eq_true_eq, List.all_eq_true, Bool.not_eq_true'] at h
  obtain ⟨⟨⟨⟨h1, h2⟩, h3⟩, h4⟩, h5⟩ := h
  refine ⟨?_, ?_, fun op hop => raceOpWF_ok op (h3 op hop), ?_, h5⟩
  · intro he; rw [he] at h1; simp at h1
  · intro he; rw [he] at h2; simp at h2
  · intro g hg
    have := h4 g hg
    simp only [raceGorWF, Bool.and_eq_true, List.all_eq_true, Bool.not_eq_true', List.contains_iff_mem] at this
    obtain ⟨⟨g1, g2⟩, g3⟩ := this
    refine ⟨g1, ?_, fun f hf => raceFrameWF_ok f (g3 f hf)⟩
    intro he; rw [he] at g2; simp at g2

theorem flagOps_ids (ops : List RaceOp) : (flagOps ops).map (·.1.id) = ops.map (·.id) := by
  cases ops with
  | nil => rfl
  | cons op ops => simp [flagOps, List.map_map, Function.comp_def]

theorem flagOps_fst {ops : List RaceOp} {x : RaceOp × Bool} (h : x ∈ flagOps ops) : x.1 ∈ ops := by
  cases ops with
  | nil => simp [flagOps] at h
  | cons op ops =>
    simp only [flagOps, List.mem_cons, List.mem_map] at h
    rcases h with h | ⟨o, ho, rfl⟩
    · rw [h]; simp
    · simp [ho]

/-- the separator and the warning line -/
theorem race_head_steps (crlf : Bool) (gi : Nat) :
    Steps ⟨.looking, [], gi, []⟩
      ([Extracted.raceHeaderFooter, Extracted.raceHeader].map (· ++ eolOf crlf))
      ⟨.gotRaceHeader2, [], gi, []⟩ := by
  have h1 : Steps ⟨.looking, [], gi, []⟩ [Extracted.raceHeaderFooter ++ eolOf crlf] ⟨.gotRaceHeader1, [], gi, []⟩ :=
    race_step crlf _ _ _ rfl (by simp) (by decide)
      (scan_race_sep _ (lineOf_ok _) gi (by decide) (by decide))
  have h2 : Steps ⟨.gotRaceHeader1, [], gi, []⟩ [Extracted.raceHeader ++ eolOf crlf] ⟨.gotRaceHeader2, [], gi, []⟩ :=
    race_step crlf _ _ _ rfl (by simp) (by decide) (scan_race_warn _ (lineOf_ok _) gi (by decide))
  exact Steps.append h1 h2

/-- all the operations -/
theorem race_ops_steps (crlf : Bool) (ops : List RaceOp) (hne : ops ≠ []) (hops : ∀ op ∈ ops, RaceOpOK op)
    (gi : Nat) :
    ∃ gi', Steps ⟨.gotRaceHeader2, [], gi, []⟩ ((raceOpsLines true ops).map (· ++ eolOf crlf))
      ⟨.gotRaceOperationFile, (flagOps ops).map (partG []), gi', []⟩ := by
  cases ops with
  | nil => exact absurd rfl hne
  | cons op ops =>
    have h1 := race_first_op_steps crlf op (hops op (by simp)) gi
    obtain ⟨gi', h2⟩ := race_next_ops_steps crlf ops (fun x hx => hops x (by simp [hx])) [opG op true] 0
    refine ⟨gi', ?_⟩
    have := Steps.append h1 h2
    simpa [raceOpsLines, flagOps, List.map_map, Function.comp_def, partG_nil] using this

/-- the closing separator -/
theorem race_end_step (crlf : Bool) (gs : List Goroutine) (gi : Nat) :
    Steps ⟨.gotRaceGoroutineFile, gs, gi, []⟩ [Extracted.raceHeaderFooter ++ eolOf crlf] ⟨.done, gs, gi, []⟩ :=
  race_step crlf _ _ _ rfl (by simp) (by decide) (scan_race_end gs gi _ (lineOf_ok _) (by decide) (by decide))

/-- scanning all the lines of a report -/
theorem race_steps (crlf : Bool) (r : RaceSpec) (hr : RaceOK r) :
    ∃ gi, Steps ⟨.looking, [], 0, []⟩ ((raceLines r).map (· ++ eolOf crlf)) ⟨.done, expectedRace r, gi, []⟩ := by
  have h1 := race_head_steps crlf 0
  obtain ⟨gi2, h2⟩ := race_ops_steps crlf r.ops hr.opsNe hr.ops 0
  have hnd : ((flagOps r.ops).map (·.1.id)).Nodup := by rw [flagOps_ids]; exact hr.nodup
  have hids : ∀ x ∈ flagOps r.ops, x.1.id < 10 ^ 18 := fun x hx => (hr.ops _ (flagOps_fst hx)).id
  cases hg : r.gors with
  | nil => exact absurd hg hr.gorsNe
  | cons g todo =>
    have hgs : ∀ g' ∈ g :: todo, g'.id ∈ (flagOps r.ops).map (·.1.id) ∧ RaceGorOK g' := by
      intro g' hg'
      rw [flagOps_ids]
      exact hr.gors g' (by rw [hg]; exact hg')
    obtain ⟨gi3, h3⟩ := race_sections_steps crlf (flagOps r.ops) hnd hids g todo hgs [] .gotRaceOperationFile
      (Or.inl rfl) gi2
    have h4 := race_end_step crlf ((flagOps r.ops).map (partG ([] ++ g :: todo))) gi3
    refine ⟨gi3, ?_⟩
    have := Steps.append h1 (Steps.append h2 (Steps.append h3 h4))
    rw [expectedRace_eq, hg]
    unfold raceLines
    rw [hg]
    simpa using this

/-! ### the printed report as a list of raw lines -/

theorem printRace_eq_flatten (crlf : Bool) (r : RaceSpec) :
    printRace crlf r = ((raceLines r).map (· ++ eolOf crlf)).flatten := by
  unfold printRace
  rw [List.flatMap_def]
  rfl

theorem hex12_noNL (n : Nat) : noNL (hex12 n) := not_mem_of_all (hex12_all_lowerHex n) (by decide)

theorem raceOpHeader_noNL (first : Bool) (op : RaceOp) : noNL (raceOpHeader first op) := by
  unfold raceOpHeader
  refine noNL_append (noNL_append (noNL_append (noNL_append (noNL_append ?_ ?_) (hex12_noNL _)) ?_) (natToDec_noNL _)) ?_
  · show (10 : UInt8) ∉ _
    cases first <;> cases op.write <;> decide
  · show (10 : UInt8) ∉ b!" at 0x"; decide
  · show (10 : UInt8) ∉ b!" by goroutine "; decide
  · show (10 : UInt8) ∉ b!":"; decide

theorem raceGorHeader_noNL (g : RaceGor) : noNL (raceGorHeader g) := by
  unfold raceGorHeader
  refine noNL_append (noNL_append (noNL_append ?_ (natToDec_noNL _)) ?_) ?_
  · show (10 : UInt8) ∉ b!"Goroutine "; decide
  · show (10 : UInt8) ∉ _
    cases g.finished <;> decide
  · show (10 : UInt8) ∉ b!" created at:"; decide

theorem raceFrameLines_noNL (f : FrameSpec) (hf : RaceFrameOK f) : ∀ l ∈ raceFrameLines f, noNL l := by
  intro l hl
  rw [raceFrameLines_eq f hf.inl] at hl
  simp only [List.mem_cons, List.not_mem_nil, or_false] at hl
  rcases hl with hl | hl
  · rw [hl]
    refine noNL_append ?_ (funcLine_noNL f hf.ok.sym.nl)
    show (10 : UInt8) ∉ b!"  "; decide
  · rw [hl]
    refine noNL_append ?_ (noNL_append hf.ok.file.nl (tailText_noNL _ _ _))
    show (10 : UInt8) ∉ List.replicate 6 (32 : UInt8); decide

theorem raceFrames_noNL (fs : List FrameSpec) (hfs : ∀ f ∈ fs, RaceFrameOK f) :
    ∀ l ∈ fs.flatMap raceFrameLines, noNL l := by
  intro l hl
  obtain ⟨f, hf, hlf⟩ := List.mem_flatMap.1 hl
  exact raceFrameLines_noNL f (hfs f hf) l hlf

theorem raceOpsLines_noNL (first : Bool) (ops : List RaceOp) (hops : ∀ op ∈ ops, RaceOpOK op) :
    ∀ l ∈ raceOpsLines first ops, noNL l := by
  induction ops generalizing first with
  | nil => intro l hl; simp [raceOpsLines] at hl
  | cons op ops ih =>
    intro l hl
    simp only [raceOpsLines, raceOpLines, List.mem_append, List.mem_singleton] at hl
    rcases hl with ((hl | hl) | hl) | hl
    · cases first
      · simp at hl; rw [hl]; exact noNL_nil
      · simp at hl
    · rw [hl]; exact raceOpHeader_noNL _ _
    · exact raceFrames_noNL _ (hops op (by simp)).frames l hl
    · exact ih false (fun x hx => hops x (by simp [hx])) l hl

theorem raceLines_noNL (r : RaceSpec) (hr : RaceOK r) : ∀ l ∈ raceLines r, noNL l := by
  intro l hl
  simp only [raceLines, List.mem_append, List.mem_cons, List.not_mem_nil, or_false, List.mem_flatMap] at hl
  rcases hl with (((hl | hl) | hl) | ⟨g, hg, hl⟩) | hl
  · rw [hl]; show (10 : UInt8) ∉ _; decide
  · rw [hl]; show (10 : UInt8) ∉ _; decide
  · exact raceOpsLines_noNL true r.ops hr.ops l hl
  · simp only [raceGorLines, List.mem_append, List.mem_cons, List.not_mem_nil, or_false] at hl
    rcases hl with (hl | hl) | hl
    · rw [hl]; exact noNL_nil
    · rw [hl]; exact raceGorHeader_noNL g
    · exact raceFrames_noNL _ (hr.gors g hg).2.frames l hl
  · rw [hl]; show (10 : UInt8) ∉ _; decide

theorem eolLine_line (crlf : Bool) (t : Bytes) (ht : noNL t) :
    ∃ x, t ++ eolOf crlf = x ++ [10] ∧ (10 : UInt8) ∉ x := by
  cases crlf with
  | false => exact ⟨t, rfl, ht⟩
  | true =>
    refine ⟨t ++ [13], by simp [eolOf], ?_⟩
    exact noNL_append ht (by show (10 : UInt8) ∉ [13]; decide)

/-- what the reader yields for a printed report that runs to EOF -/
theorem specLines_race (crlf : Bool) (r : RaceSpec) (hr : RaceOK r) :
    specLines (printRace crlf r) .eof =
      ((raceLines r).map (· ++ eolOf crlf)).map (fun l => (l, none)) ++ [([], some .eof)] := by
  unfold specLines
  rw [printRace_eq_flatten, splitLines_flatten]
  intro l hl
  obtain ⟨t, ht, rfl⟩ := List.mem_map.1 hl
  exact eolLine_line crlf t (raceLines_noNL r hr t ht)

/-- the loop over the lines of a printed report -/
theorem race_roundtrip_aux (crlf : Bool) (r : RaceSpec) (hwf : raceWF r = true) :
    ∃ gi, scanL {} [] [] (specLines (printRace crlf r) .eof) =
      { s := ⟨.done, expectedRace r, gi, []⟩, fwd := [], consumed := (raceLines r).map (· ++ eolOf crlf),
        err := none, rest := [([], some .eof)], broke := false } := by
  have hr := raceWF_ok r hwf
  obtain ⟨gi, hsteps⟩ := race_steps crlf r hr
  refine ⟨gi, ?_⟩
  rw [specLines_race crlf r hr]
  have h0 : ({} : S) = ⟨.looking, [], 0, []⟩ := rfl
  rw [h0, scanL_steps hsteps, scanL_done _ _ _ _ rfl]
  simp

end PP.Spec
