import PP.Lemmas.LinePrint
import PP.Lemmas.ReaderLemmas
/-
Stage 3 of C01: the printed dump as a list of raw lines — every raw line of a
well-formed dump is newline-terminated and has no other newline, so the reader's
canonical split (`specLines`) of the printed bytes is exactly `dumpRaw`.
-/
namespace PP.Spec
open PP Bytes

/-! ### the tail of a file line -/

theorem tailByte_of_lowerHex {x : UInt8} (h : isLowerHex x = true) : tailByte x = true := by
  simp [tailByte, h]

theorem all_tailByte_of_lowerHex {s : Bytes} (h : s.all isLowerHex = true) : s.all tailByte = true := by
  rw [List.all_eq_true] at *
  intro x hx
  exact tailByte_of_lowerHex (h x hx)

theorem natToHex_all_tailByte (n : Nat) : (natToHex n).all tailByte = true :=
  all_tailByte_of_lowerHex (natToHex_all_lowerHex n)

theorem natToDec_all_tailByte (n : Nat) : (natToDec n).all tailByte = true := by
  have h := natToDec_all_digit n
  rw [List.all_eq_true] at *
  intro x hx
  exact tailByte_of_lowerHex (by simp [isLowerHex, h x hx])

theorem offText_all_tailByte (off : Option Nat) : (offText off).all tailByte = true := by
  cases off with
  | none => rfl
  | some o =>
    unfold offText
    rw [List.all_append, natToHex_all_tailByte]
    decide

theorem fpText_all_tailByte (fp : Option (Nat × Nat × Option Nat)) : (fpText fp).all tailByte = true := by
  cases fp with
  | none => rfl
  | some v =>
    obtain ⟨a, b, pc⟩ := v
    cases pc with
    | none =>
      unfold fpText
      simp only [List.all_append, natToHex_all_tailByte, List.all_nil, Bool.and_true]
      decide
    | some p =>
      unfold fpText
      simp only [List.all_append, natToHex_all_tailByte, Bool.and_true]
      decide

theorem tailText_all_tailByte (line : Nat) (off : Option Nat) (fp : Option (Nat × Nat × Option Nat)) :
    (tailText line off fp).all tailByte = true := by
  unfold tailText
  simp only [List.all_append, natToDec_all_tailByte, offText_all_tailByte, fpText_all_tailByte,
    Bool.and_true]
  decide

/-- every byte of the tail of a file line is a lower-hex digit or one of `: +xps=` -/
theorem tailText_bytes (line : Nat) (off : Option Nat) (fp : Option (Nat × Nat × Option Nat)) :
    ∀ x ∈ tailText line off fp, tailByte x = true :=
  List.all_eq_true.1 (tailText_all_tailByte line off fp)

theorem tailText_lacks (line : Nat) (off : Option Nat) (fp : Option (Nat × Nat × Option Nat)) (c : UInt8)
    (h : tailByte c = false) : c ∉ tailText line off fp := by
  intro hm
  rw [tailText_bytes line off fp c hm] at h
  exact Bool.noConfusion h

theorem tailText_ne_nil (line : Nat) (off : Option Nat) (fp : Option (Nat × Nat × Option Nat)) :
    tailText line off fp ≠ [] := by
  unfold tailText
  simp

/-! ### the printed dump is the concatenation of its raw lines -/

theorem printGoroutine_eq_flatten (c : PrintCfg) (g : GSpec) :
    printGoroutine c g = (goroutineRaw c g).flatten := by
  unfold printGoroutine goroutineRaw
  rw [List.flatMap_def]
  rfl

/-- the printed dump is the concatenation of its raw lines -/
theorem printDump_eq_flatten (c : PrintCfg) (d : List GSpec) : printDump c d = (dumpRaw c d).flatten := by
  unfold printDump
  induction d with
  | nil => rfl
  | cons g gs ih =>
    cases gs with
    | nil =>
      show printGoroutine c g = (goroutineRaw c g).flatten
      exact printGoroutine_eq_flatten c g
    | cons g' gs' =>
      show printGoroutine c g ++ c.eol ++ join c.eol ((g' :: gs').map (printGoroutine c)) =
        (goroutineRaw c g ++ [eolOf c.crlf] ++ dumpRaw c (g' :: gs')).flatten
      rw [ih, List.flatten_append, List.flatten_append, printGoroutine_eq_flatten, eol_eq]
      simp

/-! ### no newline inside a line -/

/-- the byte string contains no newline -/
def noNL (l : Bytes) : Prop := (10 : UInt8) ∉ l

theorem noNL_append {a b : Bytes} (ha : noNL a) (hb : noNL b) : noNL (a ++ b) := by
  unfold noNL at *
  rw [List.mem_append, not_or]
  exact ⟨ha, hb⟩

theorem noNL_nil : noNL [] := by
  unfold noNL
  exact List.not_mem_nil

theorem natToDec_noNL (n : Nat) : noNL (natToDec n) := not_mem_natToDec n 10 (by decide)

theorem wordWF_noNL {w : Bytes} (h : wordWF w = true) : noNL w := by
  simp only [wordWF, Bool.and_eq_true] at h
  exact (lacks_iff _ _).1 h.2

theorem gpmText_noNL (gpm : Option (Bytes × Bytes × Option Bytes)) (h : gpmWF gpm = true) :
    noNL (gpmText gpm) := by
  cases gpm with
  | none => exact noNL_nil
  | some v =>
    obtain ⟨gp, m, mp⟩ := v
    simp only [gpmWF, Bool.and_eq_true] at h
    obtain ⟨⟨hgp, hm⟩, hmp⟩ := h
    unfold gpmText
    refine noNL_append (noNL_append (noNL_append (noNL_append ?_ (wordWF_noNL hgp)) ?_) (wordWF_noNL hm)) ?_
    · show (10 : UInt8) ∉ b!" gp="; decide
    · show (10 : UInt8) ∉ b!" m="; decide
    · cases mp with
      | none => exact noNL_nil
      | some mp =>
        simp only at hmp
        refine noNL_append ?_ (wordWF_noNL hmp)
        show (10 : UInt8) ∉ b!" mp="; decide

theorem statusText_noNL (g : GSpec) (h : noNL (expState g)) : noNL (statusText g) := by
  show noNL (expState g ++ (if g.waitMin > 0 then b!", " ++ natToDec g.waitMin ++ b!" minutes" else []) ++
    (if g.locked then b!", locked to thread" else []))
  refine noNL_append (noNL_append h ?_) ?_
  · split
    · refine noNL_append (noNL_append ?_ (natToDec_noNL _)) ?_
      · show (10 : UInt8) ∉ b!", "; decide
      · show (10 : UInt8) ∉ b!" minutes"; decide
    · exact noNL_nil
  · split
    · show (10 : UInt8) ∉ b!", locked to thread"; decide
    · exact noNL_nil

theorem headerLine_noNL (g : GSpec) (hst : statusWF g = true) (hgpm : gpmWF g.gpm = true) :
    noNL (headerLine g) := by
  unfold headerLine
  refine noNL_append (noNL_append (noNL_append (noNL_append (noNL_append ?_ (natToDec_noNL _))
    (gpmText_noNL _ hgpm)) ?_) (statusText_noNL g (statusWF_iff g hst).2.1)) ?_
  · show (10 : UInt8) ∉ b!"goroutine "; decide
  · show (10 : UInt8) ∉ b!" ["; decide
  · show (10 : UInt8) ∉ b!"]:"; decide

theorem escapePkg_noNL (p : Bytes) : noNL (escapePkg p) := by
  intro h
  have := (escapePkg_bytes p 10 h).1
  revert this; decide

theorem symbol_noNL (f : FrameSpec) (hn : noNL f.name) : noNL f.symbol := by
  unfold FrameSpec.symbol
  split
  · exact hn
  · refine noNL_append (noNL_append (escapePkg_noNL _) ?_) hn
    show (10 : UInt8) ∉ b!"."; decide

theorem funcLine_noNL (f : FrameSpec) (hn : noNL f.name) : noNL (funcLine f) := by
  unfold funcLine
  refine noNL_append (noNL_append (noNL_append (symbol_noNL f hn) ?_) ?_) ?_
  · show (10 : UInt8) ∉ b!"("; decide
  · split
    · show (10 : UInt8) ∉ b!"..."; decide
    · exact printArgList_lacks _ _ 10 (by decide)
  · show (10 : UInt8) ∉ b!")"; decide

theorem fileIndent_noNL {fi : Bytes} (h : FileIndentOK fi) : noNL fi := by
  cases h with
  | tab => show (10 : UInt8) ∉ [9]; decide
  | spaces n =>
    intro hm
    have := (List.mem_replicate.1 hm).2
    revert this; decide

theorem tailText_noNL (line : Nat) (off : Option Nat) (fp : Option (Nat × Nat × Option Nat)) :
    noNL (tailText line off fp) := tailText_lacks line off fp 10 (by decide)

theorem fileText_eq (f : FrameSpec) : fileText f = f.file ++ tailText f.line f.off f.fp := by
  simp [fileText, tailText]

theorem fileLine_noNL (c : PrintCfg) (f : FrameSpec) (hc : CfgOK c) (hf : noNL f.file) :
    noNL (c.fileIndent ++ fileText f) := by
  rw [fileText_eq]
  exact noNL_append (fileIndent_noNL hc.fileIndent) (noNL_append hf (tailText_noNL _ _ _))

theorem marker_noNL (cnt : Option Nat) : noNL (elidedMarker cnt) := by
  cases cnt with
  | none => show (10 : UInt8) ∉ b!"...additional frames elided..."; decide
  | some n =>
    unfold elidedMarker
    refine noNL_append (noNL_append ?_ (natToDec_noNL n)) ?_
    · show (10 : UInt8) ∉ b!"..."; decide
    · show (10 : UInt8) ∉ b!" frames elided..."; decide

theorem unavailLine_noNL (c : PrintCfg) (hc : CfgOK c) : noNL (unavailLine c) := by
  unfold unavailLine
  refine noNL_append (fileIndent_noNL hc.fileIndent) ?_
  show (10 : UInt8) ∉ unavailText; decide

theorem parentText_noNL (p : Option Nat) : noNL (parentText p) := by
  cases p with
  | none => exact noNL_nil
  | some n =>
    unfold parentText
    refine noNL_append ?_ (natToDec_noNL n)
    show (10 : UInt8) ∉ b!" in goroutine "; decide

/-- the creator's file line has no frame-pointer annotation -/
theorem createdFile_eq (f : FrameSpec) :
    f.file ++ b!":" ++ natToDec f.line ++ offText f.off = f.file ++ tailText f.line f.off none := by
  simp [tailText, fpText]

theorem createdLines_noNL (c : PrintCfg) (cr : Option (FrameSpec × Option Nat)) (hc : CfgOK c)
    (h : ∀ f p, cr = some (f, p) → noNL f.name ∧ noNL f.file) :
    ∀ l ∈ createdLines c cr, noNL l := by
  cases cr with
  | none => intro l hl; simp [createdLines] at hl
  | some v =>
    obtain ⟨f, p⟩ := v
    obtain ⟨hn, hf⟩ := h f p rfl
    intro l hl
    simp only [createdLines, List.mem_cons, List.not_mem_nil, or_false] at hl
    rcases hl with hl | hl
    · rw [hl]
      refine noNL_append (noNL_append ?_ (symbol_noNL f hn)) (parentText_noNL p)
      show (10 : UInt8) ∉ b!"created by "; decide
    · rw [hl, createdFile_eq]
      exact noNL_append (fileIndent_noNL hc.fileIndent) (noNL_append hf (tailText_noNL _ _ _))

theorem frameLines_noNL (c : PrintCfg) (f : FrameSpec) (hc : CfgOK c) (hn : noNL f.name) (hf : noNL f.file) :
    ∀ l ∈ frameLines c f, noNL l := by
  intro l hl
  simp only [frameLines, List.mem_cons, List.not_mem_nil, or_false] at hl
  rcases hl with hl | hl
  · rw [hl]; exact funcLine_noNL f hn
  · rw [hl]; exact fileLine_noNL c f hc hf

theorem flatMap_frameLines_noNL (c : PrintCfg) (fs : List FrameSpec) (hc : CfgOK c)
    (h : ∀ f ∈ fs, noNL f.name ∧ noNL f.file) :
    ∀ l ∈ fs.flatMap (frameLines c), noNL l := by
  intro l hl
  obtain ⟨f, hf, hlf⟩ := List.mem_flatMap.1 hl
  exact frameLines_noNL c f hc (h f hf).1 (h f hf).2 l hlf

theorem stackLines_noNL (c : PrintCfg) (fs : List FrameSpec) (el : Option (Option Nat × Nat)) (hc : CfgOK c)
    (h : ∀ f ∈ fs, noNL f.name ∧ noNL f.file) :
    ∀ l ∈ stackLines c fs el, noNL l := by
  intro l hl
  unfold stackLines at hl
  split at hl
  · exact flatMap_frameLines_noNL c fs hc h l hl
  · split at hl
    · simp only [List.mem_append, List.mem_singleton] at hl
      rcases hl with (hl | hl) | hl
      · exact flatMap_frameLines_noNL c _ hc (fun f hf => h f (List.mem_of_mem_take hf)) l hl
      · rw [hl]; exact marker_noNL _
      · exact flatMap_frameLines_noNL c _ hc (fun f hf => h f (List.mem_of_mem_drop hf)) l hl
    · exact flatMap_frameLines_noNL c fs hc h l hl

theorem frameWF_noNL {c : PrintCfg} {f : FrameSpec} {cr hp : Bool} (h : frameWF c f cr hp = true) :
    noNL f.name ∧ noNL f.file := by
  simp only [frameWF, Bool.and_eq_true] at h
  obtain ⟨⟨⟨hs, hf⟩, _⟩, _⟩ := h
  exact ⟨(symWF_ok f hp hs).nl, (fileWF_ok c f.file hf).nl⟩

/-- no line of a well-formed goroutine contains a newline -/
theorem goroutineLines_noNL (c : PrintCfg) (g : GSpec) (hc : cfgWF c = true) (hg : gWF c g = true) :
    ∀ l ∈ goroutineLines c g, (10 : UInt8) ∉ l := by
  have hcfg := cfgWF_ok c hc
  simp only [gWF, Bool.and_eq_true] at hg
  obtain ⟨⟨⟨⟨⟨_, _⟩, hst⟩, hgpm⟩, hfr⟩, hcr⟩ := hg
  intro l hl
  unfold goroutineLines at hl
  simp only [List.mem_append, List.mem_singleton] at hl
  rcases hl with (hl | hl) | hl
  · rw [hl]; exact headerLine_noNL g hst hgpm
  · cases hu : g.unavail with
    | true =>
      rw [hu] at hl
      simp only [if_true, List.mem_singleton] at hl
      rw [hl]; exact unavailLine_noNL c hcfg
    | false =>
      rw [hu] at hl hfr
      simp only [Bool.false_eq_true, if_false] at hl
      simp only [Bool.false_or, Bool.and_eq_true, List.all_eq_true] at hfr
      exact stackLines_noNL c g.frames g.elided hcfg (fun f hf => frameWF_noNL (hfr.1.2 f hf)) l hl
  · refine createdLines_noNL c g.created hcfg ?_ l hl
    intro f p he
    rw [he] at hcr
    exact frameWF_noNL hcr

/-! ### the canonical split of the printed dump -/

/-- canonical line split of a list of newline-terminated lines -/
theorem splitLines_flatten (ls : List Bytes) (h : ∀ l ∈ ls, ∃ x, l = x ++ [10] ∧ (10 : UInt8) ∉ x) :
    splitLines ls.flatten = (ls, []) := by
  induction ls with
  | nil => rfl
  | cons l ls ih =>
    obtain ⟨x, hx, hnl⟩ := h l (List.mem_cons_self ..)
    have ih' := ih (fun l' hl' => h l' (List.mem_cons_of_mem _ hl'))
    rw [List.flatten_cons, hx, splitLines_line_append x ls.flatten hnl, ih']

theorem mem_dumpRaw {c : PrintCfg} {d : List GSpec} {l : Bytes} (h : l ∈ dumpRaw c d) :
    l = eolOf c.crlf ∨ ∃ g ∈ d, ∃ t ∈ goroutineLines c g, l = rawLine c t := by
  induction d with
  | nil => simp [dumpRaw] at h
  | cons g gs ih =>
    have hg : l ∈ goroutineRaw c g → ∃ g' ∈ g :: gs, ∃ t ∈ goroutineLines c g', l = rawLine c t := by
      intro hm
      obtain ⟨t, ht, e⟩ := List.mem_map.1 hm
      exact ⟨g, List.mem_cons_self .., t, ht, e.symm⟩
    cases gs with
    | nil => exact Or.inr (hg h)
    | cons g' gs' =>
      have h' : l ∈ goroutineRaw c g ++ [eolOf c.crlf] ++ dumpRaw c (g' :: gs') := h
      simp only [List.mem_append, List.mem_singleton] at h'
      rcases h' with (h' | h') | h'
      · exact Or.inr (hg h')
      · exact Or.inl h'
      · rcases ih h' with h2 | ⟨g2, hg2, t, ht, e⟩
        · exact Or.inl h2
        · exact Or.inr ⟨g2, List.mem_cons_of_mem _ hg2, t, ht, e⟩

theorem eolOf_line (crlf : Bool) : ∃ x, eolOf crlf = x ++ [10] ∧ (10 : UInt8) ∉ x := by
  cases crlf with
  | false => exact ⟨[], rfl, List.not_mem_nil⟩
  | true => exact ⟨[13], rfl, by decide⟩

theorem indent_noNL {c : PrintCfg} (hc : CfgOK c) : noNL c.indent :=
  not_mem_of_all hc.indent (by decide)

theorem rawLine_line (c : PrintCfg) (t : Bytes) (hc : CfgOK c) (ht : (10 : UInt8) ∉ t) :
    ∃ x, rawLine c t = x ++ [10] ∧ (10 : UInt8) ∉ x := by
  unfold rawLine
  have h0 : noNL (c.indent ++ t) := noNL_append (indent_noNL hc) ht
  cases c.crlf with
  | false => exact ⟨c.indent ++ t, rfl, h0⟩
  | true =>
    refine ⟨c.indent ++ t ++ [13], by simp [eolOf], ?_⟩
    exact noNL_append h0 (by show (10 : UInt8) ∉ [13]; decide)

/-- every raw line of a well-formed dump is newline-terminated and has no other newline -/
theorem dumpRaw_lines (c : PrintCfg) (d : List GSpec) (hc : cfgWF c = true) (hd : ∀ g ∈ d, gWF c g = true) :
    ∀ l ∈ dumpRaw c d, ∃ x, l = x ++ [10] ∧ (10 : UInt8) ∉ x := by
  intro l hl
  rcases mem_dumpRaw hl with h | ⟨g, hg, t, ht, e⟩
  · rw [h]; exact eolOf_line _
  · rw [e]
    exact rawLine_line c t (cfgWF_ok c hc) (goroutineLines_noNL c g hc (hd g hg) t ht)

/-- what the reader yields for a printed dump that runs to EOF -/
theorem specLines_dump (c : PrintCfg) (d : List GSpec) (hc : cfgWF c = true) (hd : ∀ g ∈ d, gWF c g = true) :
    specLines (printDump c d) .eof = (dumpRaw c d).map (fun l => (l, none)) ++ [([], some .eof)] := by
  unfold specLines
  rw [printDump_eq_flatten, splitLines_flatten _ (dumpRaw_lines c d hc hd)]

#print axioms specLines_dump
#print axioms goroutineLines_noNL

end PP.Spec
