import PP.Lemmas.RootsLayout
import PP.Lemmas.RootsSplit
/-
Local go.mod modules in the layout theorem of C18: the directory prefixes
`isGoModule` walks, the invariant of its cache ("an entry is under a recorded
module, or has no go.mod and its parent directory is an entry too"), and what
the walk answers on a file no recorded module claims.
-/
namespace PP
open Bytes

/-! ### splitPath: the first part is not a run of slashes once there are two parts -/

def HeadOK (out : List Bytes) : Prop := ∀ h0 ∈ out.head?, allSlash h0 = false

theorem HeadOK.push {out : List Bytes} {s : Bytes} (h : HeadOK out) (hs : out = [] → allSlash s = false) :
    HeadOK (out ++ [s]) := by
  cases out with
  | nil =>
    intro h0 hh
    simp only [List.nil_append, List.head?_cons, Option.mem_def, Option.some.injEq] at hh
    exact hh ▸ hs rfl
  | cons a t =>
    intro h0 hh
    exact h h0 (by simpa using hh)

theorem splitPathGo_head (fuel : Nat) (p : Bytes) (out : List Bytes) (s : Bytes) (h : HeadOK out) :
    2 ≤ (splitPathGo fuel p out s).length → HeadOK (splitPathGo fuel p out s) := by
  induction fuel generalizing p out s with
  | zero => intro _; exact h
  | succ n ih =>
    cases p with
    | nil =>
      simp only [splitPathGo]
      split
      · intro hl
        apply h.push
        intro e
        subst e
        simp at hl
      · intro _; exact h
    | cons b t =>
      simp only [splitPathGo]
      split
      · exact ih _ _ _ h
      · rename_i hc
        split
        · apply ih
          apply h.push
          intro e
          subst e
          simp only [List.isEmpty_nil, Bool.true_and, Bool.or_eq_true, bne_iff_ne, ne_eq, not_or,
            Bool.not_eq_true] at hc
          exact hc.2
        · exact ih _ _ _ h

/-- `splitPath`: with two parts or more, the first one has a byte other than `/` -/
theorem splitPath_head (p : Bytes) (h : 2 ≤ (splitPath p).length) : HeadOK (splitPath p) := by
  unfold splitPath at h ⊢
  split
  · rename_i hp; simp [hp] at h
  · rename_i hp
    simp only [hp] at h
    exact splitPathGo_head _ _ _ _ (by intro h0 hh; simp at hh) h

/-! ### the directory prefixes `parts[:i]` joined -/

/-- the shape of the list of directories `isGoModule` receives -/
structure DirShape (ps : List Bytes) : Prop where
  tail : ∀ x ∈ ps.tail, (47 : UInt8) ∉ x
  head : ∀ x ∈ ps.head?, FirstShape x ∧ allSlash x = false

/-- `parts[:i]` joined -/
def pfx (ps : List Bytes) (i : Nat) : Bytes := pathJoin (ps.take i)

theorem pfx_succ {ps : List Bytes} {i : Nat} (h1 : 0 < i) (h2 : i < ps.length) :
    pfx ps (i + 1) = pfx ps i ++ 47 :: ps[i] := by
  have e : ps.take (i + 1) = ps.take i ++ [ps[i]] := by
    rw [List.take_add_one, List.getElem?_eq_getElem h2]
    rfl
  have hne : ps.take i ≠ [] := by
    cases ps with
    | nil => simp at h2
    | cons a t =>
      cases i with
      | zero => omega
      | succ n => simp
  unfold pfx pathJoin
  rw [e, join_append b!"/" hne (by simp)]
  simp [Bytes.join]

theorem pfx_one {ps : List Bytes} {a : Bytes} (h : ps.head? = some a) : pfx ps 1 = a := by
  cases ps with
  | nil => simp at h
  | cons x t =>
    simp only [List.head?_cons, Option.some.injEq] at h
    subst h
    simp [pfx, pathJoin, Bytes.join]

/-- a prefix starts with the first part -/
theorem pfx_head {ps : List Bytes} {a : Bytes} (h : ps.head? = some a) {i : Nat} (h1 : 0 < i) (h2 : i ≤ ps.length) :
    ∃ t, pfx ps i = a ++ t := by
  induction i with
  | zero => omega
  | succ n ih =>
    by_cases hn : n = 0
    · subst hn
      exact ⟨[], by rw [pfx_one h]; simp⟩
    · obtain ⟨t, e⟩ := ih (by omega) (by omega)
      rw [pfx_succ (by omega) (by omega), e]
      exact ⟨t ++ 47 :: ps[n], by simp⟩

theorem pfx_not_slashes {ps : List Bytes} (hs : DirShape ps) {i : Nat} (h1 : 0 < i) (h2 : i ≤ ps.length) :
    ¬ ∀ c ∈ pfx ps i, c = 47 := by
  cases hh : ps.head? with
  | none =>
    cases ps with
    | nil => simp at h2; omega
    | cons a t => simp at hh
  | some a =>
    obtain ⟨t, e⟩ := pfx_head hh h1 h2
    have := (hs.head a (by simp [hh])).2
    intro hall
    have : allSlash a = true := by
      simp only [allSlash, List.all_eq_true, beq_iff_eq]
      intro c hc
      exact hall c (by rw [e]; simp [hc])
    simp_all

theorem pfx_ne_nil {ps : List Bytes} (hs : DirShape ps) {i : Nat} (h1 : 0 < i) (h2 : i ≤ ps.length) :
    pfx ps i ≠ [] := by
  intro e
  exact pfx_not_slashes hs h1 h2 (by rw [e]; simp)

theorem pfx_length_lt {ps : List Bytes} {i j : Nat} (h1 : 0 < i) (h2 : i < j) (h3 : j ≤ ps.length) :
    (pfx ps i).length < (pfx ps j).length := by
  have := pathJoin_take_drop (ps.take j) i h1 (by simp; omega)
  rw [List.take_take, Nat.min_eq_left (by omega)] at this
  unfold pfx
  rw [← this]
  simp

theorem pfx_ne {ps : List Bytes} {i j : Nat} (h1 : 0 < i) (h2 : i < j) (h3 : j ≤ ps.length) :
    pfx ps i ≠ pfx ps j := by
  intro e
  have := pfx_length_lt h1 h2 h3
  rw [e] at this
  omega

/-- cutting the last directory off `parts[:i]` joined gives `parts[:i-1]` joined,
or (for `i = 1`) a run of slashes -/
theorem pfx_parent {ps : List Bytes} (hs : DirShape ps) {i : Nat} (h1 : 0 < i) (h2 : i ≤ ps.length)
    {d' x : Bytes} (e : pfx ps i = d' ++ 47 :: x) (hx : (47 : UInt8) ∉ x) :
    (2 ≤ i ∧ d' = pfx ps (i - 1)) ∨ ∀ c ∈ d', c = 47 := by
  by_cases hi : i = 1
  · subst hi
    right
    cases hh : ps.head? with
    | none =>
      cases ps with
      | nil => simp at h2
      | cons a t => simp at hh
    | some a =>
      rw [pfx_one hh] at e
      have := (hs.head a (by simp [hh])).1
      rw [e] at this
      exact firstShape_cut this
  · left
    obtain ⟨j, rfl⟩ : ∃ j, i = j + 1 := ⟨i - 1, by omega⟩
    have hlt : j < ps.length := by omega
    rw [pfx_succ (by omega) hlt] at e
    have hmem : ps[j] ∈ ps.tail := by
      cases ps with
      | nil => simp at hlt
      | cons a t =>
        cases j with
        | zero => omega
        | succ n => simp
    obtain ⟨e1, _⟩ := append_sep_inj (hs.tail _ hmem) hx e
    exact ⟨by omega, by simpa using e1.symm⟩

/-- the directories of a frame file: all parts but the last -/
theorem dirShape_dropLast (f : Bytes) : DirShape (splitPath f).dropLast := by
  have hs := splitPath_shape f
  refine ⟨?_, ?_⟩
  · intro x hx
    apply hs.tail x
    cases hp : splitPath f with
    | nil => rw [hp] at hx; simp at hx
    | cons a t =>
      rw [hp] at hx
      cases t with
      | nil => simp at hx
      | cons b u =>
        simp only [List.dropLast_cons_cons, List.tail_cons] at hx ⊢
        exact List.dropLast_subset _ hx
  · intro x hx
    cases hp : splitPath f with
    | nil => rw [hp] at hx; simp at hx
    | cons a t =>
      rw [hp] at hx
      cases t with
      | nil => simp at hx
      | cons b u =>
        simp only [List.dropLast_cons_cons, List.head?_cons, Option.mem_def, Option.some.injEq] at hx
        subst hx
        have h2 : 2 ≤ (splitPath f).length := by rw [hp]; simp
        exact ⟨hs.head a (by rw [hp]; simp), splitPath_head f h2 a (by rw [hp]; simp)⟩

theorem pfx_dropLast (parts : List Bytes) {i : Nat} (h : i < parts.length) :
    pfx parts.dropLast i = pfx parts i := by
  unfold pfx
  rw [List.dropLast_eq_take, List.take_take, Nat.min_eq_left (by omega)]

/-! ### the invariant of the go.mod cache -/

/-- the module declared by `dir/go.mod` (`none`: unreadable or no `module` line) -/
def modAt (fs : FS) (dir : Bytes) : Option Bytes :=
  (fs.readFile (pathJoin [dir, b!"go.mod"])).bind reModule

/-- `d` is a recorded module directory or lies under one -/
def Claimed (keys : List Bytes) (d : Bytes) : Prop :=
  ∃ k ∈ keys, k = d ∨ ∃ x, d = k ++ 47 :: x

theorem Claimed.mono {keys keys' : List Bytes} {d : Bytes} (h : Claimed keys d) (hsub : ∀ k ∈ keys, k ∈ keys') :
    Claimed keys' d := by
  obtain ⟨k, hk, h⟩ := h
  exact ⟨k, hsub k hk, h⟩

/-- Every cache entry is under a recorded module, or has no `go.mod` and its
parent directory (what precedes its last `/`, unless that is a run of slashes)
is an entry too — or is the directory `pend` the walk visits next. -/
def CacheOK (fs : FS) (cache keys : List Bytes) (pend : Option Bytes) : Prop :=
  ∀ d ∈ cache, Claimed keys d ∨
    (modAt fs d = none ∧ ∀ d' x, d = d' ++ 47 :: x → (47 : UInt8) ∉ x →
      (∀ c ∈ d', c = 47) ∨ d' ∈ cache ∨ some d' = pend)

theorem CacheOK.mono {fs : FS} {cache keys keys' : List Bytes} {pend : Option Bytes}
    (h : CacheOK fs cache keys pend) (hsub : ∀ k ∈ keys, k ∈ keys') : CacheOK fs cache keys' pend := by
  intro d hd
  rcases h d hd with h1 | h1
  · exact Or.inl (h1.mono hsub)
  · exact Or.inr h1

theorem CacheOK.pend {fs : FS} {cache keys : List Bytes} (h : CacheOK fs cache keys none) (p : Option Bytes) :
    CacheOK fs cache keys p := by
  intro d hd
  rcases h d hd with h1 | ⟨h1, h2⟩
  · exact Or.inl h1
  · refine Or.inr ⟨h1, ?_⟩
    intro d' x e hx
    rcases h2 d' x e hx with h3 | h3 | h3
    · exact Or.inl h3
    · exact Or.inr (Or.inl h3)
    · cases h3

theorem modAt_of_read {fs : FS} {dir b m : Bytes} (h1 : fs.readFile (pathJoin [dir, b!"go.mod"]) = some b)
    (h2 : reModule b = some m) : modAt fs dir = some m := by
  simp [modAt, h1, h2]

theorem modAt_none_of_read {fs : FS} {dir : Bytes} (h : fs.readFile (pathJoin [dir, b!"go.mod"]) = none) :
    modAt fs dir = none := by
  simp [modAt, h]

theorem modAt_none_of_re {fs : FS} {dir b : Bytes} (h1 : fs.readFile (pathJoin [dir, b!"go.mod"]) = some b)
    (h2 : reModule b = none) : modAt fs dir = none := by
  simp [modAt, h1, h2]

/-- the walk keeps the cache invariant; a module it finds is to be recorded -/
theorem isGoModuleGo_cacheOK {fs : FS} {ps : List Bytes} (hs : DirShape ps) {keys : List Bytes} (n : Nat)
    (hn : n ≤ ps.length) {cache cache' : List Bytes} {root m : Bytes}
    (hc : CacheOK fs cache keys (if 0 < n then some (pfx ps n) else none))
    (h : isGoModuleGo fs ps n cache = (cache', root, m)) :
    (root = [] ∧ CacheOK fs cache' keys none) ∨ (root ≠ [] ∧ CacheOK fs cache' (root :: keys) none) := by
  induction n generalizing cache with
  | zero =>
    simp only [isGoModuleGo, Prod.mk.injEq] at h
    obtain ⟨rfl, rfl, _⟩ := h
    exact Or.inl ⟨rfl, by simpa using hc⟩
  | succ i ih =>
    simp only [Nat.zero_lt_succ, if_true] at hc
    simp only [isGoModuleGo] at h
    split at h
    · -- already looked up: the pending directory is an entry
      rename_i hmem
      simp only [Prod.mk.injEq] at h
      obtain ⟨rfl, rfl, _⟩ := h
      refine Or.inl ⟨rfl, ?_⟩
      have hmem' : pfx ps (i + 1) ∈ cache := by simpa [pfx] using hmem
      intro d hd
      rcases hc d hd with h1 | ⟨h1, h2⟩
      · exact Or.inl h1
      · refine Or.inr ⟨h1, ?_⟩
        intro d' x e hx
        rcases h2 d' x e hx with h3 | h3 | h3
        · exact Or.inl h3
        · exact Or.inr (Or.inl h3)
        · simp only [Option.some.injEq] at h3
          exact Or.inr (Or.inl (h3 ▸ hmem'))
    · -- the entries already there keep their parents
      have hold : ∀ (keys' : List Bytes), (∀ k ∈ keys, k ∈ keys') → ∀ p, ∀ d ∈ cache, Claimed keys' d ∨
          (modAt fs d = none ∧ ∀ d' x, d = d' ++ 47 :: x → (47 : UInt8) ∉ x →
            (∀ c ∈ d', c = 47) ∨ d' ∈ pfx ps (i + 1) :: cache ∨ some d' = p) := by
        intro keys' hsub p d hd
        rcases hc d hd with h1 | ⟨h1, h2⟩
        · exact Or.inl (h1.mono hsub)
        · refine Or.inr ⟨h1, ?_⟩
          intro d' x e hx
          rcases h2 d' x e hx with h3 | h3 | h3
          · exact Or.inl h3
          · exact Or.inr (Or.inl (List.mem_cons_of_mem _ h3))
          · simp only [Option.some.injEq] at h3
            exact Or.inr (Or.inl (h3 ▸ List.mem_cons_self))
      -- the new entry, when it has no go.mod: its parent is visited next
      have hnew : modAt fs (pfx ps (i + 1)) = none →
          CacheOK fs (pfx ps (i + 1) :: cache) keys (if 0 < i then some (pfx ps i) else none) := by
        intro hnone d hd
        simp only [List.mem_cons] at hd
        rcases hd with rfl | hd
        · refine Or.inr ⟨hnone, ?_⟩
          intro d' x e hx
          rcases pfx_parent hs (Nat.succ_pos i) hn e hx with ⟨h2, h3⟩ | h3
          · right; right
            have : 0 < i := by omega
            have e2 : i.succ - 1 = i := by omega
            rw [e2] at h3
            simp only [this, if_true]
            rw [h3]
          · exact Or.inl h3
        · exact hold keys (fun _ h => h) _ d hd
      split at h
      · rename_i hread
        exact ih (by omega) (hnew (modAt_none_of_read hread)) h
      · rename_i b hread
        split at h
        · rename_i m' hre
          simp only [Prod.mk.injEq] at h
          obtain ⟨rfl, rfl, _⟩ := h
          refine Or.inr ⟨pfx_ne_nil hs (Nat.succ_pos i) hn, ?_⟩
          intro d hd
          simp only [List.mem_cons] at hd
          rcases hd with rfl | hd
          · exact Or.inl ⟨_, List.mem_cons_self, Or.inl rfl⟩
          · exact hold _ (fun _ h => List.mem_cons_of_mem _ h) none d hd
        · rename_i hre
          exact ih (by omega) (hnew (modAt_none_of_re hread hre)) h

/-! ### what the walk answers on a file no recorded module claims -/

theorem mem_tail_getElem {ps : List Bytes} {i : Nat} (h1 : 0 < i) (h2 : i < ps.length) : ps[i] ∈ ps.tail := by
  cases ps with
  | nil => simp at h2
  | cons a t =>
    cases i with
    | zero => omega
    | succ n => simp

/-- an entry of the cache that no recorded module claims has no `go.mod`, and
neither has any directory above it -/
theorem cache_chain {fs : FS} {ps : List Bytes} (hs : DirShape ps) {cache keys : List Bytes}
    (hc : CacheOK fs cache keys none)
    (hun : ∀ i, 0 < i → i ≤ ps.length → ¬ Claimed keys (pfx ps i)) :
    ∀ i, 0 < i → i ≤ ps.length → pfx ps i ∈ cache → ∀ j, 0 < j → j ≤ i → modAt fs (pfx ps j) = none := by
  intro i
  induction i with
  | zero => intro h; omega
  | succ n ih =>
    intro h1 h2 hmem j hj1 hj2
    rcases hc _ hmem with hcl | ⟨hnone, hpar⟩
    · exact absurd hcl (hun _ h1 h2)
    · by_cases hj : j = n + 1
      · rw [hj]; exact hnone
      · have hn : 0 < n := by omega
        have hlt : n < ps.length := by omega
        rcases hpar (pfx ps n) ps[n] (pfx_succ hn hlt) (hs.tail _ (mem_tail_getElem hn hlt)) with h3 | h3 | h3
        · exact absurd h3 (pfx_not_slashes hs hn (by omega))
        · exact ih hn (by omega) h3 j hj1 (by omega)
        · cases h3

/-- The walk from `parts[:n]` upwards, started on the cache `cache0` extended
with the directories already visited: it answers the innermost directory with a
`go.mod`, or nothing when there is none. -/
theorem isGoModuleGo_trace {fs : FS} {ps : List Bytes} (n : Nat) (hn : n ≤ ps.length)
    {extra cache0 cache' : List Bytes} {root m : Bytes}
    (hextra : ∀ d ∈ extra, ∃ j, n < j ∧ j ≤ ps.length ∧ d = pfx ps j)
    (hW : ∀ i, 0 < i → i ≤ ps.length → pfx ps i ∈ cache0 → ∀ j, 0 < j → j ≤ i → modAt fs (pfx ps j) = none)
    (h : isGoModuleGo fs ps n (extra ++ cache0) = (cache', root, m)) :
    (root = [] ∧ ∀ j, 0 < j → j ≤ n → modAt fs (pfx ps j) = none) ∨
    (∃ i, 0 < i ∧ i ≤ n ∧ root = pfx ps i ∧ modAt fs root = some m ∧
      ∀ j, i < j → j ≤ n → modAt fs (pfx ps j) = none) := by
  induction n generalizing extra with
  | zero =>
    simp only [isGoModuleGo, Prod.mk.injEq] at h
    exact Or.inl ⟨h.2.1.symm, fun j h1 h2 => by omega⟩
  | succ i ih =>
    simp only [isGoModuleGo] at h
    split at h
    · rename_i hmem
      simp only [Prod.mk.injEq] at h
      refine Or.inl ⟨h.2.1.symm, ?_⟩
      have hmem' : pfx ps (i + 1) ∈ extra ++ cache0 := by simpa [pfx] using hmem
      rcases List.mem_append.mp hmem' with hm | hm
      · obtain ⟨j, hj1, hj2, e⟩ := hextra _ hm
        exact absurd e (pfx_ne (Nat.succ_pos i) hj1 hj2)
      · exact hW (i + 1) (Nat.succ_pos i) hn hm
    · have hextra' : ∀ d ∈ pfx ps (i + 1) :: extra, ∃ j, i < j ∧ j ≤ ps.length ∧ d = pfx ps j := by
        intro d hd
        simp only [List.mem_cons] at hd
        rcases hd with rfl | hd
        · exact ⟨i + 1, by omega, hn, rfl⟩
        · obtain ⟨j, hj1, hj2, e⟩ := hextra d hd
          exact ⟨j, by omega, hj2, e⟩
      have hrec : modAt fs (pfx ps (i + 1)) = none →
          isGoModuleGo fs ps i (pfx ps (i + 1) :: (extra ++ cache0)) = (cache', root, m) →
          (root = [] ∧ ∀ j, 0 < j → j ≤ i + 1 → modAt fs (pfx ps j) = none) ∨
          (∃ i', 0 < i' ∧ i' ≤ i + 1 ∧ root = pfx ps i' ∧ modAt fs root = some m ∧
            ∀ j, i' < j → j ≤ i + 1 → modAt fs (pfx ps j) = none) := by
        intro hnone hrun
        rw [← List.cons_append] at hrun
        rcases ih (by omega) hextra' hrun with ⟨h1, h2⟩ | ⟨i', h1, h2, h3, h4, h5⟩
        · refine Or.inl ⟨h1, ?_⟩
          intro j hj1 hj2
          by_cases hj : j = i + 1
          · rw [hj]; exact hnone
          · exact h2 j hj1 (by omega)
        · refine Or.inr ⟨i', h1, by omega, h3, h4, ?_⟩
          intro j hj1 hj2
          by_cases hj : j = i + 1
          · rw [hj]; exact hnone
          · exact h5 j hj1 (by omega)
      split at h
      · rename_i hread
        exact hrec (modAt_none_of_read hread) h
      · rename_i b hread
        split at h
        · rename_i m' hre
          simp only [Prod.mk.injEq] at h
          obtain ⟨_, rfl, rfl⟩ := h
          exact Or.inr ⟨i + 1, Nat.succ_pos i, Nat.le_refl _, rfl, modAt_of_read hread hre,
            fun j h1 h2 => by omega⟩
        · rename_i hre
          exact hrec (modAt_none_of_re hread hre) h

/-! ### splitPath: no empty part -/

theorem splitPathGo_nonempty (fuel : Nat) (p : Bytes) (out : List Bytes) (s : Bytes) (h : ∀ x ∈ out, x ≠ []) :
    ∀ x ∈ splitPathGo fuel p out s, x ≠ [] := by
  induction fuel generalizing p out s with
  | zero => exact h
  | succ n ih =>
    have hpush : s ≠ [] → ∀ x ∈ out ++ [s], x ≠ [] := by
      intro hs x hx
      simp only [List.mem_append, List.mem_singleton] at hx
      rcases hx with hx | rfl
      · exact h x hx
      · exact hs
    cases p with
    | nil =>
      simp only [splitPathGo]
      split
      · rename_i hs; exact hpush (by simpa using hs)
      · exact h
    | cons b t =>
      simp only [splitPathGo]
      split
      · exact ih _ _ _ h
      · split
        · rename_i hs; exact ih _ _ _ (hpush (by simpa using hs))
        · exact ih _ _ _ h

theorem splitPath_nonempty (p : Bytes) : ∀ x ∈ splitPath p, x ≠ [] := by
  unfold splitPath
  split
  · simp
  · exact splitPathGo_nonempty _ _ _ _ (by simp)

theorem pathJoin_ne_nil {xs : List Bytes} (h : xs ≠ []) (hx : ∀ x ∈ xs, x ≠ []) : pathJoin xs ≠ [] := by
  cases xs with
  | nil => exact absurd rfl h
  | cons a t =>
    have ha := hx a List.mem_cons_self
    cases t with
    | nil => simpa [pathJoin, Bytes.join] using ha
    | cons b u =>
      intro e
      simp only [pathJoin, Bytes.join, List.append_eq_nil_iff] at e
      exact ha e.1.1

/-- a clean path is each of its directory prefixes, a `/`, and a non-empty rest -/
theorem clean_split {f : Bytes} (hclean : pathJoin (splitPath f) = f) {i : Nat} (h1 : 0 < i)
    (h2 : i < (splitPath f).length) : ∃ t, t ≠ [] ∧ f = pfx (splitPath f) i ++ 47 :: t := by
  refine ⟨pathJoin ((splitPath f).drop i), ?_, ?_⟩
  · apply pathJoin_ne_nil
    · intro e
      rw [List.drop_eq_nil_iff] at e
      omega
    · intro x hx
      exact splitPath_nonempty f x (List.mem_of_mem_drop hx)
  · have := pathJoin_take_drop (splitPath f) i h1 h2
    rw [hclean] at this
    exact this.symm.trans (by simp [pfx])

/-! ### the skip test on the recorded modules -/

theorem mapHasPrefix_of_mem {p k t : Bytes} {s : AMap} (hk : k ∈ s.keys) (e : p = k ++ 47 :: t) (ht : t ≠ []) :
    mapHasPrefix p s = true := by
  simp only [AMap.keys, List.mem_map] at hk
  obtain ⟨kv, hkv, rfl⟩ := hk
  unfold mapHasPrefix
  rw [List.any_eq_true]
  refine ⟨kv, hkv, ?_⟩
  have hl : 0 < t.length := List.length_pos_iff.mpr ht
  subst e
  simp
  omega

/-- a file the skip test lets through is under no recorded module -/
theorem not_claimed_of_skip {f : Bytes} {s : AMap} (hclean : pathJoin (splitPath f) = f)
    (hskip : mapHasPrefix f s = false) {i : Nat} (h1 : 0 < i) (h2 : i < (splitPath f).length) :
    ¬ Claimed s.keys (pfx (splitPath f) i) := by
  rintro ⟨k, hk, hc⟩
  obtain ⟨t, ht, e⟩ := clean_split hclean h1 h2
  rcases hc with rfl | ⟨x, hx⟩
  · rw [mapHasPrefix_of_mem hk e ht] at hskip
    exact absurd hskip (by simp)
  · rw [hx] at e
    have e' : f = k ++ 47 :: (x ++ 47 :: t) := by rw [e]; simp
    rw [mapHasPrefix_of_mem hk e' (by simp)] at hskip
    exact absurd hskip (by simp)

/-! ### `findModule` on a state whose cache is consistent -/

/-- the cache of the state is consistent with the recorded modules -/
def CI (fs : FS) (st : RootsState) : Prop := CacheOK fs st.cache st.gomods.keys none

theorem findModule_cacheOK {fs : FS} {cache keys : List Bytes} (f : Bytes) (hc : CacheOK fs cache keys none) :
    ((findModule fs cache (splitPath f)).2.1 = [] ∧
        CacheOK fs (findModule fs cache (splitPath f)).1 keys none) ∨
    ((findModule fs cache (splitPath f)).2.1 ≠ [] ∧
        CacheOK fs (findModule fs cache (splitPath f)).1 ((findModule fs cache (splitPath f)).2.1 :: keys) none) := by
  unfold findModule
  split
  · exact isGoModuleGo_cacheOK (dirShape_dropLast f) _ (Nat.le_refl _) (hc.pend _) rfl
  · exact Or.inl ⟨rfl, hc⟩

/-- On a clean file that no recorded module claims, `findModule` answers the
innermost directory above the file that has a `go.mod`, whatever the cache
holds; nothing when there is none. -/
theorem findModule_trace {fs : FS} {st : RootsState} {f : Bytes} (hci : CI fs st)
    (hclean : pathJoin (splitPath f) = f) (hskip : mapHasPrefix f st.gomods = false) :
    ((findModule fs st.cache (splitPath f)).2.1 = [] ∧
      ∀ j, 0 < j → j < (splitPath f).length → modAt fs (pathJoin ((splitPath f).take j)) = none) ∨
    (∃ i, 0 < i ∧ i < (splitPath f).length ∧
      (findModule fs st.cache (splitPath f)).2.1 = pathJoin ((splitPath f).take i) ∧
      modAt fs (pathJoin ((splitPath f).take i)) = some (findModule fs st.cache (splitPath f)).2.2 ∧
      ∀ j, i < j → j < (splitPath f).length → modAt fs (pathJoin ((splitPath f).take j)) = none) := by
  unfold findModule isGoModule
  split
  · rename_i hlen
    have hN : (splitPath f).dropLast.length = (splitPath f).length - 1 := by simp
    have hs := dirShape_dropLast f
    have hun : ∀ i, 0 < i → i ≤ (splitPath f).dropLast.length →
        ¬ Claimed st.gomods.keys (pfx (splitPath f).dropLast i) := by
      intro i h1 h2
      rw [pfx_dropLast _ (by omega)]
      exact not_claimed_of_skip hclean hskip h1 (by omega)
    have hW := cache_chain hs hci hun
    have hrun : isGoModuleGo fs (splitPath f).dropLast (splitPath f).dropLast.length ([] ++ st.cache) =
        isGoModuleGo fs (splitPath f).dropLast (splitPath f).dropLast.length st.cache := rfl
    rcases isGoModuleGo_trace (fs := fs) (ps := (splitPath f).dropLast) _ (Nat.le_refl _)
        (extra := []) (by simp) hW hrun with ⟨h1, h2⟩ | ⟨i, h1, h2, h3, h4, h5⟩
    · refine Or.inl ⟨h1, ?_⟩
      intro j hj1 hj2
      have := h2 j hj1 (by omega)
      rw [pfx_dropLast _ hj2] at this
      exact this
    · refine Or.inr ⟨i, h1, by omega, ?_, ?_, ?_⟩
      · rw [h3, pfx_dropLast _ (by omega)]; rfl
      · rw [h3, pfx_dropLast _ (by omega)] at h4; exact h4
      · intro j hj1 hj2
        have := h5 j hj1 (by omega)
        rw [pfx_dropLast _ hj2] at this
        exact this
  · rename_i hlen
    refine Or.inl ⟨rfl, ?_⟩
    intro j hj1 hj2
    omega

end PP
