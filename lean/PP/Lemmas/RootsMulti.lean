import PP.Lemmas.RootsLayout
import PP.Lemmas.RootsModCache
/-
Lemmas for the multi-root layout theorems of C18: a layout with one GOROOT,
several GOPATHs (src and pkg/mod trees) and a set of admitted module
directories, whose remote roots are pairwise disjoint; the invariant of the
loop of `findRoots` ("only roots of the layout are recorded, and the go.mod
cache is consistent with the recorded modules"), the steps that detect a root
from a witness file (GOROOT, GOPATH, go.mod module, `go run` directory), and
`updateLocations` under that invariant.
-/
namespace PP
open Bytes

/-! ### layouts -/

/-- A layout: the local GOROOT `lg`, the GOROOT `rg` the dump was produced
under, the pairs (remote GOPATH, local GOPATH) in the order of `LocalGOPATHs`,
and the (directory, module path) pairs that may be recorded as local modules. -/
structure Layout where
  lg : Bytes
  rg : Bytes
  gps : List (Bytes × Bytes)
  mods : List (Bytes × Bytes) := []

namespace Layout
/-- `LocalGOPATHs` -/
def locals (lay : Layout) : List Bytes := lay.gps.map Prod.snd
/-- the remote GOPATHs -/
def remotes (lay : Layout) : List Bytes := lay.gps.map Prod.fst
def modDirs (lay : Layout) : List Bytes := lay.mods.map Prod.fst
/-- every remote root of the layout -/
def roots (lay : Layout) : List Bytes := lay.rg :: (lay.remotes ++ lay.modDirs)
end Layout

/-- Neither directory is a path-prefix of the other (`a/` is not a prefix of
`b/` and vice versa); in particular `a ≠ b`. -/
def disjointRoots (a b : Bytes) : Bool :=
  !hasPrefix (a ++ b!"/") (b ++ b!"/") && !hasPrefix (b ++ b!"/") (a ++ b!"/")

/-- The remote roots of the layout are pairwise disjoint (decidable). -/
def Layout.Disjoint (lay : Layout) : Prop :=
  lay.roots.Pairwise (fun a b => disjointRoots a b = true)

instance (lay : Layout) : Decidable lay.Disjoint := by
  unfold Layout.Disjoint; infer_instance

theorem disjointRoots_symm {a b : Bytes} (h : disjointRoots a b = true) : disjointRoots b a = true := by
  simp only [disjointRoots, Bool.and_eq_true] at h ⊢
  exact ⟨h.2, h.1⟩

theorem disjointRoots_irrefl (a : Bytes) : disjointRoots a a = false := by
  have : hasPrefix (a ++ b!"/") (a ++ b!"/") = true := by
    have := hasPrefix_append (a ++ b!"/") []
    simpa using this
  simp [disjointRoots, this]

/-- two disjoint directories cannot both contain `f` -/
theorem no_two_claims {a b f : Bytes} (hd : disjointRoots a b = true)
    (ha : hasPrefix f (a ++ b!"/") = true) (hb : hasPrefix f (b ++ b!"/") = true) : False := by
  obtain ⟨t, e1⟩ := hasPrefix_iff.mp ha
  obtain ⟨t', e2⟩ := hasPrefix_iff.mp hb
  rw [e1] at e2
  simp only [disjointRoots, Bool.and_eq_true, Bool.not_eq_true'] at hd
  rcases List.append_eq_append_iff.mp e2 with ⟨x, hx, _⟩ | ⟨x, hx, _⟩
  · have := hasPrefix_iff.mpr ⟨x, hx⟩
    rw [hd.2] at this
    exact absurd this (by simp)
  · have := hasPrefix_iff.mpr ⟨x, hx⟩
    rw [hd.1] at this
    exact absurd this (by simp)

theorem under_of_src {f a : Bytes} (h : hasPrefix f (a ++ srcSep) = true) : hasPrefix f (a ++ b!"/") = true := by
  obtain ⟨t, e⟩ := hasPrefix_iff.mp h
  exact hasPrefix_iff.mpr ⟨b!"src/" ++ t, by rw [e]; simp [srcSep]⟩

theorem under_of_pkgmod {f a : Bytes} (h : hasPrefix f (a ++ pkgmodSep) = true) :
    hasPrefix f (a ++ b!"/") = true := by
  obtain ⟨t, e⟩ := hasPrefix_iff.mp h
  exact hasPrefix_iff.mpr ⟨b!"pkg/mod/" ++ t, by rw [e]; simp [pkgmodSep]⟩

theorem under_of_either {f a : Bytes}
    (h : hasPrefix f (a ++ srcSep) = true ∨ hasPrefix f (a ++ pkgmodSep) = true) :
    hasPrefix f (a ++ b!"/") = true :=
  h.elim under_of_src under_of_pkgmod

/-- `/pkg/mod/` and `/src/` under the same root do not overlap -/
theorem pkgmod_not_src (R rel : Bytes) : hasPrefix (R ++ pkgmodSep ++ rel) (R ++ srcSep) = false := by
  induction R with
  | nil => simp [hasPrefix, pkgmodSep, srcSep]
  | cons x t ih => simpa [hasPrefix] using ih

theorem pairwise_mem_ne {α : Type} {r : α → α → Prop} (hs : ∀ a b, r a b → r b a) {l : List α}
    (hp : l.Pairwise r) {x y : α} (hx : x ∈ l) (hy : y ∈ l) (hne : x ≠ y) : r x y := by
  induction l with
  | nil => simp at hx
  | cons a t ih =>
    rw [List.pairwise_cons] at hp
    simp only [List.mem_cons] at hx hy
    rcases hx with rfl | hx
    · rcases hy with rfl | hy
      · exact absurd rfl hne
      · exact hp.1 y hy
    · rcases hy with rfl | hy
      · exact hs _ _ (hp.1 x hx)
      · exact ih hp.2 hx hy

/-- an association list whose keys are pairwise related by an irreflexive
relation is functional -/
theorem pairwise_keys_functional {r : Bytes → Bytes → Prop} (hirr : ∀ a, ¬ r a a) {l : List (Bytes × Bytes)}
    (hp : (l.map Prod.fst).Pairwise r) {k v v' : Bytes} (h1 : (k, v) ∈ l) (h2 : (k, v') ∈ l) : v = v' := by
  induction l with
  | nil => simp at h1
  | cons a t ih =>
    simp only [List.map_cons, List.pairwise_cons] at hp
    simp only [List.mem_cons] at h1 h2
    rcases h1 with h1 | h1
    · rcases h2 with h2 | h2
      · rw [← h1] at h2
        exact (Prod.mk.inj h2).2.symm ▸ rfl
      · exfalso
        have := hp.1 k (List.mem_map_of_mem (f := Prod.fst) h2)
        rw [← h1] at this
        exact hirr _ this
    · rcases h2 with h2 | h2
      · exfalso
        have := hp.1 k (List.mem_map_of_mem (f := Prod.fst) h1)
        rw [← h2] at this
        exact hirr _ this
      · exact ih hp.2 h1 h2

namespace Layout.Disjoint
variable {lay : Layout}

theorem rg_remote (hd : lay.Disjoint) {R : Bytes} (hR : R ∈ lay.remotes) : disjointRoots lay.rg R = true := by
  unfold Layout.Disjoint Layout.roots at hd
  exact (List.pairwise_cons.mp hd).1 R (List.mem_append_left _ hR)

theorem rg_mod (hd : lay.Disjoint) {k : Bytes} (hk : k ∈ lay.modDirs) : disjointRoots lay.rg k = true := by
  unfold Layout.Disjoint Layout.roots at hd
  exact (List.pairwise_cons.mp hd).1 k (List.mem_append_right _ hk)

theorem remotes_pairwise (hd : lay.Disjoint) : lay.remotes.Pairwise (fun a b => disjointRoots a b = true) := by
  unfold Layout.Disjoint Layout.roots at hd
  exact (List.pairwise_append.mp (List.pairwise_cons.mp hd).2).1

theorem mods_pairwise (hd : lay.Disjoint) : lay.modDirs.Pairwise (fun a b => disjointRoots a b = true) := by
  unfold Layout.Disjoint Layout.roots at hd
  exact (List.pairwise_append.mp (List.pairwise_cons.mp hd).2).2.1

theorem remote_remote (hd : lay.Disjoint) {R R' : Bytes} (hR : R ∈ lay.remotes) (hR' : R' ∈ lay.remotes)
    (hne : R ≠ R') : disjointRoots R R' = true :=
  pairwise_mem_ne (fun _ _ => disjointRoots_symm) hd.remotes_pairwise hR hR' hne

theorem mod_mod (hd : lay.Disjoint) {k k' : Bytes} (hk : k ∈ lay.modDirs) (hk' : k' ∈ lay.modDirs)
    (hne : k ≠ k') : disjointRoots k k' = true :=
  pairwise_mem_ne (fun _ _ => disjointRoots_symm) hd.mods_pairwise hk hk' hne

theorem remote_mod (hd : lay.Disjoint) {R k : Bytes} (hR : R ∈ lay.remotes) (hk : k ∈ lay.modDirs) :
    disjointRoots R k = true := by
  unfold Layout.Disjoint Layout.roots at hd
  exact (List.pairwise_append.mp (List.pairwise_cons.mp hd).2).2.2 R hR k hk

/-- a remote GOPATH has one local counterpart -/
theorem gps_functional (hd : lay.Disjoint) {R L L' : Bytes} (h1 : (R, L) ∈ lay.gps) (h2 : (R, L') ∈ lay.gps) :
    L = L' :=
  pairwise_keys_functional (fun a h => by rw [disjointRoots_irrefl] at h; exact absurd h (by simp))
    hd.remotes_pairwise h1 h2

theorem mods_functional (hd : lay.Disjoint) {k m m' : Bytes} (h1 : (k, m) ∈ lay.mods) (h2 : (k, m') ∈ lay.mods) :
    m = m' :=
  pairwise_keys_functional (fun a h => by rw [disjointRoots_irrefl] at h; exact absurd h (by simp))
    hd.mods_pairwise h1 h2

end Layout.Disjoint

/-! ### the invariant: only roots of the layout are recorded -/

structure Inv (lay : Layout) (st : RootsState) : Prop where
  goroot : st.goroot = [] ∨ st.goroot = lay.rg
  gopaths : ∀ kv ∈ st.gopaths, kv ∈ lay.gps
  gomods : ∀ kv ∈ st.gomods, kv ∈ lay.mods

theorem Inv.gopath_key {lay : Layout} {st : RootsState} (h : Inv lay st) {k : Bytes} (hk : k ∈ st.gopaths.keys) :
    k ∈ lay.remotes := by
  have := h.gopaths _ (AMap.get_of_mem_keys hk)
  exact List.mem_map_of_mem (f := Prod.fst) this

theorem Inv.gomod_key {lay : Layout} {st : RootsState} (h : Inv lay st) {k : Bytes} (hk : k ∈ st.gomods.keys) :
    k ∈ lay.modDirs := by
  have := h.gomods _ (AMap.get_of_mem_keys hk)
  exact List.mem_map_of_mem (f := Prod.fst) this

/-- the loop invariant: only roots of the layout are recorded, and the go.mod
cache is consistent with the recorded modules -/
structure Inv2 (lay : Layout) (fs : FS) (st : RootsState) : Prop where
  inv : Inv lay st
  ci : CI fs st

/-- What is assumed of EVERY file `f` of the dump: the probes `findRoots` makes
on it record nothing but roots of the layout.
* `goroot`: when the probe under `LocalGOROOT/src` answers something ending in
  `/src`, the answer is `rg/src` and `f` lies under `rg/src/`;
* `gopath`: when the loop over `LocalGOPATHs` records a pair, it is a pair of
  the layout;
* `modules`: when neither probe claims `f`, a `go.mod` found above `f` is an
  admitted module; and if `f` itself exists, its directory is an admitted
  `main` module, or `f` is a clean path with a `go.mod` above it. -/
structure Tame (lay : Layout) (fs : FS) (f : Bytes) : Prop where
  goroot : hasSuffix (isRootedIn fs (lay.lg ++ srcDir) (splitPath f)) srcDir = true →
    isRootedIn fs (lay.lg ++ srcDir) (splitPath f) = lay.rg ++ srcDir ∧ hasPrefix f (lay.rg ++ srcSep) = true
  gopath : ∀ k l, findGopath fs (splitPath f) lay.locals = .ok (some (k, l)) → (k, l) ∈ lay.gps
  modules : hasSuffix (isRootedIn fs (lay.lg ++ srcDir) (splitPath f)) srcDir = false →
    findGopath fs (splitPath f) lay.locals = .ok none →
    (∀ i m, 0 < i → i < (splitPath f).length → modAt fs (pathJoin ((splitPath f).take i)) = some m →
      (pathJoin ((splitPath f).take i), m) ∈ lay.mods) ∧
    (fs.isFile f = true → (pathDir f, b!"main") ∈ lay.mods ∨
      (pathJoin (splitPath f) = f ∧
        ∃ i, 0 < i ∧ i < (splitPath f).length ∧ modAt fs (pathJoin ((splitPath f).take i)) ≠ none))

theorem take_append_length (a b : Bytes) : (a ++ b).take ((a ++ b).length - b.length) = a := by
  simp

theorem take_ne_nil_of_dirs {f : Bytes} {i : Nat} (h1 : 0 < i) (h2 : i < (splitPath f).length) :
    pathJoin ((splitPath f).take i) ≠ [] := by
  have := pfx_ne_nil (dirShape_dropLast f) (i := i) h1 (by simp; omega)
  rw [pfx_dropLast _ h2] at this
  exact this

theorem findRootsMod_inv {lay : Layout} {fs : FS} {st : RootsState} {f : Bytes} (h2 : Inv2 lay fs st)
    (hskip : mapHasPrefix f st.gomods = false)
    (hm : (∀ i m, 0 < i → i < (splitPath f).length → modAt fs (pathJoin ((splitPath f).take i)) = some m →
      (pathJoin ((splitPath f).take i), m) ∈ lay.mods) ∧
      (fs.isFile f = true → (pathDir f, b!"main") ∈ lay.mods ∨
        (pathJoin (splitPath f) = f ∧
          ∃ i, 0 < i ∧ i < (splitPath f).length ∧ modAt fs (pathJoin ((splitPath f).take i)) ≠ none))) :
    Inv2 lay fs (findRootsMod fs st f (splitPath f)) := by
  have hinv := h2.inv
  have hcache := findModule_cacheOK f h2.ci
  unfold findRootsMod
  split
  · rename_i hroot
    have hroot' : (findModule fs st.cache (splitPath f)).2.1 ≠ [] := by simpa using hroot
    refine ⟨⟨hinv.goroot, hinv.gopaths, ?_⟩, ?_⟩
    · intro kv hkv
      rcases AMap.mem_insert hkv with rfl | hkv
      · obtain ⟨i, b, h1, h2', h3, h4, h5⟩ := findModule_spec (fs := fs) (cache := st.cache) hroot'
        rw [h3]
        apply hm.1 i _ h1 h2'
        rw [← h3]
        simp [modAt, h4, h5]
      · exact hinv.gomods kv hkv
    · rcases hcache with ⟨h0, _⟩ | ⟨_, hc⟩
      · exact absurd h0 hroot'
      · show CacheOK fs _ (AMap.keys (st.gomods.insert _ _)) none
        apply hc.mono
        intro k hk
        simp only [List.mem_cons] at hk
        rcases hk with rfl | hk
        · exact AMap.keys_insert_self _ _ _
        · exact AMap.keys_insert_mono hk
  · rename_i hroot
    have hroot' : (findModule fs st.cache (splitPath f)).2.1 = [] := by simpa using hroot
    have hc : CacheOK fs (findModule fs st.cache (splitPath f)).1 st.gomods.keys none := by
      rcases hcache with ⟨_, hc⟩ | ⟨h0, _⟩
      · exact hc
      · exact absurd hroot' h0
    split
    · rename_i hfile
      refine ⟨⟨hinv.goroot, hinv.gopaths, ?_⟩, ?_⟩
      · intro kv hkv
        rcases AMap.mem_insert hkv with rfl | hkv
        · rcases hm.2 hfile with hmain | ⟨hclean, i, hi1, hi2, hmod⟩
          · exact hmain
          · exfalso
            rcases findModule_trace h2.ci hclean hskip with ⟨_, hnone⟩ | ⟨i', h1, h2', h3, _⟩
            · exact hmod (hnone i hi1 hi2)
            · rw [hroot'] at h3
              exact take_ne_nil_of_dirs h1 h2' h3.symm
        · exact hinv.gomods kv hkv
      · show CacheOK fs _ (AMap.keys (st.gomods.insert _ _)) none
        exact hc.mono (fun k hk => AMap.keys_insert_mono hk)
    · exact ⟨⟨hinv.goroot, hinv.gopaths, hinv.gomods⟩, hc⟩

theorem findRootsStep_inv {lay : Layout} {fs : FS} {st st' : RootsState} {f : Bytes} (h2 : Inv2 lay fs st)
    (ht : Tame lay fs f) (h : findRootsStep fs lay.lg lay.locals st f = .ok st') : Inv2 lay fs st' := by
  have hinv := h2.inv
  unfold findRootsStep at h
  split at h
  · cases h; exact h2
  · rename_i hskip
    split at h
    · cases h; exact h2
    · split at h
      · cases h; exact h2
      · rename_i hmskip
        have hmskip' : mapHasPrefix f st.gomods = false := by simpa using hmskip
        unfold findRootsDisk at h
        split at h
        · rename_i hr
          split at h
          · cases h
          · cases h
            have hg : st.goroot = [] := by
              unfold gorootProbe at hr
              split at hr
              · rename_i hg; simpa using hg
              · rw [hasSuffix_nil_false srcDir_ne] at hr
                exact absurd hr (by simp)
            have hp : gorootProbe fs lay.lg st (splitPath f) = isRootedIn fs (lay.lg ++ srcDir) (splitPath f) := by
              simp [gorootProbe, hg]
            rw [hp] at hr ⊢
            refine ⟨⟨Or.inr ?_, hinv.gopaths, hinv.gomods⟩, h2.ci⟩
            show (isRootedIn fs (lay.lg ++ srcDir) (splitPath f)).take _ = lay.rg
            rw [(ht.goroot hr).1]
            exact take_append_length _ _
        · rename_i hr
          split at h
          · cases h
          · rename_i k l hg
            cases h
            refine ⟨⟨hinv.goroot, ?_, hinv.gomods⟩, h2.ci⟩
            intro kv hkv
            rcases AMap.mem_insert hkv with rfl | hkv
            · exact ht.gopath k l hg
            · exact hinv.gopaths kv hkv
          · rename_i hg
            cases h
            apply findRootsMod_inv h2 hmskip'
            apply ht.modules _ hg
            -- the GOROOT probe is quiet, or was not made because GOROOT is known and `f` is not under it
            cases hq : hasSuffix (isRootedIn fs (lay.lg ++ srcDir) (splitPath f)) srcDir with
            | false => rfl
            | true =>
              exfalso
              have hu := (ht.goroot hq).2
              by_cases hg0 : st.goroot = []
              · have hp : gorootProbe fs lay.lg st (splitPath f) = isRootedIn fs (lay.lg ++ srcDir) (splitPath f) := by
                  simp [gorootProbe, hg0]
                rw [hp, hq] at hr
                exact hr rfl
              · apply hskip
                have e : st.goroot = lay.rg := by
                  rcases hinv.goroot with h1 | h1
                  · exact absurd h1 hg0
                  · exact h1
                have hne : lay.rg ≠ [] := e ▸ hg0
                simp [e, hu, hne]

theorem findRootsLoop_inv {lay : Layout} {fs : FS} (todo : List Bytes) (ht : ∀ f ∈ todo, Tame lay fs f)
    {st st' : RootsState} (hinv : Inv2 lay fs st)
    (h : findRootsLoop fs lay.lg lay.locals st todo = .ok st') : Inv2 lay fs st' := by
  induction todo generalizing st with
  | nil => simp only [findRootsLoop, Except.ok.injEq] at h; exact h ▸ hinv
  | cons f t ih =>
    simp only [findRootsLoop] at h
    split at h
    · cases h
    · rename_i st1 h1
      exact ih (fun x hx => ht x (List.mem_cons_of_mem _ hx))
        (findRootsStep_inv hinv (ht f List.mem_cons_self) h1) h

/-! ### witnesses: a file of the dump that makes `findRoots` record a root -/

/-- `w` makes `findRoots` record `R ↦ L`: it lies under `R/src/` or
`R/pkg/mod/`, the GOROOT probe does not claim it, and the loop over
`LocalGOPATHs` answers `(R, L)`. -/
structure DetectsGopath (lay : Layout) (fs : FS) (w R L : Bytes) : Prop where
  under : hasPrefix w (R ++ srcSep) = true ∨ hasPrefix w (R ++ pkgmodSep) = true
  gorootQuiet : hasSuffix (isRootedIn fs (lay.lg ++ srcDir) (splitPath w)) srcDir = false
  probe : findGopath fs (splitPath w) lay.locals = .ok (some (R, L))

/-- `w` makes `findRoots` record the remote GOROOT: it lies under `rg/src/` and
the probe under `LocalGOROOT/src` answers `rg/src`. -/
structure DetectsGoroot (lay : Layout) (fs : FS) (w : Bytes) : Prop where
  under : hasPrefix w (lay.rg ++ srcSep) = true
  probe : isRootedIn fs (lay.lg ++ srcDir) (splitPath w) = lay.rg ++ srcDir

theorem gorootProbe_quiet {fs : FS} {lg : Bytes} {st : RootsState} {parts : List Bytes}
    (h : hasSuffix (isRootedIn fs (lg ++ srcDir) parts) srcDir = false) :
    hasSuffix (gorootProbe fs lg st parts) srcDir = false := by
  unfold gorootProbe
  split
  · exact h
  · exact hasSuffix_nil_false srcDir_ne

variable {lay : Layout} {fs : FS}

theorem DetectsGopath.step {w R L : Bytes} (hw : DetectsGopath lay fs w R L) (hd : lay.Disjoint)
    (hRL : (R, L) ∈ lay.gps) {st1 st2 : RootsState} (hinv : Inv lay st1)
    (hs : findRootsStep fs lay.lg lay.locals st1 w = .ok st2) : R ∈ st2.gopaths.keys := by
  have hR : R ∈ lay.remotes := List.mem_map_of_mem (f := Prod.fst) hRL
  have hu := under_of_either hw.under
  unfold findRootsStep at hs
  split at hs
  · rename_i hc
    exfalso
    simp only [Bool.and_eq_true, bne_iff_ne, ne_eq] at hc
    rcases hinv.goroot with h1 | h1
    · exact hc.1 h1
    · rw [h1] at hc
      exact no_two_claims (hd.rg_remote hR) (under_of_src hc.2) hu
  · split at hs
    · rename_i hc
      cases hs
      obtain ⟨k, hk, hm⟩ := hasSrcPrefix_exists hc
      by_cases hkr : k = R
      · exact hkr ▸ hk
      · exact (no_two_claims (hd.remote_remote (hinv.gopath_key hk) hR hkr) (under_of_either hm) hu).elim
    · split at hs
      · rename_i hc
        obtain ⟨k, hk, hm⟩ := mapHasPrefix_exists hc
        exact (no_two_claims (hd.remote_mod hR (hinv.gomod_key hk)) hu hm).elim
      · unfold findRootsDisk at hs
        simp only [gorootProbe_quiet hw.gorootQuiet, Bool.false_eq_true, if_false, hw.probe] at hs
        cases hs
        exact AMap.keys_insert_self _ _ _

theorem DetectsGoroot.step {w : Bytes} (hw : DetectsGoroot lay fs w) (hd : lay.Disjoint)
    {st1 st2 : RootsState} (hinv : Inv lay st1)
    (hs : findRootsStep fs lay.lg lay.locals st1 w = .ok st2) : st2.goroot = lay.rg := by
  have hu := under_of_src hw.under
  by_cases hg : st1.goroot = []
  · unfold findRootsStep at hs
    split at hs
    · rename_i hc
      simp [hg] at hc
    · split at hs
      · rename_i hc
        obtain ⟨k, hk, hm⟩ := hasSrcPrefix_exists hc
        exact (no_two_claims (hd.rg_remote (hinv.gopath_key hk)) hu (under_of_either hm)).elim
      · split at hs
        · rename_i hc
          obtain ⟨k, hk, hm⟩ := mapHasPrefix_exists hc
          exact (no_two_claims (hd.rg_mod (hinv.gomod_key hk)) hu hm).elim
        · have hp : gorootProbe fs lay.lg st1 (splitPath w) = lay.rg ++ srcDir := by
            simp [gorootProbe, hg, hw.probe]
          unfold findRootsDisk at hs
          have hsuf : hasSuffix (lay.rg ++ srcDir) srcDir = true := hasSuffix_append _ _
          have hlen : ¬ (lay.rg ++ srcDir).length < srcDir.length := by simp
          simp only [hp, hsuf, if_true, hlen, if_false] at hs
          cases hs
          exact take_append_length _ _
  · have e : st1.goroot = lay.rg := by
      rcases hinv.goroot with h1 | h1
      · exact absurd h1 hg
      · exact h1
    unfold findRootsStep at hs
    have hc : (st1.goroot != [] && hasPrefix w (st1.goroot ++ srcSep)) = true := by
      have hne : lay.rg ≠ [] := e ▸ hg
      simp [e, hw.under, hne]
    rw [if_pos hc] at hs
    cases hs
    exact e

/-- the pair recorded by a witness is in the final map -/
theorem DetectsGopath.final {w R L : Bytes} (hw : DetectsGopath lay fs w R L) (hd : lay.Disjoint)
    {files : List Bytes} (ht : ∀ f ∈ files, Tame lay fs f) (hf : w ∈ files)
    {st0 fin : RootsState} (hinv : Inv2 lay fs st0)
    (hloop : findRootsLoop fs lay.lg lay.locals st0 files = .ok fin) :
    R ∈ fin.gopaths.keys ∧ fin.gopaths.get R = L := by
  have hRL : (R, L) ∈ lay.gps := (ht w hf).gopath R L hw.probe
  obtain ⟨pre, post, e⟩ := List.append_of_mem hf
  rw [e] at hloop
  obtain ⟨st1, st2, h1, h2, h3⟩ := findRootsLoop_append pre hloop
  have hinv1 : Inv lay st1 :=
    (findRootsLoop_inv pre (fun f hf' => ht f (e ▸ List.mem_append_left _ hf')) hinv h1).inv
  have hk : R ∈ fin.gopaths.keys := (findRootsLoop_mono post h3).gopaths _ (hw.step hd hRL hinv1 h2)
  have hfin : Inv lay fin := (findRootsLoop_inv _ (fun f hf' => ht f (e ▸ hf')) hinv hloop).inv
  exact ⟨hk, hd.gps_functional (hfin.gopaths _ (AMap.get_of_mem_keys hk)) hRL⟩

/-- the remote GOROOT recorded by a witness is the final one -/
theorem DetectsGoroot.final {w : Bytes} (hw : DetectsGoroot lay fs w) (hd : lay.Disjoint) (hne : lay.rg ≠ [])
    {files : List Bytes} (ht : ∀ f ∈ files, Tame lay fs f) (hf : w ∈ files)
    {st0 fin : RootsState} (hinv : Inv2 lay fs st0)
    (hloop : findRootsLoop fs lay.lg lay.locals st0 files = .ok fin) : fin.goroot = lay.rg := by
  obtain ⟨pre, post, e⟩ := List.append_of_mem hf
  rw [e] at hloop
  obtain ⟨st1, st2, h1, h2, h3⟩ := findRootsLoop_append pre hloop
  have hinv1 : Inv lay st1 :=
    (findRootsLoop_inv pre (fun f hf' => ht f (e ▸ List.mem_append_left _ hf')) hinv h1).inv
  have h2' := hw.step hd hinv1 h2
  rw [(findRootsLoop_mono post h3).goroot (by rw [h2']; exact hne), h2']

/-! ### `updateLocations` with roots of the layout -/

theorem gopathLoop_all_none {c : Call} {m : AMap} {ks : List Bytes}
    (h : ∀ k ∈ ks, c.tryGopath k (m.get k) = none) : c.gopathLoop m ks = none := by
  induction ks with
  | nil => rfl
  | cons a t ih =>
    simp only [Call.gopathLoop, h a List.mem_cons_self]
    exact ih (fun k hk => h k (List.mem_cons_of_mem _ hk))

theorem gomodLoop_all_none {c : Call} {m : AMap} {ks : List Bytes}
    (h : ∀ k ∈ ks, c.tryGomod k (m.get k) = none) : c.gomodLoop m ks = none := by
  induction ks with
  | nil => rfl
  | cons a t ih =>
    simp only [Call.gomodLoop, h a List.mem_cons_self]
    exact ih (fun k hk => h k (List.mem_cons_of_mem _ hk))

theorem tryGopath_none_of {c : Call} {k dest : Bytes} (h1 : hasPrefix c.remoteSrcPath (k ++ srcSep) = false)
    (h2 : hasPrefix c.remoteSrcPath (k ++ pkgmodSep) = false) : c.tryGopath k dest = none := by
  have e := @tryGopath_isSome c k dest
  rw [h1, h2] at e
  cases ht : c.tryGopath k dest with
  | none => rfl
  | some _ => rw [ht] at e; simp at e

theorem tryGomod_none_of {c : Call} {k pkg : Bytes} (h : hasPrefix c.remoteSrcPath (k ++ b!"/") = false) :
    c.tryGomod k pkg = none := by
  have e := @tryGomod_isSome c k pkg
  rw [h] at e
  cases ht : c.tryGomod k pkg with
  | none => rfl
  | some _ => rw [ht] at e; simp at e

theorem bool_false_of_not {b : Bool} (h : b = true → False) : b = false := by
  cases b with
  | false => rfl
  | true => exact (h rfl).elim

/-- a frame under `R` is not claimed by the recorded GOROOT -/
theorem tryGoroot_none_of_remote {c : Call} {fin : RootsState} {lg R : Bytes} (hd : lay.Disjoint)
    (hfin : Inv lay fin) (hR : R ∈ lay.remotes) (hu : hasPrefix c.remoteSrcPath (R ++ b!"/") = true) :
    c.tryGoroot fin.goroot lg = none := by
  unfold Call.tryGoroot
  rcases hfin.goroot with h1 | h1
  · simp [h1]
  · have : hasPrefix c.remoteSrcPath (lay.rg ++ srcSep) = false :=
      bool_false_of_not fun h => no_two_claims (hd.rg_remote hR) (under_of_src h) hu
    simp [h1, this]

/-- the walk over the recorded GOPATHs stops at `R` -/
theorem gopathLoop_at_remote {c : Call} {fin : RootsState} {R : Bytes} (hd : lay.Disjoint)
    (hfin : Inv lay fin) (hk : R ∈ fin.gopaths.keys) (hu : hasPrefix c.remoteSrcPath (R ++ b!"/") = true) :
    c.gopathLoop fin.gopaths (sortedByLen fin.gopaths) = c.tryGopath R (fin.gopaths.get R) := by
  apply gopathLoop_unique (mem_sortedByLen.mpr hk)
  intro k hk' hne
  have hkm := hfin.gopath_key (mem_sortedByLen.mp hk')
  have hdis := hd.remote_remote hkm (hfin.gopath_key hk) hne
  exact tryGopath_none_of
    (bool_false_of_not fun h => no_two_claims hdis (under_of_src h) hu)
    (bool_false_of_not fun h => no_two_claims hdis (under_of_pkgmod h) hu)

theorem hasPrefix_root_sep (R sep rel : Bytes) : hasPrefix (R ++ sep ++ rel) (R ++ sep) = true :=
  hasPrefix_append _ _

/-- frame under `R/src/` -/
theorem update_src {c : Call} {fin : RootsState} {lg R L rel : Bytes} (hd : lay.Disjoint) (hfin : Inv lay fin)
    (hc : c.remoteSrcPath = R ++ srcSep ++ rel)
    (hk : R ∈ fin.gopaths.keys) (hv : fin.gopaths.get R = L) :
    c.updateLocations fin.goroot lg fin.gomods fin.gopaths =
      ({ c with relSrcPath := rel, localSrcPath := L ++ srcSep ++ rel,
                importPath := importOfRel rel c.importPath, location := setLoc c .gopath }, true) := by
  have hpre : hasPrefix c.remoteSrcPath (R ++ srcSep) = true := by rw [hc]; exact hasPrefix_root_sep _ _ _
  have hu := under_of_src hpre
  have hne : (c.remoteSrcPath == []) = false := by rw [hc]; simp [srcSep]
  have hgr := tryGoroot_none_of_remote (lg := lg) hd hfin (hfin.gopath_key hk) hu
  have hd' : c.remoteSrcPath.drop (R ++ srcSep).length = rel := by rw [hc]; exact List.drop_left' rfl
  have htry : c.tryGopath R L =
      some { c with relSrcPath := rel, localSrcPath := L ++ srcSep ++ rel,
                    importPath := importOfRel rel c.importPath, location := setLoc c .gopath } := by
    unfold Call.tryGopath
    simp only [hpre, if_true, hd']
    simp [pathJoin_triple, srcSep]
  unfold Call.updateLocations Call.updateLocations?
  simp only [hne, Bool.false_eq_true, if_false, hgr, gopathLoop_at_remote hd hfin hk hu, hv, htry]

/-- frame under `R/pkg/mod/` -/
theorem update_pkgmod {c : Call} {fin : RootsState} {lg R L rel : Bytes} (hd : lay.Disjoint) (hfin : Inv lay fin)
    (hc : c.remoteSrcPath = R ++ pkgmodSep ++ rel)
    (hk : R ∈ fin.gopaths.keys) (hv : fin.gopaths.get R = L) :
    c.updateLocations fin.goroot lg fin.gomods fin.gopaths =
      ({ c with relSrcPath := rel, localSrcPath := L ++ pkgmodSep ++ rel,
                importPath := importOfRel rel c.importPath, location := setLoc c .goPkg }, true) := by
  have hpre : hasPrefix c.remoteSrcPath (R ++ pkgmodSep) = true := by rw [hc]; exact hasPrefix_root_sep _ _ _
  have hnsrc : hasPrefix c.remoteSrcPath (R ++ srcSep) = false := by rw [hc]; exact pkgmod_not_src _ _
  have hu := under_of_pkgmod hpre
  have hne : (c.remoteSrcPath == []) = false := by rw [hc]; simp [pkgmodSep]
  have hgr := tryGoroot_none_of_remote (lg := lg) hd hfin (hfin.gopath_key hk) hu
  have hd' : c.remoteSrcPath.drop (R ++ pkgmodSep).length = rel := by rw [hc]; exact List.drop_left' rfl
  have htry : c.tryGopath R L =
      some { c with relSrcPath := rel, localSrcPath := L ++ pkgmodSep ++ rel,
                    importPath := importOfRel rel c.importPath, location := setLoc c .goPkg } := by
    unfold Call.tryGopath
    simp only [hnsrc, Bool.false_eq_true, if_false, hpre, if_true, hd']
    simp [pathJoin_triple, pkgmodSep]
  unfold Call.updateLocations Call.updateLocations?
  simp only [hne, Bool.false_eq_true, if_false, hgr, gopathLoop_at_remote hd hfin hk hu, hv, htry]

/-- frame under `rg/src/` -/
theorem update_goroot {c : Call} {goroot lg rel : Bytes} {gomods gopaths : AMap} (hne : goroot ≠ [])
    (hc : c.remoteSrcPath = goroot ++ srcSep ++ rel) :
    c.updateLocations goroot lg gomods gopaths =
      ({ c with relSrcPath := rel, localSrcPath := lg ++ srcSep ++ rel,
                importPath := importOfRel rel c.importPath, location := setLoc c .stdlib }, true) := by
  have hpre : hasPrefix c.remoteSrcPath (goroot ++ srcSep) = true := by rw [hc]; exact hasPrefix_root_sep _ _ _
  have hne' : (c.remoteSrcPath == []) = false := by rw [hc]; simp [srcSep]
  have hd' : c.remoteSrcPath.drop (goroot ++ srcSep).length = rel := by rw [hc]; exact List.drop_left' rfl
  have hg : (goroot != []) = true := by simpa using hne
  have htry : c.tryGoroot goroot lg =
      some { c with relSrcPath := rel, localSrcPath := lg ++ srcSep ++ rel,
                    importPath := importOfRel rel c.importPath, location := setLoc c .stdlib } := by
    unfold Call.tryGoroot
    simp only [hg, hpre, Bool.and_self, if_true, hd']
    simp [pathJoin_triple, srcSep]
  unfold Call.updateLocations Call.updateLocations?
  simp only [hne', Bool.false_eq_true, if_false, htry]

/-- `f` lies under no root of the layout (decidable, on the layout alone) -/
structure Unclaimed (lay : Layout) (f : Bytes) : Prop where
  goroot : hasPrefix f (lay.rg ++ srcSep) = false
  gopaths : ∀ R ∈ lay.remotes, hasPrefix f (R ++ srcSep) = false ∧ hasPrefix f (R ++ pkgmodSep) = false
  gomods : ∀ k ∈ lay.modDirs, hasPrefix f (k ++ b!"/") = false

/-- frame under no root: untouched -/
theorem update_unclaimed {c : Call} {fin : RootsState} {lg : Bytes} (hfin : Inv lay fin)
    (hu : Unclaimed lay c.remoteSrcPath) :
    c.updateLocations fin.goroot lg fin.gomods fin.gopaths = (c, false) := by
  have hgr : c.tryGoroot fin.goroot lg = none := by
    unfold Call.tryGoroot
    rcases hfin.goroot with h1 | h1
    · simp [h1]
    · simp [h1, hu.goroot]
  have hgp : c.gopathLoop fin.gopaths (sortedByLen fin.gopaths) = none := by
    apply gopathLoop_all_none
    intro k hk
    have := hu.gopaths k (hfin.gopath_key (mem_sortedByLen.mp hk))
    exact tryGopath_none_of this.1 this.2
  have hgm : c.gomodLoop fin.gomods (sortedByLen fin.gomods) = none := by
    apply gomodLoop_all_none
    intro k hk
    exact tryGomod_none_of (hu.gomods k (hfin.gomod_key (mem_sortedByLen.mp hk)))
  have hnone : c.updateLocations? fin.goroot lg fin.gomods fin.gopaths = none := by
    unfold Call.updateLocations?
    split
    · rfl
    · simp only [hgr, hgp, hgm]
  unfold Call.updateLocations
  rw [hnone]

/-! ### reading the probe conditions on the disk contents -/

/-- neither probe under the local GOPATH `l` answers a root -/
def QuietGopath (fs : FS) (parts : List Bytes) (l : Bytes) : Prop :=
  hasSuffix (isRootedIn fs (l ++ srcDir) parts) srcDir = false ∧
  hasSuffix (isRootedIn fs (l ++ pkgmodDir) parts) pkgmodDir = false

instance (fs : FS) (parts : List Bytes) (l : Bytes) : Decidable (QuietGopath fs parts l) := by
  unfold QuietGopath; infer_instance

/-- local GOPATHs that answer nothing are passed over -/
theorem findGopath_skip {parts : List Bytes} (pre rest : List Bytes) (h : ∀ l ∈ pre, QuietGopath fs parts l) :
    findGopath fs parts (pre ++ rest) = findGopath fs parts rest := by
  induction pre with
  | nil => rfl
  | cons a t ih =>
    have ha := h a List.mem_cons_self
    simp only [List.cons_append, findGopath, ha.1, ha.2, Bool.false_eq_true, if_false]
    exact ih (fun l hl => h l (List.mem_cons_of_mem _ hl))

theorem findGopath_src_hit {parts : List Bytes} {L R : Bytes} (rest : List Bytes)
    (h : isRootedIn fs (L ++ srcDir) parts = R ++ srcDir) :
    findGopath fs parts (L :: rest) = .ok (some (R, L)) := by
  have hsuf : hasSuffix (R ++ srcDir) srcDir = true := hasSuffix_append _ _
  have hlen : ¬ (R ++ srcDir).length < srcDir.length := by simp
  simp only [findGopath, h, hsuf, if_true, hlen, if_false]
  rw [take_append_length]

theorem findGopath_pkgmod_hit {parts : List Bytes} {L R : Bytes} (rest : List Bytes)
    (hq : hasSuffix (isRootedIn fs (L ++ srcDir) parts) srcDir = false)
    (h : isRootedIn fs (L ++ pkgmodDir) parts = R ++ pkgmodDir) :
    findGopath fs parts (L :: rest) = .ok (some (R, L)) := by
  have hsuf : hasSuffix (R ++ pkgmodDir) pkgmodDir = true := hasSuffix_append _ _
  have hlen : ¬ (R ++ pkgmodDir).length < pkgmodDir.length := by simp
  simp only [findGopath, hq, Bool.false_eq_true, if_false, h, hsuf, if_true, hlen]
  rw [take_append_length]

/-- a probe that finds no suffix of the path answers nothing -/
theorem quiet_of_absent {root suf : Bytes} {parts : List Bytes} (hsuf : suf ≠ [])
    (h : ∀ j, 0 < j → j < parts.length → fs.isFile (root ++ b!"/" ++ pathJoin (parts.drop j)) = false) :
    hasSuffix (isRootedIn fs root parts) suf = false := by
  rw [isRootedIn_none h]
  exact hasSuffix_nil_false hsuf

/-- The probe under `root` answers `R ++ dir` when the parts of the path are
`pR ++ pDir ++ pRel` with `pR` joined `= R`, `pDir` joined `= dir` (`src`, or
`pkg`,`mod`), the rest exists under `root`, and no longer suffix of the path does
(`noSpuriousSuffix`). -/
theorem isRootedIn_of_present {root R : Bytes} {parts pR pDir pRel : List Bytes}
    (hsplit : parts = pR ++ pDir ++ pRel) (hR : pR ≠ []) (hD : pDir ≠ []) (hRel : pRel ≠ [])
    (hroot : pathJoin pR = R)
    (present : fs.isFile (root ++ b!"/" ++ pathJoin pRel) = true)
    (noSpurious : ∀ j, 0 < j → j < pR.length + pDir.length →
      fs.isFile (root ++ b!"/" ++ pathJoin (parts.drop j)) = false) :
    isRootedIn fs root parts = R ++ b!"/" ++ pathJoin pDir := by
  have hlen : parts.length = pR.length + pDir.length + pRel.length := by
    rw [hsplit]; simp; omega
  have hl1 : 0 < pR.length := List.length_pos_iff.mpr hR
  have hl3 : 0 < pRel.length := List.length_pos_iff.mpr hRel
  have hdrop : parts.drop (pR.length + pDir.length) = pRel := by
    rw [hsplit]; exact List.drop_left' (by simp)
  have htake : parts.take (pR.length + pDir.length) = pR ++ pDir := by
    rw [hsplit]; exact List.take_left' (by simp)
  rw [isRootedIn_first (i := pR.length + pDir.length) (by omega) (by omega)
    (by rw [hdrop]; exact present) noSpurious, htake]
  unfold pathJoin at hroot ⊢
  rw [join_append b!"/" hR hD, hroot]

/-- the witness conditions from the probes, `/src` tree -/
theorem DetectsGopath.of_src_probe {w R L rel : Bytes} {pre post : List (Bytes × Bytes)}
    (hgps : lay.gps = pre ++ (R, L) :: post) (hw : w = R ++ srcSep ++ rel)
    (hG : hasSuffix (isRootedIn fs (lay.lg ++ srcDir) (splitPath w)) srcDir = false)
    (hpre : ∀ p ∈ pre, QuietGopath fs (splitPath w) p.2)
    (hhit : isRootedIn fs (L ++ srcDir) (splitPath w) = R ++ srcDir) :
    DetectsGopath lay fs w R L := by
  refine ⟨Or.inl (by rw [hw]; exact hasPrefix_root_sep _ _ _), hG, ?_⟩
  have : lay.locals = pre.map Prod.snd ++ L :: post.map Prod.snd := by
    simp [Layout.locals, hgps]
  rw [this, findGopath_skip _ _ (by
    intro l hl
    obtain ⟨p, hp, rfl⟩ := List.mem_map.mp hl
    exact hpre p hp)]
  exact findGopath_src_hit _ hhit

/-- the witness conditions from the probes, `/pkg/mod` tree -/
theorem DetectsGopath.of_pkgmod_probe {w R L rel : Bytes} {pre post : List (Bytes × Bytes)}
    (hgps : lay.gps = pre ++ (R, L) :: post) (hw : w = R ++ pkgmodSep ++ rel)
    (hG : hasSuffix (isRootedIn fs (lay.lg ++ srcDir) (splitPath w)) srcDir = false)
    (hpre : ∀ p ∈ pre, QuietGopath fs (splitPath w) p.2)
    (hq : hasSuffix (isRootedIn fs (L ++ srcDir) (splitPath w)) srcDir = false)
    (hhit : isRootedIn fs (L ++ pkgmodDir) (splitPath w) = R ++ pkgmodDir) :
    DetectsGopath lay fs w R L := by
  refine ⟨Or.inr (by rw [hw]; exact hasPrefix_root_sep _ _ _), hG, ?_⟩
  have : lay.locals = pre.map Prod.snd ++ L :: post.map Prod.snd := by
    simp [Layout.locals, hgps]
  rw [this, findGopath_skip _ _ (by
    intro l hl
    obtain ⟨p, hp, rfl⟩ := List.mem_map.mp hl
    exact hpre p hp)]
  exact findGopath_pkgmod_hit _ hq hhit

/-! ### files that satisfy `Tame` -/

/-- a GOPATH witness of a pair of the layout is tame -/
theorem DetectsGopath.tame {w R L : Bytes} (hw : DetectsGopath lay fs w R L) (hRL : (R, L) ∈ lay.gps) :
    Tame lay fs w := by
  refine ⟨?_, ?_, ?_⟩
  · intro h; rw [hw.gorootQuiet] at h; exact absurd h (by simp)
  · intro k l h
    rw [hw.probe] at h
    simp only [Except.ok.injEq, Option.some.injEq, Prod.mk.injEq] at h
    rw [← h.1, ← h.2]; exact hRL
  · intro _ h
    rw [hw.probe] at h
    simp at h

/-- a GOROOT witness is tame -/
theorem DetectsGoroot.tame {w : Bytes} (hw : DetectsGoroot lay fs w)
    (hgp : ∀ k l, findGopath fs (splitPath w) lay.locals = .ok (some (k, l)) → (k, l) ∈ lay.gps) :
    Tame lay fs w := by
  refine ⟨fun _ => ⟨hw.probe, hw.under⟩, hgp, ?_⟩
  intro h
  rw [hw.probe, hasSuffix_append] at h
  exact absurd h (by simp)

/-- a file on which every probe is silent is tame -/
theorem tame_of_silent {f : Bytes}
    (hG : hasSuffix (isRootedIn fs (lay.lg ++ srcDir) (splitPath f)) srcDir = false)
    (hP : findGopath fs (splitPath f) lay.locals = .ok none)
    (hM : ∀ i, 0 < i → i < (splitPath f).length → modAt fs (pathJoin ((splitPath f).take i)) = none)
    (hF : fs.isFile f = false) : Tame lay fs f := by
  refine ⟨?_, ?_, ?_⟩
  · intro h; rw [hG] at h; exact absurd h (by simp)
  · intro k l h; rw [hP] at h; simp at h
  · intro _ _
    refine ⟨?_, ?_⟩
    · intro i m h1 h2 h; rw [hM i h1 h2] at h; simp at h
    · intro h; rw [hF] at h; exact absurd h (by simp)

/-- all local GOPATHs silent -/
theorem findGopath_none_of_quiet {parts : List Bytes} (ls : List Bytes) (h : ∀ l ∈ ls, QuietGopath fs parts l) :
    findGopath fs parts ls = .ok none := by
  have := findGopath_skip (fs := fs) (parts := parts) ls [] h
  rw [List.append_nil] at this
  rw [this]
  rfl

/-! ### local go.mod modules -/

/-- `w` makes `findRoots` record the module `k ↦ m`: it is a clean path, neither
the GOROOT probe nor the loop over `LocalGOPATHs` claims it, `k` is one of its
directories `parts[:i]`, `k/go.mod` declares `module m`, and no directory
between `k` and the file has a `go.mod`. -/
structure DetectsGomod (lay : Layout) (fs : FS) (w k m : Bytes) : Prop where
  clean : pathJoin (splitPath w) = w
  gorootQuiet : hasSuffix (isRootedIn fs (lay.lg ++ srcDir) (splitPath w)) srcDir = false
  gopathQuiet : findGopath fs (splitPath w) lay.locals = .ok none
  dir : ∃ i, 0 < i ∧ i < (splitPath w).length ∧ k = pathJoin ((splitPath w).take i) ∧ modAt fs k = some m ∧
    ∀ j, i < j → j < (splitPath w).length → modAt fs (pathJoin ((splitPath w).take j)) = none

theorem DetectsGomod.under {w k m : Bytes} (hw : DetectsGomod lay fs w k m) :
    hasPrefix w (k ++ b!"/") = true := by
  obtain ⟨i, h1, h2, hk, _⟩ := hw.dir
  obtain ⟨t, _, e⟩ := clean_split hw.clean h1 h2
  exact hasPrefix_iff.mpr ⟨t, by rw [hk]; simpa [pfx] using e⟩

theorem DetectsGomod.step {w k m : Bytes} (hw : DetectsGomod lay fs w k m) (hd : lay.Disjoint)
    (hkm : (k, m) ∈ lay.mods) {st1 st2 : RootsState} (h2 : Inv2 lay fs st1)
    (hs : findRootsStep fs lay.lg lay.locals st1 w = .ok st2) : k ∈ st2.gomods.keys := by
  have hinv := h2.inv
  have hkd : k ∈ lay.modDirs := List.mem_map_of_mem (f := Prod.fst) hkm
  have hu := hw.under
  unfold findRootsStep at hs
  split at hs
  · rename_i hc
    exfalso
    simp only [Bool.and_eq_true, bne_iff_ne, ne_eq] at hc
    rcases hinv.goroot with h1 | h1
    · exact hc.1 h1
    · rw [h1] at hc
      exact no_two_claims (hd.rg_mod hkd) (under_of_src hc.2) hu
  · split at hs
    · rename_i hc
      obtain ⟨R, hR, hm⟩ := hasSrcPrefix_exists hc
      exact (no_two_claims (hd.remote_mod (hinv.gopath_key hR) hkd) (under_of_either hm) hu).elim
    · split at hs
      · rename_i hc
        cases hs
        obtain ⟨k', hk', hm⟩ := mapHasPrefix_exists hc
        by_cases hkk : k' = k
        · exact hkk ▸ hk'
        · exact (no_two_claims (hd.mod_mod (hinv.gomod_key hk') hkd hkk) hm hu).elim
      · rename_i hmskip
        have hmskip' : mapHasPrefix w st1.gomods = false := by simpa using hmskip
        unfold findRootsDisk at hs
        simp only [gorootProbe_quiet hw.gorootQuiet, Bool.false_eq_true, if_false, hw.gopathQuiet] at hs
        cases hs
        obtain ⟨i, hi1, hi2, hk, hmod, habove⟩ := hw.dir
        rw [hk] at hmod
        rcases findModule_trace h2.ci hw.clean hmskip' with ⟨_, hnone⟩ | ⟨i', h1, h2', h3, h4, h5⟩
        · rw [hnone i hi1 hi2] at hmod
          cases hmod
        · have hii : i' = i := by
            by_cases hlt : i' < i
            · rw [h5 i hlt hi2] at hmod; cases hmod
            · by_cases hgt : i < i'
              · rw [habove i' hgt h2'] at h4; cases h4
              · omega
          subst hii
          have hb : ((findModule fs st1.cache (splitPath w)).2.1 != []) = true := by
            rw [h3]; simpa using take_ne_nil_of_dirs h1 h2'
          unfold findRootsMod
          rw [if_pos hb]
          show k ∈ AMap.keys (st1.gomods.insert _ _)
          rw [h3, ← hk]
          exact AMap.keys_insert_self _ _ _

/-- the module recorded by a witness is in the final map -/
theorem DetectsGomod.final {w k m : Bytes} (hw : DetectsGomod lay fs w k m) (hd : lay.Disjoint)
    {files : List Bytes} (ht : ∀ f ∈ files, Tame lay fs f) (hf : w ∈ files)
    {st0 fin : RootsState} (hinv : Inv2 lay fs st0)
    (hloop : findRootsLoop fs lay.lg lay.locals st0 files = .ok fin) :
    k ∈ fin.gomods.keys ∧ fin.gomods.get k = m := by
  have hkm : (k, m) ∈ lay.mods := by
    obtain ⟨i, h1, h2, hk, hmod, _⟩ := hw.dir
    rw [hk] at hmod ⊢
    exact ((ht w hf).modules hw.gorootQuiet hw.gopathQuiet).1 i m h1 h2 hmod
  obtain ⟨pre, post, e⟩ := List.append_of_mem hf
  rw [e] at hloop
  obtain ⟨st1, st2, h1, h2, h3⟩ := findRootsLoop_append pre hloop
  have hinv1 := findRootsLoop_inv pre (fun f hf' => ht f (e ▸ List.mem_append_left _ hf')) hinv h1
  have hk : k ∈ fin.gomods.keys := (findRootsLoop_mono post h3).gomods _ (hw.step hd hkm hinv1 h2)
  have hfin : Inv lay fin := (findRootsLoop_inv _ (fun f hf' => ht f (e ▸ hf')) hinv hloop).inv
  exact ⟨hk, hd.mods_functional (hfin.gomods _ (AMap.get_of_mem_keys hk)) hkm⟩

theorem gomodLoop_unique {c : Call} {m : AMap} {k : Bytes} {ks : List Bytes} (hk : k ∈ ks)
    (hother : ∀ x ∈ ks, x ≠ k → c.tryGomod x (m.get x) = none) :
    c.gomodLoop m ks = c.tryGomod k (m.get k) := by
  induction ks with
  | nil => simp at hk
  | cons a t ih =>
    simp only [Call.gomodLoop]
    by_cases ha : a = k
    · subst ha
      cases hc : c.tryGomod a (m.get a) with
      | some c' => rfl
      | none =>
        simp only
        by_cases hin : a ∈ t
        · rw [ih hin (fun x hx hne => hother x (List.mem_cons_of_mem _ hx) hne), hc]
        · exact gomodLoop_all_none (fun x hx => hother x (List.mem_cons_of_mem _ hx) (fun e => hin (e ▸ hx)))
    · rw [hother a List.mem_cons_self ha]
      simp only
      simp only [List.mem_cons] at hk
      rcases hk with hk | hk
      · exact absurd hk.symm ha
      · exact ih hk (fun x hx hne => hother x (List.mem_cons_of_mem _ hx) hne)

/-- frame under the module directory `k` -/
theorem update_gomod {c : Call} {fin : RootsState} {lg k m rel : Bytes} (hd : lay.Disjoint) (hfin : Inv lay fin)
    (hc : c.remoteSrcPath = k ++ b!"/" ++ rel)
    (hk : k ∈ fin.gomods.keys) (hv : fin.gomods.get k = m) :
    c.updateLocations fin.goroot lg fin.gomods fin.gopaths =
      ({ c with relSrcPath := rel, localSrcPath := c.remoteSrcPath,
                importPath := gomodImport m rel, location := setLoc c .goMod }, true) := by
  have hkd := hfin.gomod_key hk
  have hu : hasPrefix c.remoteSrcPath (k ++ b!"/") = true := by rw [hc]; exact hasPrefix_root_sep _ _ _
  have hne : (c.remoteSrcPath == []) = false := by rw [hc]; simp
  have hgr : c.tryGoroot fin.goroot lg = none := by
    unfold Call.tryGoroot
    rcases hfin.goroot with h1 | h1
    · simp [h1]
    · have : hasPrefix c.remoteSrcPath (lay.rg ++ srcSep) = false :=
        bool_false_of_not fun h => no_two_claims (hd.rg_mod hkd) (under_of_src h) hu
      simp [h1, this]
  have hgp : c.gopathLoop fin.gopaths (sortedByLen fin.gopaths) = none := by
    apply gopathLoop_all_none
    intro R hR
    have hdis := hd.remote_mod (hfin.gopath_key (mem_sortedByLen.mp hR)) hkd
    exact tryGopath_none_of
      (bool_false_of_not fun h => no_two_claims hdis (under_of_src h) hu)
      (bool_false_of_not fun h => no_two_claims hdis (under_of_pkgmod h) hu)
  have hgm : c.gomodLoop fin.gomods (sortedByLen fin.gomods) = c.tryGomod k (fin.gomods.get k) := by
    apply gomodLoop_unique (mem_sortedByLen.mpr hk)
    intro x hx hne'
    have hdis := hd.mod_mod (hfin.gomod_key (mem_sortedByLen.mp hx)) hkd hne'
    exact tryGomod_none_of (bool_false_of_not fun h => no_two_claims hdis h hu)
  have hd' : c.remoteSrcPath.drop (k.length + 1) = rel := by
    rw [hc]; exact List.drop_left' (by simp)
  have htry : c.tryGomod k m =
      some { c with relSrcPath := rel, localSrcPath := c.remoteSrcPath,
                    importPath := gomodImport m rel, location := setLoc c .goMod } := by
    unfold Call.tryGomod
    simp only [hu, if_true, hd']
  unfold Call.updateLocations Call.updateLocations?
  simp only [hne, Bool.false_eq_true, if_false, hgr, hgp, hgm, hv, htry]

/-- a module witness is tame -/
theorem DetectsGomod.tame {w k m : Bytes} (hw : DetectsGomod lay fs w k m)
    (hmods : ∀ i m', 0 < i → i < (splitPath w).length → modAt fs (pathJoin ((splitPath w).take i)) = some m' →
      (pathJoin ((splitPath w).take i), m') ∈ lay.mods) : Tame lay fs w := by
  refine ⟨?_, ?_, ?_⟩
  · intro h; rw [hw.gorootQuiet] at h; exact absurd h (by simp)
  · intro k' l h; rw [hw.gopathQuiet] at h; simp at h
  · intro _ _
    refine ⟨hmods, fun _ => Or.inr ⟨hw.clean, ?_⟩⟩
    obtain ⟨i, h1, h2, hk, hmod, _⟩ := hw.dir
    exact ⟨i, h1, h2, by rw [← hk, hmod]; simp⟩

/-! ### files that exist as such and have no go.mod above them (`go run`) -/

/-- `w` makes `findRoots` record `path.Dir(w) ↦ "main"`: neither probe claims it,
no directory above it has a `go.mod`, and it exists itself.  (`under`: the file
lies in `path.Dir(w)`, i.e. the path is clean enough for `path.Dir` to cut off
exactly the last part.) -/
structure DetectsGorun (lay : Layout) (fs : FS) (w : Bytes) : Prop where
  under : hasPrefix w (pathDir w ++ b!"/") = true
  gorootQuiet : hasSuffix (isRootedIn fs (lay.lg ++ srcDir) (splitPath w)) srcDir = false
  gopathQuiet : findGopath fs (splitPath w) lay.locals = .ok none
  nomod : ∀ i, 0 < i → i < (splitPath w).length → modAt fs (pathJoin ((splitPath w).take i)) = none
  present : fs.isFile w = true

theorem DetectsGorun.step {w : Bytes} (hw : DetectsGorun lay fs w) (hd : lay.Disjoint)
    (hkm : (pathDir w, b!"main") ∈ lay.mods) {st1 st2 : RootsState} (hinv : Inv lay st1)
    (hs : findRootsStep fs lay.lg lay.locals st1 w = .ok st2) : pathDir w ∈ st2.gomods.keys := by
  have hkd : pathDir w ∈ lay.modDirs := List.mem_map_of_mem (f := Prod.fst) hkm
  have hu := hw.under
  unfold findRootsStep at hs
  split at hs
  · rename_i hc
    exfalso
    simp only [Bool.and_eq_true, bne_iff_ne, ne_eq] at hc
    rcases hinv.goroot with h1 | h1
    · exact hc.1 h1
    · rw [h1] at hc
      exact no_two_claims (hd.rg_mod hkd) (under_of_src hc.2) hu
  · split at hs
    · rename_i hc
      obtain ⟨R, hR, hm⟩ := hasSrcPrefix_exists hc
      exact (no_two_claims (hd.remote_mod (hinv.gopath_key hR) hkd) (under_of_either hm) hu).elim
    · split at hs
      · rename_i hc
        cases hs
        obtain ⟨k', hk', hm⟩ := mapHasPrefix_exists hc
        by_cases hkk : k' = pathDir w
        · exact hkk ▸ hk'
        · exact (no_two_claims (hd.mod_mod (hinv.gomod_key hk') hkd hkk) hm hu).elim
      · unfold findRootsDisk at hs
        simp only [gorootProbe_quiet hw.gorootQuiet, Bool.false_eq_true, if_false, hw.gopathQuiet] at hs
        cases hs
        have hroot : (findModule fs st1.cache (splitPath w)).2.1 = [] := by
          by_cases h0 : (findModule fs st1.cache (splitPath w)).2.1 = []
          · exact h0
          · obtain ⟨i, b, h1, h2, h3, h4, h5⟩ := findModule_spec (fs := fs) (cache := st1.cache) h0
            have := hw.nomod i h1 h2
            rw [← h3, modAt_of_read h4 h5] at this
            cases this
        have hb : ((findModule fs st1.cache (splitPath w)).2.1 != []) = false := by simp [hroot]
        unfold findRootsMod
        simp only [hb, Bool.false_eq_true, if_false, hw.present, if_true]
        exact AMap.keys_insert_self _ _ _

theorem DetectsGorun.final {w : Bytes} (hw : DetectsGorun lay fs w) (hd : lay.Disjoint)
    {files : List Bytes} (ht : ∀ f ∈ files, Tame lay fs f) (hf : w ∈ files)
    {st0 fin : RootsState} (hinv : Inv2 lay fs st0)
    (hloop : findRootsLoop fs lay.lg lay.locals st0 files = .ok fin) :
    pathDir w ∈ fin.gomods.keys ∧ fin.gomods.get (pathDir w) = b!"main" := by
  have hkm : (pathDir w, b!"main") ∈ lay.mods := by
    rcases ((ht w hf).modules hw.gorootQuiet hw.gopathQuiet).2 hw.present with h | ⟨_, i, h1, h2, h3⟩
    · exact h
    · exact absurd (hw.nomod i h1 h2) h3
  obtain ⟨pre, post, e⟩ := List.append_of_mem hf
  rw [e] at hloop
  obtain ⟨st1, st2, h1, h2, h3⟩ := findRootsLoop_append pre hloop
  have hinv1 := (findRootsLoop_inv pre (fun f hf' => ht f (e ▸ List.mem_append_left _ hf')) hinv h1).inv
  have hk := (findRootsLoop_mono post h3).gomods _ (hw.step hd hkm hinv1 h2)
  have hfin : Inv lay fin := (findRootsLoop_inv _ (fun f hf' => ht f (e ▸ hf')) hinv hloop).inv
  exact ⟨hk, hd.mods_functional (hfin.gomods _ (AMap.get_of_mem_keys hk)) hkm⟩

/-- a `go run` witness whose directory is admitted is tame -/
theorem DetectsGorun.tame {w : Bytes} (hw : DetectsGorun lay fs w) (hkm : (pathDir w, b!"main") ∈ lay.mods) :
    Tame lay fs w := by
  refine ⟨?_, ?_, ?_⟩
  · intro h; rw [hw.gorootQuiet] at h; exact absurd h (by simp)
  · intro k' l h; rw [hw.gopathQuiet] at h; simp at h
  · intro _ _
    refine ⟨?_, fun _ => Or.inl hkm⟩
    intro i m h1 h2 h
    rw [hw.nomod i h1 h2] at h
    cases h

/-! ### the hypotheses of the multi-root theorem, bundled -/

/-- The snapshot is configured for the layout, the remote roots of the layout
are pairwise disjoint, and every file of the dump is tame. -/
structure MultiHyp (fs : FS) (lay : Layout) (s : Snapshot) : Prop where
  localGoroot : s.localGOROOT = lay.lg
  localGopaths : s.localGOPATHs = lay.locals
  /-- `RemoteGOROOT` is not set beforehand, or is set to the right value -/
  remoteGoroot : s.remoteGOROOT = [] ∨ s.remoteGOROOT = lay.rg
  disjoint : lay.Disjoint
  tame : ∀ f ∈ getFiles s.goroutines, Tame lay fs f

theorem MultiHyp.loop {s : Snapshot} (H : MultiHyp fs lay s) {st : RootsState} (h : s.findRoots fs = .ok st) :
    findRootsLoop fs lay.lg lay.locals { goroot := s.remoteGOROOT } (getFiles s.goroutines) = .ok st := by
  rw [← H.localGoroot, ← H.localGopaths]; exact h

theorem MultiHyp.inv0 {s : Snapshot} (H : MultiHyp fs lay s) : Inv2 lay fs { goroot := s.remoteGOROOT } :=
  ⟨⟨H.remoteGoroot, by simp, by simp⟩, by intro d hd; simp at hd⟩

theorem MultiHyp.inv {s : Snapshot} (H : MultiHyp fs lay s) {st : RootsState} (h : s.findRoots fs = .ok st) :
    Inv lay st :=
  (findRootsLoop_inv _ H.tame H.inv0 (H.loop h)).inv

end PP
