import PP.Spec.FuncTree
/-
Lemmas about `PP.FA.getFuncAST`: the walk without the error monad (`walk`),
its agreement with `inspect (callback …)`, and the ways a subtree is crossed
(already decided / everything before the offset / a stop with a remembered
declaration / a declaration that starts on the line).
-/
namespace PP.FA

/-! ### the walk for a known offset -/

mutual
/-- `inspect (callback offsets l eol)` when `offsets[l] = off` -/
def walk (off : Nat) (eol : Option Nat) (s : St) : Node → St
  | ⟨pos, isF, decl, cs⟩ =>
    if s.d.isSome then s
    else if (isF && decide (pos ≥ off) && leEol pos eol) = true then
      walkList off eol { s with lastFunc := some decl } cs
    else if pos ≥ off then { s with d := s.lastFunc }
    else walkList off eol (if isF then { s with lastFunc := some decl } else s) cs
def walkList (off : Nat) (eol : Option Nat) (s : St) : List Node → St
  | [] => s
  | c :: cs => walkList off eol (walk off eol s c) cs
end

theorem callback_nil (offsets : List Nat) (l : Nat) (eol : Option Nat) (s : St) :
    ∃ b, callback offsets l eol s none = .ok (s, b) := by
  unfold callback
  cases h : s.d.isSome
  · exact ⟨true, by simp⟩
  · exact ⟨false, by simp⟩

theorem callback_some (offsets : List Nat) (l off : Nat) (eol : Option Nat) (h : offsets[l]? = some off)
    (s : St) (hd : s.d.isSome = false) (n : Node) :
    callback offsets l eol s (some n) =
      if (n.isFuncDecl && decide (n.pos ≥ off) && leEol n.pos eol) = true then
        .ok ({ s with lastFunc := some n.decl }, true)
      else if n.pos ≥ off then .ok ({ s with d := s.lastFunc }, false)
      else if n.isFuncDecl = true then .ok ({ s with lastFunc := some n.decl }, true)
      else .ok (s, true) := by
  unfold callback
  rw [hd, h]
  rfl

mutual
theorem inspect_eq_walk (offsets : List Nat) (l off : Nat) (eol : Option Nat) (h : offsets[l]? = some off)
    (s : St) : (n : Node) → inspect (callback offsets l eol) s n = .ok (walk off eol s n)
  | ⟨pos, isF, decl, cs⟩ => by
    rw [inspect, walk]
    cases hd : s.d.isSome
    · rw [callback_some offsets l off eol h s hd]
      simp only [Bool.false_eq_true, if_false]
      by_cases he : (isF && decide (pos ≥ off) && leEol pos eol) = true
      · rw [if_pos he, if_pos he]
        simp only [inspectList_eq_walkList offsets l off eol h _ cs]
        obtain ⟨b, hb⟩ := callback_nil offsets l eol (walkList off eol { s with lastFunc := some decl } cs)
        rw [hb]
      · rw [if_neg he, if_neg he]
        by_cases hp : pos ≥ off
        · rw [if_pos hp, if_pos hp]
        · rw [if_neg hp, if_neg hp]
          cases isF
          · simp only [Bool.false_eq_true, if_false]
            simp only [inspectList_eq_walkList offsets l off eol h s cs]
            obtain ⟨b, hb⟩ := callback_nil offsets l eol (walkList off eol s cs)
            rw [hb]
          · simp only [if_true]
            simp only [inspectList_eq_walkList offsets l off eol h _ cs]
            obtain ⟨b, hb⟩ := callback_nil offsets l eol (walkList off eol { s with lastFunc := some decl } cs)
            rw [hb]
    · simp [callback, hd]
theorem inspectList_eq_walkList (offsets : List Nat) (l off : Nat) (eol : Option Nat)
    (h : offsets[l]? = some off) (s : St) :
    (ns : List Node) → inspectList (callback offsets l eol) s ns = .ok (walkList off eol s ns)
  | [] => by rw [inspectList, walkList]
  | n :: ns => by
    rw [inspectList, walkList, inspect_eq_walk offsets l off eol h s n]
    exact inspectList_eq_walkList offsets l off eol h _ ns
end

/-- the guarded read of `p.lineToByteOffset[l+1]` never fails -/
theorem eolOf_eq (offsets : List Nat) (l : Nat) : eolOf offsets l = .ok offsets[l + 1]? := by
  unfold eolOf
  by_cases h : l + 1 < offsets.length
  · rw [if_pos h, List.getElem?_eq_getElem h]
  · rw [if_neg h, List.getElem?_eq_none (Nat.le_of_not_lt h)]

/-- `getFuncAST` in terms of the plain walk -/
theorem getFuncAST_eq_walk (offsets : List Nat) (root : Node) (l off : Nat) (h : offsets[l]? = some off) :
    getFuncAST offsets root l = .ok (walk off offsets[l + 1]? {} root).d := by
  have hl : ¬ offsets.length ≤ l := by
    intro hle
    rw [List.getElem?_eq_none hle] at h
    cases h
  unfold getFuncAST
  rw [if_neg hl, eolOf_eq]
  simp only [inspect_eq_walk offsets l off _ h]

/-! ### once `d` is set nothing changes -/

mutual
theorem walk_done (off : Nat) (eol : Option Nat) (s : St) (hd : s.d.isSome = true) :
    (n : Node) → walk off eol s n = s
  | ⟨pos, isF, decl, cs⟩ => by rw [walk, if_pos hd]
theorem walkList_done (off : Nat) (eol : Option Nat) (s : St) (hd : s.d.isSome = true) :
    (ns : List Node) → walkList off eol s ns = s
  | [] => by rw [walkList]
  | n :: ns => by rw [walkList, walk_done off eol s hd n]; exact walkList_done off eol s hd ns
end

/-! ### lastDecl -/

theorem lastDecl_append (i : Option Nat) (a b : List Node) :
    lastDecl i (a ++ b) = lastDecl (lastDecl i a) b := by
  unfold lastDecl; rw [List.foldl_append]

theorem lastDecl_cons (i : Option Nat) (m : Node) (b : List Node) :
    lastDecl i (m :: b) = lastDecl (if m.isFuncDecl then some m.decl else i) b := rfl

theorem lastDecl_nil (i : Option Nat) : lastDecl i [] = i := rfl

theorem lastDecl_of_none (i : Option Nat) (ns : List Node) (h : ∀ m ∈ ns, m.isFuncDecl = false) :
    lastDecl i ns = i := by
  induction ns generalizing i with
  | nil => rfl
  | cons m t ih =>
    rw [lastDecl_cons, h m (by simp)]
    exact ih i (fun x hx => h x (by simp [hx]))

/-! ### a subtree entirely before the offset -/

theorem not_onLine_of_lt {isF : Bool} {pos off : Nat} {eol : Option Nat} (hp : ¬ pos ≥ off) :
    ¬ (isF && decide (pos ≥ off) && leEol pos eol) = true := by
  simp [hp]

mutual
theorem walk_allBefore (off : Nat) (eol : Option Nat) (s : St) (hd : s.d = none) :
    (n : Node) → (∀ m ∈ nodes n, m.pos < off) → walk off eol s n = ⟨none, lastDecl s.lastFunc (nodes n)⟩
  | ⟨pos, isF, decl, cs⟩, h => by
    rw [nodes] at h
    have hp : ¬ pos ≥ off := by
      have := h ⟨pos, isF, decl, cs⟩ (by simp)
      simp at this; omega
    have hcs : ∀ m ∈ nodesL cs, m.pos < off := fun m hm => h m (by simp [hm])
    rw [walk, nodes, lastDecl_cons, if_neg (not_onLine_of_lt hp)]
    simp only [hd, Option.isSome_none, Bool.false_eq_true, if_false, hp]
    cases isF
    · have := walkList_allBefore off eol s hd cs hcs
      simpa using this
    · have := walkList_allBefore off eol { s with lastFunc := some decl } hd cs hcs
      simpa [hd] using this
theorem walkList_allBefore (off : Nat) (eol : Option Nat) (s : St) (hd : s.d = none) :
    (ns : List Node) → (∀ m ∈ nodesL ns, m.pos < off) →
      walkList off eol s ns = ⟨none, lastDecl s.lastFunc (nodesL ns)⟩
  | [], _ => by
    rw [walkList, nodesL, lastDecl_nil]
    cases s; simp_all
  | n :: ns, h => by
    rw [nodesL] at h
    rw [walkList, nodesL, lastDecl_append,
      walk_allBefore off eol s hd n (fun m hm => h m (by simp [hm]))]
    exact walkList_allBefore off eol _ rfl ns (fun m hm => h m (by simp [hm]))
end

/-! ### a stop with a remembered declaration -/

mutual
theorem walk_stop (off k : Nat) (eol : Option Nat) (s : St) (hd : s.d = none) (hl : s.lastFunc = some k) :
    (n : Node) → (∀ m ∈ nodes n, m.isFuncDecl = false) → (∃ m ∈ nodes n, off ≤ m.pos) →
      walk off eol s n = ⟨some k, some k⟩
  | ⟨pos, isF, decl, cs⟩, hno, hge => by
    rw [nodes] at hno hge
    have hf : isF = false := by simpa using hno ⟨pos, isF, decl, cs⟩ (by simp)
    subst hf
    rw [walk]
    simp only [hd, Option.isSome_none, Bool.false_eq_true, if_false, Bool.false_and]
    by_cases hp : pos ≥ off
    · rw [if_pos hp]; cases s; simp_all
    · rw [if_neg hp]
      obtain ⟨m, hm, hmp⟩ := hge
      have hm' : m ∈ nodesL cs := by
        rcases List.mem_cons.mp hm with rfl | h'
        · exact absurd hmp hp
        · exact h'
      exact walkList_stop off k eol s hd hl cs (fun x hx => hno x (by simp [hx])) ⟨m, hm', hmp⟩
theorem walkList_stop (off k : Nat) (eol : Option Nat) (s : St) (hd : s.d = none) (hl : s.lastFunc = some k) :
    (ns : List Node) → (∀ m ∈ nodesL ns, m.isFuncDecl = false) → (∃ m ∈ nodesL ns, off ≤ m.pos) →
      walkList off eol s ns = ⟨some k, some k⟩
  | [], _, hge => by
    obtain ⟨m, hm, _⟩ := hge
    rw [nodesL] at hm; cases hm
  | n :: ns, hno, hge => by
    rw [nodesL] at hno hge
    rw [walkList]
    have hnoN : ∀ m ∈ nodes n, m.isFuncDecl = false := fun x hx => hno x (by simp [hx])
    have hnoT : ∀ m ∈ nodesL ns, m.isFuncDecl = false := fun x hx => hno x (by simp [hx])
    by_cases hn : ∃ m ∈ nodes n, off ≤ m.pos
    · rw [walk_stop off k eol s hd hl n hnoN hn]
      exact walkList_done off eol _ rfl ns
    · have hall : ∀ m ∈ nodes n, m.pos < off := by
        intro m hm
        apply Nat.lt_of_not_le
        intro hle
        exact hn ⟨m, hm, hle⟩
      rw [walk_allBefore off eol s hd n hall, lastDecl_of_none _ _ hnoN]
      obtain ⟨m, hm, hmp⟩ := hge
      have hm' : m ∈ nodesL ns := by
        rcases List.mem_append.mp hm with h' | h'
        · exact absurd ⟨m, h', hmp⟩ hn
        · exact h'
      exact walkList_stop off k eol ⟨none, s.lastFunc⟩ rfl hl ns hnoT ⟨m, hm', hmp⟩
end

/-! ### siblings that all stop without a remembered declaration -/

/-- the node stops the walk: it starts on the line or later and is not a
declaration that starts on the line -/
def Stops (off : Nat) (eol : Option Nat) (c : Node) : Prop :=
  off ≤ c.pos ∧ ¬ (c.isFuncDecl = true ∧ leEol c.pos eol = true)

instance (off : Nat) (eol : Option Nat) (c : Node) : Decidable (Stops off eol c) := by
  unfold Stops; infer_instance

theorem walk_stops (off : Nat) (eol : Option Nat) (s : St) (hd : s.d = none) :
    (c : Node) → Stops off eol c → walk off eol s c = ⟨s.lastFunc, s.lastFunc⟩
  | ⟨pos, isF, decl, cs⟩, h => by
    have hp : pos ≥ off := h.1
    have he : ¬ (isF && decide (pos ≥ off) && leEol pos eol) = true := by
      intro hc
      simp only [Bool.and_eq_true, decide_eq_true_eq] at hc
      exact h.2 ⟨hc.1.1, hc.2⟩
    rw [walk, if_neg he]
    simp [hd, hp]

theorem walkList_all_stop_none (off : Nat) (eol : Option Nat) :
    (ns : List Node) → (∀ c ∈ ns, Stops off eol c) → walkList off eol ⟨none, none⟩ ns = ⟨none, none⟩
  | [], _ => by rw [walkList]
  | c :: ns, h => by
    rw [walkList, walk_stops off eol ⟨none, none⟩ rfl c (h c (by simp))]
    exact walkList_all_stop_none off eol ns (fun c hc => h c (by simp [hc]))

/-! ### a declaration that starts on the line -/

theorem walk_enter_self (off : Nat) (eol : Option Nat) (s : St) (hd : s.d = none) (pk k : Nat) (body : List Node)
    (hoff : off ≤ pk) (heol : leEol pk eol = true)
    (hbody : ∀ m ∈ nodesL body, m.isFuncDecl = false) (hreach : ∃ m ∈ nodesL body, off ≤ m.pos) :
    walk off eol s ⟨pk, true, k, body⟩ = ⟨some k, some k⟩ := by
  have he : (true && decide (pk ≥ off) && leEol pk eol) = true := by simp [hoff, heol]
  rw [walk, if_pos he]
  simp only [hd, Option.isSome_none, Bool.false_eq_true, if_false]
  exact walkList_stop off k eol _ rfl rfl body hbody hreach

/-! ### the root -/

theorem walk_root (off : Nat) (eol : Option Nat) (p0 x : Nat) (cs : List Node) (hp : p0 < off) :
    walk off eol {} ⟨p0, false, x, cs⟩ = walkList off eol {} cs := by
  rw [walk]
  have : ¬ p0 ≥ off := by omega
  simp [this]

theorem walkList_append (off : Nat) (eol : Option Nat) (s : St) : (a b : List Node) →
    walkList off eol s (a ++ b) = walkList off eol (walkList off eol s a) b
  | [], b => by rw [List.nil_append, walkList]
  | n :: a, b => by
    rw [List.cons_append, walkList, walkList]
    exact walkList_append off eol _ a b

theorem nodesL_append : (a b : List Node) → nodesL (a ++ b) = nodesL a ++ nodesL b
  | [], b => by rw [List.nil_append, nodesL, List.nil_append]
  | n :: a, b => by
    rw [List.cons_append, nodesL, nodesL, nodesL_append a b, List.append_assoc]

theorem mem_nodes_self : (n : Node) → n ∈ nodes n
  | ⟨p, f, d, cs⟩ => by rw [nodes]; simp

theorem nodes_eq (n : Node) : nodes n = n :: nodesL n.children := by
  cases n; rw [nodes]

theorem mem_nodesL_of_mem {c : Node} {ns : List Node} (h : c ∈ ns) {m : Node} (hm : m ∈ nodes c) :
    m ∈ nodesL ns := by
  induction ns with
  | nil => cases h
  | cons a t ih =>
    rw [nodesL]
    rcases List.mem_cons.mp h with rfl | h'
    · simp [hm]
    · simp [ih h']

theorem exists_of_mem_nodesL : (ns : List Node) → (m : Node) → m ∈ nodesL ns → ∃ c ∈ ns, m ∈ nodes c
  | [], m, h => by rw [nodesL] at h; cases h
  | n :: ns, m, h => by
    rw [nodesL] at h
    rcases List.mem_append.mp h with h' | h'
    · exact ⟨n, by simp, h'⟩
    · obtain ⟨c, hc, hm⟩ := exists_of_mem_nodesL ns m h'
      exact ⟨c, by simp [hc], hm⟩

/-- the state after a run of siblings that lie entirely before the offset -/
theorem walkList_before (off : Nat) (eol : Option Nat) (before rest : List Node) (hb : AllBeforeL off before) :
    walkList off eol {} (before ++ rest) = walkList off eol ⟨none, lastDecl none (nodesL before)⟩ rest := by
  rw [walkList_append, walkList_allBefore off eol {} rfl before hb]

/-- a function declaration `⟨pk, true, k, body⟩` crossed entirely: it is the
remembered one afterwards -/
theorem lastDecl_through_decl (i : Option Nat) (before : List Node) (pj j : Nat) (body : List Node)
    (hnd : NoDeclL body) :
    lastDecl i (nodesL (before ++ [⟨pj, true, j, body⟩])) = some j := by
  rw [nodesL_append, lastDecl_append, nodesL, nodesL, List.append_nil, nodes, lastDecl_cons]
  exact lastDecl_of_none _ _ hnd

/-- results can be compared (for the evaluated examples) -/
instance decEqResult : DecidableEq (Except Err (Option Nat))
  | .ok a, .ok b => if h : a = b then isTrue (by rw [h]) else isFalse (fun hc => h (by cases hc; rfl))
  | .error a, .error b => if h : a = b then isTrue (by rw [h]) else isFalse (fun hc => h (by cases hc; rfl))
  | .ok _, .error _ => isFalse (fun hc => by cases hc)
  | .error _, .ok _ => isFalse (fun hc => by cases hc)

end PP.FA
