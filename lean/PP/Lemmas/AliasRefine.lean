import PP.Lemmas.AliasLemmas
/-
Refinement: the heap versions of the `merge` family and of `Aggregate` compute,
read back through `abs…`, what the functional model computes.
-/
namespace PP.Alias

/-! ### pointwise view of `Arg.mergeL` -/

/-- element `j` of `Arg.mergeL A R` -/
def mergeAt (A R : List Arg) (j : Nat) : Option Arg :=
  match A[j]? with
  | none => none
  | some x =>
    match R[j]? with
    | none => some x
    | some y => some (Arg.merge x y)

theorem mergeL_getElem? : ∀ (A R : List Arg) (j : Nat), (Arg.mergeL A R)[j]? = mergeAt A R j
  | [], R, j => by simp [Arg.mergeL, mergeAt]
  | a :: A, [], j => by
    simp only [Arg.mergeL, mergeAt, List.getElem?_nil]
    cases (a :: A)[j]? <;> rfl
  | a :: A, b :: R, 0 => by simp [Arg.mergeL, mergeAt]
  | a :: A, b :: R, j + 1 => by
    simp only [Arg.mergeL, mergeAt, List.getElem?_cons_succ]
    exact mergeL_getElem? A R j

theorem scalarEqual_abs (d : Nat) (h : Heap) (n : Bytes) (v : Nat) (p o i : Bool) (rv : HArg) :
    scalarEqual (.scalar n v p o i) rv = Arg.equal (.scalar n v p o i) (absArg d h rv) := by
  cases rv <;> simp [scalarEqual, absArg, Arg.equal, Arg.similar]

/-! ### Args.merge -/

/-- what one nesting level of `Args.merge` guarantees: for inputs that are in range,
only reach addresses in `P` and nest less than `d` deep, the call extends the heap,
its result only reaches `P`-addresses and new cells, and reads back as `Arg.mergeL`. -/
def RecSpec (d : Nat) (rec : Heap → HArgs → HArgs → Heap × HArgs) : Prop :=
  ∀ (P : Addr → Bool) (h : Heap) (a r : HArgs),
    wfArgs P d h a.values = true → wfArgs P d h r.values = true →
    h.Ext (rec h a r).1 ∧
    wfArgs (fun x => P x || decide (h.argCells.length ≤ x)) d (rec h a r).1
      (rec h a r).2.values = true ∧
    absArgsL d (rec h a r).1 (rec h a r).2.values =
      Arg.mergeL (absArgsL d h a.values) (absArgsL d h r.values) ∧
    (rec h a r).2.elided = a.elided ∧ (rec h a r).2.processed = []

/-- loop invariant of `mergeArgsLoop` before iteration `i`: the old heap `h₀` is
intact, the output cell `o` has its `n` slots, and the first `i` of them are
well-formed values that avoid `o` and read back as the first `i` merged elements -/
structure LoopInv (d : Nat) (Q : Addr → Bool) (A R : List Arg) (o n : Nat) (h₀ : Heap)
    (i : Nat) (h : Heap) : Prop where
  ext : h₀.Ext h
  cell : ∃ cur, h.argCells[o]? = some cur ∧ cur.length = n ∧
    ∀ j, j < i → ∃ v, cur[j]? = some v ∧ wfArg Q d h v = true ∧
      some (absArg d h v) = mergeAt A R j

/-- committing element `i`: after a pure extension `h → h₁` (the recursive call, or
nothing) write `v` into slot `i` of the output cell -/
theorem LoopInv.commit {d : Nat} {Q : Addr → Bool} {A R : List Arg} {o n : Nat} {h₀ h : Heap}
    {i : Nat} (inv : LoopInv d Q A R o n h₀ i h) (ho : h₀.argCells.length ≤ o)
    (hQ : Q o = false) (hi : i < n) {h₁ : Heap} (e : h.Ext h₁) {v : HArg}
    (hw : wfArg Q d h₁ v = true) (ha : some (absArg d h₁ v) = mergeAt A R i) :
    LoopInv d Q A R o n h₀ (i + 1) (h₁.writeArg o i v) := by
  obtain ⟨cur, hc, hlen, hdone⟩ := inv.cell
  have hol : o < h.argCells.length := by
    rcases Nat.lt_or_ge o h.argCells.length with h' | h'
    · exact h'
    · rw [List.getElem?_eq_none h'] at hc; cases hc
  have hc₁ : h₁.argCells[o]? = some cur := by rw [e.1.2 o hol, hc]
  have ag₁ : h₁.AgreeOn Q (h₁.writeArg o i v) := Heap.agreeOn_writeArg Q h₁ hQ i v
  have ag : h.AgreeOn Q (h₁.writeArg o i v) := (e.agreeOn Q).trans ag₁
  refine ⟨(inv.ext.trans e).writeArg_fresh ho i v, cur.set i v, ?_, ?_, ?_⟩
  · simp only [Heap.writeArg]
    rw [List.getElem?_modify_eq, hc₁]
    rfl
  · rw [List.length_set, hlen]
  · intro j hj
    by_cases hji : j = i
    · subst hji
      refine ⟨v, ?_, ?_, ?_⟩
      · rw [List.getElem?_set_self (by omega)]
      · exact (wfArg_agree ag₁ d v hw).1
      · rw [(wfArg_agree ag₁ d v hw).2 d]; exact ha
    · obtain ⟨v', hv', hw', ha'⟩ := hdone j (by omega)
      refine ⟨v', ?_, ?_, ?_⟩
      · rw [List.getElem?_set_ne (by omega), hv']
      · exact (wfArg_agree ag d v' hw').1
      · rw [(wfArg_agree ag d v' hw').2 d]; exact ha'

/-- a well-formed slice is read the same in every extension -/
theorem argCell_ext_of_wf {P : Addr → Bool} {d : Nat} {h₀ h : Heap} (e : h₀.Ext h) (s : Slice)
    (hw : wfArgs P d h₀ s = true) : h.argCell s = h₀.argCell s := by
  cases s with
  | none => rfl
  | some a =>
    cases d with
    | zero => simp [wfArgs] at hw
    | succ d =>
      rw [wfArgs_succ_some] at hw
      simp only [Bool.and_eq_true, decide_eq_true_eq] at hw
      simp only [Heap.argCell, e.1.2 a hw.1.2]

/-- elements of a well-formed slice are well-formed one level down -/
theorem wfArg_of_mem {P : Addr → Bool} {d : Nat} {h : Heap} {s : Slice}
    (hw : wfArgs P (d + 1) h s = true) {x : HArg} (hx : x ∈ h.argCell s) :
    wfArg P d h x = true := by
  cases s with
  | none => simp [Heap.argCell] at hx
  | some a =>
    rw [wfArgs_succ_some] at hw
    simp only [Bool.and_eq_true, List.all_eq_true] at hw
    exact hw.2 x hx

/-- addresses a finished element may reach: old `P`-cells below `o`, and cells
newer than `o` — never the output cell `o` itself -/
def avoid (P : Addr → Bool) (o : Addr) : Addr → Bool :=
  fun x => (P x && decide (x < o)) || decide (o < x)

theorem avoid_self (P : Addr → Bool) (o : Addr) : avoid P o o = false := by simp [avoid]

theorem wfArgs_fieldsArgs {P : Addr → Bool} {d : Nat} {h : Heap} {rv : HArg}
    (hw : wfArg P d h rv = true) : wfArgs P d h rv.fieldsArgs.values = true := by
  cases rv with
  | scalar => exact wfArgs_none _ _ _
  | agg fs e => exact hw

theorem merge_agg_abs (d : Nat) (h : Heap) (F : List Arg) (e : Bool) (rv : HArg) :
    Arg.merge (.agg F e) (absArg d h rv) =
      .agg (Arg.mergeL F (absArgsL d h rv.fieldsArgs.values)) e := by
  cases rv with
  | scalar => simp [absArg, Arg.merge, HArg.fieldsArgs, absArgsL_none]
  | agg fs e' => simp [absArg, Arg.merge, HArg.fieldsArgs]

theorem mergeArgsStep_inv {d : Nat} {rec : Heap → HArgs → HArgs → Heap × HArgs}
    (hrec : RecSpec d rec) {P : Addr → Bool} {h₀ : Heap} {a r : Slice}
    (hwa : wfArgs P (d + 1) h₀ a = true) (hwr : wfArgs P (d + 1) h₀ r = true) {i : Nat} {h : Heap}
    (hi : i < (h₀.argCell a).length)
    (inv : LoopInv d (avoid P h₀.argCells.length) (absArgsL (d + 1) h₀ a) (absArgsL (d + 1) h₀ r)
      h₀.argCells.length (h₀.argCell a).length h₀ i h) :
    LoopInv d (avoid P h₀.argCells.length) (absArgsL (d + 1) h₀ a) (absArgsL (d + 1) h₀ r)
      h₀.argCells.length (h₀.argCell a).length h₀ (i + 1)
      (mergeArgsStep rec a r h₀.argCells.length i h) := by
  have hQ := avoid_self P h₀.argCells.length
  have hPQ : ∀ x, P x = true → x < h₀.argCells.length → avoid P h₀.argCells.length x = true :=
    fun x hx hl => by simp [avoid, hx, hl]
  have agQ := inv.ext.agreeOn (avoid P h₀.argCells.length)
  have hca : h.argCell a = h₀.argCell a := argCell_ext_of_wf inv.ext a hwa
  have hcr : h.argCell r = h₀.argCell r := argCell_ext_of_wf inv.ext r hwr
  have hl : (h₀.argCell a)[i]? = some ((h₀.argCell a)[i]) := List.getElem?_eq_getElem hi
  generalize (h₀.argCell a)[i] = l at hl
  have hwl : wfArg (avoid P h₀.argCells.length) d h₀ l = true :=
    wfArg_mono h₀ hPQ d l (wfArg_of_mem hwa (List.mem_of_getElem? hl))
  have tl := wfArg_agree agQ d l hwl
  have hA : (absArgsL (d + 1) h₀ a)[i]? = some (absArg d h₀ l) := by
    rw [absArgsL_succ, List.getElem?_map, hl]; rfl
  have hR : (absArgsL (d + 1) h₀ r)[i]? = ((h₀.argCell r)[i]?).map (absArg d h₀) := by
    rw [absArgsL_succ, List.getElem?_map]
  have hol : h₀.argCells.length < h.argCells.length := by
    obtain ⟨cur, hc, _⟩ := inv.cell
    rcases Nat.lt_or_ge h₀.argCells.length h.argCells.length with h' | h'
    · exact h'
    · rw [List.getElem?_eq_none h'] at hc; cases hc
  unfold mergeArgsStep
  rw [hca, hcr, hl]
  cases hr : (h₀.argCell r)[i]? with
  | none =>
    rw [hr] at hR
    refine inv.commit (Nat.le_refl _) hQ hi (Heap.Ext.refl h) tl.1 ?_
    rw [tl.2 d]
    simp only [mergeAt, hA, hR, Option.map_none]
  | some rv =>
    rw [hr] at hR
    have hwrv : wfArg (avoid P h₀.argCells.length) d h₀ rv = true :=
      wfArg_mono h₀ hPQ d rv (wfArg_of_mem hwr (List.mem_of_getElem? hr))
    have hM : mergeAt (absArgsL (d + 1) h₀ a) (absArgsL (d + 1) h₀ r) i =
        some (Arg.merge (absArg d h₀ l) (absArg d h₀ rv)) := by
      simp only [mergeAt, hA, hR, Option.map_some]
    cases l with
    | scalar n v p ot ia =>
      simp only []
      have hm : Arg.merge (absArg d h₀ (.scalar n v p ot ia)) (absArg d h₀ rv) =
          if scalarEqual (.scalar n v p ot ia) rv then .scalar n v p ot ia
          else .scalar star v p false false := by
        rw [scalarEqual_abs d h₀]
        simp only [absArg, Arg.merge]
        rfl
      by_cases heq : scalarEqual (.scalar n v p ot ia) rv = true
      · rw [if_pos heq]
        refine inv.commit (Nat.le_refl _) hQ hi (Heap.Ext.refl h) (v := .scalar n v p ot ia) rfl ?_
        rw [hM, hm, if_pos heq]; rfl
      · rw [if_neg heq]
        refine inv.commit (Nat.le_refl _) hQ hi (Heap.Ext.refl h)
          (v := .scalar star v p false false) rfl ?_
        rw [hM, hm, if_neg heq]; rfl
    | agg fs e =>
      simp only []
      have tfs := wfArgs_agree agQ d fs hwl
      have trv := wfArgs_agree agQ d _ (wfArgs_fieldsArgs hwrv)
      obtain ⟨e₁, hw₁, ha₁, hel, _⟩ :=
        hrec (avoid P h₀.argCells.length) h { values := fs, elided := e } rv.fieldsArgs tfs.1 trv.1
      refine inv.commit (Nat.le_refl _) hQ hi e₁ ?_ ?_
      · refine wfArgs_mono _ (fun x hx _ => ?_) d _ hw₁
        simp only [avoid, Bool.or_eq_true, Bool.and_eq_true, decide_eq_true_eq] at hx ⊢
        rcases hx with hx | hx
        · exact hx
        · exact Or.inr (Nat.lt_of_lt_of_le hol hx)
      · rw [hM]
        simp only [absArg] at ha₁ ⊢
        rw [ha₁, hel, tfs.2 d, trv.2 d]
        have := merge_agg_abs d h₀ (absArgsL d h₀ fs) e rv
        simp only [absArg] at this
        rw [this]

theorem mergeArgsLoop_inv {d : Nat} {rec : Heap → HArgs → HArgs → Heap × HArgs}
    (hrec : RecSpec d rec) {P : Addr → Bool} {h₀ : Heap} {a r : Slice}
    (hwa : wfArgs P (d + 1) h₀ a = true) (hwr : wfArgs P (d + 1) h₀ r = true) :
    ∀ (k i : Nat) (h : Heap), i + k = (h₀.argCell a).length →
      LoopInv d (avoid P h₀.argCells.length) (absArgsL (d + 1) h₀ a) (absArgsL (d + 1) h₀ r)
        h₀.argCells.length (h₀.argCell a).length h₀ i h →
      LoopInv d (avoid P h₀.argCells.length) (absArgsL (d + 1) h₀ a) (absArgsL (d + 1) h₀ r)
        h₀.argCells.length (h₀.argCell a).length h₀ (h₀.argCell a).length
        (mergeArgsLoop rec a r h₀.argCells.length k i h)
  | 0, i, h, hik, inv => by
    rw [mergeArgsLoop]
    have : i = (h₀.argCell a).length := by omega
    rw [this] at inv
    exact inv
  | k + 1, i, h, hik, inv => by
    rw [mergeArgsLoop]
    exact mergeArgsLoop_inv hrec hwa hwr k (i + 1) _ (by omega)
      (mergeArgsStep_inv hrec hwa hwr (by omega) inv)

theorem mergeArgsH_succ (f : Nat) (h : Heap) (a r : HArgs) :
    mergeArgsH (f + 1) h a r =
      (mergeArgsLoop (mergeArgsH f) a.values r.values h.argCells.length
         (h.argCell a.values).length 0
         (h.allocArgs (List.replicate (h.argCell a.values).length HArg.zero)).1,
       { values := some h.argCells.length, processed := [], elided := a.elided }) := rfl

/-- `Args.merge` over the heap refines `Arg.mergeL`, with fuel = nesting bound -/
theorem mergeArgsH_spec : ∀ d : Nat, RecSpec d (mergeArgsH d)
  | 0 => by
    intro P h a r hwa _
    cases hv : a.values with
    | some x => rw [hv] at hwa; simp [wfArgs] at hwa
    | none =>
      refine ⟨Heap.Ext.refl h, ?_, ?_, rfl, rfl⟩
      · simp only [mergeArgsH, hv]; exact wfArgs_none _ _ _
      · simp only [mergeArgsH, hv, absArgsL_none, Arg.mergeL]
  | d + 1 => by
    intro P h a r hwa hwr
    have inv0 : LoopInv d (avoid P h.argCells.length) (absArgsL (d + 1) h a.values)
        (absArgsL (d + 1) h r.values) h.argCells.length (h.argCell a.values).length h 0
        (h.allocArgs (List.replicate (h.argCell a.values).length HArg.zero)).1 :=
      ⟨h.ext_allocArgs _, _, List.getElem?_concat_length, List.length_replicate,
        fun j hj => absurd hj (Nat.not_lt_zero j)⟩
    have invn := mergeArgsLoop_inv (mergeArgsH_spec d) hwa hwr _ 0 _ (Nat.zero_add _) inv0
    rw [mergeArgsH_succ]
    obtain ⟨cur, hc, hlen, hdone⟩ := invn.cell
    have hcell : ∀ hf : Heap, hf.argCells[h.argCells.length]? = some cur →
        hf.argCell (some h.argCells.length) = cur := fun hf e => by simp only [Heap.argCell, e]; rfl
    refine ⟨invn.ext, ?_, ?_, rfl, rfl⟩
    · rw [wfArgs_succ_some, hcell _ hc]
      simp only [Bool.and_eq_true, Bool.or_eq_true, decide_eq_true_eq, List.all_eq_true]
      refine ⟨⟨Or.inr (Nat.le_refl _), ?_⟩, fun x hx => ?_⟩
      · rcases Nat.lt_or_ge h.argCells.length
          (mergeArgsLoop (mergeArgsH d) a.values r.values h.argCells.length
            (h.argCell a.values).length 0
            (h.allocArgs (List.replicate (h.argCell a.values).length HArg.zero)).1).argCells.length
          with h' | h'
        · exact h'
        · rw [List.getElem?_eq_none h'] at hc; cases hc
      · obtain ⟨j, hjl, hj⟩ := List.getElem_of_mem hx
        obtain ⟨v, hv, hwv, _⟩ := hdone j (by omega)
        rw [List.getElem?_eq_getElem hjl, hj] at hv
        cases hv
        refine wfArg_mono _ (fun y hy _ => ?_) d x hwv
        simp only [avoid, Bool.or_eq_true, Bool.and_eq_true, decide_eq_true_eq] at hy ⊢
        rcases hy with hy | hy
        · exact Or.inl hy.1
        · exact Or.inr (Nat.le_of_lt hy)
    · rw [absArgsL_succ _ _ (some _), hcell _ hc]
      apply List.ext_getElem?
      intro j
      rw [mergeL_getElem?, List.getElem?_map]
      by_cases hj : j < (h.argCell a.values).length
      · obtain ⟨v, hv, _, hav⟩ := hdone j hj
        rw [hv, ← hav]; rfl
      · have h1 : cur[j]? = none := List.getElem?_eq_none (by omega)
        have h2 : (absArgsL (d + 1) h a.values)[j]? = none := by
          rw [absArgsL_succ]
          exact List.getElem?_eq_none (by rw [List.length_map]; omega)
        simp only [mergeAt, h1, h2, Option.map_none]

/-! ### Call.merge -/

/-- the address predicate of the snapshot-level well-formedness: no restriction -/
abbrev anyAddr : Addr → Bool := fun _ => true

theorem absCall_agree {h h' : Heap} (ag : h.AgreeOn anyAddr h') (d f : Nat) (c : HCall)
    (hw : wfArgs anyAddr d h c.args.values = true) : absCall f h' c = absCall f h c := by
  simp only [absCall, absArgs, (wfArgs_agree ag d _ hw).2 f]

theorem mergeCallH_spec (d : Nat) (h : Heap) (c r : HCall)
    (hwc : wfArgs anyAddr d h c.args.values = true) (hwr : wfArgs anyAddr d h r.args.values = true) :
    h.Ext (mergeCallH d h c r).1 ∧
    wfArgs anyAddr d (mergeCallH d h c r).1 (mergeCallH d h c r).2.args.values = true ∧
    absCall d (mergeCallH d h c r).1 (mergeCallH d h c r).2 =
      Call.merge (absCall d h c) (absCall d h r) := by
  obtain ⟨e, hw, ha, hel, hpr⟩ := mergeArgsH_spec d anyAddr h c.args r.args hwc hwr
  refine ⟨e, wfArgs_mono _ (fun _ _ _ => rfl) d _ hw, ?_⟩
  simp only [mergeCallH, absCall, absArgs, Call.merge, Args.merge, ha, hel, hpr]

/-! ### Stack.merge -/

def callsMergeAt (C R : List Call) (j : Nat) : Option Call :=
  match C[j]? with
  | none => none
  | some x =>
    match R[j]? with
    | none => some x
    | some y => some (Call.merge x y)

theorem callsMerge_getElem? : ∀ (C R : List Call) (j : Nat), (callsMerge C R)[j]? = callsMergeAt C R j
  | [], R, j => by simp [callsMerge, callsMergeAt]
  | a :: C, [], j => by
    simp only [callsMerge, callsMergeAt, List.getElem?_nil]
    cases (a :: C)[j]? <;> rfl
  | a :: C, b :: R, 0 => by simp [callsMerge, callsMergeAt]
  | a :: C, b :: R, j + 1 => by
    simp only [callsMerge, callsMergeAt, List.getElem?_cons_succ]
    exact callsMerge_getElem? C R j

structure StackInv (d : Nat) (C R : List Call) (o n : Nat) (h₀ : Heap) (i : Nat) (h : Heap) :
    Prop where
  ext : h₀.Ext h
  cell : ∃ cur, h.callCells[o]? = some cur ∧ cur.length = n ∧
    ∀ j, j < i → ∃ v, cur[j]? = some v ∧ wfArgs anyAddr d h v.args.values = true ∧
      some (absCall d h v) = callsMergeAt C R j

theorem StackInv.commit {d : Nat} {C R : List Call} {o n : Nat} {h₀ h : Heap}
    {i : Nat} (inv : StackInv d C R o n h₀ i h) (ho : h₀.callCells.length ≤ o)
    (hi : i < n) {h₁ : Heap} (e : h.Ext h₁) {v : HCall}
    (hw : wfArgs anyAddr d h₁ v.args.values = true)
    (ha : some (absCall d h₁ v) = callsMergeAt C R i) :
    StackInv d C R o n h₀ (i + 1) (h₁.writeCall o i v) := by
  obtain ⟨cur, hc, hlen, hdone⟩ := inv.cell
  have hol : o < h.callCells.length := by
    rcases Nat.lt_or_ge o h.callCells.length with h' | h'
    · exact h'
    · rw [List.getElem?_eq_none h'] at hc; cases hc
  have hc₁ : h₁.callCells[o]? = some cur := by rw [e.2.2 o hol, hc]
  have ag₁ : h₁.AgreeOn anyAddr (h₁.writeCall o i v) := Heap.agreeOn_writeCall _ h₁ o i v
  have ag : h.AgreeOn anyAddr (h₁.writeCall o i v) := (e.agreeOn _).trans ag₁
  refine ⟨(inv.ext.trans e).writeCall_fresh ho i v, cur.set i v, ?_, ?_, ?_⟩
  · simp only [Heap.writeCall]
    rw [List.getElem?_modify_eq, hc₁]
    rfl
  · rw [List.length_set, hlen]
  · intro j hj
    by_cases hji : j = i
    · subst hji
      refine ⟨v, ?_, ?_, ?_⟩
      · rw [List.getElem?_set_self (by omega)]
      · exact (wfArgs_agree ag₁ d _ hw).1
      · rw [absCall_agree ag₁ d d v hw]; exact ha
    · obtain ⟨v', hv', hw', ha'⟩ := hdone j (by omega)
      refine ⟨v', ?_, ?_, ?_⟩
      · rw [List.getElem?_set_ne (by omega), hv']
      · exact (wfArgs_agree ag d _ hw').1
      · rw [absCall_agree ag d d v' hw']; exact ha'

/-- `wfStack` unfolded: the slice is in range and every call's args are well-formed -/
theorem wfStack_iff (d : Nat) (h : Heap) (s : HStack) :
    wfStack d h s = true ↔
      (∀ a, s.calls = some a → a < h.callCells.length) ∧
      ∀ c ∈ h.callCell s.calls, wfArgs anyAddr d h c.args.values = true := by
  unfold wfStack
  cases hs : s.calls with
  | none => simp [Heap.callCell]
  | some a =>
    simp only [Bool.and_eq_true, decide_eq_true_eq, List.all_eq_true, Option.some.injEq]
    constructor
    · rintro ⟨h1, h2⟩; exact ⟨fun _ e => e ▸ h1, h2⟩
    · rintro ⟨h1, h2⟩; exact ⟨h1 a rfl, h2⟩

theorem callCell_ext_of_wf {d : Nat} {h₀ h : Heap} (e : h₀.Ext h) (s : HStack)
    (hw : wfStack d h₀ s = true) : h.callCell s.calls = h₀.callCell s.calls := by
  have := ((wfStack_iff d h₀ s).1 hw).1
  cases hs : s.calls with
  | none => rfl
  | some a => simp only [Heap.callCell, e.2.2 a (this a hs)]

theorem mergeStackStep_inv {d : Nat} {h₀ : Heap} {s r : HStack}
    (hws : wfStack d h₀ s = true) (hwr : wfStack d h₀ r = true) {i : Nat} {h : Heap}
    (hi : i < (h₀.callCell s.calls).length)
    (inv : StackInv d ((h₀.callCell s.calls).map (absCall d h₀))
      ((h₀.callCell r.calls).map (absCall d h₀)) h₀.callCells.length
      (h₀.callCell s.calls).length h₀ i h) :
    StackInv d ((h₀.callCell s.calls).map (absCall d h₀))
      ((h₀.callCell r.calls).map (absCall d h₀)) h₀.callCells.length
      (h₀.callCell s.calls).length h₀ (i + 1)
      (mergeStackStep d s.calls r.calls h₀.callCells.length i h) := by
  have ag := inv.ext.agreeOn anyAddr
  have hcs : h.callCell s.calls = h₀.callCell s.calls := callCell_ext_of_wf inv.ext s hws
  have hcr : h.callCell r.calls = h₀.callCell r.calls := callCell_ext_of_wf inv.ext r hwr
  have hl : (h₀.callCell s.calls)[i]? = some ((h₀.callCell s.calls)[i]) :=
    List.getElem?_eq_getElem hi
  generalize (h₀.callCell s.calls)[i] = c at hl
  have hwc := ((wfStack_iff d h₀ s).1 hws).2 c (List.mem_of_getElem? hl)
  have tc := wfArgs_agree ag d _ hwc
  have hC : ((h₀.callCell s.calls).map (absCall d h₀))[i]? = some (absCall d h₀ c) := by
    rw [List.getElem?_map, hl]; rfl
  have hR : ((h₀.callCell r.calls).map (absCall d h₀))[i]? =
      ((h₀.callCell r.calls)[i]?).map (absCall d h₀) := List.getElem?_map
  unfold mergeStackStep
  rw [hcs, hcr, hl]
  cases hr : (h₀.callCell r.calls)[i]? with
  | none =>
    rw [hr] at hR
    refine inv.commit (Nat.le_refl _) hi (Heap.Ext.refl h) tc.1 ?_
    rw [absCall_agree ag d d c hwc]
    simp only [callsMergeAt, hC, hR, Option.map_none]
  | some rc =>
    rw [hr] at hR
    have hwrc := ((wfStack_iff d h₀ r).1 hwr).2 rc (List.mem_of_getElem? hr)
    have trc := wfArgs_agree ag d _ hwrc
    obtain ⟨e₁, hw₁, ha₁⟩ := mergeCallH_spec d h c rc tc.1 trc.1
    refine inv.commit (Nat.le_refl _) hi e₁ hw₁ ?_
    rw [ha₁, absCall_agree ag d d c hwc, absCall_agree ag d d rc hwrc]
    simp only [callsMergeAt, hC, hR, Option.map_some]

theorem mergeStackLoop_inv {d : Nat} {h₀ : Heap} {s r : HStack}
    (hws : wfStack d h₀ s = true) (hwr : wfStack d h₀ r = true) :
    ∀ (k i : Nat) (h : Heap), i + k = (h₀.callCell s.calls).length →
      StackInv d ((h₀.callCell s.calls).map (absCall d h₀))
        ((h₀.callCell r.calls).map (absCall d h₀)) h₀.callCells.length
        (h₀.callCell s.calls).length h₀ i h →
      StackInv d ((h₀.callCell s.calls).map (absCall d h₀))
        ((h₀.callCell r.calls).map (absCall d h₀)) h₀.callCells.length
        (h₀.callCell s.calls).length h₀ (h₀.callCell s.calls).length
        (mergeStackLoop d s.calls r.calls h₀.callCells.length k i h)
  | 0, i, h, hik, inv => by
    rw [mergeStackLoop]
    have : i = (h₀.callCell s.calls).length := by omega
    rw [this] at inv
    exact inv
  | k + 1, i, h, hik, inv => by
    rw [mergeStackLoop]
    exact mergeStackLoop_inv hws hwr k (i + 1) _ (by omega)
      (mergeStackStep_inv hws hwr (by omega) inv)

/-- `Stack.merge` over the heap refines `Stack.merge` -/
theorem mergeStackH_spec (d : Nat) (h : Heap) (s r : HStack)
    (hws : wfStack d h s = true) (hwr : wfStack d h r = true) :
    h.Ext (mergeStackH d h s r).1 ∧
    wfStack d (mergeStackH d h s r).1 (mergeStackH d h s r).2 = true ∧
    absStack d (mergeStackH d h s r).1 (mergeStackH d h s r).2 =
      Stack.merge (absStack d h s) (absStack d h r) := by
  have inv0 : StackInv d ((h.callCell s.calls).map (absCall d h))
      ((h.callCell r.calls).map (absCall d h)) h.callCells.length
      (h.callCell s.calls).length h 0
      (h.allocCalls (List.replicate (h.callCell s.calls).length HCall.zero)).1 :=
    ⟨h.ext_allocCalls _, _, List.getElem?_concat_length, List.length_replicate,
      fun j hj => absurd hj (Nat.not_lt_zero j)⟩
  have invn := mergeStackLoop_inv hws hwr _ 0 _ (Nat.zero_add _) inv0
  have hdef : mergeStackH d h s r =
      (mergeStackLoop d s.calls r.calls h.callCells.length (h.callCell s.calls).length 0
         (h.allocCalls (List.replicate (h.callCell s.calls).length HCall.zero)).1,
       { calls := some h.callCells.length, elided := s.elided }) := rfl
  rw [hdef]
  obtain ⟨cur, hc, hlen, hdone⟩ := invn.cell
  have hcell : ∀ hf : Heap, hf.callCells[h.callCells.length]? = some cur →
      hf.callCell (some h.callCells.length) = cur := fun hf e => by
    simp only [Heap.callCell, e]; rfl
  refine ⟨invn.ext, ?_, ?_⟩
  · rw [wfStack_iff]
    refine ⟨fun a ha => ?_, fun c hc' => ?_⟩
    · cases ha
      rcases Nat.lt_or_ge h.callCells.length
        (mergeStackLoop d s.calls r.calls h.callCells.length (h.callCell s.calls).length 0
          (h.allocCalls (List.replicate (h.callCell s.calls).length HCall.zero)).1).callCells.length
        with h' | h'
      · exact h'
      · rw [List.getElem?_eq_none h'] at hc; cases hc
    · rw [hcell _ hc] at hc'
      obtain ⟨j, hjl, hj⟩ := List.getElem_of_mem hc'
      obtain ⟨v, hv, hwv, _⟩ := hdone j (by omega)
      rw [List.getElem?_eq_getElem hjl, hj] at hv
      cases hv
      exact hwv
  · simp only [absStack, Stack.merge]
    rw [hcell _ hc]
    congr 1
    apply List.ext_getElem?
    intro j
    rw [callsMerge_getElem?, List.getElem?_map]
    by_cases hj : j < (h.callCell s.calls).length
    · obtain ⟨v, hv, _, hav⟩ := hdone j hj
      rw [hv, ← hav]; rfl
    · have h1 : cur[j]? = none := List.getElem?_eq_none (by omega)
      have h2 : ((h.callCell s.calls).map (absCall d h))[j]? = none :=
        List.getElem?_eq_none (by rw [List.length_map]; omega)
      simp only [callsMergeAt, h1, h2, Option.map_none]

/-! ### Signature.merge -/

theorem mergeSigH_spec (d : Nat) (h : Heap) (s r : HSig)
    (hws : wfSig d h s = true) (hwr : wfSig d h r = true) :
    h.Ext (mergeSigH d h s r).1 ∧
    wfSig d (mergeSigH d h s r).1 (mergeSigH d h s r).2 = true ∧
    absSig d (mergeSigH d h s r).1 (mergeSigH d h s r).2 =
      Signature.merge (absSig d h s) (absSig d h r) := by
  unfold wfSig at hws hwr
  simp only [Bool.and_eq_true] at hws hwr
  obtain ⟨e, hw, ha⟩ := mergeStackH_spec d h s.stack r.stack hws.2 hwr.2
  have cb := wfStack_ext e d s.createdBy hws.1
  refine ⟨e, ?_, ?_⟩
  · unfold wfSig
    simp only [Bool.and_eq_true]
    exact ⟨cb.1, hw⟩
  · simp only [mergeSigH, absSig, Signature.merge, cb.2 d, ha]

/-! ### Aggregate -/

/-- all bucket keys only point into the heap -/
def KeysWF (d : Nat) (h : Heap) (bs : List HBkt) : Prop := ∀ b ∈ bs, wfSig d h b.key = true

theorem KeysWF.ext {d : Nat} {h h' : Heap} (e : h.Ext h') {bs : List HBkt} (hk : KeysWF d h bs) :
    KeysWF d h' bs ∧ bs.map (absBkt d h') = bs.map (absBkt d h) :=
  ⟨fun b hb => (wfSig_ext e d _ (hk b hb)).1,
   List.map_congr_left fun b hb => by simp only [absBkt, (wfSig_ext e d _ (hk b hb)).2 d]⟩

theorem insertGH_spec (d : Nat) (l : Lvl) (h : Heap) (i : Nat) (g : HGoroutine)
    (hwg : wfSig d h g.sig = true) :
    ∀ bs : List HBkt, KeysWF d h bs →
      h.Ext (insertGH d l h bs i g).1 ∧
      KeysWF d (insertGH d l h bs i g).1 (insertGH d l h bs i g).2 ∧
      (insertGH d l h bs i g).2.map (absBkt d (insertGH d l h bs i g).1) =
        insertG l (bs.map (absBkt d h)) i (absGoroutine d h g)
  | [], _ => by
    refine ⟨Heap.Ext.refl h, ?_, rfl⟩
    intro b hb
    simp only [insertGH, List.mem_cons, List.not_mem_nil, or_false] at hb
    rw [hb]; exact hwg
  | b :: rest, hk => by
    have hkb : wfSig d h b.key = true := hk b List.mem_cons_self
    have hkr : KeysWF d h rest := fun c hc => hk c (List.mem_cons_of_mem _ hc)
    rw [insertGH]
    simp only [List.map_cons, insertG]
    have hsim : similarH d l h b.key g.sig =
        Signature.similar l (absBkt d h b).key (absGoroutine d h g).sig := rfl
    have heq : equalH d h b.key g.sig =
        Signature.equal (absBkt d h b).key (absGoroutine d h g).sig := rfl
    rw [← hsim, ← heq]
    by_cases h1 : similarH d l h b.key g.sig = true
    · rw [if_pos h1, if_pos h1]
      by_cases h2 : equalH d h b.key g.sig = true
      · rw [if_pos h2, if_pos h2]
        refine ⟨Heap.Ext.refl h, ?_, rfl⟩
        intro c hc
        simp only [List.mem_cons] at hc
        rcases hc with rfl | hc
        · exact hkb
        · exact hkr c hc
      · rw [if_neg h2, if_neg h2]
        obtain ⟨e, hw, ha⟩ := mergeSigH_spec d h b.key g.sig hkb hwg
        have tr := hkr.ext e
        refine ⟨e, ?_, ?_⟩
        · intro c hc
          simp only [List.mem_cons] at hc
          rcases hc with rfl | hc
          · exact hw
          · exact tr.1 c hc
        · simp only [List.map_cons, tr.2]
          congr 1
          simp only [absBkt, ha]
          rfl
    · rw [if_neg h1, if_neg h1]
      obtain ⟨e, hw, ha⟩ := insertGH_spec d l h i g hwg rest hkr
      refine ⟨e, ?_, ?_⟩
      · intro c hc
        simp only [List.mem_cons] at hc
        rcases hc with rfl | hc
        · exact (wfSig_ext e d _ hkb).1
        · exact hw c hc
      · simp only [List.map_cons, ha]
        congr 1
        simp only [absBkt, (wfSig_ext e d _ hkb).2 d]

theorem bucketLoopH_spec (d : Nat) (l : Lvl) :
    ∀ (gs : List HGoroutine) (i : Nat) (h : Heap) (bs : List HBkt),
      HeapWF d h gs → KeysWF d h bs →
      h.Ext (bucketLoopH idHOracle d l i h bs gs).1 ∧
      KeysWF d (bucketLoopH idHOracle d l i h bs gs).1 (bucketLoopH idHOracle d l i h bs gs).2 ∧
      (bucketLoopH idHOracle d l i h bs gs).2.map
          (absBkt d (bucketLoopH idHOracle d l i h bs gs).1) =
        bucketLoop idOracle l i (bs.map (absBkt d h)) (absGoroutines d h gs)
  | [], _, h, _, _, hk => ⟨Heap.Ext.refl h, hk, rfl⟩
  | g :: gs, i, h, bs, hwf, hk => by
    have hwg : wfSig d h g.sig = true := hwf g List.mem_cons_self
    have hwgs : HeapWF d h gs := fun x hx => hwf x (List.mem_cons_of_mem _ hx)
    obtain ⟨e, hw, ha⟩ := insertGH_spec d l h i g hwg bs hk
    obtain ⟨e', hw', ha'⟩ := bucketLoopH_spec d l gs (i + 1) _ _ (hwgs.ext e) hw
    rw [bucketLoopH]
    refine ⟨e.trans e', hw', ?_⟩
    simp only [idHOracle] at ha' ⊢
    rw [ha', ha, absGoroutines_ext e hwgs d]
    simp only [absGoroutines, List.map_cons, bucketLoop, idOracle]

theorem absBucket_toBucket (d : Nat) (h : Heap) (b : HBkt) :
    absBucket d h b.toBucket = (absBkt d h b).toBucket := rfl

/-- `Aggregate` over the heap computes the buckets of the functional model -/
theorem aggregateH_spec (d : Nat) (l : Lvl) (h : Heap) (gs : List HGoroutine)
    (hwf : HeapWF d h gs) :
    (aggregateH d l h gs).2.map (absBucket d (aggregateH d l h gs).1) =
      aggregateWith idOracle l (absGoroutines d h gs) := by
  obtain ⟨_, _, ha⟩ := bucketLoopH_spec d l gs 0 h [] hwf (fun _ hb => by cases hb)
  simp only [aggregateH, aggregateHWith, aggregateWith, idHOracle, idOracle, sortBucketsH,
    sortBuckets, List.map_map]
  simp only [List.map_nil] at ha
  rw [← ha]
  rw [← List.map_mergeSort (f := absBkt d _)
    (r := fun a b => !bucketLess (absBkt d _ b) (absBkt d _ a))
    (s := fun a b => !bucketLess b a) (fun _ _ _ _ => rfl)]
  rw [List.map_map]
  rfl

/-! ### fuel: any amount above the nesting depth reads the same -/

theorem wfArgs_succ {P : Addr → Bool} {h : Heap} :
    ∀ (d : Nat) (s : Slice), wfArgs P d h s = true → wfArgs P (d + 1) h s = true
  | _, none, _ => wfArgs_none _ _ _
  | 0, some a, hw => by simp [wfArgs] at hw
  | d + 1, some a, hw => by
    rw [wfArgs_succ_some] at hw ⊢
    simp only [Bool.and_eq_true, List.all_eq_true] at hw ⊢
    refine ⟨hw.1, fun x hx => ?_⟩
    cases x with
    | scalar => rfl
    | agg fs e => exact wfArgs_succ d fs (hw.2 _ hx)

theorem absArgsL_fuel {P : Addr → Bool} {h : Heap} :
    ∀ (d : Nat) (s : Slice), wfArgs P d h s = true → ∀ f, d ≤ f → absArgsL f h s = absArgsL d h s
  | _, none, _, _, _ => by rw [absArgsL_none, absArgsL_none]
  | 0, some a, hw, _, _ => by simp [wfArgs] at hw
  | d + 1, some a, hw, f, hf => by
    obtain ⟨f', rfl⟩ : ∃ f', f = f' + 1 := ⟨f - 1, by omega⟩
    rw [absArgsL_succ, absArgsL_succ]
    refine List.map_congr_left fun x hx => ?_
    cases x with
    | scalar => rfl
    | agg fs e =>
      have := absArgsL_fuel d fs (wfArg_of_mem hw hx) f' (by omega)
      simp only [absArg, this]

theorem wfStack_succ {d : Nat} {h : Heap} {s : HStack} (hw : wfStack d h s = true) :
    wfStack (d + 1) h s = true := by
  rw [wfStack_iff] at hw ⊢
  exact ⟨hw.1, fun c hc => wfArgs_succ d _ (hw.2 c hc)⟩

theorem absStack_fuel {d : Nat} {h : Heap} {s : HStack} (hw : wfStack d h s = true) (f : Nat)
    (hf : d ≤ f) : absStack f h s = absStack d h s := by
  rw [wfStack_iff] at hw
  simp only [absStack]
  congr 1
  refine List.map_congr_left fun c hc => ?_
  simp only [absCall, absArgs, absArgsL_fuel d _ (hw.2 c hc) f hf]

theorem HeapWF.succ {d : Nat} {h : Heap} {gs : List HGoroutine} (hw : HeapWF d h gs) :
    HeapWF (d + 1) h gs := fun g hg => by
  have := hw g hg
  unfold wfSig at this ⊢
  simp only [Bool.and_eq_true] at this ⊢
  exact ⟨wfStack_succ this.1, wfStack_succ this.2⟩

theorem absGoroutines_fuel {d : Nat} {h : Heap} {gs : List HGoroutine} (hw : HeapWF d h gs)
    (f : Nat) (hf : d ≤ f) : absGoroutines f h gs = absGoroutines d h gs := by
  unfold absGoroutines
  refine List.map_congr_left fun g hg => ?_
  have := hw g hg
  unfold wfSig at this
  simp only [Bool.and_eq_true] at this
  simp only [absGoroutine, absSig, absStack_fuel this.1 f hf, absStack_fuel this.2 f hf]

/-! ### sequences of aggregations -/

/-- the heap after aggregating the same goroutines repeatedly, at the given levels
and with the given map iteration orders -/
def afterAggregations (fuel : Nat) (gs : List HGoroutine) : List (HOracle × Lvl) → Heap → Heap
  | [], h => h
  | (π, l) :: ls, h => afterAggregations fuel gs ls (aggregateHWith π fuel l h gs).1

theorem afterAggregations_ext (fuel : Nat) (gs : List HGoroutine) :
    ∀ (ls : List (HOracle × Lvl)) (h : Heap), h.Ext (afterAggregations fuel gs ls h)
  | [], h => Heap.Ext.refl h
  | (π, l) :: ls, h =>
    (aggregateHWith_ext π fuel l h gs).trans (afterAggregations_ext fuel gs ls _)

end PP.Alias
