import PP.Model.Web
/-
Helper lemmas for C20 (webstack handler, Atoi, buffer growth).
-/
namespace PP
open Bytes

/-! ### parameter parsers vs. parameter classes -/

theorem parseMaxmem_isSome (s : Bytes) : (parseMaxmem s).isSome = maxmemOK s := by
  unfold parseMaxmem maxmemOK
  by_cases h : s = [] <;> simp [h]

theorem parseAugment_isSome (s : Bytes) : (parseAugment s).isSome = augmentOK s := by
  unfold parseAugment augmentOK
  by_cases h : s = []
  · simp [h]
  · cases ha : atoi s with
    | none => simp [h]
    | some v =>
      by_cases h0 : v = 0
      · subst h0; simp [h]
      · by_cases h1 : v = 1
        · subst h1; simp [h]
        · have : (v < 0 || v > 1) = true := by
            simp only [Bool.or_eq_true, decide_eq_true_eq]; omega
          simp [h, this, h0, h1]

theorem parseSimilarity_isSome (s : Bytes) : (parseSimilarity s).isSome = similarityOK s := by
  unfold parseSimilarity similarityOK
  by_cases h1 : s = b!"exactflags"
  · simp [h1]
  by_cases h2 : s = b!"exactlines"
  · simp [h2]
  by_cases h3 : s = b!"anypointer"
  · simp [h3]
  by_cases h4 : s = []
  · simp [h4]
  by_cases h5 : s = b!"anyvalue"
  · simp [h5]
  simp [h1, h2, h3, h4, h5]

/-- the handler's decision as a cascade over the parameter classes -/
theorem handlerStatus_cascade (m mm au si : Bytes) (ok : Bool) :
    handlerStatus m mm au si ok =
      if m ≠ methodGET then 405
      else if maxmemOK mm = false then 400
      else if augmentOK au = false then 400
      else if ok = false then 500
      else if similarityOK si = false then 400
      else 200 := by
  have h1 := parseMaxmem_isSome mm
  have h2 := parseAugment_isSome au
  have h3 := parseSimilarity_isSome si
  unfold handlerStatus handlerPlan
  by_cases hm : m = methodGET
  · cases hmm : parseMaxmem mm with
    | none => rw [hmm] at h1; simp [hm, ← h1]
    | some v =>
      rw [hmm] at h1
      cases hau : parseAugment au with
      | none => rw [hau] at h2; simp [hm, ← h1, ← h2]
      | some a =>
        rw [hau] at h2
        cases ok with
        | false => simp [hm, ← h1, ← h2]
        | true =>
          cases hsi : parseSimilarity si with
          | none => rw [hsi] at h3; simp [hm, ← h1, ← h2, ← h3]
          | some l => rw [hsi] at h3; simp [hm, ← h1, ← h2, ← h3]
  · simp [hm]

end PP

namespace PP

/-! ### buffer growth -/

theorem growLoop_ne_nil (mm : Nat) (need : Nat → Nat) (i len : Nat) (h : 0 < len) :
    growLoop mm need i len h ≠ [] := by
  unfold growLoop
  split
  · simp
  · split <;> simp

theorem growLoop_head (mm : Nat) (need : Nat → Nat) (i len : Nat) (h : 0 < len) :
    (growLoop mm need i len h).head? = some len := by
  unfold growLoop
  split
  · simp
  · split <;> simp

theorem growLoop_ge (mm : Nat) (need : Nat → Nat) (i len : Nat) (h : 0 < len) :
    ∀ x ∈ growLoop mm need i len h, len ≤ x := by
  fun_induction growLoop mm need i len h with
  | case1 i len h hfit => simp
  | case2 i len h hfit hmm => simp
  | case3 i len h hfit hmm l ih =>
    intro x hx
    simp only [List.mem_cons] at hx
    rcases hx with rfl | hx
    · exact Nat.le_refl _
    · have := ih x hx
      have hl : len ≤ l := by show len ≤ (if mm < len * 2 then mm else len * 2); split <;> omega
      omega

theorem growLoop_le (mm : Nat) (need : Nat → Nat) (i len : Nat) (h : 0 < len) (hle : len ≤ mm) :
    ∀ x ∈ growLoop mm need i len h, x ≤ mm := by
  fun_induction growLoop mm need i len h with
  | case1 i len h hfit => simpa using hle
  | case2 i len h hfit hmm => simpa using hle
  | case3 i len h hfit hmm l ih =>
    intro x hx
    simp only [List.mem_cons] at hx
    rcases hx with rfl | hx
    · exact hle
    · have hl : l ≤ mm := by show (if mm < len * 2 then mm else len * 2) ≤ mm; split <;> omega
      exact ih hl x hx

theorem growLoop_increasing (mm : Nat) (need : Nat → Nat) (i len : Nat) (h : 0 < len) :
    (growLoop mm need i len h).Pairwise (· < ·) := by
  fun_induction growLoop mm need i len h with
  | case1 i len h hfit => simp
  | case2 i len h hfit hmm => simp
  | case3 i len h hfit hmm l ih =>
    rw [List.pairwise_cons]
    refine ⟨?_, ih⟩
    intro x hx
    have := growLoop_ge mm need (i + 1) l _ x hx
    have hl : len < l := by show len < (if mm < len * 2 then mm else len * 2); split <;> omega
    omega

theorem growLoop_length (mm : Nat) (need : Nat → Nat) (i len : Nat) (h : 0 < len) :
    ∀ k, mm ≤ len * 2 ^ k → (growLoop mm need i len h).length ≤ k + 1 := by
  fun_induction growLoop mm need i len h with
  | case1 i len h hfit => intro k _; simp
  | case2 i len h hfit hmm => intro k _; simp
  | case3 i len h hfit hmm l ih =>
    intro k hk
    cases k with
    | zero => simp at hk; omega
    | succ k =>
      have hl : mm ≤ l * 2 ^ k := by
        show mm ≤ (if mm < len * 2 then mm else len * 2) * 2 ^ k
        have hp : 0 < 2 ^ k := Nat.pow_pos (by decide)
        split
        · exact Nat.le_mul_of_pos_right _ hp
        · rw [Nat.pow_succ] at hk
          calc mm ≤ len * (2 ^ k * 2) := hk
            _ = len * 2 * 2 ^ k := by rw [Nat.mul_comm (2 ^ k) 2, Nat.mul_assoc]
      have := ih k hl
      simp only [List.length_cons]
      omega

/-- how the loop ends: the last buffer either holds the text of that moment
strictly, or has reached the limit. -/
theorem growLoop_last (mm : Nat) (need : Nat → Nat) (i len : Nat) (h : 0 < len) :
    ∃ lst, (growLoop mm need i len h).getLast? = some lst ∧
      (need (i + (growLoop mm need i len h).length - 1) < lst ∨ mm ≤ lst) := by
  fun_induction growLoop mm need i len h with
  | case1 i len h hfit => exact ⟨len, by simp, Or.inl (by simpa using hfit)⟩
  | case2 i len h hfit hmm => exact ⟨len, by simp, Or.inr hmm⟩
  | case3 i len h hfit hmm l ih =>
    obtain ⟨lst, hl, hc⟩ := ih
    refine ⟨lst, ?_, ?_⟩
    · have hne := growLoop_ne_nil mm need (i + 1) l (by
        show 0 < (if mm < len * 2 then mm else len * 2); split <;> omega)
      rw [List.getLast?_cons_of_ne_nil hne]
      exact hl
    · have e : i + (len :: growLoop mm need (i + 1) l (by
          show 0 < (if mm < len * 2 then mm else len * 2); split <;> omega)).length - 1
          = i + 1 + (growLoop mm need (i + 1) l (by
          show 0 < (if mm < len * 2 then mm else len * 2); split <;> omega)).length - 1 := by
        simp only [List.length_cons]; omega
      rw [e]; exact hc

theorem growLoop_sum (mm : Nat) (need : Nat → Nat) (i len : Nat) (h : 0 < len) (hle : len ≤ mm) :
    (growLoop mm need i len h).sum + len ≤ 3 * mm := by
  fun_induction growLoop mm need i len h with
  | case1 i len h hfit => simp; omega
  | case2 i len h hfit hmm => simp; omega
  | case3 i len h hfit hmm l ih =>
    have hl : l ≤ mm := by show (if mm < len * 2 then mm else len * 2) ≤ mm; split <;> omega
    have := ih hl
    simp only [List.sum_cons]
    by_cases h2 : mm < len * 2
    · -- the next buffer is the limit itself: the loop stops there
      have hlm : l = mm := by show (if mm < len * 2 then mm else len * 2) = mm; simp [h2]
      have hs : (growLoop mm need (i + 1) l (by
          show 0 < (if mm < len * 2 then mm else len * 2); split <;> omega)).sum ≤ mm := by
        have hlen := growLoop_length mm need (i + 1) l (by
          show 0 < (if mm < len * 2 then mm else len * 2); split <;> omega) 0 (by rw [hlm]; simp)
        have hhd := growLoop_head mm need (i + 1) l (by
          show 0 < (if mm < len * 2 then mm else len * 2); split <;> omega)
        generalize growLoop mm need (i + 1) l _ = L at hlen hhd
        match L, hlen, hhd with
        | [x], _, hhd => simp at hhd; simp [hhd, hlm]
      omega
    · have hlm : l = len * 2 := by show (if mm < len * 2 then mm else len * 2) = len * 2; simp [h2]
      omega

end PP
