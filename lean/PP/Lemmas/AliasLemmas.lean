import PP.Model.Alias
/-
Frame lemmas for the explicit-heap model: every write of the `merge` family and
of `Aggregate` targets a cell allocated during the same call.
-/
namespace PP.Alias

/-! ### list extension -/

/-- `l'` extends `l`: every old index keeps its content -/
def LExt {α : Type} (l l' : List α) : Prop :=
  l.length ≤ l'.length ∧ ∀ a, a < l.length → l'[a]? = l[a]?

theorem LExt.refl {α : Type} (l : List α) : LExt l l := ⟨Nat.le_refl _, fun _ _ => rfl⟩

theorem LExt.trans {α : Type} {l₁ l₂ l₃ : List α} (h₁ : LExt l₁ l₂) (h₂ : LExt l₂ l₃) :
    LExt l₁ l₃ :=
  ⟨Nat.le_trans h₁.1 h₂.1, fun a ha => by
    rw [h₂.2 a (Nat.lt_of_lt_of_le ha h₁.1), h₁.2 a ha]⟩

theorem LExt.append {α : Type} (l x : List α) : LExt l (l ++ x) :=
  ⟨by simp, fun a ha => List.getElem?_append_left ha⟩

theorem LExt.modify_fresh {α : Type} {l₀ l : List α} (h : LExt l₀ l) {o : Nat}
    (ho : l₀.length ≤ o) (f : α → α) : LExt l₀ (l.modify o f) :=
  ⟨by rw [List.length_modify]; exact h.1, fun a ha => by
    rw [List.getElem?_modify_ne _ _ (by omega), h.2 a ha]⟩

/-! ### heap extension -/

/-- `h'` extends `h`: every cell of `h` exists in `h'` with the same contents -/
def Heap.Ext (h h' : Heap) : Prop :=
  LExt h.argCells h'.argCells ∧ LExt h.callCells h'.callCells

theorem Heap.Ext.refl (h : Heap) : h.Ext h := ⟨LExt.refl _, LExt.refl _⟩

theorem Heap.Ext.trans {h₁ h₂ h₃ : Heap} (a : h₁.Ext h₂) (b : h₂.Ext h₃) : h₁.Ext h₃ :=
  ⟨a.1.trans b.1, a.2.trans b.2⟩

theorem Heap.ext_allocArgs (h : Heap) (init : List HArg) : h.Ext (h.allocArgs init).1 :=
  ⟨LExt.append _ _, LExt.refl _⟩

theorem Heap.ext_allocCalls (h : Heap) (init : List HCall) : h.Ext (h.allocCalls init).1 :=
  ⟨LExt.refl _, LExt.append _ _⟩

/-- a write into a cell that did not exist in `h₀` keeps `h₀`'s cells -/
theorem Heap.Ext.writeArg_fresh {h₀ h : Heap} (e : h₀.Ext h) {o : Addr}
    (ho : h₀.argCells.length ≤ o) (i : Nat) (v : HArg) : h₀.Ext (h.writeArg o i v) :=
  ⟨e.1.modify_fresh ho _, e.2⟩

theorem Heap.Ext.writeCall_fresh {h₀ h : Heap} (e : h₀.Ext h) {o : Addr}
    (ho : h₀.callCells.length ≤ o) (i : Nat) (v : HCall) : h₀.Ext (h.writeCall o i v) :=
  ⟨e.1, e.2.modify_fresh ho _⟩

/-! ### Args.merge -/

theorem mergeArgsStep_ext {rec : Heap → HArgs → HArgs → Heap × HArgs}
    (hrec : ∀ (h : Heap) (a r : HArgs), h.Ext (rec h a r).1) (a r : Slice) {o : Addr} (i : Nat) {h₀ h : Heap}
    (e : h₀.Ext h) (ho : h₀.argCells.length ≤ o) : h₀.Ext (mergeArgsStep rec a r o i h) := by
  unfold mergeArgsStep
  split
  · exact e
  · split
    · exact e.writeArg_fresh ho _ _
    · split
      · exact (e.trans (hrec _ _ _)).writeArg_fresh ho _ _
      · split
        · exact e.writeArg_fresh ho _ _
        · exact e.writeArg_fresh ho _ _

theorem mergeArgsLoop_ext {rec : Heap → HArgs → HArgs → Heap × HArgs}
    (hrec : ∀ (h : Heap) (a r : HArgs), h.Ext (rec h a r).1) (a r : Slice) {o : Addr} {h₀ : Heap}
    (ho : h₀.argCells.length ≤ o) :
    ∀ (k i : Nat) (h : Heap), h₀.Ext h → h₀.Ext (mergeArgsLoop rec a r o k i h)
  | 0, _, _, e => e
  | k + 1, i, h, e => by
    rw [mergeArgsLoop]
    exact mergeArgsLoop_ext hrec a r ho k (i + 1) _ (mergeArgsStep_ext hrec a r i e ho)

/-- Args.merge only writes cells it allocated -/
theorem mergeArgsH_ext : ∀ (fuel : Nat) (h : Heap) (a r : HArgs), h.Ext (mergeArgsH fuel h a r).1
  | 0, h, _, _ => Heap.Ext.refl h
  | f + 1, h, a, r => by
    rw [mergeArgsH]
    exact mergeArgsLoop_ext (mergeArgsH_ext f) _ _ (Nat.le_refl _) _ _ _ (h.ext_allocArgs _)

/-! ### Call.merge, Stack.merge, Signature.merge -/

theorem mergeCallH_ext (fuel : Nat) (h : Heap) (c r : HCall) : h.Ext (mergeCallH fuel h c r).1 :=
  mergeArgsH_ext fuel h c.args r.args

theorem mergeStackStep_ext (fuel : Nat) (s r : Slice) {o : Addr} (i : Nat) {h₀ h : Heap}
    (e : h₀.Ext h) (ho : h₀.callCells.length ≤ o) : h₀.Ext (mergeStackStep fuel s r o i h) := by
  unfold mergeStackStep
  split
  · exact e
  · split
    · exact e.writeCall_fresh ho _ _
    · exact (e.trans (mergeCallH_ext _ _ _ _)).writeCall_fresh ho _ _

theorem mergeStackLoop_ext (fuel : Nat) (s r : Slice) {o : Addr} {h₀ : Heap}
    (ho : h₀.callCells.length ≤ o) :
    ∀ (k i : Nat) (h : Heap), h₀.Ext h → h₀.Ext (mergeStackLoop fuel s r o k i h)
  | 0, _, _, e => e
  | k + 1, i, h, e => by
    rw [mergeStackLoop]
    exact mergeStackLoop_ext fuel s r ho k (i + 1) _ (mergeStackStep_ext fuel s r i e ho)

theorem mergeStackH_ext (fuel : Nat) (h : Heap) (s r : HStack) :
    h.Ext (mergeStackH fuel h s r).1 := by
  unfold mergeStackH
  exact mergeStackLoop_ext fuel _ _ (Nat.le_refl _) _ _ _ (h.ext_allocCalls _)

theorem mergeSigH_ext (fuel : Nat) (h : Heap) (s r : HSig) : h.Ext (mergeSigH fuel h s r).1 :=
  mergeStackH_ext fuel h s.stack r.stack

/-! ### Aggregate -/

theorem insertGH_ext (fuel : Nat) (l : Lvl) (h : Heap) (i : Nat) (g : HGoroutine) :
    ∀ bs : List HBkt, h.Ext (insertGH fuel l h bs i g).1
  | [] => Heap.Ext.refl h
  | b :: rest => by
    rw [insertGH]
    split
    · split
      · exact Heap.Ext.refl h
      · exact mergeSigH_ext _ _ _ _
    · exact insertGH_ext fuel l h i g rest

theorem bucketLoopH_ext (π : HOracle) (fuel : Nat) (l : Lvl) :
    ∀ (gs : List HGoroutine) (i : Nat) (h : Heap) (bs : List HBkt),
      h.Ext (bucketLoopH π fuel l i h bs gs).1
  | [], _, h, _ => Heap.Ext.refl h
  | g :: gs, i, h, bs => by
    rw [bucketLoopH]
    exact (insertGH_ext fuel l h i g _).trans (bucketLoopH_ext π fuel l gs _ _ _)

theorem aggregateHWith_ext (π : HOracle) (fuel : Nat) (l : Lvl) (h : Heap)
    (gs : List HGoroutine) : h.Ext (aggregateHWith π fuel l h gs).1 :=
  bucketLoopH_ext π fuel l gs 0 h []

/-! ### reading through a heap that agrees on the addresses that matter -/

/-- `h'` has every arg cell of `h` whose address satisfies `P`, unchanged -/
def Heap.AgreeOn (P : Addr → Bool) (h h' : Heap) : Prop :=
  h.argCells.length ≤ h'.argCells.length ∧
    ∀ a, P a = true → a < h.argCells.length → h'.argCells[a]? = h.argCells[a]?

theorem Heap.AgreeOn.refl (P : Addr → Bool) (h : Heap) : h.AgreeOn P h :=
  ⟨Nat.le_refl _, fun _ _ _ => rfl⟩

theorem Heap.AgreeOn.trans {P : Addr → Bool} {h₁ h₂ h₃ : Heap} (a : h₁.AgreeOn P h₂)
    (b : h₂.AgreeOn P h₃) : h₁.AgreeOn P h₃ :=
  ⟨Nat.le_trans a.1 b.1, fun x hx hl => by
    rw [b.2 x hx (Nat.lt_of_lt_of_le hl a.1), a.2 x hx hl]⟩

theorem Heap.Ext.agreeOn {h h' : Heap} (e : h.Ext h') (P : Addr → Bool) : h.AgreeOn P h' :=
  ⟨e.1.1, fun a _ hl => e.1.2 a hl⟩

/-- a write to a cell outside `P` -/
theorem Heap.agreeOn_writeArg (P : Addr → Bool) (h : Heap) {o : Addr} (ho : P o = false) (i : Nat)
    (v : HArg) : h.AgreeOn P (h.writeArg o i v) :=
  ⟨by simp [Heap.writeArg], fun a ha _ => by
    have : o ≠ a := fun e => by rw [e, ha] at ho; cases ho
    simp only [Heap.writeArg]
    rw [List.getElem?_modify_ne _ _ this]⟩

/-- a write to a call cell leaves all arg cells alone -/
theorem Heap.agreeOn_writeCall (P : Addr → Bool) (h : Heap) (o : Addr) (i : Nat) (v : HCall) :
    h.AgreeOn P (h.writeCall o i v) :=
  ⟨Nat.le_refl _, fun _ _ _ => rfl⟩

theorem Heap.AgreeOn.argCell {P : Addr → Bool} {h h' : Heap} (ag : h.AgreeOn P h') {a : Addr}
    (hP : P a = true) (hl : a < h.argCells.length) : h'.argCell (some a) = h.argCell (some a) := by
  simp only [Heap.argCell, ag.2 a hP hl]

theorem wfArgs_succ_some (P : Addr → Bool) (d : Nat) (h : Heap) (a : Addr) :
    wfArgs P (d + 1) h (some a) =
      (P a && decide (a < h.argCells.length) && (h.argCell (some a)).all (wfArg P d h)) := by
  rw [wfArgs]
  congr 1

theorem wfArgs_none (P : Addr → Bool) (d : Nat) (h : Heap) : wfArgs P d h none = true := by
  cases d <;> rfl

theorem absArgsL_succ (f : Nat) (h : Heap) (s : Slice) :
    absArgsL (f + 1) h s = (h.argCell s).map (absArg f h) := by
  rw [absArgsL]
  congr 1

theorem absArgsL_none (f : Nat) (h : Heap) : absArgsL f h none = [] := by
  cases f <;> rfl

/-- what is read below a well-formed slice depends only on cells satisfying `P` -/
theorem wfArgs_agree {P : Addr → Bool} {h h' : Heap} (ag : h.AgreeOn P h') :
    ∀ (d : Nat) (s : Slice), wfArgs P d h s = true →
      wfArgs P d h' s = true ∧ ∀ f, absArgsL f h' s = absArgsL f h s
  | d, none, _ => ⟨wfArgs_none _ _ _, fun f => by rw [absArgsL_none, absArgsL_none]⟩
  | 0, some a, hw => by simp [wfArgs] at hw
  | d + 1, some a, hw => by
    rw [wfArgs_succ_some] at hw
    simp only [Bool.and_eq_true, decide_eq_true_eq, List.all_eq_true] at hw
    obtain ⟨⟨hP, hl⟩, hall⟩ := hw
    have hc := ag.argCell hP hl
    have ih : ∀ x ∈ h.argCell (some a), wfArg P d h' x = true ∧ ∀ f, absArg f h' x = absArg f h x := by
      intro x hx
      cases x with
      | scalar => exact ⟨rfl, fun _ => rfl⟩
      | agg fs e =>
        have := wfArgs_agree ag d fs (hall _ hx)
        exact ⟨this.1, fun f => by simp only [absArg, this.2 f]⟩
    refine ⟨?_, fun f => ?_⟩
    · rw [wfArgs_succ_some, hc]
      simp only [Bool.and_eq_true, decide_eq_true_eq, List.all_eq_true]
      exact ⟨⟨hP, Nat.lt_of_lt_of_le hl ag.1⟩, fun x hx => (ih x hx).1⟩
    · cases f with
      | zero => rfl
      | succ f =>
        rw [absArgsL_succ, absArgsL_succ, hc]
        exact List.map_congr_left fun x hx => (ih x hx).2 f

theorem wfArg_agree {P : Addr → Bool} {h h' : Heap} (ag : h.AgreeOn P h') (d : Nat) (x : HArg)
    (hw : wfArg P d h x = true) :
    wfArg P d h' x = true ∧ ∀ f, absArg f h' x = absArg f h x := by
  cases x with
  | scalar => exact ⟨rfl, fun _ => rfl⟩
  | agg fs e =>
    have := wfArgs_agree ag d fs hw
    exact ⟨this.1, fun f => by simp only [absArg, this.2 f]⟩

/-- weaken the address predicate -/
theorem wfArgs_mono {P Q : Addr → Bool} (h : Heap) (hPQ : ∀ a, P a = true → a < h.argCells.length → Q a = true) :
    ∀ (d : Nat) (s : Slice), wfArgs P d h s = true → wfArgs Q d h s = true
  | d, none, _ => wfArgs_none _ _ _
  | 0, some a, hw => by simp [wfArgs] at hw
  | d + 1, some a, hw => by
    rw [wfArgs_succ_some] at hw ⊢
    simp only [Bool.and_eq_true, decide_eq_true_eq, List.all_eq_true] at hw ⊢
    obtain ⟨⟨hP, hl⟩, hall⟩ := hw
    refine ⟨⟨hPQ a hP hl, hl⟩, fun x hx => ?_⟩
    cases x with
    | scalar => rfl
    | agg fs e => exact wfArgs_mono h hPQ d fs (hall _ hx)

theorem wfArg_mono {P Q : Addr → Bool} (h : Heap)
    (hPQ : ∀ a, P a = true → a < h.argCells.length → Q a = true) (d : Nat) (x : HArg)
    (hw : wfArg P d h x = true) : wfArg Q d h x = true := by
  cases x with
  | scalar => rfl
  | agg fs e => exact wfArgs_mono h hPQ d fs hw

/-! ### the snapshot reads the same in an extended heap -/

theorem absArgs_ext {h h' : Heap} (e : h.Ext h') (d f : Nat) (a : HArgs)
    (hw : wfArgs (fun _ => true) d h a.values = true) : absArgs f h' a = absArgs f h a := by
  simp only [absArgs, (wfArgs_agree (e.agreeOn _) d _ hw).2 f]

theorem absCall_ext {h h' : Heap} (e : h.Ext h') (d f : Nat) (c : HCall)
    (hw : wfArgs (fun _ => true) d h c.args.values = true) : absCall f h' c = absCall f h c := by
  simp only [absCall, absArgs_ext e d f _ hw]

theorem wfStack_ext {h h' : Heap} (e : h.Ext h') (d : Nat) (s : HStack)
    (hw : wfStack d h s = true) :
    wfStack d h' s = true ∧ ∀ f, absStack f h' s = absStack f h s := by
  unfold wfStack at hw ⊢
  unfold absStack
  cases hs : s.calls with
  | none => exact ⟨rfl, fun f => rfl⟩
  | some a =>
    simp only [hs, Bool.and_eq_true, decide_eq_true_eq, List.all_eq_true] at hw ⊢
    obtain ⟨hl, hall⟩ := hw
    have hc : h'.callCell (some a) = h.callCell (some a) := by
      simp only [Heap.callCell, e.2.2 a hl]
    rw [hc]
    refine ⟨⟨Nat.lt_of_lt_of_le hl e.2.1, fun c hcm => ?_⟩, fun f => ?_⟩
    · exact (wfArgs_agree (e.agreeOn _) d _ (hall c hcm)).1
    · congr 1
      exact List.map_congr_left fun c hcm => absCall_ext e d f c (hall c hcm)

theorem wfSig_ext {h h' : Heap} (e : h.Ext h') (d : Nat) (s : HSig) (hw : wfSig d h s = true) :
    wfSig d h' s = true ∧ ∀ f, absSig f h' s = absSig f h s := by
  unfold wfSig at hw ⊢
  simp only [Bool.and_eq_true] at hw ⊢
  have a := wfStack_ext e d _ hw.1
  have b := wfStack_ext e d _ hw.2
  exact ⟨⟨a.1, b.1⟩, fun f => by simp only [absSig, a.2 f, b.2 f]⟩

theorem HeapWF.ext {h h' : Heap} (e : h.Ext h') {d : Nat} {gs : List HGoroutine}
    (hw : HeapWF d h gs) : HeapWF d h' gs :=
  fun g hg => (wfSig_ext e d _ (hw g hg)).1

theorem absGoroutines_ext {h h' : Heap} (e : h.Ext h') {d : Nat} {gs : List HGoroutine}
    (hw : HeapWF d h gs) (f : Nat) : absGoroutines f h' gs = absGoroutines f h gs := by
  unfold absGoroutines
  exact List.map_congr_left fun g hg => by
    simp only [absGoroutine, (wfSig_ext e d _ (hw g hg)).2 f]

end PP.Alias
