import PP.Lemmas.StripAnsi
/-
Colour independence: every rendering function "strips to" its emptyPalette
version, whatever text follows.
-/
namespace PP.Console
open PP PP.Bytes

/-- `x` with its escape sequences removed is `y`, in any context to the right -/
def StripsTo (x y : Bytes) : Prop := ∀ rest : Bytes, stripGo .out (x ++ rest) = y ++ stripGo .out rest

theorem StripsTo.text {a : Bytes} (h : NoEsc a) : StripsTo a a := fun rest => strip_text h rest
theorem StripsTo.code {a : Bytes} (h : AnsiCodes a) : StripsTo a [] := fun rest => strip_codes h rest
theorem StripsTo.append {a a' b b' : Bytes} (h1 : StripsTo a a') (h2 : StripsTo b b') :
    StripsTo (a ++ b) (a' ++ b') := by
  intro rest
  rw [List.append_assoc, h1, h2, List.append_assoc]
theorem StripsTo.nil : StripsTo [] [] := fun _ => rfl

theorem StripsTo.strip {x y : Bytes} (h : StripsTo x y) : stripAnsi x = y := by
  have := h []
  simpa [stripAnsi, stripGo_out_nil] using this

/-! ### ESC-free pieces -/

theorem noEsc_join {sep : Bytes} (hsep : NoEsc sep) : ∀ (l : List Bytes), (∀ x ∈ l, NoEsc x) → NoEsc (join sep l)
  | [], _ => noEsc_nil
  | [x], h => h x (by simp)
  | x :: y :: ys, h => by
    show NoEsc (x ++ sep ++ join sep (y :: ys))
    exact noEsc_append (noEsc_append (h x (by simp)) hsep)
      (noEsc_join hsep (y :: ys) (fun z hz => h z (List.mem_cons_of_mem _ hz)))

theorem noEsc_lit_commaSpace : NoEsc b!", " := by unfold NoEsc ESC; decide
theorem noEsc_lit_dots : NoEsc b!"..." := by unfold NoEsc ESC; decide

mutual
theorem noEsc_argString : ∀ (a : Arg), ArgNoEsc a → NoEsc (argString a)
  | .scalar name v _ otl _, h => by
    have hn : NoEsc name := h
    unfold argString
    split
    · exact hn
    · split
      · unfold NoEsc ESC; decide
      · split
        · simp only [NoEsc, List.mem_singleton]
          intro e
          have hv : v < 10 := by assumption
          have : v = 0 ∨ v = 1 ∨ v = 2 ∨ v = 3 ∨ v = 4 ∨ v = 5 ∨ v = 6 ∨ v = 7 ∨ v = 8 ∨ v = 9 := by omega
          rcases this with h | h | h | h | h | h | h | h | h | h <;> subst h <;> revert e <;> decide
        · exact noEsc_append (by unfold NoEsc ESC; decide) (noEsc_fmtHex v)
  | .agg fs el, h => by
    have hf : ArgsNoEsc fs := h
    unfold argString
    refine noEsc_append (noEsc_append (by unfold NoEsc ESC; decide) ?_) (by unfold NoEsc ESC; decide)
    apply noEsc_join noEsc_lit_commaSpace
    intro x hx
    rw [List.mem_append] at hx
    cases hx with
    | inl hx => exact noEsc_argStrings fs hf x hx
    | inr hx =>
      cases el
      · simp at hx
      · simp at hx; subst hx; exact noEsc_lit_dots
theorem noEsc_argStrings : ∀ (as : List Arg), ArgsNoEsc as → ∀ x ∈ argStrings as, NoEsc x
  | [], _, x, hx => by simp [argStrings] at hx
  | a :: as, h, x, hx => by
    have h' : ArgNoEsc a ∧ ArgsNoEsc as := h
    unfold argStrings at hx
    rw [List.mem_cons] at hx
    cases hx with
    | inl e => subst e; exact noEsc_argString a h'.1
    | inr hm => exact noEsc_argStrings as h'.2 x hm
end

theorem noEsc_argsString {c : Call} (hc : CallNoEsc c) : NoEsc (argsString c.args) := by
  unfold argsString
  apply noEsc_join noEsc_lit_commaSpace
  intro x hx
  have hbase : ∀ y ∈ (if c.args.processed.length ≠ 0 then c.args.processed else argStrings c.args.values), NoEsc y := by
    intro y hy
    split at hy
    · exact hc.processed y hy
    · exact noEsc_argStrings _ hc.values y hy
  cases hel : c.args.elided
  · simp only [hel, Bool.false_eq_true, if_false] at hx
    exact hbase x hx
  · simp only [hel, if_true, List.mem_append, List.mem_singleton] at hx
    cases hx with
    | inl h => exact hbase x h
    | inr h => subst h; exact noEsc_lit_dots

theorem noEsc_pathLine {path : Bytes} (h : NoEsc path) (n : Nat) : NoEsc (pathLine path n) := by
  unfold pathLine
  exact noEsc_append (noEsc_append h (by unfold NoEsc ESC; decide)) (noEsc_fmtDec n)

theorem noEsc_formatCall (pf : PathFormat) {c : Call} (hc : CallNoEsc c) : NoEsc (formatCall pf c) := by
  unfold formatCall
  cases pf <;> simp only <;> repeat' split
  all_goals first
    | exact noEsc_pathLine hc.loc _
    | exact noEsc_pathLine hc.remote _
    | exact noEsc_pathLine hc.rel _
    | exact noEsc_pathLine hc.srcName _

theorem noEsc_createdByString (pf : PathFormat) {s : Signature} (hs : SigNoEsc s) : NoEsc (createdByString pf s) := by
  unfold createdByString
  split
  · exact noEsc_nil
  · rename_i c rest heq
    have hc : CallNoEsc c := hs.created c (by rw [heq]; simp)
    exact noEsc_append (noEsc_append (noEsc_append (noEsc_append hc.dirName (by unfold NoEsc ESC; decide)) hc.name)
      (by unfold NoEsc ESC; decide)) (noEsc_formatCall pf hc)

theorem noEsc_sleepString (s : Signature) : NoEsc (sleepString s) := by
  unfold sleepString
  split
  · exact noEsc_nil
  · split
    · exact noEsc_append (noEsc_append (noEsc_append (noEsc_fmtDec _) (by unfold NoEsc ESC; decide)) (noEsc_fmtDec _))
        (by unfold NoEsc ESC; decide)
    · exact noEsc_append (noEsc_fmtDec _) (by unfold NoEsc ESC; decide)

/-! ### colours -/

theorem ansiCodes_functionColor {p : Palette} (hp : PaletteIsAnsi p) (c : Call) : AnsiCodes (functionColor p c) := by
  unfold functionColor funcColor
  cases c.fn.isPkgMain <;> cases c.location <;> cases c.fn.isExported <;> simp only [Bool.false_eq_true, if_false, if_true]
  all_goals first
    | exact hp.funcMain | exact hp.funcLocationUnknown | exact hp.funcLocationUnknownExported
    | exact hp.funcGoMod | exact hp.funcGoModExported | exact hp.funcGOPATH | exact hp.funcGOPATHExported
    | exact hp.funcGoPkg | exact hp.funcGoPkgExported | exact hp.funcStdLib | exact hp.funcStdLibExported

theorem functionColor_empty (c : Call) : functionColor emptyPalette c = [] := by
  unfold functionColor funcColor emptyPalette
  cases c.fn.isPkgMain <;> cases c.location <;> cases c.fn.isExported <;> rfl

theorem ansiCodes_routineColor {p : Palette} (hp : PaletteIsAnsi p) (f m : Bool) : AnsiCodes (routineColor p f m) := by
  unfold routineColor
  split
  · exact hp.routineFirst
  · exact hp.routine

theorem routineColor_empty (f m : Bool) : routineColor emptyPalette f m = [] := by
  unfold routineColor emptyPalette
  split <;> rfl

end PP.Console

namespace PP.Console
open PP PP.Bytes

/-! ### the rendering functions -/

theorem callLine_strips {p : Palette} (hp : PaletteIsAnsi p) {c : Call} (hc : CallNoEsc c)
    (srcLen pkgLen : Nat) (pf : PathFormat) :
    StripsTo (callLine p c srcLen pkgLen pf) (callLine emptyPalette c srcLen pkgLen pf) := by
  unfold callLine
  rw [functionColor_empty]
  repeat' apply StripsTo.append
  all_goals first
    | exact StripsTo.code hp.pkg
    | exact StripsTo.code hp.srcFile
    | exact StripsTo.code hp.arguments
    | exact StripsTo.code hp.eolReset
    | exact StripsTo.code (ansiCodes_functionColor hp c)
    | exact StripsTo.text (noEsc_fmtPadRight _ hc.dirName)
    | exact StripsTo.text (noEsc_fmtPadRight _ (noEsc_formatCall pf hc))
    | exact StripsTo.text hc.name
    | exact StripsTo.text (noEsc_argsString hc)
    | exact StripsTo.text (by unfold NoEsc ESC; decide)

/-- pointwise `StripsTo` on two lists of lines -/
inductive StripsTo₂ : List Bytes → List Bytes → Prop
  | nil : StripsTo₂ [] []
  | cons {x y : Bytes} {t t' : List Bytes} : StripsTo x y → StripsTo₂ t t' → StripsTo₂ (x :: t) (y :: t')

theorem join_strips {sep sep' : Bytes} (hsep : StripsTo sep sep') :
    ∀ {l l' : List Bytes}, StripsTo₂ l l' → StripsTo (join sep l) (join sep' l')
  | _, _, .nil => StripsTo.nil
  | _, _, .cons h .nil => h
  | _, _, .cons (x := x) (y := y) h (.cons (x := x2) (y := y2) (t := t) (t' := t') h2 ht) => by
    show StripsTo (x ++ sep ++ join sep (x2 :: t)) (y ++ sep' ++ join sep' (y2 :: t'))
    exact (h.append hsep).append (join_strips hsep (.cons h2 ht))

theorem stripsTo₂_map {α : Type} (f g : α → Bytes) : ∀ (l : List α), (∀ x ∈ l, StripsTo (f x) (g x)) →
    StripsTo₂ (l.map f) (l.map g)
  | [], _ => .nil
  | x :: t, h => .cons (h x (by simp)) (stripsTo₂_map f g t (fun y hy => h y (List.mem_cons_of_mem _ hy)))

theorem stripsTo₂_append : ∀ {a a' b b' : List Bytes},
    StripsTo₂ a a' → StripsTo₂ b b' → StripsTo₂ (a ++ b) (a' ++ b')
  | _, _, _, _, .nil, h => h
  | _, _, _, _, .cons h t, h2 => .cons h (stripsTo₂_append t h2)

theorem stackLines_strips {p : Palette} (hp : PaletteIsAnsi p) {s : Signature} (hs : SigNoEsc s)
    (srcLen pkgLen : Nat) (pf : PathFormat) :
    StripsTo (stackLines p s srcLen pkgLen pf) (stackLines emptyPalette s srcLen pkgLen pf) := by
  unfold stackLines
  have hnl : StripsTo b!"\n" b!"\n" := StripsTo.text (by unfold NoEsc ESC; decide)
  refine StripsTo.append (join_strips hnl ?_) hnl
  unfold stackLineList
  have hmap := stripsTo₂_map (fun c => callLine p c srcLen pkgLen pf)
    (fun c => callLine emptyPalette c srcLen pkgLen pf) s.stack.calls
    (fun c hc => callLine_strips hp (hs.calls c hc) srcLen pkgLen pf)
  cases s.stack.elided
  · simpa using hmap
  · simp only [if_true]
    exact stripsTo₂_append hmap (.cons (StripsTo.text (by unfold NoEsc ESC elidedLine; decide)) .nil)

theorem headerExtra_strips {p : Palette} (hp : PaletteIsAnsi p) {s : Signature} (hs : SigNoEsc s) (pf : PathFormat) :
    StripsTo (headerExtra p s pf) (headerExtra emptyPalette s pf) := by
  have hsl := noEsc_sleepString s
  have hcr := noEsc_createdByString pf hs
  have hlit : ∀ {x : Bytes}, NoEsc x → StripsTo x x := StripsTo.text
  unfold headerExtra
  by_cases h1 : sleepString s = [] <;> by_cases h3 : createdByString pf s = [] <;> cases s.locked <;>
    simp only [h1, h3, ne_eq, not_true_eq_false, not_false_eq_true, if_true, if_false, Bool.false_eq_true]
  all_goals
    repeat' apply StripsTo.append
  all_goals first
    | exact StripsTo.nil
    | exact StripsTo.code hp.createdBy
    | exact StripsTo.text hsl
    | exact StripsTo.text hcr
    | exact StripsTo.text (by unfold NoEsc ESC; decide)

theorem bucketHeader_strips {p : Palette} (hp : PaletteIsAnsi p) {b : Bucket} (hs : SigNoEsc b.sig)
    (pf : PathFormat) (multi : Bool) :
    StripsTo (bucketHeader p b pf multi) (bucketHeader emptyPalette b pf multi) := by
  unfold bucketHeader
  rw [routineColor_empty]
  repeat' apply StripsTo.append
  all_goals first
    | exact StripsTo.code (ansiCodes_routineColor hp _ _)
    | exact StripsTo.code hp.eolReset
    | exact headerExtra_strips hp hs pf
    | exact StripsTo.text (noEsc_fmtDec _)
    | exact StripsTo.text hs.state
    | exact StripsTo.text (by unfold NoEsc ESC; decide)

theorem goroutineHeader_strips {p : Palette} (hp : PaletteIsAnsi p) {g : Goroutine} (hs : SigNoEsc g.sig)
    (pf : PathFormat) (multi : Bool) :
    StripsTo (goroutineHeader p g pf multi) (goroutineHeader emptyPalette g pf multi) := by
  unfold goroutineHeader
  rw [routineColor_empty]
  by_cases h : g.raceAddr = 0 <;> cases g.raceWrite <;>
    simp only [h, ne_eq, not_true_eq_false, not_false_eq_true, if_true, if_false, Bool.false_eq_true]
  all_goals
    repeat' apply StripsTo.append
  all_goals first
    | exact StripsTo.code (ansiCodes_routineColor hp _ _)
    | exact StripsTo.code hp.eolReset
    | exact StripsTo.code hp.race
    | exact headerExtra_strips hp hs pf
    | exact StripsTo.text (noEsc_fmtDec _)
    | exact StripsTo.text (noEsc_fmtHex08 _)
    | exact StripsTo.text (noEsc_replicate _ _ (by decide))
    | exact StripsTo.text (noEsc_natToHex _)
    | exact StripsTo.text hs.state
    | exact StripsTo.text (by unfold NoEsc ESC; decide)

theorem writeLoop_strips {α : Type} (hdr body hdr' body' : α → Bytes) : ∀ (xs : List α),
    (∀ e ∈ xs, StripsTo (hdr e) (hdr' e)) → (∀ e ∈ xs, StripsTo (body e) (body' e)) →
    StripsTo (writeLoop hdr body none none xs) (writeLoop hdr' body' none none xs)
  | [], _, _ => StripsTo.nil
  | e :: rest, h1, h2 => by
    simp only [writeLoop, filterHit, matchMiss, Bool.false_eq_true, if_false]
    exact ((h1 e (by simp)).append (h2 e (by simp))).append
      (writeLoop_strips hdr body hdr' body' rest (fun x hx => h1 x (List.mem_cons_of_mem _ hx))
        (fun x hx => h2 x (List.mem_cons_of_mem _ hx)))

theorem banner_strips (needsEnv : Bool) :
    StripsTo (if needsEnv then banner else []) (if needsEnv then banner else []) := by
  cases needsEnv
  · exact StripsTo.nil
  · exact StripsTo.text (by unfold NoEsc ESC banner; decide)

end PP.Console
