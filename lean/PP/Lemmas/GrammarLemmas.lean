import PP.Spec.Grammar
import PP.Lemmas.LoopLemmas
import PP.Lemmas.ScanInv
/-
Lemmas for C07, part 1: canonical lines, the reference automaton recognises the grammar, and
`scan` simulates the automaton on canonical lines.
-/
namespace PP
namespace Spec

/-! ### canonical lines -/

def payloadOf (l : Line) : Payload :=
  { hdr := l.header.getD ⟨[], 0, [], 0, false⟩
    c := (l.func.map Prod.fst).getD {}
    cL := (l.funcL.map Prod.fst).getD {}
    pl := (l.file.bind id).getD ([], 0)
    f := match l.created with | some (.ok f) => f | _ => {}
    op := match l.raceOp with | some (.ok v) => v | _ => (false, 0, 0)
    prev := match l.racePrev with | some (.ok v) => v | _ => (false, 0, 0)
    gid := match l.raceGor with | some (some i, _) => i | _ => 0
    gst := match l.raceGor with | some (_, s) => s | _ => [] }

theorem isKind_canon {k : Kind} {l : Line} (h : l.isKind k) : l = canon k (payloadOf l) := by
  obtain ⟨h1, h2, h3, h4, h5, h6, h7, h8, h9, h10, h11, h12, h13, h14, h15⟩ := h
  obtain ⟨a1, a2, a3, a4, a5, a6, a7, a8, a9, a10, a11, a12, a13, a14, a15⟩ := l
  simp only at h1 h2 h3 h4 h5 h6 h7 h8 h9 h10 h11 h12 h13 h14 h15
  subst h1 h2 h3 h5 h6 h7 h12
  simp only [canon, payloadOf, Line.mk.injEq, true_and]
  refine ⟨?_, ?_, ?_, ?_, ?_, ?_, ?_, ?_⟩
  · cases a4 <;> cases k <;> simp_all
  · cases a8 <;> cases k <;> simp_all
    all_goals (rename_i v; obtain ⟨c, e⟩ := v; simp_all)
  · cases a9 <;> cases k <;> simp_all
    all_goals (rename_i v; obtain ⟨c, e⟩ := v; simp_all)
  · cases a10 <;> cases k <;> simp_all
    all_goals (rename_i v; cases v <;> simp_all)
  · cases a11 <;> cases k <;> simp_all
    all_goals (rename_i v; cases v <;> simp_all [okE])
  · cases a13 <;> cases k <;> simp_all
    all_goals (rename_i v; cases v <;> simp_all [okE])
  · cases a14 <;> cases k <;> simp_all
    all_goals (rename_i v; cases v <;> simp_all [okE])
  · cases a15 <;> cases k <;> simp_all
    all_goals (rename_i v; obtain ⟨i, st⟩ := v; cases i <;> simp_all)

theorem canon_isKind (k : Kind) (p : Payload) : (canon k p).isKind k := by
  constructor <;> cases k <;> simp [canon, okE]

theorem isKind_iff_canon (k : Kind) (l : Line) : l.isKind k ↔ ∃ p, l = canon k p :=
  ⟨fun h => ⟨_, isKind_canon h⟩, fun ⟨p, h⟩ => h ▸ canon_isKind k p⟩


/-! ### `scan` simulates the automaton, one line -/

/-- the automaton state a scanner state stands for (a bijection; `done` is "finished") -/
def absSt : St → GState
  | .looking => .start | .done => .fin | .betweenRoutine => .gap | .gotRoutineHeader => .hdr
  | .gotFunc => .fn | .gotCreated => .cr | .gotFileFunc => .frames | .gotFileCreated => .crf
  | .gotUnavail => .unav | .gotRaceHeader1 => .r1 | .gotRaceHeader2 => .r2
  | .gotRaceOperationHeader => .opH | .gotRaceOperationFunc => .opF | .gotRaceOperationFile => .opS
  | .betweenRaceOperations => .gapO | .gotRaceGoroutineHeader => .goH | .gotRaceGoroutineFunc => .goF
  | .gotRaceGoroutineFile => .goS | .betweenRaceGoroutines => .gapG

/-- the states in which a line that cannot continue the dump ends it cleanly.  These are the
accepting states except `unav`: directly after the "stack unavailable" line the scanner insists
on a blank line or `created by`, and reports an error on anything else (finding K-C07-1). -/
def cleanEnd (q : GState) : Bool := accepting q && q != .unav

/-- how the scanner leaves a line it does not take, in a state standing for `q`
(`e` = the parse error, `st'` = the next scanner state):
* in a `cleanEnd` state the dump ends: no error, state `done`;
* before any dump (`start`), and after a lone separator (`r1`, known finding K1), the scanner
  is / goes back to `looking` without error;
* otherwise the line invalidates the dump: an error. -/
def Stopped (q : GState) (e : Option Err) (st' : St) : Prop :=
  if cleanEnd q then e = none ∧ st' = .done
  else if q = .start ∨ q = .r1 then e = none ∧ st' = .looking
  else e.isSome = true

/-- what `scan` must do on a canonical line of kind `k` in a state standing for `q`
(`b` = the line is withheld): if the automaton can take the line, it is withheld without error
and the state follows; if not, it is not withheld and the scanner stops as `Stopped` says. -/
def Outcome (q : GState) (k : Kind) (b : Bool) (e : Option Err) (st' : St) : Prop :=
  match step q k with
  | some q' => b = true ∧ e = none ∧ absSt st' = q'
  | none => b = false ∧ Stopped q e st'

/-- a race goroutine header names a goroutine that an operation header declared -/
def GorKnown (s : S) (l : Line) : Prop :=
  ∀ id stt, l.raceGor = some (some id, stt) → (s.gs.findIdx? (fun g => g.id == id)).isSome = true

set_option hygiene false in
macro "sim_tac" hs:ident h:ident : tactic => `(tactic| (
  rw [$hs:ident]
  unfold scan at $h:ident
  cases ‹Kind› <;> simp [$hs:ident, canon, funcStep, createdStep, curAppendCall, needLastCall, needCreated0] at $h:ident
  all_goals (repeat' (split at $h:ident))
  all_goals (try simp at $h:ident)
  all_goals (try obtain ⟨rfl, rfl, rfl⟩ := $h:ident)
  all_goals (try simp [Outcome, Stopped, absSt, step, accepting, acceptingDump, cleanEnd, $hs:ident])))

theorem sim_looking {s s' : S} {p : Payload} {k : Kind} {b e} (hs : s.st = .looking)
    (hg : GorKnown s (canon k p)) (h : scan s (canon k p) = .ok (s', b, e)) :
    Outcome (absSt s.st) k b e s'.st := by
  sim_tac hs h

theorem sim_done {s s' : S} {p : Payload} {k : Kind} {b e} (hs : s.st = .done)
    (hg : GorKnown s (canon k p)) (h : scan s (canon k p) = .ok (s', b, e)) :
    Outcome (absSt s.st) k b e s'.st := by
  sim_tac hs h

theorem sim_betweenRoutine {s s' : S} {p : Payload} {k : Kind} {b e} (hs : s.st = .betweenRoutine)
    (hg : GorKnown s (canon k p)) (h : scan s (canon k p) = .ok (s', b, e)) :
    Outcome (absSt s.st) k b e s'.st := by
  sim_tac hs h

theorem sim_gotRoutineHeader {s s' : S} {p : Payload} {k : Kind} {b e} (hs : s.st = .gotRoutineHeader)
    (hg : GorKnown s (canon k p)) (h : scan s (canon k p) = .ok (s', b, e)) :
    Outcome (absSt s.st) k b e s'.st := by
  sim_tac hs h

theorem sim_gotFunc {s s' : S} {p : Payload} {k : Kind} {b e} (hs : s.st = .gotFunc)
    (hg : GorKnown s (canon k p)) (h : scan s (canon k p) = .ok (s', b, e)) :
    Outcome (absSt s.st) k b e s'.st := by
  sim_tac hs h

theorem sim_gotCreated {s s' : S} {p : Payload} {k : Kind} {b e} (hs : s.st = .gotCreated)
    (hg : GorKnown s (canon k p)) (h : scan s (canon k p) = .ok (s', b, e)) :
    Outcome (absSt s.st) k b e s'.st := by
  sim_tac hs h

theorem sim_gotFileFunc {s s' : S} {p : Payload} {k : Kind} {b e} (hs : s.st = .gotFileFunc)
    (hg : GorKnown s (canon k p)) (h : scan s (canon k p) = .ok (s', b, e)) :
    Outcome (absSt s.st) k b e s'.st := by
  sim_tac hs h

theorem sim_gotFileCreated {s s' : S} {p : Payload} {k : Kind} {b e} (hs : s.st = .gotFileCreated)
    (hg : GorKnown s (canon k p)) (h : scan s (canon k p) = .ok (s', b, e)) :
    Outcome (absSt s.st) k b e s'.st := by
  sim_tac hs h

theorem sim_gotUnavail {s s' : S} {p : Payload} {k : Kind} {b e} (hs : s.st = .gotUnavail)
    (hg : GorKnown s (canon k p)) (h : scan s (canon k p) = .ok (s', b, e)) :
    Outcome (absSt s.st) k b e s'.st := by
  sim_tac hs h

theorem sim_gotRaceHeader1 {s s' : S} {p : Payload} {k : Kind} {b e} (hs : s.st = .gotRaceHeader1)
    (hg : GorKnown s (canon k p)) (h : scan s (canon k p) = .ok (s', b, e)) :
    Outcome (absSt s.st) k b e s'.st := by
  sim_tac hs h

theorem sim_gotRaceHeader2 {s s' : S} {p : Payload} {k : Kind} {b e} (hs : s.st = .gotRaceHeader2)
    (hg : GorKnown s (canon k p)) (h : scan s (canon k p) = .ok (s', b, e)) :
    Outcome (absSt s.st) k b e s'.st := by
  sim_tac hs h

theorem sim_gotRaceOperationHeader {s s' : S} {p : Payload} {k : Kind} {b e} (hs : s.st = .gotRaceOperationHeader)
    (hg : GorKnown s (canon k p)) (h : scan s (canon k p) = .ok (s', b, e)) :
    Outcome (absSt s.st) k b e s'.st := by
  sim_tac hs h

theorem sim_gotRaceOperationFunc {s s' : S} {p : Payload} {k : Kind} {b e} (hs : s.st = .gotRaceOperationFunc)
    (hg : GorKnown s (canon k p)) (h : scan s (canon k p) = .ok (s', b, e)) :
    Outcome (absSt s.st) k b e s'.st := by
  sim_tac hs h

theorem sim_gotRaceOperationFile {s s' : S} {p : Payload} {k : Kind} {b e} (hs : s.st = .gotRaceOperationFile)
    (hg : GorKnown s (canon k p)) (h : scan s (canon k p) = .ok (s', b, e)) :
    Outcome (absSt s.st) k b e s'.st := by
  sim_tac hs h

theorem sim_betweenRaceOperations {s s' : S} {p : Payload} {k : Kind} {b e} (hs : s.st = .betweenRaceOperations)
    (hg : GorKnown s (canon k p)) (h : scan s (canon k p) = .ok (s', b, e)) :
    Outcome (absSt s.st) k b e s'.st := by
  sim_tac hs h
  all_goals (have := hg _ _ rfl; simp_all; obtain ⟨x, hx1, hx2⟩ := this; exact absurd hx2 (by rename_i hne; exact hne x hx1))

theorem sim_gotRaceGoroutineHeader {s s' : S} {p : Payload} {k : Kind} {b e} (hs : s.st = .gotRaceGoroutineHeader)
    (hg : GorKnown s (canon k p)) (h : scan s (canon k p) = .ok (s', b, e)) :
    Outcome (absSt s.st) k b e s'.st := by
  sim_tac hs h

theorem sim_gotRaceGoroutineFunc {s s' : S} {p : Payload} {k : Kind} {b e} (hs : s.st = .gotRaceGoroutineFunc)
    (hg : GorKnown s (canon k p)) (h : scan s (canon k p) = .ok (s', b, e)) :
    Outcome (absSt s.st) k b e s'.st := by
  sim_tac hs h

theorem sim_gotRaceGoroutineFile {s s' : S} {p : Payload} {k : Kind} {b e} (hs : s.st = .gotRaceGoroutineFile)
    (hg : GorKnown s (canon k p)) (h : scan s (canon k p) = .ok (s', b, e)) :
    Outcome (absSt s.st) k b e s'.st := by
  sim_tac hs h

theorem sim_betweenRaceGoroutines {s s' : S} {p : Payload} {k : Kind} {b e} (hs : s.st = .betweenRaceGoroutines)
    (hg : GorKnown s (canon k p)) (h : scan s (canon k p) = .ok (s', b, e)) :
    Outcome (absSt s.st) k b e s'.st := by
  sim_tac hs h
  all_goals (have := hg _ _ rfl; simp_all; obtain ⟨x, hx1, hx2⟩ := this; exact absurd hx2 (by rename_i hne; exact hne x hx1))

/-- **simulation, one line**: whenever `scan` does not panic on a canonical line, it does what
the automaton says -/
theorem sim_step {s s' : S} {l : Line} {k : Kind} {b e} (hk : l.isKind k) (hg : GorKnown s l)
    (h : scan s l = .ok (s', b, e)) : Outcome (absSt s.st) k b e s'.st := by
  rw [isKind_canon hk] at h hg
  cases hs : s.st
  · rw [← hs]; exact sim_looking hs hg h
  · rw [← hs]; exact sim_done hs hg h
  · rw [← hs]; exact sim_betweenRoutine hs hg h
  · rw [← hs]; exact sim_gotRoutineHeader hs hg h
  · rw [← hs]; exact sim_gotFunc hs hg h
  · rw [← hs]; exact sim_gotCreated hs hg h
  · rw [← hs]; exact sim_gotFileFunc hs hg h
  · rw [← hs]; exact sim_gotFileCreated hs hg h
  · rw [← hs]; exact sim_gotUnavail hs hg h
  · rw [← hs]; exact sim_gotRaceHeader1 hs hg h
  · rw [← hs]; exact sim_gotRaceHeader2 hs hg h
  · rw [← hs]; exact sim_gotRaceOperationHeader hs hg h
  · rw [← hs]; exact sim_gotRaceOperationFunc hs hg h
  · rw [← hs]; exact sim_gotRaceOperationFile hs hg h
  · rw [← hs]; exact sim_betweenRaceOperations hs hg h
  · rw [← hs]; exact sim_gotRaceGoroutineHeader hs hg h
  · rw [← hs]; exact sim_gotRaceGoroutineFunc hs hg h
  · rw [← hs]; exact sim_gotRaceGoroutineFile hs hg h
  · rw [← hs]; exact sim_betweenRaceGoroutines hs hg h

/-! ### `scan` simulates the automaton, many lines -/

/-- feed lines to `scan` as long as they are withheld without error: the number of lines
withheld, the last state, and what stopped the loop (`none` = the lines ran out, `some e` = a
line was not withheld, or raised the error `e`) -/
def scanLines : S → List Line → Except Panic (Nat × S × Option (Option Err))
  | s, [] => .ok (0, s, none)
  | s, l :: ls =>
    match scan s l with
    | .error p => .error p
    | .ok (s', b, e) =>
      if b && e.isNone then
        match scanLines s' ls with
        | .ok (n, r) => .ok (n + 1, r)
        | .error p => .error p
      else .ok (0, s', some e)

/-- `ls` are canonical lines of kinds `ks`, and every race goroutine header met while they are
scanned from `s` names a declared goroutine -/
inductive CanonFrom : S → List Line → List Kind → Prop
  | nil (s : S) : CanonFrom s [] []
  | cons {s : S} {l : Line} {k : Kind} {ls : List Line} {ks : List Kind} :
      l.isKind k → GorKnown s l →
      (∀ s' e, scan s l = .ok (s', true, e) → CanonFrom s' ls ks) → CanonFrom s (l :: ls) (k :: ks)

theorem gorKnown_of_ne {s : S} {l : Line} {k : Kind} (hk : l.isKind k) (hne : k ≠ .raceGor) :
    GorKnown s l := by
  intro id stt h
  have := hk.raceGor
  rw [h, if_neg hne] at this
  simp at this

/-- `ls` are canonical lines of kinds `ks` -/
inductive Kinds : List Line → List Kind → Prop
  | nil : Kinds [] []
  | cons {l : Line} {k : Kind} {ls : List Line} {ks : List Kind} :
      l.isKind k → Kinds ls ks → Kinds (l :: ls) (k :: ks)

/-- without race goroutine headers, being canonical is a property of the lines alone -/
theorem canonFrom_of_kinds (s : S) {ls : List Line} {ks : List Kind} (h : Kinds ls ks)
    (hne : Kind.raceGor ∉ ks) : CanonFrom s ls ks := by
  induction h generalizing s with
  | nil => exact CanonFrom.nil s
  | cons hk _ ih =>
    simp only [List.mem_cons, not_or] at hne
    exact CanonFrom.cons hk (gorKnown_of_ne hk (fun h => hne.1 h.symm)) (fun s' _ _ => ih s' hne.2)

/-- **maximal munch, on lines**: from a state satisfying the scanner invariant, the scanner
withholds exactly the longest prefix the automaton can read, without panic; when the lines run
out its state stands for the automaton state; otherwise it stops on the next line as `Stopped`
says for the automaton state reached. -/
theorem munch_lines {s : S} {ls : List Line} {ks : List Kind} (hc : CanonFrom s ls ks) (hinv : Inv s) :
    ∃ s' r, scanLines s ls = .ok ((munch (absSt s.st) ks).1, s', r) ∧ Inv s' ∧
      (r = none → (munch (absSt s.st) ks).1 = ks.length ∧ absSt s'.st = (munch (absSt s.st) ks).2) ∧
      (∀ e, r = some e → (munch (absSt s.st) ks).1 < ks.length ∧
        Stopped (munch (absSt s.st) ks).2 e s'.st) := by
  induction hc with
  | nil s => exact ⟨s, none, rfl, hinv, fun _ => ⟨rfl, rfl⟩, fun e h => by simp at h⟩
  | @cons s l k ls ks hk hg hnext ih =>
    obtain ⟨s1, b, e, hsc, hinv1⟩ := scan_stepOK s l hinv
    have ho := sim_step hk hg hsc
    simp only [scanLines, hsc, munch]
    unfold Outcome at ho
    cases hst : step (absSt s.st) k with
    | none =>
      rw [hst] at ho
      obtain ⟨rfl, hstop⟩ := ho
      refine ⟨s1, some e, by simp, hinv1, fun h => by simp at h, ?_⟩
      intro e' he'
      simp only [Option.some.injEq] at he'
      subst he'
      exact ⟨by simp, hstop⟩
    | some q' =>
      rw [hst] at ho
      obtain ⟨rfl, rfl, hq⟩ := ho
      obtain ⟨s2, r, h1, h2, h3, h4⟩ := ih s1 none hsc hinv1
      rw [hq] at h1 h3 h4
      refine ⟨s2, r, by simp [h1], h2, ?_, ?_⟩
      · intro hr
        obtain ⟨a, b⟩ := h3 hr
        exact ⟨by simp [a], b⟩
      · intro e' he'
        obtain ⟨a, b⟩ := h4 e' he'
        exact ⟨by simp only [List.length_cons]; omega, b⟩

/-! ### the same for the loop `scanL`, on bytes -/

theorem classify_nil_hasEOL (pfx : Bytes) : (classify pfx []).hasEOL = false := by
  simp [classify, stripEOL, Bytes.hasSuffix, Extracted.crlf, Extracted.lf]

/-- `ds` are lines which, classified with the indentation prefix in force when they are
scanned from `s`, are canonical of kinds `ks` (and race goroutine headers name declared
goroutines) -/
inductive CanonB : S → List Bytes → List Kind → Prop
  | nil (s : S) : CanonB s [] []
  | cons {s : S} {d : Bytes} {k : Kind} {ds : List Bytes} {ks : List Kind} :
      (classify s.pfx d).isKind k → GorKnown s (classify s.pfx d) →
      (∀ s' e, scanBytes s d = .ok (s', true, e) → CanonB s' ds ks) → CanonB s (d :: ds) (k :: ks)

theorem canonB_ne_nil {s : S} {d : Bytes} {k : Kind} (h : (classify s.pfx d).isKind k) :
    (d.length != 0) = true := by
  cases d with
  | nil => have := h.hasEOL; rw [classify_nil_hasEOL] at this; simp at this
  | cons a t => simp

/-- **maximal munch, for the loop**: on lines without reader error the loop withholds exactly
the longest prefix the automaton can read and forwards nothing, provided the automaton does
not get stuck in `start` or `r1` (where the scanner forwards instead of stopping). -/
theorem munch_scanL {s : S} {ds : List Bytes} {ks : List Kind} (hc : CanonB s ds ks) (hinv : Inv s)
    (hstop : (munch (absSt s.st) ks).1 < ks.length →
      (munch (absSt s.st) ks).2 ≠ .start ∧ (munch (absSt s.st) ks).2 ≠ .r1)
    (fwd : Bytes) (cons : List Bytes) :
    (scanL s fwd cons (ds.map (fun d => (d, none)))).panicked = none ∧
    (scanL s fwd cons (ds.map (fun d => (d, none)))).fwd = fwd ∧
    (scanL s fwd cons (ds.map (fun d => (d, none)))).consumed = cons ++ ds.take (munch (absSt s.st) ks).1 ∧
    (scanL s fwd cons (ds.map (fun d => (d, none)))).rest =
      (ds.drop (munch (absSt s.st) ks).1).map (fun d => (d, none)) ∧
    (((munch (absSt s.st) ks).1 = ks.length ∧
        (scanL s fwd cons (ds.map (fun d => (d, none)))).err = none ∧
        absSt (scanL s fwd cons (ds.map (fun d => (d, none)))).s.st = (munch (absSt s.st) ks).2) ∨
     ((munch (absSt s.st) ks).1 < ks.length ∧ ∃ e,
        (scanL s fwd cons (ds.map (fun d => (d, none)))).err = e.map LErr.parse ∧
        Stopped (munch (absSt s.st) ks).2 e (scanL s fwd cons (ds.map (fun d => (d, none)))).s.st)) := by
  induction hc generalizing fwd cons with
  | nil s => simp [scanL, munch]
  | @cons s d k ds ks hk hg hnext ih =>
    by_cases hd : (s.st == .done) = true
    · have hd' : s.st = .done := by simpa using hd
      rw [scanL_done _ _ _ _ hd]
      have hm : munch (absSt s.st) (k :: ks) = (0, .fin) := by
        rw [hd']; simp [munch, absSt, step]
      rw [hm]
      refine ⟨rfl, rfl, by simp, by simp, Or.inr ⟨by simp, none, rfl, ?_⟩⟩
      simp [Stopped, cleanEnd, accepting, hd']
    · rw [List.map_cons, scanL_cons, if_neg hd, if_pos (canonB_ne_nil hk)]
      obtain ⟨s1, b, e, hsc, hinv1⟩ := scan_stepOK s (classify s.pfx d) hinv
      have hsc' : scanBytes s d = .ok (s1, b, e) := hsc
      have ho := sim_step hk hg hsc
      rw [hsc']
      unfold Outcome at ho
      simp only [munch] at hstop ⊢
      cases hst : step (absSt s.st) k with
      | none =>
        rw [hst] at ho hstop
        obtain ⟨rfl, hstopped⟩ := ho
        obtain ⟨hq1, hq2⟩ := hstop (by simp)
        have hlk : s1.st ≠ .looking := by
          intro hl
          have h1 := scan_step hsc
          rw [hl] at h1
          rcases (Step_fwd_looking h1).2 with h2 | ⟨h2, _⟩
          · rw [h2] at hq1; exact hq1 rfl
          · rw [h2] at hq2; exact hq2 rfl
        have hlk' : (s1.st != .looking) = true := by simpa using hlk
        simp only [Bool.not_false, if_true, hlk']
        refine ⟨by first | rfl | trivial, by first | rfl | trivial, by simp, by simp, Or.inr ⟨by simp, e, ?_, hstopped⟩⟩
        cases e <;> rfl
      | some q' =>
        rw [hst] at ho hstop
        obtain ⟨rfl, rfl, hq⟩ := ho
        simp only [Bool.not_true, Bool.false_eq_true, if_false, combineErr, Option.isSome_none]
        have hstop' : (munch (absSt s1.st) ks).1 < ks.length →
            (munch (absSt s1.st) ks).2 ≠ .start ∧ (munch (absSt s1.st) ks).2 ≠ .r1 := by
          intro hlt
          rw [hq]
          exact hstop (by simp only [List.length_cons]; rw [hq] at hlt; omega)
        obtain ⟨i1, i2, i3, i4, i5⟩ := ih s1 none hsc' hinv1 hstop' fwd (cons ++ [d])
        rw [hq] at i3 i4 i5
        refine ⟨i1, i2, by rw [i3]; simp, by rw [i4]; simp, ?_⟩
        rcases i5 with ⟨a, b, c⟩ | ⟨a, b⟩
        · exact Or.inl ⟨by simp [a], b, c⟩
        · exact Or.inr ⟨by simp only [List.length_cons]; omega, b⟩

/-! ### goroutine ids: `GorKnown` from the lines alone -/

/-- the ids of the goroutines found so far -/
def ids (gs : List Goroutine) : List Nat := gs.map (·.id)

theorem modifyLast_ids {gs gs' : List Goroutine} {f : Goroutine → Goroutine}
    (h : modifyLast gs f = some gs') (hf : ∀ g, (f g).id = g.id) : ids gs' = ids gs := by
  unfold modifyLast at h
  split at h
  · simp at h
  · rename_i g rest hr
    simp only [Option.some.injEq] at h
    subst h
    have hg : gs = (g :: rest).reverse := by rw [← hr, List.reverse_reverse]
    rw [hg]
    simp [ids, hf]

theorem set_ids (gs : List Goroutine) (i : Nat) (h : i < gs.length) (g' : Goroutine)
    (hg : g'.id = gs[i].id) : ids (gs.set i g') = ids gs := by
  apply List.ext_getElem
  · simp [ids]
  · intro j h1 h2
    simp only [ids, List.getElem_map, List.getElem_set]
    split
    · rename_i hij; subst hij; exact hg
    · rfl

theorem set_setCreated_ids (gs : List Goroutine) (i : Nat) (h : i < gs.length) (f : PP.Stack → PP.Stack) :
    ids (gs.set i (setCreated gs[i] f)) = ids gs := set_ids gs i h _ rfl

theorem modifyAt_ids {gs gs' : List Goroutine} {i : Nat} {f : Goroutine → Goroutine}
    (h : modifyAt gs i f = some gs') (hf : ∀ g, (f g).id = g.id) : ids gs' = ids gs := by
  unfold modifyAt at h
  split at h
  · rename_i hi
    simp only [Option.some.injEq] at h
    subst h
    exact set_ids gs i hi _ (hf _)
  · simp at h

/-- what a consumed canonical line does to the ids: none is lost, and an operation header adds its own -/
def IdsStep (s s' : S) (k : Kind) (p : Payload) (b : Bool) : Prop :=
  ids s.gs ⊆ ids s'.gs ∧
  (b = true → k = .raceOp → p.op.2.2 ∈ ids s'.gs) ∧ (b = true → k = .racePrev → p.prev.2.2 ∈ ids s'.gs)

theorem curAppendCall_ids {s s' : S} {c : Call} (h : curAppendCall s c = .ok s') : ids s'.gs = ids s.gs := by
  unfold curAppendCall at h
  split at h
  · simp at h
  · rename_i gs hm
    simp only [Except.ok.injEq] at h
    subst h
    exact modifyLast_ids hm (fun g => rfl)

set_option hygiene false in
macro "ids_tac" hs:ident h:ident : tactic => `(tactic| (
  unfold scan at $h:ident
  cases ‹Kind› <;> simp [$hs:ident, canon, funcStep, createdStep, needLastCall, needCreated0] at $h:ident
  all_goals (repeat' (split at $h:ident))
  all_goals (try simp at $h:ident)
  all_goals (try obtain ⟨rfl, rfl, rfl⟩ := $h:ident)
  all_goals (try (simp_all [IdsStep, ids]; done))
  all_goals (first
    | (have h0 := ‹modifyLast _ _ = some _›; have hh := modifyLast_ids h0 (fun g => rfl); simp [IdsStep, hh]; done)
    | (have h0 := ‹modifyAt _ _ _ = some _›; have hh := modifyAt_ids h0 (fun g => rfl); simp [IdsStep, hh]; done)
    | (have h0 := ‹curAppendCall _ _ = .ok _›; have hh := curAppendCall_ids h0; simp [IdsStep, hh]; done)
    | skip)))

theorem ids_looking {s s' : S} {p : Payload} {k : Kind} {b e} (hs : s.st = .looking)
    (h : scan s (canon k p) = .ok (s', b, e)) : IdsStep s s' k p b := by
  ids_tac hs h

theorem ids_done {s s' : S} {p : Payload} {k : Kind} {b e} (hs : s.st = .done)
    (h : scan s (canon k p) = .ok (s', b, e)) : IdsStep s s' k p b := by
  ids_tac hs h

theorem ids_betweenRoutine {s s' : S} {p : Payload} {k : Kind} {b e} (hs : s.st = .betweenRoutine)
    (h : scan s (canon k p) = .ok (s', b, e)) : IdsStep s s' k p b := by
  ids_tac hs h

theorem ids_gotRoutineHeader {s s' : S} {p : Payload} {k : Kind} {b e} (hs : s.st = .gotRoutineHeader)
    (h : scan s (canon k p) = .ok (s', b, e)) : IdsStep s s' k p b := by
  ids_tac hs h

theorem ids_gotFunc {s s' : S} {p : Payload} {k : Kind} {b e} (hs : s.st = .gotFunc)
    (h : scan s (canon k p) = .ok (s', b, e)) : IdsStep s s' k p b := by
  ids_tac hs h

theorem ids_gotCreated {s s' : S} {p : Payload} {k : Kind} {b e} (hs : s.st = .gotCreated)
    (h : scan s (canon k p) = .ok (s', b, e)) : IdsStep s s' k p b := by
  ids_tac hs h

theorem ids_gotFileFunc {s s' : S} {p : Payload} {k : Kind} {b e} (hs : s.st = .gotFileFunc)
    (h : scan s (canon k p) = .ok (s', b, e)) : IdsStep s s' k p b := by
  ids_tac hs h

theorem ids_gotFileCreated {s s' : S} {p : Payload} {k : Kind} {b e} (hs : s.st = .gotFileCreated)
    (h : scan s (canon k p) = .ok (s', b, e)) : IdsStep s s' k p b := by
  ids_tac hs h

theorem ids_gotUnavail {s s' : S} {p : Payload} {k : Kind} {b e} (hs : s.st = .gotUnavail)
    (h : scan s (canon k p) = .ok (s', b, e)) : IdsStep s s' k p b := by
  ids_tac hs h

theorem ids_gotRaceHeader1 {s s' : S} {p : Payload} {k : Kind} {b e} (hs : s.st = .gotRaceHeader1)
    (h : scan s (canon k p) = .ok (s', b, e)) : IdsStep s s' k p b := by
  ids_tac hs h

theorem ids_gotRaceHeader2 {s s' : S} {p : Payload} {k : Kind} {b e} (hs : s.st = .gotRaceHeader2)
    (h : scan s (canon k p) = .ok (s', b, e)) : IdsStep s s' k p b := by
  ids_tac hs h

theorem ids_gotRaceOperationHeader {s s' : S} {p : Payload} {k : Kind} {b e} (hs : s.st = .gotRaceOperationHeader)
    (h : scan s (canon k p) = .ok (s', b, e)) : IdsStep s s' k p b := by
  ids_tac hs h

theorem ids_gotRaceOperationFunc {s s' : S} {p : Payload} {k : Kind} {b e} (hs : s.st = .gotRaceOperationFunc)
    (h : scan s (canon k p) = .ok (s', b, e)) : IdsStep s s' k p b := by
  ids_tac hs h

theorem ids_gotRaceOperationFile {s s' : S} {p : Payload} {k : Kind} {b e} (hs : s.st = .gotRaceOperationFile)
    (h : scan s (canon k p) = .ok (s', b, e)) : IdsStep s s' k p b := by
  ids_tac hs h

theorem ids_betweenRaceOperations {s s' : S} {p : Payload} {k : Kind} {b e} (hs : s.st = .betweenRaceOperations)
    (h : scan s (canon k p) = .ok (s', b, e)) : IdsStep s s' k p b := by
  ids_tac hs h

theorem ids_gotRaceGoroutineHeader {s s' : S} {p : Payload} {k : Kind} {b e} (hs : s.st = .gotRaceGoroutineHeader)
    (h : scan s (canon k p) = .ok (s', b, e)) : IdsStep s s' k p b := by
  ids_tac hs h

theorem ids_gotRaceGoroutineFunc {s s' : S} {p : Payload} {k : Kind} {b e} (hs : s.st = .gotRaceGoroutineFunc)
    (h : scan s (canon k p) = .ok (s', b, e)) : IdsStep s s' k p b := by
  ids_tac hs h
  all_goals (rename_i h1 _; simp [IdsStep, set_setCreated_ids _ _ h1])

theorem ids_gotRaceGoroutineFile {s s' : S} {p : Payload} {k : Kind} {b e} (hs : s.st = .gotRaceGoroutineFile)
    (h : scan s (canon k p) = .ok (s', b, e)) : IdsStep s s' k p b := by
  ids_tac hs h

theorem ids_betweenRaceGoroutines {s s' : S} {p : Payload} {k : Kind} {b e} (hs : s.st = .betweenRaceGoroutines)
    (h : scan s (canon k p) = .ok (s', b, e)) : IdsStep s s' k p b := by
  ids_tac hs h

/-- what a canonical line does to the ids, in every state -/
theorem ids_step {s s' : S} {l : Line} {k : Kind} {b e} (hk : l.isKind k)
    (h : scan s l = .ok (s', b, e)) : IdsStep s s' k (payloadOf l) b := by
  rw [isKind_canon hk] at h
  cases hs : s.st
  · exact ids_looking hs h
  · exact ids_done hs h
  · exact ids_betweenRoutine hs h
  · exact ids_gotRoutineHeader hs h
  · exact ids_gotFunc hs h
  · exact ids_gotCreated hs h
  · exact ids_gotFileFunc hs h
  · exact ids_gotFileCreated hs h
  · exact ids_gotUnavail hs h
  · exact ids_gotRaceHeader1 hs h
  · exact ids_gotRaceHeader2 hs h
  · exact ids_gotRaceOperationHeader hs h
  · exact ids_gotRaceOperationFunc hs h
  · exact ids_gotRaceOperationFile hs h
  · exact ids_betweenRaceOperations hs h
  · exact ids_gotRaceGoroutineHeader hs h
  · exact ids_gotRaceGoroutineFunc hs h
  · exact ids_gotRaceGoroutineFile hs h
  · exact ids_betweenRaceGoroutines hs h

/-- the goroutine ids a line declares (race operation headers) -/
def _root_.PP.Line.declared (l : Line) : List Nat :=
  (match l.raceOp with | some (.ok v) => [v.2.2] | _ => []) ++
  (match l.racePrev with | some (.ok v) => [v.2.2] | _ => [])

/-- every race goroutine header among `ls` names a goroutine declared by an earlier operation
header of `ls` (or one of `known`) -/
def IdsOK : List Nat → List Line → Prop
  | _, [] => True
  | known, l :: ls =>
    (∀ id stt, l.raceGor = some (some id, stt) → id ∈ known) ∧ IdsOK (known ++ l.declared) ls

theorem declared_subset {s s' : S} {l : Line} {k : Kind} {e} (hk : l.isKind k)
    (h : scan s l = .ok (s', true, e)) : l.declared ⊆ ids s'.gs := by
  obtain ⟨_, h2, h3⟩ := ids_step hk h
  have hl := isKind_canon hk
  intro id hid
  rw [hl] at hid
  simp only [Line.declared, canon, List.mem_append] at hid
  rcases hid with hid | hid
  · by_cases hkk : k = .raceOp
    · simp only [hkk, if_true, List.mem_singleton] at hid
      rw [hid]; exact h2 rfl hkk
    · simp [hkk] at hid
  · by_cases hkk : k = .racePrev
    · simp only [hkk, if_true, List.mem_singleton] at hid
      rw [hid]; exact h3 rfl hkk
    · simp [hkk] at hid

/-- being canonical from `s` follows from properties of the lines alone: their kinds, and
goroutine headers naming declared goroutines -/
theorem canonFrom_of_kinds_ids {s : S} {ls : List Line} {ks : List Kind} {known : List Nat}
    (h : Kinds ls ks) (hk : known ⊆ ids s.gs) (hi : IdsOK known ls) : CanonFrom s ls ks := by
  induction h generalizing s known with
  | nil => exact CanonFrom.nil s
  | @cons l k ls ks hkind _ ih =>
    obtain ⟨hi1, hi2⟩ := hi
    refine CanonFrom.cons hkind ?_ ?_
    · intro id stt hl
      have hmem := hk (hi1 id stt hl)
      simp only [ids, List.mem_map] at hmem
      obtain ⟨g, hg, hgid⟩ := hmem
      rw [List.findIdx?_isSome]
      exact List.any_eq_true.2 ⟨g, hg, by simp [hgid]⟩
    · intro s' e hsc
      apply ih _ hi2
      intro id hid
      simp only [List.mem_append] at hid
      rcases hid with hid | hid
      · exact (ids_step hkind hsc).1 (hk hid)
      · exact declared_subset hkind hsc hid

/-! ### checking concrete streams -/

/-- `GorKnown` as a computation -/
def gorKnownB (s : S) (l : Line) : Bool :=
  match l.raceGor with
  | some (some id, _) => (s.gs.findIdx? (fun g => g.id == id)).isSome
  | _ => true

theorem gorKnownB_sound {s : S} {l : Line} (h : gorKnownB s l = true) : GorKnown s l := by
  intro id stt hl
  simpa [gorKnownB, hl] using h

/-- `CanonB` as a computation, for checking concrete streams by `decide` -/
def canonBCheck : S → List Bytes → List Kind → Bool
  | _, [], [] => true
  | s, d :: ds, k :: ks =>
    decide ((classify s.pfx d).isKind k) && gorKnownB s (classify s.pfx d) &&
      (match scanBytes s d with
       | .ok (s', true, _) => canonBCheck s' ds ks
       | _ => true)
  | _, _, _ => false

theorem canonBCheck_sound {s : S} {ds : List Bytes} {ks : List Kind} (h : canonBCheck s ds ks = true) :
    CanonB s ds ks := by
  induction ds generalizing s ks with
  | nil =>
    cases ks with
    | nil => exact CanonB.nil s
    | cons k ks => simp [canonBCheck] at h
  | cons d ds ih =>
    cases ks with
    | nil => simp [canonBCheck] at h
    | cons k ks =>
      simp only [canonBCheck, Bool.and_eq_true, decide_eq_true_eq] at h
      obtain ⟨⟨h1, h2⟩, h3⟩ := h
      refine CanonB.cons h1 (gorKnownB_sound h2) ?_
      intro s' e hsc
      rw [hsc] at h3
      exact ih h3

/-- `Kinds` as a computation -/
def kindsB : List Line → List Kind → Bool
  | [], [] => true
  | l :: ls, k :: ks => decide (l.isKind k) && kindsB ls ks
  | _, _ => false

theorem kindsB_sound {ls : List Line} {ks : List Kind} (h : kindsB ls ks = true) : Kinds ls ks := by
  induction ls generalizing ks with
  | nil =>
    cases ks with
    | nil => exact Kinds.nil
    | cons k ks => simp [kindsB] at h
  | cons l ls ih =>
    cases ks with
    | nil => simp [kindsB] at h
    | cons k ks =>
      simp only [kindsB, Bool.and_eq_true, decide_eq_true_eq] at h
      exact Kinds.cons h.1 (ih h.2)

/-- `IdsOK` as a computation -/
def idsOKB : List Nat → List Line → Bool
  | _, [] => true
  | known, l :: ls =>
    (match l.raceGor with
     | some (some id, _) => known.contains id
     | _ => true) && idsOKB (known ++ l.declared) ls

theorem idsOKB_sound {known : List Nat} {ls : List Line} (h : idsOKB known ls = true) : IdsOK known ls := by
  induction ls generalizing known with
  | nil => trivial
  | cons l ls ih =>
    simp only [idsOKB, Bool.and_eq_true] at h
    refine ⟨?_, ih h.2⟩
    intro id stt hl
    have h1 := h.1
    rw [hl] at h1
    simpa using h1

end Spec
end PP
