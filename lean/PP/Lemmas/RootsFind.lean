import PP.Lemmas.RootsLemmas
/-
Soundness of `findRoots`: every root it records is explained by a file of the
dump and a probe of the file-system oracle that succeeded.
-/
namespace PP
open Bytes

/-! ### joining -/

theorem join_cons_ne (sep x : Bytes) {t : List Bytes} (h : t ≠ []) :
    Bytes.join sep (x :: t) = x ++ sep ++ Bytes.join sep t := by
  cases t with
  | nil => exact absurd rfl h
  | cons y ys => rfl

theorem join_append (sep : Bytes) {a b : List Bytes} (ha : a ≠ []) (hb : b ≠ []) :
    Bytes.join sep (a ++ b) = Bytes.join sep a ++ sep ++ Bytes.join sep b := by
  induction a with
  | nil => exact absurd rfl ha
  | cons x t ih =>
    cases t with
    | nil =>
      simp only [List.singleton_append]
      rw [join_cons_ne sep x hb]
      rfl
    | cons y ys =>
      have h1 : (y :: ys) ++ b ≠ [] := by simp
      rw [List.cons_append, join_cons_ne sep x h1, ih (by simp), join_cons_ne sep x (by simp)]
      simp [List.append_assoc]

/-- `parts[:i]` joined, `/`, `parts[i:]` joined is the whole path -/
theorem pathJoin_take_drop (parts : List Bytes) (i : Nat) (h1 : 0 < i) (h2 : i < parts.length) :
    pathJoin (parts.take i) ++ b!"/" ++ pathJoin (parts.drop i) = pathJoin parts := by
  have ha : parts.take i ≠ [] := by
    cases parts with
    | nil => simp at h2
    | cons x t =>
      cases i with
      | zero => omega
      | succ n => simp
  have hb : parts.drop i ≠ [] := by
    intro h
    rw [List.drop_eq_nil_iff] at h
    omega
  have := join_append b!"/" ha hb
  rw [List.take_append_drop] at this
  exact this.symm

/-! ### isRootedIn -/

theorem isRootedIn_spec {fs : FS} {root : Bytes} {parts : List Bytes}
    (h : isRootedIn fs root parts ≠ []) :
    ∃ i, 0 < i ∧ i < parts.length ∧
      fs.isFile (root ++ b!"/" ++ pathJoin (parts.drop i)) = true ∧
      isRootedIn fs root parts = pathJoin (parts.take i) ∧
      ∀ j, 0 < j → j < i → fs.isFile (root ++ b!"/" ++ pathJoin (parts.drop j)) = false := by
  unfold isRootedIn at h ⊢
  split at h
  · rename_i i hf
    have hm := List.mem_of_find?_eq_some hf
    have hp := List.find?_some hf
    simp only [List.mem_range'_1] at hm
    rw [pathJoin_pair] at hp
    refine ⟨i, by omega, by omega, hp, rfl, ?_⟩
    intro j hj1 hj2
    rw [List.find?_eq_some_iff_append] at hf
    obtain ⟨_, as, bs, e, hnot⟩ := hf
    -- j is in the range before i, hence in `as`
    have hjm : j ∈ List.range' 1 (parts.length - 1) := by
      simp only [List.mem_range'_1]; omega
    rw [e] at hjm
    simp only [List.mem_append, List.mem_cons] at hjm
    have hsorted : (List.range' 1 (parts.length - 1)).Pairwise (· < ·) := List.pairwise_lt_range'
    rw [e, List.pairwise_append] at hsorted
    rcases hjm with hjm | rfl | hjm
    · have := hnot j hjm
      rw [pathJoin_pair] at this
      simpa using this
    · omega
    · have := (List.pairwise_cons.mp hsorted.2.1).1 j hjm
      omega
  · exact absurd rfl h

/-! ### suffix test -/

/-- `strings.HasSuffix(r, suf)` makes `r[:len(r)-len(suf)]` a valid slice -/
theorem length_le_of_hasSuffix {r suf : Bytes} (h : hasSuffix r suf = true) : suf.length ≤ r.length := by
  simp only [hasSuffix, Bool.and_eq_true, decide_eq_true_eq] at h
  exact h.1

/-- `r[:len(r)-len(suf)] + suf == r` once `strings.HasSuffix(r, suf)` -/
theorem take_append_of_hasSuffix {r suf : Bytes} (h : hasSuffix r suf = true) :
    r.take (r.length - suf.length) ++ suf = r := by
  obtain ⟨a, rfl⟩ := hasSuffix_iff.mp h
  simp

theorem hasSuffix_nil_false {suf : Bytes} (h : suf ≠ []) : hasSuffix [] suf = false := by
  cases suf with
  | nil => exact absurd rfl h
  | cons x t => simp [hasSuffix]

/-- A root key `k` found by a probe under the local directory `loc`: `k ++ suf`
(`suf` is `/src` or `/pkg/mod`) is `parts[:i]` joined for a proper, non-empty
prefix of the parts of `f`, and `parts[i:]` joined is a file under `loc`. -/
def RootWitness (fs : FS) (f loc suf k : Bytes) : Prop :=
  ∃ i, 0 < i ∧ i < (splitPath f).length ∧ k ++ suf = pathJoin ((splitPath f).take i) ∧
    fs.isFile (loc ++ b!"/" ++ pathJoin ((splitPath f).drop i)) = true

/-- the key, the directory cut off, a `/` and the part found on disk make up the
normalised path -/
theorem RootWitness.prefix {fs : FS} {f loc suf k : Bytes} (h : RootWitness fs f loc suf k) :
    ∃ rel, pathJoin (splitPath f) = k ++ suf ++ b!"/" ++ rel ∧
      fs.isFile (loc ++ b!"/" ++ rel) = true := by
  obtain ⟨i, h1, h2, e, hf⟩ := h
  exact ⟨pathJoin ((splitPath f).drop i), by rw [e, pathJoin_take_drop _ i h1 h2], hf⟩

theorem rootWitness_of_isRootedIn {fs : FS} {f loc suf : Bytes} (hsuf : suf ≠ [])
    (h : hasSuffix (isRootedIn fs loc (splitPath f)) suf = true) :
    RootWitness fs f loc suf
      ((isRootedIn fs loc (splitPath f)).take ((isRootedIn fs loc (splitPath f)).length - suf.length)) := by
  have hne : isRootedIn fs loc (splitPath f) ≠ [] := by
    intro e
    rw [e, hasSuffix_nil_false hsuf] at h
    exact absurd h (by simp)
  obtain ⟨i, h1, h2, hfile, hr, _⟩ := isRootedIn_spec hne
  exact ⟨i, h1, h2, by rw [take_append_of_hasSuffix h, hr], hfile⟩

/-! ### the loop over the local GOPATHs -/

theorem srcDir_ne : srcDir ≠ [] := by decide
theorem pkgmodDir_ne : pkgmodDir ≠ [] := by decide

theorem findGopath_spec {fs : FS} {f : Bytes} {lgs : List Bytes} {k l : Bytes}
    (h : findGopath fs (splitPath f) lgs = .ok (some (k, l))) :
    l ∈ lgs ∧ (RootWitness fs f (l ++ srcDir) srcDir k ∨ RootWitness fs f (l ++ pkgmodDir) pkgmodDir k) := by
  induction lgs with
  | nil => simp [findGopath] at h
  | cons a t ih =>
    simp only [findGopath] at h
    split at h
    · rename_i h1
      split at h
      · cases h
      · simp only [Except.ok.injEq, Option.some.injEq, Prod.mk.injEq] at h
        obtain ⟨rfl, rfl⟩ := h
        exact ⟨List.mem_cons_self, Or.inl (rootWitness_of_isRootedIn srcDir_ne h1)⟩
    · split at h
      · rename_i h1
        split at h
        · cases h
        · simp only [Except.ok.injEq, Option.some.injEq, Prod.mk.injEq] at h
          obtain ⟨rfl, rfl⟩ := h
          exact ⟨List.mem_cons_self, Or.inr (rootWitness_of_isRootedIn pkgmodDir_ne h1)⟩
      · obtain ⟨hm, hw⟩ := ih h
        exact ⟨List.mem_cons_of_mem _ hm, hw⟩

/-- the slice expressions of the GOPATH loop are in range -/
theorem findGopath_ok (fs : FS) (parts lgs : List Bytes) : ∃ o, findGopath fs parts lgs = .ok o := by
  induction lgs with
  | nil => exact ⟨none, rfl⟩
  | cons a t ih =>
    simp only [findGopath]
    split
    · rename_i h1
      have := length_le_of_hasSuffix h1
      rw [if_neg (by omega)]
      exact ⟨_, rfl⟩
    · split
      · rename_i h1
        have := length_le_of_hasSuffix h1
        rw [if_neg (by omega)]
        exact ⟨_, rfl⟩
      · exact ih

/-! ### isGoModule -/

theorem isGoModuleGo_spec {fs : FS} {parts : List Bytes} {n : Nat} {cache cache' : List Bytes}
    {root m : Bytes} (h : isGoModuleGo fs parts n cache = (cache', root, m)) (hr : root ≠ []) :
    ∃ i b, 0 < i ∧ i ≤ n ∧ root = pathJoin (parts.take i) ∧
      fs.readFile (pathJoin [root, b!"go.mod"]) = some b ∧ reModule b = some m := by
  induction n generalizing cache with
  | zero =>
    simp only [isGoModuleGo, Prod.mk.injEq] at h
    exact absurd h.2.1.symm hr
  | succ i ih =>
    simp only [isGoModuleGo] at h
    split at h
    · simp only [Prod.mk.injEq] at h
      exact absurd h.2.1.symm hr
    · split at h
      · obtain ⟨j, b, h1, h2, h3⟩ := ih h
        exact ⟨j, b, h1, by omega, h3⟩
      · rename_i b hb
        split at h
        · rename_i m' hm
          simp only [Prod.mk.injEq] at h
          obtain ⟨_, rfl, rfl⟩ := h
          exact ⟨i + 1, b, by omega, Nat.le_refl _, rfl, hb, hm⟩
        · obtain ⟨j, b', h1, h2, h3⟩ := ih h
          exact ⟨j, b', h1, by omega, h3⟩

/-! ### the invariant of the loop of findRoots -/

def GopathOK (fs : FS) (lgs files : List Bytes) (kv : Bytes × Bytes) : Prop :=
  kv.2 ∈ lgs ∧ ∃ f ∈ files,
    RootWitness fs f (kv.2 ++ srcDir) srcDir kv.1 ∨ RootWitness fs f (kv.2 ++ pkgmodDir) pkgmodDir kv.1

def GomodOK (fs : FS) (files : List Bytes) (kv : Bytes × Bytes) : Prop :=
  ∃ f ∈ files,
    (∃ i b, 0 < i ∧ i < (splitPath f).length ∧ kv.1 = pathJoin ((splitPath f).take i) ∧
        fs.readFile (pathJoin [kv.1, b!"go.mod"]) = some b ∧ reModule b = some kv.2) ∨
    (fs.isFile f = true ∧ kv.1 = pathDir f ∧ kv.2 = b!"main")

structure Sound (fs : FS) (lg : Bytes) (lgs files : List Bytes) (g0 : Bytes) (st : RootsState) : Prop where
  goroot : st.goroot = g0 ∨ ∃ f ∈ files, RootWitness fs f (lg ++ srcDir) srcDir st.goroot
  gopaths : ∀ kv ∈ st.gopaths, GopathOK fs lgs files kv
  gomods : ∀ kv ∈ st.gomods, GomodOK fs files kv

theorem findModule_spec {fs : FS} {cache parts : List Bytes} (hr : (findModule fs cache parts).2.1 ≠ []) :
    ∃ i b, 0 < i ∧ i < parts.length ∧ (findModule fs cache parts).2.1 = pathJoin (parts.take i) ∧
      fs.readFile (pathJoin [(findModule fs cache parts).2.1, b!"go.mod"]) = some b ∧
      reModule b = some (findModule fs cache parts).2.2 := by
  unfold findModule at hr ⊢
  split
  · rename_i hlen
    simp only [hlen, if_true] at hr
    obtain ⟨i, b, h1, h2, h3, h4, h5⟩ :=
      isGoModuleGo_spec (fs := fs) (parts := parts.dropLast)
        (n := parts.dropLast.length) (cache := cache) rfl hr
    simp only [List.length_dropLast] at h2
    refine ⟨i, b, h1, by omega, ?_, h4, h5⟩
    show (isGoModuleGo fs parts.dropLast parts.dropLast.length cache).2.1 = _
    rw [h3, List.dropLast_eq_take, List.take_take]
    congr 2
    omega
  · rename_i hlen
    simp [hlen] at hr

theorem findRootsMod_sound {fs : FS} {lg : Bytes} {lgs files : List Bytes} {g0 f : Bytes} {st : RootsState}
    (hs : Sound fs lg lgs files g0 st) (hf : f ∈ files) :
    Sound fs lg lgs files g0 (findRootsMod fs st f (splitPath f)) := by
  unfold findRootsMod
  split
  · rename_i hroot
    refine ⟨hs.goroot, hs.gopaths, ?_⟩
    intro kv hkv
    rcases AMap.mem_insert hkv with rfl | hkv
    · obtain ⟨i, b, h1, h2, h3, h4, h5⟩ := findModule_spec (by simpa using hroot)
      exact ⟨f, hf, Or.inl ⟨i, b, h1, h2, h3, h4, h5⟩⟩
    · exact hs.gomods kv hkv
  · split
    · rename_i hfile
      refine ⟨hs.goroot, hs.gopaths, ?_⟩
      intro kv hkv
      rcases AMap.mem_insert hkv with rfl | hkv
      · exact ⟨f, hf, Or.inr ⟨hfile, rfl, rfl⟩⟩
      · exact hs.gomods kv hkv
    · exact ⟨hs.goroot, hs.gopaths, hs.gomods⟩

theorem findRootsDisk_sound {fs : FS} {lg : Bytes} {lgs files : List Bytes} {g0 f : Bytes} {st st' : RootsState}
    (hs : Sound fs lg lgs files g0 st) (hf : f ∈ files)
    (h : findRootsDisk fs lg lgs st f = .ok st') : Sound fs lg lgs files g0 st' := by
  unfold findRootsDisk at h
  split at h
  · rename_i hr
    split at h
    · cases h
    · cases h
      refine ⟨Or.inr ⟨f, hf, ?_⟩, hs.gopaths, hs.gomods⟩
      unfold gorootProbe at hr ⊢
      split at hr
      · simp only [*, if_true]
        exact rootWitness_of_isRootedIn srcDir_ne hr
      · rw [hasSuffix_nil_false srcDir_ne] at hr
        exact absurd hr (by simp)
  · split at h
    · cases h
    · rename_i k l hg
      cases h
      refine ⟨hs.goroot, ?_, hs.gomods⟩
      intro kv hkv
      rcases AMap.mem_insert hkv with rfl | hkv
      · obtain ⟨hm, hw⟩ := findGopath_spec hg
        exact ⟨hm, f, hf, hw⟩
      · exact hs.gopaths kv hkv
    · cases h
      exact findRootsMod_sound hs hf

theorem findRootsStep_sound {fs : FS} {lg : Bytes} {lgs files : List Bytes} {g0 f : Bytes} {st st' : RootsState}
    (hs : Sound fs lg lgs files g0 st) (hf : f ∈ files)
    (h : findRootsStep fs lg lgs st f = .ok st') : Sound fs lg lgs files g0 st' := by
  unfold findRootsStep at h
  split at h
  · cases h; exact hs
  · split at h
    · cases h; exact hs
    · split at h
      · cases h; exact hs
      · exact findRootsDisk_sound hs hf h

theorem findRootsLoop_sound {fs : FS} {lg : Bytes} {lgs files : List Bytes} {g0 : Bytes}
    (todo : List Bytes) (hsub : ∀ f ∈ todo, f ∈ files) {st st' : RootsState}
    (hs : Sound fs lg lgs files g0 st)
    (h : findRootsLoop fs lg lgs st todo = .ok st') : Sound fs lg lgs files g0 st' := by
  induction todo generalizing st with
  | nil => simp only [findRootsLoop, Except.ok.injEq] at h; exact h ▸ hs
  | cons f t ih =>
    simp only [findRootsLoop] at h
    split at h
    · cases h
    · rename_i st1 h1
      exact ih (fun x hx => hsub x (List.mem_cons_of_mem _ hx))
        (findRootsStep_sound hs (hsub f List.mem_cons_self) h1) h

/-! ### no slice out of range -/

theorem findRootsDisk_ok (fs : FS) (lg : Bytes) (lgs : List Bytes) (st : RootsState) (f : Bytes) :
    ∃ st', findRootsDisk fs lg lgs st f = .ok st' := by
  unfold findRootsDisk
  split
  · rename_i hr
    have := length_le_of_hasSuffix hr
    rw [if_neg (by omega)]
    exact ⟨_, rfl⟩
  · obtain ⟨o, ho⟩ := findGopath_ok fs (splitPath f) lgs
    rw [ho]
    cases o with
    | none => exact ⟨_, rfl⟩
    | some kl => exact ⟨_, rfl⟩

theorem findRootsStep_ok (fs : FS) (lg : Bytes) (lgs : List Bytes) (st : RootsState) (f : Bytes) :
    ∃ st', findRootsStep fs lg lgs st f = .ok st' := by
  unfold findRootsStep
  split
  · exact ⟨_, rfl⟩
  · split
    · exact ⟨_, rfl⟩
    · split
      · exact ⟨_, rfl⟩
      · exact findRootsDisk_ok fs lg lgs st f

theorem findRootsLoop_ok (fs : FS) (lg : Bytes) (lgs : List Bytes) (st : RootsState) (todo : List Bytes) :
    ∃ st', findRootsLoop fs lg lgs st todo = .ok st' := by
  induction todo generalizing st with
  | nil => exact ⟨st, rfl⟩
  | cons f t ih =>
    obtain ⟨st1, h1⟩ := findRootsStep_ok fs lg lgs st f
    simp only [findRootsLoop, h1]
    exact ih st1

/-! ### getFiles -/

theorem mem_insertUniq {a x : Bytes} {l : List Bytes} : x ∈ insertUniq a l ↔ x = a ∨ x ∈ l := by
  induction l with
  | nil => simp [insertUniq]
  | cons b t ih =>
    simp only [insertUniq]
    split
    · rename_i hab
      simp only [beq_iff_eq] at hab
      subst hab
      simp
    · split
      · simp
      · simp only [List.mem_cons, ih]
        constructor
        · rintro (h | h | h)
          · exact Or.inr (Or.inl h)
          · exact Or.inl h
          · exact Or.inr (Or.inr h)
        · rintro (h | h | h)
          · exact Or.inr (Or.inl h)
          · exact Or.inl h
          · exact Or.inr (Or.inr h)

theorem mem_foldr_insertUniq {x : Bytes} {l : List Bytes} : x ∈ l.foldr insertUniq [] ↔ x ∈ l := by
  induction l with
  | nil => simp
  | cons a t ih => simp [List.foldr, mem_insertUniq, ih]

/-- the files examined are exactly the source paths of the stack frames -/
theorem mem_getFiles {gs : List Goroutine} {f : Bytes} :
    f ∈ getFiles gs ↔ ∃ g ∈ gs, ∃ c ∈ g.sig.stack.calls, c.remoteSrcPath = f := by
  simp [getFiles, mem_foldr_insertUniq, List.mem_flatMap]

end PP
