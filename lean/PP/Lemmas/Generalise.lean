import PP.Lemmas.Greedy
/-
Lemmas for C12: the signature kept for a bucket generalises its members.

* scalar arguments flattened in `walk` order (`Arg.flat`, `Signature.flatArgs`);
  `merge` acts position-wise on the flattened lists (`mergeScalar`);
* `Gen k ms`: what the key `k` of a bucket says about the signatures `ms` of its
  members, in arrival order; it is established by a new bucket and kept by the
  two ways a goroutine joins a bucket (`equal`: key kept, otherwise `merge`);
* `GenInv`: the permutation-robust loop invariant, and its proof over `bucketLoop`.
-/
namespace PP

/-! ### flattened scalar arguments -/

/-- what is displayed for a scalar argument (the `inaccurate` flag is ignored) -/
structure Scalar where
  name : Bytes
  value : Nat
  isPtr : Bool
  otl : Bool
  deriving DecidableEq, Repr

mutual
/-- the scalar arguments below an argument, in `walk` order -/
def Arg.flat : Arg → List Scalar
  | .scalar n v p o _ => [⟨n, v, p, o⟩]
  | .agg fs _ => Arg.flatL fs
def Arg.flatL : List Arg → List Scalar
  | [] => []
  | a :: as => Arg.flat a ++ Arg.flatL as
end

/-- all scalar arguments of all calls of a stack, outermost list = frames -/
def callsFlat (cs : List Call) : List Scalar := cs.flatMap (fun c => Arg.flatL c.args.values)

/-- all scalar arguments of the stack of a signature -/
def Signature.flatArgs (s : Signature) : List Scalar :=
  s.stack.calls.flatMap (fun c => Arg.flatL c.args.values)

theorem Signature.flatArgs_eq (s : Signature) : s.flatArgs = callsFlat s.stack.calls := rfl

theorem callsFlat_cons (c : Call) (cs : List Call) :
    callsFlat (c :: cs) = Arg.flatL c.args.values ++ callsFlat cs := by
  simp [callsFlat]

/-- one position of `Args.merge`: kept when both sides agree, starred otherwise -/
def mergeScalar (x y : Scalar) : Scalar :=
  if x = y then x else ⟨star, x.value, x.isPtr, false⟩

/-! ### similar ⇒ same shape -/

mutual
theorem Arg.flat_length_of_similar (l : Lvl) :
    ∀ a b : Arg, Arg.similar l a b = true → (Arg.flat a).length = (Arg.flat b).length
  | .scalar .., .scalar .., _ => by simp [Arg.flat]
  | .agg fs e, .agg fs' e', hs => by
    simp only [Arg.similar, Bool.and_eq_true] at hs
    simpa [Arg.flat] using Arg.flatL_length_of_similarL l fs fs' hs.2
  | .scalar .., .agg .., hs => by cases l <;> simp [Arg.similar] at hs
  | .agg .., .scalar .., hs => by cases l <;> simp [Arg.similar] at hs
theorem Arg.flatL_length_of_similarL (l : Lvl) :
    ∀ as bs : List Arg, Arg.similarL l as bs = true → (Arg.flatL as).length = (Arg.flatL bs).length
  | [], [], _ => rfl
  | a :: as, b :: bs, hs => by
    simp only [Arg.similarL, Bool.and_eq_true] at hs
    simp only [Arg.flatL, List.length_append, Arg.flat_length_of_similar l a b hs.1,
      Arg.flatL_length_of_similarL l as bs hs.2]
  | [], _ :: _, hs => by simp [Arg.similarL] at hs
  | _ :: _, [], hs => by simp [Arg.similarL] at hs
end

theorem callsFlat_length_of_similar (l : Lvl) :
    ∀ as bs : List Call, callsSimilar l as bs = true → (callsFlat as).length = (callsFlat bs).length
  | [], [], _ => rfl
  | a :: as, b :: bs, hs => by
    simp only [callsSimilar, Call.similar, Args.similar, Bool.and_eq_true] at hs
    simp only [callsFlat_cons, List.length_append, Arg.flatL_length_of_similarL l _ _ hs.1.2.2,
      callsFlat_length_of_similar l as bs hs.2]
  | [], _ :: _, hs => by simp [callsSimilar] at hs
  | _ :: _, [], hs => by simp [callsSimilar] at hs

theorem Signature.flatArgs_length_of_similar (l : Lvl) (a b : Signature)
    (hs : Signature.similar l a b = true) : a.flatArgs.length = b.flatArgs.length := by
  simp only [Signature.similar, Stack.similar, Bool.and_eq_true] at hs
  exact callsFlat_length_of_similar l _ _ hs.2.2

/-! ### the exact levels compare every scalar -/

/-- the two levels at which arguments are compared exactly -/
def Lvl.exact (l : Lvl) : Prop := l = .exactFlags ∨ l = .exactLines

mutual
theorem Arg.flat_eq_of_exact {l : Lvl} (hl : l.exact) :
    ∀ a b : Arg, Arg.similar l a b = true → Arg.flat a = Arg.flat b
  | .scalar n v p o i, .scalar n' v' p' o' i', hs => by
    rcases hl with rfl | rfl <;> simp [Arg.similar] at hs <;> simp [Arg.flat, hs]
  | .agg fs e, .agg fs' e', hs => by
    simp only [Arg.similar, Bool.and_eq_true] at hs
    simpa [Arg.flat] using Arg.flatL_eq_of_exact hl fs fs' hs.2
  | .scalar .., .agg .., hs => by cases l <;> simp [Arg.similar] at hs
  | .agg .., .scalar .., hs => by cases l <;> simp [Arg.similar] at hs
theorem Arg.flatL_eq_of_exact {l : Lvl} (hl : l.exact) :
    ∀ as bs : List Arg, Arg.similarL l as bs = true → Arg.flatL as = Arg.flatL bs
  | [], [], _ => rfl
  | a :: as, b :: bs, hs => by
    simp only [Arg.similarL, Bool.and_eq_true] at hs
    simp only [Arg.flatL, Arg.flat_eq_of_exact hl a b hs.1, Arg.flatL_eq_of_exact hl as bs hs.2]
  | [], _ :: _, hs => by simp [Arg.similarL] at hs
  | _ :: _, [], hs => by simp [Arg.similarL] at hs
end

theorem callsFlat_eq_of_exact {l : Lvl} (hl : l.exact) :
    ∀ as bs : List Call, callsSimilar l as bs = true → callsFlat as = callsFlat bs
  | [], [], _ => rfl
  | a :: as, b :: bs, hs => by
    simp only [callsSimilar, Call.similar, Args.similar, Bool.and_eq_true] at hs
    simp only [callsFlat_cons, Arg.flatL_eq_of_exact hl _ _ hs.1.2.2,
      callsFlat_eq_of_exact hl as bs hs.2]
  | [], _ :: _, hs => by simp [callsSimilar] at hs
  | _ :: _, [], hs => by simp [callsSimilar] at hs

theorem Signature.flatArgs_eq_of_exact {l : Lvl} (hl : l.exact) (a b : Signature)
    (hs : Signature.similar l a b = true) : a.flatArgs = b.flatArgs := by
  simp only [Signature.similar, Stack.similar, Bool.and_eq_true] at hs
  exact callsFlat_eq_of_exact hl _ _ hs.2.2

/-- `Signature.equal`: no merge happens and every scalar of the newcomer is the key's -/
theorem Signature.flatArgs_eq_of_equal (a b : Signature) (h : Signature.equal a b = true) :
    a.flatArgs = b.flatArgs := by
  simp only [Signature.equal, Stack.equal, Stack.similar, Bool.and_eq_true] at h
  exact callsFlat_eq_of_exact (.inl rfl) _ _ h.2.2

/-! ### merge is position-wise on the flattened arguments -/

/-- `Arg.equal` on scalars is equality of what is displayed -/
theorem Arg.equal_scalar_iff (n : Bytes) (v : Nat) (p o i : Bool) (n' : Bytes) (v' : Nat)
    (p' o' i' : Bool) :
    Arg.equal (.scalar n v p o i) (.scalar n' v' p' o' i') = true ↔
      (⟨n, v, p, o⟩ : Scalar) = ⟨n', v', p', o'⟩ := by
  simp only [Arg.equal, Arg.similar, Bool.and_eq_true, beq_iff_eq, Scalar.mk.injEq]
  grind

mutual
theorem Arg.flat_merge (l : Lvl) : ∀ a b : Arg, Arg.similar l a b = true →
    Arg.flat (Arg.merge a b) = List.zipWith mergeScalar (Arg.flat a) (Arg.flat b)
  | .scalar n v p o i, .scalar n' v' p' o' i', _ => by
    simp only [Arg.merge]
    by_cases h : Arg.equal (.scalar n v p o i) (.scalar n' v' p' o' i') = true
    · rw [if_pos h]
      simp [Arg.flat, mergeScalar, (Arg.equal_scalar_iff ..).1 h]
    · rw [if_neg h]
      have h' : ¬ (⟨n, v, p, o⟩ : Scalar) = ⟨n', v', p', o'⟩ :=
        fun e => h ((Arg.equal_scalar_iff ..).2 e)
      simp only [Arg.flat, List.zipWith_cons_cons, List.zipWith_nil_left, mergeScalar, if_neg h']
  | .agg fs e, .agg fs' e', hs => by
    simp only [Arg.similar, Bool.and_eq_true] at hs
    simpa [Arg.flat, Arg.merge] using Arg.flatL_mergeL l fs fs' hs.2
  | .scalar .., .agg .., hs => by cases l <;> simp [Arg.similar] at hs
  | .agg .., .scalar .., hs => by cases l <;> simp [Arg.similar] at hs
theorem Arg.flatL_mergeL (l : Lvl) : ∀ as bs : List Arg, Arg.similarL l as bs = true →
    Arg.flatL (Arg.mergeL as bs) = List.zipWith mergeScalar (Arg.flatL as) (Arg.flatL bs)
  | [], [], _ => by simp [Arg.mergeL, Arg.flatL]
  | a :: as, b :: bs, hs => by
    simp only [Arg.similarL, Bool.and_eq_true] at hs
    simp only [Arg.mergeL, Arg.flatL]
    rw [List.zipWith_append (Arg.flat_length_of_similar l a b hs.1), Arg.flat_merge l a b hs.1,
      Arg.flatL_mergeL l as bs hs.2]
  | [], _ :: _, hs => by simp [Arg.similarL] at hs
  | _ :: _, [], hs => by simp [Arg.similarL] at hs
end

theorem callsFlat_merge (l : Lvl) : ∀ as bs : List Call, callsSimilar l as bs = true →
    callsFlat (callsMerge as bs) = List.zipWith mergeScalar (callsFlat as) (callsFlat bs)
  | [], [], _ => by simp [callsMerge, callsFlat]
  | a :: as, b :: bs, hs => by
    simp only [callsSimilar, Call.similar, Args.similar, Bool.and_eq_true] at hs
    simp only [callsMerge, callsFlat_cons]
    rw [List.zipWith_append (Arg.flatL_length_of_similarL l _ _ hs.1.2.2),
      ← Arg.flatL_mergeL l _ _ hs.1.2.2, callsFlat_merge l as bs hs.2]
    rfl
  | [], _ :: _, hs => by simp [callsSimilar] at hs
  | _ :: _, [], hs => by simp [callsSimilar] at hs

theorem Signature.flatArgs_merge (l : Lvl) (k r : Signature)
    (hs : Signature.similar l k r = true) :
    (Signature.merge k r).flatArgs = List.zipWith mergeScalar k.flatArgs r.flatArgs := by
  simp only [Signature.similar, Stack.similar, Bool.and_eq_true] at hs
  exact callsFlat_merge l _ _ hs.2.2

/-- one position of a merge: either both sides agree there and the position is kept, or
they differ and the position is starred -/
theorem mergeScalar_pos (xs ys : List Scalar) (hlen : xs.length = ys.length) (i : Nat) :
    ((List.zipWith mergeScalar xs ys)[i]? = xs[i]? ∧ ys[i]? = xs[i]?) ∨
    (((List.zipWith mergeScalar xs ys)[i]?).map Scalar.name = some star ∧ ys[i]? ≠ xs[i]?) := by
  rw [List.getElem?_zipWith]
  by_cases hi : i < xs.length
  · have hi' : i < ys.length := hlen ▸ hi
    rw [List.getElem?_eq_getElem hi, List.getElem?_eq_getElem hi']
    by_cases e : xs[i] = ys[i]
    · left; simp [mergeScalar, e]
    · right
      refine ⟨by simp [mergeScalar, e], ?_⟩
      intro e'
      exact e (Option.some.inj e').symm
  · have h1 : xs[i]? = none := List.getElem?_eq_none (by omega)
    have h2 : ys[i]? = none := List.getElem?_eq_none (by omega)
    left; simp [h1, h2]

/-! ### the call fields other than the arguments -/

/-- a call without its arguments -/
def Call.strip (c : Call) : Call := { c with args := {} }

theorem callsMerge_strip : ∀ as bs : List Call,
    (callsMerge as bs).map Call.strip = as.map Call.strip
  | [], _ => by simp [callsMerge]
  | _ :: _, [] => by simp [callsMerge]
  | a :: as, b :: bs => by
    simp only [callsMerge, List.map_cons, callsMerge_strip as bs]
    rfl

/-! ### what a key says about its members -/

/-- the key `k` generalises the member signatures `ms` (arrival order) -/
structure Gen (k : Signature) (ms : List Signature) : Prop where
  minLe : ∀ m ∈ ms, k.sleepMin ≤ m.sleepMin
  minAtt : ∃ m ∈ ms, m.sleepMin = k.sleepMin
  maxGe : ∀ m ∈ ms, m.sleepMax ≤ k.sleepMax
  maxAtt : ∃ m ∈ ms, m.sleepMax = k.sleepMax
  locked : k.locked = true ↔ ∃ m ∈ ms, m.locked = true
  first : ∃ m₀ rest, ms = m₀ :: rest ∧ k.state = m₀.state ∧ k.createdBy = m₀.createdBy ∧
    k.stack.elided = m₀.stack.elided ∧
    k.stack.calls.map Call.strip = m₀.stack.calls.map Call.strip
  len : ∀ m ∈ ms, m.flatArgs.length = k.flatArgs.length
  args : ∀ i : Nat, (∀ m ∈ ms, m.flatArgs[i]? = k.flatArgs[i]?) ∨
    ((k.flatArgs[i]?).map Scalar.name = some star ∧
      ∃ m ∈ ms, ∃ m' ∈ ms, m.flatArgs[i]? ≠ m'.flatArgs[i]?)

theorem Gen.single (s : Signature) : Gen s [s] where
  minLe := by simp
  minAtt := ⟨s, by simp, rfl⟩
  maxGe := by simp
  maxAtt := ⟨s, by simp, rfl⟩
  locked := by simp
  first := ⟨s, [], rfl, rfl, rfl, rfl, rfl⟩
  len := by simp
  args := fun i => .inl (by simp)

/-- the newcomer is `equal` to the key: the key is kept -/
theorem Gen.snoc_equal {k r : Signature} {ms : List Signature} (h : Gen k ms)
    (he : Signature.equal k r = true) : Gen k (ms ++ [r]) := by
  have hf : k.flatArgs = r.flatArgs := Signature.flatArgs_eq_of_equal k r he
  simp only [Signature.equal, Bool.and_eq_true, beq_iff_eq] at he
  obtain ⟨⟨⟨⟨_, hl⟩, hmin⟩, hmax⟩, _⟩ := he
  refine ⟨?_, ?_, ?_, ?_, ?_, ?_, ?_, ?_⟩
  · intro m hm
    simp only [List.mem_append, List.mem_singleton] at hm
    rcases hm with hm | rfl
    · exact h.minLe m hm
    · omega
  · obtain ⟨m, hm, e⟩ := h.minAtt
    exact ⟨m, by simp [hm], e⟩
  · intro m hm
    simp only [List.mem_append, List.mem_singleton] at hm
    rcases hm with hm | rfl
    · exact h.maxGe m hm
    · omega
  · obtain ⟨m, hm, e⟩ := h.maxAtt
    exact ⟨m, by simp [hm], e⟩
  · constructor
    · intro hk
      obtain ⟨m, hm, e⟩ := h.locked.1 hk
      exact ⟨m, by simp [hm], e⟩
    · rintro ⟨m, hm, e⟩
      simp only [List.mem_append, List.mem_singleton] at hm
      rcases hm with hm | rfl
      · exact h.locked.2 ⟨m, hm, e⟩
      · rw [hl]; exact e
  · obtain ⟨m₀, rest, e, h1, h2, h3, h4⟩ := h.first
    exact ⟨m₀, rest ++ [r], by simp [e], h1, h2, h3, h4⟩
  · intro m hm
    simp only [List.mem_append, List.mem_singleton] at hm
    rcases hm with hm | rfl
    · exact h.len m hm
    · rw [hf]
  · intro i
    rcases h.args i with hA | ⟨hs, m, hm, m', hm', hne⟩
    · left
      intro m hm
      simp only [List.mem_append, List.mem_singleton] at hm
      rcases hm with hm | rfl
      · exact hA m hm
      · rw [hf]
    · exact .inr ⟨hs, m, by simp [hm], m', by simp [hm'], hne⟩

/-- the newcomer is `similar` to the key: the key is merged with it -/
theorem Gen.snoc_merge {l : Lvl} {k r : Signature} {ms : List Signature} (h : Gen k ms)
    (hs : Signature.similar l k r = true) : Gen (Signature.merge k r) (ms ++ [r]) := by
  have hf := Signature.flatArgs_merge l k r hs
  have hlen := Signature.flatArgs_length_of_similar l k r hs
  have hmin : (Signature.merge k r).sleepMin = min k.sleepMin r.sleepMin := rfl
  have hmax : (Signature.merge k r).sleepMax = max k.sleepMax r.sleepMax := rfl
  refine ⟨?_, ?_, ?_, ?_, ?_, ?_, ?_, ?_⟩
  · intro m hm
    simp only [List.mem_append, List.mem_singleton] at hm
    rcases hm with hm | rfl
    · have := h.minLe m hm; omega
    · omega
  · rcases Nat.le_total k.sleepMin r.sleepMin with hle | hle
    · obtain ⟨m, hm, e⟩ := h.minAtt
      exact ⟨m, by simp [hm], by omega⟩
    · exact ⟨r, by simp, by omega⟩
  · intro m hm
    simp only [List.mem_append, List.mem_singleton] at hm
    rcases hm with hm | rfl
    · have := h.maxGe m hm; omega
    · omega
  · rcases Nat.le_total k.sleepMax r.sleepMax with hle | hle
    · exact ⟨r, by simp, by omega⟩
    · obtain ⟨m, hm, e⟩ := h.maxAtt
      exact ⟨m, by simp [hm], by omega⟩
  · simp only [Signature.merge, Bool.or_eq_true]
    constructor
    · rintro (hk | hr)
      · obtain ⟨m, hm, e⟩ := h.locked.1 hk
        exact ⟨m, by simp [hm], e⟩
      · exact ⟨r, by simp, hr⟩
    · rintro ⟨m, hm, e⟩
      simp only [List.mem_append, List.mem_singleton] at hm
      rcases hm with hm | rfl
      · exact .inl (h.locked.2 ⟨m, hm, e⟩)
      · exact .inr e
  · obtain ⟨m₀, rest, e, h1, h2, h3, h4⟩ := h.first
    refine ⟨m₀, rest ++ [r], by simp [e], h1, h2, h3, ?_⟩
    simp only [Signature.merge, Stack.merge, callsMerge_strip]
    exact h4
  · have hl' : (Signature.merge k r).flatArgs.length = k.flatArgs.length := by
      rw [hf, List.length_zipWith]; omega
    intro m hm
    simp only [List.mem_append, List.mem_singleton] at hm
    rcases hm with hm | rfl
    · rw [hl']; exact h.len m hm
    · rw [hl']; exact hlen.symm
  · intro i
    rw [hf]
    rcases mergeScalar_pos k.flatArgs r.flatArgs hlen i with ⟨hk, hr⟩ | ⟨hstar, hne⟩
    · rw [hk]
      rcases h.args i with hA | ⟨hs', m, hm, m', hm', hne⟩
      · left
        intro m hm
        simp only [List.mem_append, List.mem_singleton] at hm
        rcases hm with hm | rfl
        · exact hA m hm
        · exact hr
      · exact .inr ⟨hs', m, by simp [hm], m', by simp [hm'], hne⟩
    · right
      refine ⟨hstar, ?_⟩
      rcases h.args i with hA | ⟨_, m, hm, m', hm', hne'⟩
      · obtain ⟨m₀, rest, e, _⟩ := h.first
        have hm₀ : m₀ ∈ ms := by simp [e]
        refine ⟨r, by simp, m₀, by simp [hm₀], ?_⟩
        rw [hA m₀ hm₀]; exact hne
      · exact ⟨m, by simp [hm], m', by simp [hm'], hne'⟩

/-! ### members of a map entry and the loop invariant -/

/-- the goroutines of `seen` filed under entry `b`, in arrival order -/
def Bkt.members (b : Bkt) (seen : List Goroutine) : List Goroutine :=
  seen.filter (fun g => b.ids.contains g.id)

/-- the goroutines of `gs` listed in bucket `b`, in arrival order -/
def Bucket.members (b : Bucket) (gs : List Goroutine) : List Goroutine :=
  gs.filter (fun g => b.ids.contains g.id)

theorem toBucket_members (k : Bkt) (gs : List Goroutine) :
    k.toBucket.members gs = k.members gs := by
  apply List.filter_congr
  intro g _
  simp only [Bkt.toBucket]
  exact Bool.eq_iff_iff.2 (by simp [mem_sortNat])

theorem members_snoc_old (b : Bkt) (seen : List Goroutine) (g : Goroutine) (hfresh : g.id ∉ b.ids) :
    b.members (seen ++ [g]) = b.members seen := by
  simp [Bkt.members, List.filter_append, hfresh]

theorem members_upd (b : Bkt) (seen : List Goroutine) (g : Goroutine)
    (hnew : ∀ g' ∈ seen, g'.id ≠ g.id) :
    (b.upd g).members (seen ++ [g]) = b.members seen ++ [g] := by
  simp only [Bkt.members, List.filter_append, Bkt.upd]
  congr 1
  · apply List.filter_congr
    intro g' hg'
    exact Bool.eq_iff_iff.2 (by simp [hnew g' hg'])
  · simp

theorem members_new (i : Nat) (seen : List Goroutine) (g : Goroutine)
    (hnew : ∀ g' ∈ seen, g'.id ≠ g.id) : (Bkt.new i g).members (seen ++ [g]) = [g] := by
  simp only [Bkt.members, List.filter_append, Bkt.new]
  have : seen.filter (fun g' => [g.id].contains g'.id) = [] := by
    rw [List.filter_eq_nil_iff]
    intro g' hg'
    simp [hnew g' hg']
  rw [this]
  simp

/-- permutation-robust invariant of the loop: ids come from goroutines seen and every
key generalises the goroutines filed under it -/
def GenInv (bs : List Bkt) (seen : List Goroutine) : Prop :=
  ∀ b ∈ bs, (∀ i ∈ b.ids, ∃ g ∈ seen, g.id = i) ∧ Gen b.key ((b.members seen).map (·.sig))

theorem GenInv.perm {bs bs' : List Bkt} {seen : List Goroutine} (hp : bs'.Perm bs)
    (h : GenInv bs seen) : GenInv bs' seen := fun b hb => h b (hp.mem_iff.1 hb)

theorem upd_gen (l : Lvl) (b : Bkt) (g : Goroutine) (ms : List Signature) (h : Gen b.key ms)
    (hs : Signature.similar l b.key g.sig = true) : Gen (b.upd g).key (ms ++ [g.sig]) := by
  simp only [Bkt.upd]
  split
  · rename_i he; exact h.snoc_equal he
  · exact h.snoc_merge hs

theorem insertG_genInv (l : Lvl) (bs : List Bkt) (seen : List Goroutine) (i : Nat)
    (g : Goroutine) (hnew : ∀ g' ∈ seen, g'.id ≠ g.id) (h : GenInv bs seen) :
    GenInv (insertG l bs i g) (seen ++ [g]) := by
  have hfresh : ∀ c ∈ bs, g.id ∉ c.ids := by
    intro c hc hin
    obtain ⟨g', hg', e⟩ := (h c hc).1 _ hin
    exact hnew g' hg' e
  have hold : ∀ c ∈ bs, (∀ i ∈ c.ids, ∃ g' ∈ seen ++ [g], g'.id = i) ∧
      Gen c.key ((c.members (seen ++ [g])).map (·.sig)) := by
    intro c hc
    refine ⟨?_, ?_⟩
    · intro j hj
      obtain ⟨g', hg', e⟩ := (h c hc).1 j hj
      exact ⟨g', by simp [hg'], e⟩
    · rw [members_snoc_old c seen g (hfresh c hc)]
      exact (h c hc).2
  rcases insertG_mem_cases l bs i g with ⟨b, hb, hsim, hall, _, _⟩ | ⟨_, hi⟩
  · intro c hc
    rcases hall c hc with rfl | hc
    · refine ⟨?_, ?_⟩
      · intro j hj
        simp only [Bkt.upd, List.mem_append, List.mem_singleton] at hj
        rcases hj with hj | rfl
        · obtain ⟨g', hg', e⟩ := (h b hb).1 j hj
          exact ⟨g', by simp [hg'], e⟩
        · exact ⟨g, by simp, rfl⟩
      · rw [members_upd b seen g hnew, List.map_append]
        exact upd_gen l b g _ (h b hb).2 hsim
    · exact hold c hc
  · rw [hi]
    intro c hc
    simp only [List.mem_append, List.mem_singleton] at hc
    rcases hc with hc | rfl
    · exact hold c hc
    · refine ⟨?_, ?_⟩
      · intro j hj
        simp only [Bkt.new, List.mem_singleton] at hj
        exact ⟨g, by simp, hj.symm⟩
      · rw [members_new i seen g hnew]
        exact Gen.single g.sig

theorem bucketLoop_genInv {π : Oracle} (hπ : ValidOracle π) (l : Lvl) (gs : List Goroutine)
    (hnd : (gs.map (·.id)).Nodup) : GenInv (bucketLoop π l 0 [] gs) gs := by
  have := bucketLoop_induct hπ l
    (fun (bs : List Bkt) (seen : List Goroutine) =>
      (seen.map (fun g : Goroutine => g.id)).Nodup → GenInv bs seen)
    (fun bs bs' seen hp h hn => (h hn).perm hp)
    (fun bs seen i g h hn => by
      obtain ⟨hn', hnew⟩ := nodup_snoc_id hn
      exact insertG_genInv l bs seen i g hnew (h hn'))
    gs 0 [] [] (fun _ => by simp [GenInv])
  simpa using this hnd

/-- every bucket of `Aggregate` generalises its members -/
theorem bucket_gen {π : Oracle} (hπ : ValidOracle π) (l : Lvl) (gs : List Goroutine)
    (hnd : (gs.map (·.id)).Nodup) :
    ∀ b ∈ aggregateWith π l gs, Gen b.sig ((b.members gs).map (·.sig)) := by
  intro b hb
  obtain ⟨k, hk, rfl⟩ := (mem_aggregateWith hπ l gs b).1 hb
  rw [toBucket_members]
  exact (bucketLoop_genInv hπ l gs hnd k hk).2

theorem mem_members {b : Bucket} {gs : List Goroutine} {g : Goroutine} :
    g ∈ b.members gs ↔ g ∈ gs ∧ g.id ∈ b.ids := by
  simp [Bucket.members]

/-! ### what `similar` fixes frame by frame -/

theorem callsSimilar_length (l : Lvl) :
    ∀ as bs : List Call, callsSimilar l as bs = true → as.length = bs.length
  | [], [], _ => rfl
  | a :: as, b :: bs, hs => by
    simp only [callsSimilar, Bool.and_eq_true] at hs
    simp [callsSimilar_length l as bs hs.2]
  | [], _ :: _, hs => by simp [callsSimilar] at hs
  | _ :: _, [], hs => by simp [callsSimilar] at hs

theorem callsSimilar_getElem? (l : Lvl) :
    ∀ (as bs : List Call), callsSimilar l as bs = true → ∀ (i : Nat) (c c' : Call),
      as[i]? = some c → bs[i]? = some c' → Call.similar l c c' = true
  | [], [], _, i, c, c', h1, _ => by simp at h1
  | a :: as, b :: bs, hs, 0, c, c', h1, h2 => by
    simp only [callsSimilar, Bool.and_eq_true] at hs
    simp only [List.getElem?_cons_zero, Option.some.injEq] at h1 h2
    subst h1; subst h2
    exact hs.1
  | a :: as, b :: bs, hs, i + 1, c, c', h1, h2 => by
    simp only [callsSimilar, Bool.and_eq_true] at hs
    simp only [List.getElem?_cons_succ] at h1 h2
    exact callsSimilar_getElem? l as bs hs.2 i c c' h1 h2
  | [], _ :: _, hs, _, _, _, _, _ => by simp [callsSimilar] at hs
  | _ :: _, [], hs, _, _, _, _, _ => by simp [callsSimilar] at hs

/-- similar signatures have the same state, the same number of frames and, frame by frame,
the same function, source path, line and `elided` flag; their creators are similar -/
theorem Signature.similar_frames (l : Lvl) (a b : Signature)
    (hs : Signature.similar l a b = true) :
    a.state = b.state ∧ Stack.similar l a.createdBy b.createdBy = true ∧
    a.stack.elided = b.stack.elided ∧ a.stack.calls.length = b.stack.calls.length ∧
    ∀ (i : Nat) (c c' : Call), a.stack.calls[i]? = some c → b.stack.calls[i]? = some c' →
      c.fn.complete = c'.fn.complete ∧ c.remoteSrcPath = c'.remoteSrcPath ∧ c.line = c'.line ∧
        c.args.elided = c'.args.elided := by
  simp only [Signature.similar, Bool.and_eq_true, beq_iff_eq] at hs
  obtain ⟨⟨⟨hst, hcb⟩, _⟩, hstack⟩ := hs
  simp only [Stack.similar, Bool.and_eq_true, beq_iff_eq] at hstack
  refine ⟨hst, hcb, hstack.1, callsSimilar_length l _ _ hstack.2, ?_⟩
  intro i c c' h1 h2
  have := callsSimilar_getElem? l _ _ hstack.2 i c c' h1 h2
  simp only [Call.similar, Args.similar, Bool.and_eq_true, beq_iff_eq] at this
  exact ⟨this.1.1.2, this.1.2, this.1.1.1, this.2.1⟩

end PP
