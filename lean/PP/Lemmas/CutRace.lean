import PP.Lemmas.Cut
import PP.Lemmas.CutInv
/-
C10 for race-detector reports: how the loop of `scanL`, started inside a race report, may
change the goroutines that are already there.

In a race report the text of a goroutine is in two places: its operation section
(`Read at … by goroutine N:` + frames), which appends the goroutine and fills `sig.stack`, and,
later, its `Goroutine N (…) created at:` section, which fills `sig.state` and `sig.createdBy` of
the FIRST goroutine with id `N`.
-/
namespace PP

/-! ### the relations between a goroutine before and after -/

/-- `g'` is the same participant of the race as `g`: id, `first`, address, read/write kind and
the fields a race report never sets (`locked`, sleep) are equal.  `sig.stack`, `sig.state` and
`sig.createdBy` are arbitrary: this is what holds of the goroutine whose operation section is
being read. -/
structure RacePartial (g g' : Goroutine) : Prop where
  id : g'.id = g.id
  first : g'.first = g.first
  raceWrite : g'.raceWrite = g.raceWrite
  raceAddr : g'.raceAddr = g.raceAddr
  locked : g'.sig.locked = g.sig.locked
  sleepMin : g'.sig.sleepMin = g.sig.sleepMin
  sleepMax : g'.sig.sleepMax = g.sig.sleepMax

/-- `g'` extends `g` by (part of) a creation section: everything but `sig.state` and
`sig.createdBy` is equal — in particular the operation stack. -/
structure RaceExt (g g' : Goroutine) : Prop where
  id : g'.id = g.id
  first : g'.first = g.first
  raceWrite : g'.raceWrite = g.raceWrite
  raceAddr : g'.raceAddr = g.raceAddr
  locked : g'.sig.locked = g.sig.locked
  sleepMin : g'.sig.sleepMin = g.sig.sleepMin
  sleepMax : g'.sig.sleepMax = g.sig.sleepMax
  stack : g'.sig.stack = g.sig.stack

theorem RacePartial.refl (g : Goroutine) : RacePartial g g := ⟨rfl, rfl, rfl, rfl, rfl, rfl, rfl⟩
theorem RacePartial.trans {a b c : Goroutine} (h1 : RacePartial a b) (h2 : RacePartial b c) :
    RacePartial a c :=
  ⟨h2.id.trans h1.id, h2.first.trans h1.first, h2.raceWrite.trans h1.raceWrite,
   h2.raceAddr.trans h1.raceAddr, h2.locked.trans h1.locked, h2.sleepMin.trans h1.sleepMin,
   h2.sleepMax.trans h1.sleepMax⟩
theorem RacePartial.symm {a b : Goroutine} (h : RacePartial a b) : RacePartial b a :=
  ⟨h.id.symm, h.first.symm, h.raceWrite.symm, h.raceAddr.symm, h.locked.symm, h.sleepMin.symm,
   h.sleepMax.symm⟩

theorem RaceExt.refl (g : Goroutine) : RaceExt g g := ⟨rfl, rfl, rfl, rfl, rfl, rfl, rfl, rfl⟩
theorem RaceExt.trans {a b c : Goroutine} (h1 : RaceExt a b) (h2 : RaceExt b c) : RaceExt a c :=
  ⟨h2.id.trans h1.id, h2.first.trans h1.first, h2.raceWrite.trans h1.raceWrite,
   h2.raceAddr.trans h1.raceAddr, h2.locked.trans h1.locked, h2.sleepMin.trans h1.sleepMin,
   h2.sleepMax.trans h1.sleepMax, h2.stack.trans h1.stack⟩
/-- `RaceExt` is an equivalence: "equal up to `sig.state` and `sig.createdBy`" -/
theorem RaceExt.symm {a b : Goroutine} (h : RaceExt a b) : RaceExt b a :=
  ⟨h.id.symm, h.first.symm, h.raceWrite.symm, h.raceAddr.symm, h.locked.symm, h.sleepMin.symm,
   h.sleepMax.symm, h.stack.symm⟩
theorem RaceExt.partial {a b : Goroutine} (h : RaceExt a b) : RacePartial a b :=
  ⟨h.id, h.first, h.raceWrite, h.raceAddr, h.locked, h.sleepMin, h.sleepMax⟩

theorem RaceExt.of_eq {a b : Goroutine} (h : a = b) : RaceExt a b := h ▸ RaceExt.refl a

/-- what an operation section shows of a goroutine -/
def raceOpView (g : Goroutine) : Nat × Bool × Bool × Nat × Stack :=
  (g.id, g.first, g.raceWrite, g.raceAddr, g.sig.stack)

theorem RaceExt.opView {a b : Goroutine} (h : RaceExt a b) : raceOpView b = raceOpView a := by
  simp only [raceOpView, h.id, h.first, h.raceWrite, h.raceAddr, h.stack]

theorem raceExt_setCreated (g : Goroutine) (f : Stack → Stack) : RaceExt g (setCreated g f) :=
  ⟨rfl, rfl, rfl, rfl, rfl, rfl, rfl, rfl⟩
theorem raceExt_setState (g : Goroutine) (stt : Bytes) :
    RaceExt g { g with sig := { g.sig with state := stt } } := ⟨rfl, rfl, rfl, rfl, rfl, rfl, rfl, rfl⟩
theorem racePartial_setStack (g : Goroutine) (f : Stack → Stack) : RacePartial g (setStack g f) :=
  ⟨rfl, rfl, rfl, rfl, rfl, rfl, rfl⟩

/-- the stack `st'` continues `st`: every frame of `st` but the last one (whose file line may
not have been read yet) is a frame of `st'`, at the same position -/
structure StackGrows (st st' : Stack) : Prop where
  elided : st'.elided = st.elided
  len : st.calls.length ≤ st'.calls.length
  frames : st.calls.dropLast <+: st'.calls

theorem StackGrows.refl (st : Stack) : StackGrows st st :=
  ⟨rfl, Nat.le_refl _, List.dropLast_prefix _⟩

theorem StackGrows.of_eq {st st' : Stack} (h : st' = st) : StackGrows st st' := h ▸ StackGrows.refl st

theorem StackGrows.trans {a b c : Stack} (h1 : StackGrows a b) (h2 : StackGrows b c) :
    StackGrows a c := by
  refine ⟨h2.elided.trans h1.elided, Nat.le_trans h1.len h2.len, ?_⟩
  have hp : a.calls.dropLast <+: b.calls.dropLast :=
    List.prefix_of_prefix_length_le h1.frames (List.dropLast_prefix _) (by
      have := h1.len
      simp only [List.length_dropLast]; omega)
  exact hp.trans h2.frames

theorem stackGrows_append (st : Stack) (c : Call) :
    StackGrows st { st with calls := st.calls ++ [c] } :=
  ⟨rfl, by simp, (List.dropLast_prefix _).trans (List.prefix_append _ _)⟩

theorem initLast_snoc (pre : List Call) (c : Call) (pl : Bytes × Nat) :
    initLast (pre ++ [c]) pl = some (pre ++ [c.init pl.1 pl.2]) := by
  simp [initLast]

theorem stackGrows_initLast (st : Stack) (pl : Bytes × Nat) :
    StackGrows st { st with calls := (initLast st.calls pl).getD st.calls } := by
  by_cases h : st.calls = []
  · have : initLast st.calls pl = none := by rw [h]; rfl
    rw [this]
    exact StackGrows.refl st
  · obtain ⟨pre, c, hc⟩ : ∃ pre c, st.calls = pre ++ [c] :=
      ⟨st.calls.dropLast, st.calls.getLast h, (List.dropLast_concat_getLast h).symm⟩
    refine ⟨rfl, ?_, ?_⟩
    · show st.calls.length ≤ ((initLast st.calls pl).getD st.calls).length
      rw [hc, initLast_snoc]; simp
    · show st.calls.dropLast <+: (initLast st.calls pl).getD st.calls
      rw [hc, initLast_snoc]
      simp

/-! ### the parts of a race report -/

/-- inside an operation section: the last goroutine is being written -/
def St.isRaceOp (st : St) : Bool :=
  st == .gotRaceOperationHeader || st == .gotRaceOperationFunc || st == .gotRaceOperationFile
/-- inside a creation section: goroutine `gi` is being written -/
def St.isRaceCreW (st : St) : Bool :=
  st == .gotRaceGoroutineHeader || st == .gotRaceGoroutineFunc || st == .gotRaceGoroutineFile
/-- the creation part: all operation sections have been read -/
def St.isRaceCre (st : St) : Bool := st.isRaceCreW || st == .betweenRaceGoroutines
/-- after the two header lines of the report (`gotRaceOperationHeader` … `betweenRaceGoroutines`) -/
def St.isRaceBody (st : St) : Bool := decide (11 ≤ st.toNat)

/-- the number of leading goroutines whose operation section is complete -/
def raceFrozen (s : S) : Nat := if s.st.isRaceOp then s.gs.length - 1 else s.gs.length

/-- the index of the goroutine being written, if any -/
def raceWriting (s : S) : Option Nat :=
  if s.st.isRaceOp then some (s.gs.length - 1) else if s.st.isRaceCreW then some s.gi else none

/-! ### one step -/

/-- what one successful `scan` step does in the body of a race report (or in `done`) -/
inductive RStep (s : S) (l : Line) (s' : S) : Prop
  /-- nothing is written (rejected line, blank line after a section, closing separator) -/
  | same (hgs : s'.gs = s.gs) (hgi : s'.gi = s.gi)
      (hst : s'.st = s.st ∨ s'.st = .done ∨
        (s.st = .gotRaceOperationFile ∧ s'.st = .betweenRaceOperations) ∨
        (s.st = .gotRaceGoroutineFile ∧ s'.st = .betweenRaceGoroutines))
      (hpfx : s'.st ≠ .done → s'.pfx = s.pfx)
  /-- a frame line of an operation section: only the stack of the last goroutine changes -/
  | opWrite (h1 : s.st.isRaceOp = true) (h2 : s'.st.isRaceOp = true) (hgi : s'.gi = s.gi)
      (hpfx : s'.pfx = s.pfx) (pre : List Goroutine) (g : Goroutine) (f : Stack → Stack)
      (hf : ∀ st, StackGrows st (f st))
      (hgs : s.gs = pre ++ [g]) (hgs' : s'.gs = pre ++ [setStack g f])
  /-- `Previous read/write at …`: a goroutine is appended -/
  | opNew (h1 : s.st = .betweenRaceOperations) (h2 : s'.st = .gotRaceOperationHeader)
      (hpfx : s'.pfx = s.pfx) (g : Goroutine) (hgs' : s'.gs = s.gs ++ [g]) (hgi : s'.gi = s.gs.length)
  /-- `Goroutine N (state) created at:`: the state of a goroutine with id `N` is set -/
  | creHeader (h1 : s.st = .betweenRaceOperations ∨ s.st = .betweenRaceGoroutines)
      (h2 : s'.st = .gotRaceGoroutineHeader) (hpfx : s'.pfx = s.pfx) (id : Nat) (stt : Bytes)
      (hl : l.raceGor = some (some id, stt)) (hlt : s'.gi < s.gs.length) (hid : s.gs[s'.gi].id = id)
      (hgs' : s'.gs = s.gs.set s'.gi { s.gs[s'.gi] with sig := { s.gs[s'.gi].sig with state := stt } })
  /-- a frame line of a creation section: only `createdBy` of goroutine `gi` changes -/
  | creWrite (h1 : s.st.isRaceCreW = true) (h2 : s'.st.isRaceCreW = true) (hgi : s'.gi = s.gi)
      (hpfx : s'.pfx = s.pfx) (hlt : s.gi < s.gs.length) (f : Stack → Stack)
      (hgs' : s'.gs = s.gs.set s.gi (setCreated s.gs[s.gi] f))

/-- goal-directed form -/
def RaceOK (s : S) (l : Line) (r : R) : Prop := ∀ s' b e, r = .ok (s', b, e) → RStep s l s'

theorem raceOK_ok {s s' : S} {l : Line} {b : Bool} {e : Option Err} (h : RStep s l s') :
    RaceOK s l (.ok (s', b, e)) := by
  intro s1 b1 e1 h1
  simp only [Except.ok.injEq, Prod.mk.injEq] at h1
  obtain ⟨rfl, _, _⟩ := h1
  exact h

theorem raceOK_error {s : S} {l : Line} {p : Panic} : RaceOK s l (.error p) := by
  intro s1 b1 e1 h1
  cases h1

theorem rstep_self (s : S) (l : Line) : RStep s l s :=
  .same rfl rfl (Or.inl rfl) (fun _ => rfl)

theorem rstep_done (s : S) (l : Line) : RStep s l { s with st := .done, pfx := [] } :=
  .same rfl rfl (Or.inr (Or.inl rfl)) (fun h => absurd rfl h)

/-- peel the two leading `if`s of `scan` -/
macro "race_start" : tactic =>
  `(tactic| (unfold scan; split; (exact raceOK_ok (rstep_self _ _)); split;
             (exact raceOK_ok (rstep_done _ _)); dsimp only))

theorem funcStep_raceOK (st : St) (gs : List Goroutine) (gi : Nat) (pfx : Bytes) (l : Line)
    (r : Option (Call × Option Err)) (next : St) (orElse : R)
    (h1 : st.isRaceOp = true) (h2 : next.isRaceOp = true) (hor : RaceOK ⟨st, gs, gi, pfx⟩ l orElse) :
    RaceOK ⟨st, gs, gi, pfx⟩ l (funcStep ⟨st, gs, gi, pfx⟩ r next orElse) := by
  unfold funcStep
  split
  · rename_i c e
    unfold curAppendCall
    dsimp only
    cases hm : modifyLast gs (fun g => setStack g (fun st => { st with calls := st.calls ++ [c] })) with
    | none => exact raceOK_error
    | some gs' =>
      obtain ⟨pre, g, rfl, rfl⟩ := modifyLast_spec hm
      exact raceOK_ok (.opWrite h1 h2 rfl rfl pre g _ (fun st => stackGrows_append st c) rfl rfl)
  · exact hor

theorem scan_race_done (gs gi pfx) (l : Line) : RaceOK ⟨.done, gs, gi, pfx⟩ l (scan ⟨.done, gs, gi, pfx⟩ l) := by
  race_start
  exact raceOK_ok (rstep_self _ _)

theorem scan_race_opHeader (gs gi pfx) (l : Line) :
    RaceOK ⟨.gotRaceOperationHeader, gs, gi, pfx⟩ l (scan ⟨.gotRaceOperationHeader, gs, gi, pfx⟩ l) := by
  race_start
  exact funcStep_raceOK _ _ _ _ _ _ _ _ rfl rfl (raceOK_ok (rstep_self _ _))

theorem scan_race_opFunc (gs gi pfx) (l : Line) :
    RaceOK ⟨.gotRaceOperationFunc, gs, gi, pfx⟩ l (scan ⟨.gotRaceOperationFunc, gs, gi, pfx⟩ l) := by
  race_start
  split
  · exact raceOK_error
  · split
    · rename_i pl _
      split
      · exact raceOK_error
      · rename_i gs' hm
        obtain ⟨pre, g, rfl, rfl⟩ := modifyLast_spec hm
        exact raceOK_ok (.opWrite rfl rfl rfl rfl pre g _ (fun st => stackGrows_initLast st pl) rfl rfl)
    · exact raceOK_ok (rstep_self _ _)
    · exact raceOK_ok (rstep_self _ _)

theorem scan_race_opFile (gs gi pfx) (l : Line) :
    RaceOK ⟨.gotRaceOperationFile, gs, gi, pfx⟩ l (scan ⟨.gotRaceOperationFile, gs, gi, pfx⟩ l) := by
  race_start
  split
  · exact raceOK_ok (.same rfl rfl (Or.inr (Or.inr (Or.inl ⟨rfl, rfl⟩))) (fun _ => rfl))
  · exact funcStep_raceOK _ _ _ _ _ _ _ _ rfl rfl (raceOK_ok (rstep_self _ _))

/-- the `raceGor` part shared by the two `betweenRace…` states -/
theorem raceGor_raceOK (st : St) (gs : List Goroutine) (gi : Nat) (pfx : Bytes) (l : Line)
    (hst : st = .betweenRaceOperations ∨ st = .betweenRaceGoroutines) :
    RaceOK ⟨st, gs, gi, pfx⟩ l (match l.raceGor with
      | some (some id, stt) =>
        match gs.findIdx? (fun g => g.id == id) with
        | some i =>
          match modifyAt gs i (fun g => { g with sig := { g.sig with state := stt } }) with
          | some gs' => .ok (⟨.gotRaceGoroutineHeader, gs', i, pfx⟩, true, none)
          | none => .error .index
        | none => .ok (⟨st, gs, gi, pfx⟩, false, some .raceUnknownGoroutine)
      | some (none, _) => .ok (⟨st, gs, gi, pfx⟩, false, some .raceId)
      | none => .ok (⟨st, gs, gi, pfx⟩, false, some .raceOpOrGoroutine)) := by
  split
  · rename_i id stt hl
    split
    · rename_i i hi
      have hlt := findIdx?_lt hi
      rw [modifyAt_lt _ _ _ hlt]
      have hid : gs[i].id = id := by
        rw [List.findIdx?_eq_some_iff_getElem] at hi
        obtain ⟨_, h, _⟩ := hi
        simpa using h
      exact raceOK_ok (.creHeader hst rfl rfl id stt hl hlt hid rfl)
    · exact raceOK_ok (rstep_self _ _)
  · exact raceOK_ok (rstep_self _ _)
  · exact raceOK_ok (rstep_self _ _)

theorem scan_race_betweenOps (gs gi pfx) (l : Line) :
    RaceOK ⟨.betweenRaceOperations, gs, gi, pfx⟩ l (scan ⟨.betweenRaceOperations, gs, gi, pfx⟩ l) := by
  race_start
  simp only [beq_self_eq_true, if_true]
  split
  · rename_i r hr
    split at hr
    · cases hr
      exact raceOK_ok (.opNew rfl rfl rfl _ rfl rfl)
    · cases hr
      exact raceOK_ok (rstep_self _ _)
    · cases hr
  · exact raceGor_raceOK _ _ _ _ _ (Or.inl rfl)

theorem scan_race_betweenGors (gs gi pfx) (l : Line) :
    RaceOK ⟨.betweenRaceGoroutines, gs, gi, pfx⟩ l (scan ⟨.betweenRaceGoroutines, gs, gi, pfx⟩ l) := by
  race_start
  have : (St.betweenRaceGoroutines == St.betweenRaceOperations) = false := by decide
  simp only [this, Bool.false_eq_true, if_false]
  exact raceGor_raceOK _ _ _ _ _ (Or.inr rfl)

theorem scan_race_gorFunc (gs gi pfx) (l : Line) :
    RaceOK ⟨.gotRaceGoroutineFunc, gs, gi, pfx⟩ l (scan ⟨.gotRaceGoroutineFunc, gs, gi, pfx⟩ l) := by
  race_start
  split
  · rename_i hlt
    split
    · exact raceOK_error
    · split
      · exact raceOK_ok (.creWrite rfl rfl rfl rfl hlt _ rfl)
      · exact raceOK_ok (rstep_self _ _)
      · exact raceOK_ok (rstep_self _ _)
  · exact raceOK_error

/-- the `funcL` part shared by gotRaceGoroutineFile / gotRaceGoroutineHeader -/
theorem raceGorFunc_raceOK (st : St) (gs : List Goroutine) (gi : Nat) (pfx : Bytes) (l : Line)
    (hst : st.isRaceCreW = true) :
    RaceOK ⟨st, gs, gi, pfx⟩ l (match l.funcL with
      | some (c, e) =>
        match modifyAt gs gi (fun g => setCreated g (fun st => { st with calls := st.calls ++ [c] })) with
        | some gs' => .ok (⟨.gotRaceGoroutineFunc, gs', gi, pfx⟩, e.isNone, e)
        | none => .error .index
      | none => .ok (⟨st, gs, gi, pfx⟩, false, some .raceFuncOrFile)) := by
  split
  · by_cases hlt : gi < gs.length
    · rw [modifyAt_lt _ _ _ hlt]
      exact raceOK_ok (.creWrite hst rfl rfl rfl hlt _ rfl)
    · have : modifyAt gs gi (fun g => setCreated g (fun st => { st with calls := st.calls ++ [‹Call›] })) = none := by
        simp [modifyAt, hlt]
      rw [this]
      exact raceOK_error
  · exact raceOK_ok (rstep_self _ _)

theorem scan_race_gorFile (gs gi pfx) (l : Line) :
    RaceOK ⟨.gotRaceGoroutineFile, gs, gi, pfx⟩ l (scan ⟨.gotRaceGoroutineFile, gs, gi, pfx⟩ l) := by
  race_start
  split
  · exact raceOK_ok (.same rfl rfl (Or.inr (Or.inr (Or.inr ⟨rfl, rfl⟩))) (fun _ => rfl))
  · split
    · exact raceOK_ok (.same rfl rfl (Or.inr (Or.inl rfl)) (fun h => absurd rfl h))
    · exact raceGorFunc_raceOK _ _ _ _ _ rfl

theorem scan_race_gorHeader (gs gi pfx) (l : Line) :
    RaceOK ⟨.gotRaceGoroutineHeader, gs, gi, pfx⟩ l (scan ⟨.gotRaceGoroutineHeader, gs, gi, pfx⟩ l) := by
  race_start
  have : (St.gotRaceGoroutineHeader == St.gotRaceGoroutineFile) = false := by decide
  simp only [this, Bool.false_and, Bool.false_eq_true, if_false]
  exact raceGorFunc_raceOK _ _ _ _ _ rfl

/-- the one-step specification of `scan` in the body of a race report (and in `done`) -/
theorem scan_rstep {s s' : S} {l : Line} {b : Bool} {e : Option Err}
    (h : scan s l = .ok (s', b, e)) (hb : s.st.isRaceBody = true ∨ s.st = .done) : RStep s l s' := by
  obtain ⟨st, gs, gi, pfx⟩ := s
  have key : RaceOK ⟨st, gs, gi, pfx⟩ l (scan ⟨st, gs, gi, pfx⟩ l) := by
    cases st
    case done => exact scan_race_done _ _ _ _
    case gotRaceOperationHeader => exact scan_race_opHeader _ _ _ _
    case gotRaceOperationFunc => exact scan_race_opFunc _ _ _ _
    case gotRaceOperationFile => exact scan_race_opFile _ _ _ _
    case betweenRaceOperations => exact scan_race_betweenOps _ _ _ _
    case gotRaceGoroutineHeader => exact scan_race_gorHeader _ _ _ _
    case gotRaceGoroutineFunc => exact scan_race_gorFunc _ _ _ _
    case gotRaceGoroutineFile => exact scan_race_gorFile _ _ _ _
    case betweenRaceGoroutines => exact scan_race_betweenGors _ _ _ _
    all_goals (rcases hb with hb | hb <;> simp [St.isRaceBody, St.toNat] at hb)
  exact key s' b e h

/-! ### the relation one step establishes, closed under composition -/

/-- how the goroutine list of `s'` relates to that of an earlier state `s` of the same report -/
structure RaceRel (s s' : S) : Prop where
  len : s.gs.length ≤ s'.gs.length
  frozen : raceFrozen s ≤ raceFrozen s'
  part : ∀ (i : Nat) (g : Goroutine), s.gs[i]? = some g →
    ∃ g', s'.gs[i]? = some g' ∧ RacePartial g g' ∧ StackGrows g.sig.stack g'.sig.stack
  ext : ∀ (i : Nat) (g : Goroutine), s.gs[i]? = some g → i < raceFrozen s → ∃ g', s'.gs[i]? = some g' ∧ RaceExt g g'
  cre : (s.st.isRaceCre = true ∨ s.st = .done) →
    s'.gs.length = s.gs.length ∧ (s'.st.isRaceCre = true ∨ s'.st = .done)

theorem RaceRel.refl (s : S) : RaceRel s s :=
  ⟨Nat.le_refl _, Nat.le_refl _, fun _ g h => ⟨g, h, RacePartial.refl g, StackGrows.refl _⟩,
   fun _ g h _ => ⟨g, h, RaceExt.refl g⟩, fun h => ⟨rfl, h⟩⟩

theorem RaceRel.trans {a b c : S} (h1 : RaceRel a b) (h2 : RaceRel b c) : RaceRel a c := by
  refine ⟨Nat.le_trans h1.len h2.len, Nat.le_trans h1.frozen h2.frozen, ?_, ?_, ?_⟩
  · intro i g hg
    obtain ⟨g1, hg1, r1, w1⟩ := h1.part i g hg
    obtain ⟨g2, hg2, r2, w2⟩ := h2.part i g1 hg1
    exact ⟨g2, hg2, r1.trans r2, w1.trans w2⟩
  · intro i g hg hi
    obtain ⟨g1, hg1, r1⟩ := h1.ext i g hg hi
    obtain ⟨g2, hg2, r2⟩ := h2.ext i g1 hg1 (Nat.lt_of_lt_of_le hi h1.frozen)
    exact ⟨g2, hg2, r1.trans r2⟩
  · intro h
    obtain ⟨e1, k1⟩ := h1.cre h
    obtain ⟨e2, k2⟩ := h2.cre k1
    exact ⟨e2.trans e1, k2⟩

/-- the elements of `gs.set j g'` -/
theorem getElem?_set_ext (gs : List Goroutine) (j : Nat) (hj : j < gs.length) (g' : Goroutine)
    (hx : RaceExt gs[j] g') (i : Nat) (g : Goroutine) (hg : gs[i]? = some g) :
    ∃ g'', (gs.set j g')[i]? = some g'' ∧ RaceExt g g'' := by
  by_cases hij : j = i
  · subst hij
    have : g = gs[j] := by
      rw [List.getElem?_eq_getElem hj] at hg
      exact (Option.some.inj hg).symm
    subst this
    exact ⟨g', by rw [List.getElem?_set_self hj], hx⟩
  · exact ⟨g, by rw [List.getElem?_set_ne hij]; exact hg, RaceExt.refl g⟩

theorem isRaceOp_not_cre {st : St} (h : st.isRaceOp = true) : st.isRaceCre = false ∧ st ≠ .done := by
  cases st <;> simp [St.isRaceOp, St.isRaceCre, St.isRaceCreW] at h ⊢

theorem isRaceCreW_not_op {st : St} (h : st.isRaceCreW = true) : st.isRaceOp = false ∧ st.isRaceCre = true := by
  cases st <;> simp [St.isRaceOp, St.isRaceCre, St.isRaceCreW] at h ⊢

/-- a step that rewrites one goroutine up to `RaceExt` and ends outside an operation section -/
theorem raceRel_of_set (s s' : S) (j : Nat) (hj : j < s.gs.length) (g' : Goroutine)
    (hx : RaceExt s.gs[j] g') (hgs' : s'.gs = s.gs.set j g') (hop' : s'.st.isRaceOp = false)
    (hop : s.st.isRaceOp = false) (hcre : s'.st.isRaceCre = true) : RaceRel s s' := by
  have hlen : s'.gs.length = s.gs.length := by rw [hgs']; simp
  refine ⟨by omega, by simp only [raceFrozen, hop, hop', hlen]; exact Nat.le_refl _, ?_, ?_,
    fun _ => ⟨hlen, Or.inl hcre⟩⟩
  · intro i g hg
    obtain ⟨g'', h1, h2⟩ := getElem?_set_ext s.gs j hj g' hx i g hg
    exact ⟨g'', by rw [hgs']; exact h1, h2.partial, StackGrows.of_eq h2.stack⟩
  · intro i g hg _
    obtain ⟨g'', h1, h2⟩ := getElem?_set_ext s.gs j hj g' hx i g hg
    exact ⟨g'', by rw [hgs']; exact h1, h2⟩

theorem RStep.raceRel {s s' : S} {l : Line} (h : RStep s l s') : RaceRel s s' := by
  cases h with
  | same hgs hgi hst hpfx =>
    refine ⟨by rw [hgs]; exact Nat.le_refl _, ?_, fun i g hg => ⟨g, by rw [hgs]; exact hg, RacePartial.refl g, StackGrows.refl _⟩,
      fun i g hg _ => ⟨g, by rw [hgs]; exact hg, RaceExt.refl g⟩, fun hc => ⟨by rw [hgs], ?_⟩⟩
    · simp only [raceFrozen, hgs]
      rcases hst with hst | hst | ⟨h1, h2⟩ | ⟨h1, h2⟩
      · rw [hst]; exact Nat.le_refl _
      · rw [hst]
        have hd : St.isRaceOp .done = false := rfl
        simp only [hd, Bool.false_eq_true, if_false]
        split <;> omega
      · rw [h1, h2]; simp [St.isRaceOp]
      · rw [h1, h2]; simp [St.isRaceOp]
    · rcases hst with hst | hst | ⟨h1, h2⟩ | ⟨h1, h2⟩
      · rw [hst]; exact hc
      · exact Or.inr hst
      · rw [h1] at hc; simp [St.isRaceCre, St.isRaceCreW] at hc
      · rw [h2]; left; rfl
  | opWrite h1 h2 hgi hpfx pre g f hf hgs hgs' =>
    refine ⟨by rw [hgs, hgs']; simp, by simp [raceFrozen, h1, h2, hgs, hgs'], ?_, ?_, ?_⟩
    · intro i g0 hg
      rw [hgs] at hg; rw [hgs']
      by_cases hi : i < pre.length
      · rw [List.getElem?_append_left hi] at hg ⊢
        exact ⟨g0, hg, RacePartial.refl g0, StackGrows.refl _⟩
      · have hlt : i < (pre ++ [g]).length := (List.getElem?_eq_some_iff.mp hg).1
        have hi' : i = pre.length := by simp at hlt; omega
        subst hi'
        simp at hg
        subst hg
        exact ⟨setStack g f, by simp, racePartial_setStack g f, hf g.sig.stack⟩
    · intro i g0 hg hi
      simp only [raceFrozen, h1, if_true, hgs, List.length_append, List.length_cons, List.length_nil] at hi
      have hi : i < pre.length := by omega
      rw [hgs] at hg; rw [hgs']
      rw [List.getElem?_append_left hi] at hg ⊢
      exact ⟨g0, hg, RaceExt.refl g0⟩
    · intro hc
      have := isRaceOp_not_cre h1
      rcases hc with hc | hc
      · rw [this.1] at hc; cases hc
      · exact absurd hc this.2
  | opNew h1 h2 hpfx g hgs' hgi =>
    refine ⟨by rw [hgs']; simp, by simp [raceFrozen, h1, h2, hgs', St.isRaceOp], ?_, ?_, ?_⟩
    · intro i g0 hg
      have hlt : i < s.gs.length := (List.getElem?_eq_some_iff.mp hg).1
      exact ⟨g0, by rw [hgs', List.getElem?_append_left hlt]; exact hg, RacePartial.refl g0, StackGrows.refl _⟩
    · intro i g0 hg _
      have hlt : i < s.gs.length := (List.getElem?_eq_some_iff.mp hg).1
      exact ⟨g0, by rw [hgs', List.getElem?_append_left hlt]; exact hg, RaceExt.refl g0⟩
    · intro hc
      rw [h1] at hc
      simp [St.isRaceCre, St.isRaceCreW] at hc
  | creHeader h1 h2 hpfx id stt hl hlt hid hgs' =>
    refine raceRel_of_set s s' s'.gi hlt _ (raceExt_setState _ stt) hgs' (by rw [h2]; rfl) ?_ (by rw [h2]; rfl)
    rcases h1 with h1 | h1 <;> rw [h1] <;> rfl
  | creWrite h1 h2 hgi hpfx hlt f hgs' =>
    exact raceRel_of_set s s' s.gi hlt _ (raceExt_setCreated _ f) hgs' (isRaceCreW_not_op h2).1
      (isRaceCreW_not_op h1).1 (isRaceCreW_not_op h2).2

/-- the states of the body of a race report, and `done`, are closed under `scan` -/
theorem RStep.body {s s' : S} {l : Line} (h : RStep s l s')
    (hb : s.st.isRaceBody = true ∨ s.st = .done) : s'.st.isRaceBody = true ∨ s'.st = .done := by
  cases h with
  | same hgs hgi hst hpfx =>
    rcases hst with hst | hst | ⟨_, h2⟩ | ⟨_, h2⟩
    · rw [hst]; exact hb
    · exact Or.inr hst
    · rw [h2]; left; rfl
    · rw [h2]; left; rfl
  | opWrite h1 h2 =>
    left
    revert h2
    cases s'.st <;> simp [St.isRaceOp, St.isRaceBody, St.toNat]
  | opNew h1 h2 => rw [h2]; left; rfl
  | creHeader h1 h2 => rw [h2]; left; rfl
  | creWrite h1 h2 =>
    left
    revert h2
    cases s'.st <;> simp [St.isRaceCreW, St.isRaceBody, St.toNat]

/-- the loop of `scanL`, started in the body of a race report -/
theorem scanL_raceRel (s : S) (fwd : Bytes) (cons : List Bytes) (items : List (Bytes × Option RErr))
    (hb : s.st.isRaceBody = true ∨ s.st = .done) :
    ((scanL s fwd cons items).s.st.isRaceBody = true ∨ (scanL s fwd cons items).s.st = .done) ∧
    RaceRel s (scanL s fwd cons items).s :=
  scanL_state_induct (fun s => s.st.isRaceBody = true ∨ s.st = .done) RaceRel RaceRel.refl
    (fun _ _ _ h1 h2 => h1.trans h2)
    (fun _ _ _ _ _ hP hsc => ⟨(scan_rstep hsc hP).body hP, (scan_rstep hsc hP).raceRel⟩)
    s fwd cons items hb

theorem raceFrozen_of_not_op {s : S} (h : s.st.isRaceOp = false) : raceFrozen s = s.gs.length := by
  simp [raceFrozen, h]

theorem isRaceCre_not_op {st : St} (h : st.isRaceCre = true) : st.isRaceOp = false := by
  cases st <;> simp [St.isRaceOp, St.isRaceCre, St.isRaceCreW] at h ⊢

/-- in the creation part, what the operation sections said of every goroutine stays -/
theorem RaceRel.map_opView {s s' : S} (h : RaceRel s s') (hc : s.st.isRaceCre = true) :
    s'.gs.map raceOpView = s.gs.map raceOpView := by
  have hlen := (h.cre (Or.inl hc)).1
  have hf := raceFrozen_of_not_op (isRaceCre_not_op hc)
  apply List.ext_getElem?
  intro i
  rw [List.getElem?_map, List.getElem?_map]
  cases hg : s.gs[i]? with
  | none =>
    have : s.gs.length ≤ i := List.getElem?_eq_none_iff.mp hg
    rw [List.getElem?_eq_none_iff.mpr (by omega)]
  | some g =>
    have hlt : i < s.gs.length := (List.getElem?_eq_some_iff.mp hg).1
    obtain ⟨g', hg', hx⟩ := h.ext i g hg (by omega)
    rw [hg']
    simp only [Option.map_some, hx.opView]

/-! ### goroutines no later creation section names are not touched at all -/

/-- one step leaves every goroutine alone but the one being written and the one a creation
header selects -/
theorem RStep.untouched {s s' : S} {l : Line} (h : RStep s l s') (i : Nat) (hi : i < s.gs.length)
    (hw : raceWriting s ≠ some i) (hh : s'.st = .gotRaceGoroutineHeader → s'.gi ≠ i) :
    s'.gs[i]? = s.gs[i]? := by
  cases h with
  | same hgs => rw [hgs]
  | opWrite h1 h2 hgi hpfx pre g f hf hgs hgs' =>
    have : i < pre.length := by
      simp only [raceWriting, h1, if_true, hgs, List.length_append, List.length_cons,
        List.length_nil, Nat.add_sub_cancel, ne_eq, Option.some.injEq] at hw
      rw [hgs] at hi; simp at hi; omega
    rw [hgs, hgs', List.getElem?_append_left this, List.getElem?_append_left this]
  | opNew h1 h2 hpfx g hgs' => rw [hgs', List.getElem?_append_left hi]
  | creHeader h1 h2 hpfx id stt hl hlt hid hgs' =>
    rw [hgs', List.getElem?_set_ne (hh h2)]
  | creWrite h1 h2 hgi hpfx hlt f hgs' =>
    have hne : s.gi ≠ i := by
      have := (isRaceCreW_not_op h1).1
      simp only [raceWriting, this, Bool.false_eq_true, if_false, h1, if_true, ne_eq,
        Option.some.injEq] at hw
      exact hw
    rw [hgs', List.getElem?_set_ne hne]

/-- `scanL_state_induct` where the step hypothesis may use that the line is one of the items -/
theorem scanL_state_induct_mem (P : S → Prop) (items : List (Bytes × Option RErr))
    (hstep : ∀ s d s' l e1, d ∈ items.map (·.1) → P s → scanBytes s d = .ok (s', l, e1) → P s')
    (s : S) (fwd : Bytes) (cons : List Bytes) (hP : P s) : P (scanL s fwd cons items).s := by
  induction items generalizing s fwd cons with
  | nil => exact hP
  | cons x items ih =>
    obtain ⟨d, e⟩ := x
    have ih' := ih (fun s d s' l e1 hd => hstep s d s' l e1 (by simp only [List.map_cons]; exact List.mem_cons_of_mem _ hd))
    rw [scanL_cons]
    by_cases hd : (s.st == .done) = true
    · rw [if_pos hd]; exact hP
    · rw [if_neg hd]
      by_cases hlen : (d.length != 0) = true
      · rw [if_pos hlen]
        cases hsc : scanBytes s d with
        | error p => exact hP
        | ok v =>
          obtain ⟨s', l, e1⟩ := v
          have hP' := hstep s d s' l e1 (by simp) hP hsc
          dsimp only
          by_cases hl : (!l) = true
          · rw [if_pos hl]
            by_cases hlk : (s'.st != .looking) = true
            · rw [if_pos hlk]; exact hP'
            · rw [if_neg hlk]
              by_cases herr : (combineErr e e1).isSome = true
              · rw [if_pos herr]; exact hP'
              · rw [if_neg herr]; exact ih' _ _ _ hP'
          · rw [if_neg hl]
            by_cases herr : (combineErr e e1).isSome = true
            · rw [if_pos herr]; exact hP'
            · rw [if_neg herr]; exact ih' _ _ _ hP'
      · rw [if_neg hlen]
        cases e with
        | some r => exact hP
        | none => exact ih' s fwd cons hP

/-- the invariant of `scanL_race_untouched` -/
structure Untouched (pfx0 : Bytes) (i : Nat) (g : Goroutine) (s : S) : Prop where
  body : s.st.isRaceBody = true ∨ s.st = .done
  get : s.gs[i]? = some g
  frozen : i < raceFrozen s
  gi : s.st.isRaceCreW = true → s.gi ≠ i
  pfx : s.st ≠ .done → s.pfx = pfx0

theorem raceWriting_ne_of_untouched {pfx0 : Bytes} {i : Nat} {g : Goroutine} {s : S}
    (h : Untouched pfx0 i g s) : raceWriting s ≠ some i := by
  unfold raceWriting
  have hf := h.frozen
  unfold raceFrozen at hf
  by_cases hop : s.st.isRaceOp = true
  · rw [if_pos hop] at hf ⊢
    intro hc
    have := Option.some.inj hc
    omega
  · rw [if_neg hop]
    by_cases hcw : s.st.isRaceCreW = true
    · rw [if_pos hcw]
      intro hc
      exact h.gi hcw (Option.some.inj hc)
    · rw [if_neg hcw]; intro hc; cases hc

theorem Untouched.step {pfx0 : Bytes} {i : Nat} {g : Goroutine} {s s' : S} {l : Line}
    (h : Untouched pfx0 i g s) (hs : RStep s l s')
    (hl : s.st ≠ .done → ∀ stt, l.raceGor ≠ some (some g.id, stt)) : Untouched pfx0 i g s' := by
  have hlt : i < s.gs.length := (List.getElem?_eq_some_iff.mp h.get).1
  have hgi : s'.st = .gotRaceGoroutineHeader → s'.gi ≠ i := by
    intro hst
    cases hs with
    | same hgs hgi hst' hpfx =>
      have hcw : s.st.isRaceCreW = true := by
        rcases hst' with h1 | h1 | ⟨_, h1⟩ | ⟨_, h1⟩
        · rw [← h1, hst]; rfl
        · rw [hst] at h1; cases h1
        · rw [hst] at h1; cases h1
        · rw [hst] at h1; cases h1
      rw [hgi]; exact h.gi hcw
    | opWrite h1 h2 => rw [hst] at h2; cases h2
    | opNew h1 h2 => rw [hst] at h2; cases h2
    | creHeader h1 h2 hpfx id stt hl' hlt' hid hgs' =>
      intro hc
      have hgeq : s.gs[s'.gi] = g := by
        have := h.get
        rw [← hc, List.getElem?_eq_getElem hlt'] at this
        exact Option.some.inj this
      rw [hgeq] at hid
      have hnd : s.st ≠ .done := by
        rcases h1 with h1 | h1 <;> rw [h1] <;> intro hc <;> cases hc
      exact hl hnd stt (by rw [hl', hid])
    | creWrite h1 h2 hgi => rw [hgi]; exact h.gi h1
  have hget : s'.gs[i]? = some g := by
    rw [hs.untouched i hlt (raceWriting_ne_of_untouched h) hgi]; exact h.get
  refine ⟨hs.body h.body, hget, Nat.lt_of_lt_of_le h.frozen hs.raceRel.frozen, ?_, ?_⟩
  · intro hcw
    cases hs with
    | same hgs hgi' hst' hpfx =>
      rcases hst' with h1 | h1 | ⟨_, h1⟩ | ⟨_, h1⟩
      · rw [hgi']; exact h.gi (by rw [← h1]; exact hcw)
      · rw [h1] at hcw; cases hcw
      · rw [h1] at hcw; cases hcw
      · rw [h1] at hcw; cases hcw
    | opWrite h1 h2 => rw [(isRaceCreW_not_op hcw).1] at h2; cases h2
    | opNew h1 h2 => rw [h2] at hcw; cases hcw
    | creHeader h1 h2 => exact hgi h2
    | creWrite h1 h2 hgi' => rw [hgi']; exact h.gi h1
  · intro hnd
    cases hs with
    | same hgs hgi' hst' hpfx =>
      rw [hpfx hnd]
      apply h.pfx
      rcases hst' with h1 | h1 | ⟨h1, _⟩ | ⟨h1, _⟩
      · rw [← h1]; exact hnd
      · exact absurd h1 hnd
      · rw [h1]; intro hc; cases hc
      · rw [h1]; intro hc; cases hc
    | opWrite h1 h2 hgi' hpfx => rw [hpfx]; exact h.pfx (isRaceOp_not_cre h1).2
    | opNew h1 h2 hpfx => rw [hpfx]; apply h.pfx; rw [h1]; intro hc; cases hc
    | creHeader h1 h2 hpfx =>
      rw [hpfx]; apply h.pfx
      rcases h1 with h1 | h1 <;> rw [h1] <;> intro hc <;> cases hc
    | creWrite h1 h2 hgi' hpfx =>
      rw [hpfx]; apply h.pfx
      intro hc; rw [hc] at h1; cases h1

/-- Started in the body of a race report: a goroutine whose operation section is complete, which
is not the one a creation section is being read for, and whose id no line of the continuation
names in a `Goroutine N (…) created at:` header, is left as it is — entirely. -/
theorem scanL_race_untouched (s : S) (fwd : Bytes) (cons : List Bytes)
    (items : List (Bytes × Option RErr)) (i : Nat) (g : Goroutine)
    (hb : s.st.isRaceBody = true) (hg : s.gs[i]? = some g) (hf : i < raceFrozen s)
    (hgi : s.st.isRaceCreW = true → s.gi ≠ i)
    (hno : ∀ x ∈ items, ∀ stt, (classify s.pfx x.1).raceGor ≠ some (some g.id, stt)) :
    (scanL s fwd cons items).s.gs[i]? = some g := by
  have h0 : Untouched s.pfx i g s := ⟨Or.inl hb, hg, hf, hgi, fun _ => rfl⟩
  refine (scanL_state_induct_mem (Untouched s.pfx i g) items ?_ s fwd cons h0).get
  intro s1 d s2 l e1 hd hP hsc
  have hs := scan_rstep hsc hP.body
  refine hP.step hs ?_
  intro hdone
  unfold scanBytes at hsc
  rw [hP.pfx hdone]
  obtain ⟨x, hx, rfl⟩ := List.mem_map.mp hd
  exact hno x hx

/-! ### the cut run: at most one more step -/

/-- on the last item `(frag, some fin)` the loop makes at most one `scan` step -/
theorem scanL_last_step (s : S) (fwd : Bytes) (cons : List Bytes) (frag : Bytes) (fin : RErr) :
    (scanL s fwd cons [(frag, some fin)]).s = s ∨
    ∃ b e1, scanBytes s frag = .ok ((scanL s fwd cons [(frag, some fin)]).s, b, e1) := by
  rcases scanL_last s fwd cons frag fin with ⟨_, a2, _⟩ | ⟨_, _, _, b4⟩
  · exact Or.inl a2
  · rcases b4 with ⟨_, b, _⟩ | ⟨_, b, e1, hsc, _⟩
    · exact Or.inl b
    · exact Or.inr ⟨b, e1, hsc⟩

theorem scanL_last_len (s : S) (fwd : Bytes) (cons : List Bytes) (frag : Bytes) (fin : RErr) :
    (scanL s fwd cons [(frag, some fin)]).s.gs.length ≤ s.gs.length + 1 := by
  rcases scanL_last_step s fwd cons frag fin with h | ⟨b, e1, hsc⟩
  · rw [h]; omega
  · exact (scan_gsChange hsc).length_le.2

/-- in the body of a race report, the cut run leaves every goroutine alone but the one being
written and the one a cut creation header selects -/
theorem scanL_last_untouched (s : S) (fwd : Bytes) (cons : List Bytes) (frag : Bytes) (fin : RErr)
    (hb : s.st.isRaceBody = true) (i : Nat) (hi : i < s.gs.length) (hw : raceWriting s ≠ some i)
    (hh : (scanL s fwd cons [(frag, some fin)]).s.st = .gotRaceGoroutineHeader →
      (scanL s fwd cons [(frag, some fin)]).s.gi ≠ i) :
    (scanL s fwd cons [(frag, some fin)]).s.gs[i]? = s.gs[i]? := by
  rcases scanL_last_step s fwd cons frag fin with h | ⟨b, e1, hsc⟩
  · rw [h]
  · exact (scan_rstep hsc (Or.inl hb)).untouched i hi hw hh

/-- a decidable form of "this line is not a creation header naming `id`" -/
theorem raceGor_ne_of_map {r : Option (Option Nat × Bytes)} {id : Nat}
    (h : r.map (·.1) ≠ some (some id)) : ∀ stt, r ≠ some (some id, stt) := by
  intro stt hc
  rw [hc] at h
  exact h rfl

theorem isRace_not_body {st : St} (hr : st.isRace = true) (hb : ¬ st.isRaceBody = true) :
    st = .gotRaceHeader1 ∨ st = .gotRaceHeader2 := by
  cases st <;> simp [St.isRace, St.isRaceBody, St.toNat] at hr hb ⊢

theorem isRaceCre_body {st : St} (h : st.isRaceCre = true) : st.isRaceBody = true := by
  cases st <;> simp [St.isRaceCre, St.isRaceCreW, St.isRaceBody, St.toNat] at h ⊢

end PP
