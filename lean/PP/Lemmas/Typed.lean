import PP.Lemmas.Generalise
/-
C12, the typed rendering (`Args.Processed`, produced by source analysis): `Args.merge` does not
carry it over, so a bucket can only show one when its key was never merged, i.e. when the key
is the first member's signature verbatim and every later member was `equal` to it.
-/
namespace PP

/-- no call of the stack carries a typed rendering -/
def Signature.noTyped (k : Signature) : Prop := ∀ c ∈ k.stack.calls, c.args.processed = []

theorem callsMerge_noTyped (l : Lvl) : ∀ as bs : List Call, callsSimilar l as bs = true →
    ∀ c ∈ callsMerge as bs, c.args.processed = []
  | [], [], _ => by simp [callsMerge]
  | a :: as, b :: bs, h => by
    simp only [callsSimilar, Bool.and_eq_true] at h
    intro c hc
    simp only [callsMerge, List.mem_cons] at hc
    rcases hc with rfl | hc
    · rfl
    · exact callsMerge_noTyped l as bs h.2 c hc
  | [], _ :: _, h => by simp [callsSimilar] at h
  | _ :: _, [], h => by simp [callsSimilar] at h

theorem Signature.merge_noTyped (l : Lvl) (k r : Signature) (h : Signature.similar l k r = true) :
    (Signature.merge k r).noTyped := by
  simp only [Signature.similar, Stack.similar, Bool.and_eq_true] at h
  exact callsMerge_noTyped l _ _ h.2.2

/-- either the key is the first member verbatim and all later members are `equal` to it, or
the key shows no typed rendering at all -/
def TypedInv (k : Signature) (ms : List Signature) : Prop :=
  (∃ m₀ rest, ms = m₀ :: rest ∧ k = m₀ ∧ ∀ m ∈ rest, Signature.equal k m = true) ∨ k.noTyped

theorem TypedInv.single (s : Signature) : TypedInv s [s] :=
  .inl ⟨s, [], rfl, rfl, by simp⟩

theorem TypedInv.snoc_equal {k r : Signature} {ms : List Signature} (h : TypedInv k ms)
    (he : Signature.equal k r = true) : TypedInv k (ms ++ [r]) := by
  rcases h with ⟨m₀, rest, e, hk, hall⟩ | h
  · refine .inl ⟨m₀, rest ++ [r], by simp [e], hk, ?_⟩
    intro m hm
    simp only [List.mem_append, List.mem_singleton] at hm
    rcases hm with hm | rfl
    · exact hall m hm
    · exact he
  · exact .inr h

theorem TypedInv.snoc_merge {l : Lvl} {k r : Signature} {ms : List Signature}
    (hs : Signature.similar l k r = true) : TypedInv (Signature.merge k r) (ms ++ [r]) :=
  .inr (Signature.merge_noTyped l k r hs)

def TInv (bs : List Bkt) (seen : List Goroutine) : Prop :=
  ∀ b ∈ bs, TypedInv b.key ((b.members seen).map (·.sig))

theorem insertG_tInv (l : Lvl) (bs : List Bkt) (seen : List Goroutine) (i : Nat)
    (g : Goroutine) (hnew : ∀ g' ∈ seen, g'.id ≠ g.id) (hg : GenInv bs seen) (h : TInv bs seen) :
    TInv (insertG l bs i g) (seen ++ [g]) := by
  have hfresh : ∀ c ∈ bs, g.id ∉ c.ids := by
    intro c hc hin
    obtain ⟨g', hg', e⟩ := (hg c hc).1 _ hin
    exact hnew g' hg' e
  have hold : ∀ c ∈ bs, TypedInv c.key ((c.members (seen ++ [g])).map (·.sig)) := by
    intro c hc
    rw [members_snoc_old c seen g (hfresh c hc)]
    exact h c hc
  rcases insertG_mem_cases l bs i g with ⟨b, hb, hsim, hall, _, _⟩ | ⟨_, hi⟩
  · intro c hc
    rcases hall c hc with rfl | hc
    · rw [members_upd b seen g hnew, List.map_append]
      simp only [Bkt.upd]
      split
      · rename_i he; exact (h b hb).snoc_equal he
      · exact TypedInv.snoc_merge hsim
    · exact hold c hc
  · rw [hi]
    intro c hc
    simp only [List.mem_append, List.mem_singleton] at hc
    rcases hc with hc | rfl
    · exact hold c hc
    · rw [members_new i seen g hnew]
      exact TypedInv.single g.sig

theorem bucketLoop_tInv {π : Oracle} (hπ : ValidOracle π) (l : Lvl) (gs : List Goroutine)
    (hnd : (gs.map (·.id)).Nodup) : TInv (bucketLoop π l 0 [] gs) gs := by
  have := bucketLoop_induct hπ l
    (fun (bs : List Bkt) (seen : List Goroutine) =>
      (seen.map (fun g : Goroutine => g.id)).Nodup → GenInv bs seen ∧ TInv bs seen)
    (fun bs bs' seen hp h hn =>
      ⟨(h hn).1.perm hp, fun b hb => (h hn).2 b (hp.mem_iff.1 hb)⟩)
    (fun bs seen i g h hn => by
      obtain ⟨hn', hnew⟩ := nodup_snoc_id hn
      exact ⟨insertG_genInv l bs seen i g hnew (h hn').1,
        insertG_tInv l bs seen i g hnew (h hn').1 (h hn').2⟩)
    gs 0 [] [] (fun _ => ⟨by simp [GenInv], by simp [TInv]⟩)
  simpa using (this hnd).2

/-- every bucket of `Aggregate`: unmerged key, or no typed rendering -/
theorem bucket_typed {π : Oracle} (hπ : ValidOracle π) (l : Lvl) (gs : List Goroutine)
    (hnd : (gs.map (·.id)).Nodup) :
    ∀ b ∈ aggregateWith π l gs, TypedInv b.sig ((b.members gs).map (·.sig)) := by
  intro b hb
  obtain ⟨k, hk, rfl⟩ := (mem_aggregateWith hπ l gs b).1 hb
  rw [toBucket_members]
  exact bucketLoop_tInv hπ l gs hnd k hk

end PP
