import PP.Model.Re
/-
Stage 1 of C01: numbers and tokens.  Generic facts about the byte-string
primitives the matchers are made of (`hasPrefix`, `stripPrefix`, `span1`,
`hasSuffix`, `lastIndexByte`, `indexByte`, `splitOn`) and about the decimal and
hexadecimal renderings (`natToDec`, `natToHex`) against `atou` / `parseUint0`.
-/
namespace PP
open Bytes

/-! ### prefixes -/

theorem hasPrefix_append (p r : Bytes) : hasPrefix (p ++ r) p = true := by
  induction p with
  | nil => cases r <;> simp [hasPrefix]
  | cons a p ih => simp [hasPrefix, ih]

theorem hasPrefix_iff (s p : Bytes) : hasPrefix s p = true ↔ ∃ r, s = p ++ r := by
  constructor
  · intro h
    induction p generalizing s with
    | nil => exact ⟨s, rfl⟩
    | cons a p ih =>
      cases s with
      | nil => simp [hasPrefix] at h
      | cons b s =>
        simp [hasPrefix] at h
        obtain ⟨r, hr⟩ := ih s h.2
        exact ⟨r, by simp [h.1, hr]⟩
  · rintro ⟨r, rfl⟩
    exact hasPrefix_append p r

/-- the first byte decides -/
theorem hasPrefix_cons_ne (c d : UInt8) (s p : Bytes) (h : c ≠ d) : hasPrefix (c :: s) (d :: p) = false := by
  simp [hasPrefix, h]

theorem stripPrefix_append (p r : Bytes) : stripPrefix p (p ++ r) = some r := by
  simp [stripPrefix, hasPrefix_append]

theorem stripPrefix_eq_some {p s r : Bytes} (h : stripPrefix p s = some r) : s = p ++ r := by
  unfold stripPrefix at h
  split at h
  · rename_i hp
    obtain ⟨r', rfl⟩ := (hasPrefix_iff s p).1 hp
    simp at h
    simp [h]
  · simp at h

theorem stripPrefix_cons_ne (c d : UInt8) (s p : Bytes) (h : c ≠ d) : stripPrefix (d :: p) (c :: s) = none := by
  simp [stripPrefix, hasPrefix_cons_ne c d s p h]

/-! ### `span1` -/

theorem takeWhile_append_cons' (p : UInt8 → Bool) (a : Bytes) (c : UInt8) (rest : Bytes)
    (hall : a.all p = true) (hc : p c = false) : (a ++ c :: rest).takeWhile p = a := by
  induction a with
  | nil => simp [hc]
  | cons x a ih =>
    simp at hall
    simp [hall.1]
    apply ih
    simp; exact hall.2

theorem takeWhile_all (p : UInt8 → Bool) (a : Bytes)
    (hall : a.all p = true) : a.takeWhile p = a := by
  induction a with
  | nil => rfl
  | cons x a ih =>
    simp at hall
    simp [hall.1]
    apply ih
    simp; exact hall.2

theorem takeWhile_append_drop (p : UInt8 → Bool) (s : Bytes) :
    s.takeWhile p ++ s.drop (s.takeWhile p).length = s := by
  induction s with
  | nil => rfl
  | cons x s ih =>
    by_cases hx : p x = true
    · simp [hx, ih]
    · simp [hx]

theorem span1_append (p : UInt8 → Bool) (a : Bytes) (c : UInt8) (rest : Bytes)
    (ha : a ≠ []) (hall : a.all p = true) (hc : p c = false) :
    span1 p (a ++ c :: rest) = some (a, c :: rest) := by
  simp [span1, takeWhile_append_cons' p a c rest hall hc, ha]

theorem span1_all (p : UInt8 → Bool) (a : Bytes) (ha : a ≠ []) (hall : a.all p = true) :
    span1 p a = some (a, []) := by
  simp [span1, takeWhile_all p a hall, ha]

theorem span1_eq_some {p : UInt8 → Bool} {s a r : Bytes} (h : span1 p s = some (a, r)) :
    s = a ++ r ∧ a ≠ [] ∧ a.all p = true := by
  unfold span1 at h
  simp only at h
  split at h
  · simp at h
  · rename_i hne
    simp only [Option.some.injEq, Prod.mk.injEq] at h
    obtain ⟨h1, h2⟩ := h
    subst h1
    refine ⟨?_, ?_, ?_⟩
    · rw [← h2]; exact (takeWhile_append_drop p s).symm
    · simpa using hne
    · simp

theorem takeWhile_append_cons (p : UInt8 → Bool) (a : Bytes) (c : UInt8) (rest : Bytes)
    (hall : a.all p = true) (hc : p c = false) : (a ++ c :: rest).takeWhile p = a := by
  exact takeWhile_append_cons' p a c rest hall hc

/-! ### suffixes -/

theorem hasSuffix_append (a suf : Bytes) : hasSuffix (a ++ suf) suf = true := by
  simp [hasSuffix]

theorem hasSuffix_iff (s suf : Bytes) : hasSuffix s suf = true ↔ ∃ a, s = a ++ suf := by
  constructor
  · intro h
    simp only [hasSuffix, Bool.and_eq_true, decide_eq_true_eq, beq_iff_eq] at h
    refine ⟨s.take (s.length - suf.length), ?_⟩
    have := List.take_append_drop (s.length - suf.length) s
    rw [h.2] at this
    exact this.symm
  · rintro ⟨a, rfl⟩
    exact hasSuffix_append a suf

/-- a one-byte suffix is the last byte -/
theorem hasSuffix_singleton (s : Bytes) (c : UInt8) : hasSuffix s [c] = (s.getLast? == some c) := by
  rw [Bool.eq_iff_iff, hasSuffix_iff]
  simp only [beq_iff_eq]
  constructor
  · rintro ⟨a, rfl⟩
    simp
  · intro h
    rw [List.getLast?_eq_some_iff] at h
    exact h

/-! ### `lastIndexByte`, `indexByte` -/

theorem idxOf?_append_cons (a b : Bytes) (c : UInt8) (h : c ∉ a) :
    (a ++ c :: b).idxOf? c = some a.length := by
  induction a with
  | nil => simp [List.idxOf?_cons]
  | cons x a ih =>
    simp only [List.mem_cons, not_or] at h
    have hx : (x == c) = false := by simp; exact fun e => h.1 e.symm
    simp only [List.cons_append, List.idxOf?_cons, hx, ih h.2]
    simp

theorem idxOf?_eq_some {s : Bytes} {c : UInt8} {i : Nat} (h : s.idxOf? c = some i) :
    s = s.take i ++ c :: s.drop (i + 1) ∧ c ∉ s.take i ∧ i < s.length := by
  induction s generalizing i with
  | nil => simp at h
  | cons x s ih =>
    rw [List.idxOf?_cons] at h
    split at h
    · rename_i hx
      simp at hx h
      subst h; subst hx
      simp
    · rename_i hx
      simp at hx
      cases hs : List.idxOf? c s with
      | none => simp [hs] at h
      | some j =>
        simp [hs] at h
        subst h
        obtain ⟨h1, h2, h3⟩ := ih hs
        refine ⟨?_, ?_, ?_⟩
        · simp; exact h1
        · simp; exact ⟨fun e => hx e.symm, h2⟩
        · simp; exact h3

theorem lastIndexByte_append_cons (a b : Bytes) (c : UInt8) (h : c ∉ b) :
    lastIndexByte (a ++ c :: b) c = some a.length := by
  have h' : c ∉ b.reverse := by simpa using h
  have := idxOf?_append_cons b.reverse a.reverse c h'
  simp only [lastIndexByte, List.reverse_append, List.reverse_cons, List.append_assoc,
    List.singleton_append, this]
  simp

theorem lastIndexByte_none (s : Bytes) (c : UInt8) (h : c ∉ s) : lastIndexByte s c = none := by
  have h' : c ∉ s.reverse := by simpa using h
  simp [lastIndexByte, List.idxOf?_eq_none_iff.2 h']

theorem lastIndexByte_eq_some {s : Bytes} {c : UInt8} {i : Nat} (h : lastIndexByte s c = some i) :
    s = s.take i ++ c :: s.drop (i + 1) ∧ c ∉ s.drop (i + 1) ∧ i < s.length := by
  unfold lastIndexByte at h
  split at h
  · rename_i j hj
    simp at h
    obtain ⟨h1, h2, h3⟩ := idxOf?_eq_some hj
    simp at h3
    have h1' := congrArg List.reverse h1
    simp only [List.reverse_reverse, List.reverse_append, List.reverse_cons, List.append_assoc,
      List.singleton_append] at h1'
    have hlen : (List.drop (j + 1) s.reverse).reverse.length = i := by simp; omega
    have e1 : s.take i = (List.drop (j + 1) s.reverse).reverse := by
      conv => lhs; rw [h1']
      rw [← hlen, List.take_left]
    have e2 : s.drop (i+1) = (List.take j s.reverse).reverse := by
      conv => lhs; rw [h1']
      rw [← hlen]
      rw [List.drop_append]
      simp
    refine ⟨?_, ?_, by omega⟩
    · rw [e1, e2]; exact h1'
    · rw [e2]; simpa using h2
  · simp at h

theorem lastIndexByte_eq_none {s : Bytes} {c : UInt8} (h : lastIndexByte s c = none) : c ∉ s := by
  unfold lastIndexByte at h
  split at h
  · simp at h
  · rename_i h2
    have := List.idxOf?_eq_none_iff.1 h2
    simpa using this

theorem indexByte_append_cons (a b : Bytes) (c : UInt8) (h : c ∉ a) :
    indexByte (a ++ c :: b) c = some a.length := by
  exact idxOf?_append_cons a b c h

theorem indexByte_none (s : Bytes) (c : UInt8) (h : c ∉ s) : indexByte s c = none := by
  simp [indexByte, h]

/-! ### `splitOn` with the separator `", "` -/

/-- the string contains the two-byte sequence `", "` -/
def hasCS : Bytes → Bool
  | 44 :: 32 :: _ => true
  | _ :: t => hasCS t
  | [] => false

theorem hasCS_cons (c : UInt8) (t : Bytes) :
    hasCS (c :: t) = (hasPrefix (c :: t) [44, 32] || hasCS t) := by
  by_cases h : hasPrefix (c :: t) [44, 32] = true
  · obtain ⟨r, hr⟩ := (hasPrefix_iff _ _).1 h
    simp at hr
    obtain ⟨rfl, rfl⟩ := hr
    simp [hasCS, hasPrefix]
  · simp only [Bool.not_eq_true] at h
    rw [h, Bool.false_or]
    rw [hasCS.eq_2]
    intro tail h1 h2
    subst h1; subst h2
    simp [hasPrefix] at h

theorem splitOn_go_nil (sep : Bytes) (fuel : Nat) (cur : Bytes) :
    splitOn.go sep fuel [] cur = [cur.reverse] := by
  cases fuel <;> simp [splitOn.go]

theorem hasPrefix_CS_append (c : UInt8) (a r : Bytes) (h : hasPrefix (c :: a) [44, 32] = false)
    (hr : r = [] ∨ ∃ r', r = 44 :: r') : hasPrefix (c :: (a ++ r)) [44, 32] = false := by
  cases a with
  | nil =>
    rcases hr with rfl | ⟨r', rfl⟩
    · simp [hasPrefix]
    · simp [hasPrefix]
  | cons d a =>
    simp only [hasPrefix, Bool.and_true, List.cons_append] at h ⊢
    exact h

theorem splitOn_go_skip (a r cur : Bytes) (fuel : Nat) (ha : hasCS a = false)
    (hr : r = [] ∨ ∃ r', r = 44 :: r') :
    splitOn.go [44, 32] (fuel + a.length) (a ++ r) cur = splitOn.go [44, 32] fuel r (a.reverse ++ cur) := by
  induction a generalizing cur with
  | nil => simp
  | cons c a ih =>
    rw [hasCS_cons, Bool.or_eq_false_iff] at ha
    have hp := hasPrefix_CS_append c a r ha.1 hr
    have : fuel + (c :: a).length = (fuel + a.length) + 1 := by simp; omega
    rw [this, List.cons_append, splitOn.go]
    simp only [hp, Bool.false_eq_true, if_false]
    rw [ih _ ha.2]
    simp

theorem splitOn_go_join (toks : List Bytes) (hne : toks ≠ [])
    (h : ∀ t ∈ toks, hasCS t = false) (fuel : Nat) (hf : (join [44, 32] toks).length + 1 ≤ fuel) :
    splitOn.go [44, 32] fuel (join [44, 32] toks) [] = toks := by
  induction toks generalizing fuel with
  | nil => exact absurd rfl hne
  | cons x rest ih =>
    cases rest with
    | nil =>
      simp only [join] at hf ⊢
      obtain ⟨f', rfl⟩ : ∃ f', fuel = f' + x.length := ⟨fuel - x.length, by omega⟩
      have := splitOn_go_skip x [] [] f' (h x (by simp)) (Or.inl rfl)
      simp only [List.append_nil] at this
      rw [this, splitOn_go_nil]
      simp
    | cons y rest =>
      have hj : join [44, 32] (x :: y :: rest) = x ++ (44 :: 32 :: join [44, 32] (y :: rest)) := by
        simp [join]
      rw [hj] at hf ⊢
      simp only [List.length_append, List.length_cons] at hf
      obtain ⟨f', rfl⟩ : ∃ f', fuel = (f' + 1) + x.length := ⟨fuel - x.length - 1, by omega⟩
      rw [splitOn_go_skip x _ [] (f' + 1) (h x (by simp)) (Or.inr ⟨_, rfl⟩)]
      rw [splitOn.go]
      simp only [hasPrefix, BEq.rfl, Bool.and_true, if_true, List.append_nil, List.reverse_reverse]
      simp only [List.length_cons, List.length_nil, List.drop_succ_cons, List.drop_zero]
      rw [ih (by simp) (fun t ht => h t (by simp [ht])) f' (by omega)]

/-- splitting a `", "`-joined list of pieces none of which contains `", "` gives the pieces back -/
theorem splitOn_join_commaSpace (toks : List Bytes) (hne : toks ≠ [])
    (h : ∀ t ∈ toks, hasCS t = false) : splitOn (join [44, 32] toks) [44, 32] = toks := by
  exact splitOn_go_join toks hne h _ (Nat.le_refl _)

/-- a byte that does not occur: nothing to split -/
theorem hasCS_of_not_mem (s : Bytes) (h : (44 : UInt8) ∉ s) : hasCS s = false := by
  induction s with
  | nil => rfl
  | cons c s ih =>
    simp only [List.mem_cons, not_or] at h
    rw [hasCS_cons, ih h.2, hasPrefix_cons_ne c 44 s [32] (fun e => h.1 e.symm)]
    rfl

/-! ### decimal -/

/-- the byte of the digit character of `d` -/
def dbyte (d : Nat) : UInt8 := (Nat.digitChar d).toNat.toUInt8

theorem dbyte_dec (d : Nat) (h : d < 10) : isDigit (dbyte d) = true ∧ (dbyte d).toNat - 48 = d := by
  have : d = 0 ∨ d = 1 ∨ d = 2 ∨ d = 3 ∨ d = 4 ∨ d = 5 ∨ d = 6 ∨ d = 7 ∨ d = 8 ∨ d = 9 := by omega
  rcases this with rfl|rfl|rfl|rfl|rfl|rfl|rfl|rfl|rfl|rfl <;> decide

theorem natToDec_eq (n : Nat) :
    natToDec n = if n < 10 then [dbyte n] else natToDec (n / 10) ++ [dbyte (n % 10)] := by
  unfold natToDec
  rw [Nat.toDigits_eq_if (by decide : 1 < 10)]
  split <;> simp [dbyte]

theorem natToDec_ne_nil (n : Nat) : natToDec n ≠ [] := by
  simp [natToDec, Nat.toDigits_ne_nil]

theorem natToDec_all_digit (n : Nat) : (natToDec n).all isDigit = true := by
  induction n using Nat.strongRecOn with
  | _ n ih =>
    rw [natToDec_eq]
    split
    · rename_i h; simp [(dbyte_dec n h).1]
    · rename_i h
      have := ih (n / 10) (by omega)
      simp only [List.all_append, this, List.all_cons, List.all_nil, Bool.and_true, Bool.true_and]
      exact (dbyte_dec (n % 10) (by omega)).1

theorem natToDec_length_le (n k : Nat) (hk : 0 < k) (h : n < 10 ^ k) : (natToDec n).length ≤ k := by
  simp only [natToDec, List.length_map]
  exact (Nat.length_toDigits_le_iff (by decide) hk).2 h

theorem digitsVal_append_singleton (a : Bytes) (c : UInt8) :
    digitsVal (a ++ [c]) = digitsVal a * 10 + (c.toNat - 48) := by
  simp [digitsVal, List.foldl_append]

theorem digitsVal_natToDec (n : Nat) : digitsVal (natToDec n) = n := by
  induction n using Nat.strongRecOn with
  | _ n ih =>
    rw [natToDec_eq]
    split
    · rename_i h
      have := (dbyte_dec n h).2
      simp [digitsVal, this]
    · rename_i h
      rw [digitsVal_append_singleton, ih (n / 10) (by omega), (dbyte_dec (n % 10) (by omega)).2]
      omega

theorem atou_natToDec (n : Nat) (h : n < 10 ^ 18) : atou (natToDec n) = some n := by
  have h1 := natToDec_length_le n 18 (by decide) h
  have h2 : 0 < (natToDec n).length := List.length_pos_iff.2 (natToDec_ne_nil n)
  have h3 : (natToDec n).length < 19 := by omega
  simp [atou, h2, h3, natToDec_all_digit, digitsVal_natToDec]

/-- a byte that is not a digit does not occur in a decimal rendering -/
theorem not_mem_natToDec (n : Nat) (c : UInt8) (h : isDigit c = false) : c ∉ natToDec n := by
  intro hc
  have := List.all_eq_true.1 (natToDec_all_digit n) c hc
  rw [h] at this
  exact Bool.noConfusion this

/-! ### hexadecimal -/

/-- the digit value `parseUint0.go` assigns to a byte -/
def goDigit (c : UInt8) : Option Nat :=
  if isDigit c then some (c.toNat - 48)
  else if 97 ≤ lower c && lower c ≤ 122 then some ((lower c).toNat - 97 + 10)
  else none

theorem dbyte_hex (d : Nat) (h : d < 16) :
    isLowerHex (dbyte d) = true ∧ (dbyte d == 95) = false ∧ goDigit (dbyte d) = some d := by
  have : d = 0 ∨ d = 1 ∨ d = 2 ∨ d = 3 ∨ d = 4 ∨ d = 5 ∨ d = 6 ∨ d = 7 ∨ d = 8 ∨ d = 9 ∨
      d = 10 ∨ d = 11 ∨ d = 12 ∨ d = 13 ∨ d = 14 ∨ d = 15 := by omega
  rcases this with rfl|rfl|rfl|rfl|rfl|rfl|rfl|rfl|rfl|rfl|rfl|rfl|rfl|rfl|rfl|rfl <;> decide

theorem natToHex_eq (n : Nat) :
    natToHex n = if n < 16 then [dbyte n] else natToHex (n / 16) ++ [dbyte (n % 16)] := by
  unfold natToHex
  rw [Nat.toDigits_eq_if (by decide : 1 < 16)]
  split <;> simp [dbyte]

theorem natToHex_ne_nil (n : Nat) : natToHex n ≠ [] := by
  simp [natToHex, Nat.toDigits_ne_nil]

theorem natToHex_all_lowerHex (n : Nat) : (natToHex n).all isLowerHex = true := by
  induction n using Nat.strongRecOn with
  | _ n ih =>
    rw [natToHex_eq]
    split
    · rename_i h; simp [(dbyte_hex n h).1]
    · rename_i h
      have := ih (n / 16) (by omega)
      simp only [List.all_append, this, List.all_cons, List.all_nil, Bool.and_true, Bool.true_and]
      exact (dbyte_hex (n % 16) (by omega)).1

theorem not_mem_natToHex (n : Nat) (c : UInt8) (h : isLowerHex c = false) : c ∉ natToHex n := by
  intro hc
  have := List.all_eq_true.1 (natToHex_all_lowerHex n) c hc
  rw [h] at this
  exact Bool.noConfusion this

theorem parseUint0_go_cons (b n : Nat) (us : Bool) (c : UInt8) (t : Bytes) :
    parseUint0.go b n us (c :: t) =
      if c == 95 then parseUint0.go b n true t
      else match goDigit c with
        | none => none
        | some d => if d ≥ b then none else if n * b + d ≥ 2 ^ 64 then none
                    else parseUint0.go b (n * b + d) us t := by
  rw [parseUint0.go]; rfl

theorem parseUint0_go_append (b : Nat) (a t : Bytes) (n : Nat) (us : Bool) :
    parseUint0.go b n us (a ++ t) =
      match parseUint0.go b n us a with
      | none => none
      | some (n', us') => parseUint0.go b n' us' t := by
  induction a generalizing n us with
  | nil => simp [parseUint0.go]
  | cons c a ih =>
    rw [List.cons_append, parseUint0_go_cons, parseUint0_go_cons]
    by_cases h95 : (c == 95) = true
    · simp only [h95, if_true]; exact ih _ _
    · simp only [h95, Bool.false_eq_true, if_false]
      cases goDigit c with
      | none => rfl
      | some d =>
        simp only
        by_cases h1 : d ≥ b
        · simp only [h1, if_true]
        · simp only [h1, if_false]
          by_cases h2 : n * b + d ≥ 2 ^ 64
          · simp only [h2, if_true]
          · simp only [h2, if_false]; exact ih _ _

theorem parseUint0_go_single (n d : Nat) (hd : d < 16) (h : n * 16 + d < 2 ^ 64) :
    parseUint0.go 16 n false [dbyte d] = some (n * 16 + d, false) := by
  obtain ⟨_, h2, h3⟩ := dbyte_hex d hd
  rw [parseUint0_go_cons, h2, h3]
  have h1 : ¬ d ≥ 16 := by omega
  have h4 : ¬ n * 16 + d ≥ 2 ^ 64 := by omega
  simp only [Bool.false_eq_true, if_false, h1, h4, parseUint0.go]

theorem parseUint0_go_natToHex (n : Nat) (h : n < 2 ^ 64) :
    parseUint0.go 16 0 false (natToHex n) = some (n, false) := by
  induction n using Nat.strongRecOn with
  | _ n ih =>
    rw [natToHex_eq]
    split
    · rename_i hn
      have := parseUint0_go_single 0 n hn (by omega)
      simpa using this
    · rename_i hn
      rw [parseUint0_go_append, ih (n / 16) (by omega) (by omega)]
      simp only
      rw [parseUint0_go_single (n / 16) (n % 16) (by omega) (by omega)]
      congr 2
      omega

theorem parseUint0_go_zeros (k : Nat) (t : Bytes) :
    parseUint0.go 16 0 false (List.replicate k 48 ++ t) = parseUint0.go 16 0 false t := by
  induction k with
  | zero => simp
  | succ k ih =>
    rw [List.replicate_succ, List.cons_append, parseUint0_go_cons]
    have h1 : ((48 : UInt8) == 95) = false := by decide
    have h2 : goDigit 48 = some 0 := by decide
    rw [h1, h2]
    simpa using ih

/-- `strconv.ParseUint("0x" + hex(n), 0, 64) = n`, also with leading zeros (`%012x`) -/
theorem parseUint0_hex_padded (k n : Nat) (h : n < 2 ^ 64) :
    parseUint0 (b!"0x" ++ (List.replicate k 48 ++ natToHex n)) = some n := by
  have hgo := parseUint0_go_zeros k (natToHex n)
  rw [parseUint0_go_natToHex n h] at hgo
  have hne : List.replicate k 48 ++ natToHex n ≠ [] := by
    simp [natToHex_ne_nil]
  generalize List.replicate k 48 ++ natToHex n = l at hgo hne
  cases l with
  | nil => exact absurd rfl hne
  | cons c t =>
    have e1 : (lower 120 == 98) = false := by decide
    have e2 : (lower 120 == 111) = false := by decide
    have e3 : (lower 120 == 120) = true := by decide
    simp only [parseUint0, List.cons_append, List.nil_append, BEq.rfl, if_true, e1, e2, e3,
      Bool.false_eq_true, if_false, hgo]
    simp

theorem parseUint0_hex (n : Nat) (h : n < 2 ^ 64) : parseUint0 (b!"0x" ++ natToHex n) = some n := by
  have := parseUint0_hex_padded 0 n h
  simpa using this

/-- a string without the separator is one piece -/
theorem splitOn_noSep (s : Bytes) (h : hasCS s = false) : splitOn s [44, 32] = [s] := by
  have := splitOn_join_commaSpace [s] (by simp) (by intro t ht; simp at ht; rw [ht]; exact h)
  simpa [join] using this

end PP

#print axioms PP.splitOn_join_commaSpace
#print axioms PP.atou_natToDec
#print axioms PP.parseUint0_hex_padded
#print axioms PP.lastIndexByte_eq_some
