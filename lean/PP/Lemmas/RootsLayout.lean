import PP.Lemmas.RootsFind
import PP.Lemmas.RootsUpd
/-
Lemmas for the (partial) layout theorem of C18: monotonicity of the roots found
by the loop of `findRoots`, the step that detects a GOPATH root, the walk that
picks the only matching key.
-/
namespace PP
open Bytes

/-! ### the skip tests imply a prefix -/

theorem hasPrefix_of_take_drop {p k sep : Bytes} (h1 : p.take k.length = k)
    (h2 : (p.drop k.length).take sep.length = sep) : hasPrefix p (k ++ sep) = true := by
  apply hasPrefix_iff.mpr
  refine ⟨(p.drop k.length).drop sep.length, ?_⟩
  have e1 := List.take_append_drop k.length p
  have e2 := List.take_append_drop sep.length (p.drop k.length)
  rw [h1] at e1
  rw [h2] at e2
  rw [List.append_assoc, e2, e1]

theorem hasSrcPrefix_exists {p : Bytes} {s : AMap} (h : hasSrcPrefix p s = true) :
    ∃ k ∈ s.keys, hasPrefix p (k ++ srcSep) = true ∨ hasPrefix p (k ++ pkgmodSep) = true := by
  unfold hasSrcPrefix at h
  simp only [List.any_eq_true, Bool.or_eq_true, Bool.and_eq_true, decide_eq_true_eq, beq_iff_eq] at h
  obtain ⟨kv, hkv, h | h⟩ := h
  · exact ⟨kv.1, List.mem_map_of_mem (f := Prod.fst) hkv, Or.inl (hasPrefix_of_take_drop h.1.2 h.2)⟩
  · exact ⟨kv.1, List.mem_map_of_mem (f := Prod.fst) hkv, Or.inr (hasPrefix_of_take_drop h.1.2 h.2)⟩

theorem mapHasPrefix_exists {p : Bytes} {s : AMap} (h : mapHasPrefix p s = true) :
    ∃ k ∈ s.keys, hasPrefix p (k ++ b!"/") = true := by
  unfold mapHasPrefix at h
  simp only [List.any_eq_true, Bool.and_eq_true, decide_eq_true_eq, beq_iff_eq] at h
  obtain ⟨kv, hkv, ⟨_, h1⟩, h2⟩ := h
  refine ⟨kv.1, List.mem_map_of_mem (f := Prod.fst) hkv, ?_⟩
  apply hasPrefix_iff.mpr
  have e1 := List.take_append_drop kv.1.length p
  rw [h1] at e1
  cases hd : p.drop kv.1.length with
  | nil => simp [hd] at h2
  | cons x t =>
    simp only [hd, List.head?_cons, Option.some.injEq] at h2
    subst h2
    exact ⟨t, by rw [← e1, hd]; simp⟩

/-! ### keys of association lists -/

theorem AMap.keys_insert_mono {m : AMap} {a v k : Bytes} (h : k ∈ m.keys) : k ∈ (m.insert a v).keys := by
  induction m with
  | nil => simp [AMap.keys] at h
  | cons x t ih =>
    obtain ⟨k', v'⟩ := x
    simp only [AMap.keys, List.map_cons, List.mem_cons] at h
    simp only [AMap.insert]
    split
    · rename_i he
      simp only [beq_iff_eq] at he
      simp only [AMap.keys, List.map_cons, List.mem_cons]
      rcases h with h | h
      · exact Or.inl (h.trans he)
      · exact Or.inr h
    · simp only [AMap.keys, List.map_cons, List.mem_cons]
      rcases h with h | h
      · exact Or.inl h
      · exact Or.inr (ih h)

theorem AMap.keys_insert_self (m : AMap) (a v : Bytes) : a ∈ (m.insert a v).keys :=
  List.mem_map_of_mem (f := Prod.fst) (AMap.mem_insert_self m a v)

theorem AMap.get_of_mem_keys {m : AMap} {k : Bytes} (h : k ∈ m.keys) : (k, m.get k) ∈ m := by
  induction m with
  | nil => simp [AMap.keys] at h
  | cons x t ih =>
    obtain ⟨k', v'⟩ := x
    simp only [AMap.keys, List.map_cons, List.mem_cons] at h
    simp only [AMap.get, List.lookup]
    by_cases he : k = k'
    · subst he
      simp
    · have hb : (k == k') = false := by simpa using he
      simp only [hb]
      rcases h with h | h
      · exact absurd h he
      · exact List.mem_cons_of_mem _ (ih h)

/-! ### monotonicity of the loop -/

structure Mono (st st' : RootsState) : Prop where
  goroot : st.goroot ≠ [] → st'.goroot = st.goroot
  gopaths : ∀ k ∈ st.gopaths.keys, k ∈ st'.gopaths.keys
  gomods : ∀ k ∈ st.gomods.keys, k ∈ st'.gomods.keys

theorem Mono.refl (st : RootsState) : Mono st st := ⟨fun _ => rfl, fun _ h => h, fun _ h => h⟩

theorem Mono.trans {a b c : RootsState} (h1 : Mono a b) (h2 : Mono b c) : Mono a c :=
  ⟨fun h => by rw [h2.goroot (by rw [h1.goroot h]; exact h), h1.goroot h],
   fun k h => h2.gopaths k (h1.gopaths k h), fun k h => h2.gomods k (h1.gomods k h)⟩

theorem findRootsMod_mono (fs : FS) (st : RootsState) (f : Bytes) (parts : List Bytes) :
    Mono st (findRootsMod fs st f parts) := by
  unfold findRootsMod
  split
  · exact ⟨fun _ => rfl, fun _ h => h, fun _ h => AMap.keys_insert_mono h⟩
  · split
    · exact ⟨fun _ => rfl, fun _ h => h, fun _ h => AMap.keys_insert_mono h⟩
    · exact ⟨fun _ => rfl, fun _ h => h, fun _ h => h⟩

theorem findRootsDisk_mono {fs : FS} {lg : Bytes} {lgs : List Bytes} {st st' : RootsState} {f : Bytes}
    (h : findRootsDisk fs lg lgs st f = .ok st') : Mono st st' := by
  unfold findRootsDisk at h
  split at h
  · rename_i hr
    split at h
    · cases h
    · cases h
      refine ⟨?_, fun _ h => h, fun _ h => h⟩
      intro hg
      unfold gorootProbe at hr
      have : (st.goroot == []) = false := by simpa using hg
      simp only [this, Bool.false_eq_true, if_false] at hr
      rw [hasSuffix_nil_false srcDir_ne] at hr
      exact absurd hr (by simp)
  · split at h
    · cases h
    · cases h
      exact ⟨fun _ => rfl, fun _ h => AMap.keys_insert_mono h, fun _ h => h⟩
    · cases h
      exact findRootsMod_mono fs st f _

theorem findRootsStep_mono {fs : FS} {lg : Bytes} {lgs : List Bytes} {st st' : RootsState} {f : Bytes}
    (h : findRootsStep fs lg lgs st f = .ok st') : Mono st st' := by
  unfold findRootsStep at h
  split at h
  · cases h; exact Mono.refl _
  · split at h
    · cases h; exact Mono.refl _
    · split at h
      · cases h; exact Mono.refl _
      · exact findRootsDisk_mono h

theorem findRootsLoop_mono {fs : FS} {lg : Bytes} {lgs : List Bytes} (todo : List Bytes)
    {st st' : RootsState} (h : findRootsLoop fs lg lgs st todo = .ok st') : Mono st st' := by
  induction todo generalizing st with
  | nil => simp only [findRootsLoop, Except.ok.injEq] at h; exact h ▸ Mono.refl _
  | cons f t ih =>
    simp only [findRootsLoop] at h
    split at h
    · cases h
    · rename_i st1 h1
      exact (findRootsStep_mono h1).trans (ih h)

theorem findRootsLoop_append {fs : FS} {lg : Bytes} {lgs : List Bytes} (pre : List Bytes) {f : Bytes}
    {post : List Bytes} {st fin : RootsState}
    (h : findRootsLoop fs lg lgs st (pre ++ f :: post) = .ok fin) :
    ∃ st1 st2, findRootsLoop fs lg lgs st pre = .ok st1 ∧ findRootsStep fs lg lgs st1 f = .ok st2 ∧
      findRootsLoop fs lg lgs st2 post = .ok fin := by
  induction pre generalizing st with
  | nil =>
    simp only [List.nil_append, findRootsLoop] at h
    split at h
    · cases h
    · rename_i st2 h2
      exact ⟨st, st2, rfl, h2, h⟩
  | cons a t ih =>
    simp only [List.cons_append, findRootsLoop] at h
    split at h
    · cases h
    · rename_i sa ha
      obtain ⟨st1, st2, h1, h2, h3⟩ := ih h
      refine ⟨st1, st2, ?_, h2, h3⟩
      simp only [findRootsLoop, ha, h1]

/-! ### isRootedIn: first index -/

theorem isRootedIn_none {fs : FS} {root : Bytes} {parts : List Bytes}
    (h : ∀ j, 0 < j → j < parts.length → fs.isFile (root ++ b!"/" ++ pathJoin (parts.drop j)) = false) :
    isRootedIn fs root parts = [] := by
  unfold isRootedIn
  have : (List.range' 1 (parts.length - 1)).find?
      (fun i => fs.isFile (pathJoin [root, pathJoin (parts.drop i)])) = none := by
    rw [List.find?_eq_none]
    intro x hx
    simp only [List.mem_range'_1] at hx
    rw [pathJoin_pair, h x (by omega) (by omega)]
    simp
  rw [this]

theorem isRootedIn_first {fs : FS} {root : Bytes} {parts : List Bytes} {i : Nat}
    (h1 : 0 < i) (h2 : i < parts.length)
    (hf : fs.isFile (root ++ b!"/" ++ pathJoin (parts.drop i)) = true)
    (hmin : ∀ j, 0 < j → j < i → fs.isFile (root ++ b!"/" ++ pathJoin (parts.drop j)) = false) :
    isRootedIn fs root parts = pathJoin (parts.take i) := by
  unfold isRootedIn
  cases hfind : (List.range' 1 (parts.length - 1)).find?
      (fun i => fs.isFile (pathJoin [root, pathJoin (parts.drop i)])) with
  | none =>
    rw [List.find?_eq_none] at hfind
    have := hfind i (by simp only [List.mem_range'_1]; omega)
    rw [pathJoin_pair, hf] at this
    exact absurd rfl this
  | some i' =>
    have hm := List.mem_of_find?_eq_some hfind
    have hp := List.find?_some hfind
    simp only [List.mem_range'_1] at hm
    rw [pathJoin_pair] at hp
    -- i' ≤ i because everything before i' fails; i ≤ i' because everything before i fails
    have hle : ¬ i' < i := by
      intro hlt
      have := hmin i' (by omega) hlt
      rw [this] at hp
      exact absurd hp (by simp)
    have hge : ¬ i < i' := by
      intro hlt
      rw [List.find?_eq_some_iff_append] at hfind
      obtain ⟨_, as, bs, e, hnot⟩ := hfind
      have him : i ∈ List.range' 1 (parts.length - 1) := by
        simp only [List.mem_range'_1]; omega
      rw [e] at him
      simp only [List.mem_append, List.mem_cons] at him
      have hsorted : (List.range' 1 (parts.length - 1)).Pairwise (· < ·) := List.pairwise_lt_range'
      rw [e, List.pairwise_append] at hsorted
      rcases him with him | rfl | him
      · have := hnot i him
        rw [pathJoin_pair, hf] at this
        simp at this
      · omega
      · have := (List.pairwise_cons.mp hsorted.2.1).1 i him
        omega
    have : i' = i := by omega
    subst this
    rfl

/-! ### the walk when a single key matches -/

theorem gopathLoop_unique {c : Call} {m : AMap} {R : Bytes} {ks : List Bytes} (hR : R ∈ ks)
    (hother : ∀ k ∈ ks, k ≠ R → c.tryGopath k (m.get k) = none) :
    c.gopathLoop m ks = c.tryGopath R (m.get R) := by
  induction ks with
  | nil => simp at hR
  | cons a t ih =>
    simp only [Call.gopathLoop]
    by_cases ha : a = R
    · subst ha
      cases hc : c.tryGopath a (m.get a) with
      | some c' => rfl
      | none =>
        simp only
        by_cases hin : a ∈ t
        · rw [ih hin (fun k hk hne => hother k (List.mem_cons_of_mem _ hk) hne), hc]
        · -- nothing else matches
          have : ∀ k ∈ t, c.tryGopath k (m.get k) = none := by
            intro k hk
            exact hother k (List.mem_cons_of_mem _ hk) (fun e => hin (e ▸ hk))
          clear ih hR hother
          induction t with
          | nil => rfl
          | cons b u ihu =>
            simp only [Call.gopathLoop, this b List.mem_cons_self]
            exact ihu (fun hmem => hin (List.mem_cons_of_mem _ hmem))
              (fun k hk => this k (List.mem_cons_of_mem _ hk))
    · rw [hother a List.mem_cons_self ha]
      simp only
      simp only [List.mem_cons] at hR
      rcases hR with hR | hR
      · exact absurd hR.symm ha
      · exact ih hR (fun k hk hne => hother k (List.mem_cons_of_mem _ hk) hne)

/-! ### one frame file under a single-GOPATH layout -/

/-- What is assumed about one frame file `f` whose parts are `pR`, `src`, `pRel`
(remote root `R = pR` joined, relative path `rel = pRel` joined), for a local
GOPATH `L` and local GOROOT `lg`. -/
structure LayoutHyp (fs : FS) (lg L f : Bytes) (pR pRel : List Bytes) : Prop where
  split : splitPath f = pR ++ b!"src" :: pRel
  pR_ne : pR ≠ []
  pRel_ne : pRel ≠ []
  /-- `splitPath` loses nothing: no empty element, no trailing `/`, valid UTF-8 -/
  clean : pathJoin (splitPath f) = f
  /-- the file exists under the local GOPATH -/
  present : fs.isFile (L ++ srcDir ++ b!"/" ++ pathJoin pRel) = true
  /-- `noSpuriousSuffix`: no longer suffix of the path exists under `L/src` -/
  noSpurious : ∀ j, 0 < j → j ≤ pR.length →
    fs.isFile (L ++ srcDir ++ b!"/" ++ pathJoin ((splitPath f).drop j)) = false
  /-- GOROOT does not claim it: no suffix of the path exists under `lg/src` -/
  noGoroot : ∀ j, 0 < j → j < (splitPath f).length →
    fs.isFile (lg ++ srcDir ++ b!"/" ++ pathJoin ((splitPath f).drop j)) = false

/-- no detected root other than `R` claims `f` -/
structure NoOtherClaim (st : RootsState) (f R : Bytes) : Prop where
  goroot : st.goroot = [] ∨ hasPrefix f (st.goroot ++ srcSep) = false
  gopaths : ∀ k ∈ st.gopaths.keys, k ≠ R →
    hasPrefix f (k ++ srcSep) = false ∧ hasPrefix f (k ++ pkgmodSep) = false
  gomods : ∀ k ∈ st.gomods.keys, hasPrefix f (k ++ b!"/") = false

theorem NoOtherClaim.of_mono {st fin : RootsState} {f R : Bytes} (hm : Mono st fin)
    (h : NoOtherClaim fin f R) : NoOtherClaim st f R := by
  refine ⟨?_, fun k hk hne => h.gopaths k (hm.gopaths k hk) hne, fun k hk => h.gomods k (hm.gomods k hk)⟩
  by_cases hg : st.goroot = []
  · exact Or.inl hg
  · have e := hm.goroot hg
    rcases h.goroot with h1 | h1
    · exact absurd (e ▸ h1) hg
    · exact Or.inr (e ▸ h1)

variable {fs : FS} {lg L f : Bytes} {pR pRel : List Bytes}

theorem LayoutHyp.f_eq (h : LayoutHyp fs lg L f pR pRel) :
    f = pathJoin pR ++ srcSep ++ pathJoin pRel := by
  have e := h.clean
  rw [h.split] at e
  unfold pathJoin at e ⊢
  rw [join_append b!"/" h.pR_ne (by simp), join_cons_ne b!"/" b!"src" h.pRel_ne] at e
  rw [← e]
  simp [srcSep]

theorem LayoutHyp.take (h : LayoutHyp fs lg L f pR pRel) :
    (splitPath f).take (pR.length + 1) = pR ++ [b!"src"] := by
  rw [h.split]
  have : pR ++ b!"src" :: pRel = (pR ++ [b!"src"]) ++ pRel := by simp
  rw [this]
  exact List.take_left' (by simp)

theorem LayoutHyp.drop (h : LayoutHyp fs lg L f pR pRel) :
    (splitPath f).drop (pR.length + 1) = pRel := by
  rw [h.split]
  have : pR ++ b!"src" :: pRel = (pR ++ [b!"src"]) ++ pRel := by simp
  rw [this]
  exact List.drop_left' (by simp)

theorem LayoutHyp.rooted (h : LayoutHyp fs lg L f pR pRel) :
    isRootedIn fs (L ++ srcDir) (splitPath f) = pathJoin pR ++ srcDir := by
  have hlen : (splitPath f).length = pR.length + 1 + pRel.length := by
    rw [h.split]; simp; omega
  have hpl : 0 < pRel.length := by
    cases hp : pRel with
    | nil => exact absurd hp h.pRel_ne
    | cons _ _ => simp
  rw [isRootedIn_first (i := pR.length + 1) (by omega) (by omega)
    (by rw [h.drop]; exact h.present)
    (fun j h1 h2 => h.noSpurious j h1 (by omega)), h.take]
  unfold pathJoin
  rw [join_append b!"/" h.pR_ne (by simp)]
  simp [Bytes.join, srcDir]

theorem LayoutHyp.findGopath (h : LayoutHyp fs lg L f pR pRel) :
    findGopath fs (splitPath f) [L] = .ok (some (pathJoin pR, L)) := by
  simp only [PP.findGopath, h.rooted]
  have hne : hasSuffix (pathJoin pR ++ srcDir) srcDir = true := hasSuffix_append _ _
  have hlen : ¬ (pathJoin pR ++ srcDir).length < srcDir.length := by simp
  simp only [hne, if_true, hlen, if_false]
  congr 3
  simp

theorem LayoutHyp.step (h : LayoutHyp fs lg L f pR pRel) {st1 st2 : RootsState}
    (hn : NoOtherClaim st1 f (pathJoin pR))
    (hs : findRootsStep fs lg [L] st1 f = .ok st2) : pathJoin pR ∈ st2.gopaths.keys := by
  unfold findRootsStep at hs
  split at hs
  · rename_i hc
    simp only [Bool.and_eq_true, bne_iff_ne, ne_eq] at hc
    rcases hn.goroot with h1 | h1
    · exact absurd h1 hc.1
    · rw [h1] at hc
      exact absurd hc.2 (by simp)
  · split at hs
    · rename_i hc
      cases hs
      obtain ⟨k, hk, hm⟩ := hasSrcPrefix_exists hc
      by_cases hkr : k = pathJoin pR
      · exact hkr ▸ hk
      · have := hn.gopaths k hk hkr
        rcases hm with hm | hm
        · rw [this.1] at hm; exact absurd hm (by simp)
        · rw [this.2] at hm; exact absurd hm (by simp)
    · split at hs
      · rename_i hc
        obtain ⟨k, hk, hm⟩ := mapHasPrefix_exists hc
        rw [hn.gomods k hk] at hm
        exact absurd hm (by simp)
      · have hprobe : gorootProbe fs lg st1 (splitPath f) = [] := by
          unfold gorootProbe
          split
          · exact isRootedIn_none h.noGoroot
          · rfl
        unfold findRootsDisk at hs
        simp only [hprobe, h.findGopath] at hs
        simp only [hasSuffix_nil_false srcDir_ne, Bool.false_eq_true, if_false] at hs
        cases hs
        exact AMap.keys_insert_self _ _ _

/-- the root `R` is in the final map with value `L` -/
theorem LayoutHyp.final (h : LayoutHyp fs lg L f pR pRel) {files : List Bytes} {st0 fin : RootsState}
    (hsound : Sound fs lg [L] files st0.goroot st0) (hf : f ∈ files)
    (hloop : findRootsLoop fs lg [L] st0 files = .ok fin)
    (hn : NoOtherClaim fin f (pathJoin pR)) :
    pathJoin pR ∈ fin.gopaths.keys ∧ fin.gopaths.get (pathJoin pR) = L := by
  obtain ⟨pre, post, e⟩ := List.append_of_mem hf
  rw [e] at hloop
  obtain ⟨st1, st2, h1, h2, h3⟩ := findRootsLoop_append pre hloop
  have m2 : Mono st2 fin := findRootsLoop_mono post h3
  have m1 : Mono st1 fin := (findRootsStep_mono h2).trans m2
  have hk : pathJoin pR ∈ fin.gopaths.keys := m2.gopaths _ (h.step (hn.of_mono m1) h2)
  refine ⟨hk, ?_⟩
  have hsf : Sound fs lg [L] files st0.goroot fin :=
    findRootsLoop_sound _ (fun x hx => e ▸ hx) hsound (e ▸ hloop)
  have := (hsf.gopaths _ (AMap.get_of_mem_keys hk)).1
  simpa using this

/-- with the final roots the frame is resolved through `R` -/
theorem LayoutHyp.update (h : LayoutHyp fs lg L f pR pRel) {fin : RootsState} {c : Call}
    (hc : c.remoteSrcPath = f) (hl : c.location = .unknown)
    (hn : NoOtherClaim fin f (pathJoin pR))
    (hk : pathJoin pR ∈ fin.gopaths.keys) (hv : fin.gopaths.get (pathJoin pR) = L) :
    c.updateLocations fin.goroot lg fin.gomods fin.gopaths =
      ({ c with relSrcPath := pathJoin pRel, localSrcPath := pathJoin [L, b!"src", pathJoin pRel],
                importPath := importOfRel (pathJoin pRel) c.importPath, location := .gopath }, true) := by
  have hfe := h.f_eq
  have hne : (c.remoteSrcPath == []) = false := by
    rw [hc, hfe]; simp [srcSep]
  have hgr : c.tryGoroot fin.goroot lg = none := by
    unfold Call.tryGoroot
    rcases hn.goroot with h1 | h1
    · simp [h1]
    · simp [hc, h1]
  have hpre : hasPrefix c.remoteSrcPath (pathJoin pR ++ srcSep) = true := by
    rw [hc, hfe]; exact hasPrefix_append _ _
  have htry : c.tryGopath (pathJoin pR) L =
      some { c with relSrcPath := pathJoin pRel, localSrcPath := pathJoin [L, b!"src", pathJoin pRel],
                    importPath := importOfRel (pathJoin pRel) c.importPath, location := .gopath } := by
    unfold Call.tryGopath
    have hd : c.remoteSrcPath.drop (pathJoin pR ++ srcSep).length = pathJoin pRel := by
      rw [hc, hfe]; exact List.drop_left' rfl
    simp only [hpre, if_true, hd, setLoc, hl]
    rfl
  have hloop : c.gopathLoop fin.gopaths (sortedByLen fin.gopaths) = c.tryGopath (pathJoin pR) L := by
    rw [gopathLoop_unique (mem_sortedByLen.mpr hk), hv]
    intro k hk' hne'
    have := hn.gopaths k (mem_sortedByLen.mp hk') hne'
    have e := @tryGopath_isSome c k (fin.gopaths.get k)
    rw [hc] at e
    rw [this.1, this.2] at e
    cases ht : c.tryGopath k (fin.gopaths.get k) with
    | none => rfl
    | some _ => rw [ht] at e; simp at e
  unfold Call.updateLocations Call.updateLocations?
  simp only [hne, Bool.false_eq_true, if_false, hgr, hloop, htry]

end PP
