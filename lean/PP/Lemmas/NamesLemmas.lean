import PP.Model.Names
/-
Helper lemmas for C15 (nameArguments).
-/
namespace PP

/-! ### insertDedup / sortDedup -/

theorem mem_insertDedup {x y : Nat} {l : List Nat} :
    y ∈ insertDedup x l ↔ y = x ∨ y ∈ l := by
  induction l with
  | nil => simp [insertDedup]
  | cons z zs ih =>
    simp only [insertDedup]
    split
    · simp
    · split
      · subst_vars; simp
      · simp only [List.mem_cons, ih]
        grind

theorem insertDedup_sorted {x : Nat} {l : List Nat} (h : l.Pairwise (· < ·)) :
    (insertDedup x l).Pairwise (· < ·) := by
  induction l with
  | nil => simp [insertDedup]
  | cons z zs ih =>
    simp only [insertDedup]
    split
    · rename_i hlt
      rw [List.pairwise_cons] at h ⊢
      refine ⟨?_, List.pairwise_cons.mpr h⟩
      intro a ha
      rcases List.mem_cons.mp ha with rfl | ha
      · exact hlt
      · exact Nat.lt_trans hlt (h.1 a ha)
    · split
      · exact h
      · rename_i h1 h2
        rw [List.pairwise_cons] at h ⊢
        refine ⟨?_, ih h.2⟩
        intro a ha
        rcases mem_insertDedup.mp ha with rfl | ha
        · omega
        · exact h.1 a ha

theorem mem_sortDedup {y : Nat} {l : List Nat} : y ∈ sortDedup l ↔ y ∈ l := by
  induction l with
  | nil => simp [sortDedup]
  | cons x xs ih =>
    have : sortDedup (x :: xs) = insertDedup x (sortDedup xs) := rfl
    rw [this, mem_insertDedup, ih]; simp

theorem sortDedup_sorted (l : List Nat) : (sortDedup l).Pairwise (· < ·) := by
  induction l with
  | nil => simp [sortDedup]
  | cons x xs ih =>
    have : sortDedup (x :: xs) = insertDedup x (sortDedup xs) := rfl
    rw [this]; exact insertDedup_sorted ih

theorem mem_of_countOcc_pos {v : Nat} {l : List Nat} (h : countOcc v l ≥ 1) : v ∈ l := by
  unfold countOcc at h
  have : 0 < (l.filter (· == v)).length := h
  obtain ⟨a, ha⟩ := List.exists_mem_of_length_pos this
  simp only [List.mem_filter, beq_iff_eq] at ha
  exact ha.2 ▸ ha.1

/-! ### numbering -/

/-- `l[i] ↦ i+1` -/
def numbering (l : List Nat) : List (Nat × Nat) :=
  l.zipIdx.map (fun (v, i) => (v, i + 1))

theorem numbering_fst (l : List Nat) : (numbering l).map Prod.fst = l := by
  have : (Prod.fst ∘ fun (x : Nat × Nat) => (x.1, x.2 + 1)) = Prod.fst := rfl
  simp [numbering, List.map_map, this]

theorem numbering_length (l : List Nat) : (numbering l).length = l.length := by
  simp [numbering]

theorem numbering_snd (l : List Nat) :
    (numbering l).map Prod.snd = List.range' 1 l.length := by
  have : (Prod.snd ∘ fun (x : Nat × Nat) => (x.1, x.2 + 1)) = (· + 1) ∘ Prod.snd := rfl
  simp only [numbering, List.map_map]
  rw [this, ← List.map_map, List.zipIdx_map_snd, ← List.range'_succ_left]

theorem mem_numbering {l : List Nat} {v k : Nat} :
    (v, k) ∈ numbering l ↔ ∃ i, l[i]? = some v ∧ k = i + 1 := by
  simp only [numbering, List.mem_map, Prod.mk.injEq, Prod.exists]
  constructor
  · rintro ⟨a, i, hm, rfl, rfl⟩
    exact ⟨i, List.mk_mem_zipIdx_iff_getElem?.mp hm, rfl⟩
  · rintro ⟨i, h, rfl⟩
    exact ⟨v, i, List.mk_mem_zipIdx_iff_getElem?.mpr h, rfl, rfl⟩

theorem mem_numbering' {l : List Nat} {v k : Nat} :
    (v, k) ∈ numbering l ↔ l[k - 1]? = some v ∧ k ≥ 1 := by
  rw [mem_numbering]
  constructor
  · rintro ⟨i, h, rfl⟩; exact ⟨by simpa using h, by omega⟩
  · rintro ⟨h, hk⟩; exact ⟨k - 1, h, by omega⟩

/-- In a list that is pairwise related by an irreflexive, asymmetric relation,
the numbering is strictly monotone w.r.t. that relation. -/
theorem numbering_mono {R : Nat → Nat → Prop} {l : List Nat}
    (hp : l.Pairwise R) (irrefl : ∀ a, ¬ R a a) (asymm : ∀ a b, R a b → ¬ R b a)
    {v w kv kw : Nat} (hv : (v, kv) ∈ numbering l) (hw : (w, kw) ∈ numbering l)
    (hR : R v w) : kv < kw := by
  obtain ⟨i, hi, rfl⟩ := mem_numbering.mp hv
  obtain ⟨j, hj, rfl⟩ := mem_numbering.mp hw
  obtain ⟨hi', rfl⟩ := List.getElem?_eq_some_iff.mp hi
  obtain ⟨hj', rfl⟩ := List.getElem?_eq_some_iff.mp hj
  rw [List.pairwise_iff_getElem] at hp
  rcases Nat.lt_trichotomy i j with h | h | h
  · omega
  · subst h; exact absurd hR (irrefl _)
  · exact absurd hR (asymm _ _ (hp j i hj' hi' h))

/-- `numbering` is injective in the number. -/
theorem numbering_inj {l : List Nat} {v w k : Nat}
    (hv : (v, k) ∈ numbering l) (hw : (w, k) ∈ numbering l) : v = w := by
  obtain ⟨hi, _⟩ := mem_numbering'.mp hv
  obtain ⟨hj, _⟩ := mem_numbering'.mp hw
  rw [hi] at hj; exact Option.some.inj hj

/-! ### lookup in a table with duplicate-free keys -/

theorem lookup_isSome_of_mem_keys {t : List (Nat × Nat)} {v : Nat}
    (h : v ∈ t.map Prod.fst) : ∃ k, t.lookup v = some k := by
  induction t with
  | nil => simp at h
  | cons p ps ih =>
    obtain ⟨a, b⟩ := p
    by_cases hva : v = a
    · subst hva; exact ⟨b, by simp [List.lookup]⟩
    · have hm : v ∈ ps.map Prod.fst := by
        simp only [List.map_cons, List.mem_cons] at h
        rcases h with h | h
        · exact absurd h hva
        · exact h
      obtain ⟨k, hk⟩ := ih hm
      refine ⟨k, ?_⟩
      have : (v == a) = false := by simpa using hva
      simp [List.lookup, this, hk]

theorem lookup_eq_some_iff_mem {t : List (Nat × Nat)} (hnd : (t.map Prod.fst).Nodup)
    {v k : Nat} : t.lookup v = some k ↔ (v, k) ∈ t := by
  induction t with
  | nil => simp
  | cons p ps ih =>
    obtain ⟨a, b⟩ := p
    simp only [List.map_cons, List.nodup_cons] at hnd
    by_cases hva : v = a
    · subst hva
      simp only [List.lookup, beq_self_eq_true, Option.some.injEq, List.mem_cons, Prod.mk.injEq,
        true_and]
      constructor
      · intro h; exact Or.inl h.symm
      · rintro (h | h)
        · exact h.symm
        · exact absurd (List.mem_map_of_mem (f := Prod.fst) h) hnd.1
    · have : (v == a) = false := by simpa using hva
      simp only [List.lookup, this, ih hnd.2, List.mem_cons, Prod.mk.injEq]
      constructor
      · exact Or.inr
      · rintro (h | h)
        · exact absurd h.1 hva
        · exact h

/-! ### nameTable as a numbering -/

/-- goroutine 0's pointer list -/
def primOf (gs : List Goroutine) : List Nat :=
  match gs with | [] => [] | g :: _ => g.ptrs

/-- all pointer values, in visiting order -/
def allOf (gs : List Goroutine) : List Nat := gs.flatMap Goroutine.ptrs

/-- first class: in goroutine 0 and recurring -/
def keys1 (gs : List Goroutine) : List Nat :=
  (sortDedup (allOf gs)).filter (fun v => (primOf gs).contains v && countOcc v (allOf gs) ≥ 2)

/-- second class: not in goroutine 0 -/
def keys2 (gs : List Goroutine) : List Nat :=
  (sortDedup (allOf gs)).filter (fun v => !(primOf gs).contains v)

theorem nameTable_eq (gs : List Goroutine) :
    nameTable gs = numbering (keys1 gs ++ keys2 gs) := by
  cases gs <;> rfl

theorem mem_keys1 {gs : List Goroutine} {v : Nat} :
    v ∈ keys1 gs ↔ v ∈ allOf gs ∧ v ∈ primOf gs ∧ countOcc v (allOf gs) ≥ 2 := by
  simp [keys1, mem_sortDedup]

theorem mem_keys2 {gs : List Goroutine} {v : Nat} :
    v ∈ keys2 gs ↔ v ∈ allOf gs ∧ v ∉ primOf gs := by
  simp [keys2, mem_sortDedup]

/-- the order in which values are numbered -/
def NameOrder (prim : List Nat) (v w : Nat) : Prop :=
  (v ∈ prim ∧ w ∉ prim) ∨ ((v ∈ prim ↔ w ∈ prim) ∧ v < w)

theorem NameOrder.irrefl (prim : List Nat) (a : Nat) : ¬ NameOrder prim a a := by
  unfold NameOrder; grind

theorem NameOrder.asymm (prim : List Nat) (a b : Nat) :
    NameOrder prim a b → ¬ NameOrder prim b a := by
  unfold NameOrder; grind

theorem keys_pairwise (gs : List Goroutine) :
    (keys1 gs ++ keys2 gs).Pairwise (NameOrder (primOf gs)) := by
  rw [List.pairwise_append]
  refine ⟨?_, ?_, ?_⟩
  · have h : (keys1 gs).Pairwise (· < ·) := (sortDedup_sorted _).filter _
    have h' : (keys1 gs).Pairwise (fun a b => a ∈ keys1 gs ∧ b ∈ keys1 gs ∧ a < b) :=
      List.Pairwise.and_mem.mp h
    refine h'.imp ?_
    intro a b ⟨ha, hb, hab⟩
    have ha := (mem_keys1.mp ha).2.1
    have hb := (mem_keys1.mp hb).2.1
    exact Or.inr ⟨⟨fun _ => hb, fun _ => ha⟩, hab⟩
  · have h : (keys2 gs).Pairwise (· < ·) := (sortDedup_sorted _).filter _
    have h' : (keys2 gs).Pairwise (fun a b => a ∈ keys2 gs ∧ b ∈ keys2 gs ∧ a < b) :=
      List.Pairwise.and_mem.mp h
    refine h'.imp ?_
    intro a b ⟨ha, hb, hab⟩
    have ha := (mem_keys2.mp ha).2
    have hb := (mem_keys2.mp hb).2
    exact Or.inr ⟨⟨fun h => absurd h ha, fun h => absurd h hb⟩, hab⟩
  · intro a ha b hb
    exact Or.inl ⟨(mem_keys1.mp ha).2.1, (mem_keys2.mp hb).2⟩

theorem keys_nodup (gs : List Goroutine) : (keys1 gs ++ keys2 gs).Nodup := by
  refine (keys_pairwise gs).imp ?_
  intro a b h hab
  subst hab
  exact NameOrder.irrefl _ _ h

/-! ### erasing names -/

mutual
def Arg.eraseName : Arg → Arg
  | .scalar _ v p o i => .scalar [] v p o i
  | .agg fs e => .agg (Arg.eraseNameL fs) e
def Arg.eraseNameL : List Arg → List Arg
  | [] => []
  | a :: as => Arg.eraseName a :: Arg.eraseNameL as
end

mutual
theorem Arg.eraseName_rename (t : List (Nat × Nat)) :
    ∀ a : Arg, Arg.eraseName (Arg.rename t a) = Arg.eraseName a
  | .scalar n v p o i => by
    cases p
    · simp [Arg.rename, Arg.eraseName]
    · simp only [Arg.rename, if_true]
      split <;> simp [Arg.eraseName]
  | .agg fs e => by
    simp [Arg.rename, Arg.eraseName, Arg.eraseNameL_renameL t fs]
theorem Arg.eraseNameL_renameL (t : List (Nat × Nat)) :
    ∀ l : List Arg, Arg.eraseNameL (Arg.renameL t l) = Arg.eraseNameL l
  | [] => by simp [Arg.renameL, Arg.eraseNameL]
  | a :: as => by
    simp [Arg.renameL, Arg.eraseNameL, Arg.eraseName_rename t a, Arg.eraseNameL_renameL t as]
end

theorem Arg.renameL_length (t : List (Nat × Nat)) :
    ∀ l : List Arg, (Arg.renameL t l).length = l.length
  | [] => by simp [Arg.renameL]
  | a :: as => by simp [Arg.renameL, Arg.renameL_length t as]

/-- everything in a call but the argument names -/
def Call.eraseNames (c : Call) : Call :=
  { c with args := { c.args with values := Arg.eraseNameL c.args.values } }

/-- everything in a goroutine but the argument names of its stack -/
def Goroutine.eraseNames (g : Goroutine) : Goroutine :=
  { g with sig := { g.sig with stack := { g.sig.stack with
      calls := g.sig.stack.calls.map Call.eraseNames } } }

end PP
