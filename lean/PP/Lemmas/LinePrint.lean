import PP.Spec.WF
import PP.Lemmas.PrintLemmas
import PP.Lemmas.ArgsPrint
import PP.Lemmas.FuncPrint
/-
Stage 2 of C01: one lemma per printed line kind — the matcher recovers the
fields that were printed — and the negative facts the state machine consults.
-/
namespace PP.Spec
open PP Bytes

theorem lacks_iff (s : Bytes) (c : UInt8) : lacks s c = true ↔ c ∉ s := by
  unfold lacks
  rw [List.all_eq_true]
  constructor
  · intro h hc; have := h c hc; simp at this
  · intro h x hx; simp; intro he; subst he; exact h hx

theorem headerStatus_print (st : Bytes) (hne : st ≠ []) (h93 : (93 : UInt8) ∉ st) :
    headerStatus (b!" [" ++ (st ++ b!"]:")) = some st := by
  unfold headerStatus
  rw [stripPrefix_append]
  have h := span1_append (· != 93) st 93 [58] hne (by
    rw [List.all_eq_true]; intro x hx; simp; intro h; subst h; exact h93 hx) (by simp)
  simp only [Option.bind_eq_bind, Option.bind_some]
  show (span1 (· != 93) (st ++ [93, 58])).bind _ = _
  rw [h]
  simp

theorem span1_notSpace (w rest : Bytes) (hw : wordWF w = true) :
    span1 notSpace (w ++ 32 :: rest) = some (w, 32 :: rest) := by
  simp only [wordWF, Bool.and_eq_true, bne_iff_ne, ne_eq] at hw
  obtain ⟨⟨h1, h2⟩, _⟩ := hw
  apply span1_append _ _ _ _ h1
  · rw [List.all_eq_true]; intro x hx
    have := (lacks_iff w 32).1 h2
    simp [notSpace]; intro he; subst he; exact this hx
  · simp [notSpace]

theorem matchHeader_print (indent : Bytes) (id : Nat) (gpm : Option (Bytes × Bytes × Option Bytes)) (st : Bytes)
    (hind : indent.all isBlank = true) (hgpm : gpmWF gpm = true) (hne : st ≠ []) (h93 : (93 : UInt8) ∉ st) :
    matchHeader (indent ++ (b!"goroutine " ++ (natToDec id ++ (gpmText gpm ++ (b!" [" ++ (st ++ b!"]:")))))) =
      some ⟨indent, natToDec id, st⟩ := by
  unfold matchHeader
  have htw : (indent ++ (b!"goroutine " ++ (natToDec id ++ (gpmText gpm ++ (b!" [" ++ (st ++ b!"]:")))))).takeWhile isBlank = indent :=
    takeWhile_append_cons isBlank indent 103 _ hind (by decide)
  simp only [htw, List.drop_left, stripPrefix_append, Option.bind_eq_bind, Option.bind_some]
  have hst := headerStatus_print st hne h93
  cases gpm with
  | none =>
    have hsp : span1 isDigit (natToDec id ++ (gpmText none ++ (b!" [" ++ (st ++ b!"]:")))) =
        some (natToDec id, b!" [" ++ (st ++ b!"]:")) :=
      span1_append isDigit (natToDec id) 32 _ (natToDec_ne_nil id) (natToDec_all_digit id) (by decide)
    rw [hsp]
    simp only [Option.bind_some]
    have hno : stripPrefix b!" gp=" (b!" [" ++ (st ++ b!"]:")) = none := by
      simp [stripPrefix, hasPrefix]
    rw [hno, hst]
    simp
  | some g =>
    obtain ⟨gp, m, mp⟩ := g
    simp only [gpmWF, Bool.and_eq_true] at hgpm
    obtain ⟨⟨hgp, hm⟩, hmp⟩ := hgpm
    cases mp with
    | none =>
      have hsp : span1 isDigit (natToDec id ++ (gpmText (some (gp, m, none)) ++ (b!" [" ++ (st ++ b!"]:")))) =
          some (natToDec id, b!" gp=" ++ (gp ++ 32 :: (b!"m=" ++ (m ++ 32 :: (b!"[" ++ (st ++ b!"]:")))))) := by
        have := span1_append isDigit (natToDec id) 32 (b!"gp=" ++ (gp ++ 32 :: (b!"m=" ++ (m ++ 32 :: (b!"[" ++ (st ++ b!"]:"))))))
          (natToDec_ne_nil id) (natToDec_all_digit id) (by decide)
        simpa [gpmText] using this
      rw [hsp]
      simp only [Option.bind_some, stripPrefix_append]
      rw [span1_notSpace gp _ hgp]
      simp only [Option.bind_some]
      have e1 : stripPrefix b!" m=" (32 :: (b!"m=" ++ (m ++ 32 :: (b!"[" ++ (st ++ b!"]:"))))) = some (m ++ 32 :: (b!"[" ++ (st ++ b!"]:"))) :=
        stripPrefix_append b!" m=" _
      rw [e1]
      simp only [Option.bind_some]
      rw [span1_notSpace m _ hm]
      simp only [Option.bind_some]
      have hno : stripPrefix b!" mp=" (32 :: (b!"[" ++ (st ++ b!"]:"))) = none := by
        simp [stripPrefix, hasPrefix]
      rw [hno]
      have hst' : headerStatus (32 :: (b!"[" ++ (st ++ b!"]:"))) = some st := hst
      rw [hst']
      rfl
    | some mp =>
      simp only at hmp
      have hsp : span1 isDigit (natToDec id ++ (gpmText (some (gp, m, some mp)) ++ (b!" [" ++ (st ++ b!"]:")))) =
          some (natToDec id, b!" gp=" ++ (gp ++ 32 :: (b!"m=" ++ (m ++ 32 :: (b!"mp=" ++ (mp ++ 32 :: (b!"[" ++ (st ++ b!"]:")))))))) := by
        have := span1_append isDigit (natToDec id) 32 (b!"gp=" ++ (gp ++ 32 :: (b!"m=" ++ (m ++ 32 :: (b!"mp=" ++ (mp ++ 32 :: (b!"[" ++ (st ++ b!"]:"))))))))
          (natToDec_ne_nil id) (natToDec_all_digit id) (by decide)
        simpa [gpmText] using this
      rw [hsp]
      simp only [Option.bind_some, stripPrefix_append]
      rw [span1_notSpace gp _ hgp]
      simp only [Option.bind_some]
      have e1 : stripPrefix b!" m=" (32 :: (b!"m=" ++ (m ++ 32 :: (b!"mp=" ++ (mp ++ 32 :: (b!"[" ++ (st ++ b!"]:"))))))) =
          some (m ++ 32 :: (b!"mp=" ++ (mp ++ 32 :: (b!"[" ++ (st ++ b!"]:"))))) :=
        stripPrefix_append b!" m=" _
      rw [e1]
      simp only [Option.bind_some]
      rw [span1_notSpace m _ hm]
      simp only [Option.bind_some]
      have e2 : stripPrefix b!" mp=" (32 :: (b!"mp=" ++ (mp ++ 32 :: (b!"[" ++ (st ++ b!"]:"))))) =
          some (mp ++ 32 :: (b!"[" ++ (st ++ b!"]:"))) :=
        stripPrefix_append b!" mp=" _
      rw [e2]
      simp only [Option.bind_some]
      rw [span1_notSpace mp _ hmp]
      simp only [Option.bind_some]
      have hst' : headerStatus (32 :: (b!"[" ++ (st ++ b!"]:"))) = some st := hst
      rw [hst']


theorem natToDec_head_digit (n : Nat) : ∃ d ds, natToDec n = d :: ds ∧ isDigit d = true := by
  have h1 := natToDec_ne_nil n
  have h2 := natToDec_all_digit n
  cases h : natToDec n with
  | nil => exact absurd h h1
  | cons d ds =>
    rw [h] at h2
    simp only [List.all_cons, Bool.and_eq_true] at h2
    exact ⟨d, ds, rfl, h2.1⟩

theorem minutes_ne_locked (w : Nat) : ((natToDec w ++ b!" minutes") == Extracted.lockedToThread) = false := by
  obtain ⟨d, ds, h, hd⟩ := natToDec_head_digit w
  rw [h]
  have : d ≠ 108 := by intro he; subst he; revert hd; decide
  simp [Extracted.lockedToThread, this]

theorem matchMinutes_print (w : Nat) : matchMinutes (natToDec w ++ b!" minutes") = some (natToDec w) := by
  unfold matchMinutes
  have := span1_append isDigit (natToDec w) 32 b!"minutes" (natToDec_ne_nil w) (natToDec_all_digit w) (by decide)
  simp only [Option.bind_eq_bind]
  show (span1 isDigit (natToDec w ++ 32 :: b!"minutes")).bind _ = _
  rw [this]
  simp

theorem hasCS_minutes (w : Nat) : hasCS (natToDec w ++ b!" minutes") = false := by
  apply hasCS_of_not_mem
  intro h
  rw [List.mem_append] at h
  rcases h with h | h
  · exact not_mem_natToDec w 44 (by decide) h
  · revert h; decide

/-- the status text as a `", "`-joined list -/
def statusToks (g : GSpec) : List Bytes :=
  [expState g] ++ (if g.waitMin > 0 then [natToDec g.waitMin ++ b!" minutes"] else []) ++
    (if g.locked then [Extracted.lockedToThread] else [])

theorem statusText_eq_join (g : GSpec) : statusText g = join [44, 32] (statusToks g) := by
  unfold statusText statusToks expState
  by_cases hw : g.waitMin > 0 <;> cases hl : g.locked <;> simp [hw, join, Extracted.lockedToThread]

theorem splitOn_statusText (g : GSpec) (hcs : hasCS (expState g) = false) :
    splitOn (statusText g) Extracted.commaSpace = statusToks g := by
  rw [statusText_eq_join]
  apply splitOn_join_commaSpace
  · simp [statusToks]
  · intro t ht
    simp only [statusToks, List.mem_append, List.mem_singleton] at ht
    rcases ht with (ht | ht) | ht
    · rw [ht]; exact hcs
    · split at ht
      · simp at ht; rw [ht]; exact hasCS_minutes _
      · simp at ht
    · split at ht
      · simp at ht; rw [ht]; decide
      · simp at ht


theorem statusWF_iff (g : GSpec) (h : statusWF g = true) :
    expState g ≠ [] ∧ (10 : UInt8) ∉ expState g ∧ (93 : UInt8) ∉ expState g ∧ hasCS (expState g) = false := by
  simp only [statusWF, Bool.and_eq_true, bne_iff_ne, ne_eq, Bool.not_eq_true'] at h
  obtain ⟨⟨⟨h1, h2⟩, h3⟩, h4⟩ := h
  exact ⟨h1, (lacks_iff _ _).1 h2, (lacks_iff _ _).1 h3, h4⟩

theorem statusText_ne_nil (g : GSpec) (h : expState g ≠ []) : statusText g ≠ [] := by
  unfold statusText
  intro he
  apply h
  unfold expState
  simp only [List.append_eq_nil_iff] at he
  simp [he.1.1.1, he.1.1.2]

theorem statusText_no93 (g : GSpec) (h : (93 : UInt8) ∉ expState g) : (93 : UInt8) ∉ statusText g := by
  unfold statusText
  unfold expState at h
  intro hm
  simp only [List.mem_append] at hm
  rcases hm with ((hm | hm) | hm) | hm
  · exact h (List.mem_append_left _ hm)
  · exact h (List.mem_append_right _ hm)
  · split at hm
    · simp only [List.mem_append] at hm
      rcases hm with (hm | hm) | hm
      · revert hm; decide
      · exact not_mem_natToDec _ 93 (by decide) hm
      · revert hm; decide
    · simp at hm
  · split at hm
    · revert hm; decide
    · simp at hm

theorem minutes_ne_locked' (w : Nat) :
    natToDec w ++ [32, 109, 105, 110, 117, 116, 101, 115] ≠
      [108, 111, 99, 107, 101, 100, 32, 116, 111, 32, 116, 104, 114, 101, 97, 100] := by
  have := minutes_ne_locked w
  intro h
  rw [show (b!" minutes" : Bytes) = [32, 109, 105, 110, 117, 116, 101, 115] from rfl, h] at this
  revert this; decide

/-- the header line of a goroutine, as the scanner sees it after stripping the prefix -/
theorem parseHeader_print (indent : Bytes) (g : GSpec) (hind : indent.all isBlank = true)
    (hid : g.id < 10 ^ 18) (hw : g.waitMin < 10 ^ 18) (hst : statusWF g = true) (hgpm : gpmWF g.gpm = true) :
    parseHeader (indent ++ headerLine g) =
      some { indent := indent, id := g.id, state := expState g, sleep := g.waitMin, locked := g.locked } := by
  obtain ⟨h1, _, h3, h4⟩ := statusWF_iff g hst
  unfold parseHeader
  have hm : matchHeader (indent ++ headerLine g) = some ⟨indent, natToDec g.id, statusText g⟩ := by
    have := matchHeader_print indent g.id g.gpm (statusText g) hind hgpm (statusText_ne_nil g h1) (statusText_no93 g h3)
    simpa [headerLine] using this
  rw [hm]
  simp only [atou_natToDec g.id hid, splitOn_statusText g h4]
  unfold statusToks
  by_cases hw0 : g.waitMin > 0 <;> cases hl : g.locked <;>
    simp [hw0, minutes_ne_locked', matchMinutes_print, atou_natToDec g.waitMin hw, Extracted.lockedToThread]
  all_goals omega


theorem matchFunc_print (sym args : Bytes) (hs : sym ≠ []) (ha : (40 : UInt8) ∉ args) :
    matchFunc (sym ++ 40 :: (args ++ [41])) = some (sym, args) := by
  have e : sym ++ 40 :: (args ++ [41]) = (sym ++ 40 :: args) ++ [41] := by simp
  unfold matchFunc
  have hl : (sym ++ 40 :: (args ++ [41])).getLast? = some 41 := by rw [e, List.getLast?_append]; rfl
  have ht : (sym ++ 40 :: (args ++ [41])).take ((sym ++ 40 :: (args ++ [41])).length - 1) = sym ++ 40 :: args := by
    rw [e]
    have : ((sym ++ 40 :: args) ++ [41]).length - 1 = (sym ++ 40 :: args).length := by simp
    rw [this, List.take_left']
    rfl
  rw [hl]
  simp only [ht, lastIndexByte_append_cons sym args 40 ha]
  have : sym.length ≠ 0 := by
    intro h; exact hs (List.length_eq_zero_iff.1 h)
  simp [this]
end PP.Spec
namespace PP.Spec
open PP Bytes

structure SymOK (f : FrameSpec) (hasParent : Bool) : Prop where
  nl : (10 : UInt8) ∉ f.name
  slash : (47 : UInt8) ∉ f.name
  pct : (37 : UInt8) ∉ f.name
  cr : f.name.getLast? ≠ some 13
  csym : f.pkg = [] → f.name ≠ [] ∧ (46 : UInt8) ∉ f.name
  form : hasParent = false → inGorForm f.name = false
  head : ∃ c t, f.symbol = c :: t ∧ isBlank c = false
  created : hasPrefix f.symbol b!"created by " = false

theorem symWF_ok (f : FrameSpec) (hp : Bool) (h : symWF f hp = true) : SymOK f hp := by
  simp only [symWF, Bool.and_eq_true, bne_iff_ne, ne_eq, Bool.or_eq_true, Bool.not_eq_true',
    lacks_iff] at h
  obtain ⟨⟨⟨⟨⟨⟨⟨h1, h2⟩, h3⟩, h4⟩, h5⟩, h6⟩, h7⟩, h8⟩ := h
  refine ⟨h1, h2, h3, h4, ?_, ?_, ?_, h8⟩
  · intro hpk
    rcases h5 with h5 | h5
    · exact absurd hpk h5
    · exact h5
  · intro hf
    rcases h6 with h6 | h6
    · rw [hf] at h6; simp at h6
    · exact h6
  · cases hs : f.symbol with
    | nil => rw [hs] at h7; simp at h7
    | cons c t => rw [hs] at h7; simp at h7; exact ⟨c, t, rfl, h7⟩

/-- the arguments a frame's function line describes -/
def expArgsOf (f : FrameSpec) : Args :=
  if f.inlined then { elided := true } else { values := expArgs f.args, elided := f.argsElide }

/-- the call after the function line, before the file line -/
def preCall (f : FrameSpec) : Call :=
  { fn := expFunc f.pkg f.name none, importPath := f.pkg, args := expArgsOf f }

theorem parseFunc_print (f : FrameSpec) (hs : SymOK f false)
    (ha : f.inlined = true ∨ (argsWF f.args = true ∧ argsDepth f.args ≤ 5)) :
    parseFunc (funcLine f) = some (preCall f, none) := by
  obtain ⟨c, t, hsym, _⟩ := hs.head
  have hne : f.symbol ≠ [] := by rw [hsym]; simp
  have hfi : funcInit f.symbol = .ok (expFunc f.pkg f.name none) := by
    have := funcInit_symbol f none ⟨hs.slash, hs.pct⟩ (fun h => (hs.csym h).2) (fun _ => hs.form rfl)
    simpa [parentText] using this
  unfold parseFunc funcLine
  by_cases hin : f.inlined = true
  · have hm := matchFunc_print f.symbol b!"..." hne (by decide)
    simp only [hin, if_true]
    rw [show f.symbol ++ b!"(" ++ b!"..." ++ b!")" = f.symbol ++ 40 :: (b!"..." ++ [41]) by simp, hm]
    simp only [hfi, parseArgs_inlined]
    simp [preCall, expArgsOf, hin, expFunc]
  · rcases ha with ha | ha
    · exact absurd ha hin
    · have hm := matchFunc_print f.symbol (printArgList f.args f.argsElide) hne
        (printArgList_lacks _ _ 40 (by decide))
      simp only [hin]
      rw [show f.symbol ++ b!"(" ++ (if false = true then b!"..." else printArgList f.args f.argsElide) ++ b!")" =
        f.symbol ++ 40 :: (printArgList f.args f.argsElide ++ [41]) by simp, hm]
      simp only [hfi, parseArgs_print f.args f.argsElide ha.1 ha.2]
      simp [preCall, expArgsOf, hin, expFunc]


theorem span1_lowerHex_sp (n : Nat) (t : Bytes) :
    span1 isLowerHex (natToHex n ++ 32 :: t) = some (natToHex n, 32 :: t) :=
  span1_append isLowerHex (natToHex n) 32 t (natToHex_ne_nil n) (natToHex_all_lowerHex n) (by decide)

theorem hexThen_print_nil (pfx : Bytes) (n : Nat) : hexThen pfx (pfx ++ natToHex n) = some [] := by
  unfold hexThen
  simp only [Option.bind_eq_bind, stripPrefix_append, Option.bind_some,
    span1_all isLowerHex (natToHex n) (natToHex_ne_nil n) (natToHex_all_lowerHex n)]

theorem hexThen_print_sp (pfx : Bytes) (n : Nat) (t : Bytes) :
    hexThen pfx (pfx ++ (natToHex n ++ 32 :: t)) = some (32 :: t) := by
  unfold hexThen
  simp only [Option.bind_eq_bind, stripPrefix_append, Option.bind_some, span1_lowerHex_sp]

/-- the frame-pointer annotation passes the last group of reFile -/
theorem fpText_ok (fp : Option (Nat × Nat × Option Nat)) :
    ((fpText fp).isEmpty ||
      (match hexThen b!" fp=0x" (fpText fp) with
       | none => false
       | some r2 =>
         match hexThen b!" sp=0x" r2 with
         | none => false
         | some r3 => r3.isEmpty || (hexThen b!" pc=0x" r3 == some []))) = true := by
  cases fp with
  | none => rfl
  | some v =>
    obtain ⟨a, b, pc⟩ := v
    cases pc with
    | none =>
      have e : fpText (some (a, b, none)) = b!" fp=0x" ++ (natToHex a ++ 32 :: (b!"sp=0x" ++ natToHex b)) := by
        simp [fpText]
      rw [e, hexThen_print_sp]
      have e2 : (32 :: (b!"sp=0x" ++ natToHex b) : Bytes) = b!" sp=0x" ++ natToHex b := rfl
      simp only [e2, hexThen_print_nil]
      simp
    | some c =>
      have e : fpText (some (a, b, some c)) =
          b!" fp=0x" ++ (natToHex a ++ 32 :: (b!"sp=0x" ++ (natToHex b ++ 32 :: (b!"pc=0x" ++ natToHex c)))) := by
        simp [fpText]
      rw [e, hexThen_print_sp]
      have e2 : (32 :: (b!"sp=0x" ++ (natToHex b ++ 32 :: (b!"pc=0x" ++ natToHex c))) : Bytes) =
          b!" sp=0x" ++ (natToHex b ++ 32 :: (b!"pc=0x" ++ natToHex c)) := rfl
      simp only [e2, hexThen_print_sp]
      have e3 : (32 :: (b!"pc=0x" ++ natToHex c) : Bytes) = b!" pc=0x" ++ natToHex c := rfl
      simp only [e3, hexThen_print_nil]
      simp

/-- `fpText` is empty or starts with `" f"` -/
theorem fpText_shape (fp : Option (Nat × Nat × Option Nat)) :
    fpText fp = [] ∨ ∃ t, fpText fp = 32 :: 102 :: t := by
  cases fp with
  | none => exact Or.inl rfl
  | some v => obtain ⟨a, b, pc⟩ := v; exact Or.inr ⟨_, by simp [fpText]; rfl⟩

theorem hexThen_plus_fpText (fp : Option (Nat × Nat × Option Nat)) : hexThen b!" +0x" (fpText fp) = none := by
  rcases fpText_shape fp with h | ⟨t, h⟩ <;> rw [h] <;> simp [hexThen, stripPrefix, hasPrefix]

/-- the part of a file line after the path -/
def tailText (line : Nat) (off : Option Nat) (fp : Option (Nat × Nat × Option Nat)) : Bytes :=
  b!":" ++ (natToDec line ++ (offText off ++ fpText fp))

theorem fileTail_print (line : Nat) (off : Option Nat) (fp : Option (Nat × Nat × Option Nat)) :
    fileTail (tailText line off fp) = some (natToDec line) := by
  unfold fileTail tailText
  simp only [Option.bind_eq_bind, stripPrefix_append, Option.bind_some]
  have hsp : span1 isDigit (natToDec line ++ (offText off ++ fpText fp)) =
      some (natToDec line, offText off ++ fpText fp) := by
    cases off with
    | some o =>
      exact span1_append isDigit (natToDec line) 32 _ (natToDec_ne_nil _) (natToDec_all_digit _) (by decide)
    | none =>
      rcases fpText_shape fp with h | ⟨t, h⟩
      · simp only [offText, h, List.append_nil]
        exact span1_all isDigit _ (natToDec_ne_nil _) (natToDec_all_digit _)
      · simp only [offText, h, List.nil_append]
        exact span1_append isDigit (natToDec line) 32 _ (natToDec_ne_nil _) (natToDec_all_digit _) (by decide)
  rw [hsp]
  simp only [Option.bind_some]
  have hr1 : (hexThen b!" +0x" (offText off ++ fpText fp)).getD (offText off ++ fpText fp) = fpText fp := by
    cases off with
    | none => simp [offText, hexThen_plus_fpText]
    | some o =>
      rcases fpText_shape fp with h | ⟨t, h⟩
      · have := hexThen_print_nil b!" +0x" o
        simp only [offText, h, List.append_nil, this, Option.getD_some]
      · have := hexThen_print_sp b!" +0x" o (102 :: t)
        simp only [offText, h, List.append_assoc, this, Option.getD_some]
  rw [hr1]
  exact if_pos (fpText_ok fp)


theorem not_mem_of_all {p : UInt8 → Bool} {s : Bytes} {c : UInt8} (h : s.all p = true) (hc : p c = false) : c ∉ s := by
  intro hm
  rw [List.all_eq_true] at h
  have := h c hm
  rw [hc] at this
  exact Bool.noConfusion this

theorem hexThen_eq_some {pfx r r' : Bytes} (h : hexThen pfx r = some r') :
    ∃ hx, r = pfx ++ (hx ++ r') ∧ hx.all isLowerHex = true := by
  unfold hexThen at h
  simp only [Option.bind_eq_bind] at h
  cases h1 : stripPrefix pfx r with
  | none => rw [h1] at h; simp at h
  | some r0 =>
    rw [h1] at h
    simp only [Option.bind_some] at h
    cases h2 : span1 isLowerHex r0 with
    | none => rw [h2] at h; simp at h
    | some v =>
      obtain ⟨hx, r2⟩ := v
      rw [h2] at h
      simp only [Option.bind_some, Option.some.injEq] at h
      subst h
      obtain ⟨e, _, ha⟩ := span1_eq_some h2
      exact ⟨hx, by rw [stripPrefix_eq_some h1, e], ha⟩

theorem hexThen_no_dot {pfx r r' : Bytes} (h : hexThen pfx r = some r') (hp : (46 : UInt8) ∉ pfx)
    (hr : (46 : UInt8) ∉ r') : (46 : UInt8) ∉ r := by
  obtain ⟨hx, e, ha⟩ := hexThen_eq_some h
  rw [e]
  simp only [List.mem_append, not_or]
  exact ⟨hp, not_mem_of_all ha (by decide), hr⟩

theorem okB_no_dot (r1 : Bytes)
    (hok : (r1.isEmpty ||
      (match hexThen b!" fp=0x" r1 with
       | none => false
       | some r2 =>
         match hexThen b!" sp=0x" r2 with
         | none => false
         | some r3 => r3.isEmpty || (hexThen b!" pc=0x" r3 == some []))) = true) : (46 : UInt8) ∉ r1 := by
  rw [Bool.or_eq_true] at hok
  rcases hok with hok | hok
  · cases r1 with
    | nil => simp
    | cons a b => simp at hok
  · cases hfp : hexThen b!" fp=0x" r1 with
    | none => rw [hfp] at hok; simp at hok
    | some r2 =>
      rw [hfp] at hok
      simp only at hok
      cases hsp : hexThen b!" sp=0x" r2 with
      | none => rw [hsp] at hok; simp at hok
      | some r3 =>
        rw [hsp] at hok
        simp only [Bool.or_eq_true] at hok
        have hr3 : (46 : UInt8) ∉ r3 := by
          rcases hok with hok | hok
          · cases r3 with
            | nil => simp
            | cons a b => simp at hok
          · have : hexThen b!" pc=0x" r3 = some [] := by simpa using hok
            exact hexThen_no_dot this (by decide) (by simp)
        exact hexThen_no_dot hfp (by decide) (hexThen_no_dot hsp (by decide) hr3)

/-- what `fileTail` accepts contains no '.' -/
theorem fileTail_no_dot {t d : Bytes} (h : fileTail t = some d) : (46 : UInt8) ∉ t := by
  unfold fileTail at h
  simp only [Option.bind_eq_bind] at h
  cases h1 : stripPrefix b!":" t with
  | none => rw [h1] at h; simp at h
  | some r0 =>
    rw [h1] at h
    simp only [Option.bind_some] at h
    cases h2 : span1 isDigit r0 with
    | none => rw [h2] at h; simp at h
    | some v =>
      obtain ⟨dg, r⟩ := v
      rw [h2] at h
      simp only [Option.bind_some] at h
      obtain ⟨e2, _, hdg⟩ := span1_eq_some h2
      rw [stripPrefix_eq_some h1, e2]
      have hdg' : (46 : UInt8) ∉ dg := not_mem_of_all hdg (by decide)
      suffices hr : (46 : UInt8) ∉ r by
        simp only [List.mem_append, not_or]
        exact ⟨by decide, hdg', hr⟩
      by_cases hok : (((hexThen b!" +0x" r).getD r).isEmpty ||
          (match hexThen b!" fp=0x" ((hexThen b!" +0x" r).getD r) with
           | none => false
           | some r2 =>
             match hexThen b!" sp=0x" r2 with
             | none => false
             | some r3 => r3.isEmpty || (hexThen b!" pc=0x" r3 == some []))) = true
      · have hr1 := okB_no_dot _ hok
        cases hh : hexThen b!" +0x" r with
        | none => rw [hh] at hr1; exact hr1
        | some r' => rw [hh] at hr1; exact hexThen_no_dot hh (by decide) hr1
      · have h' : (none : Option Bytes) = some d := (if_neg hok).symm.trans h
        exact absurd h' (by simp)


theorem tailText_no_dot (line : Nat) (off : Option Nat) (fp : Option (Nat × Nat × Option Nat)) :
    (46 : UInt8) ∉ tailText line off fp :=
  fileTail_no_dot (fileTail_print line off fp)

/-- a path accepted by reFile -/
inductive PathOK : Bytes → Prop
  | unknown : PathOK b!"??"
  | autogen : PathOK autogen
  | ext (stem ext : Bytes) : stem ≠ [] → (ext = b!"c" ∨ ext = b!"go" ∨ ext = b!"s") → PathOK (stem ++ 46 :: ext)

/-- an alternative with a literal path fails on a remainder that contains a '.' -/
theorem alt_none (p r : Bytes) (hp : (46 : UInt8) ∉ p) (hr : (46 : UInt8) ∈ r) :
    ((stripPrefix p r).bind fun t => (fileTail t).bind fun d => some (FileMatch.mk p d)) = none := by
  cases h : stripPrefix p r with
  | none => rfl
  | some t =>
    simp only [Option.bind_some]
    have e := stripPrefix_eq_some h
    have ht : (46 : UInt8) ∈ t := by
      rw [e, List.mem_append] at hr
      rcases hr with hr | hr
      · exact absurd hr hp
      · exact hr
    cases h2 : fileTail t with
    | none => rfl
    | some d => exact absurd ht (fileTail_no_dot h2)

theorem filePath_print (path : Bytes) (hp : PathOK path) (line : Nat) (off : Option Nat)
    (fp : Option (Nat × Nat × Option Nat)) :
    filePath (path ++ tailText line off fp) = some ⟨path, natToDec line⟩ := by
  have hft := fileTail_print line off fp
  unfold filePath
  simp only [Option.bind_eq_bind]
  cases hp with
  | unknown => simp only [stripPrefix_append, Option.bind_some, hft]
  | autogen =>
    have h1 : stripPrefix b!"??" (autogen ++ tailText line off fp) = none := by
      simp [stripPrefix, hasPrefix, autogen]
    simp only [h1, Option.bind_none, stripPrefix_append, Option.bind_some, hft]
  | ext stem ext hstem hext =>
    have hdot : (46 : UInt8) ∈ stem ++ 46 :: ext ++ tailText line off fp := by simp
    have a1 := alt_none b!"??" _ (by decide) hdot
    have a2 := alt_none autogen _ (by decide) hdot
    rw [a1, a2]
    simp only
    have hnd : (46 : UInt8) ∉ ext ++ tailText line off fp := by
      rw [List.mem_append, not_or]
      refine ⟨?_, tailText_no_dot _ _ _⟩
      rcases hext with h | h | h <;> subst h <;> decide
    have hli : lastIndexByte (stem ++ 46 :: ext ++ tailText line off fp) 46 = some stem.length := by
      have := lastIndexByte_append_cons stem (ext ++ tailText line off fp) 46 hnd
      simpa using this
    rw [hli]
    have hlen : stem.length ≠ 0 := fun h => hstem (List.length_eq_zero_iff.1 h)
    simp only [hlen, if_false]
    have hdrop : (stem ++ 46 :: ext ++ tailText line off fp).drop (stem.length + 1) = ext ++ tailText line off fp := by
      have : stem ++ 46 :: ext ++ tailText line off fp = (stem ++ [46]) ++ (ext ++ tailText line off fp) := by simp
      rw [this, List.drop_left']
      simp
    have htake : (stem ++ 46 :: ext ++ tailText line off fp).take (stem.length + 1) = stem ++ [46] := by
      have : stem ++ 46 :: ext ++ tailText line off fp = (stem ++ [46]) ++ (ext ++ tailText line off fp) := by simp
      rw [this, List.take_left']
      simp
    rw [hdrop, htake]
    rcases hext with h | h | h <;> subst h
    · simp only [stripPrefix_append, Option.bind_some, hft]
      simp
    · have n1 : stripPrefix b!"c" (b!"go" ++ tailText line off fp) = none := by simp [stripPrefix, hasPrefix]
      simp only [n1, Option.bind_none, stripPrefix_append, Option.bind_some, hft]
      simp
    · have n1 : stripPrefix b!"c" (b!"s" ++ tailText line off fp) = none := by simp [stripPrefix, hasPrefix]
      have n2 : stripPrefix b!"go" (b!"s" ++ tailText line off fp) = none := by simp [stripPrefix, hasPrefix]
      simp only [n1, n2, Option.bind_none, stripPrefix_append, Option.bind_some, hft]
      simp


/-- a well-formed file indentation: one tab, or `n ≥ 1` spaces -/
inductive FileIndentOK : Bytes → Prop
  | tab : FileIndentOK [9]
  | spaces (n : Nat) : FileIndentOK (List.replicate (n + 1) 32)

/-- the first candidate remainder the engine tries is the text after the whole indentation -/
theorem indentCandidates_head (fi r : Bytes) (hfi : FileIndentOK fi)
    (hr : fi ≠ [9] → r.head? ≠ some 32) :
    ∃ rest, indentCandidates (fi ++ r) = r :: rest := by
  cases hfi with
  | tab => exact ⟨[], rfl⟩
  | spaces n =>
    have hr' : r.head? ≠ some 32 := hr (by simp [List.replicate_succ])
    have htw : ((List.replicate (n + 1) 32 ++ r).takeWhile (· == 32)).length = n + 1 := by
      cases r with
      | nil => simp
      | cons c t =>
        have hc : c ≠ 32 := by intro h; subst h; simp at hr'
        have := takeWhile_append_cons (· == 32) (List.replicate (n + 1) 32) c t (by simp) (by simp [hc])
        rw [this]; simp
    have e : List.replicate (n + 1) 32 ++ r = 32 :: (List.replicate n 32 ++ r) := by
      simp [List.replicate_succ]
    unfold indentCandidates
    rw [e]
    simp only
    rw [← e, htw]
    refine ⟨((List.range n).reverse.map fun k => (List.replicate (n + 1) 32 ++ r).drop (k + 1)), ?_⟩
    rw [List.range_succ, List.reverse_append]
    simp only [List.reverse_cons, List.reverse_nil, List.nil_append, List.singleton_append, List.map_cons]
    congr 1
    have : (List.replicate (n + 1) 32 ++ r).drop (n + 1) = r := by
      exact List.drop_left' (l₁ := List.replicate (n + 1) (32 : UInt8)) (l₂ := r) (by simp)
    exact this

theorem matchFile_print (fi path : Bytes) (hfi : FileIndentOK fi) (hp : PathOK path)
    (hsp : fi ≠ [9] → path.head? ≠ some 32) (line : Nat) (off : Option Nat)
    (fp : Option (Nat × Nat × Option Nat)) :
    matchFile (fi ++ (path ++ tailText line off fp)) = some ⟨path, natToDec line⟩ := by
  have hne : path ≠ [] := by
    cases hp with
    | unknown => decide
    | autogen => decide
    | ext stem ext h _ => simp
  obtain ⟨rest, hc⟩ := indentCandidates_head fi (path ++ tailText line off fp) hfi (by
    intro h
    have := hsp h
    cases path with
    | nil => exact absurd rfl hne
    | cons c t => simpa using this)
  unfold matchFile
  rw [hc, List.findSome?_cons, filePath_print path hp]

theorem parseFile_print (fi path : Bytes) (hfi : FileIndentOK fi) (hp : PathOK path)
    (hsp : fi ≠ [9] → path.head? ≠ some 32) (line : Nat) (hl : line < 10 ^ 18) (off : Option Nat)
    (fp : Option (Nat × Nat × Option Nat)) :
    parseFile (fi ++ (path ++ tailText line off fp)) = some (some (path, line)) := by
  unfold parseFile
  rw [matchFile_print fi path hfi hp hsp]
  simp [atou_natToDec line hl]


theorem extOK_pathOK (file : Bytes) (h : extOK file = true) : PathOK file := by
  simp only [extOK, Bool.or_eq_true, Bool.and_eq_true, decide_eq_true_eq] at h
  rcases h with (⟨h1, h2⟩ | ⟨h1, h2⟩) | ⟨h1, h2⟩
  · obtain ⟨a, rfl⟩ := (hasSuffix_iff _ _).1 h1
    have : a ≠ [] := by intro h; subst h; simp at h2
    exact PathOK.ext a b!"go" this (Or.inr (Or.inl rfl))
  · obtain ⟨a, rfl⟩ := (hasSuffix_iff _ _).1 h1
    have : a ≠ [] := by intro h; subst h; simp at h2
    exact PathOK.ext a b!"s" this (Or.inr (Or.inr rfl))
  · obtain ⟨a, rfl⟩ := (hasSuffix_iff _ _).1 h1
    have : a ≠ [] := by intro h; subst h; simp at h2
    exact PathOK.ext a b!"c" this (Or.inl rfl)

structure FileOK (c : PrintCfg) (file : Bytes) : Prop where
  nl : (10 : UInt8) ∉ file
  path : PathOK file
  sp : c.fileIndent ≠ [9] → file.head? ≠ some 32

theorem fileWF_ok (c : PrintCfg) (file : Bytes) (h : fileWF c.spaceIndent file = true) : FileOK c file := by
  simp only [fileWF, Bool.and_eq_true, Bool.or_eq_true, lacks_iff, beq_iff_eq, Bool.not_eq_true',
    bne_iff_ne, ne_eq] at h
  obtain ⟨⟨h1, h2⟩, h3⟩ := h
  refine ⟨h1, ?_, ?_⟩
  · rcases h2 with (h2 | h2) | h2
    · rw [h2]; exact PathOK.unknown
    · rw [h2]; exact PathOK.autogen
    · exact extOK_pathOK file h2
  · intro hne
    rcases h3 with h3 | h3
    · simp [PrintCfg.spaceIndent, hne] at h3
    · exact h3

theorem all_eq_replicate (s : Bytes) (c : UInt8) (h : s.all (· == c) = true) : s = List.replicate s.length c := by
  induction s with
  | nil => rfl
  | cons a t ih =>
    simp only [List.all_cons, Bool.and_eq_true, beq_iff_eq] at h
    rw [List.length_cons, List.replicate_succ, ← ih h.2, h.1]

structure CfgOK (c : PrintCfg) : Prop where
  indent : c.indent.all isBlank = true
  fileIndent : FileIndentOK c.fileIndent

theorem cfgWF_ok (c : PrintCfg) (h : cfgWF c = true) : CfgOK c := by
  simp only [cfgWF, Bool.and_eq_true, Bool.or_eq_true, beq_iff_eq, bne_iff_ne, ne_eq] at h
  obtain ⟨h1, h2⟩ := h
  refine ⟨h1, ?_⟩
  rcases h2 with h2 | ⟨h2, h3⟩
  · rw [h2]; exact FileIndentOK.tab
  · rw [all_eq_replicate _ _ h3]
    cases hl : c.fileIndent.length with
    | zero => exact absurd (List.length_eq_zero_iff.1 hl) h2
    | succ n => exact FileIndentOK.spaces n

/-! ### `created by`, the elision marker, the unavailable stack -/

theorem matchCreated_print (r : Bytes) (h : r ≠ []) : matchCreated (b!"created by " ++ r) = some r := by
  unfold matchCreated
  simp only [Option.bind_eq_bind, stripPrefix_append, Option.bind_some]
  cases r with
  | nil => exact absurd rfl h
  | cons a t => rfl

theorem matchCreated_none (t : Bytes) (h : hasPrefix t b!"created by " = false) : matchCreated t = none := by
  unfold matchCreated stripPrefix
  simp [h]

theorem isFramesElidedLine_print (cnt : Option Nat) : isFramesElidedLine (elidedMarker cnt) = true := by
  cases cnt with
  | none => rfl
  | some n =>
    unfold isFramesElidedLine elidedMarker
    have h1 : hasPrefix (b!"..." ++ natToDec n ++ b!" frames elided...") b!"..." = true := by
      rw [List.append_assoc]; exact hasPrefix_append _ _
    have h2 : hasSuffix (b!"..." ++ natToDec n ++ b!" frames elided...") b!" frames elided..." = true :=
      hasSuffix_append _ _
    rw [h1, h2]; simp

theorem elidedMarker_head (cnt : Option Nat) : ∃ t, elidedMarker cnt = 46 :: t := by
  cases cnt with
  | none => exact ⟨_, rfl⟩
  | some n => exact ⟨_, rfl⟩

theorem matchUnavail_print (fi : Bytes) (hfi : FileIndentOK fi) : matchUnavail (fi ++ unavailText) = true := by
  obtain ⟨rest, hc⟩ := indentCandidates_head fi unavailText hfi (fun _ => by decide)
  unfold matchUnavail
  rw [hc, List.any_cons]
  have : hasPrefix unavailText unavailText = true := by decide
  rw [this]; rfl

/-- a line that starts with neither a tab nor a space is not the `stack unavailable` line -/
theorem matchUnavail_nonblank (c : UInt8) (t : Bytes) (h : isBlank c = false) : matchUnavail (c :: t) = false := by
  unfold matchUnavail indentCandidates
  simp only [isBlank, Bool.or_eq_false_iff, beq_eq_false_iff_ne, ne_eq] at h
  split
  · rename_i heq; simp at heq; exact absurd heq.1 h.2
  · rename_i heq; simp at heq; exact absurd heq.1 h.1
  · rfl

/-- a line that ends with `)` is not an elision marker -/
theorem isFramesElidedLine_paren (s : Bytes) : isFramesElidedLine (s ++ [41]) = false := by
  unfold isFramesElidedLine
  have h1 : (s ++ [41] == b!"...additional frames elided...") = false := by
    rw [beq_eq_false_iff_ne]
    intro h
    have := congrArg List.getLast? h
    simp at this
  have h2 : hasSuffix (s ++ [41]) b!" frames elided..." = false := by
    cases hh : hasSuffix (s ++ [41]) b!" frames elided..." with
    | false => rfl
    | true =>
      obtain ⟨a, ha⟩ := (hasSuffix_iff _ _).1 hh
      have := congrArg List.getLast? ha
      simp at this
  rw [h1, h2]; simp

/-! ### the raw lines of a dump, as the reader delivers them -/

def eolOf (crlf : Bool) : Bytes := if crlf then [13, 10] else [10]

theorem eol_eq (c : PrintCfg) : c.eol = eolOf c.crlf := rfl

/-- a printed line: dump indentation, text, end of line -/
def rawLine (c : PrintCfg) (l : Bytes) : Bytes := c.indent ++ l ++ eolOf c.crlf

def goroutineRaw (c : PrintCfg) (g : GSpec) : List Bytes := (goroutineLines c g).map (rawLine c)

/-- the lines of a dump: goroutines separated by one blank line (a bare end of line) -/
def dumpRaw (c : PrintCfg) : List GSpec → List Bytes
  | [] => []
  | [g] => goroutineRaw c g
  | g :: gs => goroutineRaw c g ++ [eolOf c.crlf] ++ dumpRaw c gs

/-- bytes of the part of a file line after the path -/
def tailByte (x : UInt8) : Bool :=
  isLowerHex x || x == 58 || x == 32 || x == 43 || x == 120 || x == 112 || x == 115 || x == 61

end PP.Spec
