import PP.Lemmas.HtmlDocUrl
/-
The head of the rendered document (favicon link), the URL holes of the whole
document, and sample data for the examples of PP/Props/C17.lean.
-/
namespace PP.Html
open PP PP.Bytes

/-! ### the head of the rendered document -/

theorem renderPieces_cons_ok (p : Piece) (ps : List Piece) (b r : Bytes) (hp : p.render = .ok b)
    (hr : renderPieces ps = .ok r) : renderPieces (p :: ps) = .ok (b ++ r) := by
  simp only [renderPieces, hp, hr]

set_option maxRecDepth 100000 in
theorem docPieces_head (d : DocData) (ps : List Piece) (h : docPieces d = .ok ps) (r : Bytes)
    (hr : renderPieces ps = .ok r) :
    ∃ rest, r = Lit.t0 ++ Lit.t1 ++ attrEscaper (urlNormalizer d.favicon) ++ Lit.t2 ++ rest := by
  obtain ⟨_, hwf⟩ := docPieces_spec d ps h
  obtain ⟨c, hc, rfl⟩ := docPieces_eq d ps h
  have hwf' : ([Piece.lit Lit.t3, .lit Lit.t4] ++ c ++ metaPieces d.ver d.toDocMeta).all Piece.wf = true := by
    simp only [headPieces, List.all_append, List.all_cons, Bool.and_eq_true] at hwf ⊢
    simp [hwf.1.2, hwf.2]
  obtain ⟨rr, hrr, _⟩ := renderPieces_spec _ hwf'
  refine ⟨rr, ?_⟩
  have : headPieces d.toDocMeta ++ c ++ metaPieces d.ver d.toDocMeta =
      .lit Lit.t0 :: .lit Lit.t1 :: faviconHole d.favicon :: .lit Lit.t2 ::
        ([Piece.lit Lit.t3, .lit Lit.t4] ++ c ++ metaPieces d.ver d.toDocMeta) := by
    simp [headPieces]
  rw [this] at hr
  have h4 := renderPieces_cons_ok (.lit Lit.t2) _ _ _ rfl hrr
  have h3 := renderPieces_cons_ok (faviconHole d.favicon) _ _ _ (faviconHole_render d.favicon) h4
  have h2 := renderPieces_cons_ok (.lit Lit.t1) _ _ _ rfl h3
  have h1 := renderPieces_cons_ok (.lit Lit.t0) _ _ _ rfl h2
  have e := hr.symm.trans h1
  injection e with e
  rw [e]; simp only [List.append_assoc]

/-! ### every URL hole carries a builder's URL -/

/-- a URL hole whose value is empty or starts with one of the fixed prefixes -/
def goodHref : Piece → Bool
  | .hole .href v => startsWithOneOf allSchemes v
  | _ => true

theorem goodHref_of_noHref (ps : List Piece) (h : (holesOf ps).all (fun kv => kv.1 != .href) = true) :
    ps.all goodHref = true := by
  induction ps with
  | nil => rfl
  | cons p ps ih =>
    cases p with
    | lit b => simp only [holesOf_lit] at h; simp only [List.all_cons, goodHref, Bool.true_and]; exact ih h
    | hole k v =>
      simp only [holesOf_hole, List.all_cons, Bool.and_eq_true, bne_iff_ne, ne_eq] at h
      simp only [List.all_cons, Bool.and_eq_true]
      refine ⟨?_, ih h.2⟩
      cases k with
      | text => rfl
      | cls => rfl
      | href => exact absurd rfl h.1

theorem argItems_goodHref (e : Bool) (l : List Bytes) : (argItems e l).all goodHref = true := by
  induction l with
  | nil => rfl
  | cons x xs ih =>
    cases xs with
    | nil => cases e <;> simp [argItems, tx, goodHref]
    | cons y ys => simp only [argItems, List.all_cons, tx, goodHref, Bool.true_and] at ih ⊢; exact ih

theorem renderArgs_goodHref (a : Args) : (renderArgs a).all goodHref = true := by
  unfold renderArgs
  simp only [List.all_append, Bool.and_eq_true]
  refine ⟨⟨⟨rfl, ?_⟩, ?_⟩, rfl⟩
  · split <;> exact argItems_goodHref _ _
  · split <;> rfl

theorem srcPathPieces_goodHref (c : Call) : (srcPathPieces c).all goodHref = true := by
  unfold srcPathPieces; split <;> simp [tx, goodHref]

theorem callRow_goodHref (ver : Bytes) (i : Nat) (c : Call) (r : List Piece) (h : callRow ver i c = .ok r) :
    r.all goodHref = true := by
  unfold callRow at h
  split at h
  · rename_i pu su hpu hsu
    injection h with h; subst h
    have g1 : startsWithOneOf allSchemes pu = true := holeGuard_pkgURL ver c pu hpu
    have g2 : startsWithOneOf allSchemes su = true := holeGuard_srcURL ver c su hsu
    simp [List.all_append, srcPathPieces_goodHref, renderArgs_goodHref, tx, txNat, goodHref, g1, g2]
  · cases h
  · cases h

theorem callRows_goodHref (ver : Bytes) (cs : List Call) (i : Nat) (r : List Piece)
    (h : callRows ver i cs = .ok r) : r.all goodHref = true := by
  induction cs generalizing i r with
  | nil => simp only [callRows] at h; injection h with h; subst h; rfl
  | cons c cs ih =>
    unfold callRows at h
    split at h
    · cases h
    · rename_i row hrow
      split at h
      · cases h
      · rename_i rows hrows
        injection h with h; subst h
        rw [List.all_append, callRow_goodHref ver i c row hrow, ih (i + 1) rows hrows]; rfl

theorem renderCalls_goodHref (ver : Bytes) (s : Stack) (r : List Piece) (h : renderCalls ver s = .ok r) :
    r.all goodHref = true := by
  unfold renderCalls at h
  split at h
  · cases h
  · rename_i rows hrows
    injection h with h; subst h
    simp only [List.all_append, callRows_goodHref ver _ 0 rows hrows]
    split <;> rfl

theorem createdPieces_goodHref (ver : Bytes) (s : Signature) (r : List Piece) (h : createdPieces ver s = .ok r) :
    r.all goodHref = true := by
  unfold createdPieces at h
  split at h
  · injection h with h; subst h; rfl
  · rename_i c _ _
    split at h
    · cases h
    · rename_i ps hps
      injection h with h; subst h
      unfold renderCreatedBy at hps
      split at hps
      · rename_i pu su hpu hsu
        injection hps with hps; subst hps
        have g1 : startsWithOneOf allSchemes pu = true := holeGuard_pkgURL ver c pu hpu
        have g2 : startsWithOneOf allSchemes su = true := holeGuard_srcURL ver c su hsu
        simp [List.all_append, srcPathPieces_goodHref, tx, txNat, goodHref, g1, g2]
      · cases hps
      · cases hps

theorem sleepPieces_goodHref (s : Signature) : (sleepPieces s).all goodHref = true := by
  unfold sleepPieces
  split
  · split <;> simp [txNat, goodHref]
  · rfl

theorem lockedPieces_goodHref (s : Signature) : (lockedPieces s).all goodHref = true := by
  unfold lockedPieces; split <;> rfl

theorem racePieces_goodHref (g : Goroutine) : (racePieces g).all goodHref = true := by
  unfold racePieces; split <;> simp [tx, goodHref]

theorem goroutineBlock_goodHref (ver : Bytes) (g : Goroutine) (r : List Piece) (h : goroutineBlock ver g = .ok r) :
    r.all goodHref = true := by
  unfold goroutineBlock at h
  split at h
  · rename_i cr calls hcr hcalls
    injection h with h; subst h
    simp [List.all_append, sleepPieces_goodHref, lockedPieces_goodHref, racePieces_goodHref,
      createdPieces_goodHref ver _ cr hcr, renderCalls_goodHref ver _ calls hcalls, tx, txNat, goodHref]
  · cases h
  · cases h

theorem bucketBlock_goodHref (ver : Bytes) (i : Nat) (b : Bucket) (r : List Piece) (h : bucketBlock ver i b = .ok r) :
    r.all goodHref = true := by
  unfold bucketBlock at h
  split at h
  · rename_i cr calls hcr hcalls
    injection h with h; subst h
    simp only [List.all_append, sleepPieces_goodHref, lockedPieces_goodHref,
      createdPieces_goodHref ver _ cr hcr, renderCalls_goodHref ver _ calls hcalls, Bool.and_true]
    split <;> simp [tx, txNat, goodHref]
  · cases h
  · cases h

theorem contentOf_goodHref (ver : Bytes) (b : DocBody) (c : List Piece) (h : contentOf ver b = .ok c) :
    c.all goodHref = true := by
  cases b with
  | snapshot gs =>
    simp only [contentOf, contentSnapshot] at h
    induction gs generalizing c with
    | nil => simp only [goroutineBlocks] at h; injection h with h; subst h; rfl
    | cons g gs ih =>
      unfold goroutineBlocks at h
      split at h
      · cases h
      · rename_i b hb
        split at h
        · cases h
        · rename_i bs hbs
          injection h with h; subst h
          rw [List.all_append, goroutineBlock_goodHref ver g b hb, ih bs hbs]; rfl
  | aggregated bs =>
    simp only [contentOf, contentAggregated] at h
    generalize 0 = i at h
    induction bs generalizing i c with
    | nil => simp only [bucketBlocks] at h; injection h with h; subst h; rfl
    | cons g gs ih =>
      unfold bucketBlocks at h
      split at h
      · cases h
      · rename_i b hb
        split at h
        · cases h
        · rename_i bs hbs
          injection h with h; subst h
          rw [List.all_append, bucketBlock_goodHref ver i g b hb, ih bs (i + 1) hbs]; rfl

theorem hrefs_of_goodHref (ps : List Piece) (h : ps.all goodHref = true) :
    ∀ kv ∈ (holesOf ps).filter (fun kv => kv.1 == .href),
      ∃ r, renderHole .href kv.2 = .ok r ∧ startsWithOneOf allSchemes r = true := by
  induction ps with
  | nil => intro kv hkv; simp at hkv
  | cons p ps ih =>
    simp only [List.all_cons, Bool.and_eq_true] at h
    cases p with
    | lit b => simpa using ih h.2
    | hole k v =>
      intro kv hkv
      simp only [holesOf_hole, List.filter_cons] at hkv
      split at hkv
      · rename_i hk
        have hk' : k = .href := by simpa using hk
        subst hk'
        rcases List.mem_cons.1 hkv with rfl | hmem
        · exact ⟨_, rfl, hrefHole_prefix allSchemes allSchemes_plain v h.1⟩
        · exact ih h.2 kv hmem
      · exact ih h.2 kv hkv

theorem docPieces_hrefs (d : DocData) (ps : List Piece) (h : docPieces d = .ok ps) :
    ∃ rest, (holesOf ps).filter (fun kv => kv.1 == .href) = (.href, d.favicon) :: rest ∧
      ∀ kv ∈ rest, ∃ r, renderHole .href kv.2 = .ok r ∧ startsWithOneOf allSchemes r = true := by
  obtain ⟨c, hc, rfl⟩ := docPieces_eq d ps h
  have hm : (metaPieces d.ver d.toDocMeta).all goodHref = true :=
    goodHref_of_noHref _ (by simp [metaPieces_holes])
  have hall : (c ++ metaPieces d.ver d.toDocMeta).all goodHref = true := by
    rw [List.all_append, contentOf_goodHref d.ver d.body c hc, hm]; rfl
  refine ⟨(holesOf (c ++ metaPieces d.ver d.toDocMeta)).filter (fun kv => kv.1 == .href), ?_,
    hrefs_of_goodHref _ hall⟩
  rw [List.append_assoc, holesOf_append, headPieces_holes]
  simp

/-! ### `&` in the literals of the Metadata section -/

theorem all_of_inS (p : Bytes → Bool) (S l : List Bytes) (hS : S.all p = true) (h : inS S l = true) :
    l.all p = true := by
  simp only [inS, List.all_eq_true, List.contains_iff_mem] at *
  exact fun x hx => hS x (h x hx)

set_option maxRecDepth 100000 in
theorem metaLits_ampOK : metaLits.all ampOK = true := by decide

/-! ### sample data for the non-vacuity examples of PP/Props/C17.lean -/

/-- hostile metadata -/
def hostileMeta : DocMeta := {
  favicon := b!"R0lGOD+/=",
  now := b!"2026-09-29 12:00:00 +0000 UTC",
  gomaxprocs := 8,
  remoteGOROOT := b!"</script><script>alert(1)</script>",
  localGOROOT := b!"/usr/local/go\" onmouseover=\"alert(1)",
  localGOPATHs := [b!"/home/u/go", b!"' onload='x", b!"<!--"],
  localGomods := [(b!"javascript:alert(1)", b!"<img src=x onerror=alert(1)>"), (b!"/p&q", b!"data:text/html,<b>")],
  footer := b!"<p class=\"footer\">bye</p>" }

/-- the same shape with harmless values -/
def benignMeta : DocMeta := {
  favicon := b!"R0lGOD+/=", now := b!"now", gomaxprocs := 8,
  remoteGOROOT := b!"/goroot", localGOROOT := b!"/usr/local/go",
  localGOPATHs := [b!"/home/u/go", b!"/b", b!"/c"], localGomods := [(b!"/m", b!"example.com/m"), (b!"/n", b!"n")],
  footer := b!"<p class=\"footer\">bye</p>" }

def hostileGs : List Goroutine :=
  [{ id := 1, sig := { state := b!"\"><script>", stack := { calls := [{ fn := { name := b!"<b>" },
                                                                         remoteSrcPath := b!"/x/data:y.go", line := 3 }] } } }]
def benignGs : List Goroutine :=
  [{ id := 1, sig := { state := b!"running", stack := { calls := [{ fn := { name := b!"f" },
                                                                     remoteSrcPath := b!"/x/y.go", line := 3 }] } } }]

end PP.Html
