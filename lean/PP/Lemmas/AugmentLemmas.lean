import PP.Spec.Encode
/-
Lemmas for C19: classification of the type names the spec produces, the
two's complement round trip, one loop iteration on an encoded value, and the
bookkeeping facts about pop / popFmt / popName.
-/
set_option linter.unusedSimpArgs false

namespace PP.Spec
open PP PP.Bytes PP.Aug

/-! ### classify on the spec's type names -/

theorem classify_star (t : Bytes) : classify (b!"*" ++ t) = .star := by
  simp [classify, hasPrefix]

theorem classify_slice (t : Bytes) : classify (b!"[]" ++ t) = .slice := by
  simp [classify, hasPrefix]

theorem classify_map (k v : Bytes) : classify (b!"map[" ++ k ++ b!"]" ++ v) = .single := by
  simp [classify, hasPrefix]

theorem classify_chan (e : Bytes) : classify (b!"chan " ++ e) = .single := by
  simp [classify, hasPrefix]

/-! ### two's complement round trip -/

theorem toSigned_twos (sz : Sz) (v : Int)
    (h1 : -(2 ^ (sz.bits - 1) : Int) ≤ v) (h2 : v < (2 ^ (sz.bits - 1) : Int)) :
    toSigned sz.bits (twos sz.bits v) = v := by
  cases sz <;> simp only [toSigned, twos, Sz.bits] <;> simp [Sz.bits] at * <;> split <;> omega

theorem toSigned_twos64 (v : Int) (h1 : -(2 ^ 63 : Int) ≤ v) (h2 : v < (2 ^ 63 : Int)) :
    toSigned 64 (twos 64 v) = v := toSigned_twos .s64 v h1 h2

theorem toSigned_twos32 (v : Int) (h1 : -(2 ^ 31 : Int) ≤ v) (h2 : v < (2 ^ 31 : Int)) :
    toSigned 32 (twos 32 v) = v := toSigned_twos .s32 v h1 h2

/-! ### pops on a printed word -/

theorem flat1_word (v : Nat) : flat1 (word v) = [⟨[], v, false⟩] := by
  simp [word, flat1]

theorem popFmt_word (f : Nat → Bytes) (v : Nat) (rest : List Flat) :
    popFmt f (⟨[], v, false⟩ :: rest) = (f v, rest) := by
  simp [popFmt, pop]

theorem popName_word (v : Nat) (rest : List Flat) :
    popName (⟨[], v, false⟩ :: rest) = (hexAddr v, rest) := by
  simp [popName, pop, hexAddr]

/-- every helper advances the cursor by exactly one scalar (or stays at the end) -/
theorem pop_tail (flat : List Flat) : (pop flat).2 = flat.tail := by
  cases flat <;> rfl

theorem popFmt_tail (f : Nat → Bytes) (flat : List Flat) : (popFmt f flat).2 = flat.tail := by
  cases flat with
  | nil => rfl
  | cons a t => simp only [popFmt, pop]; split <;> rfl

theorem popName_tail (flat : List Flat) : (popName flat).2 = flat.tail := by
  cases flat with
  | nil => rfl
  | cons a t =>
    simp only [popName, pop]
    split
    · rfl
    · split <;> rfl

theorem popNames_drop (n : Nat) (flat : List Flat) : (popNames n flat).2 = flat.drop n := by
  induction n generalizing flat with
  | zero => rfl
  | succ n ih =>
    simp only [popNames]
    rw [ih, popName_tail]
    cases flat <;> simp

theorem popNames_length (n : Nat) (flat : List Flat) : (popNames n flat).1.length = n := by
  induction n generalizing flat with
  | zero => rfl
  | succ n ih => simp only [popNames, List.length_cons, ih]

end PP.Spec

namespace PP.Spec
open PP PP.Bytes PP.Aug

/-! ### one loop iteration on an encoded value -/

theorem flat1_encode1_ne (tv : TV) : flat1 (encode1 tv) ≠ [] := by
  cases tv <;> simp [encode1, flat1, flatL, word]

theorem flat1_encode1_length (tv : TV) : (flat1 (encode1 tv)).length = tv.words := by
  cases tv <;> simp [encode1, flat1, flatL, word, TV.words]

section render
variable (ff : FloatFmt) (vals : List Arg) (rest : List Flat)

theorem render_bool (b : Bool) :
    render ff (typeName (.bool b)) vals (flat1 (encode1 (.bool b)) ++ rest) = (showTV ff (.bool b), rest) := by
  have hc : classify b!"bool" = .bool := by decide
  simp only [render, typeName, hc, encode1, flat1_word, List.singleton_append, popFmt_word, showTV, fmtBool]
  cases b <;> simp

theorem render_int (sz : Sz) (v : Int) (h : (TV.int sz v).InRange) :
    render ff (typeName (.int sz v)) vals (flat1 (encode1 (.int sz v)) ++ rest) = (showTV ff (.int sz v), rest) := by
  have h8 : classify b!"int8" = .int8 := by decide
  have h16 : classify b!"int16" = .int16 := by decide
  have h32 : classify b!"int32" = .int32 := by decide
  have h64 : classify b!"int64" = .int64 := by decide
  have := toSigned_twos sz v h.1 h.2
  cases sz <;>
    simp only [render, typeName, h8, h16, h32, h64, encode1, flat1_word, List.singleton_append, popFmt_word, showTV] <;>
    simp only [Sz.bits] at this ⊢ <;> rw [this]

theorem render_uint (sz : Sz) (v : Nat) (h : (TV.uint sz v).InRange) :
    render ff (typeName (.uint sz v)) vals (flat1 (encode1 (.uint sz v)) ++ rest) = (showTV ff (.uint sz v), rest) := by
  have h8 : classify b!"uint8" = .uint := by decide
  have h16 : classify b!"uint16" = .uint := by decide
  have h32 : classify b!"uint32" = .uint := by decide
  have h64 : classify b!"uint64" = .uint := by decide
  have : v % 2 ^ sz.bits = v := Nat.mod_eq_of_lt h
  cases sz <;>
    simp only [render, typeName, h8, h16, h32, h64, encode1, flat1_word, List.singleton_append, popFmt_word, showTV] <;>
    rw [this]

theorem render_intUnsized (v : Int) (h : (TV.intUnsized v).InRange) :
    render ff (typeName (.intUnsized v)) vals (flat1 (encode1 (.intUnsized v)) ++ rest) = (showTV ff (.intUnsized v), rest) := by
  have hc : classify b!"int" = .int := by decide
  simp only [render, typeName, hc, encode1, flat1_word, List.singleton_append, popFmt_word, showTV]
  rw [toSigned_twos64 v h.1 h.2]

theorem render_rune (v : Int) (h : (TV.rune v).InRange) :
    render ff (typeName (.rune v)) vals (flat1 (encode1 (.rune v)) ++ rest) = (showTV ff (.rune v), rest) := by
  have hc : classify b!"rune" = .int32 := by decide
  simp only [render, typeName, hc, encode1, flat1_word, List.singleton_append, popFmt_word, showTV]
  rw [toSigned_twos32 v h.1 h.2]

theorem render_uintUnsized (v : Nat) (h : (TV.uintUnsized v).InRange) :
    render ff (typeName (.uintUnsized v)) vals (flat1 (encode1 (.uintUnsized v)) ++ rest) = (showTV ff (.uintUnsized v), rest) := by
  have hc : classify b!"uint" = .uint := by decide
  simp only [render, typeName, hc, encode1, flat1_word, List.singleton_append, popFmt_word, showTV]
  rw [Nat.mod_eq_of_lt h]

theorem render_uintptr (v : Nat) (h : (TV.uintptr v).InRange) :
    render ff (typeName (.uintptr v)) vals (flat1 (encode1 (.uintptr v)) ++ rest) = (showTV ff (.uintptr v), rest) := by
  have hc : classify b!"uintptr" = .uint := by decide
  simp only [render, typeName, hc, encode1, flat1_word, List.singleton_append, popFmt_word, showTV]
  rw [Nat.mod_eq_of_lt h]

theorem render_byte (v : Nat) (h : (TV.byte v).InRange) :
    render ff (typeName (.byte v)) vals (flat1 (encode1 (.byte v)) ++ rest) = (showTV ff (.byte v), rest) := by
  have hc : classify b!"byte" = .uint := by decide
  simp only [render, typeName, hc, encode1, flat1_word, List.singleton_append, popFmt_word, showTV]
  rw [Nat.mod_eq_of_lt h]

theorem render_f32 (b : Nat) (h : (TV.f32 b).InRange) :
    render ff (typeName (.f32 b)) vals (flat1 (encode1 (.f32 b)) ++ rest) = (showTV ff (.f32 b), rest) := by
  have hc : classify b!"float32" = .float32 := by decide
  have hb : b % 2 ^ 32 = b := Nat.mod_eq_of_lt h
  simp only [render, typeName, hc, encode1, flat1_word, List.singleton_append, popFmt_word, showTV]
  rw [hb, hb]

theorem render_f64 (b : Nat) (h : (TV.f64 b).InRange) :
    render ff (typeName (.f64 b)) vals (flat1 (encode1 (.f64 b)) ++ rest) = (showTV ff (.f64 b), rest) := by
  have hc : classify b!"float64" = .float64 := by decide
  simp only [render, typeName, hc, encode1, flat1_word, List.singleton_append, popFmt_word, showTV]
  rw [Nat.mod_eq_of_lt h]

theorem render_str (p l : Nat) :
    render ff (typeName (.str p l)) vals (flat1 (encode1 (.str p l)) ++ rest) = (showTV ff (.str p l), rest) := by
  have hc : classify b!"string" = .string := by decide
  simp only [render, typeName, hc]
  simp [encode1, flat1, flatL, flat1_word, popFmt_word, popName_word, showTV]

theorem render_slice (e : Bytes) (p l c : Nat) :
    render ff (typeName (.slice e p l c)) vals (flat1 (encode1 (.slice e p l c)) ++ rest) = (showTV ff (.slice e p l c), rest) := by
  simp only [render, typeName, classify_slice]
  simp [encode1, flat1, flatL, flat1_word, popFmt_word, popName_word, showTV]

theorem render_ptr (t : Bytes) (a : Nat) :
    render ff (typeName (.ptr t a)) vals (flat1 (encode1 (.ptr t a)) ++ rest) = (showTV ff (.ptr t a), rest) := by
  simp only [render, typeName, classify_star]
  simp [encode1, flat1_word, popName_word, showTV]

theorem render_map (k v : Bytes) (a : Nat) :
    render ff (typeName (.map k v a)) vals (flat1 (encode1 (.map k v a)) ++ rest) = (showTV ff (.map k v a), rest) := by
  simp only [render, typeName, classify_map]
  simp [encode1, flat1_word, popName_word, showTV]

theorem render_chan (e : Bytes) (a : Nat) :
    render ff (typeName (.chan e a)) vals (flat1 (encode1 (.chan e a)) ++ rest) = (showTV ff (.chan e a), rest) := by
  simp only [render, typeName, classify_chan]
  simp [encode1, flat1_word, popName_word, showTV]

theorem render_func (a : Nat) :
    render ff (typeName (.func a)) vals (flat1 (encode1 (.func a)) ++ rest) = (showTV ff (.func a), rest) := by
  have hc : classify b!"func" = .single := by decide
  simp only [render, typeName, hc]
  simp [encode1, flat1_word, popName_word, showTV]

/-- one iteration of the loop on the words of a typed value renders the value
and consumes exactly its words, whatever `call.Args.Values[i:]` is. -/
theorem render_encode1 (tv : TV) (h : tv.InRange) :
    render ff (typeName tv) vals (flat1 (encode1 tv) ++ rest) = (showTV ff tv, rest) := by
  cases tv with
  | bool b => exact render_bool ff vals rest b
  | int sz v => exact render_int ff vals rest sz v h
  | uint sz v => exact render_uint ff vals rest sz v h
  | intUnsized v => exact render_intUnsized ff vals rest v h
  | uintUnsized v => exact render_uintUnsized ff vals rest v h
  | uintptr v => exact render_uintptr ff vals rest v h
  | byte v => exact render_byte ff vals rest v h
  | rune v => exact render_rune ff vals rest v h
  | f32 b => exact render_f32 ff vals rest b h
  | f64 b => exact render_f64 ff vals rest b h
  | str p l => exact render_str ff vals rest p l
  | slice e p l c => exact render_slice ff vals rest e p l c
  | ptr t a => exact render_ptr ff vals rest t a
  | map k v a => exact render_map ff vals rest k v a
  | chan e a => exact render_chan ff vals rest e a
  | func a => exact render_func ff vals rest a

end render

theorem flatL_encode_cons (tv : TV) (vs : List TV) :
    flatL (encode (tv :: vs)) = flat1 (encode1 tv) ++ flatL (encode vs) := by
  simp [encode, flatL]

/-- the loop on an encoded list, with enough fuel -/
theorem augmentLoop_encode (ff : FloatFmt) (last : Option Bytes) (extra : Bool) (vs : List TV)
    (h : ∀ tv ∈ vs, tv.InRange) (fuel : Nat) (hf : vs.length ≤ fuel) (vals : List Arg) :
    augmentLoop ff last extra fuel (vs.map typeName) vals (flatL (encode vs)) = .ok (vs.map (showTV ff)) := by
  induction vs generalizing fuel vals with
  | nil => simp [encode, flatL, augmentLoop]
  | cons tv vs ih =>
    rw [flatL_encode_cons]
    cases hfl : flat1 (encode1 tv) ++ flatL (encode vs) with
    | nil => simp [flat1_encode1_ne] at hfl
    | cons a fl =>
      cases fuel with
      | zero => simp at hf
      | succ fuel =>
        simp only [List.map_cons, augmentLoop]
        rw [← hfl, render_encode1 ff vals (flatL (encode vs)) tv (h tv (by simp))]
        simp only
        rw [ih (fun t ht => h t (by simp [ht])) fuel (by simpa using hf)]
        rfl

end PP.Spec

namespace PP.Spec
open PP PP.Bytes PP.Aug

/-! ### the loop on arbitrary inputs -/

/-- what one iteration leaves of the scalars: a suffix of them, determined by
the case of the switch -/
theorem render_snd (ff : FloatFmt) (t : Bytes) (vals : List Arg) (flat : List Flat) :
    (render ff t vals flat).2 =
      match classify t, vals with
      | .string, _ => flat.tail.tail
      | .slice, _ => flat.tail.tail.tail
      | .other, .agg fs _ :: _ => flat.drop (flatL fs).length
      | .other, _ => flat.tail.tail
      | _, _ => flat.tail := by
  unfold render
  generalize classify t = k
  cases k <;> simp only [popFmt_tail, popName_tail, pop_tail]
  cases vals with
  | nil => simp only [popName_tail, pop_tail]
  | cons v vs =>
    cases v with
    | scalar => simp only [popName_tail, pop_tail]
    | agg fs e => simp only [popNames_drop]

/-- the loop's measure decreases at every iteration -/
theorem render_measure (ff : FloatFmt) (t : Bytes) (vals : List Arg) (a : Flat) (flat : List Flat) :
    (render ff t vals (a :: flat)).2.length + vals.tail.length < (a :: flat).length + vals.length := by
  rw [render_snd]
  generalize classify t = k
  cases k <;> simp only [List.tail_cons, List.length_tail, List.length_cons] <;> try omega
  cases vals with
  | nil => simp only [List.tail_cons, List.length_tail, List.length_cons, List.tail_nil, List.length_nil]; omega
  | cons v vs =>
    cases v with
    | scalar => simp only [List.tail_cons, List.length_tail, List.length_cons]; omega
    | agg fs e => simp only [List.length_drop, List.tail_cons, List.length_cons]; omega

/-- outcome of the loop: a list no longer than `n`, or the index panic, which
needs `types = []` and the ellipsis flag; never the fuel artefact -/
def Good (last : Option Bytes) (extra : Bool) (n : Nat) : Except AugErr (List Bytes) → Prop
  | .ok r => r.length ≤ n
  | .error .fuel => False
  | .error .index => last = none ∧ extra = true

theorem consOk_good {last : Option Bytes} {extra : Bool} {n m : Nat} (s : Bytes)
    {x : Except AugErr (List Bytes)} (h : Good last extra n x) (hm : n + 1 ≤ m) :
    Good last extra m (consOk s x) := by
  cases x with
  | ok r => simp only [consOk, Good, List.length_cons] at *; omega
  | error e => cases e <;> simp_all [consOk, Good]

theorem augmentLoop_good (ff : FloatFmt) (last : Option Bytes) (extra : Bool) (fuel : Nat)
    (tys : List Bytes) (vals : List Arg) (flat : List Flat) (h : flat.length + vals.length ≤ fuel) :
    Good last extra (flat.length + vals.length) (augmentLoop ff last extra fuel tys vals flat) := by
  induction fuel generalizing tys vals flat with
  | zero =>
    cases flat with
    | nil => simp [augmentLoop, Good]
    | cons a fl => simp at h
  | succ fuel ih =>
    cases flat with
    | nil => simp [augmentLoop, Good]
    | cons a fl =>
      have hm := fun t => render_measure ff t vals a fl
      cases tys with
      | nil =>
        simp only [augmentLoop]
        cases extra with
        | false =>
          simp only [Bool.not_false, if_true]
          have ht : (popName (a :: fl)).2 = fl := popName_tail _
          refine consOk_good _ (ih [] vals.tail _ ?_) ?_
          · rw [ht]; simp only [List.length_cons, List.length_tail] at *; omega
          · rw [ht]; simp only [List.length_cons, List.length_tail] at *; omega
        | true =>
          simp only [Bool.not_true]
          cases last with
          | none => simp [Good]
          | some t =>
            simp only
            refine consOk_good _ (ih [] vals.tail _ ?_) ?_
            · have := hm t; omega
            · have := hm t; omega
      | cons t tys' =>
        simp only [augmentLoop]
        refine consOk_good _ (ih tys' vals.tail _ ?_) ?_
        · have := hm t; omega
        · have := hm t; omega

end PP.Spec

namespace PP.Spec
open PP PP.Bytes PP.Aug

/-! ### tighter bound without empty top-level aggregates -/

/-- no top-level argument is an aggregate without scalars (`{}`) -/
def NoEmptyAgg (vals : List Arg) : Prop := ∀ a ∈ vals, flat1 a ≠ []

theorem render_consumes (ff : FloatFmt) (t : Bytes) (vals : List Arg) (a : Flat) (flat : List Flat)
    (hv : NoEmptyAgg vals) : (render ff t vals (a :: flat)).2.length ≤ flat.length := by
  rw [render_snd]
  generalize classify t = k
  cases k <;> simp only [List.tail_cons, List.length_tail, List.length_cons] <;> try omega
  cases vals with
  | nil => simp only [List.tail_cons, List.length_tail]; omega
  | cons v vs =>
    cases v with
    | scalar => simp only [List.tail_cons, List.length_tail]; omega
    | agg fs e =>
      have : flat1 (.agg fs e) ≠ [] := hv _ (by simp)
      simp only [flat1] at this
      have : (flatL fs).length ≠ 0 := by simpa using this
      simp only [List.length_drop, List.length_cons]; omega

theorem NoEmptyAgg.tail {vals : List Arg} (h : NoEmptyAgg vals) : NoEmptyAgg vals.tail :=
  fun a ha => h a (List.mem_of_mem_tail ha)

theorem consOk_length {s : Bytes} {x : Except AugErr (List Bytes)} {n m : Nat}
    (h : ∀ r, x = .ok r → r.length ≤ n) (hm : n + 1 ≤ m) :
    ∀ r, consOk s x = .ok r → r.length ≤ m := by
  intro r hr
  cases x with
  | ok r' =>
    simp only [consOk, Except.ok.injEq] at hr
    have := h r' rfl
    rw [← hr, List.length_cons]; omega
  | error e => simp [consOk] at hr

theorem augmentLoop_length_le_flat (ff : FloatFmt) (last : Option Bytes) (extra : Bool) (fuel : Nat)
    (tys : List Bytes) (vals : List Arg) (flat : List Flat) (hv : NoEmptyAgg vals) :
    ∀ r, augmentLoop ff last extra fuel tys vals flat = .ok r → r.length ≤ flat.length := by
  induction fuel generalizing tys vals flat with
  | zero =>
    cases flat with
    | nil => intro r hr; simp [augmentLoop] at hr; simp [← hr]
    | cons a fl => intro r hr; simp [augmentLoop] at hr
  | succ fuel ih =>
    cases flat with
    | nil => intro r hr; simp [augmentLoop] at hr; simp [← hr]
    | cons a fl =>
      have hm := fun t => render_consumes ff t vals a fl hv
      cases tys with
      | nil =>
        simp only [augmentLoop]
        cases extra with
        | false =>
          simp only [Bool.not_false, if_true]
          have ht : (popName (a :: fl)).2 = fl := popName_tail _
          refine consOk_length (ih [] vals.tail _ hv.tail) ?_
          rw [ht]; simp
        | true =>
          simp only [Bool.not_true]
          cases last with
          | none => intro r hr; simp at hr
          | some t =>
            simp only
            refine consOk_length (ih [] vals.tail _ hv.tail) ?_
            have := hm t; simp only [List.length_cons]; omega
      | cons t tys' =>
        simp only [augmentLoop]
        refine consOk_length (ih tys' vals.tail _ hv.tail) ?_
        have := hm t; simp only [List.length_cons]; omega

end PP.Spec
