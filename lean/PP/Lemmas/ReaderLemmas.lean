import PP.Model.Reader
/-
Helper lemmas for C09 (line reader refinement).
-/
namespace PP

/-! ### `cutNL` -/

theorem cutNL_append_left {a l r : Bytes} (b : Bytes) (h : cutNL a = some (l, r)) :
    cutNL (a ++ b) = some (l, r ++ b) := by
  induction a generalizing l r with
  | nil => simp [cutNL] at h
  | cons x xs ih =>
    simp only [List.cons_append, cutNL]
    simp only [cutNL] at h
    split
    · rename_i hx; simp [hx] at h; obtain ⟨rfl, rfl⟩ := h; simp [hx]
    · rename_i hx
      simp [hx] at h
      split at h
      · rename_i l' r' h'
        simp at h
        rw [ih h']
        simp [h]
      · simp at h

theorem cutNL_append_none {a : Bytes} (b : Bytes) (h : cutNL a = none) :
    cutNL (a ++ b) = (cutNL b).map (fun p => (a ++ p.1, p.2)) := by
  induction a with
  | nil => cases hb : cutNL b <;> simp [hb]
  | cons x xs ih =>
    simp only [List.cons_append, cutNL]
    simp only [cutNL] at h
    split
    · rename_i hx; simp [hx] at h
    · rename_i hx
      simp [hx] at h
      have h' : cutNL xs = none := by
        cases hc : cutNL xs with
        | none => rfl
        | some p => simp [hc] at h
      rw [ih h']
      cases cutNL b <;> simp

theorem cutNL_none_iff (bs : Bytes) : cutNL bs = none ↔ (10 : UInt8) ∉ bs := by
  induction bs with
  | nil => simp [cutNL]
  | cons x xs ih =>
    simp only [cutNL]
    split
    · rename_i hx; simp [hx]
    · rename_i hx
      cases hc : cutNL xs with
      | none =>
        have := ih.mp hc
        simp [this]; exact fun h => hx h.symm
      | some p =>
        have : ¬ ((10 : UInt8) ∉ xs) := fun h => by simp [ih.mpr h] at hc
        simp at this
        simp [this]

theorem cutNL_some_spec {bs l rest : Bytes} (h : cutNL bs = some (l, rest)) :
    ∃ p, (10 : UInt8) ∉ p ∧ l = p ++ [10] ∧ bs = l ++ rest := by
  induction bs generalizing l with
  | nil => simp [cutNL] at h
  | cons x xs ih =>
    simp only [cutNL] at h
    split at h
    · rename_i hx
      simp at h
      obtain ⟨rfl, rfl⟩ := h
      exact ⟨[], by simp, by simp [hx], by simp⟩
    · rename_i hx
      split at h
      · rename_i l' r' h'
        simp at h
        obtain ⟨rfl, rfl⟩ := h
        obtain ⟨p, hp, hl, hb⟩ := ih h'
        refine ⟨x :: p, ?_, by simp [hl], by simp [← hb]⟩
        simp [hp]; exact fun h => hx h.symm
      · simp at h

theorem cutNL_line (p rest : Bytes) (hp : (10 : UInt8) ∉ p) :
    cutNL (p ++ [10] ++ rest) = some (p ++ [10], rest) := by
  rw [List.append_assoc, cutNL_append_none _ ((cutNL_none_iff p).mpr hp)]
  simp [cutNL]

theorem cutNL_some_iff (bs l rest : Bytes) :
    cutNL bs = some (l, rest) ↔ ∃ p, (10 : UInt8) ∉ p ∧ l = p ++ [10] ∧ bs = l ++ rest := by
  constructor
  · exact cutNL_some_spec
  · rintro ⟨p, hp, rfl, rfl⟩
    exact cutNL_line p rest hp

theorem cutNL_some_length {bs l rest : Bytes} (h : cutNL bs = some (l, rest)) :
    rest.length < bs.length := by
  obtain ⟨p, _, rfl, rfl⟩ := cutNL_some_spec h
  simp; omega

/-! ### `splitLines` -/

theorem splitLines_of_cutNL_none {bs : Bytes} (h : cutNL bs = none) : splitLines bs = ([], bs) := by
  induction bs with
  | nil => simp [splitLines]
  | cons x xs ih =>
    simp only [cutNL] at h
    split at h
    · simp at h
    · rename_i hx
      have h' : cutNL xs = none := by
        cases hc : cutNL xs with
        | none => rfl
        | some p => simp [hc] at h
      simp [splitLines, ih h', hx]

theorem splitLines_of_cutNL_some {bs l rest : Bytes} (h : cutNL bs = some (l, rest)) :
    splitLines bs = (l :: (splitLines rest).1, (splitLines rest).2) := by
  induction bs generalizing l with
  | nil => simp [cutNL] at h
  | cons x xs ih =>
    simp only [cutNL] at h
    split at h
    · rename_i hx
      simp at h
      obtain ⟨rfl, rfl⟩ := h
      simp [splitLines, hx]
    · rename_i hx
      split at h
      · rename_i l' r' h'
        simp at h
        obtain ⟨rfl, rfl⟩ := h
        simp [splitLines, ih h', hx]
      · simp at h

/-- `splitLines (l ++ bs)` when `l` is a complete line -/
theorem splitLines_line_append (p bs : Bytes) (hp : (10 : UInt8) ∉ p) :
    splitLines (p ++ [10] ++ bs) = ((p ++ [10]) :: (splitLines bs).1, (splitLines bs).2) :=
  splitLines_of_cutNL_some (cutNL_line p bs hp)

theorem splitLines_join (bs : Bytes) : (splitLines bs).1.flatten ++ (splitLines bs).2 = bs := by
  induction bs with
  | nil => simp [splitLines]
  | cons x xs ih =>
    simp only [splitLines]
    split
    · rename_i hx; simp [ih]
    · rename_i hx
      split
      · rename_i hl; simp [hl] at ih; simp [ih]
      · rename_i l ls' hl; simp [hl] at ih; simp [ih]

theorem splitLines_tail_noNL (bs : Bytes) : (10 : UInt8) ∉ (splitLines bs).2 := by
  induction bs with
  | nil => simp [splitLines]
  | cons x xs ih =>
    simp only [splitLines]
    split
    · exact ih
    · rename_i hx
      split
      · simp [ih]; exact fun h => hx h.symm
      · exact ih

theorem splitLines_lines (bs : Bytes) :
    ∀ l ∈ (splitLines bs).1, ∃ p, (10 : UInt8) ∉ p ∧ l = p ++ [10] := by
  induction bs with
  | nil => simp [splitLines]
  | cons x xs ih =>
    simp only [splitLines]
    split
    · rename_i hx
      intro l hl
      simp at hl
      rcases hl with rfl | hl
      · exact ⟨[], by simp, by simp [hx]⟩
      · exact ih l hl
    · rename_i hx
      split
      · simp
      · rename_i l0 ls' hl0
        rw [hl0] at ih
        intro l hl
        simp at hl
        rcases hl with rfl | hl
        · obtain ⟨p, hp, rfl⟩ := ih l0 (by simp)
          refine ⟨x :: p, ?_, by simp⟩
          simp [hp]; exact fun h => hx h.symm
        · exact ih l (by simp [hl])

/-! ### schedules, `Src.read`, `fillLoop` -/

open maxZeroRun

theorem zeroPrefix_le_maxZeroRun (l : List Nat) : zeroPrefix l ≤ maxZeroRun l := by
  induction l with
  | nil => simp [zeroPrefix, maxZeroRun]
  | cons x t ih =>
    cases x with
    | zero => simp [zeroPrefix, maxZeroRun]; omega
    | succ n => simp [zeroPrefix]

theorem maxZeroRun_tail_le (x : Nat) (t : List Nat) : maxZeroRun t ≤ maxZeroRun (x :: t) := by
  cases x with
  | zero => simp [maxZeroRun]; omega
  | succ n => simp [maxZeroRun]

theorem maxZeroRun_drop_one_le (l : List Nat) : maxZeroRun (l.drop 1) ≤ maxZeroRun l := by
  cases l with
  | nil => simp
  | cons x t => simpa using maxZeroRun_tail_le x t

/-- number of bytes the next `Read` is willing to deliver -/
def Src.nextN (s : Src) (space : Nat) : Nat :=
  match s.sched with
  | [] => space
  | k :: _ => min k space

theorem Src.read_eq (s : Src) (space : Nat) :
    s.read space =
      if s.rest = [] then ([], some s.final, s)
      else
        let s' : Src := { s with rest := s.rest.drop (s.nextN space), sched := s.sched.drop 1 }
        if s.rest.drop (s.nextN space) = [] && s.withData && s.nextN space > 0 then
          (s.rest.take (s.nextN space), some s.final, s')
        else (s.rest.take (s.nextN space), none, s') := rfl

theorem Src.nextN_le (s : Src) (space : Nat) : s.nextN space ≤ space := by
  unfold Src.nextN; split <;> omega

theorem Src.nextN_zero {s : Src} {space : Nat} (h : s.nextN space = 0) (hsp : 0 < space) :
    zeroPrefix (s.sched.drop 1) + 1 ≤ zeroPrefix s.sched := by
  unfold Src.nextN at h
  split at h
  · omega
  · rename_i k t hs
    have : k = 0 := by omega
    subst this
    simp [hs, zeroPrefix]; omega

/-- everything the proofs need to know about one `Read` -/
theorem Src.read_spec {s : Src} {space : Nat} {c : Bytes} {e : Option RErr} {s' : Src}
    (h : s.read space = (c, e, s')) :
    c ++ s'.rest = s.rest ∧ c.length ≤ space ∧ s'.final = s.final ∧ s'.withData = s.withData ∧
    maxZeroRun s'.sched ≤ maxZeroRun s.sched ∧
    (∀ x, e = some x → x = s.final ∧ s'.rest = []) ∧
    (e = none → c = [] → 0 < space → zeroPrefix s'.sched + 1 ≤ zeroPrefix s.sched) := by
  rw [Src.read_eq] at h
  have hle := Src.nextN_le s space
  split at h
  · rename_i hr
    simp at h
    obtain ⟨rfl, rfl, rfl⟩ := h
    simp [hr]
  · rename_i hr
    dsimp only at h
    split at h
    · rename_i hcond
      simp only [Prod.mk.injEq] at h
      obtain ⟨rfl, rfl, rfl⟩ := h
      simp at hcond
      refine ⟨by simp, ?_, rfl, rfl, maxZeroRun_drop_one_le _, ?_, by simp⟩
      · simp; omega
      · intro x hx; simp at hx; subst hx; simp [hcond.1.1]
    · simp only [Prod.mk.injEq] at h
      obtain ⟨rfl, rfl, rfl⟩ := h
      refine ⟨by simp, ?_, rfl, rfl, maxZeroRun_drop_one_le _, by simp, ?_⟩
      · simp; omega
      · intro _ hc hsp
        simp at hc
        rcases hc with hc | hc
        · exact Src.nextN_zero hc hsp
        · exact absurd hc hr

/-- what one `fill` retry loop does -/
theorem fillLoop_spec (N : Nat) (k : Nat) (r : Rd) :
    (fillLoop N k r).buf ++ (fillLoop N k r).src.rest = r.buf ++ r.src.rest ∧
    (r.buf.length ≤ N → (fillLoop N k r).buf.length ≤ N) ∧
    (fillLoop N k r).src.final = r.src.final ∧
    maxZeroRun (fillLoop N k r).src.sched ≤ maxZeroRun r.src.sched ∧
    r.buf.length ≤ (fillLoop N k r).buf.length ∧
    (((fillLoop N k r).err = r.err ∧ r.buf.length < (fillLoop N k r).buf.length) ∨
     ((fillLoop N k r).err = some r.src.final ∧ (fillLoop N k r).src.rest = []) ∨
     ((fillLoop N k r).err = some .noProgress ∧
        (r.buf.length < N → k ≤ zeroPrefix r.src.sched))) := by
  induction k generalizing r with
  | zero => simp [fillLoop]
  | succ k ih =>
    rcases hrd : r.src.read (N - r.buf.length) with ⟨c, e, s'⟩
    obtain ⟨h1, h2, h3, _, h5, h6, h7⟩ := Src.read_spec hrd
    simp only [fillLoop, hrd]
    cases e with
    | some x =>
      obtain ⟨rfl, hx⟩ := h6 x rfl
      refine ⟨?_, ?_, h3, h5, by simp, Or.inr (Or.inl ⟨rfl, hx⟩)⟩
      · simp [h1]
      · intro hb; simp; omega
    | none =>
      dsimp only
      split
      · rename_i hc
        refine ⟨?_, ?_, h3, h5, by simp, Or.inl ⟨rfl, ?_⟩⟩
        · simp [h1]
        · intro hb; simp; omega
        · simp; omega
      · rename_i hc
        have hc0 : c = [] := by
          cases c with
          | nil => rfl
          | cons a t => simp at hc
        subst hc0
        obtain ⟨i1, i2, i3, i4, i5, i6⟩ := ih { r with buf := r.buf ++ [], src := s' }
        simp only [List.append_nil, List.nil_append] at i1 i2 i3 i4 i5 i6 h1 ⊢
        refine ⟨by rw [i1, h1], i2, by rw [i3, h3], by omega, i5, ?_⟩
        rcases i6 with i6 | i6 | i6
        · exact Or.inl i6
        · exact Or.inr (Or.inl ⟨by rw [i6.1, h3], i6.2⟩)
        · refine Or.inr (Or.inr ⟨i6.1, fun hlt => ?_⟩)
          have := i6.2 hlt
          have := h7 rfl rfl (by omega)
          omega

/-! ### `readSlice` -/

/-- no panic, and the capacity invariant is preserved -/
theorem readSlice_inv (N retry fuel : Nat) (r : Rd) (hb : r.buf.length ≤ N) :
    (∀ p, readSlice N retry fuel r ≠ some (.error p)) ∧
    (∀ f e r', readSlice N retry fuel r = some (.ok (f, e, r')) → r'.buf.length ≤ N) := by
  induction fuel generalizing r with
  | zero => simp [readSlice]
  | succ fuel ih =>
    unfold readSlice
    split
    · rename_i l rest hc
      obtain ⟨p, _, rfl, hbuf⟩ := cutNL_some_spec hc
      refine ⟨by simp, ?_⟩
      intro f e r' h
      simp at h
      obtain ⟨_, _, rfl⟩ := h
      simp [hbuf] at hb ⊢
      omega
    · split
      · refine ⟨by simp, ?_⟩
        intro f e r' h
        simp at h
        obtain ⟨_, _, rfl⟩ := h
        simp
      · split
        · refine ⟨by simp, ?_⟩
          intro f e r' h
          simp at h
          obtain ⟨_, _, rfl⟩ := h
          simp
        · rename_i hne
          have hlt : ¬ r.buf.length ≥ N := by omega
          simp only [fill, hlt, if_false]
          exact ih _ ((fillLoop_spec N retry r).2.1 hb)

/-- `N - |buf| + 1` fills suffice (one when an error is pending) -/
theorem readSlice_isSome (N retry fuel : Nat) (r : Rd) (hb : r.buf.length ≤ N)
    (h1 : 1 ≤ fuel) (h2 : r.err = none → N + 1 ≤ fuel + r.buf.length) :
    (readSlice N retry fuel r).isSome := by
  induction fuel generalizing r with
  | zero => omega
  | succ fuel ih =>
    unfold readSlice
    split
    · simp
    · split
      · simp
      · rename_i he
        split
        · simp
        · rename_i hne
          have hlt : ¬ r.buf.length ≥ N := by omega
          simp only [fill, hlt, if_false]
          obtain ⟨_, g2, _, _, _, g6⟩ := fillLoop_spec N retry r
          have h2' := h2 he
          apply ih _ (g2 hb) (by omega)
          intro he'
          rcases g6 with g | g | g
          · omega
          · rw [he'] at g; simp at g
          · rw [he'] at g; simp at g

/-- reader invariant: capacity respected; a pending error is the terminal error and the
source is drained -/
def Good (N : Nat) (r : Rd) : Prop :=
  r.buf.length ≤ N ∧ (r.err = none ∨ (r.err = some r.src.final ∧ r.src.rest = []))

theorem readSlice_spec (N retry fuel : Nat) (r : Rd) (f : Bytes) (e : Option SliceErr) (r' : Rd)
    (hG : Good N r) (hR : maxZeroRun r.src.sched < retry)
    (h : readSlice N retry fuel r = some (.ok (f, e, r'))) :
    Good N r' ∧ r'.src.final = r.src.final ∧ maxZeroRun r'.src.sched ≤ maxZeroRun r.src.sched ∧
    ((e = none ∧ cutNL (r.buf ++ r.src.rest) = some (f, r'.buf ++ r'.src.rest)) ∨
     (e = some (.rerr r.src.final) ∧ cutNL (r.buf ++ r.src.rest) = none ∧ f = r.buf ++ r.src.rest ∧
        r'.buf = [] ∧ r'.src.rest = [] ∧ r'.err = none) ∨
     (e = some .bufferFull ∧ cutNL f = none ∧ f.length = N ∧
        f ++ r'.src.rest = r.buf ++ r.src.rest ∧ r'.buf = [] ∧ r'.err = none)) := by
  induction fuel generalizing r with
  | zero => simp [readSlice] at h
  | succ fuel ih =>
    obtain ⟨hb, hE⟩ := hG
    unfold readSlice at h
    split at h
    · rename_i l rest hc
      simp at h
      obtain ⟨rfl, rfl, rfl⟩ := h
      obtain ⟨p, _, rfl, hbuf⟩ := cutNL_some_spec hc
      refine ⟨⟨?_, hE⟩, rfl, Nat.le_refl _, Or.inl ⟨rfl, ?_⟩⟩
      · simp [hbuf] at hb ⊢; omega
      · exact cutNL_append_left _ hc
    · rename_i hc
      split at h
      · rename_i x hx
        simp at h
        obtain ⟨rfl, rfl, rfl⟩ := h
        rcases hE with hE | ⟨hE, hrest⟩
        · rw [hE] at hx; simp at hx
        · rw [hE] at hx
          simp at hx
          subst hx
          refine ⟨⟨by simp, Or.inl rfl⟩, rfl, Nat.le_refl _, Or.inr (Or.inl ?_)⟩
          simp [hrest, hc]
      · rename_i he
        split at h
        · rename_i hfull
          simp at h
          obtain ⟨rfl, rfl, rfl⟩ := h
          refine ⟨⟨by simp, Or.inl he⟩, rfl, Nat.le_refl _, Or.inr (Or.inr ?_)⟩
          simp [hc, hfull, he]
        · rename_i hne
          have hlt : ¬ r.buf.length ≥ N := by omega
          simp only [fill, hlt, if_false] at h
          obtain ⟨g1, g2, g3, g4, _, g6⟩ := fillLoop_spec N retry r
          have hz := zeroPrefix_le_maxZeroRun r.src.sched
          have hG' : Good N (fillLoop N retry r) := by
            refine ⟨g2 hb, ?_⟩
            rcases g6 with g | g | g
            · exact Or.inl (by rw [g.1, he])
            · exact Or.inr ⟨by rw [g.1, g3], g.2⟩
            · have := g.2 (by omega); omega
          obtain ⟨i1, i2, i3, i4⟩ := ih _ hG' (by omega) h
          rw [g1, g3] at i4
          exact ⟨i1, by rw [i2, g3], by omega, i4⟩

/-- bytes are conserved by `readSlice` (no assumption on the schedule) -/
theorem readSlice_conserve (N retry fuel : Nat) (r : Rd) (f : Bytes) (e : Option SliceErr) (r' : Rd)
    (h : readSlice N retry fuel r = some (.ok (f, e, r'))) :
    f ++ (r'.buf ++ r'.src.rest) = r.buf ++ r.src.rest ∧
    (e = some .bufferFull → f.length = N ∧ r'.buf = []) := by
  induction fuel generalizing r with
  | zero => simp [readSlice] at h
  | succ fuel ih =>
    unfold readSlice at h
    split at h
    · rename_i l rest hc
      simp at h
      obtain ⟨rfl, rfl, rfl⟩ := h
      obtain ⟨p, _, rfl, hbuf⟩ := cutNL_some_spec hc
      simp [hbuf]
    · split at h
      · simp at h
        obtain ⟨rfl, rfl, rfl⟩ := h
        simp
      · split at h
        · rename_i hfull
          simp at h
          obtain ⟨rfl, rfl, rfl⟩ := h
          simp [hfull]
        · split at h
          · simp at h
          · rename_i r1 hf
            unfold fill at hf
            split at hf
            · simp at hf
            · simp at hf
              subst hf
              have := ih _ h
              rw [(fillLoop_spec N retry r).1] at this
              exact this

/-! ### `readLine` -/

theorem readLine_inv (N retry fuel : Nat) (acc : Bytes) (r : Rd) (hb : r.buf.length ≤ N) :
    (∀ p, readLine N retry fuel acc r ≠ some (.error p)) ∧
    (∀ l e r', readLine N retry fuel acc r = some (.ok (l, e, r')) → r'.buf.length ≤ N) := by
  induction fuel generalizing acc r with
  | zero => simp [readLine]
  | succ fuel ih =>
    obtain ⟨k1, k2⟩ := readSlice_inv N retry (N + 2) r hb
    unfold readLine
    split
    · simp
    · rename_i p hp; exact absurd hp (k1 p)
    · rename_i f r1 hs; exact ih _ _ (k2 _ _ _ hs)
    · rename_i f x r1 hs
      refine ⟨by simp, ?_⟩
      intro l e r' h
      simp at h
      obtain ⟨_, _, rfl⟩ := h
      exact k2 _ _ _ hs
    · rename_i f r1 hs
      refine ⟨by simp, ?_⟩
      intro l e r' h
      simp at h
      obtain ⟨_, _, rfl⟩ := h
      exact k2 _ _ _ hs

theorem readLine_isSome (N retry fuel : Nat) (acc : Bytes) (r : Rd) (hN : 0 < N)
    (hb : r.buf.length ≤ N) (hf : r.buf.length + r.src.rest.length + 1 ≤ fuel) :
    (readLine N retry fuel acc r).isSome := by
  induction fuel generalizing acc r with
  | zero => omega
  | succ fuel ih =>
    have hs := readSlice_isSome N retry (N + 2) r hb (by omega) (by intro; omega)
    unfold readLine
    split
    · rename_i hn; simp [hn] at hs
    · simp
    · rename_i f r1 hsl
      obtain ⟨c1, c2⟩ := readSlice_conserve _ _ _ _ _ _ _ hsl
      obtain ⟨c2, c3⟩ := c2 rfl
      have hlen := congrArg List.length c1
      simp [c3] at hlen
      apply ih
      · simp [c3]
      · simp [c3]; omega
    · simp
    · simp

theorem readLine_spec_aux (N retry fuel : Nat) (acc : Bytes) (r : Rd) (line : Bytes)
    (e : Option RErr) (r' : Rd)
    (hG : Good N r) (hR : maxZeroRun r.src.sched < retry) (hacc : cutNL acc = none)
    (h : readLine N retry fuel acc r = some (.ok (line, e, r'))) :
    Good N r' ∧ r'.src.final = r.src.final ∧ maxZeroRun r'.src.sched ≤ maxZeroRun r.src.sched ∧
    ((e = none ∧ cutNL (acc ++ (r.buf ++ r.src.rest)) = some (line, r'.buf ++ r'.src.rest)) ∨
     (e = some r.src.final ∧ cutNL (acc ++ (r.buf ++ r.src.rest)) = none ∧
        line = acc ++ (r.buf ++ r.src.rest) ∧ r'.buf = [] ∧ r'.src.rest = [] ∧ r'.err = none)) := by
  induction fuel generalizing acc r with
  | zero => simp [readLine] at h
  | succ fuel ih =>
    unfold readLine at h
    split at h
    · simp at h
    · simp at h
    · rename_i f r1 hs
      obtain ⟨s1, s2, s3, s4⟩ := readSlice_spec _ _ _ _ _ _ _ hG hR hs
      rcases s4 with s4 | s4 | s4
      · simp at s4
      · simp at s4
      · obtain ⟨_, t1, t2, t3, t4, t5⟩ := s4
        have hacc' : cutNL (acc ++ f) = none := by rw [cutNL_append_none _ hacc, t1]; rfl
        obtain ⟨i1, i2, i3, i4⟩ := ih _ _ s1 (by omega) hacc' h
        rw [t4, List.nil_append, List.append_assoc, t3, s2] at i4
        exact ⟨i1, by rw [i2, s2], by omega, i4⟩
    · rename_i f x r1 hs
      simp at h
      obtain ⟨rfl, rfl, rfl⟩ := h
      obtain ⟨s1, s2, s3, s4⟩ := readSlice_spec _ _ _ _ _ _ _ hG hR hs
      refine ⟨s1, s2, s3, Or.inr ?_⟩
      rcases s4 with s4 | s4 | s4
      · simp at s4
      · obtain ⟨t0, t1, t2, t3, t4, t5⟩ := s4
        simp at t0
        subst t0
        refine ⟨rfl, ?_, by rw [t2], t3, t4, t5⟩
        rw [cutNL_append_none _ hacc, t1]; rfl
      · simp at s4
    · rename_i f r1 hs
      simp at h
      obtain ⟨rfl, rfl, rfl⟩ := h
      obtain ⟨s1, s2, s3, s4⟩ := readSlice_spec _ _ _ _ _ _ _ hG hR hs
      refine ⟨s1, s2, s3, Or.inl ⟨rfl, ?_⟩⟩
      rcases s4 with s4 | s4 | s4
      · rw [cutNL_append_none _ hacc, s4.2]; rfl
      · simp at s4
      · simp at s4

/-! ### `readAll` -/

theorem specLines_of_cutNL_some {bs l rest : Bytes} (e : RErr) (h : cutNL bs = some (l, rest)) :
    specLines bs e = (l, none) :: specLines rest e := by
  simp [specLines, splitLines_of_cutNL_some h]

theorem specLines_of_cutNL_none {bs : Bytes} (e : RErr) (h : cutNL bs = none) :
    specLines bs e = [(bs, some e)] := by
  simp [specLines, splitLines_of_cutNL_none h]

theorem readAll_spec_aux (N retry fuel : Nat) (r : Rd) (hN : 0 < N) (hG : Good N r)
    (hR : maxZeroRun r.src.sched < retry) (hf : r.buf.length + r.src.rest.length + 1 ≤ fuel) :
    readAll N retry fuel r = some (.ok (specLines (r.buf ++ r.src.rest) r.src.final)) := by
  induction fuel generalizing r with
  | zero => omega
  | succ fuel ih =>
    have hsome := readLine_isSome N retry (lineFuel r) [] r hN hG.1 (by simp [lineFuel])
    obtain ⟨k1, _⟩ := readLine_inv N retry (lineFuel r) [] r hG.1
    unfold readAll
    split
    · rename_i hn; simp [hn] at hsome
    · rename_i p hp; exact absurd hp (k1 p)
    · rename_i l e r1 hl
      obtain ⟨_, _, _, s4⟩ := readLine_spec_aux _ _ _ _ _ _ _ _ hG hR (by simp [cutNL]) hl
      simp only [List.nil_append] at s4
      rcases s4 with s4 | s4
      · simp at s4
      · obtain ⟨t0, t1, t2, _⟩ := s4
        simp at t0
        rw [specLines_of_cutNL_none _ t1, t2, t0]
    · rename_i l r1 hl
      obtain ⟨s1, s2, s3, s4⟩ := readLine_spec_aux _ _ _ _ _ _ _ _ hG hR (by simp [cutNL]) hl
      simp only [List.nil_append] at s4
      rcases s4 with s4 | s4
      · obtain ⟨_, t1⟩ := s4
        have hlen := cutNL_some_length t1
        simp at hlen
        rw [ih r1 s1 (by omega) (by omega), specLines_of_cutNL_some _ t1, s2]
      · simp at s4

/-- a zero-length read without error: nothing moves, one schedule entry is consumed -/
theorem Src.read_zero (s : Src) (space : Nat) (t : List Nat) (hs : s.sched = 0 :: t)
    (hne : s.rest ≠ []) : s.read space = ([], none, { s with sched := t }) := by
  rw [Src.read_eq]
  have hn : s.nextN space = 0 := by simp [Src.nextN, hs]
  simp [hne, hn, hs]

theorem fillLoop_noProgress (N retry : Nat) (r : Rd) (t : List Nat)
    (hs : r.src.sched = List.replicate retry 0 ++ t) (hne : r.src.rest ≠ []) :
    fillLoop N retry r = { r with err := some .noProgress, src := { r.src with sched := t } } := by
  induction retry generalizing r with
  | zero =>
    simp at hs
    simp [fillLoop, ← hs]
  | succ k ih =>
    have hs' : r.src.sched = 0 :: (List.replicate k 0 ++ t) := by
      rw [hs, List.replicate_succ]; rfl
    simp only [fillLoop, Src.read_zero _ _ _ hs' hne, List.append_nil, List.length_nil,
      Nat.lt_irrefl, gt_iff_lt, if_false]
    exact ih { r with src := { r.src with sched := List.replicate k 0 ++ t } } rfl hne

theorem readAll_inv (N retry fuel : Nat) (r : Rd) (hb : r.buf.length ≤ N) :
    ∀ p, readAll N retry fuel r ≠ some (.error p) := by
  induction fuel generalizing r with
  | zero => simp [readAll]
  | succ fuel ih =>
    obtain ⟨k1, k2⟩ := readLine_inv N retry (lineFuel r) [] r hb
    intro p
    unfold readAll
    split
    · simp
    · rename_i p hp; exact absurd hp (k1 p)
    · simp
    · rename_i l r1 hl
      have := ih r1 (k2 _ _ _ hl)
      split
      · simp
      · rename_i x hx
        intro hh
        rw [hh] at this
        exact this p rfl

end PP
