import PP.Lemmas.HtmlDocMeta
/-
Occurrences of a quoted URL scheme (`"data:`, `"javascript:`) in the rendered
document.  Every attribute of the template is double-quoted and no hole can emit
a quote, so an attribute value starting with `data:` shows up in the bytes as
the string `"data:`.  The lemmas count the occurrences of such a pattern in the
rendering of a piece list: they are those of the template's literals.
-/
namespace PP.Html
open PP PP.Bytes

/-! ### counting occurrences -/

/-- the number of positions of `s` at which `pat` occurs -/
def occ (pat : Bytes) : Bytes → Nat
  | [] => 0
  | c :: t => (if hasPrefix (c :: t) pat then 1 else 0) + occ pat t

theorem hasPrefix_nil (s : Bytes) : hasPrefix s [] = true := by cases s <;> rfl

theorem hasPrefix_short (s pat : Bytes) (h : s.length < pat.length) : hasPrefix s pat = false := by
  induction pat generalizing s with
  | nil => simp at h
  | cons p ps ih =>
    cases s with
    | nil => rfl
    | cons c t =>
      simp only [List.length_cons] at h
      simp only [hasPrefix, ih t (by omega), Bool.and_false]

theorem hasPrefix_take_of_le (b pat : Bytes) (k : Nat) (h : pat.length ≤ k) :
    hasPrefix (b.take k) pat = hasPrefix b pat := by
  induction pat generalizing b k with
  | nil => rw [hasPrefix_nil, hasPrefix_nil]
  | cons p ps ih =>
    cases k with
    | zero => simp at h
    | succ k =>
      cases b with
      | nil => rfl
      | cons c t =>
        simp only [List.length_cons] at h
        simp only [List.take_succ_cons, hasPrefix, ih t k (by omega)]

/-- `hasPrefix` only looks at the first `pat.length` bytes -/
theorem hasPrefix_append_take (pat x b : Bytes) (k : Nat) (h : pat.length ≤ x.length + k) :
    hasPrefix (x ++ b) pat = hasPrefix (x ++ b.take k) pat := by
  induction pat generalizing x with
  | nil => rw [hasPrefix_nil, hasPrefix_nil]
  | cons p ps ih =>
    cases x with
    | nil =>
      simp only [List.nil_append]
      exact (hasPrefix_take_of_le b (p :: ps) k (by simpa using h)).symm
    | cons c t =>
      simp only [List.length_cons] at h
      simp only [List.cons_append, hasPrefix, ih t (by omega)]

theorem occ_short (pat s : Bytes) (h : s.length < pat.length) : occ pat s = 0 := by
  induction s with
  | nil => rfl
  | cons c t ih =>
    simp only [List.length_cons] at h
    simp only [occ, hasPrefix_short (c :: t) pat (by simpa using h), ih (by omega)]
    rfl

/-- matches starting in `a` need at most `pat.length - 1` bytes of what follows -/
theorem occ_append (pat a b : Bytes) (hp : pat ≠ []) :
    occ pat (a ++ b) = occ pat (a ++ b.take (pat.length - 1)) + occ pat b := by
  have hpl : 0 < pat.length := List.length_pos_iff.2 hp
  induction a with
  | nil =>
    simp only [List.nil_append]
    rw [occ_short pat (b.take (pat.length - 1)) (by rw [List.length_take]; omega)]
    omega
  | cons c t ih =>
    simp only [List.cons_append, occ]
    have := hasPrefix_append_take pat (c :: t) b (pat.length - 1) (by simp only [List.length_cons]; omega)
    simp only [List.cons_append] at this
    rw [this, ih]
    omega

/-- `s` is a proper prefix of `pat` -/
def partialAt (pat s : Bytes) : Bool := hasPrefix pat s && !hasPrefix s pat

/-- no non-empty suffix of the text is a proper prefix of `pat`: a match cannot
start in the text and continue after its end -/
def noPartial (pat : Bytes) : Bytes → Bool
  | [] => true
  | c :: t => !partialAt pat (c :: t) && noPartial pat t

theorem hasPrefix_of_append (s x pat : Bytes) (h : hasPrefix (s ++ x) pat = true) (hl : s.length ≤ pat.length) :
    hasPrefix pat s = true := by
  induction s generalizing pat with
  | nil => exact hasPrefix_nil pat
  | cons c t ih =>
    cases pat with
    | nil => simp at hl
    | cons p ps =>
      simp only [List.cons_append, hasPrefix, Bool.and_eq_true] at h
      simp only [List.length_cons] at hl
      simp only [hasPrefix, Bool.and_eq_true]
      refine ⟨?_, ih ps h.2 (by omega)⟩
      have := h.1
      simp only [beq_iff_eq] at this ⊢
      exact this.symm

theorem hasPrefix_append_of_noPartial (pat s x : Bytes) (h : partialAt pat s = false) :
    hasPrefix (s ++ x) pat = hasPrefix s pat := by
  by_cases hl : pat.length ≤ s.length
  · have := hasPrefix_append_take pat s x 0 (by omega)
    simpa using this
  · have hs : hasPrefix s pat = false := hasPrefix_short s pat (by omega)
    rw [hs]
    cases hc : hasPrefix (s ++ x) pat with
    | false => rfl
    | true =>
      have := hasPrefix_of_append s x pat hc (by omega)
      simp [partialAt, this, hs] at h

theorem occ_append_noPartial (pat a x : Bytes) (h : noPartial pat a = true) (hx : x.length < pat.length) :
    occ pat (a ++ x) = occ pat a := by
  induction a with
  | nil => simp only [List.nil_append, occ]; exact occ_short pat x hx
  | cons c t ih =>
    simp only [noPartial, Bool.and_eq_true, Bool.not_eq_true'] at h
    have := hasPrefix_append_of_noPartial pat (c :: t) x h.1
    simp only [List.cons_append] at this
    simp only [List.cons_append, occ, this, ih h.2]

/-- a literal none of whose suffixes starts a match: occurrences add up -/
theorem occ_lit_append (pat a b : Bytes) (hp : pat ≠ []) (h : noPartial pat a = true) :
    occ pat (a ++ b) = occ pat a + occ pat b := by
  have hpl : 0 < pat.length := List.length_pos_iff.2 hp
  rw [occ_append pat a b hp, occ_append_noPartial pat a _ h (by rw [List.length_take]; omega)]

/-- a chunk without the first byte of the pattern contains no match -/
theorem occ_skip (q : UInt8) (p' a b : Bytes) (h : a.all (fun c => c != q) = true) :
    occ (q :: p') (a ++ b) = occ (q :: p') b := by
  induction a with
  | nil => rfl
  | cons c t ih =>
    simp only [List.all_cons, Bool.and_eq_true, bne_iff_ne] at h
    have : (c == q) = false := by simpa using h.1
    simp only [List.cons_append, occ, hasPrefix, this, Bool.false_and, ih h.2]
    simp

/-- does the text end with a double quote (an attribute value is opened and the next piece fills it)? -/
def endsQuote (a : Bytes) : Bool := a.getLast? == some 34

/-- the check per literal: no suffix is a proper prefix of `pat`, the final quote apart -/
def litOK (pat a : Bytes) : Bool := if endsQuote a then noPartial pat a.dropLast else noPartial pat a

theorem eq_dropLast_of_endsQuote (a : Bytes) (h : endsQuote a = true) : a = a.dropLast ++ [34] := by
  simp only [endsQuote, beq_iff_eq] at h
  have hne : a ≠ [] := by intro h0; subst h0; simp at h
  have := List.dropLast_concat_getLast hne
  rw [List.getLast?_eq_some_getLast hne] at h
  injection h with h
  rw [h] at this
  exact this.symm

/-- a literal ending with a quote: one more match iff what follows starts with the rest of the pattern -/
theorem occ_quoteLit_append (p' a b : Bytes) (hp : p' ≠ []) (he : endsQuote a = true)
    (h : noPartial (34 :: p') a.dropLast = true) :
    occ (34 :: p') (a ++ b) = occ (34 :: p') a + (if hasPrefix b p' then 1 else 0) + occ (34 :: p') b := by
  have ha := eq_dropLast_of_endsQuote a he
  have hpl : 0 < p'.length := List.length_pos_iff.2 hp
  have h1 : occ (34 :: p') a = occ (34 :: p') a.dropLast := by
    conv => lhs; rw [ha]
    exact occ_append_noPartial _ _ _ h (by simp only [List.length_cons, List.length_nil]; omega)
  have h2 : occ (34 :: p') (a ++ b) = occ (34 :: p') a.dropLast + occ (34 :: p') (34 :: b) := by
    conv => lhs; rw [ha]
    rw [List.append_assoc]
    exact occ_lit_append _ _ _ (by simp) h
  rw [h2, h1]
  simp only [occ, hasPrefix, beq_self_eq_true, Bool.true_and]
  omega

/-! ### what fills an attribute value -/

def allSchemes : List Bytes := srcSchemes ++ pkgSchemes

/-- what the template puts right after a literal ending with a quote: a URL of the
builders (empty, or with a fixed prefix) or a `funcClass` value -/
def holeGuard : HoleKind → Bytes → Bool
  | .href, v => startsWithOneOf allSchemes v
  | .cls, v => hasPrefix v b!"Func"
  | .text, _ => false

/-- every literal ending with a quote is followed by a guarded hole and a literal starting with a quote -/
def guardOK : List Piece → Bool
  | [] => true
  | .lit a :: rest =>
    (if endsQuote a then
      match rest with
      | .hole k v :: .lit c :: _ => holeGuard k v && c.head? == some 34
      | _ => false
     else true) && guardOK rest
  | .hole _ _ :: rest => guardOK rest

theorem guardOK_append (a b : List Piece) (ha : guardOK a = true) (hb : guardOK b = true) :
    guardOK (a ++ b) = true := by
  induction a with
  | nil => simpa using hb
  | cons p ps ih =>
    cases p with
    | hole k v => simp only [List.cons_append, guardOK] at ha ⊢; exact ih ha
    | lit x =>
      simp only [List.cons_append, guardOK, Bool.and_eq_true] at ha ⊢
      refine ⟨?_, ih ha.2⟩
      have h1 := ha.1
      split at h1
      · rename_i he
        rw [if_pos he]
        match ps, h1 with
        | .hole k v :: .lit c :: rest, h1 => simpa using h1
      · rename_i he
        rw [if_neg he]

/-- a piece list whose literals never end with a quote -/
theorem guardOK_of_noQuote (ps : List Piece) (h : (litsOf ps).all (fun a => !endsQuote a) = true) :
    guardOK ps = true := by
  induction ps with
  | nil => rfl
  | cons p ps ih =>
    cases p with
    | hole k v => simp only [litsOf_hole] at h; simp only [guardOK]; exact ih h
    | lit x =>
      simp only [litsOf_lit, List.all_cons, Bool.and_eq_true, Bool.not_eq_true'] at h
      simp only [guardOK, h.1, Bool.false_eq_true, if_false, Bool.true_and]
      exact ih h.2

theorem noQuote_of_inS (S l : List Bytes) (hS : S.all (fun a => !endsQuote a) = true) (h : inS S l = true) :
    l.all (fun a => !endsQuote a) = true := by
  simp only [inS, List.all_eq_true, List.contains_iff_mem] at *
  exact fun x hx => hS x (h x hx)

/-- the first byte of a pattern that no guarded hole and no quote can start -/
def patOK : Bytes → Bool
  | [] => false
  | c :: _ => c != 34 && c != 104 && c != 102 && c != 70

theorem allSchemes_plain : ∀ p ∈ allSchemes, p.all urlPlainPass = true ∧ p.all htmlPlain = true := by decide

/-- the text starts with `h`, `f` or `F` -/
def headHF : Bytes → Bool
  | [] => false
  | c :: _ => c == 104 || c == 102 || c == 70

theorem headHF_spec (s : Bytes) (h : headHF s = true) : ∃ c t, s = c :: t ∧ (c = 104 ∨ c = 102 ∨ c = 70) := by
  cases s with
  | nil => simp [headHF] at h
  | cons c t => exact ⟨c, t, rfl, by simpa [headHF, or_assoc] using h⟩

theorem allSchemes_head : ∀ p ∈ allSchemes, ∃ c t, p = c :: t ∧ (c = 104 ∨ c = 102 ∨ c = 70) := by
  have : ∀ p ∈ allSchemes, headHF p = true := by decide
  exact fun p hp => headHF_spec p (this p hp)

/-- the rendering of a guarded hole is empty or starts with `h`, `f` or `F` -/
theorem renderHole_guard_head (k : HoleKind) (v h : Bytes) (hg : holeGuard k v = true)
    (hr : renderHole k v = .ok h) : h = [] ∨ ∃ c t, h = c :: t ∧ (c = 104 ∨ c = 102 ∨ c = 70) := by
  cases k with
  | text => simp [holeGuard] at hg
  | href =>
    rw [renderHole_href] at hr; injection hr with hr; subst hr
    have := hrefHole_prefix allSchemes allSchemes_plain v hg
    simp only [startsWithOneOf, Bool.or_eq_true, List.any_eq_true, List.isEmpty_iff] at this
    rcases this with h0 | ⟨p, hp, hpre⟩
    · exact Or.inl h0
    · obtain ⟨x, hx⟩ := (hasPrefix_iff _ p).1 hpre
      obtain ⟨c, t, rfl, hc⟩ := allSchemes_head p hp
      exact Or.inr ⟨c, t ++ x, by rw [hx]; rfl, hc⟩
  | cls =>
    simp only [holeGuard] at hg
    obtain ⟨x, rfl⟩ := (hasPrefix_iff v _).1 hg
    simp only [renderHole, attrEscaperHTML, stripTags] at hr
    split at hr
    · cases hr
    · simp only [Except.map] at hr; injection hr with hr; subst hr
      rw [htmlReplacer_append]
      exact Or.inr ⟨70, _, rfl, Or.inr (Or.inr rfl)⟩

theorem not_hasPrefix_of_head (p' s : Bytes) (hp : patOK p' = true)
    (hs : ∃ c t, s = c :: t ∧ (c = 34 ∨ c = 104 ∨ c = 102 ∨ c = 70)) : hasPrefix s p' = false := by
  obtain ⟨c, t, rfl, hc⟩ := hs
  cases p' with
  | nil => simp [patOK] at hp
  | cons q qs =>
    simp only [patOK, Bool.and_eq_true, bne_iff_ne, ne_eq] at hp
    have : (c == q) = false := by
      rw [beq_eq_false_iff_ne]
      rcases hc with rfl | rfl | rfl | rfl
      · exact fun h => hp.1.1.1 h.symm
      · exact fun h => hp.1.1.2 h.symm
      · exact fun h => hp.1.2 h.symm
      · exact fun h => hp.2 h.symm
    simp [hasPrefix, this]

/-! ### rendered holes contain no quote -/

theorem noQuote_of_markup_nil (r : Bytes) (h : markup r = []) : r.all (fun c => c != 34) = true := by
  rw [markup, List.filter_eq_nil_iff] at h
  rw [List.all_eq_true]
  intro c hc
  have := h c hc
  simp only [bne_iff_ne, ne_eq]
  intro h34; subst h34
  exact this (by decide)

/-! ### the count -/

/-- Occurrences of `"` followed by `p'` in the rendering of a guarded piece list
(followed by anything): exactly those inside the literals. -/
theorem occ_renderPieces (p' : Bytes) (hp : patOK p' = true) (S : List Bytes)
    (hS : ∀ a ∈ S, litOK (34 :: p') a = true)
    (ps : List Piece) (hg : guardOK ps = true) (hl : inS S (litsOf ps) = true) (hwf : ps.all Piece.wf = true)
    (r : Bytes) (hr : renderPieces ps = .ok r) (y : Bytes) :
    occ (34 :: p') (r ++ y) = ((litsOf ps).map (occ (34 :: p'))).sum + occ (34 :: p') y := by
  have hpne : p' ≠ [] := by intro h; subst h; simp [patOK] at hp
  induction ps generalizing r with
  | nil => simp only [renderPieces] at hr; injection hr with hr; subst hr; simp
  | cons p ps ih =>
    unfold renderPieces at hr
    split at hr
    · cases hr
    · rename_i b hb
      split at hr
      · cases hr
      · rename_i r' hr'
        injection hr with hr; subst hr
        simp only [List.all_cons, Bool.and_eq_true] at hwf
        cases p with
        | hole k v =>
          simp only [guardOK] at hg
          simp only [litsOf_hole] at hl ⊢
          obtain ⟨x, hx, hxm⟩ := renderHole_spec k v hwf.1
          simp only [Piece.render] at hb
          rw [hx] at hb; injection hb with hb; subst hb
          rw [List.append_assoc, occ_skip 34 p' x _ (noQuote_of_markup_nil x hxm)]
          exact ih hg hl hwf.2 r' hr'
        | lit a =>
          simp only [Piece.render] at hb; injection hb with hb; subst hb
          simp only [guardOK, Bool.and_eq_true] at hg
          simp only [litsOf_lit, inS, List.all_cons, Bool.and_eq_true, List.contains_iff_mem] at hl
          have hlit := hS a hl.1
          have ih' := ih hg.2 (by simpa [inS] using hl.2) hwf.2 r' hr'
          simp only [litsOf_lit, List.map_cons, List.sum_cons]
          rw [List.append_assoc]
          by_cases he : endsQuote a = true
          · simp only [litOK, he, if_true] at hlit
            rw [occ_quoteLit_append p' a _ hpne he hlit, ih']
            have h1 := hg.1
            rw [if_pos he] at h1
            -- what follows the quote
            have hnp : hasPrefix (r' ++ y) p' = false := by
              match ps, h1, hr', hwf.2 with
              | .hole k v :: .lit c :: rest, h1, hr', hwf2 =>
                simp only [Bool.and_eq_true, beq_iff_eq] at h1
                simp only [List.all_cons, Bool.and_eq_true] at hwf2
                obtain ⟨x, hx, _⟩ := renderHole_spec k v hwf2.1
                obtain ⟨rr, hrr, _⟩ := renderPieces_spec rest hwf2.2.2
                have : r' = x ++ (c ++ rr) := by
                  simp only [renderPieces, Piece.render, hx, hrr] at hr'
                  injection hr' with hr'; exact hr'.symm
                subst this
                apply not_hasPrefix_of_head p' _ hp
                obtain ⟨c0, ct, hc⟩ : ∃ c0 ct, c = c0 :: ct := by
                  cases c with
                  | nil => simp at h1
                  | cons c0 ct => exact ⟨c0, ct, rfl⟩
                subst hc
                have hc0 : c0 = 34 := by simpa using h1.2
                rcases renderHole_guard_head k v x h1.1 hx with h0 | ⟨d, t, hd, hdc⟩
                · subst h0; exact ⟨c0, ct ++ rr ++ y, by simp, Or.inl hc0⟩
                · subst hd
                  exact ⟨d, t ++ (c0 :: ct ++ rr) ++ y, by simp, Or.inr hdc⟩
            rw [hnp]; simp; omega
          · simp only [litOK, he, Bool.false_eq_true, if_false] at hlit
            rw [occ_lit_append _ a _ (by simp) hlit, ih']
            omega

theorem sum_map_zero_of_inS (f : Bytes → Nat) (S l : List Bytes) (hS : ∀ a ∈ S, f a = 0) (h : inS S l = true) :
    (l.map f).sum = 0 := by
  simp only [inS, List.all_eq_true, List.contains_iff_mem] at h
  induction l with
  | nil => rfl
  | cons x xs ih =>
    simp only [List.map_cons, List.sum_cons]
    rw [hS x (h x (by simp)), ih (fun y hy => h y (by simp [hy]))]


/-! ### the guard holds for every part of the document -/

@[simp] theorem eq_c0 : endsQuote Lit.c0 = false := by decide
@[simp] theorem eq_c1 : endsQuote Lit.c1 = false := by decide
@[simp] theorem eq_c3 : endsQuote Lit.c3 = false := by decide
@[simp] theorem eq_c4 : endsQuote Lit.c4 = false := by decide
@[simp] theorem eq_c5 : endsQuote Lit.c5 = false := by decide
@[simp] theorem eq_c6 : endsQuote Lit.c6 = false := by decide
@[simp] theorem eq_c7 : endsQuote Lit.c7 = false := by decide
@[simp] theorem eq_c8 : endsQuote Lit.c8 = false := by decide
@[simp] theorem eq_c9 : endsQuote Lit.c9 = false := by decide
@[simp] theorem eq_c11 : endsQuote Lit.c11 = false := by decide
@[simp] theorem eq_c12 : endsQuote Lit.c12 = false := by decide
@[simp] theorem eq_c15 : endsQuote Lit.c15 = false := by decide
@[simp] theorem eq_c16 : endsQuote Lit.c16 = false := by decide
@[simp] theorem eq_c17 : endsQuote Lit.c17 = false := by decide
@[simp] theorem eq_c18 : endsQuote Lit.c18 = false := by decide
@[simp] theorem eq_c19 : endsQuote Lit.c19 = false := by decide
@[simp] theorem eq_r0 : endsQuote Lit.r0 = false := by decide
@[simp] theorem eq_r1 : endsQuote Lit.r1 = false := by decide
@[simp] theorem eq_r2 : endsQuote Lit.r2 = false := by decide
@[simp] theorem eq_r3 : endsQuote Lit.r3 = false := by decide
@[simp] theorem eq_r4 : endsQuote Lit.r4 = false := by decide
@[simp] theorem eq_r5 : endsQuote Lit.r5 = false := by decide
@[simp] theorem eq_r7 : endsQuote Lit.r7 = false := by decide
@[simp] theorem eq_r8 : endsQuote Lit.r8 = false := by decide
@[simp] theorem eq_r11 : endsQuote Lit.r11 = false := by decide
@[simp] theorem eq_r12 : endsQuote Lit.r12 = false := by decide
@[simp] theorem eq_r13 : endsQuote Lit.r13 = false := by decide
@[simp] theorem eq_c2 : endsQuote Lit.c2 = true := by decide
@[simp] theorem eq_c10 : endsQuote Lit.c10 = true := by decide
@[simp] theorem eq_c13 : endsQuote Lit.c13 = true := by decide
@[simp] theorem eq_c14 : endsQuote Lit.c14 = true := by decide
@[simp] theorem eq_r6 : endsQuote Lit.r6 = true := by decide
@[simp] theorem eq_r9 : endsQuote Lit.r9 = true := by decide
@[simp] theorem eq_r10 : endsQuote Lit.r10 = true := by decide
@[simp] theorem hq_c3 : (Lit.c3.head? == some 34) = true := by decide
@[simp] theorem hq_c11 : (Lit.c11.head? == some 34) = true := by decide
@[simp] theorem hq_c14 : (Lit.c14.head? == some 34) = true := by decide
@[simp] theorem hq_c15 : (Lit.c15.head? == some 34) = true := by decide
@[simp] theorem hq_r7 : (Lit.r7.head? == some 34) = true := by decide
@[simp] theorem hq_r10 : (Lit.r10.head? == some 34) = true := by decide
@[simp] theorem hq_r11 : (Lit.r11.head? == some 34) = true := by decide

theorem startsWithOneOf_mono (S T : List Bytes) (u : Bytes) (hST : ∀ p ∈ S, p ∈ T)
    (h : startsWithOneOf S u = true) : startsWithOneOf T u = true := by
  simp only [startsWithOneOf, Bool.or_eq_true, List.any_eq_true] at h ⊢
  rcases h with h | ⟨p, hp, hh⟩
  · exact Or.inl h
  · exact Or.inr ⟨p, hST p hp, hh⟩

theorem holeGuard_srcURL (ver : Bytes) (c : Call) (u : Bytes) (h : srcURL ver c = .ok u) :
    holeGuard .href u = true :=
  startsWithOneOf_mono srcSchemes allSchemes u (by decide) (srcURL_scheme ver c u h)

theorem holeGuard_pkgURL (ver : Bytes) (c : Call) (u : Bytes) (h : pkgURL ver c = .ok u) :
    holeGuard .href u = true :=
  startsWithOneOf_mono pkgSchemes allSchemes u (by decide) (pkgURL_scheme ver c u h)

theorem holeGuard_funcClass (c : Call) : holeGuard .cls (funcClass c) = true := by
  show hasPrefix (funcClass c) b!"Func" = true
  unfold funcClass
  split
  · decide
  · exact hasPrefix_append_self _ _

/-- literals of the pieces that never end with a quote -/
def plainLits : List Bytes :=
  argsLits ++ srcPathLits ++ headLits ++ [Lit.h1Goroutine, Lit.h1Bucket, Lit.createdOpen, Lit.createdClose] ++
  headLits' ++ metaLits

set_option maxRecDepth 100000 in
theorem plainLits_noQuote : plainLits.all (fun a => !endsQuote a) = true := by decide

theorem guardOK_of_plain (ps : List Piece) (h : inS plainLits (litsOf ps) = true) : guardOK ps = true :=
  guardOK_of_noQuote ps (noQuote_of_inS plainLits _ plainLits_noQuote h)

theorem renderArgs_guard (a : Args) : guardOK (renderArgs a) = true :=
  guardOK_of_plain _ (inS_mono _ plainLits _ (by decide) (renderArgs_lits a))

theorem srcPathPieces_guard (c : Call) : guardOK (srcPathPieces c) = true :=
  guardOK_of_plain _ (inS_mono _ plainLits _ (by decide) (srcPathPieces_lits c))

theorem callRow_guard (ver : Bytes) (i : Nat) (c : Call) (r : List Piece) (h : callRow ver i c = .ok r) :
    guardOK r = true := by
  unfold callRow at h
  split at h
  · rename_i pu su hpu hsu
    injection h with h; subst h
    have g1 := holeGuard_pkgURL ver c pu hpu
    have g2 := holeGuard_srcURL ver c su hsu
    have g3 := holeGuard_funcClass c
    refine guardOK_append _ _ (guardOK_append _ _ (guardOK_append _ _ (guardOK_append _ _ ?_ ?_) ?_) ?_) ?_
    · simp [guardOK, tx, txNat, g1]
    · exact srcPathPieces_guard c
    · simp [guardOK, tx, txNat, g1, g2, g3]
    · exact renderArgs_guard _
    · simp [guardOK]
  · cases h
  · cases h

theorem callRows_guard (ver : Bytes) (cs : List Call) (i : Nat) (r : List Piece) (h : callRows ver i cs = .ok r) :
    guardOK r = true := by
  induction cs generalizing i r with
  | nil => simp only [callRows] at h; injection h with h; subst h; rfl
  | cons c cs ih =>
    unfold callRows at h
    split at h
    · cases h
    · rename_i row hrow
      split at h
      · cases h
      · rename_i rows hrows
        injection h with h; subst h
        exact guardOK_append _ _ (callRow_guard ver i c row hrow) (ih (i + 1) rows hrows)

theorem renderCalls_guard (ver : Bytes) (s : Stack) (r : List Piece) (h : renderCalls ver s = .ok r) :
    guardOK r = true := by
  unfold renderCalls at h
  split at h
  · cases h
  · rename_i rows hrows
    injection h with h; subst h
    refine guardOK_append _ _ (guardOK_append _ _ (guardOK_append _ _ ?_ (callRows_guard ver _ 0 rows hrows)) ?_) ?_
    · simp [guardOK]
    · split <;> simp [guardOK]
    · simp [guardOK]

theorem renderCreatedBy_guard (ver : Bytes) (c : Call) (r : List Piece) (h : renderCreatedBy ver c = .ok r) :
    guardOK r = true := by
  unfold renderCreatedBy at h
  split at h
  · rename_i pu su hpu hsu
    injection h with h; subst h
    have g1 := holeGuard_pkgURL ver c pu hpu
    have g2 := holeGuard_srcURL ver c su hsu
    have g3 := holeGuard_funcClass c
    refine guardOK_append _ _ (guardOK_append _ _ ?_ (srcPathPieces_guard c)) ?_
    · simp [guardOK]
    · simp [guardOK, tx, txNat, g1, g2, g3]
  · cases h
  · cases h

theorem createdPieces_guard (ver : Bytes) (s : Signature) (r : List Piece) (h : createdPieces ver s = .ok r) :
    guardOK r = true := by
  unfold createdPieces at h
  split at h
  · injection h with h; subst h; rfl
  · split at h
    · cases h
    · rename_i ps hps
      injection h with h; subst h
      refine guardOK_append _ _ (guardOK_append _ _ ?_ (renderCreatedBy_guard ver _ ps hps)) ?_
      · exact guardOK_of_plain _ (by decide)
      · exact guardOK_of_plain _ (by decide)

theorem sleepPieces_guard (s : Signature) : guardOK (sleepPieces s) = true :=
  guardOK_of_plain _ (inS_mono _ plainLits _ (by decide) (sleepPieces_spec s).1)

theorem lockedPieces_guard (s : Signature) : guardOK (lockedPieces s) = true :=
  guardOK_of_plain _ (inS_mono _ plainLits _ (by decide) (lockedPieces_spec s).1)

theorem racePieces_guard (g : Goroutine) : guardOK (racePieces g) = true :=
  guardOK_of_plain _ (inS_mono _ plainLits _ (by decide) (racePieces_spec g).1)

theorem goroutineBlock_guard (ver : Bytes) (g : Goroutine) (r : List Piece) (h : goroutineBlock ver g = .ok r) :
    guardOK r = true := by
  unfold goroutineBlock at h
  split at h
  · rename_i cr calls hcr hcalls
    injection h with h; subst h
    refine guardOK_append _ _ (guardOK_append _ _ (guardOK_append _ _ (guardOK_append _ _ (guardOK_append _ _
      (guardOK_append _ _ ?_ (sleepPieces_guard _)) ?_) (lockedPieces_guard _)) (racePieces_guard g))
      (createdPieces_guard ver _ cr hcr)) (renderCalls_guard ver _ calls hcalls)
    · exact guardOK_of_plain _ (by simp [tx, txNat]; decide)
    · exact guardOK_of_plain _ (by decide)
  · cases h
  · cases h

theorem bucketBlock_guard (ver : Bytes) (i : Nat) (b : Bucket) (r : List Piece) (h : bucketBlock ver i b = .ok r) :
    guardOK r = true := by
  unfold bucketBlock at h
  split at h
  · rename_i cr calls hcr hcalls
    injection h with h; subst h
    refine guardOK_append _ _ (guardOK_append _ _ (guardOK_append _ _ (guardOK_append _ _ (guardOK_append _ _
      (guardOK_append _ _ (guardOK_append _ _ ?_ ?_) ?_) (sleepPieces_guard _)) ?_) (lockedPieces_guard _))
      (createdPieces_guard ver _ cr hcr)) (renderCalls_guard ver _ calls hcalls)
    · exact guardOK_of_plain _ (by simp [txNat]; decide)
    · split <;> exact guardOK_of_plain _ (by decide)
    · exact guardOK_of_plain _ (by simp [tx]; decide)
    · exact guardOK_of_plain _ (by decide)
  · cases h
  · cases h

theorem goroutineBlocks_guard (ver : Bytes) (gs : List Goroutine) (r : List Piece)
    (h : goroutineBlocks ver gs = .ok r) : guardOK r = true := by
  induction gs generalizing r with
  | nil => simp only [goroutineBlocks] at h; injection h with h; subst h; rfl
  | cons g gs ih =>
    unfold goroutineBlocks at h
    split at h
    · cases h
    · rename_i b hb
      split at h
      · cases h
      · rename_i bs hbs
        injection h with h; subst h
        exact guardOK_append _ _ (goroutineBlock_guard ver g b hb) (ih bs hbs)

theorem bucketBlocks_guard (ver : Bytes) (bk : List Bucket) (i : Nat) (r : List Piece)
    (h : bucketBlocks ver i bk = .ok r) : guardOK r = true := by
  induction bk generalizing i r with
  | nil => simp only [bucketBlocks] at h; injection h with h; subst h; rfl
  | cons g gs ih =>
    unfold bucketBlocks at h
    split at h
    · cases h
    · rename_i b hb
      split at h
      · cases h
      · rename_i bs hbs
        injection h with h; subst h
        exact guardOK_append _ _ (bucketBlock_guard ver i g b hb) (ih (i + 1) bs hbs)

theorem contentOf_guard (ver : Bytes) (b : DocBody) (c : List Piece) (h : contentOf ver b = .ok c) :
    guardOK c = true := by
  cases b with
  | snapshot gs => exact goroutineBlocks_guard ver gs c h
  | aggregated bs => exact bucketBlocks_guard ver bs 0 c h

set_option maxRecDepth 100000 in
theorem docPieces_guard (d : DocData) (ps : List Piece) (h : docPieces d = .ok ps) : guardOK ps = true := by
  obtain ⟨c, hc, rfl⟩ := docPieces_eq d ps h
  refine guardOK_append _ _ (guardOK_append _ _ ?_ (contentOf_guard d.ver d.body c hc)) ?_
  · exact guardOK_of_plain _ (by rw [headPieces_lits]; decide)
  · exact guardOK_of_plain _ (inS_mono _ plainLits _ (by decide) (metaPieces_lits d.ver d.toDocMeta))

/-! ### the two patterns -/

def patData : Bytes := b!"\"data:"
def patJavascript : Bytes := b!"\"javascript:"

set_option maxRecDepth 100000 in
theorem docLits_litOK_data : ∀ a ∈ docLits, litOK patData a = true := by decide

set_option maxRecDepth 100000 in
theorem docLits_litOK_javascript : ∀ a ∈ docLits, litOK patJavascript a = true := by decide

set_option maxRecDepth 100000 in
theorem contentLits_occ_data : ∀ a ∈ contentLits, occ patData a = 0 := by decide

set_option maxRecDepth 100000 in
theorem metaLits_occ_data : ∀ a ∈ metaLits, occ patData a = 0 := by decide

set_option maxRecDepth 100000 in
theorem headLits_occ_data : (headLits'.map (occ patData)).sum = 1 := by decide

set_option maxRecDepth 100000 in
theorem docLits_occ_javascript : ∀ a ∈ docLits, occ patJavascript a = 0 := by decide

set_option maxRecDepth 100000 in
/-- the one occurrence in the template: the favicon link, at the very end of text node 1 -/
theorem t1_ends_with_favicon_link :
    hasSuffix Lit.t1 b!"<link rel=\"shortcut icon\" type=\"image/gif\" href=\"data:image/gif;base64," = true := by
  decide

/-- Occurrences of `"data:` in everything written before the footer (followed by
any bytes `y`): one, plus those of `y`. -/
theorem occ_data_doc (d : DocData) (ps : List Piece) (h : docPieces d = .ok ps) (r : Bytes)
    (hr : renderPieces ps = .ok r) (y : Bytes) : occ patData (r ++ y) = 1 + occ patData y := by
  obtain ⟨hl, hwf⟩ := docPieces_spec d ps h
  have := occ_renderPieces b!"data:" (by decide) docLits docLits_litOK_data ps (docPieces_guard d ps h) hl hwf r hr y
  rw [show (34 : UInt8) :: b!"data:" = patData from rfl] at this
  rw [this]
  obtain ⟨c, hc, rfl⟩ := docPieces_eq d ps h
  obtain ⟨c1, _⟩ := contentOf_spec d.ver d.body c hc
  rw [litsOf_append, litsOf_append, List.map_append, List.map_append, List.sum_append, List.sum_append,
    headPieces_lits, headLits_occ_data,
    sum_map_zero_of_inS _ contentLits _ contentLits_occ_data c1,
    sum_map_zero_of_inS _ metaLits _ metaLits_occ_data (metaPieces_lits d.ver d.toDocMeta)]

/-- Occurrences of `"javascript:` before the footer: none. -/
theorem occ_javascript_doc (d : DocData) (ps : List Piece) (h : docPieces d = .ok ps) (r : Bytes)
    (hr : renderPieces ps = .ok r) (y : Bytes) : occ patJavascript (r ++ y) = occ patJavascript y := by
  obtain ⟨hl, hwf⟩ := docPieces_spec d ps h
  have := occ_renderPieces b!"javascript:" (by decide) docLits docLits_litOK_javascript ps
    (docPieces_guard d ps h) hl hwf r hr y
  rw [show (34 : UInt8) :: b!"javascript:" = patJavascript from rfl] at this
  rw [this, sum_map_zero_of_inS _ docLits _ docLits_occ_javascript hl]
  omega

end PP.Html
