import PP.Model.AugmentGlue
/-
Lemmas for C19B: `lineToByteOffsets` against its structural description.
-/
set_option linter.unusedSimpArgs false
set_option linter.unusedVariables false

namespace PP.AugGlue
open PP PP.Bytes

/-- the offsets just after each `'\n'` of `s`, `off` being the offset of `s`
in the file -/
def newlineEnds : Bytes → Nat → List Nat
  | [], _ => []
  | c :: t, off => if c = 10 then (off + 1) :: newlineEnds t (off + 1) else newlineEnds t (off + 1)

theorem indexByte_cons (c : UInt8) (t : Bytes) :
    indexByte (c :: t) 10 = if c = 10 then some 0 else (indexByte t 10).map (· + 1) := by
  unfold indexByte
  rw [List.idxOf?_cons]
  by_cases h : c = 10 <;> simp [h]

theorem newlineEnds_none (s : Bytes) (off : Nat) (h : indexByte s 10 = none) : newlineEnds s off = [] := by
  induction s generalizing off with
  | nil => rfl
  | cons c t ih =>
    rw [indexByte_cons] at h
    by_cases hc : c = 10
    · simp [hc] at h
    · simp only [hc, if_false, Option.map_eq_none_iff] at h
      simp only [newlineEnds, hc, if_false]
      exact ih _ h

theorem newlineEnds_some (s : Bytes) (off n : Nat) (h : indexByte s 10 = some n) :
    n < s.length ∧ newlineEnds s off = (off + n + 1) :: newlineEnds (s.drop (n + 1)) (off + n + 1) := by
  induction s generalizing off n with
  | nil => simp [indexByte] at h
  | cons c t ih =>
    rw [indexByte_cons] at h
    by_cases hc : c = 10
    · simp only [hc, if_true, Option.some.injEq] at h
      subst h
      simp [newlineEnds, hc]
    · simp only [hc, if_false] at h
      cases hi : indexByte t 10 with
      | none => simp [hi] at h
      | some m =>
        simp only [hi, Option.map_some, Option.some.injEq] at h
        subst h
        obtain ⟨h1, h2⟩ := ih (off + 1) m hi
        refine ⟨by simp; omega, ?_⟩
        simp only [newlineEnds, hc, if_false, List.drop_succ_cons]
        rw [h2]
        have e : off + 1 + m + 1 = off + (m + 1) + 1 := by omega
        rw [e]

theorem lineOffsetsLoop_eq (fuel : Nat) (src : Bytes) (offset : Nat) (acc : List Nat)
    (hf : src.length < offset + fuel) :
    lineOffsetsLoop fuel src offset acc = acc ++ newlineEnds (src.drop offset) offset := by
  induction fuel generalizing offset acc with
  | zero =>
    have : src.drop offset = [] := List.drop_eq_nil_of_le (by omega)
    simp [lineOffsetsLoop, this, newlineEnds]
  | succ fuel ih =>
    simp only [lineOffsetsLoop]
    by_cases hlt : offset < src.length
    · simp only [hlt, if_true]
      cases hi : indexByte (src.drop offset) 10 with
      | none => simp [newlineEnds_none _ offset hi]
      | some n =>
        dsimp only
        obtain ⟨h1, h2⟩ := newlineEnds_some (src.drop offset) offset n hi
        rw [List.length_drop] at h1
        rw [ih (offset + n + 1) _ (by omega), h2, List.drop_drop]
        have e : offset + (n + 1) = offset + n + 1 := by omega
        rw [e]
        simp
    · simp only [hlt, if_false]
      have : src.drop offset = [] := List.drop_eq_nil_of_le (by omega)
      simp [this, newlineEnds]

theorem lineToByteOffsets_eq (src : Bytes) : lineToByteOffsets src = 0 :: 0 :: newlineEnds src 0 := by
  unfold lineToByteOffsets
  rw [lineOffsetsLoop_eq _ _ _ _ (by omega)]
  simp

theorem newlineEnds_length (s : Bytes) (off : Nat) : (newlineEnds s off).length = s.count 10 := by
  induction s generalizing off with
  | nil => rfl
  | cons c t ih =>
    by_cases hc : c = 10
    · simp [newlineEnds, hc, ih, List.count_cons]
    · simp [newlineEnds, hc, ih, List.count_cons]

/-- entry `i` of `newlineEnds` is the offset just after the `(i+1)`-th newline -/
theorem newlineEnds_get (s : Bytes) (off i e : Nat) (h : (newlineEnds s off)[i]? = some e) :
    off < e ∧ e ≤ off + s.length ∧ s[e - off - 1]? = some 10 ∧ (s.take (e - off)).count 10 = i + 1 := by
  induction s generalizing off i with
  | nil => simp [newlineEnds] at h
  | cons c t ih =>
    by_cases hc : c = 10
    · simp only [newlineEnds, hc, if_true] at h
      cases i with
      | zero =>
        simp only [List.getElem?_cons_zero, Option.some.injEq] at h
        subst h
        have e1 : off + 1 - off - 1 = 0 := by omega
        have e2 : off + 1 - off = 1 := by omega
        simp [e1, e2, hc]
      | succ i =>
        simp only [List.getElem?_cons_succ] at h
        obtain ⟨h1, h2, h3, h4⟩ := ih (off + 1) i h
        have e1 : e - off - 1 = (e - (off + 1) - 1) + 1 := by omega
        have e2 : e - off = (e - (off + 1)) + 1 := by omega
        refine ⟨by omega, by simp; omega, ?_, ?_⟩
        · rw [e1, List.getElem?_cons_succ]; exact h3
        · rw [e2, List.take_succ_cons, List.count_cons, h4]; simp [hc]
    · simp only [newlineEnds, hc, if_false] at h
      obtain ⟨h1, h2, h3, h4⟩ := ih (off + 1) i h
      have e1 : e - off - 1 = (e - (off + 1) - 1) + 1 := by omega
      have e2 : e - off = (e - (off + 1)) + 1 := by omega
      refine ⟨by omega, by simp; omega, ?_, ?_⟩
      · rw [e1, List.getElem?_cons_succ]; exact h3
      · rw [e2, List.take_succ_cons, List.count_cons, h4]; simp [hc]

end PP.AugGlue
