import PP.Lemmas.LinePrint
import PP.Lemmas.LoopLemmas
import PP.Lemmas.DumpLines
/-
Stage 3 of C01: the scanner, run over the lines of a printed dump, builds
exactly the goroutines the dump describes.
-/
namespace PP.Spec
open PP Bytes

/-- a goroutine under construction -/
def buildG (g : GSpec) (first : Bool) (calls : List Call) (elided : Bool) (created : List Call) : Goroutine :=
  { id := g.id, first := first,
    sig := { state := expState g, sleepMin := g.waitMin, sleepMax := g.waitMin, locked := g.locked,
             stack := { calls := calls, elided := elided }, createdBy := { calls := created } } }

theorem modifyLast_snoc (pre : List Goroutine) (x : Goroutine) (f : Goroutine → Goroutine) :
    modifyLast (pre ++ [x]) f = some (pre ++ [f x]) := by
  simp [modifyLast]

/-- the classifier record of a line that has an end of line and passes the prefix test -/
structure LineOK (l : Line) : Prop where
  eol : l.hasEOL = true
  ind : l.indentOK = true

theorem scan_header (s : S) (l : Line) (hl : LineOK l) (h : Hdr)
    (hs : s.st = .looking ∨ s.st = .betweenRoutine) (hh : l.header = some h) :
    scan s l = .ok ({ s with st := .gotRoutineHeader, gs := s.gs ++ [mkGoroutine h s.gs.isEmpty],
                             pfx := if s.st == .looking then h.indent else s.pfx }, true, none) := by
  unfold scan
  rcases hs with hs | hs <;> simp [hs, hl.eol, hl.ind, hh]

theorem scan_unavail (pre : List Goroutine) (gi : Nat) (pfx : Bytes) (l : Line) (hl : LineOK l)
    (g : GSpec) (first : Bool) (hu : l.unavail = true) :
    scan ⟨.gotRoutineHeader, pre ++ [buildG g first [] false []], gi, pfx⟩ l =
      .ok (⟨.gotUnavail, pre ++ [buildG g first [{ remoteSrcPath := b!"<unavailable>" }] false []], gi, pfx⟩, true, none) := by
  unfold scan
  simp [hl.eol, hl.ind, hu, modifyLast_snoc, setStack, buildG]

theorem scan_func_first (pre : List Goroutine) (gi : Nat) (pfx : Bytes) (l : Line) (hl : LineOK l)
    (g : GSpec) (first : Bool) (c : Call) (hu : l.unavail = false) (hf : l.func = some (c, none)) :
    scan ⟨.gotRoutineHeader, pre ++ [buildG g first [] false []], gi, pfx⟩ l =
      .ok (⟨.gotFunc, pre ++ [buildG g first [c] false []], gi, pfx⟩, true, none) := by
  unfold scan
  simp [hl.eol, hl.ind, hu, hf, funcStep, curAppendCall, modifyLast_snoc, setStack, buildG]

theorem scan_func_next (pre : List Goroutine) (gi : Nat) (pfx : Bytes) (l : Line) (hl : LineOK l)
    (g : GSpec) (first : Bool) (cs : List Call) (e : Bool) (c : Call)
    (hc : l.created = none) (he : l.elidedMark = false) (hf : l.func = some (c, none)) :
    scan ⟨.gotFileFunc, pre ++ [buildG g first cs e []], gi, pfx⟩ l =
      .ok (⟨.gotFunc, pre ++ [buildG g first (cs ++ [c]) e []], gi, pfx⟩, true, none) := by
  unfold scan
  simp [hl.eol, hl.ind, hc, he, hf, funcStep, curAppendCall, modifyLast_snoc, setStack, buildG]

theorem scan_elided (pre : List Goroutine) (gi : Nat) (pfx : Bytes) (l : Line) (hl : LineOK l)
    (g : GSpec) (first : Bool) (cs : List Call) (e : Bool)
    (hc : l.created = none) (he : l.elidedMark = true) :
    scan ⟨.gotFileFunc, pre ++ [buildG g first cs e []], gi, pfx⟩ l =
      .ok (⟨.gotFileFunc, pre ++ [buildG g first cs true []], gi, pfx⟩, true, none) := by
  unfold scan
  simp [hl.eol, hl.ind, hc, he, modifyLast_snoc, setStack, buildG]

theorem scan_file (pre : List Goroutine) (gi : Nat) (pfx : Bytes) (l : Line) (hl : LineOK l)
    (g : GSpec) (first : Bool) (cs : List Call) (c : Call) (e : Bool) (pl : Bytes × Nat)
    (hf : l.file = some (some pl)) :
    scan ⟨.gotFunc, pre ++ [buildG g first (cs ++ [c]) e []], gi, pfx⟩ l =
      .ok (⟨.gotFileFunc, pre ++ [buildG g first (cs ++ [c.init pl.1 pl.2]) e []], gi, pfx⟩, true, none) := by
  unfold scan
  simp [hl.eol, hl.ind, hf, needLastCall, modifyLast_snoc, setStack, buildG, initLast]

theorem scan_created (pre : List Goroutine) (gi : Nat) (pfx : Bytes) (l : Line) (hl : LineOK l)
    (g : GSpec) (first : Bool) (cs : List Call) (e : Bool) (f : Func)
    (hc : l.created = some (.ok f)) :
    scan ⟨.gotFileFunc, pre ++ [buildG g first cs e []], gi, pfx⟩ l =
      .ok (⟨.gotCreated, pre ++ [buildG g first cs e [({ fn := f } : Call).init [] 0]], gi, pfx⟩, true, none) := by
  unfold scan
  simp [hl.eol, hl.ind, hc, createdStep, modifyLast_snoc, setCreated, buildG]

theorem scan_created_unavail (pre : List Goroutine) (gi : Nat) (pfx : Bytes) (l : Line) (hl : LineOK l)
    (g : GSpec) (first : Bool) (cs : List Call) (e : Bool) (f : Func)
    (hem : l.empty = false) (hc : l.created = some (.ok f)) :
    scan ⟨.gotUnavail, pre ++ [buildG g first cs e []], gi, pfx⟩ l =
      .ok (⟨.gotCreated, pre ++ [buildG g first cs e [{ fn := f }]], gi, pfx⟩, true, none) := by
  unfold scan
  simp [hl.eol, hl.ind, hc, hem, createdStep, modifyLast_snoc, setCreated, buildG]

theorem scan_file_created (pre : List Goroutine) (gi : Nat) (pfx : Bytes) (l : Line) (hl : LineOK l)
    (g : GSpec) (first : Bool) (cs : List Call) (e : Bool) (c : Call) (pl : Bytes × Nat)
    (hf : l.file = some (some pl)) :
    scan ⟨.gotCreated, pre ++ [buildG g first cs e [c]], gi, pfx⟩ l =
      .ok (⟨.gotFileCreated, pre ++ [buildG g first cs e [c.init pl.1 pl.2]], gi, pfx⟩, true, none) := by
  unfold scan
  simp [hl.eol, hl.ind, hf, needCreated0, modifyLast_snoc, setCreated, buildG]

/-- the blank line after a goroutine -/
theorem scan_blank (s : S) (l : Line) (hl : LineOK l) (hb : l.isBlank)
    (hs : s.st = .gotFileFunc ∨ s.st = .gotFileCreated ∨ s.st = .gotUnavail) :
    scan s l = .ok ({ s with st := .betweenRoutine }, true, none) := by
  unfold scan
  rcases hs with hs | hs | hs <;>
    simp [hs, hl.eol, hl.ind, hb.created, hb.elidedMark, hb.func, hb.empty, funcStep]


/-- the classifier record of a complete line whose text (after stripping the end of line and the
dump prefix) is `t` -/
def lineOf (t : Bytes) : Line :=
  { hasEOL := true, indentOK := true, empty := t.isEmpty,
    header := parseHeader t,
    sep := t == Extracted.raceHeaderFooter,
    warn := t == Extracted.raceHeader,
    unavail := matchUnavail t,
    func := parseFunc t,
    funcL := parseFunc (trimLeftSpace t),
    file := parseFile t,
    created := (matchCreated t).map (fun n => match funcInit n with | .ok f => .ok f | .error e => .error (Err.ofFErr e)),
    elidedMark := isFramesElidedLine t,
    raceOp := parseRaceOp (matchRaceOp t) Extracted.writeCap,
    racePrev := parseRaceOp (matchRacePrev t) Extracted.writeLow,
    raceGor := (matchRaceGoroutine t).map (fun (d, st) => (atou d, st)) }

theorem lineOf_ok (t : Bytes) : LineOK (lineOf t) := ⟨rfl, rfl⟩

theorem stripEOL_eol (crlf : Bool) (x : Bytes) (h : crlf = false → x.getLast? ≠ some 13) :
    stripEOL (x ++ eolOf crlf) = (x, true) := by
  unfold stripEOL eolOf
  cases crlf with
  | true =>
    have h1 : hasSuffix (x ++ [13, 10]) Extracted.crlf = true := hasSuffix_append x [13, 10]
    simp only [if_true, h1]
    have : (x ++ [13, 10]).length - 2 = x.length := by simp
    rw [this, List.take_left']
    rfl
  | false =>
    have hx := h rfl
    have h1 : hasSuffix (x ++ [10]) Extracted.crlf = false := by
      cases hh : hasSuffix (x ++ [10]) Extracted.crlf with
      | false => rfl
      | true =>
        obtain ⟨a, ha⟩ := (hasSuffix_iff _ _).1 hh
        have e : x ++ [10] = (a ++ [13]) ++ [10] := by rw [ha]; simp [Extracted.crlf]
        have := List.append_cancel_right e
        rw [this] at hx
        simp at hx
    have h2 : hasSuffix (x ++ [10]) Extracted.lf = true := hasSuffix_append x [10]
    simp only [Bool.false_eq_true, if_false, h1, h2, if_true]
    have : (x ++ [10]).length - 1 = x.length := by simp
    rw [this, List.take_left']
    rfl

theorem getLast?_append_ne_nil (a b : Bytes) (hb : b ≠ []) : (a ++ b).getLast? = b.getLast? := by
  rw [List.getLast?_append]
  cases h : b.getLast? with
  | none => exact absurd (List.getLast?_eq_none_iff.1 h) hb
  | some x => rfl

/-- a non-empty line printed with the dump indentation, seen with that prefix set -/
theorem classify_pfx (crlf : Bool) (indent l : Bytes) (hl : l ≠ [])
    (hcr : crlf = false → l.getLast? ≠ some 13) :
    classify indent (indent ++ l ++ eolOf crlf) = lineOf l := by
  have hs : stripEOL (indent ++ l ++ eolOf crlf) = (indent ++ l, true) := by
    apply stripEOL_eol
    intro h
    rw [getLast?_append_ne_nil _ _ hl]
    exact hcr h
  unfold classify
  rw [hs]
  simp only
  by_cases hi : indent = []
  · subst hi
    simp [lineOf]
    rfl
  · have h1 : ((indent ++ l).length != 0 && indent.length != 0) = true := by
      cases indent with
      | nil => exact absurd rfl hi
      | cons a t => simp
    have h2 : hasPrefix (indent ++ l) indent = true := hasPrefix_append indent l
    simp only [h1, h2, if_true, List.drop_left]
    rfl

/-- a line seen with no prefix set -/
theorem classify_nopfx (crlf : Bool) (x : Bytes) (hcr : crlf = false → x.getLast? ≠ some 13) :
    classify [] (x ++ eolOf crlf) = lineOf x := by
  unfold classify
  rw [stripEOL_eol crlf x hcr]
  simp [lineOf]
  rfl

/-- the blank line -/
theorem classify_blank (crlf : Bool) (pfx : Bytes) : classify pfx (eolOf crlf) = lineOf [] := by
  have := stripEOL_eol crlf [] (fun _ => by simp)
  simp only [List.nil_append] at this
  unfold classify
  rw [this]
  simp [lineOf]
  rfl

theorem lineOf_nil_isBlank : (lineOf []).isBlank := by
  have h := classify_empty_isBlank [] (eolOf false) (by rw [classify_blank]; rfl)
  rw [classify_blank] at h
  exact h


/-- a run of consumed lines: every line is non-empty, is withheld (`scan` returns true) without
error, and is read in a state other than `done` -/
inductive Steps : S → List Bytes → S → Prop
  | nil (s : S) : Steps s [] s
  | cons {s s1 s' : S} {raw : Bytes} {ls : List Bytes} :
      s.st ≠ .done → raw ≠ [] → scanBytes s raw = .ok (s1, true, none) → Steps s1 ls s' →
      Steps s (raw :: ls) s'

theorem Steps.append {s s1 s2 : S} {a b : List Bytes} (h1 : Steps s a s1) (h2 : Steps s1 b s2) :
    Steps s (a ++ b) s2 := by
  induction h1 with
  | nil => exact h2
  | cons hd hr hs _ ih => exact Steps.cons hd hr hs (ih h2)

theorem Steps.one {s s1 : S} {raw : Bytes} (hd : s.st ≠ .done) (hr : raw ≠ [])
    (hs : scanBytes s raw = .ok (s1, true, none)) : Steps s [raw] s1 :=
  Steps.cons hd hr hs (Steps.nil s1)

/-- the loop runs through a run of consumed lines -/
theorem scanL_steps {s s' : S} {ls : List Bytes} (h : Steps s ls s') (fwd : Bytes) (cons : List Bytes)
    (tail : List (Bytes × Option RErr)) :
    scanL s fwd cons (ls.map (fun l => (l, none)) ++ tail) = scanL s' fwd (cons ++ ls) tail := by
  induction h generalizing cons with
  | nil => simp
  | @cons s s1 s' raw ls hd hr hs _ ih =>
    simp only [List.map_cons, List.cons_append]
    rw [scanL_cons]
    have hd' : ¬ (s.st == .done) = true := by simpa using hd
    have hlen : (raw.length != 0) = true := by
      cases raw with
      | nil => exact absurd rfl hr
      | cons a t => simp
    rw [if_neg hd', if_pos hlen, hs]
    simp only [combineErr, Bool.not_true, Bool.false_eq_true, if_false, Option.isSome_none]
    rw [ih]
    simp


structure FrameOK (c : PrintCfg) (f : FrameSpec) (created hasParent : Bool) : Prop where
  sym : SymOK f hasParent
  file : FileOK c f.file
  line : f.line < 10 ^ 18
  args : created = false → f.inlined = true ∨ (argsWF f.args = true ∧ argsDepth f.args ≤ 5)

theorem frameWF_ok (c : PrintCfg) (f : FrameSpec) (cr hp : Bool) (h : frameWF c f cr hp = true) :
    FrameOK c f cr hp := by
  simp only [frameWF, Bool.and_eq_true, Bool.or_eq_true, decide_eq_true_eq] at h
  obtain ⟨⟨⟨h1, h2⟩, h3⟩, h4⟩ := h
  refine ⟨symWF_ok f hp h1, fileWF_ok c f.file h2, h3, ?_⟩
  intro hcr
  rcases h4 with (h4 | h4) | h4
  · rw [hcr] at h4; exact absurd h4 (by simp)
  · exact Or.inl h4
  · exact Or.inr h4

/-- appending text that starts with a byte foreign to `p` does not create the prefix `p` -/
theorem hasPrefix_append_cons_false (s x p : Bytes) (c : UInt8) (h : hasPrefix s p = false) (hc : c ∉ p) :
    hasPrefix (s ++ c :: x) p = false := by
  cases hh : hasPrefix (s ++ c :: x) p with
  | false => rfl
  | true =>
    exfalso
    obtain ⟨r, hr⟩ := (hasPrefix_iff _ _).1 hh
    rcases List.append_eq_append_iff.1 hr with ⟨a', h1, h2⟩ | ⟨c', h1, h2⟩
    · cases a' with
      | nil =>
        have : hasPrefix s p = true := (hasPrefix_iff _ _).2 ⟨[], by simp at h1; simp [h1]⟩
        rw [h] at this; exact Bool.noConfusion this
      | cons a t =>
        simp at h2
        apply hc
        rw [h1, h2.1]
        simp
    · have : hasPrefix s p = true := (hasPrefix_iff _ _).2 ⟨c', h1⟩
      rw [h] at this; exact Bool.noConfusion this

theorem funcLine_eq (f : FrameSpec) :
    funcLine f = f.symbol ++ 40 :: ((if f.inlined then b!"..." else printArgList f.args f.argsElide) ++ [41]) := by
  simp [funcLine]

theorem funcLine_ne_nil (f : FrameSpec) : funcLine f ≠ [] := by rw [funcLine_eq]; simp

theorem funcLine_last (f : FrameSpec) : (funcLine f).getLast? = some 41 := by
  have : funcLine f = (f.symbol ++ 40 :: (if f.inlined then b!"..." else printArgList f.args f.argsElide)) ++ [41] := by
    simp [funcLine]
  rw [this, List.getLast?_append]; rfl

theorem funcLine_unavail (f : FrameSpec) (hp : Bool) (hs : SymOK f hp) : matchUnavail (funcLine f) = false := by
  obtain ⟨c, t, hsym, hb⟩ := hs.head
  rw [funcLine_eq, hsym]
  exact matchUnavail_nonblank c _ hb

theorem funcLine_created (f : FrameSpec) (hp : Bool) (hs : SymOK f hp) : matchCreated (funcLine f) = none := by
  apply matchCreated_none
  rw [funcLine_eq]
  exact hasPrefix_append_cons_false _ _ _ 40 hs.created (by decide)

theorem funcLine_elided (f : FrameSpec) : isFramesElidedLine (funcLine f) = false := by
  have : funcLine f = (f.symbol ++ 40 :: (if f.inlined then b!"..." else printArgList f.args f.argsElide)) ++ [41] := by
    simp [funcLine]
  rw [this]
  exact isFramesElidedLine_paren _

/-- `Call.init` on the call built from the function line gives the described call -/
theorem preCall_init (f : FrameSpec) (hf : f.file ≠ []) :
    (preCall f).init f.file f.line = expCall f none true := by
  have hne : (f.file != []) = true := by simpa using hf
  cases h1 : lastIndexByte f.file 47 with
  | none =>
    simp [Call.init, hne, h1, expCall, expSrcName, expDirSrc, preCall, expArgsOf, testMainSrc]
    cases f.inlined <;> rfl
  | some i =>
    cases h2 : lastIndexByte (f.file.take i) 47 with
    | none =>
      simp [Call.init, hne, h1, h2, expCall, expSrcName, expDirSrc, preCall, expArgsOf, testMainSrc]
      cases f.inlined <;> rfl
    | some j =>
      by_cases ht : (f.file.drop (j + 1) == testMainSrc) = true
      · simp [Call.init, hne, h1, h2, ht, expCall, expSrcName, expDirSrc, preCall, expArgsOf]
        cases f.inlined <;> rfl
      · simp [Call.init, hne, h1, h2, ht, expCall, expSrcName, expDirSrc, preCall, expArgsOf]
        cases f.inlined <;> rfl


theorem getLast?_mem {l : Bytes} {x : UInt8} (h : l.getLast? = some x) : x ∈ l :=
  List.mem_of_getLast? h

/-- a file line does not end in a carriage return -/
theorem fileLine_last (fi file : Bytes) (line : Nat) (off : Option Nat) (fp : Option (Nat × Nat × Option Nat)) :
    (fi ++ (file ++ tailText line off fp)).getLast? ≠ some 13 := by
  rw [getLast?_append_ne_nil _ _ (by simp [tailText_ne_nil]), getLast?_append_ne_nil _ _ (tailText_ne_nil _ _ _)]
  intro h
  exact tailText_lacks line off fp 13 (by decide) (getLast?_mem h)

theorem fileLine_ne_nil (fi file : Bytes) (line : Nat) (off : Option Nat) (fp : Option (Nat × Nat × Option Nat)) :
    fi ++ (file ++ tailText line off fp) ≠ [] := by
  simp [tailText_ne_nil]

theorem rawLine_ne_nil (c : PrintCfg) (l : Bytes) : rawLine c l ≠ [] := by
  unfold rawLine eolOf
  cases c.crlf <;> simp

theorem pathOK_ne_nil {p : Bytes} (h : PathOK p) : p ≠ [] := by
  cases h with
  | unknown => decide
  | autogen => decide
  | ext stem ext h _ => simp

/-- the file line of a frame -/
theorem lineOf_file (c : PrintCfg) (hc : CfgOK c) (f : FrameSpec) (cr hp : Bool) (hf : FrameOK c f cr hp)
    (fp : Option (Nat × Nat × Option Nat)) :
    (lineOf (c.fileIndent ++ (f.file ++ tailText f.line f.off fp))).file = some (some (f.file, f.line)) :=
  parseFile_print c.fileIndent f.file hc.fileIndent hf.file.path hf.file.sp f.line hf.line f.off fp

/-- scanning the two lines of a frame -/
theorem frame_steps (c : PrintCfg) (hc : CfgOK c) (f : FrameSpec) (hf : FrameOK c f false false)
    (pre : List Goroutine) (gi : Nat) (g : GSpec) (first : Bool) (cs : List Call) (e : Bool) (st : St)
    (hst : (st = .gotRoutineHeader ∧ cs = [] ∧ e = false) ∨ st = .gotFileFunc) :
    Steps ⟨st, pre ++ [buildG g first cs e []], gi, c.indent⟩ ((frameLines c f).map (rawLine c))
      ⟨.gotFileFunc, pre ++ [buildG g first (cs ++ [expCall f none true]) e []], gi, c.indent⟩ := by
  have hfunc : (lineOf (funcLine f)).func = some (preCall f, none) := parseFunc_print f hf.sym (hf.args rfl)
  have hcl1 : classify c.indent (rawLine c (funcLine f)) = lineOf (funcLine f) :=
    classify_pfx c.crlf c.indent _ (funcLine_ne_nil f) (fun _ => by rw [funcLine_last]; simp)
  have hcl2 : classify c.indent (rawLine c (c.fileIndent ++ fileText f)) =
      lineOf (c.fileIndent ++ (f.file ++ tailText f.line f.off f.fp)) := by
    rw [fileText_eq]
    exact classify_pfx c.crlf c.indent _ (fileLine_ne_nil _ _ _ _ _) (fun _ => fileLine_last _ _ _ _ _)
  have hfile := lineOf_file c hc f false false hf f.fp
  have hinit := preCall_init f (pathOK_ne_nil hf.file.path)
  simp only [frameLines, List.map_cons, List.map_nil]
  refine Steps.cons (s1 := ⟨.gotFunc, pre ++ [buildG g first (cs ++ [preCall f]) e []], gi, c.indent⟩)
    ?_ (rawLine_ne_nil _ _) ?_ (Steps.one (by simp) (rawLine_ne_nil _ _) ?_)
  · rcases hst with ⟨h, _, _⟩ | h <;> rw [h] <;> simp
  · unfold scanBytes
    simp only
    rw [hcl1]
    rcases hst with ⟨h1, h2, h3⟩ | h1
    · subst h1 h2 h3
      exact scan_func_first pre gi c.indent _ (lineOf_ok _) g first _ (funcLine_unavail f false hf.sym) hfunc
    · subst h1
      exact scan_func_next pre gi c.indent _ (lineOf_ok _) g first cs e _
        (by show (matchCreated (funcLine f)).map _ = none; rw [funcLine_created f false hf.sym]; rfl)
        (funcLine_elided f) hfunc
  · unfold scanBytes
    simp only
    rw [hcl2]
    have := scan_file pre gi c.indent _ (lineOf_ok _) g first cs (preCall f) e (f.file, f.line) hfile
    rw [this]
    simp only [hinit]


/-- scanning a run of frames after the first one -/
theorem frames_steps (c : PrintCfg) (hc : CfgOK c) (fs : List FrameSpec)
    (hfs : ∀ f ∈ fs, FrameOK c f false false)
    (pre : List Goroutine) (gi : Nat) (g : GSpec) (first : Bool) (cs : List Call) (e : Bool) :
    Steps ⟨.gotFileFunc, pre ++ [buildG g first cs e []], gi, c.indent⟩
      ((fs.flatMap (frameLines c)).map (rawLine c))
      ⟨.gotFileFunc, pre ++ [buildG g first (cs ++ fs.map (fun f => expCall f none true)) e []], gi, c.indent⟩ := by
  induction fs generalizing cs with
  | nil => simp; exact Steps.nil _
  | cons f fs ih =>
    have h1 := frame_steps c hc f (hfs f (by simp)) pre gi g first cs e .gotFileFunc (Or.inr rfl)
    have h2 := ih (fun x hx => hfs x (by simp [hx])) (cs ++ [expCall f none true])
    simp only [List.flatMap_cons, List.map_append, List.map_cons, List.append_assoc, List.singleton_append] at h2 ⊢
    exact Steps.append h1 h2

/-- the elision marker -/
theorem marker_step (c : PrintCfg) (cnt : Option Nat)
    (pre : List Goroutine) (gi : Nat) (g : GSpec) (first : Bool) (cs : List Call) (e : Bool) :
    Steps ⟨.gotFileFunc, pre ++ [buildG g first cs e []], gi, c.indent⟩ [rawLine c (elidedMarker cnt)]
      ⟨.gotFileFunc, pre ++ [buildG g first cs true []], gi, c.indent⟩ := by
  obtain ⟨t, ht⟩ := elidedMarker_head cnt
  have hne : elidedMarker cnt ≠ [] := by rw [ht]; simp
  have hlast : (elidedMarker cnt).getLast? ≠ some 13 := by
    cases cnt with
    | none => decide
    | some n =>
      have : elidedMarker (some n) = (b!"..." ++ natToDec n ++ b!" frames elided..") ++ [46] := by
        simp [elidedMarker]
      rw [this, List.getLast?_append]; simp
  have hcl : classify c.indent (rawLine c (elidedMarker cnt)) = lineOf (elidedMarker cnt) :=
    classify_pfx c.crlf c.indent _ hne (fun _ => hlast)
  refine Steps.one (by simp) (rawLine_ne_nil _ _) ?_
  unfold scanBytes
  simp only
  rw [hcl]
  refine scan_elided pre gi c.indent _ (lineOf_ok _) g first cs e ?_ (isFramesElidedLine_print cnt)
  show (matchCreated (elidedMarker cnt)).map _ = none
  rw [matchCreated_none _ (by rw [ht]; exact hasPrefix_cons_ne 46 99 _ _ (by decide))]
  rfl

/-- the lines of a stack: frames, with the elision marker somewhere after the first frame -/
theorem stack_steps (c : PrintCfg) (hc : CfgOK c) (fs : List FrameSpec) (hne : fs ≠ [])
    (hfs : ∀ f ∈ fs, FrameOK c f false false) (el : Option (Option Nat × Nat))
    (hel : ∀ cnt pos, el = some (cnt, pos) → 1 ≤ pos ∧ pos < fs.length)
    (pre : List Goroutine) (gi : Nat) (g : GSpec) (first : Bool) :
    Steps ⟨.gotRoutineHeader, pre ++ [buildG g first [] false []], gi, c.indent⟩
      ((stackLines c fs el).map (rawLine c))
      ⟨.gotFileFunc, pre ++ [buildG g first (fs.map (fun f => expCall f none true)) el.isSome []], gi, c.indent⟩ := by
  cases fs with
  | nil => exact absurd rfl hne
  | cons f0 rest =>
    have h0 := frame_steps c hc f0 (hfs f0 (by simp)) pre gi g first [] false .gotRoutineHeader
      (Or.inl ⟨rfl, rfl, rfl⟩)
    have hrest : ∀ f ∈ rest, FrameOK c f false false := fun x hx => hfs x (by simp [hx])
    cases el with
    | none =>
      have h1 := frames_steps c hc rest hrest pre gi g first ([] ++ [expCall f0 none true]) false
      simp only [stackLines, List.flatMap_cons, List.map_append, List.map_cons, Option.isSome_none] at h1 ⊢
      exact Steps.append h0 h1
    | some v =>
      obtain ⟨cnt, pos⟩ := v
      obtain ⟨hp1, hp2⟩ := hel cnt pos rfl
      obtain ⟨k, rfl⟩ : ∃ k, pos = k + 1 := ⟨pos - 1, by omega⟩
      have hk : k ≤ rest.length := by simp at hp2; omega
      have ht : ∀ f ∈ rest.take k, FrameOK c f false false := fun x hx => hrest x (List.mem_of_mem_take hx)
      have hd : ∀ f ∈ rest.drop k, FrameOK c f false false := fun x hx => hrest x (List.mem_of_mem_drop hx)
      have h1 := frames_steps c hc (rest.take k) ht pre gi g first ([] ++ [expCall f0 none true]) false
      have h2 := marker_step c cnt pre gi g first
        ([] ++ [expCall f0 none true] ++ (rest.take k).map (fun f => expCall f none true)) false
      have h3 := frames_steps c hc (rest.drop k) hd pre gi g first
        ([] ++ [expCall f0 none true] ++ (rest.take k).map (fun f => expCall f none true)) true
      have hall := Steps.append h0 (Steps.append h1 (Steps.append h2 h3))
      have e1 : stackLines c (f0 :: rest) (some (cnt, k + 1)) =
          frameLines c f0 ++ ((rest.take k).flatMap (frameLines c) ++
            ([elidedMarker cnt] ++ (rest.drop k).flatMap (frameLines c))) := by
        unfold stackLines
        simp only [if_pos hp2, List.take_succ_cons, List.drop_succ_cons, List.flatMap_cons, List.append_assoc]
      have e2 : [] ++ [expCall f0 none true] ++ (rest.take k).map (fun f => expCall f none true) ++
          (rest.drop k).map (fun f => expCall f none true) = (f0 :: rest).map (fun f => expCall f none true) := by
        rw [List.append_assoc, ← List.map_append, List.take_append_drop]
        rfl
      rw [e1]
      simp only [List.map_append]
      rw [e2] at hall
      exact hall


structure GOK (c : PrintCfg) (g : GSpec) : Prop where
  id : g.id < 10 ^ 18
  wait : g.waitMin < 10 ^ 18
  status : statusWF g = true
  gpm : gpmWF g.gpm = true
  frames : g.unavail = false → g.frames ≠ [] ∧ (∀ f ∈ g.frames, FrameOK c f false false) ∧
    (∀ cnt pos, g.elided = some (cnt, pos) → 1 ≤ pos ∧ pos < g.frames.length)
  created : ∀ f parent, g.created = some (f, parent) → FrameOK c f true parent.isSome

theorem gWF_ok (c : PrintCfg) (g : GSpec) (h : gWF c g = true) : GOK c g := by
  simp only [gWF, Bool.and_eq_true, Bool.or_eq_true, decide_eq_true_eq, List.all_eq_true,
    Bool.not_eq_true'] at h
  obtain ⟨⟨⟨⟨⟨h1, h2⟩, h3⟩, h4⟩, h5⟩, h6⟩ := h
  refine ⟨h1, h2, h3, h4, ?_, ?_⟩
  · intro hu
    rcases h5 with h5 | ⟨⟨h5, h7⟩, h8⟩
    · rw [hu] at h5; exact absurd h5 (by simp)
    · refine ⟨?_, fun f hf => frameWF_ok c f false false (h7 f hf), ?_⟩
      · intro he; rw [he] at h5; simp at h5
      · intro cnt pos he
        rw [he] at h8
        simpa using h8
  · intro f parent he
    rw [he] at h6
    exact frameWF_ok c f true parent.isSome h6

theorem headerLine_last (g : GSpec) : (headerLine g).getLast? = some 58 := by
  have : headerLine g = (b!"goroutine " ++ natToDec g.id ++ gpmText g.gpm ++ b!" [" ++ statusText g ++ b!"]") ++ [58] := by
    simp [headerLine]
  rw [this, List.getLast?_append]; rfl

theorem headerLine_ne_nil (g : GSpec) : headerLine g ≠ [] := by simp [headerLine]

theorem mkGoroutine_eq (indent : Bytes) (g : GSpec) (first : Bool) :
    mkGoroutine { indent := indent, id := g.id, state := expState g, sleep := g.waitMin, locked := g.locked } first =
      buildG g first [] false [] := rfl

/-- the header of the first goroutine, read in state `looking` with no prefix set -/
theorem header_step_first (c : PrintCfg) (hc : CfgOK c) (g : GSpec) (hg : GOK c g) (gi : Nat) :
    Steps ⟨.looking, [], gi, []⟩ [rawLine c (headerLine g)]
      ⟨.gotRoutineHeader, [] ++ [buildG g true [] false []], gi, c.indent⟩ := by
  have hcl : classify [] (rawLine c (headerLine g)) = lineOf (c.indent ++ headerLine g) := by
    unfold rawLine
    apply classify_nopfx
    intro _
    rw [getLast?_append_ne_nil _ _ (headerLine_ne_nil g), headerLine_last]; simp
  have hh : (lineOf (c.indent ++ headerLine g)).header = some
      { indent := c.indent, id := g.id, state := expState g, sleep := g.waitMin, locked := g.locked } :=
    parseHeader_print c.indent g hc.indent hg.id hg.wait hg.status hg.gpm
  refine Steps.one (by simp) (rawLine_ne_nil _ _) ?_
  unfold scanBytes
  simp only
  rw [hcl, scan_header _ _ (lineOf_ok _) _ (Or.inl rfl) hh]
  simp [mkGoroutine_eq]

/-- the header of a later goroutine, read in state `betweenRoutine` with the prefix set -/
theorem header_step_next (c : PrintCfg) (_hc : CfgOK c) (g : GSpec) (hg : GOK c g) (pre : List Goroutine)
    (hpre : pre ≠ []) (gi : Nat) :
    Steps ⟨.betweenRoutine, pre, gi, c.indent⟩ [rawLine c (headerLine g)]
      ⟨.gotRoutineHeader, pre ++ [buildG g false [] false []], gi, c.indent⟩ := by
  have hcl : classify c.indent (rawLine c (headerLine g)) = lineOf (headerLine g) :=
    classify_pfx c.crlf c.indent _ (headerLine_ne_nil g) (fun _ => by rw [headerLine_last]; simp)
  have hh : (lineOf (headerLine g)).header = some
      { indent := [], id := g.id, state := expState g, sleep := g.waitMin, locked := g.locked } := by
    have := parseHeader_print [] g (by simp) hg.id hg.wait hg.status hg.gpm
    rw [List.nil_append] at this
    exact this
  refine Steps.one (by simp) (rawLine_ne_nil _ _) ?_
  unfold scanBytes
  simp only
  rw [hcl, scan_header _ _ (lineOf_ok _) _ (Or.inr rfl) hh]
  have : pre.isEmpty = false := by cases pre with | nil => exact absurd rfl hpre | cons a t => rfl
  simp [mkGoroutine_eq, this]

theorem unavail_step (c : PrintCfg) (hc : CfgOK c) (pre : List Goroutine) (gi : Nat) (g : GSpec) (first : Bool) :
    Steps ⟨.gotRoutineHeader, pre ++ [buildG g first [] false []], gi, c.indent⟩ [rawLine c (unavailLine c)]
      ⟨.gotUnavail, pre ++ [buildG g first [{ remoteSrcPath := b!"<unavailable>" }] false []], gi, c.indent⟩ := by
  have hne : unavailLine c ≠ [] := by simp [unavailLine, unavailText]
  have hlast : (unavailLine c).getLast? ≠ some 13 := by
    unfold unavailLine
    rw [getLast?_append_ne_nil _ _ (by decide)]
    decide
  have hcl : classify c.indent (rawLine c (unavailLine c)) = lineOf (unavailLine c) :=
    classify_pfx c.crlf c.indent _ hne (fun _ => hlast)
  refine Steps.one (by simp) (rawLine_ne_nil _ _) ?_
  unfold scanBytes
  simp only
  rw [hcl]
  exact scan_unavail pre gi c.indent _ (lineOf_ok _) g first (matchUnavail_print c.fileIndent hc.fileIndent)

theorem blank_step (crlf : Bool) (s : S)
    (hs : s.st = .gotFileFunc ∨ s.st = .gotFileCreated ∨ s.st = .gotUnavail) :
    Steps s [eolOf crlf] { s with st := .betweenRoutine } := by
  refine Steps.one ?_ (by cases crlf <;> simp [eolOf]) ?_
  · rcases hs with h | h | h <;> rw [h] <;> simp
  · unfold scanBytes
    rw [classify_blank]
    exact scan_blank s _ (lineOf_ok _) lineOf_nil_isBlank hs


/-- `Call.init` on a creator call gives the described call -/
theorem createdCall_init (f : FrameSpec) (parent : Option Nat) (hf : f.file ≠ []) :
    (({ fn := expFunc f.pkg f.name parent } : Call).init [] 0).init f.file f.line = expCall f parent false ∧
    ({ fn := expFunc f.pkg f.name parent } : Call).init f.file f.line = expCall f parent false := by
  have hne : (f.file != []) = true := by simpa using hf
  cases h1 : lastIndexByte f.file 47 with
  | none =>
    constructor <;> simp [Call.init, hne, h1, expCall, expSrcName, expDirSrc, expFunc, testMainSrc]
  | some i =>
    cases h2 : lastIndexByte (f.file.take i) 47 with
    | none =>
      constructor <;> simp [Call.init, hne, h1, h2, expCall, expSrcName, expDirSrc, expFunc, testMainSrc]
    | some j =>
      by_cases ht : (f.file.drop (j + 1) == testMainSrc) = true
      · constructor <;> simp [Call.init, hne, h1, h2, ht, expCall, expSrcName, expDirSrc, expFunc]
      · constructor <;> simp [Call.init, hne, h1, h2, ht, expCall, expSrcName, expDirSrc, expFunc]

theorem symbol_last (f : FrameSpec) (hp : Bool) (hs : SymOK f hp) : f.symbol.getLast? ≠ some 13 := by
  unfold FrameSpec.symbol
  by_cases hpk : f.pkg = []
  · simp only [hpk, if_true]; exact hs.cr
  · simp only [hpk, if_false]
    by_cases hn : f.name = []
    · rw [hn, List.append_nil, getLast?_append_ne_nil _ _ (by decide)]; decide
    · rw [getLast?_append_ne_nil _ _ hn]; exact hs.cr

theorem parentText_last (p : Nat) : (parentText (some p)).getLast? ≠ some 13 := by
  unfold parentText
  simp only
  rw [getLast?_append_ne_nil _ _ (natToDec_ne_nil p)]
  intro h
  exact not_mem_natToDec p 13 (by decide) (getLast?_mem h)

theorem createdLine_last (f : FrameSpec) (parent : Option Nat) (hs : SymOK f parent.isSome) :
    (b!"created by " ++ f.symbol ++ parentText parent).getLast? ≠ some 13 := by
  obtain ⟨c, t, hsym, _⟩ := hs.head
  have hne : f.symbol ≠ [] := by rw [hsym]; simp
  cases parent with
  | none =>
    simp only [parentText, List.append_nil]
    rw [getLast?_append_ne_nil _ _ hne]
    exact symbol_last f _ hs
  | some p =>
    rw [getLast?_append_ne_nil _ _ (by simp [parentText])]
    exact parentText_last p

/-- the two `created by` lines, after a stack (`doInit`) or after an unavailable stack -/
theorem created_steps (c : PrintCfg) (hc : CfgOK c) (f : FrameSpec) (parent : Option Nat)
    (hf : FrameOK c f true parent.isSome)
    (pre : List Goroutine) (gi : Nat) (g : GSpec) (first : Bool) (cs : List Call) (e : Bool) (st : St)
    (hst : st = .gotFileFunc ∨ st = .gotUnavail) :
    Steps ⟨st, pre ++ [buildG g first cs e []], gi, c.indent⟩
      ((createdLines c (some (f, parent))).map (rawLine c))
      ⟨.gotFileCreated, pre ++ [buildG g first cs e [expCall f parent false]], gi, c.indent⟩ := by
  obtain ⟨c0, t0, hsym, _⟩ := hf.sym.head
  have hne : f.symbol ++ parentText parent ≠ [] := by rw [hsym]; simp
  have hcl1 : classify c.indent (rawLine c (b!"created by " ++ f.symbol ++ parentText parent)) =
      lineOf (b!"created by " ++ f.symbol ++ parentText parent) :=
    classify_pfx c.crlf c.indent _ (by simp) (fun _ => createdLine_last f parent hf.sym)
  have hfi : funcInit (f.symbol ++ parentText parent) = .ok (expFunc f.pkg f.name parent) :=
    funcInit_symbol f parent ⟨hf.sym.slash, hf.sym.pct⟩ (fun h => (hf.sym.csym h).2)
      (fun h => hf.sym.form (by rw [h]; rfl))
  have hcr : (lineOf (b!"created by " ++ f.symbol ++ parentText parent)).created =
      some (.ok (expFunc f.pkg f.name parent)) := by
    show (matchCreated (b!"created by " ++ f.symbol ++ parentText parent)).map _ = _
    rw [List.append_assoc, matchCreated_print _ hne]
    simp only [Option.map_some, hfi]
  have hcl2 : classify c.indent (rawLine c (c.fileIndent ++ (f.file ++ b!":" ++ natToDec f.line ++ offText f.off))) =
      lineOf (c.fileIndent ++ (f.file ++ tailText f.line f.off none)) := by
    rw [createdFile_eq]
    exact classify_pfx c.crlf c.indent _ (fileLine_ne_nil _ _ _ _ _) (fun _ => fileLine_last _ _ _ _ _)
  have hfile := lineOf_file c hc f true parent.isSome hf none
  obtain ⟨hi1, hi2⟩ := createdCall_init f parent (pathOK_ne_nil hf.file.path)
  simp only [createdLines, List.map_cons, List.map_nil]
  rcases hst with hst | hst
  · subst hst
    refine Steps.cons (s1 := ⟨.gotCreated, pre ++ [buildG g first cs e
        [({ fn := expFunc f.pkg f.name parent } : Call).init [] 0]], gi, c.indent⟩)
      (by simp) (rawLine_ne_nil _ _) ?_ (Steps.one (by simp) (rawLine_ne_nil _ _) ?_)
    · unfold scanBytes
      simp only
      rw [hcl1]
      exact scan_created pre gi c.indent _ (lineOf_ok _) g first cs e _ hcr
    · unfold scanBytes
      simp only
      rw [hcl2, scan_file_created pre gi c.indent _ (lineOf_ok _) g first cs e _ (f.file, f.line) hfile]
      simp only [hi1]
  · subst hst
    refine Steps.cons (s1 := ⟨.gotCreated, pre ++ [buildG g first cs e
        [({ fn := expFunc f.pkg f.name parent } : Call)]], gi, c.indent⟩)
      (by simp) (rawLine_ne_nil _ _) ?_ (Steps.one (by simp) (rawLine_ne_nil _ _) ?_)
    · unfold scanBytes
      simp only
      rw [hcl1]
      exact scan_created_unavail pre gi c.indent _ (lineOf_ok _) g first cs e _ (by simp [lineOf]) hcr
    · unfold scanBytes
      simp only
      rw [hcl2, scan_file_created pre gi c.indent _ (lineOf_ok _) g first cs e _ (f.file, f.line) hfile]
      simp only [hi2]


/-- the finished goroutine is the expected one -/
theorem expectedG_eq (g : GSpec) (first : Bool) :
    expectedG g first =
      buildG g first
        (if g.unavail then [{ remoteSrcPath := b!"<unavailable>" }] else g.frames.map (fun f => expCall f none true))
        (if g.unavail then false else g.elided.isSome)
        (match g.created with | none => [] | some (f, parent) => [expCall f parent false]) := by
  unfold expectedG buildG
  cases hu : g.unavail <;> cases hc : g.created <;> simp

/-- the states a goroutine's lines can end in: all of them accept a blank line or the end of input -/
def EndSt (st : St) : Prop := st = .gotFileFunc ∨ st = .gotFileCreated ∨ st = .gotUnavail

/-- scanning the lines of one goroutine after its header -/
theorem body_steps (c : PrintCfg) (hc : CfgOK c) (g : GSpec) (hg : GOK c g)
    (pre : List Goroutine) (gi : Nat) (first : Bool) :
    ∃ st, EndSt st ∧
      Steps ⟨.gotRoutineHeader, pre ++ [buildG g first [] false []], gi, c.indent⟩
        (((if g.unavail then [unavailLine c] else stackLines c g.frames g.elided) ++
            createdLines c g.created).map (rawLine c))
        ⟨st, pre ++ [expectedG g first], gi, c.indent⟩ := by
  rw [expectedG_eq]
  cases hu : g.unavail with
  | true =>
    have h1 := unavail_step c hc pre gi g first
    cases hcr : g.created with
    | none =>
      refine ⟨.gotUnavail, Or.inr (Or.inr rfl), ?_⟩
      simpa [createdLines] using h1
    | some v =>
      obtain ⟨f, parent⟩ := v
      have h2 := created_steps c hc f parent (hg.created f parent hcr) pre gi g first
        [{ remoteSrcPath := b!"<unavailable>" }] false .gotUnavail (Or.inr rfl)
      refine ⟨.gotFileCreated, Or.inr (Or.inl rfl), ?_⟩
      simp only [if_true, List.map_append]
      exact Steps.append h1 h2
  | false =>
    obtain ⟨hne, hfs, hel⟩ := hg.frames hu
    have h1 := stack_steps c hc g.frames hne hfs g.elided hel pre gi g first
    cases hcr : g.created with
    | none =>
      refine ⟨.gotFileFunc, Or.inl rfl, ?_⟩
      simpa [createdLines] using h1
    | some v =>
      obtain ⟨f, parent⟩ := v
      have h2 := created_steps c hc f parent (hg.created f parent hcr) pre gi g first
        (g.frames.map (fun f => expCall f none true)) g.elided.isSome .gotFileFunc (Or.inl rfl)
      refine ⟨.gotFileCreated, Or.inr (Or.inl rfl), ?_⟩
      simp only [Bool.false_eq_true, if_false, List.map_append]
      exact Steps.append h1 h2

theorem goroutineRaw_eq (c : PrintCfg) (g : GSpec) :
    goroutineRaw c g = [rawLine c (headerLine g)] ++
      ((if g.unavail then [unavailLine c] else stackLines c g.frames g.elided) ++
        createdLines c g.created).map (rawLine c) := by
  simp [goroutineRaw, goroutineLines]

/-- the expected goroutines of a dump whose first goroutine is `first` -/
def expectedFrom (first : Bool) : List GSpec → List Goroutine
  | [] => []
  | g :: gs => expectedG g first :: gs.map (fun g => expectedG g false)

theorem expected_eq (d : List GSpec) : expected d = expectedFrom true d := by
  cases d <;> rfl

/-- scanning a whole dump, from the start or between two goroutines -/
theorem dump_steps (c : PrintCfg) (hc : CfgOK c) (d : List GSpec) (hd : ∀ g ∈ d, GOK c g) (hne : d ≠ [])
    (pre : List Goroutine) (gi : Nat) (st0 : St) (pfx0 : Bytes)
    (h0 : (st0 = .looking ∧ pfx0 = [] ∧ pre = []) ∨ (st0 = .betweenRoutine ∧ pfx0 = c.indent ∧ pre ≠ [])) :
    ∃ st, EndSt st ∧
      Steps ⟨st0, pre, gi, pfx0⟩ (dumpRaw c d) ⟨st, pre ++ expectedFrom pre.isEmpty d, gi, c.indent⟩ := by
  induction d generalizing pre st0 pfx0 with
  | nil => exact absurd rfl hne
  | cons g rest ih =>
    have hg := hd g (by simp)
    -- the header
    have hhdr : Steps ⟨st0, pre, gi, pfx0⟩ [rawLine c (headerLine g)]
        ⟨.gotRoutineHeader, pre ++ [buildG g pre.isEmpty [] false []], gi, c.indent⟩ := by
      rcases h0 with ⟨h1, h2, h3⟩ | ⟨h1, h2, h3⟩
      · subst h1 h2 h3; exact header_step_first c hc g hg gi
      · subst h1 h2
        have : pre.isEmpty = false := by cases pre with | nil => exact absurd rfl h3 | cons a t => rfl
        rw [this]
        exact header_step_next c hc g hg pre h3 gi
    obtain ⟨st1, hst1, hbody⟩ := body_steps c hc g hg pre gi pre.isEmpty
    have hgor : Steps ⟨st0, pre, gi, pfx0⟩ (goroutineRaw c g)
        ⟨st1, pre ++ [expectedG g pre.isEmpty], gi, c.indent⟩ := by
      rw [goroutineRaw_eq]
      exact Steps.append hhdr hbody
    cases rest with
    | nil =>
      refine ⟨st1, hst1, ?_⟩
      simpa [dumpRaw, expectedFrom] using hgor
    | cons g2 rest2 =>
      have hblank := blank_step c.crlf ⟨st1, pre ++ [expectedG g pre.isEmpty], gi, c.indent⟩ hst1
      obtain ⟨st2, hst2, hrest⟩ := ih (fun x hx => hd x (by simp [hx])) (by simp)
        (pre ++ [expectedG g pre.isEmpty]) .betweenRoutine c.indent (Or.inr ⟨rfl, rfl, by simp⟩)
      refine ⟨st2, hst2, ?_⟩
      have hall := Steps.append hgor (Steps.append hblank hrest)
      have e1 : dumpRaw c (g :: g2 :: rest2) = goroutineRaw c g ++ ([eolOf c.crlf] ++ dumpRaw c (g2 :: rest2)) := by
        simp [dumpRaw]
      have e2 : (pre ++ [expectedG g pre.isEmpty]).isEmpty = false := by simp
      rw [e1]
      rw [e2] at hall
      simpa [expectedFrom] using hall


theorem WF_ok (c : PrintCfg) (d : List GSpec) (h : WF c d = true) :
    cfgWF c = true ∧ (∀ g ∈ d, gWF c g = true) := by
  simp only [WF, Bool.and_eq_true, List.all_eq_true] at h
  exact h

theorem roundtrip_aux (c : PrintCfg) (d : List GSpec) (hne : d ≠ []) (hwf : WF c d = true) :
    ∃ st, EndSt st ∧
      scanL {} [] [] (specLines (printDump c d) .eof) =
        { s := ⟨st, expected d, 0, c.indent⟩, fwd := [], consumed := dumpRaw c d,
          err := some (.reader .eof), rest := [], broke := false } := by
  obtain ⟨hc, hd⟩ := WF_ok c d hwf
  obtain ⟨st, hst, hsteps⟩ := dump_steps c (cfgWF_ok c hc) d (fun g hg => gWF_ok c g (hd g hg)) hne
    [] 0 .looking [] (Or.inl ⟨rfl, rfl, rfl⟩)
  refine ⟨st, hst, ?_⟩
  rw [specLines_dump c d hc hd]
  have h0 : ({} : S) = ⟨.looking, [], 0, []⟩ := rfl
  rw [h0, scanL_steps hsteps, scanL_cons]
  have hnd : ¬ (st == St.done) = true := by
    rcases hst with h | h | h <;> rw [h] <;> simp
  simp only [List.nil_append, List.isEmpty_nil, ← expected_eq] at *
  rw [if_neg hnd]
  simp

end PP.Spec
