import PP.Lemmas.HtmlDocLemmas
import PP.Model.HtmlDoc
/-
Lemmas about the whole document of PP/Model/HtmlDoc.lean: the head, the
Metadata section, the footer.
-/
namespace PP.Html
open PP PP.Bytes

/-! ### holes of a piece list -/

/-- the holes of a piece list, in order: (pipeline, value) -/
def holesOf (ps : List Piece) : List (HoleKind × Bytes) :=
  ps.filterMap fun p => match p with | .hole k v => some (k, v) | .lit _ => none

theorem holesOf_append (a b : List Piece) : holesOf (a ++ b) = holesOf a ++ holesOf b := by
  simp [holesOf, List.filterMap_append]

@[simp] theorem holesOf_nil : holesOf [] = [] := rfl
@[simp] theorem holesOf_lit (b : Bytes) (ps : List Piece) : holesOf (.lit b :: ps) = holesOf ps := by
  simp [holesOf]
@[simp] theorem holesOf_hole (k : HoleKind) (v : Bytes) (ps : List Piece) :
    holesOf (.hole k v :: ps) = (k, v) :: holesOf ps := by
  simp [holesOf]
@[simp] theorem holesOf_tx (v : Bytes) (ps : List Piece) : holesOf (tx v :: ps) = (.text, v) :: holesOf ps := by
  simp [tx]
@[simp] theorem holesOf_txNat (n : Nat) (ps : List Piece) :
    holesOf (txNat n :: ps) = (.text, natToDec n) :: holesOf ps := by
  simp [txNat]

/-! ### the favicon hole -/

/-- the favicon hole is rendered by the pinned pipeline `urlnormalizer, attrescaper` -/
theorem faviconHole_render (v : Bytes) :
    (faviconHole v).render = .ok (attrEscaper (urlNormalizer v)) := rfl

@[simp] theorem wf_faviconHole (v : Bytes) : Piece.wf (faviconHole v) = true := rfl

/-! ### literals of the document -/

/-- the literals of the head -/
def headLits' : List Bytes := [Lit.t0, Lit.t1, Lit.t2, Lit.t3, Lit.t4]

/-- the literals of the Metadata section and the legend -/
def metaLits : List Bytes :=
  [Lit.t37, Lit.t38, Lit.t39, Lit.t40, Lit.t41, Lit.t42, Lit.t43, Lit.t44, Lit.t45, Lit.j0, Lit.t46, Lit.t47,
   Lit.t48, Lit.t49, Lit.t50, Lit.t51, Lit.t52, Lit.t53]

/-- the literals of the content division: block markers, table opener, the rest -/
def contentLits : List Bytes := Lit.h1Goroutine :: Lit.h1Bucket :: Lit.c0 :: blockInner

/-- every text node of the template that can be written before `{{.Footer}}` -/
def docLits : List Bytes := headLits' ++ contentLits ++ metaLits

theorem headPieces_lits (m : DocMeta) : litsOf (headPieces m) = headLits' := by
  simp [headPieces, faviconHole, headLits']

theorem headPieces_wf (m : DocMeta) : (headPieces m).all Piece.wf = true := by
  simp [headPieces]

theorem headPieces_holes (m : DocMeta) : holesOf (headPieces m) = [(.href, m.favicon)] := by
  simp [headPieces, faviconHole]

theorem joinItems_lits (l : List Bytes) : inS [Lit.j0] (litsOf (joinItems l)) = true := by
  induction l with
  | nil => rfl
  | cons x xs ih =>
    cases xs with
    | nil => simp [joinItems, inS]
    | cons y ys => simp only [joinItems, litsOf_tx, litsOf_lit]; simpa [inS] using ih

theorem joinItems_wf (l : List Bytes) : (joinItems l).all Piece.wf = true := by
  induction l with
  | nil => rfl
  | cons x xs ih =>
    cases xs with
    | nil => simp [joinItems]
    | cons y ys => simp only [joinItems, List.all_cons, wf_tx, wf_lit, Bool.true_and]; exact ih

theorem joinItems_holes (l : List Bytes) : holesOf (joinItems l) = l.map fun e => (HoleKind.text, e) := by
  induction l with
  | nil => rfl
  | cons x xs ih =>
    cases xs with
    | nil => simp [joinItems]
    | cons y ys => simp only [joinItems, holesOf_tx, holesOf_lit, List.map_cons]; rw [ih]; rfl

/-- the values printed for GOROOT -/
def gorootVals (m : DocMeta) : List Bytes :=
  if m.localGOROOT != [] && m.remoteGOROOT != m.localGOROOT then [m.remoteGOROOT, m.localGOROOT]
  else [m.remoteGOROOT]

theorem gorootPieces_lits (m : DocMeta) : inS metaLits (litsOf (gorootPieces m)) = true := by
  unfold gorootPieces; split <;> simp <;> decide

theorem gorootPieces_wf (m : DocMeta) : (gorootPieces m).all Piece.wf = true := by
  unfold gorootPieces; split <;> simp

theorem gorootPieces_holes (m : DocMeta) :
    holesOf (gorootPieces m) = (gorootVals m).map fun e => (HoleKind.text, e) := by
  unfold gorootPieces gorootVals; split <;> simp

theorem gomodItems_lits (l : List (Bytes × Bytes)) : inS metaLits (litsOf (gomodItems l)) = true := by
  induction l with
  | nil => rfl
  | cons x xs ih =>
    obtain ⟨p, i⟩ := x
    simp only [gomodItems, litsOf_append, litsOf_lit, litsOf_tx, litsOf_nil, inS_append, ih, Bool.and_true]
    decide

theorem gomodItems_wf (l : List (Bytes × Bytes)) : (gomodItems l).all Piece.wf = true := by
  induction l with
  | nil => rfl
  | cons x xs ih =>
    obtain ⟨p, i⟩ := x
    simp [gomodItems, ih]

theorem gomodItems_holes (l : List (Bytes × Bytes)) :
    holesOf (gomodItems l) = l.flatMap fun kv => [(HoleKind.text, kv.1), (HoleKind.text, kv.2)] := by
  induction l with
  | nil => rfl
  | cons x xs ih =>
    obtain ⟨p, i⟩ := x
    simp [gomodItems, ih]

theorem gomodPieces_lits (m : DocMeta) : inS metaLits (litsOf (gomodPieces m)) = true := by
  unfold gomodPieces
  split
  · rfl
  · simp only [litsOf_append, litsOf_lit, litsOf_nil, inS_append, gomodItems_lits, Bool.and_true]; decide

theorem gomodPieces_wf (m : DocMeta) : (gomodPieces m).all Piece.wf = true := by
  unfold gomodPieces
  split
  · rfl
  · simp [List.all_append, gomodItems_wf]

theorem gomodPieces_holes (m : DocMeta) :
    holesOf (gomodPieces m) = m.localGomods.flatMap fun kv => [(HoleKind.text, kv.1), (HoleKind.text, kv.2)] := by
  unfold gomodPieces
  split
  · rename_i h
    rw [List.isEmpty_iff] at h; rw [h]; rfl
  · simp [holesOf_append, gomodItems_holes]

set_option maxRecDepth 100000 in
theorem metaPieces_lits (ver : Bytes) (m : DocMeta) : inS metaLits (litsOf (metaPieces ver m)) = true := by
  have hj := inS_mono _ metaLits _ (by decide) (joinItems_lits m.localGOPATHs)
  unfold metaPieces metaListPieces
  simp only [litsOf_append, litsOf_lit, litsOf_tx, litsOf_txNat, litsOf_nil, inS_append, gorootPieces_lits,
    gomodPieces_lits, hj, Bool.and_true]
  decide

theorem metaPieces_wf (ver : Bytes) (m : DocMeta) : (metaPieces ver m).all Piece.wf = true := by
  unfold metaPieces metaListPieces
  simp [List.all_append, gorootPieces_wf, gomodPieces_wf, joinItems_wf]

/-- every value the Metadata section prints, in document order -/
def metaVals (ver : Bytes) (m : DocMeta) : List Bytes :=
  [m.now, ver] ++ gorootVals m ++ m.localGOPATHs ++ (m.localGomods.flatMap fun kv => [kv.1, kv.2]) ++
  [natToDec m.gomaxprocs]

theorem metaPieces_holes (ver : Bytes) (m : DocMeta) :
    holesOf (metaPieces ver m) = (metaVals ver m).map fun e => (HoleKind.text, e) := by
  unfold metaPieces metaListPieces metaVals
  simp [holesOf_append, gorootPieces_holes, joinItems_holes, gomodPieces_holes, List.map_flatMap]

/-! ### the content division: its literals are template text nodes -/

theorem goroutineBlocks_lits (ver : Bytes) (gs : List Goroutine) (r : List Piece)
    (h : goroutineBlocks ver gs = .ok r) : inS contentLits (litsOf r) = true := by
  induction gs generalizing r with
  | nil => simp only [goroutineBlocks] at h; injection h with h; subst h; rfl
  | cons g gs ih =>
    unfold goroutineBlocks at h
    split at h
    · cases h
    · rename_i b hb
      split at h
      · cases h
      · rename_i bs hbs
        injection h with h; subst h
        rw [litsOf_append, inS_append, ih bs hbs, Bool.and_true]
        exact inS_mono _ contentLits _ (by decide) (goroutineBlock_spec ver g b hb).inner

theorem bucketBlocks_lits (ver : Bytes) (bk : List Bucket) (i : Nat) (r : List Piece)
    (h : bucketBlocks ver i bk = .ok r) : inS contentLits (litsOf r) = true := by
  induction bk generalizing i r with
  | nil => simp only [bucketBlocks] at h; injection h with h; subst h; rfl
  | cons g gs ih =>
    unfold bucketBlocks at h
    split at h
    · cases h
    · rename_i b hb
      split at h
      · cases h
      · rename_i bs hbs
        injection h with h; subst h
        rw [litsOf_append, inS_append, ih (i + 1) bs hbs, Bool.and_true]
        exact inS_mono _ contentLits _ (by decide) (bucketBlock_spec ver i g b hb).inner

theorem contentOf_spec (ver : Bytes) (b : DocBody) (c : List Piece) (h : contentOf ver b = .ok c) :
    inS contentLits (litsOf c) = true ∧ c.all Piece.wf = true := by
  cases b with
  | snapshot gs => exact ⟨goroutineBlocks_lits ver gs c h, (goroutineBlocks_spec ver gs c h).wf⟩
  | aggregated bs => exact ⟨bucketBlocks_lits ver bs 0 c h, (bucketBlocks_spec ver bs 0 c h).wf⟩

/-! ### the document -/

theorem docPieces_eq (d : DocData) (ps : List Piece) (h : docPieces d = .ok ps) :
    ∃ c, contentOf d.ver d.body = .ok c ∧ ps = headPieces d.toDocMeta ++ c ++ metaPieces d.ver d.toDocMeta := by
  unfold docPieces at h
  split at h
  · cases h
  · rename_i c hc
    injection h with h
    exact ⟨c, hc, h.symm⟩

set_option maxRecDepth 100000 in
theorem docPieces_spec (d : DocData) (ps : List Piece) (h : docPieces d = .ok ps) :
    inS docLits (litsOf ps) = true ∧ ps.all Piece.wf = true := by
  obtain ⟨c, hc, rfl⟩ := docPieces_eq d ps h
  obtain ⟨c1, c2⟩ := contentOf_spec d.ver d.body c hc
  constructor
  · rw [litsOf_append, litsOf_append, inS_append, inS_append, headPieces_lits]
    rw [inS_mono _ docLits _ (by decide) c1, inS_mono _ docLits _ (by decide) (metaPieces_lits d.ver d.toDocMeta)]
    decide
  · simp [List.all_append, headPieces_wf, c2, metaPieces_wf]

theorem renderWithFooter_spec (ps : List Piece) (footer : Bytes) (h : ps.all Piece.wf = true) :
    ∃ r, renderPieces ps = .ok r ∧ renderWithFooter ps footer = .ok (r ++ footer ++ Lit.t54) ∧
      markup (r ++ footer ++ Lit.t54) = markup (litsOf ps).flatten ++ markup footer ++ markup Lit.t54 := by
  obtain ⟨r, hr, hm⟩ := renderPieces_spec ps h
  refine ⟨r, hr, ?_, ?_⟩
  · simp [renderWithFooter, hr, htmlEscaperHTML]
  · rw [markup_append, markup_append, hm]

theorem renderDoc_eq (d : DocData) (ps : List Piece) (h : docPieces d = .ok ps) :
    renderDoc d = renderWithFooter ps d.footer := by
  simp [renderDoc, h]

/-! ### `&` in rendered pieces -/

theorem ampOK_append (a b : Bytes) (ha : ampOK a = true) (hb : ampOK b = true) : ampOK (a ++ b) = true := by
  induction a with
  | nil => simpa using hb
  | cons c t ih =>
    simp only [ampOK, Bool.and_eq_true, Bool.or_eq_true, List.any_eq_true] at ha
    simp only [List.cons_append, ampOK, Bool.and_eq_true, Bool.or_eq_true, List.any_eq_true]
    refine ⟨?_, ih ha.2⟩
    rcases ha.1 with h1 | ⟨e, he, hp⟩
    · exact Or.inl h1
    · obtain ⟨x, rfl⟩ := (hasPrefix_iff t e).1 hp
      refine Or.inr ⟨e, he, ?_⟩
      rw [List.append_assoc]; exact hasPrefix_append_self _ _

/-- a piece list whose holes are all text or URL holes -/
def noClsHole (ps : List Piece) : Bool := (holesOf ps).all fun kv => kv.1 != .cls

theorem renderPieces_ampOK (ps : List Piece) (hl : (litsOf ps).all ampOK = true) (hk : noClsHole ps = true)
    (r : Bytes) (h : renderPieces ps = .ok r) : ampOK r = true := by
  induction ps generalizing r with
  | nil => simp only [renderPieces] at h; injection h with h; subst h; rfl
  | cons p ps ih =>
    unfold renderPieces at h
    split at h
    · cases h
    · rename_i b hb
      split at h
      · cases h
      · rename_i r' hr'
        injection h with h; subst h
        cases p with
        | lit x =>
          simp only [litsOf_lit, List.all_cons, Bool.and_eq_true] at hl
          simp only [noClsHole, holesOf_lit] at hk
          simp only [Piece.render] at hb; injection hb with hb; subst hb
          exact ampOK_append _ _ hl.1 (ih hl.2 hk r' hr')
        | hole k v =>
          simp only [litsOf_hole] at hl
          simp only [noClsHole, holesOf_hole, List.all_cons, Bool.and_eq_true] at hk
          have ih' := ih hl hk.2 r' hr'
          cases k with
          | text =>
            simp only [Piece.render, renderHole] at hb; injection hb with hb; subst hb
            exact ampOK_append _ _ (ampOK_htmlReplacer v) ih'
          | href =>
            simp only [Piece.render, renderHole] at hb; injection hb with hb; subst hb
            exact ampOK_append _ _ (ampOK_htmlReplacer _) ih'
          | cls => simp at hk

/-! ### rendering succeeds -/

/-- the runtime version does not trip the slice expression of html.go:142 -/
def verOK (ver : Bytes) : Prop := hasPrefix ver develPrefix = false ∨ 17 ≤ ver.length

theorem builders_ok' (ver : Bytes) (c : Call) (hv : verOK ver) :
    (∃ u, srcURL ver c = .ok u) ∧ (∃ u, pkgURL ver c = .ok u) := by
  have hd : ∃ v, develVersion ver = .ok v := by
    unfold develVersion
    rcases hv with hv | hv
    · rw [hv]; exact ⟨_, rfl⟩
    · split
      · rw [if_neg (by simp [develPrefix]; omega)]; exact ⟨_, rfl⟩
      · exact ⟨_, rfl⟩
  obtain ⟨v, hv'⟩ := hd
  have hg : ∃ ut, getSrcBranchURL ver c = .ok ut := by
    unfold getSrcBranchURL
    split
    · rw [hv']; exact ⟨_, rfl⟩
    · exact ⟨_, rfl⟩
  obtain ⟨ut, hut⟩ := hg
  constructor
  · exact ⟨ut.1, by simp [srcURL, hut, Except.map]⟩
  · have hs : ∃ s, pkgSite ver c = .ok s := by
      unfold pkgSite
      split
      · exact ⟨_, rfl⟩
      · rw [hut]; simp only []; split <;> exact ⟨_, rfl⟩
    obtain ⟨s, hs⟩ := hs
    unfold pkgURL
    simp only [hs]
    split
    · exact ⟨_, rfl⟩
    · split <;> exact ⟨_, rfl⟩

theorem callRow_ok (ver : Bytes) (hv : verOK ver) (i : Nat) (c : Call) : ∃ r, callRow ver i c = .ok r := by
  obtain ⟨⟨su, hsu⟩, ⟨pu, hpu⟩⟩ := builders_ok' ver c hv
  unfold callRow
  rw [hsu, hpu]
  exact ⟨_, rfl⟩

theorem callRows_ok (ver : Bytes) (hv : verOK ver) (cs : List Call) (i : Nat) : ∃ r, callRows ver i cs = .ok r := by
  induction cs generalizing i with
  | nil => exact ⟨_, rfl⟩
  | cons c cs ih =>
    obtain ⟨r, hr⟩ := callRow_ok ver hv i c
    obtain ⟨rs, hrs⟩ := ih (i + 1)
    exact ⟨r ++ rs, by simp [callRows, hr, hrs]⟩

theorem renderCalls_ok (ver : Bytes) (hv : verOK ver) (s : Stack) : ∃ r, renderCalls ver s = .ok r := by
  obtain ⟨rows, h⟩ := callRows_ok ver hv s.calls 0
  simp only [renderCalls, h]; exact ⟨_, rfl⟩

theorem createdPieces_ok (ver : Bytes) (hv : verOK ver) (s : Signature) : ∃ r, createdPieces ver s = .ok r := by
  unfold createdPieces
  split
  · exact ⟨_, rfl⟩
  · rename_i c _ _
    obtain ⟨⟨su, hsu⟩, ⟨pu, hpu⟩⟩ := builders_ok' ver c hv
    simp only [renderCreatedBy, hsu, hpu]
    exact ⟨_, rfl⟩

theorem goroutineBlock_ok (ver : Bytes) (hv : verOK ver) (g : Goroutine) : ∃ r, goroutineBlock ver g = .ok r := by
  obtain ⟨cr, hcr⟩ := createdPieces_ok ver hv g.sig
  obtain ⟨calls, hcalls⟩ := renderCalls_ok ver hv g.sig.stack
  simp only [goroutineBlock, hcr, hcalls]; exact ⟨_, rfl⟩

theorem bucketBlock_ok (ver : Bytes) (hv : verOK ver) (i : Nat) (b : Bucket) : ∃ r, bucketBlock ver i b = .ok r := by
  obtain ⟨cr, hcr⟩ := createdPieces_ok ver hv b.sig
  obtain ⟨calls, hcalls⟩ := renderCalls_ok ver hv b.sig.stack
  simp only [bucketBlock, hcr, hcalls]; exact ⟨_, rfl⟩

theorem goroutineBlocks_ok (ver : Bytes) (hv : verOK ver) (gs : List Goroutine) :
    ∃ r, goroutineBlocks ver gs = .ok r := by
  induction gs with
  | nil => exact ⟨_, rfl⟩
  | cons g gs ih =>
    obtain ⟨r, hr⟩ := goroutineBlock_ok ver hv g
    obtain ⟨rs, hrs⟩ := ih
    exact ⟨r ++ rs, by simp [goroutineBlocks, hr, hrs]⟩

theorem bucketBlocks_ok (ver : Bytes) (hv : verOK ver) (bs : List Bucket) (i : Nat) :
    ∃ r, bucketBlocks ver i bs = .ok r := by
  induction bs generalizing i with
  | nil => exact ⟨_, rfl⟩
  | cons b bs ih =>
    obtain ⟨r, hr⟩ := bucketBlock_ok ver hv i b
    obtain ⟨rs, hrs⟩ := ih (i + 1)
    exact ⟨r ++ rs, by simp [bucketBlocks, hr, hrs]⟩

theorem docPieces_ok (d : DocData) (hv : verOK d.ver) : ∃ ps, docPieces d = .ok ps := by
  have : ∃ c, contentOf d.ver d.body = .ok c := by
    cases hb : d.body with
    | snapshot gs => exact goroutineBlocks_ok d.ver hv gs
    | aggregated bs => exact bucketBlocks_ok d.ver hv bs 0
  obtain ⟨c, hc⟩ := this
  simp only [docPieces, hc]; exact ⟨_, rfl⟩

end PP.Html
