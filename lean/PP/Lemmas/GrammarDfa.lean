import PP.Spec.Grammar
/-
C07, part 1: the reference automaton `Spec.step` recognises exactly the documented grammar.
-/
namespace PP
namespace Spec
open Kind GState

theorem run_append (q : GState) (a b : List Kind) :
    run q (a ++ b) = (run q a).bind (fun q' => run q' b) := by
  induction a generalizing q with
  | nil => rfl
  | cons k a ih =>
    simp only [List.cons_append, run]
    cases step q k with
    | none => rfl
    | some q' => exact ih q'

theorem run_append_of {q q' : GState} {a : List Kind} (h : run q a = some q') (b : List Kind) :
    run q (a ++ b) = run q' b := by
  rw [run_append, h]; rfl

/-! ### soundness: every sentence of the grammar is accepted -/

theorem run_frames {fs : List Kind} (h : Frames fs) : run hdr fs = some frames := by
  induction h with
  | first => rfl
  | elided _ ih => rw [run_append_of ih]; rfl
  | frame _ ih => rw [run_append_of ih]; rfl

/-- the states in which a goroutine is complete -/
def GEnd (q : GState) : Prop := q = unav ∨ q = frames ∨ q = crf

theorem GEnd.blank {q : GState} (h : GEnd q) : step q blank = some gap := by
  rcases h with rfl | rfl | rfl <;> rfl

theorem GEnd.accepting {q : GState} (h : GEnd q) : acceptingDump q = true := by
  rcases h with rfl | rfl | rfl <;> rfl

theorem run_G {g : List Kind} (h : G g) :
    ∃ q, GEnd q ∧ run start g = some q ∧ run gap g = some q := by
  cases h with
  | unavail hc =>
    cases hc with
    | none => exact ⟨unav, Or.inl rfl, rfl, rfl⟩
    | some => exact ⟨crf, Or.inr (Or.inr rfl), rfl, rfl⟩
  | stack hf hc =>
    have h1 : ∀ c, run start (header :: (_ ++ c)) = run frames c := fun c => by
      show run hdr (_ ++ c) = _
      exact run_append_of (run_frames hf) c
    have h2 : ∀ c, run gap (header :: (_ ++ c)) = run frames c := fun c => by
      show run hdr (_ ++ c) = _
      exact run_append_of (run_frames hf) c
    cases hc with
    | none => exact ⟨frames, Or.inr (Or.inl rfl), by rw [h1]; rfl, by rw [h2]; rfl⟩
    | some => exact ⟨crf, Or.inr (Or.inr rfl), by rw [h1]; rfl, by rw [h2]; rfl⟩

theorem run_Gs {gs : List Kind} (h : Gs gs) : ∃ q, GEnd q ∧ run start gs = some q := by
  induction h with
  | one hg =>
    obtain ⟨q, h1, h2, _⟩ := run_G hg
    exact ⟨q, h1, h2⟩
  | more _ hg ih =>
    obtain ⟨q, h1, h2⟩ := ih
    obtain ⟨q', g1, _, g3⟩ := run_G hg
    refine ⟨q', g1, ?_⟩
    rw [run_append_of h2]
    simp only [run, h1.blank]
    exact g3

theorem dump_accepted {ks : List Kind} (h : Dump ks) :
    ∃ q, run start ks = some q ∧ acceptingDump q = true := by
  cases h with
  | plain hg =>
    obtain ⟨q, h1, h2⟩ := run_Gs hg
    exact ⟨q, h2, h1.accepting⟩
  | trailing hg =>
    obtain ⟨q, h1, h2⟩ := run_Gs hg
    refine ⟨gap, ?_, rfl⟩
    rw [run_append_of h2]
    simp only [run, h1.blank]
    rfl

theorem run_stack {s : List Kind} (h : RaceStack s) :
    run opH s = some opS ∧ run opS s = some opS ∧ run goH s = some goS ∧ run goS s = some goS := by
  induction h with
  | one => exact ⟨rfl, rfl, rfl, rfl⟩
  | more _ ih =>
    obtain ⟨i1, i2, i3, i4⟩ := ih
    exact ⟨by rw [run_append_of i1]; rfl, by rw [run_append_of i2]; rfl,
      by rw [run_append_of i3]; rfl, by rw [run_append_of i4]; rfl⟩

theorem run_ops {o : List Kind} (h : Ops o) : run start o = some opS := by
  induction h with
  | first hs => exact (run_stack hs).1
  | prev _ hs ih => rw [run_append_of ih]; exact (run_stack hs).1

theorem run_gors {g : List Kind} (h : Gors g) : run start g = some goS := by
  induction h with
  | first ho hs => rw [run_append_of (run_ops ho)]; exact (run_stack hs).2.2.1
  | more _ hs ih => rw [run_append_of ih]; exact (run_stack hs).2.2.1

theorem race_accepted {ks : List Kind} (h : Race ks) : run start ks = some fin := by
  cases h with
  | mk hg => rw [run_append_of (run_gors hg)]; rfl

/-! ### completeness: what the automaton has read when it is in state `q` -/

/-- at a goroutine boundary: nothing read, or complete goroutines and the separating blank line -/
def Bnd (p : List Kind) : Prop := p = [] ∨ ∃ gs, Gs gs ∧ p = gs ++ [blank]

/-- a goroutine read up to state `q` -/
def Part : GState → List Kind → Prop
  | hdr, x => x = [header]
  | unav, x => x = [header, unavail]
  | fn, x => x = [header, func] ∨ ∃ fs, Frames fs ∧ x = header :: fs ++ [func]
  | frames, x => ∃ fs, Frames fs ∧ x = header :: fs
  | cr, x => x = [header, unavail, created] ∨ ∃ fs, Frames fs ∧ x = header :: fs ++ [created]
  | crf, x => x = [header, unavail, created, file] ∨ ∃ fs, Frames fs ∧ x = header :: fs ++ [created, file]
  | _, _ => False

/-- a stack read up to (and including) a function line -/
def SF (x : List Kind) : Prop := x = [func] ∨ ∃ s, RaceStack s ∧ x = s ++ [func]

/-- an operation header and what precedes it -/
def OpHd (h : List Kind) : Prop := h = [sep, warn, raceOp] ∨ ∃ o, Ops o ∧ h = o ++ [blank, racePrev]

/-- a race goroutine header and what precedes it -/
def GoHd (h : List Kind) : Prop := ∃ b, (Ops b ∨ Gors b) ∧ h = b ++ [blank, raceGor]

/-- the lines read from `start` when the automaton is in state `q` -/
def Pre : GState → List Kind → Prop
  | start, ks => ks = []
  | gap, ks => ∃ gs, Gs gs ∧ ks = gs ++ [blank]
  | r1, ks => ks = [sep]
  | r2, ks => ks = [sep, warn]
  | opH, ks => OpHd ks
  | opF, ks => ∃ h x, OpHd h ∧ SF x ∧ ks = h ++ x
  | opS, ks => ∃ h s, OpHd h ∧ RaceStack s ∧ ks = h ++ s
  | gapO, ks => ∃ o, Ops o ∧ ks = o ++ [blank]
  | goH, ks => GoHd ks
  | goF, ks => ∃ h x, GoHd h ∧ SF x ∧ ks = h ++ x
  | goS, ks => ∃ h s, GoHd h ∧ RaceStack s ∧ ks = h ++ s
  | gapG, ks => ∃ g, Gors g ∧ ks = g ++ [blank]
  | fin, ks => Race ks
  | q, ks => ∃ p x, Bnd p ∧ Part q x ∧ ks = p ++ x

theorem bnd_G {p x : List Kind} (hb : Bnd p) (hg : G x) : Gs (p ++ x) := by
  rcases hb with rfl | ⟨gs, hgs, rfl⟩
  · exact Gs.one hg
  · rw [List.append_assoc]; exact Gs.more hgs hg

theorem part_G {q : GState} {x : List Kind} (hq : GEnd q) (hx : Part q x) : G x := by
  rcases hq with rfl | rfl | rfl
  · simp only [Part] at hx; subst hx; exact G.unavail Creator.none
  · obtain ⟨fs, hfs, rfl⟩ := hx
    have := G.stack hfs Creator.none
    simpa using this
  · rcases hx with rfl | ⟨fs, hfs, rfl⟩
    · exact G.unavail Creator.some
    · have := G.stack hfs Creator.some
      simpa using this

theorem ops_of {h s : List Kind} (hh : OpHd h) (hs : RaceStack s) : Ops (h ++ s) := by
  rcases hh with rfl | ⟨o, ho, rfl⟩
  · exact Ops.first hs
  · have := Ops.prev ho hs
    simpa using this

theorem gors_of {h s : List Kind} (hh : GoHd h) (hs : RaceStack s) : Gors (h ++ s) := by
  obtain ⟨b, hb, rfl⟩ := hh
  rcases hb with hb | hb
  · have := Gors.first hb hs
    simpa using this
  · have := Gors.more hb hs
    simpa using this

theorem stack_of {x : List Kind} (hx : SF x) : RaceStack (x ++ [file]) := by
  rcases hx with rfl | ⟨s, hs, rfl⟩
  · exact RaceStack.one
  · have := RaceStack.more hs
    simpa using this

theorem pre_step {q q' : GState} {k : Kind} {ks : List Kind} (h : step q k = some q')
    (hp : Pre q ks) : Pre q' (ks ++ [k]) := by
  cases q <;> cases k <;> simp [step] at h <;> subst h
  case start.header => simp only [Pre] at hp; subst hp; exact ⟨[], [header], Or.inl rfl, rfl, rfl⟩
  case start.sep => simp only [Pre] at hp; subst hp; rfl
  case hdr.unavail =>
    obtain ⟨p, x, hb, hx, rfl⟩ := hp
    simp only [Part] at hx; subst hx
    exact ⟨p, _, hb, rfl, by simp⟩
  case hdr.func =>
    obtain ⟨p, x, hb, hx, rfl⟩ := hp
    simp only [Part] at hx; subst hx
    exact ⟨p, _, hb, Or.inl rfl, by simp⟩
  case unav.created =>
    obtain ⟨p, x, hb, hx, rfl⟩ := hp
    simp only [Part] at hx; subst hx
    exact ⟨p, _, hb, Or.inl rfl, by simp⟩
  case unav.blank =>
    obtain ⟨p, x, hb, hx, rfl⟩ := hp
    exact ⟨_, bnd_G hb (part_G (Or.inl rfl) hx), rfl⟩
  case fn.file =>
    obtain ⟨p, x, hb, hx, rfl⟩ := hp
    rcases hx with rfl | ⟨fs, hfs, rfl⟩
    · exact ⟨p, _, hb, ⟨_, Frames.first, rfl⟩, by simp⟩
    · exact ⟨p, _, hb, ⟨_, Frames.frame hfs, rfl⟩, by simp⟩
  case frames.elided =>
    obtain ⟨p, x, hb, ⟨fs, hfs, rfl⟩, rfl⟩ := hp
    exact ⟨p, _, hb, ⟨_, Frames.elided hfs, rfl⟩, by simp⟩
  case frames.func =>
    obtain ⟨p, x, hb, ⟨fs, hfs, rfl⟩, rfl⟩ := hp
    exact ⟨p, _, hb, Or.inr ⟨_, hfs, rfl⟩, by simp⟩
  case frames.created =>
    obtain ⟨p, x, hb, ⟨fs, hfs, rfl⟩, rfl⟩ := hp
    exact ⟨p, _, hb, Or.inr ⟨_, hfs, rfl⟩, by simp⟩
  case frames.blank =>
    obtain ⟨p, x, hb, hx, rfl⟩ := hp
    exact ⟨_, bnd_G hb (part_G (Or.inr (Or.inl rfl)) hx), rfl⟩
  case cr.file =>
    obtain ⟨p, x, hb, hx, rfl⟩ := hp
    rcases hx with rfl | ⟨fs, hfs, rfl⟩
    · exact ⟨p, _, hb, Or.inl rfl, by simp⟩
    · exact ⟨p, _, hb, Or.inr ⟨_, hfs, rfl⟩, by simp⟩
  case crf.blank =>
    obtain ⟨p, x, hb, hx, rfl⟩ := hp
    exact ⟨_, bnd_G hb (part_G (Or.inr (Or.inr rfl)) hx), rfl⟩
  case gap.header =>
    obtain ⟨gs, hgs, rfl⟩ := hp
    exact ⟨_, [header], Or.inr ⟨gs, hgs, rfl⟩, rfl, rfl⟩
  case r1.warn => simp only [Pre] at hp; subst hp; rfl
  case r2.raceOp => simp only [Pre] at hp; subst hp; exact Or.inl rfl
  case opH.func => exact ⟨ks, [func], hp, Or.inl rfl, rfl⟩
  case opF.file =>
    obtain ⟨h, x, hh, hx, rfl⟩ := hp
    exact ⟨h, _, hh, stack_of hx, by simp⟩
  case opS.func =>
    obtain ⟨h, s, hh, hs, rfl⟩ := hp
    exact ⟨h, _, hh, Or.inr ⟨s, hs, rfl⟩, by simp⟩
  case opS.blank =>
    obtain ⟨h, s, hh, hs, rfl⟩ := hp
    exact ⟨_, ops_of hh hs, rfl⟩
  case gapO.racePrev =>
    obtain ⟨o, ho, rfl⟩ := hp
    exact Or.inr ⟨o, ho, by simp⟩
  case gapO.raceGor =>
    obtain ⟨o, ho, rfl⟩ := hp
    exact ⟨o, Or.inl ho, by simp⟩
  case goH.func => exact ⟨ks, [func], hp, Or.inl rfl, rfl⟩
  case goF.file =>
    obtain ⟨h, x, hh, hx, rfl⟩ := hp
    exact ⟨h, _, hh, stack_of hx, by simp⟩
  case goS.func =>
    obtain ⟨h, s, hh, hs, rfl⟩ := hp
    exact ⟨h, _, hh, Or.inr ⟨s, hs, rfl⟩, by simp⟩
  case goS.blank =>
    obtain ⟨h, s, hh, hs, rfl⟩ := hp
    exact ⟨_, gors_of hh hs, rfl⟩
  case goS.sep =>
    obtain ⟨h, s, hh, hs, rfl⟩ := hp
    exact Race.mk (gors_of hh hs)
  case gapG.raceGor =>
    obtain ⟨g, hg, rfl⟩ := hp
    exact ⟨g, Or.inr hg, by simp⟩

theorem pre_run {q q' : GState} {p ks : List Kind} (hp : Pre q p) (h : run q ks = some q') :
    Pre q' (p ++ ks) := by
  induction ks generalizing q p with
  | nil => simp only [run, Option.some.injEq] at h; subst h; simpa using hp
  | cons k ks ih =>
    simp only [run] at h
    cases hs : step q k with
    | none => rw [hs] at h; simp at h
    | some q1 =>
      rw [hs] at h
      have := ih (pre_step hs hp) h
      simpa using this

theorem accepted_dump {ks : List Kind} {q : GState} (h : run start ks = some q)
    (ha : acceptingDump q = true) : Dump ks := by
  have hp : Pre q ([] ++ ks) := pre_run (q := start) rfl h
  rw [List.nil_append] at hp
  cases q <;> simp [acceptingDump] at ha
  · obtain ⟨p, x, hb, hx, rfl⟩ := hp
    exact Dump.plain (bnd_G hb (part_G (Or.inl rfl) hx))
  · obtain ⟨p, x, hb, hx, rfl⟩ := hp
    exact Dump.plain (bnd_G hb (part_G (Or.inr (Or.inl rfl)) hx))
  · obtain ⟨p, x, hb, hx, rfl⟩ := hp
    exact Dump.plain (bnd_G hb (part_G (Or.inr (Or.inr rfl)) hx))
  · obtain ⟨gs, hgs, rfl⟩ := hp
    exact Dump.trailing hgs

theorem accepted_race {ks : List Kind} (h : run start ks = some fin) : Race ks := by
  have hp : Pre fin ([] ++ ks) := pre_run (q := start) rfl h
  rw [List.nil_append] at hp
  exact hp

/-! ### `munch` and `run` -/

theorem munch_le (q : GState) (ks : List Kind) : (munch q ks).1 ≤ ks.length := by
  induction ks generalizing q with
  | nil => simp [munch]
  | cons k ks ih =>
    simp only [munch]
    cases step q k with
    | none => simp
    | some q' => have := ih q'; simp only [List.length_cons]; omega

/-- the prefix `munch` measures is readable and leads to the state it reports -/
theorem munch_run (q : GState) (ks : List Kind) :
    run q (ks.take (munch q ks).1) = some (munch q ks).2 := by
  induction ks generalizing q with
  | nil => simp [munch, run]
  | cons k ks ih =>
    simp only [munch]
    cases hs : step q k with
    | none => simp [run]
    | some q' => simp [run, hs, ih q']

/-- it is the longest one: the next line, if any, cannot be read -/
theorem munch_stuck (q : GState) (ks : List Kind) (h : (munch q ks).1 < ks.length) :
    ∃ k, ks[(munch q ks).1]? = some k ∧ step (munch q ks).2 k = none := by
  induction ks generalizing q with
  | nil => simp at h
  | cons k ks ih =>
    simp only [munch] at h ⊢
    cases hs : step q k with
    | none => exact ⟨k, by simp, hs⟩
    | some q' =>
      rw [hs] at h
      simp only [List.length_cons] at h
      obtain ⟨k', h1, h2⟩ := ih q' (by omega)
      exact ⟨k', by simpa using h1, h2⟩

theorem munch_of_run {q0 q : GState} {a : List Kind} (h : run q0 a = some q) (k : Kind)
    (rest : List Kind) (hk : step q k = none) : munch q0 (a ++ k :: rest) = (a.length, q) := by
  induction a generalizing q0 with
  | nil =>
    simp only [run, Option.some.injEq] at h
    subst h
    simp [munch, hk]
  | cons x a ih =>
    simp only [run] at h
    cases hs : step q0 x with
    | none => rw [hs] at h; simp at h
    | some q1 =>
      rw [hs] at h
      simp [munch, hs, ih h]

theorem munch_of_run_all {q0 q : GState} {a : List Kind} (h : run q0 a = some q) :
    munch q0 a = (a.length, q) := by
  induction a generalizing q0 with
  | nil =>
    simp only [run, Option.some.injEq] at h
    subst h
    simp [munch]
  | cons x a ih =>
    simp only [run] at h
    cases hs : step q0 x with
    | none => rw [hs] at h; simp at h
    | some q1 =>
      rw [hs] at h
      simp [munch, hs, ih h]

end Spec
end PP
