import PP.Spec.Console
/-
Removing escape sequences: `stripAnsi` passes ESC-free text through and drops
concatenations of escape sequences, whatever follows.
-/
namespace PP.Console
open PP PP.Bytes

/-! ### NoEsc closure -/

theorem noEsc_nil : NoEsc [] := by simp [NoEsc]

theorem noEsc_append {a b : Bytes} (ha : NoEsc a) (hb : NoEsc b) : NoEsc (a ++ b) := by
  simp only [NoEsc, List.mem_append, not_or] at *
  exact ⟨ha, hb⟩

theorem noEsc_replicate (n : Nat) (c : UInt8) (hc : c ≠ ESC) : NoEsc (List.replicate n c) := by
  simp only [NoEsc, List.mem_replicate, not_and]
  intro _ h; exact hc h.symm

theorem digitChar_byte_ne_esc (d : Nat) : (Nat.digitChar d).toNat.toUInt8 ≠ ESC := by
  match d with
  | 0 | 1 | 2 | 3 | 4 | 5 | 6 | 7 | 8 | 9 | 10 | 11 | 12 | 13 | 14 | 15 => decide
  | _ + 16 => simp [Nat.digitChar, ESC]

theorem mem_toDigitsCore (b : Nat) : ∀ (fuel n : Nat) (ds : List Char) (c : Char),
    c ∈ Nat.toDigitsCore b fuel n ds → c ∈ ds ∨ ∃ d, c = Nat.digitChar d := by
  intro fuel
  induction fuel with
  | zero => intro n ds c h; simp [Nat.toDigitsCore] at h; exact Or.inl h
  | succ f ih =>
    intro n ds c h
    rw [Nat.toDigitsCore] at h
    split at h
    · rw [List.mem_cons] at h
      cases h with
      | inl h => exact Or.inr ⟨_, h⟩
      | inr h => exact Or.inl h
    · cases ih _ _ c h with
      | inl h' =>
        rw [List.mem_cons] at h'
        cases h' with
        | inl h => exact Or.inr ⟨_, h⟩
        | inr h => exact Or.inl h
      | inr h' => exact Or.inr h'

theorem noEsc_toDigits (b n : Nat) : NoEsc ((Nat.toDigits b n).map fun c => c.toNat.toUInt8) := by
  simp only [NoEsc, List.mem_map, not_exists, not_and]
  intro c hc heq
  cases mem_toDigitsCore b _ _ _ c hc with
  | inl h => cases h
  | inr h =>
    obtain ⟨d, rfl⟩ := h
    exact digitChar_byte_ne_esc d heq

theorem noEsc_natToDec (n : Nat) : NoEsc (natToDec n) := noEsc_toDigits 10 n
theorem noEsc_natToHex (n : Nat) : NoEsc (natToHex n) := noEsc_toDigits 16 n
theorem noEsc_fmtDec (n : Nat) : NoEsc (fmtDec n) := noEsc_natToDec n
theorem noEsc_fmtHex (n : Nat) : NoEsc (fmtHex n) := noEsc_natToHex n

theorem noEsc_fmtHex08 (n : Nat) : NoEsc (fmtHex08 n) := by
  unfold fmtHex08
  exact noEsc_append (noEsc_replicate _ _ (by decide)) (noEsc_natToHex n)

theorem noEsc_padRight (w : Nat) {s : Bytes} (h : NoEsc s) : NoEsc (padRight w s) := by
  unfold padRight
  exact noEsc_append h (noEsc_replicate _ _ (by decide))

theorem noEsc_fmtPadRight (w : Nat) {s : Bytes} (h : NoEsc s) : NoEsc (fmtPadRight w s) := by
  unfold fmtPadRight
  split
  · exact noEsc_append (by unfold NoEsc badWidthString ESC; decide) h
  · exact noEsc_padRight w h

/-! ### the scanner -/

theorem stripGo_out_nil : stripGo .out [] = [] := rfl

/-- ESC-free text passes through -/
theorem strip_text {a : Bytes} (h : NoEsc a) (b : Bytes) : stripGo .out (a ++ b) = a ++ stripGo .out b := by
  induction a with
  | nil => rfl
  | cons c t ih =>
    have hc : c ≠ ESC := by intro e; apply h; simp [e]
    have ht : NoEsc t := by intro e; apply h; simp [e]
    simp only [List.cons_append, stripGo, if_neg hc, ih ht]

theorem stripGo_seq_body {body : Bytes} (h : (109 : UInt8) ∉ body) (b : Bytes) :
    stripGo .seq (body ++ 109 :: b) = stripGo .out b := by
  induction body with
  | nil => simp [stripGo]
  | cons c t ih =>
    have hc : c ≠ 109 := by intro e; apply h; simp [e]
    have ht : (109 : UInt8) ∉ t := by intro e; apply h; simp [e]
    simp only [List.cons_append, stripGo, if_neg hc, ih ht]

/-- one escape sequence disappears -/
theorem strip_seq {e : Bytes} (h : IsAnsiSeq e) (b : Bytes) : stripGo .out (e ++ b) = stripGo .out b := by
  obtain ⟨body, hb, rfl⟩ := h
  simp only [List.cons_append, List.append_assoc, stripGo, if_true]
  exact stripGo_seq_body hb b

/-- a palette field disappears -/
theorem strip_codes {p : Bytes} (h : AnsiCodes p) (b : Bytes) : stripGo .out (p ++ b) = stripGo .out b := by
  induction h with
  | nil => rfl
  | cons he _ ih => rw [List.append_assoc, strip_seq he, ih]

theorem ansiCodes_nil : AnsiCodes [] := AnsiCodes.nil

end PP.Console

namespace PP.Console
open PP PP.Bytes

theorem ansiCodes_one (body : Bytes) (h : (109 : UInt8) ∉ body) : AnsiCodes (ESC :: 91 :: (body ++ [109])) := by
  have := AnsiCodes.cons (e := ESC :: 91 :: (body ++ [109])) ⟨body, h, rfl⟩ AnsiCodes.nil
  simpa using this

theorem ansiCodes_two (b1 b2 : Bytes) (h1 : (109 : UInt8) ∉ b1) (h2 : (109 : UInt8) ∉ b2) :
    AnsiCodes ((ESC :: 91 :: (b1 ++ [109])) ++ (ESC :: 91 :: (b2 ++ [109]))) :=
  AnsiCodes.cons ⟨b1, h1, rfl⟩ (ansiCodes_one b2 h2)

end PP.Console
