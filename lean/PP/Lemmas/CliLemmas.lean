import PP.Model.Cli
import PP.Lemmas.Delimit
/-
Helper lemmas for the CLI vertical: the loop of `process` (`processL`) is the resumption
protocol `scanAll` (C07) with one rendering per call.
-/
namespace PP.Cli
open PP PP.Console

/-! ### number of items of a stream -/

theorem splitLines_length_le (bs : Bytes) : (splitLines bs).1.length ≤ bs.length := by
  induction bs with
  | nil => simp [splitLines]
  | cons b bs ih =>
    simp only [splitLines]
    split
    · simp only [List.length_cons]; omega
    · cases h : (splitLines bs).1 with
      | nil => simp
      | cons l ls =>
        rw [h] at ih
        simp only [List.length_cons] at ih ⊢
        omega

theorem specLines_length_le (bs : Bytes) (fin : RErr) : (specLines bs fin).length ≤ bs.length + 1 := by
  simp only [specLines, List.length_append, List.length_map, List.length_cons, List.length_nil]
  have := splitLines_length_le bs
  omega

theorem specLines_eq (bs : Bytes) (fin : RErr) :
    specLines bs fin = (splitLines bs).1.map (fun l => (l, none)) ++ [((splitLines bs).2, some fin)] := rfl

/-! ### the rendering never panics on what ScanSnapshot returns -/

/-- the bytes `processInner` writes for the result of a call (nothing for a nil snapshot) -/
def renderBytes (cfg : CliCfg) (snap : Option (List Goroutine)) : Bytes :=
  match renderOpt cfg snap with
  | .ok b => b
  | .error _ => []

theorem renderSnapshot_cons (cfg : CliCfg) (g : Goroutine) (t : List Goroutine) :
    ∃ b, renderSnapshot cfg (g :: t) = .ok b := by
  simp only [renderSnapshot, isRace]
  cases (g.raceAddr != 0) <;> exact ⟨_, rfl⟩

theorem renderOpt_ok (cfg : CliCfg) (snap : Option (List Goroutine))
    (h : ∀ gs, snap = some gs → gs ≠ []) : renderOpt cfg snap = .ok (renderBytes cfg snap) := by
  cases snap with
  | none => rfl
  | some gs =>
    cases gs with
    | nil => exact absurd rfl (h [] rfl)
    | cons g t =>
      obtain ⟨b, hb⟩ := renderSnapshot_cons cfg g t
      simp only [renderBytes, renderOpt, hb]

theorem resultOf_snap_ne_nil (names : Bool) (o : OutL) :
    ∀ gs, (resultOf names o).snap = some gs → gs ≠ [] := by
  intro gs h
  simp only [resultOf] at h
  split at h
  · cases h
  · rename_i hne
    cases h
    cases hg : o.s.gs with
    | nil => simp [hg] at hne
    | cons g t => cases names <;> simp [nameArguments]

theorem renderOpt_resultOf (cfg : CliCfg) (names : Bool) (o : OutL) :
    renderOpt cfg (resultOf names o).snap = .ok (renderBytes cfg (resultOf names o).snap) :=
  renderOpt_ok cfg _ (resultOf_snap_ne_nil names o)

/-! ### one call of the loop -/

abbrev Call := List (Bytes × Option RErr) × OutL

/-- what one iteration of `process` writes: the pass-through text of the call, then the
rendering of its snapshot -/
def piece (cfg : CliCfg) (c : Call) : Bytes :=
  c.2.fwd ++ renderBytes cfg (resultOf true c.2).snap

/-- how the loop ends after these calls: the bytes of the final `out.Write(suffix)` and the
status.  A last call without error means the fuel ran out. -/
def endOf (calls : List Call) : Bytes × Status :=
  match calls.getLast? with
  | none => ([], .outOfFuel)
  | some c =>
    match c.2.err with
    | none => ([], .outOfFuel)
    | some e => ((resultOf true c.2).suffix.getD [], statusOf e)

theorem endOf_nil : endOf [] = ([], .outOfFuel) := rfl

theorem endOf_single_err (c : Call) (e : LErr) (h : c.2.err = some e) :
    endOf [c] = ((resultOf true c.2).suffix.getD [], statusOf e) := by
  simp [endOf, h]

theorem endOf_cons_none (c : Call) (cs : List Call) (h : c.2.err = none) :
    endOf (c :: cs) = endOf cs := by
  cases cs with
  | nil => simp [endOf, h]
  | cons c' cs => simp [endOf, List.getLast?_cons_cons]

theorem endOf_append_single (cs : List Call) (c : Call) : endOf (cs ++ [c]) = endOf [c] := by
  simp [endOf]

/-- after a call without error the remainder re-splits into the items handed back -/
theorem specLines_rest (bs : Bytes) (fin : RErr)
    (he : (scanL {} [] [] (specLines bs fin)).err = none) :
    specLines (itemsBytes (scanL {} [] [] (specLines bs fin)).rest) fin =
      (scanL {} [] [] (specLines bs fin)).rest := by
  have hne : (scanL {} [] [] (specLines bs fin)).rest ≠ [] := by
    have hl := scanL_last_err {} [] [] ((splitLines bs).1.map (fun l => (l, none))) (splitLines bs).2 fin
    rw [← specLines_eq] at hl
    rcases hl with h | h | ⟨init', h⟩
    · rw [he] at h; simp at h
    · rw [scanL_init_no_panic] at h; simp at h
    · rw [h]; simp
  obtain ⟨pre, hpre⟩ := scanL_rest_suffix {} [] [] (specLines bs fin)
  exact specLines_resplit bs fin pre _ hpre hne

/-- **the loop of `process` is the resumption protocol**: for every fuel, the output is the
pieces of the successive calls of `scanAll` followed by the final suffix, and the status is
that of the last call -/
theorem processL_trace (cfg : CliCfg) (fin : RErr) (n : Nat) (bs out : Bytes) :
    processL cfg fin n bs out =
      (out ++ (scanAll n (specLines bs fin)).flatMap (piece cfg) ++ (endOf (scanAll n (specLines bs fin))).1,
       (endOf (scanAll n (specLines bs fin))).2) := by
  induction n generalizing bs out with
  | zero => simp [processL, scanAll, endOf]
  | succ n ih =>
    rw [scanAll_succ]
    have hp := scanL_init_no_panic [] [] (specLines bs fin)
    simp only [processL]
    rw [scanSnapshotL_eq]
    have hpan : (resultOf true (scanL {} [] [] (specLines bs fin))).panicked = false := by
      simp [resultOf, hp]
    have herr : (resultOf true (scanL {} [] [] (specLines bs fin))).err =
        (scanL {} [] [] (specLines bs fin)).err := rfl
    have hfwd : (resultOf true (scanL {} [] [] (specLines bs fin))).fwd =
        (scanL {} [] [] (specLines bs fin)).fwd := rfl
    rw [hpan, renderOpt_resultOf, herr, hfwd, hp]
    simp only [Bool.false_eq_true, if_false]
    cases he : (scanL {} [] [] (specLines bs fin)).err with
    | none =>
      simp only [Option.isNone_none, Bool.and_self, if_true]
      rw [resultOf_remaining, ih, specLines_rest bs fin he]
      rw [List.flatMap_cons, endOf_cons_none _ _ he]
      simp only [piece, List.append_assoc]
    | some e =>
      simp only [Option.isNone_some, Bool.false_and, Bool.false_eq_true, if_false]
      rw [endOf_single_err _ e he]
      simp only [List.flatMap_cons, List.flatMap_nil, List.append_nil, piece, List.append_assoc]

end PP.Cli

namespace PP.Cli
open PP PP.Console

/-! ### a reader error ends the stream: nothing is left unread -/

theorem combineErr_reader {e : Option RErr} {e1 : Option Err} {r : RErr}
    (h : combineErr e e1 = some (.reader r)) : e = some r := by
  cases e1 <;> cases e <;> simp [combineErr] at h ⊢
  · exact h
  · rename_i a b; cases b <;> simp at h ⊢ <;> exact h

theorem tail_nil_of (init : List (Bytes × Option RErr)) (hinit : ∀ p ∈ init, p.2 = none)
    (t : Bytes) (fin : RErr) (d : Bytes) (e : Option RErr) (its : List (Bytes × Option RErr)) (r' : RErr)
    (heq : init ++ [(t, some fin)] = (d, e) :: its) (he : e = some r') : its = [] := by
  cases init with
  | nil => simp at heq; exact heq.2
  | cons x init' =>
    simp only [List.cons_append, List.cons.injEq] at heq
    have := hinit x (by simp)
    rw [heq.1] at this
    simp only at this
    rw [this] at he; cases he

/-- on items of which only the last carries an error, a call that reports a *reader* error
either left through `break` (the suffix is everything that remains) or consumed everything -/
theorem scanL_reader_err_rest (s : S) (fwd : Bytes) (cons : List Bytes)
    (init : List (Bytes × Option RErr)) (t : Bytes) (fin r : RErr) (hinit : ∀ p ∈ init, p.2 = none)
    (h : (scanL s fwd cons (init ++ [(t, some fin)])).err = some (.reader r)) :
    (scanL s fwd cons (init ++ [(t, some fin)])).broke = true ∨
    (scanL s fwd cons (init ++ [(t, some fin)])).rest = [] := by
  generalize hi : init ++ [(t, some fin)] = items at h
  fun_induction scanL s fwd cons items generalizing init
  case case1 => simp at h
  case case2 => simp at h
  case case3 => simp at h
  case case4 => exact Or.inl rfl
  case case5 d e items _ _ s' l e1 _ _ _ _ herr =>
    right
    simp only at h ⊢
    exact tail_nil_of init hinit t fin d e items r hi (combineErr_reader h)
  case case6 d e items _ _ s' l e1 _ _ _ _ herr ih =>
    cases init with
    | nil =>
      simp at hi
      obtain ⟨⟨rfl, rfl⟩, rfl⟩ := hi
      exact absurd (combineErr_some' fin e1) herr
    | cons x init' =>
      simp only [List.cons_append, List.cons.injEq] at hi
      exact ih init' (fun p hp => hinit p (by simp [hp])) hi.2 h
  case case7 d e items _ _ s' l e1 _ _ _ herr =>
    right
    simp only at h ⊢
    exact tail_nil_of init hinit t fin d e items r hi (combineErr_reader h)
  case case8 d e items _ _ s' l e1 _ _ _ herr ih =>
    cases init with
    | nil =>
      simp at hi
      obtain ⟨⟨rfl, rfl⟩, rfl⟩ := hi
      exact absurd (combineErr_some' fin e1) herr
    | cons x init' =>
      simp only [List.cons_append, List.cons.injEq] at hi
      exact ih init' (fun p hp => hinit p (by simp [hp])) hi.2 h
  case case9 d items _ _ r' =>
    right
    exact tail_nil_of init hinit t fin d (some r') items r' hi rfl
  case case10 d items _ _ ih =>
    cases init with
    | nil => simp at hi
    | cons x init' =>
      simp only [List.cons_append, List.cons.injEq] at hi
      exact ih init' (fun p hp => hinit p (by simp [hp])) hi.2 h

/-- for a stream: a call that reports a reader error hands everything that remains back in
`suffix`; nothing is left in the source -/
theorem resultOf_reader_err (names : Bool) (bs : Bytes) (fin r : RErr)
    (h : (scanL {} [] [] (specLines bs fin)).err = some (.reader r)) :
    (resultOf names (scanL {} [] [] (specLines bs fin))).suffix.getD [] =
      itemsBytes (scanL {} [] [] (specLines bs fin)).rest ∧
    (resultOf names (scanL {} [] [] (specLines bs fin))).unread = [] := by
  have hs := scanL_reader_err_rest {} [] [] ((splitLines bs).1.map (fun l => (l, none))) (splitLines bs).2
    fin r (by intro p hp; simp only [List.mem_map] at hp; obtain ⟨l, _, rfl⟩ := hp; rfl)
    (by rw [← specLines_eq]; exact h)
  rw [← specLines_eq] at hs
  simp only [resultOf]
  rcases hs with hb | hr
  · simp [hb]
  · rw [hr]
    cases ((scanL {} [] [] (specLines bs fin)).broke || (scanL {} [] [] (specLines bs fin)).s.st == .done) <;> simp

/-- what `suffix` can be at line level: everything that remains, or nil -/
theorem resultOf_suffix_cases (names : Bool) (o : OutL) :
    ((resultOf names o).suffix = some (itemsBytes o.rest) ∧ (resultOf names o).unread = []) ∨
    ((resultOf names o).suffix = none ∧ (resultOf names o).unread = itemsBytes o.rest ∧
      o.broke = false ∧ o.s.st ≠ .done) := by
  simp only [resultOf]
  cases hb : o.broke <;> cases hd : (o.s.st == .done) <;> simp_all

end PP.Cli

namespace PP.Cli
open PP PP.Console

/-! ### the calls of a run -/

/-- the forwarded lines of a call (ghost trace of C02), in order -/
def fwdLines (c : Call) : Bytes := ((trace {} c.1).filter (fun p => !p.1)).flatMap (·.2)

/-- the withheld lines of a call (ghost trace of C02), in order -/
def withheldLines (c : Call) : List Bytes := ((trace {} c.1).filter (·.1)).map (·.2)

/-- all the lines a call processed, forwarded and withheld, in stream order -/
def processedBytes (c : Call) : Bytes := (trace {} c.1).flatMap (·.2)

theorem tiles_eq (calls : List Call) : tiles calls = calls.flatMap processedBytes := rfl

theorem flatMap_congr' {α β : Type} (l : List α) (f g : α → List β) (h : ∀ x ∈ l, f x = g x) :
    l.flatMap f = l.flatMap g := by
  induction l with
  | nil => rfl
  | cons x xs ih =>
    rw [List.flatMap_cons, List.flatMap_cons, h x (by simp), ih (fun y hy => h y (by simp [hy]))]

/-- every call of the protocol on a stream scans a stream (the remainder re-split) from the
initial state -/
theorem scanAll_mem_spec (fin : RErr) (n : Nat) (bs : Bytes) :
    ∀ c ∈ scanAll n (specLines bs fin),
      ∃ bs', c.1 = specLines bs' fin ∧ c.2 = scanL {} [] [] (specLines bs' fin) := by
  induction n generalizing bs with
  | zero => intro c hc; simp [scanAll] at hc
  | succ n ih =>
    intro c hc
    rw [scanAll_succ] at hc
    split at hc
    · rename_i hcond
      simp only [Bool.and_eq_true, Option.isNone_iff_eq_none] at hcond
      simp only [List.mem_cons] at hc
      rcases hc with rfl | hc
      · exact ⟨bs, rfl, rfl⟩
      · rw [← specLines_rest bs fin hcond.1] at hc
        exact ih _ c hc
    · simp only [List.mem_singleton] at hc
      subst hc
      exact ⟨bs, rfl, rfl⟩

theorem call_fwd (c : Call) (h : c.2 = scanL {} [] [] c.1) : c.2.fwd = fwdLines c := by
  have := (scanL_traceL {} [] [] c.1).1
  rw [h, this, fwdOf_eq]
  simp [fwdLines, trace]

theorem call_consumed (c : Call) (h : c.2 = scanL {} [] [] c.1) : c.2.consumed = withheldLines c := by
  have := (scanL_traceL {} [] [] c.1).2.1
  rw [h, this, consOf_eq]
  simp [withheldLines, trace]

theorem remaining_append_single (cs : List Call) (c : Call) (items : List (Bytes × Option RErr)) :
    remaining (cs ++ [c]) items = c.2.rest := by
  simp [remaining]

/-- **the run of `process`**: with enough fuel the calls are `cs ++ [c]`, only the last one
reports an error `e`; the output is the pieces of all calls followed by the last `suffix`, the
status is that of `e`; the input is the processed lines of all calls followed by what the
last call did not process, of which `suffix` is written and `unread` is lost; a reader error
(in particular EOF) loses nothing -/
theorem process_run (cfg : CliCfg) (fin : RErr) (input out : Bytes) (n : Nat) (hn : input.length + 2 ≤ n) :
    ∃ cs c e, scanAll n (specLines input fin) = cs ++ [c] ∧ c.2.err = some e ∧
      (∀ x ∈ cs, x.2.err = none) ∧
      processL cfg fin n input out =
        (out ++ (cs ++ [c]).flatMap (piece cfg) ++ (resultOf true c.2).suffix.getD [], statusOf e) ∧
      (cs ++ [c]).flatMap processedBytes ++ itemsBytes c.2.rest = input ∧
      (resultOf true c.2).suffix.getD [] ++ (resultOf true c.2).unread = itemsBytes c.2.rest ∧
      (∀ r, e = .reader r → (resultOf true c.2).unread = []) := by
  have hlen : ((splitLines input).1.map (fun l => (l, (none : Option RErr))) ++
      [((splitLines input).2, some fin)]).length ≤ n := by
    have := splitLines_length_le input
    simp only [List.length_append, List.length_map, List.length_cons, List.length_nil]
    omega
  obtain ⟨cs, c, h1, h2⟩ := scanAll_terminates n _ _ fin hlen
  rw [← specLines_eq] at h1
  have hnp : c.2.panicked = none := by
    have hc : c ∈ scanAll n (specLines input fin) := by rw [h1]; simp
    rw [(scanAll_chain n _).1 c hc]
    exact scanL_init_no_panic [] [] c.1
  have h2' : c.2.err.isSome = true := by
    rcases h2 with h2 | h2
    · exact h2
    · rw [hnp] at h2; simp at h2
  obtain ⟨e, he⟩ := Option.isSome_iff_exists.mp h2'
  refine ⟨cs, c, e, h1, he, ?_, ?_, ?_, resultOf_remaining true c.2, ?_⟩
  · intro x hx
    obtain ⟨a, b, rfl⟩ := List.append_of_mem hx
    cases b with
    | nil =>
      have := ((scanAll_chain n (specLines input fin)).2.2 a x c [] (by rw [h1]; simp)).2.1
      exact this
    | cons y b' =>
      have := ((scanAll_chain n (specLines input fin)).2.2 a x y (b' ++ [c]) (by rw [h1]; simp)).2.1
      exact this
  · rw [processL_trace, h1, endOf_append_single, endOf_single_err c e he]
  · have := scanAll_tiles n (specLines input fin)
    rw [h1, remaining_append_single, itemsBytes_specLines, tiles_eq] at this
    exact this
  · intro r hr
    subst hr
    have hc : c ∈ scanAll n (specLines input fin) := by rw [h1]; simp
    obtain ⟨bs', hb1, hb2⟩ := scanAll_mem_spec fin n input c hc
    rw [hb2]
    rw [hb2] at he
    exact (resultOf_reader_err true bs' fin r he).2

end PP.Cli

namespace PP.Cli

/-! ### the option gate -/

theorem containsBackslash_iff (s : Bytes) : containsBackslash s = true ↔ backslash ∈ s := by
  simp [containsBackslash]

theorem gopathsValid_false_iff (ps : List Bytes) :
    gopathsValid ps = false ↔ ∃ p ∈ ps, backslash ∈ p := by
  induction ps with
  | nil => simp [gopathsValid]
  | cons p ps ih =>
    simp only [gopathsValid]
    by_cases hp : containsBackslash p = true
    · simp only [hp, if_true, true_iff]
      exact ⟨p, by simp, (containsBackslash_iff p).1 hp⟩
    · simp only [hp, Bool.false_eq_true, if_false, ih, List.mem_cons, exists_eq_or_imp]
      rw [containsBackslash_iff] at hp
      simp [hp]

theorem Opts.isValid_false_iff (o : Opts) :
    o.isValid = false ↔
      ((o.analyzeSources = true ∧ o.guessPaths = false) ∨ backslash ∈ o.localGOROOT ∨
        ∃ p ∈ o.localGOPATHs, backslash ∈ p) := by
  simp only [Opts.isValid]
  cases hg : o.guessPaths <;> cases ha : o.analyzeSources <;>
    by_cases hr : containsBackslash o.localGOROOT = true <;>
    simp [hr, gopathsValid_false_iff, (containsBackslash_iff o.localGOROOT).symm]

end PP.Cli

namespace PP.Cli

/-! ### an error never leaves a remainder outside `suffix` (line level) -/

/-- `scan` reports an error only on a line it does not consume, and never goes back to
`looking` with an error -/
theorem scan_err_shape {s s' : S} {l : Line} {p : Bool} {e : Err}
    (h : scan s l = .ok (s', p, some e)) : p = false ∧ s'.st ≠ .looking := by
  unfold scan at h
  split at h
  · simp at h
  split at h
  · simp at h; obtain ⟨rfl, rfl, _⟩ := h; simp
  split at h
  all_goals ((try simp only [funcStep, createdStep, curAppendCall] at h); (repeat' (split at h)))
  all_goals (try (simp at h; done))
  all_goals (simp at h)
  all_goals (try (obtain ⟨rfl, rfl, _⟩ := h; simp [*]; done))
  all_goals (rename_i hq; subst h; (try simp only [*] at hq); (repeat' (split at hq)))
  all_goals (try (simp at hq; done))
  all_goals (simp at hq; obtain ⟨rfl, rfl, _⟩ := hq; simp [*])

theorem combineErr_none_right {e : Option RErr} (h : (combineErr e none).isSome = true) :
    ∃ r, e = some r := by
  cases e with
  | none => simp [combineErr] at h
  | some r => exact ⟨r, rfl⟩

/-- on items of which only the last carries an error, a call that reports an error either left
through `break` (the suffix is everything that remains) or consumed everything: at line level
nothing is ever left outside `suffix` when the loop of `process` stops -/
theorem scanL_err_rest (s : S) (fwd : Bytes) (cons : List Bytes)
    (init : List (Bytes × Option RErr)) (t : Bytes) (fin : RErr) (hinit : ∀ p ∈ init, p.2 = none)
    (h : (scanL s fwd cons (init ++ [(t, some fin)])).err.isSome = true) :
    (scanL s fwd cons (init ++ [(t, some fin)])).broke = true ∨
    (scanL s fwd cons (init ++ [(t, some fin)])).rest = [] := by
  generalize hi : init ++ [(t, some fin)] = items at h
  fun_induction scanL s fwd cons items generalizing init
  case case1 => simp at h
  case case2 => simp at h
  case case3 => simp at h
  case case4 => exact Or.inl rfl
  case case5 d e items _ _ s' l e1 hsc _ hl hlk herr =>
    right
    simp only at h ⊢
    cases e1 with
    | some p =>
      exfalso
      have hl' : l = false := by simpa using hl
      subst hl'
      have := (scan_err_shape hsc).2
      simp [this] at hlk
    | none =>
      obtain ⟨r, hr⟩ := combineErr_none_right h
      exact tail_nil_of init hinit t fin d e items r hi hr
  case case6 d e items _ _ s' l e1 _ _ _ _ herr ih =>
    cases init with
    | nil =>
      simp at hi
      obtain ⟨⟨rfl, rfl⟩, rfl⟩ := hi
      exact absurd (combineErr_some' fin e1) herr
    | cons x init' =>
      simp only [List.cons_append, List.cons.injEq] at hi
      exact ih init' (fun p hp => hinit p (by simp [hp])) hi.2 h
  case case7 d e items _ _ s' l e1 hsc _ hl herr =>
    right
    simp only at h ⊢
    cases e1 with
    | some p =>
      exfalso
      have := (scan_err_shape hsc).1
      subst this
      simp at hl
    | none =>
      obtain ⟨r, hr⟩ := combineErr_none_right h
      exact tail_nil_of init hinit t fin d e items r hi hr
  case case8 d e items _ _ s' l e1 _ _ _ herr ih =>
    cases init with
    | nil =>
      simp at hi
      obtain ⟨⟨rfl, rfl⟩, rfl⟩ := hi
      exact absurd (combineErr_some' fin e1) herr
    | cons x init' =>
      simp only [List.cons_append, List.cons.injEq] at hi
      exact ih init' (fun p hp => hinit p (by simp [hp])) hi.2 h
  case case9 d items _ _ r' =>
    right
    exact tail_nil_of init hinit t fin d (some r') items r' hi rfl
  case case10 d items _ _ ih =>
    cases init with
    | nil => simp at hi
    | cons x init' =>
      simp only [List.cons_append, List.cons.injEq] at hi
      exact ih init' (fun p hp => hinit p (by simp [hp])) hi.2 h

/-- for a stream: a call that reports an error (of any kind) hands everything that remains back
in `suffix` -/
theorem resultOf_err (names : Bool) (bs : Bytes) (fin : RErr)
    (h : (scanL {} [] [] (specLines bs fin)).err.isSome = true) :
    (resultOf names (scanL {} [] [] (specLines bs fin))).suffix.getD [] =
      itemsBytes (scanL {} [] [] (specLines bs fin)).rest ∧
    (resultOf names (scanL {} [] [] (specLines bs fin))).unread = [] := by
  have hs := scanL_err_rest {} [] [] ((splitLines bs).1.map (fun l => (l, none))) (splitLines bs).2
    fin (by intro p hp; simp only [List.mem_map] at hp; obtain ⟨l, _, rfl⟩ := hp; rfl)
    (by rw [← specLines_eq]; exact h)
  rw [← specLines_eq] at hs
  simp only [resultOf]
  rcases hs with hb | hr
  · simp [hb]
  · rw [hr]
    cases ((scanL {} [] [] (specLines bs fin)).broke || (scanL {} [] [] (specLines bs fin)).s.st == .done) <;> simp

/-- the last call of a run leaves nothing outside `suffix` -/
theorem process_run_unread (cfg : CliCfg) (fin : RErr) (input out : Bytes) (n : Nat) (hn : input.length + 2 ≤ n) :
    ∃ cs c e, scanAll n (specLines input fin) = cs ++ [c] ∧ c.2.err = some e ∧
      (resultOf true c.2).unread = [] ∧ (resultOf true c.2).suffix.getD [] = itemsBytes c.2.rest := by
  obtain ⟨cs, c, e, h1, he, _⟩ := process_run cfg fin input out n hn
  have hc : c ∈ scanAll n (specLines input fin) := by rw [h1]; simp
  obtain ⟨bs', _, hb2⟩ := scanAll_mem_spec fin n input c hc
  refine ⟨cs, c, e, h1, he, ?_, ?_⟩
  · rw [hb2]; rw [hb2] at he
    exact (resultOf_err true bs' fin (by rw [he]; rfl)).2
  · rw [hb2]; rw [hb2] at he
    exact (resultOf_err true bs' fin (by rw [he]; rfl)).1

end PP.Cli

namespace PP.Cli

/-! ### more fuel changes nothing -/

theorem scanAll_stable (n k : Nat) (items : List (Bytes × Option RErr)) (cs : List Call) (c : Call)
    (h : scanAll n items = cs ++ [c]) (he : c.2.err.isSome = true) :
    scanAll (n + k) items = cs ++ [c] := by
  induction n generalizing items cs with
  | zero => simp [scanAll] at h
  | succ n ih =>
    rw [show n + 1 + k = (n + k) + 1 by omega, scanAll_succ]
    rw [scanAll_succ] at h
    split
    · rename_i hcond
      rw [if_pos hcond] at h
      cases cs with
      | nil =>
        simp only [List.nil_append, List.cons.injEq] at h
        rw [← h.1] at he
        simp only [Bool.and_eq_true, Option.isNone_iff_eq_none] at hcond
        rw [hcond.1] at he
        simp at he
      | cons y cs' =>
        simp only [List.cons_append, List.cons.injEq] at h
        rw [ih _ cs' h.2, ← h.1]
        rfl
    · rename_i hcond
      rw [if_neg hcond] at h
      exact h

theorem processL_fuel_irrelevant (cfg : CliCfg) (fin : RErr) (input out : Bytes) (n : Nat)
    (hn : input.length + 2 ≤ n) :
    processL cfg fin n input out = processL cfg fin (input.length + 2) input out := by
  obtain ⟨cs, c, e, h1, he, _⟩ := process_run cfg fin input out (input.length + 2) (Nat.le_refl _)
  have hst := scanAll_stable (input.length + 2) (n - (input.length + 2)) _ cs c h1 (by rw [he]; rfl)
  rw [show input.length + 2 + (n - (input.length + 2)) = n by omega] at hst
  rw [processL_trace, processL_trace, hst, h1]

end PP.Cli
