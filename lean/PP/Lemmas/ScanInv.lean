import PP.Model.Loop
/-
The scanner invariant (C03): relation between the state enum and the
structure the Go code indexes into, plus the `first` flags.
-/
namespace PP
open Bytes

/-- only the first flag is set -/
def FirstL : List Bool → Prop
  | [] => True
  | b :: t => b = true ∧ ∀ x ∈ t, x = false

/-- `gs` is empty, or its head is `first` and no other element is -/
def FirstOK (gs : List Goroutine) : Prop := FirstL (gs.map (·.first))

/-- `gs` has a last element, which satisfies `P` -/
def LastP (P : Goroutine → Prop) (gs : List Goroutine) : Prop := ∃ init g, gs = init ++ [g] ∧ P g

/-- state ↔ structure -/
def InvAt (st : St) (gs : List Goroutine) (gi : Nat) : Prop :=
  match st with
  | .done => True
  | .looking | .gotRaceHeader1 | .gotRaceHeader2 => gs = []
  | .betweenRoutine | .gotRoutineHeader | .gotFileFunc | .gotFileCreated | .gotUnavail
  | .gotRaceOperationHeader | .gotRaceOperationFile
  | .betweenRaceOperations | .betweenRaceGoroutines => gs ≠ []
  | .gotFunc | .gotRaceOperationFunc => LastP (fun g => g.sig.stack.calls ≠ []) gs
  | .gotCreated => LastP (fun g => g.sig.createdBy.calls ≠ []) gs
  | .gotRaceGoroutineHeader | .gotRaceGoroutineFile => gi < gs.length
  | .gotRaceGoroutineFunc => ∃ h : gi < gs.length, gs[gi].sig.createdBy.calls ≠ []

def Inv (s : S) : Prop := InvAt s.st s.gs s.gi ∧ FirstOK s.gs

/-- a step that does not panic and re-establishes the invariant -/
def StepOK (r : R) : Prop := ∃ s' p e, r = .ok (s', p, e) ∧ Inv s'

theorem stepOK_ok {s' : S} {p : Bool} {e : Option Err} (h : Inv s') : StepOK (.ok (s', p, e)) :=
  ⟨s', p, e, rfl, h⟩

/-! ### FirstL -/

theorem firstL_snoc (bs : List Bool) (h : FirstL bs) : FirstL (bs ++ [bs.isEmpty]) := by
  cases bs with
  | nil => simp [FirstL]
  | cons b t =>
    simp only [FirstL] at h
    simp only [List.cons_append, FirstL, List.isEmpty_cons, List.mem_append, List.mem_singleton]
    refine ⟨h.1, ?_⟩
    intro x hx
    rcases hx with hx | hx
    · exact h.2 x hx
    · exact hx

theorem firstOK_nil : FirstOK [] := by simp [FirstOK, FirstL]

theorem firstOK_snoc (gs : List Goroutine) (g : Goroutine) (h : FirstOK gs) (hg : g.first = gs.isEmpty) :
    FirstOK (gs ++ [g]) := by
  have := firstL_snoc _ h
  simpa [FirstOK, hg] using this

theorem firstOK_singleton (g : Goroutine) (hg : g.first = true) : FirstOK [g] := by
  simp [FirstOK, FirstL, hg]

theorem firstOK_of_map_eq {gs gs' : List Goroutine} (h : FirstOK gs)
    (he : gs'.map (·.first) = gs.map (·.first)) : FirstOK gs' := by
  simpa [FirstOK, he] using h

theorem firstOK_get (gs : List Goroutine) (h : FirstOK gs) (i : Nat) (hi : i < gs.length) :
    gs[i].first = (i == 0) := by
  cases gs with
  | nil => simp at hi
  | cons g t =>
    simp only [FirstOK, List.map_cons, FirstL] at h
    cases i with
    | zero => simpa using h.1
    | succ j =>
      have hj : j < t.length := by simpa using hi
      have : t[j].first = false := h.2 _ (by simp only [List.mem_map]; exact ⟨t[j], List.getElem_mem _, rfl⟩)
      simpa using this

/-! ### modifyLast / modifyAt -/

theorem modifyLast_snoc (init : List Goroutine) (g : Goroutine) (f : Goroutine → Goroutine) :
    modifyLast (init ++ [g]) f = some (init ++ [f g]) := by
  simp [modifyLast]

theorem exists_snoc_of_ne_nil {gs : List Goroutine} (h : gs ≠ []) : ∃ init g, gs = init ++ [g] := by
  refine ⟨gs.dropLast, gs.getLast h, ?_⟩
  exact (List.dropLast_concat_getLast h).symm

theorem map_first_snoc (init : List Goroutine) (g g' : Goroutine) (h : g'.first = g.first) :
    (init ++ [g']).map (·.first) = (init ++ [g]).map (·.first) := by
  simp [h]

theorem map_first_set (gs : List Goroutine) (i : Nat) (hi : i < gs.length) (g' : Goroutine)
    (h : g'.first = gs[i].first) :
    (gs.set i g').map (·.first) = gs.map (·.first) := by
  rw [List.map_set, h]
  have : gs[i].first = (gs.map (·.first))[i]'(by simpa using hi) := by simp
  rw [this, List.set_getElem_self]

theorem setStack_first (g : Goroutine) (f) : (setStack g f).first = g.first := rfl
theorem setCreated_first (g : Goroutine) (f) : (setCreated g f).first = g.first := rfl

theorem modifyAt_lt (gs : List Goroutine) (i : Nat) (f : Goroutine → Goroutine) (hi : i < gs.length) :
    modifyAt gs i f = some (gs.set i (f gs[i])) := by
  simp [modifyAt, hi]

theorem findIdx?_lt {gs : List Goroutine} {p : Goroutine → Bool} {i : Nat}
    (h : gs.findIdx? p = some i) : i < gs.length := by
  rw [List.findIdx?_eq_some_iff_getElem] at h
  exact h.1

theorem needLastCall_snoc (st : St) (init : List Goroutine) (g : Goroutine) (gi : Nat) (pfx : Bytes)
    (hg : g.sig.stack.calls ≠ []) : needLastCall ⟨st, init ++ [g], gi, pfx⟩ = .ok () := by
  simp [needLastCall, hg]

theorem needCreated0_snoc (st : St) (init : List Goroutine) (g : Goroutine) (gi : Nat) (pfx : Bytes)
    (hg : g.sig.createdBy.calls ≠ []) : needCreated0 ⟨st, init ++ [g], gi, pfx⟩ = .ok () := by
  simp [needCreated0, hg]

theorem initLast_getD_ne_nil (cs : List Call) (pl : Bytes × Nat) (h : cs ≠ []) :
    (initLast cs pl).getD cs ≠ [] := by
  unfold initLast
  split
  · simpa using h
  · simp

/-! ### the shared steps -/

theorem curAppendCall_snoc (st : St) (init : List Goroutine) (g : Goroutine) (gi : Nat) (pfx : Bytes) (c : Call) :
    curAppendCall ⟨st, init ++ [g], gi, pfx⟩ c =
      .ok ⟨st, init ++ [setStack g (fun s => { s with calls := s.calls ++ [c] })], gi, pfx⟩ := by
  simp [curAppendCall, modifyLast_snoc]

theorem funcStep_stepOK (st : St) (gs : List Goroutine) (gi : Nat) (pfx : Bytes)
    (r : Option (Call × Option Err)) (next : St) (orElse : R)
    (hgs : gs ≠ []) (hF : FirstOK gs)
    (hnext : ∀ gs', LastP (fun g => g.sig.stack.calls ≠ []) gs' → InvAt next gs' gi)
    (hor : StepOK orElse) :
    StepOK (funcStep ⟨st, gs, gi, pfx⟩ r next orElse) := by
  obtain ⟨init, g, rfl⟩ := exists_snoc_of_ne_nil hgs
  unfold funcStep
  split
  · rw [curAppendCall_snoc]
    refine stepOK_ok ⟨hnext _ ⟨init, _, rfl, ?_⟩, firstOK_of_map_eq hF (map_first_snoc _ _ _ rfl)⟩
    simp [setStack]
  · exact hor

theorem createdStep_stepOK (st : St) (gs : List Goroutine) (gi : Nat) (pfx : Bytes)
    (r : Except Err Func) (doInit : Bool)
    (hgs : gs ≠ []) (hF : FirstOK gs)
    (hst : ∀ gs', gs' ≠ [] → InvAt st gs' gi) :
    StepOK (createdStep ⟨st, gs, gi, pfx⟩ r doInit) := by
  obtain ⟨init, g, rfl⟩ := exists_snoc_of_ne_nil hgs
  unfold createdStep
  split
  · simp only [modifyLast_snoc]
    refine stepOK_ok ⟨?_, firstOK_of_map_eq hF (map_first_snoc _ _ _ rfl)⟩
    simp only [InvAt]
    exact ⟨init, _, rfl, by simp [setCreated]⟩
  · simp only [modifyLast_snoc]
    exact stepOK_ok ⟨hst _ (by simp), firstOK_of_map_eq hF (map_first_snoc _ _ _ rfl)⟩

/-! ### one lemma per state -/

/-- peel the two leading `if`s of `scan` -/
macro "scan_start " h:ident : tactic =>
  `(tactic| (unfold scan; split; (exact stepOK_ok $h); split; (exact stepOK_ok ⟨trivial, ($h).2⟩); dsimp only))

theorem scan_safe_done (gs gi pfx) (l : Line) (h : Inv ⟨.done, gs, gi, pfx⟩) :
    StepOK (scan ⟨.done, gs, gi, pfx⟩ l) := by
  scan_start h
  exact stepOK_ok h

theorem scan_safe_looking (gs gi pfx) (l : Line) (h : Inv ⟨.looking, gs, gi, pfx⟩) :
    StepOK (scan ⟨.looking, gs, gi, pfx⟩ l) := by
  have hI : gs = [] := h.1
  subst hI
  scan_start h
  split
  · refine stepOK_ok ⟨?_, firstOK_snoc _ _ h.2 rfl⟩
    simp [InvAt]
  · split
    · exact stepOK_ok ⟨rfl, h.2⟩
    · split
      · exact stepOK_ok ⟨trivial, h.2⟩
      · exact stepOK_ok h

theorem scan_safe_betweenRoutine (gs gi pfx) (l : Line) (h : Inv ⟨.betweenRoutine, gs, gi, pfx⟩) :
    StepOK (scan ⟨.betweenRoutine, gs, gi, pfx⟩ l) := by
  scan_start h
  split
  · refine stepOK_ok ⟨?_, firstOK_snoc _ _ h.2 rfl⟩
    simp [InvAt]
  · split
    · rename_i hc; simp at hc
    · split
      · exact stepOK_ok ⟨trivial, h.2⟩
      · exact stepOK_ok h

theorem scan_safe_gotRoutineHeader (gs gi pfx) (l : Line) (h : Inv ⟨.gotRoutineHeader, gs, gi, pfx⟩) :
    StepOK (scan ⟨.gotRoutineHeader, gs, gi, pfx⟩ l) := by
  have hI : gs ≠ [] := h.1
  have hF := h.2
  scan_start h
  split
  · obtain ⟨init, g, rfl⟩ := exists_snoc_of_ne_nil hI
    simp only [modifyLast_snoc]
    exact stepOK_ok ⟨by simp [InvAt], firstOK_of_map_eq hF (map_first_snoc _ _ _ rfl)⟩
  · split
    · rename_i hr; simp at hr; exact absurd hr hI
    · exact funcStep_stepOK _ _ _ _ _ _ _ hI hF (fun _ h => h) (stepOK_ok h)

theorem scan_safe_gotFunc (gs gi pfx) (l : Line) (h : Inv ⟨.gotFunc, gs, gi, pfx⟩) :
    StepOK (scan ⟨.gotFunc, gs, gi, pfx⟩ l) := by
  have hF := h.2
  obtain ⟨init, g, rfl, hg⟩ := h.1
  scan_start h
  rw [needLastCall_snoc _ _ _ _ _ hg]
  dsimp only
  split
  · simp only [modifyLast_snoc]
    exact stepOK_ok ⟨by simp [InvAt], firstOK_of_map_eq hF (map_first_snoc _ _ _ rfl)⟩
  · exact stepOK_ok h
  · exact stepOK_ok h

theorem scan_safe_gotCreated (gs gi pfx) (l : Line) (h : Inv ⟨.gotCreated, gs, gi, pfx⟩) :
    StepOK (scan ⟨.gotCreated, gs, gi, pfx⟩ l) := by
  have hF := h.2
  obtain ⟨init, g, rfl, hg⟩ := h.1
  scan_start h
  rw [needCreated0_snoc _ _ _ _ _ hg]
  dsimp only
  split
  · simp only [modifyLast_snoc]
    exact stepOK_ok ⟨by simp [InvAt], firstOK_of_map_eq hF (map_first_snoc _ _ _ rfl)⟩
  · exact stepOK_ok h
  · exact stepOK_ok h

theorem scan_safe_gotFileFunc (gs gi pfx) (l : Line) (h : Inv ⟨.gotFileFunc, gs, gi, pfx⟩) :
    StepOK (scan ⟨.gotFileFunc, gs, gi, pfx⟩ l) := by
  have hI : gs ≠ [] := h.1
  have hF := h.2
  scan_start h
  split
  · exact createdStep_stepOK _ _ _ _ _ _ hI hF (fun _ h => h)
  · split
    · obtain ⟨init, g, rfl⟩ := exists_snoc_of_ne_nil hI
      simp only [modifyLast_snoc]
      exact stepOK_ok ⟨by simp [InvAt], firstOK_of_map_eq hF (map_first_snoc _ _ _ rfl)⟩
    · refine funcStep_stepOK _ _ _ _ _ _ _ hI hF (fun _ h => h) ?_
      split
      · exact stepOK_ok ⟨hI, hF⟩
      · exact stepOK_ok ⟨trivial, hF⟩

theorem scan_safe_gotFileCreated (gs gi pfx) (l : Line) (h : Inv ⟨.gotFileCreated, gs, gi, pfx⟩) :
    StepOK (scan ⟨.gotFileCreated, gs, gi, pfx⟩ l) := by
  have hI : gs ≠ [] := h.1
  have hF := h.2
  scan_start h
  split
  · exact stepOK_ok ⟨hI, hF⟩
  · exact stepOK_ok ⟨trivial, hF⟩

theorem scan_safe_gotUnavail (gs gi pfx) (l : Line) (h : Inv ⟨.gotUnavail, gs, gi, pfx⟩) :
    StepOK (scan ⟨.gotUnavail, gs, gi, pfx⟩ l) := by
  have hI : gs ≠ [] := h.1
  have hF := h.2
  scan_start h
  split
  · exact stepOK_ok ⟨hI, hF⟩
  · split
    · exact createdStep_stepOK _ _ _ _ _ _ hI hF (fun _ h => h)
    · exact stepOK_ok h

theorem scan_safe_gotRaceHeader1 (gs gi pfx) (l : Line) (h : Inv ⟨.gotRaceHeader1, gs, gi, pfx⟩) :
    StepOK (scan ⟨.gotRaceHeader1, gs, gi, pfx⟩ l) := by
  have hI : gs = [] := h.1
  have hF := h.2
  scan_start h
  split
  · exact stepOK_ok ⟨hI, hF⟩
  · exact stepOK_ok ⟨hI, hF⟩

theorem scan_safe_gotRaceHeader2 (gs gi pfx) (l : Line) (h : Inv ⟨.gotRaceHeader2, gs, gi, pfx⟩) :
    StepOK (scan ⟨.gotRaceHeader2, gs, gi, pfx⟩ l) := by
  have hI : gs = [] := h.1
  subst hI
  scan_start h
  split
  · simp only [List.isEmpty_nil, Bool.not_true, Bool.false_eq_true, if_false]
    exact stepOK_ok ⟨by simp [InvAt], firstOK_singleton _ rfl⟩
  · exact stepOK_ok h
  · exact stepOK_ok h

theorem scan_safe_gotRaceOperationHeader (gs gi pfx) (l : Line) (h : Inv ⟨.gotRaceOperationHeader, gs, gi, pfx⟩) :
    StepOK (scan ⟨.gotRaceOperationHeader, gs, gi, pfx⟩ l) := by
  have hI : gs ≠ [] := h.1
  have hF := h.2
  scan_start h
  exact funcStep_stepOK _ _ _ _ _ _ _ hI hF (fun _ h => h) (stepOK_ok h)

theorem scan_safe_gotRaceOperationFunc (gs gi pfx) (l : Line) (h : Inv ⟨.gotRaceOperationFunc, gs, gi, pfx⟩) :
    StepOK (scan ⟨.gotRaceOperationFunc, gs, gi, pfx⟩ l) := by
  have hF := h.2
  obtain ⟨init, g, rfl, hg⟩ := h.1
  scan_start h
  rw [needLastCall_snoc _ _ _ _ _ hg]
  dsimp only
  split
  · simp only [modifyLast_snoc]
    exact stepOK_ok ⟨by simp [InvAt], firstOK_of_map_eq hF (map_first_snoc _ _ _ rfl)⟩
  · exact stepOK_ok h
  · exact stepOK_ok h

theorem scan_safe_gotRaceOperationFile (gs gi pfx) (l : Line) (h : Inv ⟨.gotRaceOperationFile, gs, gi, pfx⟩) :
    StepOK (scan ⟨.gotRaceOperationFile, gs, gi, pfx⟩ l) := by
  have hI : gs ≠ [] := h.1
  have hF := h.2
  scan_start h
  split
  · exact stepOK_ok ⟨hI, hF⟩
  · exact funcStep_stepOK _ _ _ _ _ _ _ hI hF (fun _ h => h) (stepOK_ok h)

/-- the `raceGor` part shared by the two `betweenRace…` states -/
theorem raceGor_stepOK (st : St) (gs : List Goroutine) (gi : Nat) (pfx : Bytes) (l : Line)
    (h : Inv ⟨st, gs, gi, pfx⟩) :
    StepOK (match l.raceGor with
      | some (some id, stt) =>
        match gs.findIdx? (fun g => g.id == id) with
        | some i =>
          match modifyAt gs i (fun g => { g with sig := { g.sig with state := stt } }) with
          | some gs' => .ok (⟨.gotRaceGoroutineHeader, gs', i, pfx⟩, true, none)
          | none => .error .index
        | none => .ok (⟨st, gs, gi, pfx⟩, false, some .raceUnknownGoroutine)
      | some (none, _) => .ok (⟨st, gs, gi, pfx⟩, false, some .raceId)
      | none => .ok (⟨st, gs, gi, pfx⟩, false, some .raceOpOrGoroutine)) := by
  split
  · split
    · rename_i i hi
      have hlt := findIdx?_lt hi
      rw [modifyAt_lt _ _ _ hlt]
      refine stepOK_ok ⟨?_, firstOK_of_map_eq h.2 (map_first_set _ _ hlt _ rfl)⟩
      simp only [InvAt, List.length_set]
      exact hlt
    · exact stepOK_ok h
  · exact stepOK_ok h
  · exact stepOK_ok h

theorem scan_safe_betweenRaceOperations (gs gi pfx) (l : Line) (h : Inv ⟨.betweenRaceOperations, gs, gi, pfx⟩) :
    StepOK (scan ⟨.betweenRaceOperations, gs, gi, pfx⟩ l) := by
  have hI : gs ≠ [] := h.1
  have hF := h.2
  scan_start h
  simp only [beq_self_eq_true, if_true]
  split
  · rename_i r hr
    split at hr
    · cases hr
      refine stepOK_ok ⟨by simp [InvAt], firstOK_snoc _ _ hF ?_⟩
      cases gs with
      | nil => exact absurd rfl hI
      | cons _ _ => rfl
    · cases hr
      exact stepOK_ok h
    · cases hr
  · exact raceGor_stepOK _ _ _ _ _ h

theorem scan_safe_betweenRaceGoroutines (gs gi pfx) (l : Line) (h : Inv ⟨.betweenRaceGoroutines, gs, gi, pfx⟩) :
    StepOK (scan ⟨.betweenRaceGoroutines, gs, gi, pfx⟩ l) := by
  scan_start h
  have : (St.betweenRaceGoroutines == St.betweenRaceOperations) = false := by decide
  simp only [this, Bool.false_eq_true, if_false]
  exact raceGor_stepOK _ _ _ _ _ h

theorem scan_safe_gotRaceGoroutineFunc (gs gi pfx) (l : Line) (h : Inv ⟨.gotRaceGoroutineFunc, gs, gi, pfx⟩) :
    StepOK (scan ⟨.gotRaceGoroutineFunc, gs, gi, pfx⟩ l) := by
  have hF := h.2
  obtain ⟨hlt, hc⟩ := h.1
  scan_start h
  rw [if_neg (by simpa using hc)]
  split
  · refine stepOK_ok ⟨?_, firstOK_of_map_eq hF (map_first_set _ _ hlt _ rfl)⟩
    simp only [InvAt, List.length_set]
    exact hlt
  · exact stepOK_ok h
  · exact stepOK_ok h

/-- the `funcL` part shared by gotRaceGoroutineFile / gotRaceGoroutineHeader -/
theorem raceGorFunc_stepOK (st : St) (gs : List Goroutine) (gi : Nat) (pfx : Bytes) (l : Line)
    (h : Inv ⟨st, gs, gi, pfx⟩) (hlt : gi < gs.length) :
    StepOK (match l.funcL with
      | some (c, e) =>
        match modifyAt gs gi (fun g => setCreated g (fun st => { st with calls := st.calls ++ [c] })) with
        | some gs' => .ok (⟨.gotRaceGoroutineFunc, gs', gi, pfx⟩, e.isNone, e)
        | none => .error .index
      | none => .ok (⟨st, gs, gi, pfx⟩, false, some .raceFuncOrFile)) := by
  split
  · rw [modifyAt_lt _ _ _ hlt]
    refine stepOK_ok ⟨?_, firstOK_of_map_eq h.2 (map_first_set _ _ hlt _ rfl)⟩
    simp only [InvAt]
    refine ⟨by simpa using hlt, ?_⟩
    simp [setCreated]
  · exact stepOK_ok h

theorem scan_safe_gotRaceGoroutineFile (gs gi pfx) (l : Line) (h : Inv ⟨.gotRaceGoroutineFile, gs, gi, pfx⟩) :
    StepOK (scan ⟨.gotRaceGoroutineFile, gs, gi, pfx⟩ l) := by
  have hlt : gi < gs.length := h.1
  have hF := h.2
  have hne : gs ≠ [] := by intro h0; subst h0; simp at hlt
  scan_start h
  split
  · exact stepOK_ok ⟨hne, hF⟩
  · split
    · exact stepOK_ok ⟨trivial, hF⟩
    · exact raceGorFunc_stepOK _ _ _ _ _ h hlt

theorem scan_safe_gotRaceGoroutineHeader (gs gi pfx) (l : Line) (h : Inv ⟨.gotRaceGoroutineHeader, gs, gi, pfx⟩) :
    StepOK (scan ⟨.gotRaceGoroutineHeader, gs, gi, pfx⟩ l) := by
  have hlt : gi < gs.length := h.1
  scan_start h
  have : (St.gotRaceGoroutineHeader == St.gotRaceGoroutineFile) = false := by decide
  simp only [this, Bool.false_and, Bool.false_eq_true, if_false]
  exact raceGorFunc_stepOK _ _ _ _ _ h hlt

theorem scan_stepOK (s : S) (l : Line) (h : Inv s) : StepOK (scan s l) := by
  obtain ⟨st, gs, gi, pfx⟩ := s
  cases st
  · exact scan_safe_looking _ _ _ _ h
  · exact scan_safe_done _ _ _ _ h
  · exact scan_safe_betweenRoutine _ _ _ _ h
  · exact scan_safe_gotRoutineHeader _ _ _ _ h
  · exact scan_safe_gotFunc _ _ _ _ h
  · exact scan_safe_gotCreated _ _ _ _ h
  · exact scan_safe_gotFileFunc _ _ _ _ h
  · exact scan_safe_gotFileCreated _ _ _ _ h
  · exact scan_safe_gotUnavail _ _ _ _ h
  · exact scan_safe_gotRaceHeader1 _ _ _ _ h
  · exact scan_safe_gotRaceHeader2 _ _ _ _ h
  · exact scan_safe_gotRaceOperationHeader _ _ _ _ h
  · exact scan_safe_gotRaceOperationFunc _ _ _ _ h
  · exact scan_safe_gotRaceOperationFile _ _ _ _ h
  · exact scan_safe_betweenRaceOperations _ _ _ _ h
  · exact scan_safe_gotRaceGoroutineHeader _ _ _ _ h
  · exact scan_safe_gotRaceGoroutineFunc _ _ _ _ h
  · exact scan_safe_gotRaceGoroutineFile _ _ _ _ h
  · exact scan_safe_betweenRaceGoroutines _ _ _ _ h

end PP
