import PP.Model.AugmentGlue
import PP.Props.C19
/-
Lemmas for C19B: the glue around `augmentCall`.
-/
set_option linter.unusedSimpArgs false
set_option linter.unusedVariables false

namespace PP.AugGlue
open PP PP.Bytes PP.Aug

/-! ### definitions used by the statements -/

/-- forget `Args.Processed` of a call -/
def eraseCall (c : Call) : Call := { c with args := { c.args with processed := [] } }

/-- forget `Args.Processed` of the calls of `Stack.Calls`; everything else of
the goroutine (id, flags, state, `CreatedBy` with its own `Processed`, every
other field of every frame, the order and number of frames) is kept -/
def eraseProcessed (g : Goroutine) : Goroutine :=
  Goroutine.setCalls g (g.sig.stack.calls.map eraseCall)

/-- the hypothesis on the parser oracle: `extractArgumentsType` never answers
"no type, ellipsis" -/
def FuncAtOk (p : Parsed) : Prop := ∀ n l, p.funcAt n l ≠ some ([], true)

def OracleOk (o : Oracle) : Prop := ∀ src p, o.parse src = some p → FuncAtOk p

def CacheOk (c : Cache) : Prop := ∀ k pf, c.get k = some pf → FuncAtOk pf.parsed

/-- every successfully loaded entry of the cache is what the oracles answer
for its key -/
def CacheSound (o : Oracle) (c : Cache) : Prop :=
  ∀ k pf, c.get k = some pf →
    hasSuffix k b!".go" = true ∧
    ∃ src p, o.readFile k = some src ∧ o.parse src = some p ∧
      pf.lineToByteOffset = lineToByteOffsets src ∧ pf.parsed = p

/-- the sources do not describe this call: the file is not a `.go` file, or
cannot be read, or cannot be parsed, or is shorter than the line, or has no
function around the line -/
def Mismatch (o : Oracle) (call : Call) : Prop :=
  ∀ src p, hasSuffix call.localSrcPath b!".go" = true → o.readFile call.localSrcPath = some src →
    o.parse src = some p →
    (lineToByteOffsets src).length ≤ call.line ∨ p.funcAt call.fn.name call.line = none

/-! ### the cache as a map -/

theorem lookup_cons_eq (k : Bytes) (v : Option ParsedFile) (t : Cache) :
    List.lookup k ((k, v) :: t) = some v := by
  simp [List.lookup]

theorem lookup_cons_ne (k k0 : Bytes) (v : Option ParsedFile) (t : Cache) (h : ¬ k = k0) :
    List.lookup k ((k0, v) :: t) = List.lookup k t := by
  have hb : (k == k0) = false := by simpa using h
  simp [List.lookup, hb]

theorem Cache.lookup_insert (c : Cache) (k k' : Bytes) (v : Option ParsedFile) :
    (c.insert k v).lookup k' = if k' = k then some v else c.lookup k' := by
  induction c with
  | nil =>
    by_cases h : k' = k
    · subst h; simp only [Cache.insert, lookup_cons_eq, if_true]
    · simp only [Cache.insert, lookup_cons_ne _ _ _ _ h, h, if_false]
  | cons hd t ih =>
    obtain ⟨k0, v0⟩ := hd
    simp only [Cache.insert]
    by_cases hk : k = k0
    · subst hk
      by_cases h : k' = k
      · subst h; simp only [if_true, lookup_cons_eq]
      · simp only [if_true, lookup_cons_ne _ _ _ _ h, h, if_false]
    · simp only [hk, if_false]
      by_cases h0 : k' = k0
      · subst h0
        have : ¬ k' = k := fun e => hk e.symm
        simp only [lookup_cons_eq, this, if_false]
      · rw [lookup_cons_ne _ _ _ _ h0, lookup_cons_ne _ _ _ _ h0, ih]

theorem Cache.get_insert (c : Cache) (k k' : Bytes) (v : Option ParsedFile) :
    (c.insert k v).get k' = if k' = k then v else c.get k' := by
  unfold Cache.get
  rw [Cache.lookup_insert]
  by_cases h : k' = k <;> simp [h]

theorem Cache.has_insert (c : Cache) (k k' : Bytes) (v : Option ParsedFile) :
    (c.insert k v).has k' = (decide (k' = k) || c.has k') := by
  unfold Cache.has
  rw [Cache.lookup_insert]
  by_cases h : k' = k <;> simp [h]

theorem Cache.get_of_not_has (c : Cache) (k : Bytes) (h : c.has k = false) : c.get k = none := by
  unfold Cache.has at h
  unfold Cache.get
  cases hl : c.lookup k with
  | none => rfl
  | some v => simp [hl] at h

/-! ### loadFile -/

theorem loadFile_cached (o : Oracle) (c : Cache) (k : Bytes) (h : c.has k = true) :
    loadFile o c k = (c, none) := by
  unfold loadFile
  by_cases hk : k = []
  · simp [hk]
  · simp [hk, h]

theorem loadFile_empty (o : Oracle) (c : Cache) : loadFile o c [] = (c, none) := by
  simp [loadFile]

/-- the cases of `loadFile` on a key that is not cached -/
theorem loadFile_cases (o : Oracle) (c : Cache) (k : Bytes) :
    loadFile o c k = (c, none) ∨
    (c.has k = false ∧ k ≠ [] ∧
      ((∃ e, loadFile o c k = (c.insert k none, some e)) ∨
       (∃ src p, hasSuffix k b!".go" = true ∧ o.readFile k = some src ∧ o.parse src = some p ∧
          loadFile o c k = ((c.insert k none).insert k (some ⟨lineToByteOffsets src, p⟩), none)))) := by
  unfold loadFile
  by_cases hk : k = []
  · simp [hk]
  · by_cases hh : c.has k = true
    · simp [hk, hh]
    · have hh' : c.has k = false := by simpa using hh
      refine .inr ⟨hh', hk, ?_⟩
      simp only [hk, if_false, hh', Bool.false_eq_true]
      by_cases hs : hasSuffix k b!".go" = true
      · simp only [hs, Bool.not_true, Bool.false_eq_true, if_false]
        cases hr : o.readFile k with
        | none => exact .inl ⟨_, rfl⟩
        | some src =>
          dsimp only
          cases hp : o.parse src with
          | none => exact .inl ⟨_, rfl⟩
          | some p => exact .inr ⟨src, p, trivial, rfl, hp, rfl⟩
      · have hs' : hasSuffix k b!".go" = false := by simpa using hs
        simp only [hs', Bool.not_false, if_true]
        exact .inl ⟨_, rfl⟩

theorem loadFile_has (o : Oracle) (c : Cache) (k : Bytes) (hk : k ≠ []) :
    (loadFile o c k).1.has k = true := by
  by_cases hc : c.has k = true
  · rw [loadFile_cached o c k hc]; exact hc
  · have hc' : c.has k = false := by simpa using hc
    unfold loadFile
    simp only [hk, if_false, hc', Bool.false_eq_true]
    by_cases hs : hasSuffix k b!".go" = true
    · simp only [hs, Bool.not_true, Bool.false_eq_true, if_false]
      cases hr : o.readFile k with
      | none => simp [Cache.has_insert]
      | some src => dsimp only; cases hp : o.parse src <;> simp [Cache.has_insert]
    · have hs' : hasSuffix k b!".go" = false := by simpa using hs
      simp [hs', Cache.has_insert]

theorem loadFile_has_mono (o : Oracle) (c : Cache) (k k' : Bytes) (h : c.has k' = true) :
    (loadFile o c k).1.has k' = true := by
  rcases loadFile_cases o c k with h1 | ⟨_, _, ⟨e, h1⟩ | ⟨src, p, _, _, _, h1⟩⟩
  · rw [h1]; exact h
  · rw [h1]; simp [Cache.has_insert, h]
  · rw [h1]; simp [Cache.has_insert, h]

/-- a key absent after `loadFile` was absent before -/
theorem loadFile_has_false (o : Oracle) (c : Cache) (k k' : Bytes) (h : (loadFile o c k).1.has k' = false) :
    c.has k' = false := by
  cases hc : c.has k' with
  | false => rfl
  | true => rw [loadFile_has_mono o c k k' hc] at h; cases h

theorem loadFile_cacheOk (o : Oracle) (c : Cache) (k : Bytes) (ho : OracleOk o) (hc : CacheOk c) :
    CacheOk (loadFile o c k).1 := by
  rcases loadFile_cases o c k with h1 | ⟨_, _, ⟨e, h1⟩ | ⟨src, p, _, _, hp, h1⟩⟩
  · rw [h1]; exact hc
  · rw [h1]
    intro k' pf hg
    rw [Cache.get_insert] at hg
    by_cases hk : k' = k
    · simp [hk] at hg
    · simp only [hk, if_false] at hg; exact hc k' pf hg
  · rw [h1]
    intro k' pf hg
    rw [Cache.get_insert, Cache.get_insert] at hg
    by_cases hk : k' = k
    · simp only [hk, if_true, Option.some.injEq] at hg
      rw [← hg]; exact ho src p hp
    · simp only [hk, if_false] at hg; exact hc k' pf hg

theorem loadFile_cacheSound (o : Oracle) (c : Cache) (k : Bytes) (hc : CacheSound o c) :
    CacheSound o (loadFile o c k).1 := by
  rcases loadFile_cases o c k with h1 | ⟨_, _, ⟨e, h1⟩ | ⟨src, p, hs, hr, hp, h1⟩⟩
  · rw [h1]; exact hc
  · rw [h1]
    intro k' pf hg
    rw [Cache.get_insert] at hg
    by_cases hk : k' = k
    · simp [hk] at hg
    · simp only [hk, if_false] at hg; exact hc k' pf hg
  · rw [h1]
    intro k' pf hg
    rw [Cache.get_insert, Cache.get_insert] at hg
    by_cases hk : k' = k
    · simp only [hk, if_true, Option.some.injEq] at hg
      subst hk
      rw [← hg]
      exact ⟨hs, src, p, hr, hp, rfl, rfl⟩
    · simp only [hk, if_false] at hg; exact hc k' pf hg

theorem cacheOk_nil : CacheOk [] := by
  intro k pf h; simp [Cache.get, List.lookup] at h

theorem cacheSound_nil (o : Oracle) : CacheSound o [] := by
  intro k pf h; simp [Cache.get, List.lookup] at h

/-- `loadFile` only depends on what `readFile` answers for keys that are not
in the cache -/
theorem loadFile_congr (o o' : Oracle) (c : Cache) (k : Bytes)
    (hr : ∀ k, c.has k = false → o.readFile k = o'.readFile k) (hp : o.parse = o'.parse) :
    loadFile o c k = loadFile o' c k := by
  unfold loadFile
  by_cases hk : k = []
  · simp [hk]
  · by_cases hh : c.has k = true
    · simp [hk, hh]
    · have hh' : c.has k = false := by simpa using hh
      simp only [hk, if_false, hh', Bool.false_eq_true, hr k hh', hp]

/-! ### values unchanged -/

theorem applyAugment_erase (ff : FloatFmt) (call call' : Call) (t : List Bytes) (e : Bool)
    (h : applyAugment ff call t e = .ok call') : eraseCall call' = eraseCall call := by
  unfold applyAugment at h
  cases ha : augmentCall ff t e call.args with
  | error x => simp [ha] at h
  | ok ps =>
    simp only [ha, Except.ok.injEq] at h
    rw [← h]; rfl

theorem lookupAndAugment_erase (ff : FloatFmt) (c1 : Cache) (e1 : Option ErrKind) (call : Call)
    (r : Call × Option ErrKind) (h : lookupAndAugment ff c1 e1 call = .ok r) :
    eraseCall r.1 = eraseCall call := by
  unfold lookupAndAugment at h
  cases hg : c1.get call.localSrcPath with
  | none => simp only [hg, Except.ok.injEq] at h; rw [← h]
  | some p =>
    simp only [hg] at h
    cases hf : p.getFuncAST call.fn.name call.line with
    | error x => simp only [hf, Except.ok.injEq] at h; rw [← h]
    | ok ot =>
      cases ot with
      | none => simp only [hf, Except.ok.injEq] at h; rw [← h]
      | some te =>
        simp only [hf] at h
        cases ha : applyAugment ff call te.1 te.2 with
        | error x => simp [ha] at h
        | ok call' =>
          simp only [ha, Except.ok.injEq] at h
          rw [← h]; exact applyAugment_erase ff call call' _ _ ha

theorem augmentStep_erase (ff : FloatFmt) (o : Oracle) (c : Cache) (call : Call)
    (s : Cache × Call × Option ErrKind) (h : augmentStep ff o c call = .ok s) :
    eraseCall s.2.1 = eraseCall call := by
  unfold augmentStep at h
  by_cases hv : call.args.values.length = 0
  · simp only [hv, if_true, Except.ok.injEq] at h; rw [← h]
  · simp only [hv, if_false] at h
    cases hl : lookupAndAugment ff (loadFile o c call.localSrcPath).1 (loadFile o c call.localSrcPath).2 call with
    | error x => simp [hl] at h
    | ok r =>
      simp only [hl, Except.ok.injEq] at h
      rw [← h]; exact lookupAndAugment_erase ff _ _ call r hl

theorem augmentCalls_erase (ff : FloatFmt) (o : Oracle) (c : Cache) (err : Option ErrKind) (calls : List Call)
    (r : Cache × List Call × Option ErrKind) (h : augmentCalls ff o c err calls = .ok r) :
    r.2.1.map eraseCall = calls.map eraseCall := by
  induction calls generalizing c err r with
  | nil => simp only [augmentCalls, Except.ok.injEq] at h; rw [← h]
  | cons call rest ih =>
    simp only [augmentCalls] at h
    cases hs : augmentStep ff o c call with
    | error x => simp [hs] at h
    | ok s =>
      simp only [hs] at h
      cases hr : augmentCalls ff o s.1 (lastErr err s.2.2) rest with
      | error x => simp [hr] at h
      | ok r' =>
        simp only [hr, Except.ok.injEq] at h
        rw [← h]
        simp only [List.map_cons]
        rw [ih _ _ _ hr, augmentStep_erase ff o c call s hs]

theorem eraseProcessed_setCalls (g : Goroutine) (calls : List Call)
    (h : calls.map eraseCall = g.sig.stack.calls.map eraseCall) :
    eraseProcessed (Goroutine.setCalls g calls) = eraseProcessed g := by
  simp only [eraseProcessed, Goroutine.setCalls, h]

theorem augmentGoroutine_erase (ff : FloatFmt) (o : Oracle) (c : Cache) (g : Goroutine)
    (s : Cache × Goroutine × Option ErrKind) (h : augmentGoroutine ff o c g = .ok s) :
    eraseProcessed s.2.1 = eraseProcessed g := by
  unfold augmentGoroutine at h
  cases hc : augmentCalls ff o c none g.sig.stack.calls with
  | error x => simp [hc] at h
  | ok r =>
    simp only [hc, Except.ok.injEq] at h
    rw [← h]
    exact eraseProcessed_setCalls g r.2.1 (augmentCalls_erase ff o c none _ r hc)

theorem augmentGs_erase (ff : FloatFmt) (o : Oracle) (c : Cache) (err : Option ErrKind) (gs : List Goroutine)
    (r : Cache × List Goroutine × Option ErrKind) (h : augmentGs ff o c err gs = .ok r) :
    r.2.1.map eraseProcessed = gs.map eraseProcessed := by
  induction gs generalizing c err r with
  | nil => simp only [augmentGs, Except.ok.injEq] at h; rw [← h]
  | cons g rest ih =>
    simp only [augmentGs] at h
    cases hs : augmentGoroutine ff o c g with
    | error x => simp [hs] at h
    | ok s =>
      simp only [hs] at h
      cases hr : augmentGs ff o s.1 (lastErr err s.2.2) rest with
      | error x => simp [hr] at h
      | ok r' =>
        simp only [hr, Except.ok.injEq] at h
        rw [← h]
        simp only [List.map_cons]
        rw [ih _ _ _ hr, augmentGoroutine_erase ff o c g s hs]

/-! ### position-wise relation of two lists -/

/-- `Forall2 R as bs`: same length and `R` holds position by position -/
inductive Forall2 {α β : Type} (R : α → β → Prop) : List α → List β → Prop
  | nil : Forall2 R [] []
  | cons {a b as bs} : R a b → Forall2 R as bs → Forall2 R (a :: as) (b :: bs)

theorem Forall2.length_eq {α β : Type} {R : α → β → Prop} {as : List α} {bs : List β}
    (h : Forall2 R as bs) : as.length = bs.length := by
  induction h with
  | nil => rfl
  | cons _ _ ih => simp [ih]

theorem Forall2.get {α β : Type} {R : α → β → Prop} {as : List α} {bs : List β}
    (h : Forall2 R as bs) (i : Nat) (a : α) (b : β) (ha : as[i]? = some a) (hb : bs[i]? = some b) : R a b := by
  induction h generalizing i with
  | nil => simp at ha
  | cons hr _ ih =>
    cases i with
    | zero => simp at ha hb; rw [← ha, ← hb]; exact hr
    | succ i => simp only [List.getElem?_cons_succ] at ha hb; exact ih i ha hb

/-! ### invariants along the loops -/

theorem augmentStep_cache (ff : FloatFmt) (o : Oracle) (c : Cache) (call : Call)
    (s : Cache × Call × Option ErrKind) (h : augmentStep ff o c call = .ok s) :
    s.1 = c ∨ s.1 = (loadFile o c call.localSrcPath).1 := by
  unfold augmentStep at h
  by_cases hv : call.args.values.length = 0
  · simp only [hv, if_true, Except.ok.injEq] at h; rw [← h]; exact .inl rfl
  · simp only [hv, if_false] at h
    cases hl : lookupAndAugment ff (loadFile o c call.localSrcPath).1 (loadFile o c call.localSrcPath).2 call with
    | error x => simp [hl] at h
    | ok r => simp only [hl, Except.ok.injEq] at h; rw [← h]; exact .inr rfl

theorem augmentCalls_inv (ff : FloatFmt) (o : Oracle) (Inv : Cache → Prop) (R : Call → Call → Prop)
    (hstep : ∀ c call s, Inv c → augmentStep ff o c call = .ok s → Inv s.1 ∧ R call s.2.1)
    (c : Cache) (err : Option ErrKind) (calls : List Call) (r : Cache × List Call × Option ErrKind)
    (hi : Inv c) (h : augmentCalls ff o c err calls = .ok r) :
    Inv r.1 ∧ Forall2 R calls r.2.1 := by
  induction calls generalizing c err r with
  | nil => simp only [augmentCalls, Except.ok.injEq] at h; rw [← h]; exact ⟨hi, .nil⟩
  | cons call rest ih =>
    simp only [augmentCalls] at h
    cases hs : augmentStep ff o c call with
    | error x => simp [hs] at h
    | ok s =>
      simp only [hs] at h
      cases hr : augmentCalls ff o s.1 (lastErr err s.2.2) rest with
      | error x => simp [hr] at h
      | ok r' =>
        simp only [hr, Except.ok.injEq] at h
        rw [← h]
        have h1 := hstep c call s hi hs
        have h2 := ih _ _ _ h1.1 hr
        exact ⟨h2.1, .cons h1.2 h2.2⟩

theorem augmentGoroutine_inv (ff : FloatFmt) (o : Oracle) (Inv : Cache → Prop) (R : Call → Call → Prop)
    (hstep : ∀ c call s, Inv c → augmentStep ff o c call = .ok s → Inv s.1 ∧ R call s.2.1)
    (c : Cache) (g : Goroutine) (s : Cache × Goroutine × Option ErrKind)
    (hi : Inv c) (h : augmentGoroutine ff o c g = .ok s) :
    Inv s.1 ∧ Forall2 R g.sig.stack.calls s.2.1.sig.stack.calls := by
  unfold augmentGoroutine at h
  cases hc : augmentCalls ff o c none g.sig.stack.calls with
  | error x => simp [hc] at h
  | ok r =>
    simp only [hc, Except.ok.injEq] at h
    rw [← h]
    exact augmentCalls_inv ff o Inv R hstep c none _ r hi hc

theorem augmentGs_inv (ff : FloatFmt) (o : Oracle) (Inv : Cache → Prop) (R : Call → Call → Prop)
    (hstep : ∀ c call s, Inv c → augmentStep ff o c call = .ok s → Inv s.1 ∧ R call s.2.1)
    (c : Cache) (err : Option ErrKind) (gs : List Goroutine) (r : Cache × List Goroutine × Option ErrKind)
    (hi : Inv c) (h : augmentGs ff o c err gs = .ok r) :
    Inv r.1 ∧ Forall2 (fun g g' => Forall2 R g.sig.stack.calls g'.sig.stack.calls) gs r.2.1 := by
  induction gs generalizing c err r with
  | nil => simp only [augmentGs, Except.ok.injEq] at h; rw [← h]; exact ⟨hi, .nil⟩
  | cons g rest ih =>
    simp only [augmentGs] at h
    cases hs : augmentGoroutine ff o c g with
    | error x => simp [hs] at h
    | ok s =>
      simp only [hs] at h
      cases hr : augmentGs ff o s.1 (lastErr err s.2.2) rest with
      | error x => simp [hr] at h
      | ok r' =>
        simp only [hr, Except.ok.injEq] at h
        rw [← h]
        have h1 := augmentGoroutine_inv ff o Inv R hstep c g s hi hs
        have h2 := ih _ _ _ h1.1 hr
        exact ⟨h2.1, .cons h1.2 h2.2⟩

/-! ### mismatch leaves unaugmented -/

theorem lookupAndAugment_mismatch (ff : FloatFmt) (o : Oracle) (c1 : Cache) (e1 : Option ErrKind) (call : Call)
    (r : Call × Option ErrKind) (hc : CacheSound o c1) (hm : Mismatch o call)
    (h : lookupAndAugment ff c1 e1 call = .ok r) : r.1 = call := by
  unfold lookupAndAugment at h
  cases hg : c1.get call.localSrcPath with
  | none => simp only [hg, Except.ok.injEq] at h; rw [← h]
  | some p =>
    simp only [hg] at h
    obtain ⟨hs, src, pa, hr, hp, hl, hpp⟩ := hc _ _ hg
    have hmm := hm src pa hs hr hp
    unfold ParsedFile.getFuncAST at h
    rw [hl, hpp] at h
    by_cases hlen : (lineToByteOffsets src).length ≤ call.line
    · simp only [hlen, if_true, Except.ok.injEq] at h; rw [← h]
    · have hf : pa.funcAt call.fn.name call.line = none := by
        rcases hmm with h1 | h1
        · exact absurd h1 hlen
        · exact h1
      simp only [hlen, if_false, hf, Except.ok.injEq] at h; rw [← h]

theorem augmentStep_mismatch (ff : FloatFmt) (o : Oracle) (c : Cache) (call : Call)
    (s : Cache × Call × Option ErrKind) (hc : CacheSound o c) (h : augmentStep ff o c call = .ok s) :
    CacheSound o s.1 ∧ (Mismatch o call → s.2.1 = call) := by
  refine ⟨?_, ?_⟩
  · rcases augmentStep_cache ff o c call s h with h1 | h1
    · rw [h1]; exact hc
    · rw [h1]; exact loadFile_cacheSound o c _ hc
  · intro hm
    unfold augmentStep at h
    by_cases hv : call.args.values.length = 0
    · simp only [hv, if_true, Except.ok.injEq] at h; rw [← h]
    · simp only [hv, if_false] at h
      cases hl : lookupAndAugment ff (loadFile o c call.localSrcPath).1 (loadFile o c call.localSrcPath).2 call with
      | error x => simp [hl] at h
      | ok r =>
        simp only [hl, Except.ok.injEq] at h
        rw [← h]
        exact lookupAndAugment_mismatch ff o _ _ call r (loadFile_cacheSound o c _ hc) hm hl

/-! ### the cache only grows; present keys are never read again -/

theorem augmentStep_has_mono (ff : FloatFmt) (o : Oracle) (k : Bytes) (c : Cache) (call : Call)
    (s : Cache × Call × Option ErrKind) (hc : c.has k = true) (h : augmentStep ff o c call = .ok s) :
    s.1.has k = true ∧ True := by
  refine ⟨?_, trivial⟩
  rcases augmentStep_cache ff o c call s h with h1 | h1
  · rw [h1]; exact hc
  · rw [h1]; exact loadFile_has_mono o c _ k hc

theorem augmentStep_congr (ff : FloatFmt) (o o' : Oracle) (c : Cache) (call : Call)
    (hr : ∀ k, c.has k = false → o.readFile k = o'.readFile k) (hp : o.parse = o'.parse) :
    augmentStep ff o c call = augmentStep ff o' c call := by
  unfold augmentStep
  rw [loadFile_congr o o' c _ hr hp]

theorem augmentStep_absent (ff : FloatFmt) (o : Oracle) (c : Cache) (call : Call)
    (s : Cache × Call × Option ErrKind) (h : augmentStep ff o c call = .ok s)
    (k : Bytes) (hk : s.1.has k = false) : c.has k = false := by
  cases hc : c.has k with
  | false => rfl
  | true => rw [(augmentStep_has_mono ff o k c call s hc h).1] at hk; cases hk

theorem augmentCalls_congr (ff : FloatFmt) (o o' : Oracle) (c : Cache) (err : Option ErrKind) (calls : List Call)
    (hr : ∀ k, c.has k = false → o.readFile k = o'.readFile k) (hp : o.parse = o'.parse) :
    augmentCalls ff o c err calls = augmentCalls ff o' c err calls := by
  induction calls generalizing c err with
  | nil => rfl
  | cons call rest ih =>
    simp only [augmentCalls]
    rw [← augmentStep_congr ff o o' c call hr hp]
    cases hs : augmentStep ff o c call with
    | error x => rfl
    | ok s =>
      dsimp only
      rw [ih s.1 _ (fun k hk => hr k (augmentStep_absent ff o c call s hs k hk))]

theorem augmentCalls_absent (ff : FloatFmt) (o : Oracle) (c : Cache) (err : Option ErrKind) (calls : List Call)
    (r : Cache × List Call × Option ErrKind) (h : augmentCalls ff o c err calls = .ok r)
    (k : Bytes) (hk : r.1.has k = false) : c.has k = false := by
  cases hc : c.has k with
  | false => rfl
  | true =>
    have := (augmentCalls_inv ff o (fun c => c.has k = true) (fun _ _ => True)
      (fun c call s hi hs => augmentStep_has_mono ff o k c call s hi hs) c err calls r hc h).1
    rw [this] at hk; cases hk

theorem augmentGoroutine_congr (ff : FloatFmt) (o o' : Oracle) (c : Cache) (g : Goroutine)
    (hr : ∀ k, c.has k = false → o.readFile k = o'.readFile k) (hp : o.parse = o'.parse) :
    augmentGoroutine ff o c g = augmentGoroutine ff o' c g := by
  unfold augmentGoroutine
  rw [augmentCalls_congr ff o o' c none _ hr hp]

theorem augmentGoroutine_absent (ff : FloatFmt) (o : Oracle) (c : Cache) (g : Goroutine)
    (s : Cache × Goroutine × Option ErrKind) (h : augmentGoroutine ff o c g = .ok s)
    (k : Bytes) (hk : s.1.has k = false) : c.has k = false := by
  unfold augmentGoroutine at h
  cases hc : augmentCalls ff o c none g.sig.stack.calls with
  | error x => simp [hc] at h
  | ok r =>
    simp only [hc, Except.ok.injEq] at h
    rw [← h] at hk
    exact augmentCalls_absent ff o c none _ r hc k hk

theorem augmentGs_congr (ff : FloatFmt) (o o' : Oracle) (c : Cache) (err : Option ErrKind) (gs : List Goroutine)
    (hr : ∀ k, c.has k = false → o.readFile k = o'.readFile k) (hp : o.parse = o'.parse) :
    augmentGs ff o c err gs = augmentGs ff o' c err gs := by
  induction gs generalizing c err with
  | nil => rfl
  | cons g rest ih =>
    simp only [augmentGs]
    rw [← augmentGoroutine_congr ff o o' c g hr hp]
    cases hs : augmentGoroutine ff o c g with
    | error x => rfl
    | ok s =>
      dsimp only
      rw [ih s.1 _ (fun k hk => hr k (augmentGoroutine_absent ff o c g s hs k hk))]

/-! ### totality -/

theorem applyAugment_total (ff : FloatFmt) (call : Call) (t : List Bytes) (e : Bool)
    (h : t ≠ [] ∨ e = false) : ∃ call', applyAugment ff call t e = .ok call' := by
  obtain ⟨ps, hps⟩ := PP.Spec.augmentCall_total ff t e call.args h
  refine ⟨{ call with args := { call.args with processed := call.args.processed ++ ps } }, ?_⟩
  simp only [applyAugment, hps]

theorem lookupAndAugment_total (ff : FloatFmt) (c1 : Cache) (e1 : Option ErrKind) (call : Call)
    (hc : CacheOk c1) : ∃ r, lookupAndAugment ff c1 e1 call = .ok r := by
  unfold lookupAndAugment
  cases hg : c1.get call.localSrcPath with
  | none => exact ⟨_, rfl⟩
  | some p =>
    dsimp only
    have hok := hc _ _ hg
    unfold ParsedFile.getFuncAST
    by_cases hlen : p.lineToByteOffset.length ≤ call.line
    · simp only [hlen, if_true]; exact ⟨_, rfl⟩
    · simp only [hlen, if_false]
      cases hf : p.parsed.funcAt call.fn.name call.line with
      | none => exact ⟨_, rfl⟩
      | some te =>
        dsimp only
        have hne : te.1 ≠ [] ∨ te.2 = false := by
          obtain ⟨t, e⟩ := te
          cases t with
          | nil =>
            cases e with
            | false => exact .inr rfl
            | true => exact absurd hf (hok _ _)
          | cons a t => exact .inl (by simp)
        obtain ⟨call', hc'⟩ := applyAugment_total ff call te.1 te.2 hne
        rw [hc']; exact ⟨_, rfl⟩

theorem augmentStep_total (ff : FloatFmt) (o : Oracle) (ho : OracleOk o) (c : Cache) (call : Call)
    (hc : CacheOk c) : ∃ s, augmentStep ff o c call = .ok s ∧ CacheOk s.1 := by
  unfold augmentStep
  by_cases hv : call.args.values.length = 0
  · simp only [hv, if_true]; exact ⟨_, rfl, hc⟩
  · simp only [hv, if_false]
    have hc1 := loadFile_cacheOk o c call.localSrcPath ho hc
    obtain ⟨r, hr⟩ := lookupAndAugment_total ff (loadFile o c call.localSrcPath).1
      (loadFile o c call.localSrcPath).2 call hc1
    rw [hr]; exact ⟨_, rfl, hc1⟩

theorem augmentCalls_total (ff : FloatFmt) (o : Oracle) (ho : OracleOk o) (c : Cache) (err : Option ErrKind)
    (calls : List Call) (hc : CacheOk c) : ∃ r, augmentCalls ff o c err calls = .ok r ∧ CacheOk r.1 := by
  induction calls generalizing c err with
  | nil => exact ⟨_, rfl, hc⟩
  | cons call rest ih =>
    obtain ⟨s, hs, hcs⟩ := augmentStep_total ff o ho c call hc
    obtain ⟨r, hr, hcr⟩ := ih s.1 (lastErr err s.2.2) hcs
    refine ⟨(r.1, s.2.1 :: r.2.1, r.2.2), ?_, hcr⟩
    simp only [augmentCalls, hs, hr]

theorem augmentGoroutine_total (ff : FloatFmt) (o : Oracle) (ho : OracleOk o) (c : Cache) (g : Goroutine)
    (hc : CacheOk c) : ∃ s, augmentGoroutine ff o c g = .ok s ∧ CacheOk s.1 := by
  obtain ⟨r, hr, hcr⟩ := augmentCalls_total ff o ho c none g.sig.stack.calls hc
  refine ⟨(r.1, Goroutine.setCalls g r.2.1, r.2.2), ?_, hcr⟩
  simp only [augmentGoroutine, hr]

theorem augmentGs_total (ff : FloatFmt) (o : Oracle) (ho : OracleOk o) (c : Cache) (err : Option ErrKind)
    (gs : List Goroutine) (hc : CacheOk c) : ∃ r, augmentGs ff o c err gs = .ok r ∧ CacheOk r.1 := by
  induction gs generalizing c err with
  | nil => exact ⟨_, rfl, hc⟩
  | cons g rest ih =>
    obtain ⟨s, hs, hcs⟩ := augmentGoroutine_total ff o ho c g hc
    obtain ⟨r, hr, hcr⟩ := ih s.1 (lastErr err s.2.2) hcs
    refine ⟨(r.1, s.2.1 :: r.2.1, r.2.2), ?_, hcr⟩
    simp only [augmentGs, hs, hr]

/-! ### calls without arguments -/

theorem augmentStep_noargs (ff : FloatFmt) (o : Oracle) (c : Cache) (call : Call) (h : call.args.values = []) :
    augmentStep ff o c call = .ok (c, call, none) := by
  simp [augmentStep, h]

theorem augmentCalls_noargs (ff : FloatFmt) (o : Oracle) (c : Cache) (err : Option ErrKind) (calls : List Call)
    (h : ∀ call ∈ calls, call.args.values = []) : augmentCalls ff o c err calls = .ok (c, calls, err) := by
  induction calls generalizing err with
  | nil => rfl
  | cons call rest ih =>
    have h1 := augmentStep_noargs ff o c call (h call (by simp))
    have h2 := ih err (fun x hx => h x (by simp [hx]))
    simp only [augmentCalls, h1, lastErr, h2]

/-! ### example data for the non-vacuity checks of PP/Props/C19b.lean -/

/-- a source tree: `/s/a.go` holds `F(a int, b string)` on lines 3-5 and
nothing else on lines 1-2 and 6; `/s/bad.go` does not parse; `/s/c.c` exists;
`/s/gone.go` does not. -/
def exSrc : Bytes := b!"package p\n\nfunc F(a int, b string) {\n\tpanic(1)\n}\n"

def exOracle : Oracle where
  readFile k :=
    if k = b!"/s/a.go" then some exSrc
    else if k = b!"/s/bad.go" then some b!"package"
    else if k = b!"/s/c.c" then some exSrc
    else none
  parse src :=
    if src = exSrc then
      some { funcAt := fun _ l => if 4 ≤ l ∧ l ≤ 5 then some ([b!"int", b!"string"], false) else none }
    else none

def exCall (path : Bytes) (line : Nat) : Call :=
  { fn := { name := b!"F" }, localSrcPath := path, line := line,
    args := { values := [.scalar [] 0xfffffffffffffff9 false false false,
                         .agg [.scalar [] 0xc000012345 true false false, .scalar [] 5 false false false] false] } }

def exCallNoArgs (path : Bytes) (line : Nat) : Call :=
  { fn := { name := b!"F" }, localSrcPath := path, line := line }

def exG (id : Nat) (calls created : List Call) : Goroutine :=
  { id := id, sig := { stack := { calls := calls }, createdBy := { calls := created } } }

def exGs : List Goroutine :=
  [exG 1 [exCall b!"/s/a.go" 4, exCall b!"/s/gone.go" 4, exCall b!"/s/a.go" 7, exCall b!"/s/a.go" 1,
          exCallNoArgs b!"/s/a.go" 4] [exCall b!"/s/a.go" 4],
   exG 2 [exCall b!"/s/bad.go" 4, exCall b!"/s/c.c" 4, exCall b!"/s/a.go" 5, exCall b!"/s/gone.go" 4,
          exCall b!"" 4] []]

end PP.AugGlue
