import PP.Spec.Console
/-
Lemmas for C16 (blocks, filter split, elision marker, widths).
-/
namespace PP.Console
open PP PP.Bytes

/-! ### the write loop -/

theorem admitted_eq (filter mtch : Option (Bytes → Bool)) (h : Bytes) :
    admitted filter mtch h = (!filterHit filter h && !matchMiss mtch h) := by
  cases filter <;> cases mtch <;> simp [admitted, filterHit, matchMiss]

theorem writeLoop_eq_render {α : Type} (hdr body : α → Bytes) (filter mtch : Option (Bytes → Bool))
    (xs : List α) : writeLoop hdr body filter mtch xs = render (blocksOf hdr body filter mtch xs) := by
  induction xs with
  | nil => simp [writeLoop, render, blocksOf]
  | cons e rest ih =>
    have ih' : writeLoop hdr body filter mtch rest
        = List.flatMap (fun b => b.1 ++ b.2)
            (List.map (fun e => (hdr e, body e)) (List.filter (fun e => admitted filter mtch (hdr e)) rest)) := by
      simpa [render, blocksOf] using ih
    simp only [writeLoop, render, blocksOf, List.filter_cons, admitted_eq]
    cases h1 : filterHit filter (hdr e) <;> cases h2 : matchMiss mtch (hdr e) <;>
      simp [ih', admitted_eq]

theorem blocksOf_none {α : Type} (hdr body : α → Bytes) (xs : List α) :
    blocksOf hdr body none none xs = xs.map fun e => (hdr e, body e) := by
  have h : List.filter (fun _ : α => true) xs = xs := by
    induction xs with
    | nil => rfl
    | cons x t ih => simp
  simp [blocksOf, admitted, h]

theorem blocksOf_filter {α : Type} (hdr body : α → Bytes) (q : Bytes → Bool) (xs : List α) :
    blocksOf hdr body (some q) none xs = (blocksOf hdr body none none xs).filter fun b => !q b.1 := by
  simp [blocksOf, admitted, List.filter_map, Function.comp_def]

theorem blocksOf_match {α : Type} (hdr body : α → Bytes) (q : Bytes → Bool) (xs : List α) :
    blocksOf hdr body none (some q) xs = (blocksOf hdr body none none xs).filter fun b => q b.1 := by
  simp [blocksOf, admitted, List.filter_map, Function.comp_def]

theorem filter_split_perm {β : Type} (q : β → Bool) (l : List β) :
    l.Perm (l.filter (fun b => !q b) ++ l.filter q) := by
  induction l with
  | nil => simp
  | cons x t ih =>
    cases h : q x
    · simp [h]; exact ih
    · simp [h]
      exact (List.Perm.cons x ih).trans List.perm_middle.symm

theorem filter_split_length {β : Type} (q : β → Bool) (l : List β) :
    (l.filter (fun b => !q b)).length + (l.filter q).length = l.length := by
  induction l with
  | nil => simp
  | cons x t ih => cases h : q x <;> simp [h] <;> omega

/-! ### the elision marker -/

theorem colon_mem_pathLine (path : Bytes) (n : Nat) : (58 : UInt8) ∈ pathLine path n := by
  simp [pathLine]

theorem colon_mem_formatCall (pf : PathFormat) (c : Call) : (58 : UInt8) ∈ formatCall pf c := by
  unfold formatCall
  cases pf <;> simp only <;> repeat' split
  all_goals exact colon_mem_pathLine _ _

theorem colon_mem_fmtPadRight (w : Nat) (s : Bytes) (h : (58 : UInt8) ∈ s) : (58 : UInt8) ∈ fmtPadRight w s := by
  unfold fmtPadRight padRight
  split <;> simp [h]

theorem colon_mem_callLine (p : Palette) (c : Call) (srcLen pkgLen : Nat) (pf : PathFormat) :
    (58 : UInt8) ∈ callLine p c srcLen pkgLen pf := by
  have h := colon_mem_fmtPadRight srcLen _ (colon_mem_formatCall pf c)
  simp only [callLine, List.mem_append]
  simp [h]

theorem callLine_ne_elidedLine (p : Palette) (c : Call) (srcLen pkgLen : Nat) (pf : PathFormat) :
    callLine p c srcLen pkgLen pf ≠ elidedLine := by
  intro h
  have := colon_mem_callLine p c srcLen pkgLen pf
  rw [h] at this
  revert this
  decide

end PP.Console
