import PP.Model.Roots
import PP.Lemmas.Less
/-
Lemmas for C18 (path rebasing): byte-string prefixes/suffixes, association
lists, the loops of `Call.updateLocations`, `sortedByLen`.
-/
namespace PP
open Bytes

/-! ### prefixes and suffixes -/

theorem hasPrefix_append (p t : Bytes) : hasPrefix (p ++ t) p = true := by
  induction p with
  | nil => cases t <;> rfl
  | cons x xs ih => simp [hasPrefix, ih]

theorem eq_append_of_hasPrefix {s p : Bytes} (h : hasPrefix s p = true) :
    s = p ++ s.drop p.length := by
  induction p generalizing s with
  | nil => simp
  | cons x xs ih =>
    cases s with
    | nil => simp [hasPrefix] at h
    | cons y ys =>
      simp only [hasPrefix, Bool.and_eq_true, beq_iff_eq] at h
      obtain ⟨rfl, h2⟩ := h
      have := ih h2
      simp only [List.length_cons, List.drop_succ_cons, List.cons_append]
      rw [← this]

theorem hasPrefix_iff {s p : Bytes} : hasPrefix s p = true ↔ ∃ t, s = p ++ t :=
  ⟨fun h => ⟨_, eq_append_of_hasPrefix h⟩, fun ⟨t, e⟩ => e ▸ hasPrefix_append p t⟩

theorem hasSuffix_append (a b : Bytes) : hasSuffix (a ++ b) b = true := by
  simp [hasSuffix]

theorem hasSuffix_iff {s suf : Bytes} : hasSuffix s suf = true ↔ ∃ a, s = a ++ suf := by
  constructor
  · intro h
    simp only [hasSuffix, Bool.and_eq_true, decide_eq_true_eq, beq_iff_eq] at h
    refine ⟨s.take (s.length - suf.length), ?_⟩
    have := List.take_append_drop (s.length - suf.length) s
    rw [h.2] at this
    exact this.symm
  · rintro ⟨a, rfl⟩
    exact hasSuffix_append a suf

theorem pathJoin_pair (a b : Bytes) : pathJoin [a, b] = a ++ b!"/" ++ b := by
  simp [pathJoin, join]

theorem pathJoin_triple (a b c : Bytes) : pathJoin [a, b, c] = a ++ b!"/" ++ b ++ b!"/" ++ c := by
  simp [pathJoin, join]

/-! ### association lists -/

theorem AMap.mem_insert {m : AMap} {k v : Bytes} {kv : Bytes × Bytes}
    (h : kv ∈ m.insert k v) : kv = (k, v) ∨ kv ∈ m := by
  induction m with
  | nil => simp [AMap.insert] at h; exact Or.inl h
  | cons x t ih =>
    obtain ⟨k', v'⟩ := x
    simp only [AMap.insert] at h
    split at h
    · simp only [List.mem_cons] at h
      rcases h with h | h
      · exact Or.inl h
      · exact Or.inr (List.mem_cons_of_mem _ h)
    · simp only [List.mem_cons] at h
      rcases h with h | h
      · exact Or.inr (h ▸ List.mem_cons_self)
      · rcases ih h with h | h
        · exact Or.inl h
        · exact Or.inr (List.mem_cons_of_mem _ h)

theorem AMap.mem_insert_self (m : AMap) (k v : Bytes) : (k, v) ∈ m.insert k v := by
  induction m with
  | nil => simp [AMap.insert]
  | cons x t ih =>
    obtain ⟨k', v'⟩ := x
    simp only [AMap.insert]
    split
    · exact List.mem_cons_self
    · exact List.mem_cons_of_mem _ ih

/-- distinct keys -/
def AMap.Nodup (m : AMap) : Prop := m.keys.Nodup

theorem AMap.lookup_perm {m m' : AMap} (p : m.Perm m') (nd : m.Nodup) (k : Bytes) :
    m.lookup k = m'.lookup k := by
  induction p with
  | nil => rfl
  | cons x _ ih =>
    obtain ⟨k', v'⟩ := x
    simp only [AMap.Nodup, AMap.keys, List.map_cons, List.nodup_cons] at nd
    simp only [List.lookup]
    split
    · rfl
    · exact ih nd.2
  | swap x y l =>
    obtain ⟨kx, vx⟩ := x
    obtain ⟨ky, vy⟩ := y
    simp only [AMap.Nodup, AMap.keys, List.map_cons, List.nodup_cons, List.mem_cons, not_or] at nd
    simp only [List.lookup]
    by_cases h1 : k == ky <;> by_cases h2 : k == kx <;> simp [h1, h2]
    simp only [beq_iff_eq] at h1 h2
    exact absurd (h1.symm.trans h2) nd.1.1
  | @trans l1 l2 l3 p1 _ ih1 ih2 =>
    have nd2 : AMap.Nodup l2 := by
      simp only [AMap.Nodup, AMap.keys] at nd ⊢
      exact (p1.map Prod.fst).nodup_iff.mp nd
    exact (ih1 nd).trans (ih2 nd2)

theorem AMap.get_perm {m m' : AMap} (p : m.Perm m') (nd : m.Nodup) (k : Bytes) :
    m.get k = m'.get k := by
  simp [AMap.get, AMap.lookup_perm p nd k]

/-! ### `sortedByLen` -/

theorem lenLexLe_total (a b : Bytes) : (lenLexLe a b || lenLexLe b a) = true := by
  simp only [lenLexLe, Bool.or_eq_true, Bool.and_eq_true, decide_eq_true_eq, beq_iff_eq,
    Bool.not_eq_true']
  by_cases h1 : a.length > b.length
  · exact Or.inl (Or.inl h1)
  · by_cases h2 : b.length > a.length
    · exact Or.inr (Or.inl h2)
    · have e : a.length = b.length := by omega
      cases hb : bytesLt b a
      · exact Or.inl (Or.inr ⟨e, rfl⟩)
      · right; right
        refine ⟨e.symm, ?_⟩
        cases hab : bytesLt a b
        · rfl
        · have := bytesLt_trans _ _ _ hab hb
          rw [bytesLt_irrefl] at this
          exact absurd this (by simp)

theorem lenLexLe_trans (a b c : Bytes) : lenLexLe a b = true → lenLexLe b c = true → lenLexLe a c = true := by
  simp only [lenLexLe, Bool.or_eq_true, Bool.and_eq_true, decide_eq_true_eq, beq_iff_eq,
    Bool.not_eq_true']
  intro h1 h2
  rcases h1 with h1 | ⟨e1, n1⟩
  · rcases h2 with h2 | ⟨e2, _⟩
    · exact Or.inl (by omega)
    · exact Or.inl (by omega)
  · rcases h2 with h2 | ⟨e2, n2⟩
    · exact Or.inl (by omega)
    · right
      refine ⟨e1.trans e2, ?_⟩
      cases hca : bytesLt c a
      · rfl
      · -- c < a, ¬ b < a, ¬ c < b  ⇒ contradiction through trichotomy
        cases hab : bytesLt a b
        · have := bytesLt_tri a b hab n1
          subst this
          rw [hca] at n2
          exact absurd n2 (by simp)
        · have := bytesLt_trans _ _ _ hca hab
          rw [this] at n2
          exact absurd n2 (by simp)

theorem lenLexLe_antisymm (a b : Bytes) : lenLexLe a b = true → lenLexLe b a = true → a = b := by
  simp only [lenLexLe, Bool.or_eq_true, Bool.and_eq_true, decide_eq_true_eq, beq_iff_eq,
    Bool.not_eq_true']
  intro h1 h2
  rcases h1 with h1 | ⟨_, n1⟩
  · rcases h2 with h2 | ⟨e2, _⟩ <;> omega
  · rcases h2 with h2 | ⟨_, n2⟩
    · omega
    · exact bytesLt_tri a b n2 n1

theorem lenLexLe_length {a b : Bytes} (h : lenLexLe a b = true) : b.length ≤ a.length := by
  simp only [lenLexLe, Bool.or_eq_true, Bool.and_eq_true, decide_eq_true_eq, beq_iff_eq] at h
  rcases h with h | ⟨h, _⟩ <;> omega

theorem sortedByLen_pairwise (m : AMap) : (sortedByLen m).Pairwise (fun a b => lenLexLe a b = true) :=
  List.pairwise_mergeSort lenLexLe_trans lenLexLe_total _

theorem mem_sortedByLen {m : AMap} {k : Bytes} : k ∈ sortedByLen m ↔ k ∈ m.keys := by
  simp [sortedByLen]

/-- the walk order does not depend on the order of the association list -/
theorem sortedByLen_perm {m m' : AMap} (p : m.Perm m') : sortedByLen m = sortedByLen m' := by
  have pk : (sortedByLen m).Perm (sortedByLen m') := by
    exact (List.mergeSort_perm _ _).trans ((p.map Prod.fst).trans (List.mergeSort_perm _ _).symm)
  exact List.Perm.eq_of_pairwise (le := fun a b => lenLexLe a b = true)
    (fun a b _ _ h1 h2 => lenLexLe_antisymm a b h1 h2)
    (sortedByLen_pairwise m) (sortedByLen_pairwise m') pk

end PP
