import PP.Model.Loop
import PP.Lemmas.ReaderLemmas
/-
Helper lemmas for C09b (the byte-level loop refines the line-level loop) and C02
(stream conservation of the line-level loop).
-/
namespace PP

/-! ### `itemsBytes`, `specLines` -/

@[simp] theorem itemsBytes_nil : itemsBytes [] = [] := rfl

@[simp] theorem itemsBytes_cons (d : Bytes) (e : Option RErr) (items : List (Bytes × Option RErr)) :
    itemsBytes ((d, e) :: items) = d ++ itemsBytes items := by
  simp [itemsBytes]

theorem itemsBytes_append (a b : List (Bytes × Option RErr)) :
    itemsBytes (a ++ b) = itemsBytes a ++ itemsBytes b := by
  simp [itemsBytes]

theorem itemsBytes_map_none (ls : List Bytes) :
    itemsBytes (ls.map (fun l => (l, (none : Option RErr)))) = ls.flatten := by
  induction ls with
  | nil => rfl
  | cons l ls ih => simp [ih]

theorem itemsBytes_specLines (bs : Bytes) (fin : RErr) : itemsBytes (specLines bs fin) = bs := by
  have h := splitLines_join bs
  simp only [specLines]
  rw [itemsBytes_append, itemsBytes_map_none]
  simpa using h

/-! ### one `readLine` = the head of `specLines` -/

/-- fuel and no-panic together (as `readLine_total` in `PP.Props.C09`) -/
theorem readLine_ok (N retry : Nat) (r : Rd) (hN : 0 < N) (hb : r.buf.length ≤ N) :
    ∃ line e r', readLine N retry (lineFuel r) [] r = some (.ok (line, e, r')) := by
  have h1 := readLine_isSome N retry (lineFuel r) [] r hN hb (by simp [lineFuel])
  have h2 := (readLine_inv N retry (lineFuel r) [] r hb).1
  cases h : readLine N retry (lineFuel r) [] r with
  | none => simp [h] at h1
  | some x =>
    cases x with
    | error p => exact absurd h (h2 p)
    | ok v => exact ⟨v.1, v.2.1, v.2.2, rfl⟩

/-- one `readLine` from a reader satisfying the invariant yields the head item of the canonical
split of what the reader still holds; the new reader holds exactly the remaining items. -/
theorem readLine_item (N retry : Nat) (rd : Rd) (d : Bytes) (e : Option RErr) (rd' : Rd)
    (hG : Good N rd) (hR : maxZeroRun rd.src.sched < retry)
    (h : readLine N retry (lineFuel rd) [] rd = some (.ok (d, e, rd'))) :
    Good N rd' ∧ rd'.src.final = rd.src.final ∧ maxZeroRun rd'.src.sched < retry ∧
    ∃ items, specLines (rd.buf ++ rd.src.rest) rd.src.final = (d, e) :: items ∧
      itemsBytes items = rd'.buf ++ rd'.src.rest ∧
      (e = none → items = specLines (rd'.buf ++ rd'.src.rest) rd'.src.final ∧
        rd'.buf.length + rd'.src.rest.length < rd.buf.length + rd.src.rest.length) := by
  obtain ⟨s1, s2, s3, s4⟩ := readLine_spec_aux N retry _ [] rd d e rd' hG hR (by simp [cutNL]) h
  refine ⟨s1, s2, by omega, ?_⟩
  simp only [List.nil_append] at s4
  rcases s4 with ⟨t0, t1⟩ | ⟨t0, t1, t2, t3, t4, _⟩
  · subst t0
    refine ⟨specLines (rd'.buf ++ rd'.src.rest) rd.src.final, specLines_of_cutNL_some _ t1,
      itemsBytes_specLines _ _, fun _ => ⟨by rw [s2], ?_⟩⟩
    have := cutNL_some_length t1
    simpa using this
  · subst t0
    refine ⟨[], ?_, by simp [t3, t4], fun hh => by simp at hh⟩
    rw [specLines_of_cutNL_none _ t1, t2]

/-! ### `scanL` basics -/

theorem scanL_cons (s : S) (fwd : Bytes) (cons : List Bytes) (d : Bytes) (e : Option RErr)
    (items : List (Bytes × Option RErr)) :
    scanL s fwd cons ((d, e) :: items) =
    if s.st == .done then { s := s, fwd := fwd, consumed := cons, err := none, rest := (d, e) :: items, broke := false }
    else if d.length != 0 then
      match scanBytes s d with
      | .error p => { s := s, fwd := fwd, consumed := cons, err := none, rest := (d, e) :: items, broke := false, panicked := some p }
      | .ok (s', l, e1) =>
        let err := combineErr e e1
        if !l then
          if s'.st != .looking then
            { s := s', fwd := fwd, consumed := cons, err := err, rest := (d, e) :: items, broke := true }
          else if err.isSome then
            { s := s', fwd := fwd ++ d, consumed := cons, err := err, rest := items, broke := false }
          else scanL s' (fwd ++ d) cons items
        else if err.isSome then
          { s := s', fwd := fwd, consumed := cons ++ [d], err := err, rest := items, broke := false }
        else scanL s' fwd (cons ++ [d]) items
    else
      match e with
      | some r => { s := s, fwd := fwd, consumed := cons, err := some (.reader r), rest := items, broke := false }
      | none => scanL s fwd cons items := by
  rw [scanL.eq_def]
  rfl

theorem scanL_done (s : S) (fwd : Bytes) (cons : List Bytes) (items : List (Bytes × Option RErr))
    (hd : (s.st == .done) = true) :
    scanL s fwd cons items =
      { s := s, fwd := fwd, consumed := cons, err := none, rest := items, broke := false } := by
  cases items with
  | nil => rfl
  | cons x items => obtain ⟨d, e⟩ := x; simp [scanL, hd]

/-! ### `scanB` refines `scanL` -/

/-- what the byte-level loop's outcome has in common with the line-level one -/
def RefinesL (o : OutB) (ol : OutL) : Prop :=
  o.s = ol.s ∧ o.fwd = ol.fwd ∧ o.consumed = ol.consumed ∧ o.err = ol.err ∧
  o.panicked = ol.panicked.isSome ∧ o.suffix.isSome = ol.broke ∧
  (o.suffix.isSome = true → o.rd.buf = []) ∧
  (o.panicked = false → o.suffix.getD [] ++ (o.rd.buf ++ o.rd.src.rest) = itemsBytes ol.rest)

theorem scanB_refines (N retry : Nat) (hN : 0 < N) (fuel : Nat) (s : S) (fwd : Bytes)
    (cons : List Bytes) (rd : Rd) (o : OutB) (hG : Good N rd)
    (hR : maxZeroRun rd.src.sched < retry)
    (h : scanB N retry fuel s fwd cons rd = some o) :
    RefinesL o (scanL s fwd cons (specLines (rd.buf ++ rd.src.rest) rd.src.final)) := by
  induction fuel generalizing s fwd cons rd with
  | zero => simp [scanB] at h
  | succ fuel ih =>
    rw [scanB] at h
    by_cases hd : (s.st == .done) = true
    · rw [if_pos hd] at h
      simp only [Option.some.injEq] at h
      subst h
      rw [scanL_done _ _ _ _ hd]
      simp [RefinesL, itemsBytes_specLines]
    · rw [if_neg hd] at h
      obtain ⟨d, e, rd', hrl⟩ := readLine_ok N retry rd hN hG.1
      rw [hrl] at h
      obtain ⟨g1, g2, g3, items, hsp, hib, hnone⟩ := readLine_item N retry rd d e rd' hG hR hrl
      rw [hsp, scanL_cons, if_neg hd]
      dsimp only at h
      by_cases hlen : (d.length != 0) = true
      · rw [if_pos hlen] at h
        rw [if_pos hlen]
        cases hsc : scanBytes s d with
        | error p =>
          rw [hsc] at h
          simp only [Option.some.injEq] at h
          subst h
          simp [RefinesL]
        | ok v =>
          obtain ⟨s', l, e1⟩ := v
          rw [hsc] at h
          dsimp only at h ⊢
          by_cases hl : (!l) = true
          · rw [if_pos hl] at h
            rw [if_pos hl]
            by_cases hlk : (s'.st != .looking) = true
            · rw [if_pos hlk] at h
              rw [if_pos hlk]
              simp only [Option.some.injEq] at h
              subst h
              simp [RefinesL, hib]
            · rw [if_neg hlk] at h
              rw [if_neg hlk]
              by_cases herr : (combineErr e e1).isSome = true
              · rw [if_pos herr] at h
                rw [if_pos herr]
                simp only [Option.some.injEq] at h
                subst h
                simp [RefinesL, hib]
              · rw [if_neg herr] at h
                rw [if_neg herr]
                have he : e = none := by
                  cases e with
                  | none => rfl
                  | some x => cases e1 <;> cases x <;> simp [combineErr] at herr
                obtain ⟨hi, _⟩ := hnone he
                rw [hi]
                exact ih _ _ _ _ g1 g3 h
          · rw [if_neg hl] at h
            rw [if_neg hl]
            by_cases herr : (combineErr e e1).isSome = true
            · rw [if_pos herr] at h
              rw [if_pos herr]
              simp only [Option.some.injEq] at h
              subst h
              simp [RefinesL, hib]
            · rw [if_neg herr] at h
              rw [if_neg herr]
              have he : e = none := by
                cases e with
                | none => rfl
                | some x => cases e1 <;> cases x <;> simp [combineErr] at herr
              obtain ⟨hi, _⟩ := hnone he
              rw [hi]
              exact ih _ _ _ _ g1 g3 h
      · rw [if_neg hlen] at h
        rw [if_neg hlen]
        cases e with
        | some r =>
          simp only [Option.some.injEq] at h
          subst h
          simp [RefinesL, hib]
        | none =>
          dsimp only at h ⊢
          obtain ⟨hi, _⟩ := hnone rfl
          rw [hi]
          exact ih _ _ _ _ g1 g3 h

/-- the fuel of `scanSnapshot` suffices: one unit per item plus one -/
theorem scanB_isSome (N retry : Nat) (hN : 0 < N) (fuel : Nat) (s : S) (fwd : Bytes)
    (cons : List Bytes) (rd : Rd) (hG : Good N rd) (hR : maxZeroRun rd.src.sched < retry)
    (hf : rd.buf.length + rd.src.rest.length + 1 ≤ fuel) :
    (scanB N retry fuel s fwd cons rd).isSome = true := by
  induction fuel generalizing s fwd cons rd with
  | zero => omega
  | succ fuel ih =>
    rw [scanB]
    by_cases hd : (s.st == .done) = true
    · rw [if_pos hd]; rfl
    · rw [if_neg hd]
      obtain ⟨d, e, rd', hrl⟩ := readLine_ok N retry rd hN hG.1
      rw [hrl]
      obtain ⟨g1, g2, g3, items, hsp, hib, hnone⟩ := readLine_item N retry rd d e rd' hG hR hrl
      dsimp only
      have hcont : ∀ s fwd cons, e = none → (scanB N retry fuel s fwd cons rd').isSome = true := by
        intro s fwd cons he
        obtain ⟨_, hlt⟩ := hnone he
        exact ih _ _ _ _ g1 g3 (by omega)
      have he_of : ∀ e1, ¬ (combineErr e e1).isSome = true → e = none := by
        intro e1 herr
        cases e with
        | none => rfl
        | some x => cases e1 <;> cases x <;> simp [combineErr] at herr
      split
      · split
        · rfl
        · split
          · split
            · rfl
            · split
              · rfl
              · rename_i herr; exact hcont _ _ _ (he_of _ herr)
          · split
            · rfl
            · rename_i herr; exact hcont _ _ _ (he_of _ herr)
      · split
        · rfl
        · exact hcont _ _ _ rfl

/-! ### The ghost trace of `scanL` -/

/-- one processed non-empty line: was it withheld (`scan` returned true) or forwarded, and the
scanner state before and after -/
structure Ev where
  withheld : Bool
  line : Bytes
  pre : S
  post : S

/-- the ghost trace of `scanL`: the processed non-empty lines in order.  The line on which the
loop breaks, panics, or stops because the state is `done` is not part of it (it is handed back
in `rest`); empty reads carry no bytes and are skipped. -/
def traceL : S → List (Bytes × Option RErr) → List Ev
  | _, [] => []
  | s, (d, e) :: items =>
    if s.st == .done then []
    else if d.length != 0 then
      match scanBytes s d with
      | .error _ => []
      | .ok (s', l, e1) =>
        if !l then
          if s'.st != .looking then []
          else if (combineErr e e1).isSome then [⟨false, d, s, s'⟩]
          else ⟨false, d, s, s'⟩ :: traceL s' items
        else if (combineErr e e1).isSome then [⟨true, d, s, s'⟩]
        else ⟨true, d, s, s'⟩ :: traceL s' items
    else
      match e with
      | some _ => []
      | none => traceL s items

theorem traceL_cons (s : S) (d : Bytes) (e : Option RErr) (items : List (Bytes × Option RErr)) :
    traceL s ((d, e) :: items) =
    if s.st == .done then []
    else if d.length != 0 then
      match scanBytes s d with
      | .error _ => []
      | .ok (s', l, e1) =>
        if !l then
          if s'.st != .looking then []
          else if (combineErr e e1).isSome then [⟨false, d, s, s'⟩]
          else ⟨false, d, s, s'⟩ :: traceL s' items
        else if (combineErr e e1).isSome then [⟨true, d, s, s'⟩]
        else ⟨true, d, s, s'⟩ :: traceL s' items
    else
      match e with
      | some _ => []
      | none => traceL s items := by
  rw [traceL.eq_def]

/-- forwarded bytes of a trace, in order -/
def fwdOf (t : List Ev) : Bytes := (t.filter (fun ev => !ev.withheld)).flatMap (·.line)
/-- withheld lines of a trace, in order -/
def consOf (t : List Ev) : List Bytes := (t.filter (·.withheld)).map (·.line)
/-- all bytes of a trace, in order -/
def bytesOf (t : List Ev) : Bytes := t.flatMap (·.line)

@[simp] theorem fwdOf_nil : fwdOf [] = [] := rfl
@[simp] theorem consOf_nil : consOf [] = [] := rfl
@[simp] theorem bytesOf_nil : bytesOf [] = [] := rfl
@[simp] theorem fwdOf_cons_f (d s s' t) : fwdOf (⟨false, d, s, s'⟩ :: t) = d ++ fwdOf t := by simp [fwdOf]
@[simp] theorem fwdOf_cons_t (d s s' t) : fwdOf (⟨true, d, s, s'⟩ :: t) = fwdOf t := by simp [fwdOf]
@[simp] theorem consOf_cons_f (d s s' t) : consOf (⟨false, d, s, s'⟩ :: t) = consOf t := by simp [consOf]
@[simp] theorem consOf_cons_t (d s s' t) : consOf (⟨true, d, s, s'⟩ :: t) = d :: consOf t := by simp [consOf]
@[simp] theorem bytesOf_cons (ev t) : bytesOf (ev :: t) = ev.line ++ bytesOf t := by simp [bytesOf]

theorem length_eq_nil {d : Bytes} (h : ¬ (d.length != 0) = true) : d = [] := by
  cases d with
  | nil => rfl
  | cons a t => simp at h

/-- `scanL` and its ghost trace: what is forwarded, what is withheld, and conservation -/
theorem scanL_traceL (s : S) (fwd : Bytes) (cons : List Bytes) (items : List (Bytes × Option RErr)) :
    (scanL s fwd cons items).fwd = fwd ++ fwdOf (traceL s items) ∧
    (scanL s fwd cons items).consumed = cons ++ consOf (traceL s items) ∧
    bytesOf (traceL s items) ++ itemsBytes (scanL s fwd cons items).rest = itemsBytes items := by
  induction items generalizing s fwd cons with
  | nil => simp [scanL, traceL]
  | cons x items ih =>
    obtain ⟨d, e⟩ := x
    rw [scanL_cons, traceL_cons]
    by_cases hd : (s.st == .done) = true
    · rw [if_pos hd, if_pos hd]; simp
    · rw [if_neg hd, if_neg hd]
      by_cases hlen : (d.length != 0) = true
      · rw [if_pos hlen, if_pos hlen]
        cases hsc : scanBytes s d with
        | error p => simp
        | ok v =>
          obtain ⟨s', l, e1⟩ := v
          dsimp only
          cases l with
          | false =>
            simp only [Bool.not_false, if_true]
            by_cases hlk : (s'.st != .looking) = true
            · rw [if_pos hlk, if_pos hlk]; simp
            · rw [if_neg hlk, if_neg hlk]
              by_cases herr : (combineErr e e1).isSome = true
              · rw [if_pos herr, if_pos herr]; simp
              · rw [if_neg herr, if_neg herr]
                obtain ⟨i1, i2, i3⟩ := ih s' (fwd ++ d) cons
                simp [i1, i2, i3]
          | true =>
            simp only [Bool.not_true, Bool.false_eq_true, if_false]
            by_cases herr : (combineErr e e1).isSome = true
            · rw [if_pos herr, if_pos herr]; simp
            · rw [if_neg herr, if_neg herr]
              obtain ⟨i1, i2, i3⟩ := ih s' fwd (cons ++ [d])
              simp [i1, i2, i3]
      · rw [if_neg hlen, if_neg hlen]
        have hd0 := length_eq_nil hlen
        subst hd0
        cases e with
        | some r => simp
        | none => simpa using ih s fwd cons


/-! ### The transition table of `scan` -/

/-- the transition table of `scan`: from state `st`, on a line with features `l`, the result
`(consumed?, next state)`. The first disjunct are the "not consumed" exits common to all states. -/
def Step (st : St) (l : Line) (b : Bool) (st' : St) : Prop :=
  (b = false ∧ (st' = st ∨ st' = .done)) ∨
  match st with
  | .looking => b = true ∧ ((l.header.isSome ∧ st' = .gotRoutineHeader) ∨
      (l.header = none ∧ l.sep = true ∧ st' = .gotRaceHeader1))
  | .done => False
  | .betweenRoutine => b = true ∧ l.header.isSome ∧ st' = .gotRoutineHeader
  | .gotRoutineHeader => (b = true ∧ l.unavail = true ∧ st' = .gotUnavail) ∨ (l.func.isSome ∧ st' = .gotFunc)
  | .gotFunc => b = true ∧ l.file.isSome ∧ st' = .gotFileFunc
  | .gotCreated => b = true ∧ l.file.isSome ∧ st' = .gotFileCreated
  | .gotFileFunc => (b = true ∧ l.created.isSome ∧ st' = .gotCreated) ∨
      (b = true ∧ l.elidedMark = true ∧ st' = .gotFileFunc) ∨ (l.func.isSome ∧ st' = .gotFunc) ∨
      (b = true ∧ l.empty = true ∧ st' = .betweenRoutine)
  | .gotFileCreated => b = true ∧ l.empty = true ∧ st' = .betweenRoutine
  | .gotUnavail => (b = true ∧ l.empty = true ∧ st' = .betweenRoutine) ∨
      (b = true ∧ l.created.isSome ∧ st' = .gotCreated)
  | .gotRaceHeader1 => (b = true ∧ l.warn = true ∧ st' = .gotRaceHeader2) ∨
      (b = false ∧ l.warn = false ∧ st' = .looking)
  | .gotRaceHeader2 => b = true ∧ l.raceOp.isSome ∧ st' = .gotRaceOperationHeader
  | .gotRaceOperationHeader => l.funcL.isSome ∧ st' = .gotRaceOperationFunc
  | .gotRaceOperationFunc => b = true ∧ l.file.isSome ∧ st' = .gotRaceOperationFile
  | .gotRaceOperationFile => (b = true ∧ l.empty = true ∧ st' = .betweenRaceOperations) ∨
      (l.funcL.isSome ∧ st' = .gotRaceOperationFunc)
  | .betweenRaceOperations => b = true ∧ ((l.racePrev.isSome ∧ st' = .gotRaceOperationHeader) ∨
      (l.raceGor.isSome ∧ st' = .gotRaceGoroutineHeader))
  | .betweenRaceGoroutines => b = true ∧ l.raceGor.isSome ∧ st' = .gotRaceGoroutineHeader
  | .gotRaceGoroutineHeader => l.funcL.isSome ∧ st' = .gotRaceGoroutineFunc
  | .gotRaceGoroutineFunc => b = true ∧ l.file.isSome ∧ st' = .gotRaceGoroutineFile
  | .gotRaceGoroutineFile => (b = true ∧ l.empty = true ∧ st' = .betweenRaceGoroutines) ∨
      (b = true ∧ l.sep = true ∧ st' = .done) ∨ (l.funcL.isSome ∧ st' = .gotRaceGoroutineFunc)

theorem scan_step {s s' : S} {l : Line} {b e} (h : scan s l = .ok (s', b, e)) : Step s.st l b s'.st := by
  unfold scan at h
  split at h
  · simp at h; obtain ⟨rfl, rfl, _⟩ := h; exact Or.inl ⟨rfl, Or.inl rfl⟩
  split at h
  · simp at h; obtain ⟨rfl, rfl, _⟩ := h; exact Or.inl ⟨rfl, Or.inr rfl⟩
  split at h
  all_goals ((try simp only [funcStep, createdStep, curAppendCall] at h); (repeat' (split at h)))
  all_goals (try (simp at h; done))
  all_goals (try (simp at h; obtain ⟨rfl, rfl, rfl⟩ := h; simp_all [Step]; done))
  all_goals (rename_i hq; subst h; (try simp only [*] at hq); (repeat' (split at hq)))
  all_goals (try (simp at hq; done))
  all_goals (try (simp at hq; obtain ⟨rfl, rfl, rfl⟩ := hq; simp_all [Step]; done))



/-! ### consequences of the transition table -/

/-- states from which `looking` is never reached again -/
def NL (st : St) : Prop := st ≠ .looking ∧ st ≠ .gotRaceHeader1

theorem Step_NL {st st' : St} {l : Line} {b : Bool} (h : Step st l b st') (hn : NL st) : NL st' := by
  obtain ⟨h1, h2⟩ := hn
  cases st <;> simp [Step, NL] at h h1 h2 ⊢ <;> grind

theorem Step_fwd_looking {st : St} {l : Line} {b : Bool} (h : Step st l b .looking) :
    b = false ∧ (st = .looking ∨ (st = .gotRaceHeader1 ∧ l.warn = false)) := by
  cases st <;> simp [Step] at h ⊢ <;> grind

theorem Step_rh1_withheld {st' : St} {l : Line} (h : Step .gotRaceHeader1 l true st') :
    st' = .gotRaceHeader2 ∧ l.warn = true := by
  simp [Step] at h; grind

theorem Step_looking_withheld {st' : St} {l : Line} (h : Step .looking l true st') :
    (l.header.isSome ∧ st' = .gotRoutineHeader) ∨ (l.header = none ∧ l.sep = true ∧ st' = .gotRaceHeader1) := by
  simp [Step] at h; grind

/-- in state `looking`, a line that is neither a goroutine header nor a race separator is
not processed and leaves the state untouched -/
theorem scan_looking_plain (s : S) (l : Line) (hs : s.st = .looking) (hi : l.indentOK = true)
    (hh : l.header = none) (hp : l.sep = false) : scan s l = .ok (s, false, none) := by
  unfold scan
  simp [hs, hi, hh, hp]

/-- a line forwarded from `looking` leaves the whole scanner state untouched -/
theorem scan_looking_fwd {s s' : S} {l : Line} {e} (h : scan s l = .ok (s', false, e))
    (hs : s.st = .looking) (hs' : s'.st = .looking) : s' = s ∧ e = none := by
  unfold scan at h
  simp only [hs] at h
  split at h
  · simp at h; exact ⟨h.1.symm, h.2.symm⟩
  split at h
  · simp at h; obtain ⟨rfl, _⟩ := h; simp at hs'
  split at h
  · simp at h
  · split at h
    · simp at h
    · simp at h; exact ⟨h.1.symm, h.2.symm⟩

/-- the only other way to forward a line: the line after a lone race separator -/
theorem scan_rh1_fwd {s s' : S} {l : Line} {e} (h : scan s l = .ok (s', false, e))
    (hs : s.st = .gotRaceHeader1) (hs' : s'.st = .looking) :
    s' = { s with st := .looking, pfx := [] } ∧ e = none := by
  unfold scan at h
  simp only [hs] at h
  split at h
  · rename_i hc; simp at hc
  split at h
  · simp at h; obtain ⟨rfl, _⟩ := h; simp at hs'
  split at h
  · simp at h
  · simp at h; exact ⟨h.1.symm, h.2.symm⟩


/-! ### the trace is a chain of `scan` steps -/

/-- what the loop guarantees about one event -/
def Ev.Valid (ev : Ev) : Prop :=
  (∃ e1, scanBytes ev.pre ev.line = .ok (ev.post, ev.withheld, e1)) ∧ ev.line ≠ [] ∧
  ev.pre.st ≠ .done ∧ (ev.withheld = false → ev.post.st = .looking)

/-- consecutive valid events starting in state `s` -/
inductive Chain : S → List Ev → Prop
  | nil (s : S) : Chain s []
  | cons (ev : Ev) (t : List Ev) : ev.Valid → Chain ev.post t → Chain ev.pre (ev :: t)

theorem traceL_chain (s : S) (items : List (Bytes × Option RErr)) : Chain s (traceL s items) := by
  induction items generalizing s with
  | nil => exact Chain.nil s
  | cons x items ih =>
    obtain ⟨d, e⟩ := x
    rw [traceL_cons]
    by_cases hd : (s.st == .done) = true
    · rw [if_pos hd]; exact Chain.nil s
    · rw [if_neg hd]
      have hd' : s.st ≠ .done := by simpa using hd
      by_cases hlen : (d.length != 0) = true
      · rw [if_pos hlen]
        have hne : d ≠ [] := by intro h0; subst h0; simp at hlen
        cases hsc : scanBytes s d with
        | error p => exact Chain.nil s
        | ok v =>
          obtain ⟨s', l, e1⟩ := v
          dsimp only
          cases l with
          | false =>
            simp only [Bool.not_false, if_true]
            by_cases hlk : (s'.st != .looking) = true
            · rw [if_pos hlk]; exact Chain.nil s
            · rw [if_neg hlk]
              have hlk' : s'.st = .looking := by simpa using hlk
              have hv : Ev.Valid ⟨false, d, s, s'⟩ := ⟨⟨e1, hsc⟩, hne, hd', fun _ => hlk'⟩
              by_cases herr : (combineErr e e1).isSome = true
              · rw [if_pos herr]; exact Chain.cons ⟨false, d, s, s'⟩ [] hv (Chain.nil s')
              · rw [if_neg herr]; exact Chain.cons ⟨false, d, s, s'⟩ _ hv (ih s')
          | true =>
            simp only [Bool.not_true, Bool.false_eq_true, if_false]
            have hv : Ev.Valid ⟨true, d, s, s'⟩ := ⟨⟨e1, hsc⟩, hne, hd', fun h => by simp at h⟩
            by_cases herr : (combineErr e e1).isSome = true
            · rw [if_pos herr]; exact Chain.cons ⟨true, d, s, s'⟩ [] hv (Chain.nil s')
            · rw [if_neg herr]; exact Chain.cons ⟨true, d, s, s'⟩ _ hv (ih s')
      · rw [if_neg hlen]
        cases e with
        | some r => exact Chain.nil s
        | none => exact ih s

theorem Chain.valid {s : S} {t : List Ev} (h : Chain s t) : ∀ ev ∈ t, ev.Valid := by
  induction h with
  | nil => simp
  | cons ev t hv _ ih =>
    intro f hf
    simp at hf
    rcases hf with rfl | hf
    · exact hv
    · exact ih f hf

/-- the transition-table step of an event -/
theorem Ev.Valid.step {ev : Ev} (h : ev.Valid) :
    Step ev.pre.st (classify ev.pre.pfx ev.line) ev.withheld ev.post.st := by
  obtain ⟨⟨e1, h1⟩, _⟩ := h
  exact scan_step h1

theorem Chain.head_pre {s : S} {ev : Ev} {t : List Ev} (h : Chain s (ev :: t)) :
    ev.pre = s ∧ ev.Valid ∧ Chain ev.post t := by
  cases h with
  | cons _ _ hv ht => exact ⟨rfl, hv, ht⟩

/-- adjacency: the state after an event is the state before the next one -/
theorem Chain.adjacent {s : S} {t1 : List Ev} {ev1 ev2 : Ev} {t2 : List Ev}
    (h : Chain s (t1 ++ ev1 :: ev2 :: t2)) : ev2.pre = ev1.post := by
  induction t1 generalizing s with
  | nil =>
    obtain ⟨_, _, h2⟩ := Chain.head_pre h
    exact (Chain.head_pre h2).1
  | cons x t1 ih =>
    obtain ⟨_, _, h2⟩ := Chain.head_pre h
    exact ih h2

/-- once the state is neither `looking` nor `gotRaceHeader1`, nothing is forwarded any more -/
theorem Chain.NL_withheld {s : S} {t : List Ev} (h : Chain s t) (hn : NL s.st) :
    ∀ ev ∈ t, ev.withheld = true := by
  induction h with
  | nil => simp
  | cons ev t hv _ ih =>
    have hst := Step_NL hv.step hn
    have hw : ev.withheld = true := by
      cases hw : ev.withheld with
      | true => rfl
      | false => exact absurd (hv.2.2.2 hw) hst.1
    intro f hf
    simp at hf
    rcases hf with rfl | hf
    · exact hw
    · exact ih hst f hf

/-- shape of a trace: a withheld line that is later followed by a forwarded one is a race
separator consumed in state `looking`, and the very next line is the forwarded one (it is not
the `WARNING: DATA RACE` line). -/
theorem Chain.shape {s : S} {t : List Ev} (h : Chain s t) :
    ∀ t1 ev t2, t = t1 ++ ev :: t2 → ev.withheld = true → (∃ f ∈ t2, f.withheld = false) →
      ev.pre.st = .looking ∧ ev.post.st = .gotRaceHeader1 ∧
      (classify ev.pre.pfx ev.line).sep = true ∧ (classify ev.pre.pfx ev.line).header = none ∧
      ∃ f t3, t2 = f :: t3 ∧ f.withheld = false ∧ f.pre = ev.post ∧
        (classify f.pre.pfx f.line).warn = false ∧ f.post.st = .looking := by
  induction h with
  | nil => intro t1 ev t2 h; simp at h
  | cons ev0 t hv ht ih =>
    intro t1 ev t2 heq hw hf
    cases t1 with
    | cons x t1 =>
      simp at heq
      exact ih t1 ev t2 heq.2 hw hf
    | nil =>
      simp at heq
      obtain ⟨rfl, rfl⟩ := heq
      obtain ⟨f, hf2, hfw⟩ := hf
      have hstep := hv.step
      rw [hw] at hstep
      -- the state after `ev0` must allow a later forward
      have hnotNL : ¬ NL ev0.post.st := fun hn => by
        have := Chain.NL_withheld ht hn f hf2
        rw [hfw] at this; simp at this
      have hpre : ev0.pre.st = .looking := by
        cases hp : ev0.pre.st <;> rw [hp] at hstep <;> simp [Step] at hstep <;>
          first | rfl | (exfalso; apply hnotNL; simp [NL]; grind)
      rw [hpre] at hstep
      rcases Step_looking_withheld hstep with ⟨_, h2⟩ | ⟨h1, h2, h3⟩
      · exfalso; apply hnotNL; rw [h2]; simp [NL]
      · refine ⟨hpre, h3, h2, h1, ?_⟩
        cases t with
        | nil => simp at hf2
        | cons g t3 =>
          obtain ⟨gp, gv, gt⟩ := Chain.head_pre ht
          have gstep := gv.step
          rw [gp, h3] at gstep
          cases hgw : g.withheld with
          | true =>
            exfalso
            rw [hgw] at gstep
            have g2 := (Step_rh1_withheld gstep).1
            have hall := Chain.NL_withheld gt (by rw [g2]; simp [NL])
            simp at hf2
            rcases hf2 with rfl | hf2
            · rw [hgw] at hfw; simp at hfw
            · have := hall f hf2; rw [hfw] at this; simp at this
          | false =>
            have gl := gv.2.2.2 hgw
            rw [hgw, gl] at gstep
            obtain ⟨_, g3⟩ := Step_fwd_looking gstep
            refine ⟨g, t3, rfl, hgw, gp, ?_, gl⟩
            rcases g3 with g3 | g3
            · simp at g3
            · rw [gp]; exact g3.2


/-! ### streams without a dump -/

theorem classify_nil_indentOK (raw : Bytes) : (classify [] raw).indentOK = true := by
  simp [classify]

/-- a line that starts no dump, seen from the initial state -/
def Plain (d : Bytes) : Prop := (classify [] d).header = none ∧ (classify [] d).sep = false

theorem scanBytes_plain (s : S) (d : Bytes) (hs : s.st = .looking) (hp : s.pfx = []) (h : Plain d) :
    scanBytes s d = .ok (s, false, none) := by
  unfold scanBytes
  rw [hp]
  exact scan_looking_plain s _ hs (classify_nil_indentOK d) h.1 h.2

/-- the loop on plain lines ending in the item that carries the terminal error -/
theorem scanL_plain (s : S) (hs : s.st = .looking) (hp : s.pfx = []) (fwd : Bytes) (cons : List Bytes)
    (ls : List Bytes) (t : Bytes) (fin : RErr) (hl : ∀ l ∈ ls, Plain l) (ht : Plain t) :
    scanL s fwd cons (ls.map (fun l => (l, none)) ++ [(t, some fin)]) =
      { s := s, fwd := fwd ++ ls.flatten ++ t, consumed := cons, err := some (.reader fin),
        rest := [], broke := false } := by
  have hnd : ¬ (s.st == .done) = true := by simp [hs]
  induction ls generalizing fwd with
  | nil =>
    simp only [List.map_nil, List.nil_append, List.flatten_nil, List.append_nil]
    rw [scanL_cons, if_neg hnd]
    by_cases hlen : (t.length != 0) = true
    · rw [if_pos hlen, scanBytes_plain s t hs hp ht]
      simp [hs, combineErr]
    · rw [if_neg hlen]
      have := length_eq_nil hlen
      subst this
      simp
  | cons l ls ih =>
    have hl0 := hl l (by simp)
    have hl' : ∀ l ∈ ls, Plain l := fun x hx => hl x (by simp [hx])
    simp only [List.map_cons, List.cons_append]
    rw [scanL_cons, if_neg hnd]
    by_cases hlen : (l.length != 0) = true
    · rw [if_pos hlen, scanBytes_plain s l hs hp hl0]
      simp only [hs, combineErr]
      simp
      rw [ih _ hl']
      simp
    · rw [if_neg hlen]
      have := length_eq_nil hlen
      subst this
      simp
      rw [ih _ hl']
      simp

/-! ### blank lines -/

/-- a line on which every classifier fails except `empty` -/
structure Line.isBlank (l : Line) : Prop where
  indentOK : l.indentOK = true
  empty : l.empty = true
  header : l.header = none
  sep : l.sep = false
  warn : l.warn = false
  unavail : l.unavail = false
  func : l.func = none
  funcL : l.funcL = none
  file : l.file = none
  created : l.created = none
  elidedMark : l.elidedMark = false
  raceOp : l.raceOp = none
  racePrev : l.racePrev = none
  raceGor : l.raceGor = none

/-- the states that consume a blank line are the five "directly after a stack" states, and
they lead to a "between" state -/
theorem Step_blank {st st' : St} {l : Line} (hb : l.isBlank) (h : Step st l true st') :
    ((st = .gotFileFunc ∨ st = .gotFileCreated ∨ st = .gotUnavail) ∧ st' = .betweenRoutine) ∨
    (st = .gotRaceOperationFile ∧ st' = .betweenRaceOperations) ∨
    (st = .gotRaceGoroutineFile ∧ st' = .betweenRaceGoroutines) := by
  cases st <;>
    simp [Step, hb.header, hb.sep, hb.warn, hb.unavail, hb.func, hb.funcL, hb.file, hb.created,
      hb.elidedMark, hb.raceOp, hb.racePrev, hb.raceGor] at h ⊢ <;> first | exact h | exact h.2

/-- the "between" states do not consume a blank line -/
theorem scan_between_blank (s : S) (l : Line) (hb : l.isBlank)
    (hs : s.st = .betweenRoutine ∨ s.st = .betweenRaceOperations ∨ s.st = .betweenRaceGoroutines) :
    ∃ s₂ e₂, scan s l = .ok (s₂, false, e₂) := by
  unfold scan
  rcases hs with hs | hs | hs <;>
    simp [hs, hb.indentOK, hb.header, hb.racePrev, hb.raceGor]


/-- every field of `classify` except the end-of-line and indentation flags is a function of
the stripped line `t` -/
theorem classify_spec (pfx raw : Bytes) : ∃ t : Bytes,
    ((classify pfx raw).indentOK = false → t ≠ []) ∧
    (classify pfx raw).empty = t.isEmpty ∧
    (classify pfx raw).header = parseHeader t ∧
    (classify pfx raw).sep = (t == Extracted.raceHeaderFooter) ∧
    (classify pfx raw).warn = (t == Extracted.raceHeader) ∧
    (classify pfx raw).unavail = matchUnavail t ∧
    (classify pfx raw).func = parseFunc t ∧
    (classify pfx raw).funcL = parseFunc (trimLeftSpace t) ∧
    (classify pfx raw).file = parseFile t ∧
    (classify pfx raw).created = (matchCreated t).map (fun n => match funcInit n with | .ok f => .ok f | .error e => .error (Err.ofFErr e)) ∧
    (classify pfx raw).elidedMark = isFramesElidedLine t ∧
    (classify pfx raw).raceOp = parseRaceOp (matchRaceOp t) Extracted.writeCap ∧
    (classify pfx raw).racePrev = parseRaceOp (matchRacePrev t) Extracted.writeLow ∧
    (classify pfx raw).raceGor = (matchRaceGoroutine t).map (fun (d, st) => (atou d, st)) := by
  unfold classify
  dsimp only
  split
  · rename_i hc
    split
    · exact ⟨_, by simp, rfl, rfl, rfl, rfl, rfl, rfl, rfl, rfl, rfl, rfl, rfl, rfl, rfl⟩
    · refine ⟨_, ?_, rfl, rfl, rfl, rfl, rfl, rfl, rfl, rfl, rfl, rfl, rfl, rfl, rfl⟩
      intro _ h0
      simp only at h0
      rw [h0] at hc
      simp at hc
  · exact ⟨_, by simp, rfl, rfl, rfl, rfl, rfl, rfl, rfl, rfl, rfl, rfl, rfl, rfl, rfl⟩

/-- an empty line (after stripping the end of line and the prefix) is blank -/
theorem classify_empty_isBlank (pfx raw : Bytes) (h : (classify pfx raw).empty = true) :
    (classify pfx raw).isBlank := by
  obtain ⟨t, h0, h1, h2, h3, h4, h5, h6, h7, h8, h9, h10, h11, h12, h13⟩ := classify_spec pfx raw
  rw [h1] at h
  have ht : t = [] := by cases t with | nil => rfl | cons a b => simp at h
  subst ht
  refine ⟨?_, by rw [h1]; rfl, ?_, ?_, ?_, ?_, ?_, ?_, ?_, ?_, ?_, ?_, ?_, ?_⟩
  · cases hi : (classify pfx raw).indentOK with
    | true => rfl
    | false => exact absurd rfl (h0 hi)
  · rw [h2]; decide
  · rw [h3]; decide
  · rw [h4]; decide
  · rw [h5]; decide
  · rw [h6]; decide
  · rw [h7]; decide
  · rw [h8]; decide
  · rw [h9]; decide
  · rw [h10]; decide
  · rw [h11]; decide
  · rw [h12]; decide
  · rw [h13]; decide

/-! ### the trace as `(withheld?, line)` pairs -/

/-- the ghost trace of `scanL` as pairs: `true` = withheld, `false` = forwarded -/
def trace (s : S) (items : List (Bytes × Option RErr)) : List (Bool × Bytes) :=
  (traceL s items).map (fun ev => (ev.withheld, ev.line))

theorem fwdOf_eq (t : List Ev) :
    fwdOf t = ((t.map (fun ev => (ev.withheld, ev.line))).filter (fun p => !p.1)).flatMap (·.2) := by
  induction t with
  | nil => rfl
  | cons ev t ih =>
    obtain ⟨w, d, s, s'⟩ := ev
    cases w <;> simp [ih]

theorem consOf_eq (t : List Ev) :
    consOf t = ((t.map (fun ev => (ev.withheld, ev.line))).filter (·.1)).map (·.2) := by
  induction t with
  | nil => rfl
  | cons ev t ih =>
    obtain ⟨w, d, s, s'⟩ := ev
    cases w <;> simp [ih]

theorem bytesOf_eq (t : List Ev) :
    bytesOf t = (t.map (fun ev => (ev.withheld, ev.line))).flatMap (·.2) := by
  induction t with
  | nil => rfl
  | cons ev t ih => simp [ih]

/-- on a panic the loop stops with the offending line first in `rest` -/
theorem scanL_panicked (s : S) (fwd : Bytes) (cons : List Bytes) (items : List (Bytes × Option RErr))
    (p : Panic) (h : (scanL s fwd cons items).panicked = some p) :
    ∃ d e rest', (scanL s fwd cons items).rest = (d, e) :: rest' ∧
      scanBytes (scanL s fwd cons items).s d = .error p := by
  induction items generalizing s fwd cons with
  | nil => simp [scanL] at h
  | cons x items ih =>
    obtain ⟨d, e⟩ := x
    rw [scanL_cons] at h ⊢
    by_cases hd : (s.st == .done) = true
    · rw [if_pos hd] at h; simp at h
    · rw [if_neg hd] at h ⊢
      by_cases hlen : (d.length != 0) = true
      · rw [if_pos hlen] at h ⊢
        cases hsc : scanBytes s d with
        | error q =>
          rw [hsc] at h
          simp at h
          subst h
          exact ⟨d, e, items, rfl, hsc⟩
        | ok v =>
          obtain ⟨s', l, e1⟩ := v
          rw [hsc] at h
          dsimp only at h ⊢
          by_cases hl : (!l) = true
          · rw [if_pos hl] at h ⊢
            by_cases hlk : (s'.st != .looking) = true
            · rw [if_pos hlk] at h; simp at h
            · rw [if_neg hlk] at h ⊢
              by_cases herr : (combineErr e e1).isSome = true
              · rw [if_pos herr] at h; simp at h
              · rw [if_neg herr] at h ⊢; exact ih _ _ _ h
          · rw [if_neg hl] at h ⊢
            by_cases herr : (combineErr e e1).isSome = true
            · rw [if_pos herr] at h; simp at h
            · rw [if_neg herr] at h ⊢; exact ih _ _ _ h
      · rw [if_neg hlen] at h ⊢
        cases e with
        | some r => simp at h
        | none => exact ih _ _ _ h

/-- a list in which nothing forwarded follows anything withheld splits into a forwarded part
and a withheld part -/
theorem split_of_no_fwd_after_withheld (t : List Ev)
    (h : ∀ t1 ev t2, t = t1 ++ ev :: t2 → ev.withheld = true → ∀ f ∈ t2, f.withheld = true) :
    ∃ F W, t = F ++ W ∧ (∀ f ∈ F, f.withheld = false) ∧ (∀ w ∈ W, w.withheld = true) := by
  induction t with
  | nil => exact ⟨[], [], rfl, by simp, by simp⟩
  | cons ev t ih =>
    cases hw : ev.withheld with
    | true =>
      refine ⟨[], ev :: t, rfl, by simp, ?_⟩
      intro w hwm
      simp at hwm
      rcases hwm with rfl | hwm
      · exact hw
      · exact h [] ev t rfl hw w hwm
    | false =>
      obtain ⟨F, W, h1, h2, h3⟩ := ih (fun t1 e t2 heq => h (ev :: t1) e t2 (by simp [heq]))
      refine ⟨ev :: F, W, by simp [h1], ?_, h3⟩
      intro f hf
      simp at hf
      rcases hf with rfl | hf
      · exact hw
      · exact h2 f hf


end PP
