import PP.Lemmas.LoopLemmas
/-
Helper definitions and lemmas for C11 (streaming progress): a ghost-instrumented copy of the
reader and of the ScanSnapshot loop that logs every `Read` on the source, every line handed
to `scan` and every line written to the pass-through writer, in program order.
-/
namespace PP
namespace Live

/-- observable events of `ScanSnapshot` used as a live filter.
* `read acc buf got err`: one `Read` call on the source (the only place where the library can
  block), logged with what the reader holds when it calls: `buf` = the unread bytes of the
  buffer, `acc` = the glued beginning of a line longer than the buffer (`readLine`'s
  accumulator); `got`/`err` = what the call returns.
* `scanned d processed`: the line `d` was handed to `scan`, which returned `processed`.
* `write d`: `d` was written to the pass-through writer. -/
inductive Ev
  | read (acc buf got : Bytes) (err : Option RErr)
  | scanned (d : Bytes) (processed : Bool)
  | write (d : Bytes)
  deriving DecidableEq, Repr

abbrev Log := List Ev

/-! ### the instrumented model -/

def fillLoopT (N : Nat) (acc : Bytes) : Nat → Rd → Rd × Log
  | 0, r => ({ r with err := some .noProgress }, [])
  | k + 1, r =>
    let (c, e, s') := r.src.read (N - r.buf.length)
    let r' : Rd := { r with buf := r.buf ++ c, src := s' }
    match e with
    | some e => ({ r' with err := some e }, [.read acc r.buf c (some e)])
    | none =>
      if c.length > 0 then (r', [.read acc r.buf c none])
      else
        let (r'', evs) := fillLoopT N acc k r'
        (r'', .read acc r.buf c none :: evs)

def fillT (N retry : Nat) (acc : Bytes) (r : Rd) : Except RPanic Rd × Log :=
  if r.buf.length ≥ N then (.error .fillFull, [])
  else
    let (r', evs) := fillLoopT N acc retry r
    (.ok r', evs)

def readSliceT (N retry : Nat) (acc : Bytes) :
    Nat → Rd → Option (Except RPanic (Bytes × Option SliceErr × Rd)) × Log
  | 0, _ => (none, [])
  | fuel + 1, r =>
    match cutNL r.buf with
    | some (l, rest) => (some (.ok (l, none, { r with buf := rest })), [])
    | none =>
      match r.err with
      | some e => (some (.ok (r.buf, some (.rerr e), { r with buf := [], err := none })), [])
      | none =>
        if r.buf.length = N then (some (.ok (r.buf, some .bufferFull, { r with buf := [] })), [])
        else match fillT N retry acc r with
          | (.error p, evs) => (some (.error p), evs)
          | (.ok r', evs) =>
            let (res, evs') := readSliceT N retry acc fuel r'
            (res, evs ++ evs')

def readLineT (N retry : Nat) :
    Nat → Bytes → Rd → Option (Except RPanic (Bytes × Option RErr × Rd)) × Log
  | 0, _, _ => (none, [])
  | fuel + 1, acc, r =>
    match readSliceT N retry acc (N + 2) r with
    | (none, evs) => (none, evs)
    | (some (.error p), evs) => (some (.error p), evs)
    | (some (.ok (f, some .bufferFull, r')), evs) =>
      let (res, evs') := readLineT N retry fuel (acc ++ f) r'
      (res, evs ++ evs')
    | (some (.ok (f, some (.rerr e), r')), evs) => (some (.ok (acc ++ f, some e, r')), evs)
    | (some (.ok (f, none, r')), evs) => (some (.ok (acc ++ f, none, r')), evs)

def scanBT (N retry : Nat) : Nat → S → Bytes → List Bytes → Rd → Option OutB × Log
  | 0, _, _, _, _ => (none, [])
  | fuel + 1, s, fwd, cons, rd =>
    if s.st == .done then (some { s := s, fwd := fwd, consumed := cons, err := none, suffix := none, rd := rd }, [])
    else
      match readLineT N retry (lineFuel rd) [] rd with
      | (none, evs) => (none, evs)
      | (some (.error _), evs) =>
        (some { s := s, fwd := fwd, consumed := cons, err := none, suffix := none, rd := rd, panicked := true }, evs)
      | (some (.ok (d, e, rd')), evs) =>
        if d.length != 0 then
          match scanBytes s d with
          | .error _ =>
            (some { s := s, fwd := fwd, consumed := cons, err := none, suffix := none, rd := rd', panicked := true }, evs)
          | .ok (s', l, e1) =>
            let err := combineErr e e1
            if !l then
              if s'.st != .looking then
                (some { s := s', fwd := fwd, consumed := cons, err := err, suffix := some (d ++ rd'.buf), rd := { rd' with buf := [] } },
                  evs ++ [.scanned d false])
              else if err.isSome then
                (some { s := s', fwd := fwd ++ d, consumed := cons, err := err, suffix := none, rd := rd' },
                  evs ++ [.scanned d false, .write d])
              else
                let (res, evs') := scanBT N retry fuel s' (fwd ++ d) cons rd'
                (res, evs ++ .scanned d false :: .write d :: evs')
            else if err.isSome then
              (some { s := s', fwd := fwd, consumed := cons ++ [d], err := err, suffix := none, rd := rd' },
                evs ++ [.scanned d true])
            else
              let (res, evs') := scanBT N retry fuel s' fwd (cons ++ [d]) rd'
              (res, evs ++ .scanned d true :: evs')
        else
          match e with
          | some r => (some { s := s, fwd := fwd, consumed := cons, err := some (.reader r), suffix := none, rd := rd' }, evs)
          | none =>
            let (res, evs') := scanBT N retry fuel s fwd cons rd'
            (res, evs ++ evs')

/-! ### erasure: the instrumented model is the model -/

theorem fillLoopT_erase (N : Nat) (acc : Bytes) (k : Nat) (r : Rd) :
    (fillLoopT N acc k r).1 = fillLoop N k r := by
  induction k generalizing r with
  | zero => rfl
  | succ k ih =>
    rcases hrd : r.src.read (N - r.buf.length) with ⟨c, e, s'⟩
    simp only [fillLoopT, fillLoop, hrd]
    cases e with
    | some x => rfl
    | none =>
      dsimp only
      split
      · rfl
      · exact ih _

theorem fillT_erase (N retry : Nat) (acc : Bytes) (r : Rd) :
    (fillT N retry acc r).1 = fill N retry r := by
  simp only [fillT, fill]
  split
  · rfl
  · simp [fillLoopT_erase]

theorem readSliceT_erase (N retry : Nat) (acc : Bytes) (fuel : Nat) (r : Rd) :
    (readSliceT N retry acc fuel r).1 = readSlice N retry fuel r := by
  induction fuel generalizing r with
  | zero => rfl
  | succ fuel ih =>
    rw [readSliceT, readSlice]
    cases hc : cutNL r.buf with
    | some v => rfl
    | none =>
      dsimp only
      cases he : r.err with
      | some e => rfl
      | none =>
        dsimp only
        by_cases hN : r.buf.length = N
        · rw [if_pos hN, if_pos hN]
        · rw [if_neg hN, if_neg hN]
          have hf := fillT_erase N retry acc r
          rcases hft : fillT N retry acc r with ⟨res, evs⟩
          rw [hft] at hf
          simp only at hf
          rw [← hf]
          cases res with
          | error p => rfl
          | ok r' => exact ih r'

theorem readLineT_erase (N retry : Nat) (fuel : Nat) (acc : Bytes) (r : Rd) :
    (readLineT N retry fuel acc r).1 = readLine N retry fuel acc r := by
  induction fuel generalizing acc r with
  | zero => rfl
  | succ fuel ih =>
    have hs := readSliceT_erase N retry acc (N + 2) r
    rw [readLineT, readLine]
    rcases hst : readSliceT N retry acc (N + 2) r with ⟨res, evs⟩
    rw [hst] at hs
    simp only at hs
    rw [← hs]
    cases res with
    | none => rfl
    | some x =>
      cases x with
      | error p => rfl
      | ok v =>
        obtain ⟨f, e, r'⟩ := v
        cases e with
        | none => rfl
        | some se =>
          cases se with
          | rerr e => rfl
          | bufferFull => exact ih _ _

theorem scanBT_erase (N retry : Nat) (fuel : Nat) (s : S) (fwd : Bytes) (cons : List Bytes) (rd : Rd) :
    (scanBT N retry fuel s fwd cons rd).1 = scanB N retry fuel s fwd cons rd := by
  induction fuel generalizing s fwd cons rd with
  | zero => rfl
  | succ fuel ih =>
    have hs := readLineT_erase N retry (lineFuel rd) [] rd
    rw [scanBT, scanB]
    by_cases hd : (s.st == .done) = true
    · rw [if_pos hd, if_pos hd]
    · rw [if_neg hd, if_neg hd]
      rcases hst : readLineT N retry (lineFuel rd) [] rd with ⟨res, evs⟩
      rw [hst] at hs
      simp only at hs
      rw [← hs]
      cases res with
      | none => rfl
      | some x =>
        cases x with
        | error p => rfl
        | ok v =>
          obtain ⟨d, e, rd'⟩ := v
          dsimp only
          by_cases hlen : (d.length != 0) = true
          · rw [if_pos hlen, if_pos hlen]
            cases hsc : scanBytes s d with
            | error p => rfl
            | ok v =>
              obtain ⟨s', l, e1⟩ := v
              dsimp only
              by_cases hl : (!l) = true
              · rw [if_pos hl, if_pos hl]
                by_cases hlk : (s'.st != .looking) = true
                · rw [if_pos hlk, if_pos hlk]
                · rw [if_neg hlk, if_neg hlk]
                  by_cases herr : (combineErr e e1).isSome = true
                  · rw [if_pos herr, if_pos herr]
                  · rw [if_neg herr, if_neg herr]; exact ih _ _ _ _
              · rw [if_neg hl, if_neg hl]
                by_cases herr : (combineErr e e1).isSome = true
                · rw [if_pos herr, if_pos herr]
                · rw [if_neg herr, if_neg herr]; exact ih _ _ _ _
          · rw [if_neg hlen, if_neg hlen]
            cases e with
            | some r => rfl
            | none => exact ih _ _ _ _

/-! ### projections of a log -/

/-- the bytes the source has delivered -/
def delivered : Log → Bytes
  | [] => []
  | .read _ _ got _ :: t => got ++ delivered t
  | _ :: t => delivered t

/-- the bytes of the lines handed to `scan` -/
def scannedBytes : Log → Bytes
  | [] => []
  | .scanned d _ :: t => d ++ scannedBytes t
  | _ :: t => scannedBytes t

/-- the lines written to the pass-through writer -/
def writesOf : Log → List Bytes
  | [] => []
  | .write d :: t => d :: writesOf t
  | _ :: t => writesOf t

/-- the lines `scan` did not process -/
def unprocOf : Log → List Bytes
  | [] => []
  | .scanned d false :: t => d :: unprocOf t
  | _ :: t => unprocOf t

/-- a `Read` that returned data or an error -/
def Ev.isProductiveRead : Ev → Bool
  | .read _ _ got err => !got.isEmpty || err.isSome
  | _ => false

def Ev.isRead : Ev → Bool
  | .read .. => true
  | _ => false

theorem delivered_append (a b : Log) : delivered (a ++ b) = delivered a ++ delivered b := by
  induction a with
  | nil => rfl
  | cons x t ih => cases x <;> simp [delivered, ih]

theorem scannedBytes_append (a b : Log) : scannedBytes (a ++ b) = scannedBytes a ++ scannedBytes b := by
  induction a with
  | nil => rfl
  | cons x t ih => cases x <;> simp [scannedBytes, ih]

theorem writesOf_append (a b : Log) : writesOf (a ++ b) = writesOf a ++ writesOf b := by
  induction a with
  | nil => rfl
  | cons x t ih => cases x <;> simp [writesOf, ih]

theorem unprocOf_append (a b : Log) : unprocOf (a ++ b) = unprocOf a ++ unprocOf b := by
  induction a with
  | nil => rfl
  | cons x t ih =>
    cases x with
    | scanned d b => cases b <;> simp [unprocOf, ih]
    | _ => simp [unprocOf, ih]

/-- a log made of `Read`s only -/
def OnlyReads (evs : Log) : Prop := ∀ ev ∈ evs, ev.isRead = true

theorem OnlyReads.nil : OnlyReads [] := by intro ev h; simp at h

theorem OnlyReads.append {a b : Log} (ha : OnlyReads a) (hb : OnlyReads b) : OnlyReads (a ++ b) := by
  intro ev h
  rcases List.mem_append.mp h with h | h
  · exact ha ev h
  · exact hb ev h

theorem OnlyReads.proj {evs : Log} (h : OnlyReads evs) :
    scannedBytes evs = [] ∧ writesOf evs = [] ∧ unprocOf evs = [] := by
  induction evs with
  | nil => exact ⟨rfl, rfl, rfl⟩
  | cons x t ih =>
    have hx := h x (by simp)
    have ht := ih (fun ev hev => h ev (by simp [hev]))
    cases x with
    | read a b g e => simpa [scannedBytes, writesOf, unprocOf] using ht
    | scanned d b => simp [Ev.isRead] at hx
    | write d => simp [Ev.isRead] at hx

theorem OnlyReads.pre {evs pre post : Log} {ev : Ev} (h : OnlyReads evs) (heq : evs = pre ++ ev :: post) :
    OnlyReads pre := by
  intro x hx
  exact h x (by rw [heq]; simp [hx])

/-! ### properties indexed by the history before an event -/

/-- `P pre ev` holds for every event `ev` of the log, `pre` being the events before it -/
def AllPre (P : Log → Ev → Prop) (evs : Log) : Prop :=
  ∀ pre ev post, evs = pre ++ ev :: post → P pre ev

theorem AllPre.nil (P : Log → Ev → Prop) : AllPre P [] := by
  intro pre ev post h; simp at h

theorem AllPre.cons {P : Log → Ev → Prop} {x : Ev} {xs : Log} (h0 : P [] x)
    (h : AllPre (fun pre ev => P (x :: pre) ev) xs) : AllPre P (x :: xs) := by
  intro pre ev post heq
  cases pre with
  | nil =>
    simp at heq
    rw [← heq.1]; exact h0
  | cons y pre' =>
    simp at heq
    obtain ⟨rfl, heq⟩ := heq
    exact h pre' ev post heq

theorem AllPre.append {P : Log → Ev → Prop} {a b : Log} (ha : AllPre P a)
    (hb : AllPre (fun pre ev => P (a ++ pre) ev) b) : AllPre P (a ++ b) := by
  induction a generalizing P with
  | nil => simpa using hb
  | cons x t ih =>
    refine AllPre.cons (ha [] x t rfl) (ih (P := fun pre ev => P (x :: pre) ev) ?_ ?_)
    · intro pre ev post heq
      exact ha (x :: pre) ev post (by simp [heq])
    · exact hb

theorem AllPre.mono {P Q : Log → Ev → Prop} {evs : Log} (h : AllPre P evs)
    (hpq : ∀ pre ev, P pre ev → Q pre ev) : AllPre Q evs :=
  fun pre ev post heq => hpq pre ev (h pre ev post heq)

theorem AllPre.single {P : Log → Ev → Prop} {x : Ev} (h : P [] x) : AllPre P [x] :=
  AllPre.cons h (AllPre.nil _)

/-! ### the reader: every `Read` is issued without a complete line in hand -/

/-- at a `Read` issued by a reader that held `base` when the log started: what it holds now
(`acc ++ buf`) is `base` plus what was delivered since, and contains no newline -/
def RdOK (base : Bytes) (pre : Log) (ev : Ev) : Prop :=
  ∀ a b g e, ev = .read a b g e →
    a ++ b = base ++ delivered pre ∧ (10 : UInt8) ∉ b ∧ (10 : UInt8) ∉ a

theorem fillLoopT_spec (N : Nat) (acc : Bytes) (k : Nat) (r : Rd)
    (ha : (10 : UInt8) ∉ acc) (hb : (10 : UInt8) ∉ r.buf) :
    OnlyReads (fillLoopT N acc k r).2 ∧ AllPre (RdOK (acc ++ r.buf)) (fillLoopT N acc k r).2 ∧
    (fillLoopT N acc k r).1.buf = r.buf ++ delivered (fillLoopT N acc k r).2 := by
  induction k generalizing r with
  | zero =>
    simp only [fillLoopT]
    exact ⟨OnlyReads.nil, AllPre.nil _, by simp [delivered]⟩
  | succ k ih =>
    rcases hrd : r.src.read (N - r.buf.length) with ⟨c, e, s'⟩
    have h0 : ∀ e', RdOK (acc ++ r.buf) [] (.read acc r.buf c e') := by
      intro e' a b g e h
      simp only [Ev.read.injEq] at h
      obtain ⟨rfl, rfl, rfl, rfl⟩ := h
      exact ⟨by simp [delivered], hb, ha⟩
    simp only [fillLoopT, hrd]
    cases e with
    | some x =>
      refine ⟨?_, AllPre.single (h0 _), by simp [delivered]⟩
      intro ev hev; simp at hev; subst hev; rfl
    | none =>
      dsimp only
      split
      · refine ⟨?_, AllPre.single (h0 _), by simp [delivered]⟩
        intro ev hev; simp at hev; subst hev; rfl
      · rename_i hc
        have hc0 : c = [] := by
          cases c with
          | nil => rfl
          | cons a t => simp at hc
        subst hc0
        have ih' := ih { r with buf := r.buf ++ [], src := s' } (by simpa using hb)
        simp only [List.append_nil] at ih' ⊢
        obtain ⟨i1, i2, i3⟩ := ih'
        refine ⟨?_, AllPre.cons (h0 _) (i2.mono ?_), ?_⟩
        · intro ev hev
          simp at hev
          rcases hev with rfl | hev
          · rfl
          · exact i1 ev hev
        · intro pre ev hp a b g e hev
          have := hp a b g e hev
          simpa [delivered] using this
        · rw [i3]; simp [delivered]

theorem fillT_spec (N retry : Nat) (acc : Bytes) (r : Rd)
    (ha : (10 : UInt8) ∉ acc) (hb : (10 : UInt8) ∉ r.buf) :
    OnlyReads (fillT N retry acc r).2 ∧ AllPre (RdOK (acc ++ r.buf)) (fillT N retry acc r).2 ∧
    ∀ r', (fillT N retry acc r).1 = .ok r' → r'.buf = r.buf ++ delivered (fillT N retry acc r).2 := by
  simp only [fillT]
  split
  · exact ⟨OnlyReads.nil, AllPre.nil _, by simp⟩
  · obtain ⟨i1, i2, i3⟩ := fillLoopT_spec N acc retry r ha hb
    refine ⟨i1, i2, ?_⟩
    intro r' h
    simp only [Except.ok.injEq] at h
    rw [← h]; exact i3

theorem RdOK.shift {acc buf buf' : Bytes} {evs : Log} (h : buf' = buf ++ delivered evs)
    {pre : Log} {ev : Ev} (hp : RdOK (acc ++ buf') pre ev) : RdOK (acc ++ buf) (evs ++ pre) ev := by
  intro a b g e hev
  obtain ⟨h1, h2, h3⟩ := hp a b g e hev
  refine ⟨?_, h2, h3⟩
  rw [h1, h, delivered_append]
  simp

theorem readSliceT_spec (N retry : Nat) (acc : Bytes) (fuel : Nat) (r : Rd)
    (ha : (10 : UInt8) ∉ acc) :
    OnlyReads (readSliceT N retry acc fuel r).2 ∧
    AllPre (RdOK (acc ++ r.buf)) (readSliceT N retry acc fuel r).2 ∧
    ∀ f e r', (readSliceT N retry acc fuel r).1 = some (.ok (f, e, r')) →
      f ++ r'.buf = r.buf ++ delivered (readSliceT N retry acc fuel r).2 ∧
      (e = some .bufferFull → (10 : UInt8) ∉ f ∧ r'.buf = []) := by
  induction fuel generalizing r with
  | zero =>
    simp only [readSliceT]
    exact ⟨OnlyReads.nil, AllPre.nil _, by simp⟩
  | succ fuel ih =>
    rw [readSliceT]
    cases hc : cutNL r.buf with
    | some v =>
      obtain ⟨l, rest⟩ := v
      refine ⟨OnlyReads.nil, AllPre.nil _, ?_⟩
      intro f e r' h
      simp only [Option.some.injEq, Except.ok.injEq, Prod.mk.injEq] at h
      obtain ⟨rfl, rfl, rfl⟩ := h
      obtain ⟨p, _, _, hbuf⟩ := cutNL_some_spec hc
      exact ⟨by simp [delivered, hbuf], by simp⟩
    | none =>
      have hb := (cutNL_none_iff r.buf).mp hc
      dsimp only
      cases he : r.err with
      | some x =>
        refine ⟨OnlyReads.nil, AllPre.nil _, ?_⟩
        intro f e r' h
        simp only [Option.some.injEq, Except.ok.injEq, Prod.mk.injEq] at h
        obtain ⟨rfl, rfl, rfl⟩ := h
        exact ⟨by simp [delivered], by simp⟩
      | none =>
        dsimp only
        by_cases hN : r.buf.length = N
        · rw [if_pos hN]
          refine ⟨OnlyReads.nil, AllPre.nil _, ?_⟩
          intro f e r' h
          simp only [Option.some.injEq, Except.ok.injEq, Prod.mk.injEq] at h
          obtain ⟨rfl, rfl, rfl⟩ := h
          exact ⟨by simp [delivered], fun _ => ⟨hb, rfl⟩⟩
        · rw [if_neg hN]
          obtain ⟨f1, f2, f3⟩ := fillT_spec N retry acc r ha hb
          rcases hft : fillT N retry acc r with ⟨res, evs⟩
          rw [hft] at f1 f2 f3
          simp only at f1 f2 f3
          cases res with
          | error p => exact ⟨f1, f2, by simp⟩
          | ok r1 =>
            dsimp only
            have hr1 := f3 r1 rfl
            obtain ⟨i1, i2, i3⟩ := ih r1
            refine ⟨f1.append i1, AllPre.append f2 (i2.mono fun pre ev hp => RdOK.shift hr1 hp), ?_⟩
            intro f e r' h
            obtain ⟨j1, j2⟩ := i3 f e r' h
            refine ⟨?_, j2⟩
            rw [j1, hr1, delivered_append]
            simp

theorem RdOK.shift' {base base' : Bytes} {evs : Log} (h : base' = base ++ delivered evs)
    {pre : Log} {ev : Ev} (hp : RdOK base' pre ev) : RdOK base (evs ++ pre) ev := by
  intro a b g e hev
  obtain ⟨h1, h2, h3⟩ := hp a b g e hev
  refine ⟨?_, h2, h3⟩
  rw [h1, h, delivered_append]
  simp

theorem readLineT_spec (N retry : Nat) (fuel : Nat) (acc : Bytes) (r : Rd)
    (ha : (10 : UInt8) ∉ acc) :
    OnlyReads (readLineT N retry fuel acc r).2 ∧
    AllPre (RdOK (acc ++ r.buf)) (readLineT N retry fuel acc r).2 ∧
    ∀ d e r', (readLineT N retry fuel acc r).1 = some (.ok (d, e, r')) →
      d ++ r'.buf = acc ++ r.buf ++ delivered (readLineT N retry fuel acc r).2 := by
  induction fuel generalizing acc r with
  | zero =>
    simp only [readLineT]
    exact ⟨OnlyReads.nil, AllPre.nil _, by simp⟩
  | succ fuel ih =>
    rw [readLineT]
    obtain ⟨f1, f2, f3⟩ := readSliceT_spec N retry acc (N + 2) r ha
    rcases hst : readSliceT N retry acc (N + 2) r with ⟨res, evs⟩
    rw [hst] at f1 f2 f3
    simp only at f1 f2 f3
    cases res with
    | none => exact ⟨f1, f2, by simp⟩
    | some x =>
      cases x with
      | error p => exact ⟨f1, f2, by simp⟩
      | ok v =>
        obtain ⟨f, e, r1⟩ := v
        obtain ⟨g1, g2⟩ := f3 f e r1 rfl
        cases e with
        | none =>
          refine ⟨f1, f2, ?_⟩
          intro d e r' h
          simp only [Option.some.injEq, Except.ok.injEq, Prod.mk.injEq] at h
          obtain ⟨rfl, rfl, rfl⟩ := h
          rw [List.append_assoc, g1, List.append_assoc]
        | some se =>
          cases se with
          | rerr x =>
            refine ⟨f1, f2, ?_⟩
            intro d e r' h
            simp only [Option.some.injEq, Except.ok.injEq, Prod.mk.injEq] at h
            obtain ⟨rfl, rfl, rfl⟩ := h
            rw [List.append_assoc, g1, List.append_assoc]
          | bufferFull =>
            dsimp only
            obtain ⟨k1, k2⟩ := g2 rfl
            have ha' : (10 : UInt8) ∉ acc ++ f := by simp [ha, k1]
            obtain ⟨i1, i2, i3⟩ := ih (acc ++ f) r1 ha'
            have hbase : acc ++ f ++ r1.buf = acc ++ r.buf ++ delivered evs := by
              rw [List.append_assoc, g1, List.append_assoc]
            refine ⟨f1.append i1, AllPre.append f2 (i2.mono fun pre ev hp => RdOK.shift' hbase hp), ?_⟩
            intro d e r' h
            rw [i3 d e r' h, hbase, delivered_append]
            simp

/-! ### the loop -/

/-- the invariant at a `Read` of the loop; `pre` = the events since the loop started with a
reader holding `base`: everything delivered so far has been handed to `scan`, except
`acc ++ buf`, which contains no newline; and every line `scan` did not process has been
written -/
def LoopOK (base : Bytes) (pre : Log) (ev : Ev) : Prop :=
  ∀ a b g e, ev = .read a b g e →
    scannedBytes pre ++ a ++ b = base ++ delivered pre ∧ (10 : UInt8) ∉ b ∧ (10 : UInt8) ∉ a ∧
    writesOf pre = unprocOf pre

theorem LoopOK.of_reads {base : Bytes} {evs : Log} (h1 : OnlyReads evs) (h2 : AllPre (RdOK base) evs) :
    AllPre (LoopOK base) evs := by
  intro pre ev post heq a b g e hev
  obtain ⟨k1, k2, k3⟩ := h2 pre ev post heq a b g e hev
  obtain ⟨p1, p2, p3⟩ := (h1.pre heq).proj
  exact ⟨by rw [p1, List.nil_append, k1], k2, k3, by rw [p2, p3]⟩

theorem LoopOK.shift {base base' : Bytes} {mid : Log}
    (h1 : scannedBytes mid ++ base' = base ++ delivered mid) (h2 : writesOf mid = unprocOf mid)
    {pre : Log} {ev : Ev} (hp : LoopOK base' pre ev) : LoopOK base (mid ++ pre) ev := by
  intro a b g e hev
  obtain ⟨k1, k2, k3, k4⟩ := hp a b g e hev
  refine ⟨?_, k2, k3, by rw [writesOf_append, unprocOf_append, h2, k4]⟩
  rw [scannedBytes_append, delivered_append, ← List.append_assoc, ← h1]
  simp only [List.append_assoc] at k1 ⊢
  rw [k1]

theorem LoopOK.scanned (base : Bytes) (pre : Log) (d : Bytes) (b : Bool) :
    LoopOK base pre (.scanned d b) := by
  intro _ _ _ _ h; cases h

theorem LoopOK.write (base : Bytes) (pre : Log) (d : Bytes) : LoopOK base pre (.write d) := by
  intro _ _ _ _ h; cases h

theorem scanBT_spec (N retry : Nat) (fuel : Nat) (s : S) (fwd : Bytes) (cons : List Bytes) (rd : Rd) :
    AllPre (LoopOK rd.buf) (scanBT N retry fuel s fwd cons rd).2 := by
  induction fuel generalizing s fwd cons rd with
  | zero => exact AllPre.nil _
  | succ fuel ih =>
    rw [scanBT]
    by_cases hd : (s.st == .done) = true
    · rw [if_pos hd]; exact AllPre.nil _
    · rw [if_neg hd]
      obtain ⟨r1, r2, r3⟩ := readLineT_spec N retry (lineFuel rd) [] rd (by simp)
      rcases hst : readLineT N retry (lineFuel rd) [] rd with ⟨res, evs⟩
      rw [hst] at r1 r2 r3
      simp only [List.nil_append] at r1 r2 r3
      have hreads : AllPre (LoopOK rd.buf) evs := LoopOK.of_reads r1 r2
      obtain ⟨p1, p2, p3⟩ := r1.proj
      cases res with
      | none => exact hreads
      | some x =>
        cases x with
        | error p => exact hreads
        | ok v =>
          obtain ⟨d, e, rd'⟩ := v
          have hd' := r3 d e rd' rfl
          dsimp only
          by_cases hlen : (d.length != 0) = true
          · rw [if_pos hlen]
            cases hsc : scanBytes s d with
            | error p => exact hreads
            | ok v =>
              obtain ⟨s', l, e1⟩ := v
              dsimp only
              by_cases hl : (!l) = true
              · rw [if_pos hl]
                by_cases hlk : (s'.st != .looking) = true
                · rw [if_pos hlk]
                  exact AllPre.append hreads (AllPre.single (LoopOK.scanned _ _ _ _))
                · rw [if_neg hlk]
                  by_cases herr : (combineErr e e1).isSome = true
                  · rw [if_pos herr]
                    exact AllPre.append hreads
                      (AllPre.cons (LoopOK.scanned _ _ _ _) (AllPre.single (LoopOK.write _ _ _)))
                  · rw [if_neg herr]
                    dsimp only
                    have hmid : evs ++ .scanned d false :: .write d :: (scanBT N retry fuel s' (fwd ++ d) cons rd').2
                        = (evs ++ [.scanned d false, .write d]) ++ (scanBT N retry fuel s' (fwd ++ d) cons rd').2 := by
                      simp
                    rw [hmid]
                    refine AllPre.append
                      (AllPre.append hreads
                        (AllPre.cons (LoopOK.scanned _ _ _ _) (AllPre.single (LoopOK.write _ _ _))))
                      ((ih s' (fwd ++ d) cons rd').mono fun pre ev hp => LoopOK.shift ?_ ?_ hp)
                    · rw [scannedBytes_append, delivered_append, p1]
                      simp [scannedBytes, delivered, hd']
                    · rw [writesOf_append, unprocOf_append, p2, p3]
                      simp [writesOf, unprocOf]
              · rw [if_neg hl]
                have hl' : l = true := by simpa using hl
                subst hl'
                by_cases herr : (combineErr e e1).isSome = true
                · rw [if_pos herr]
                  exact AllPre.append hreads (AllPre.single (LoopOK.scanned _ _ _ _))
                · rw [if_neg herr]
                  dsimp only
                  have hmid : evs ++ .scanned d true :: (scanBT N retry fuel s' fwd (cons ++ [d]) rd').2
                      = (evs ++ [.scanned d true]) ++ (scanBT N retry fuel s' fwd (cons ++ [d]) rd').2 := by
                    simp
                  rw [hmid]
                  refine AllPre.append
                    (AllPre.append hreads (AllPre.single (LoopOK.scanned _ _ _ _)))
                    ((ih s' fwd (cons ++ [d]) rd').mono fun pre ev hp => LoopOK.shift ?_ ?_ hp)
                  · rw [scannedBytes_append, delivered_append, p1]
                    simp [scannedBytes, delivered, hd']
                  · rw [writesOf_append, unprocOf_append, p2, p3]
                    simp [writesOf, unprocOf]
          · rw [if_neg hlen]
            have h0 := length_eq_nil hlen
            subst h0
            cases e with
            | some r => exact hreads
            | none =>
              dsimp only
              refine AllPre.append hreads
                ((ih s fwd cons rd').mono fun pre ev hp => LoopOK.shift ?_ ?_ hp)
              · rw [p1]; simpa using hd'
              · rw [p2, p3]

/-! ### one `fill` = empty reads, then at most one productive read -/

theorem fillLoopT_shape (N : Nat) (acc : Bytes) (k : Nat) (r : Rd) :
    ∃ n last, (fillLoopT N acc k r).2 = List.replicate n (.read acc r.buf [] none) ++ last ∧
      ((last = [] ∧ n = k ∧ (fillLoopT N acc k r).1.err = some .noProgress) ∨
       (n < k ∧ ∃ c e, last = [.read acc r.buf c e] ∧ (c ≠ [] ∨ e ≠ none))) := by
  induction k generalizing r with
  | zero => exact ⟨0, [], rfl, Or.inl ⟨rfl, rfl, rfl⟩⟩
  | succ k ih =>
    rcases hrd : r.src.read (N - r.buf.length) with ⟨c, e, s'⟩
    simp only [fillLoopT, hrd]
    cases e with
    | some x =>
      exact ⟨0, [.read acc r.buf c (some x)], rfl, Or.inr ⟨by omega, c, some x, rfl, Or.inr (by simp)⟩⟩
    | none =>
      dsimp only
      split
      · rename_i hc
        refine ⟨0, [.read acc r.buf c none], rfl, Or.inr ⟨by omega, c, none, rfl, Or.inl ?_⟩⟩
        intro h0; subst h0; simp at hc
      · rename_i hc
        have hc0 : c = [] := by
          cases c with
          | nil => rfl
          | cons a t => simp at hc
        subst hc0
        have ih' := ih { r with buf := r.buf ++ [], src := s' }
        simp only [List.append_nil] at ih' ⊢
        obtain ⟨n, last, i1, i2⟩ := ih'
        refine ⟨n + 1, last, by rw [i1, List.replicate_succ]; rfl, ?_⟩
        rcases i2 with ⟨j1, j2, j3⟩ | ⟨j1, j2⟩
        · exact Or.inl ⟨j1, by omega, j3⟩
        · exact Or.inr ⟨by omega, j2⟩

theorem filter_productive_replicate (n : Nat) (a b : Bytes) :
    (List.replicate n (Ev.read a b [] none)).filter Ev.isProductiveRead = [] := by
  induction n with
  | zero => rfl
  | succ n ih => rw [List.replicate_succ, List.filter_cons]; simp [Ev.isProductiveRead, ih]

/-! ### where the log ends -/

theorem scanBT_ends (N retry : Nat) (fuel : Nat) (s : S) (fwd : Bytes) (cons : List Bytes) (rd : Rd)
    (o : OutB) (h : (scanBT N retry fuel s fwd cons rd).1 = some o)
    (hterm : o.suffix.isSome = true ∨ o.s.st = .done) :
    (s.st = .done ∧ (scanBT N retry fuel s fwd cons rd).2 = []) ∨
    ∃ pre d b, (scanBT N retry fuel s fwd cons rd).2 = pre ++ [.scanned d b] := by
  induction fuel generalizing s fwd cons rd with
  | zero => simp [scanBT] at h
  | succ fuel ih =>
    rw [scanBT] at h ⊢
    by_cases hd : (s.st == .done) = true
    · rw [if_pos hd]; exact Or.inl ⟨by simpa using hd, rfl⟩
    · rw [if_neg hd] at h ⊢
      have hd' : s.st ≠ .done := by simpa using hd
      right
      rcases hst : readLineT N retry (lineFuel rd) [] rd with ⟨res, evs⟩
      rw [hst] at h
      cases res with
      | none => simp at h
      | some x =>
        cases x with
        | error p =>
          simp only [Option.some.injEq] at h
          subst h
          simp at hterm
          exact absurd hterm hd'
        | ok v =>
          obtain ⟨d, e, rd'⟩ := v
          dsimp only at h ⊢
          by_cases hlen : (d.length != 0) = true
          · rw [if_pos hlen] at h ⊢
            cases hsc : scanBytes s d with
            | error p =>
              rw [hsc] at h
              simp only [Option.some.injEq] at h
              subst h
              simp at hterm
              exact absurd hterm hd'
            | ok v =>
              obtain ⟨s', l, e1⟩ := v
              rw [hsc] at h
              dsimp only at h ⊢
              by_cases hl : (!l) = true
              · rw [if_pos hl] at h ⊢
                by_cases hlk : (s'.st != .looking) = true
                · rw [if_pos hlk]
                  exact ⟨evs, d, false, rfl⟩
                · rw [if_neg hlk] at h ⊢
                  have hlk' : s'.st = .looking := by simpa using hlk
                  by_cases herr : (combineErr e e1).isSome = true
                  · rw [if_pos herr] at h
                    simp only [Option.some.injEq] at h
                    subst h
                    simp [hlk'] at hterm
                  · rw [if_neg herr] at h ⊢
                    dsimp only at h ⊢
                    rcases ih _ _ _ _ h with ⟨h0, _⟩ | ⟨pre, d2, b2, h2⟩
                    · rw [hlk'] at h0; simp at h0
                    · exact ⟨evs ++ .scanned d false :: .write d :: pre, d2, b2, by rw [h2]; simp⟩
              · rw [if_neg hl] at h ⊢
                have hl' : l = true := by simpa using hl
                subst hl'
                by_cases herr : (combineErr e e1).isSome = true
                · rw [if_pos herr]
                  exact ⟨evs, d, true, rfl⟩
                · rw [if_neg herr] at h ⊢
                  dsimp only at h ⊢
                  rcases ih _ _ _ _ h with ⟨_, h0⟩ | ⟨pre, d2, b2, h2⟩
                  · rw [h0]; exact ⟨evs, d, true, rfl⟩
                  · exact ⟨evs ++ .scanned d true :: pre, d2, b2, by rw [h2]; simp⟩
          · rw [if_neg hlen] at h ⊢
            cases e with
            | some r =>
              simp only [Option.some.injEq] at h
              subst h
              simp at hterm
              exact absurd hterm hd'
            | none =>
              dsimp only at h ⊢
              rcases ih _ _ _ _ h with ⟨h0, _⟩ | ⟨pre, d2, b2, h2⟩
              · exact absurd h0 hd'
              · exact ⟨evs ++ pre, d2, b2, by rw [h2]; simp⟩

/-! ### the `write` events are the forwarded output -/

theorem scanBT_writes (N retry : Nat) (fuel : Nat) (s : S) (fwd : Bytes) (cons : List Bytes) (rd : Rd)
    (o : OutB) (h : (scanBT N retry fuel s fwd cons rd).1 = some o) :
    o.fwd = fwd ++ (writesOf (scanBT N retry fuel s fwd cons rd).2).flatten := by
  induction fuel generalizing s fwd cons rd with
  | zero => simp [scanBT] at h
  | succ fuel ih =>
    rw [scanBT] at h ⊢
    by_cases hd : (s.st == .done) = true
    · rw [if_pos hd] at h ⊢
      simp only [Option.some.injEq] at h
      subst h
      simp [writesOf]
    · rw [if_neg hd] at h ⊢
      obtain ⟨r1, _, _⟩ := readLineT_spec N retry (lineFuel rd) [] rd (by simp)
      rcases hst : readLineT N retry (lineFuel rd) [] rd with ⟨res, evs⟩
      rw [hst] at h r1
      have hw : writesOf evs = [] := r1.proj.2.1
      cases res with
      | none => simp at h
      | some x =>
        cases x with
        | error p =>
          simp only [Option.some.injEq] at h
          subst h
          simp [hw]
        | ok v =>
          obtain ⟨d, e, rd'⟩ := v
          dsimp only at h ⊢
          by_cases hlen : (d.length != 0) = true
          · rw [if_pos hlen] at h ⊢
            cases hsc : scanBytes s d with
            | error p =>
              rw [hsc] at h
              simp only [Option.some.injEq] at h
              subst h
              simp [hw]
            | ok v =>
              obtain ⟨s', l, e1⟩ := v
              rw [hsc] at h
              dsimp only at h ⊢
              by_cases hl : (!l) = true
              · rw [if_pos hl] at h ⊢
                by_cases hlk : (s'.st != .looking) = true
                · rw [if_pos hlk] at h ⊢
                  simp only [Option.some.injEq] at h
                  subst h
                  simp [writesOf_append, hw, writesOf]
                · rw [if_neg hlk] at h ⊢
                  by_cases herr : (combineErr e e1).isSome = true
                  · rw [if_pos herr] at h ⊢
                    simp only [Option.some.injEq] at h
                    subst h
                    simp [writesOf_append, hw, writesOf]
                  · rw [if_neg herr] at h ⊢
                    dsimp only at h ⊢
                    rw [ih _ _ _ _ h]
                    simp [writesOf_append, hw, writesOf]
              · rw [if_neg hl] at h ⊢
                by_cases herr : (combineErr e e1).isSome = true
                · rw [if_pos herr] at h ⊢
                  simp only [Option.some.injEq] at h
                  subst h
                  simp [writesOf_append, hw, writesOf]
                · rw [if_neg herr] at h ⊢
                  dsimp only at h ⊢
                  rw [ih _ _ _ _ h]
                  simp [writesOf_append, hw, writesOf]
          · rw [if_neg hlen] at h ⊢
            cases e with
            | some r =>
              simp only [Option.some.injEq] at h
              subst h
              simp [hw]
            | none =>
              dsimp only at h ⊢
              rw [ih _ _ _ _ h]
              simp [writesOf_append, hw]

end Live
end PP
