import PP.Model.Html
/-
Lemmas about the escapers and URL builders of PP/Model/Html.lean.
-/
namespace PP.Html
open PP PP.Bytes

/-- `∀ c : UInt8` is decidable by enumeration. -/
instance decidableForallUInt8 (p : UInt8 → Prop) [DecidablePred p] : Decidable (∀ c, p c) :=
  decidable_of_iff (∀ n : Fin 256, p (UInt8.ofFin n))
    ⟨fun h c => by simpa using h c.toFin, fun h n => h _⟩

/-! ### generic -/

deriving instance DecidableEq for Except

theorem hasPrefix_append_self (p r : Bytes) : hasPrefix (p ++ r) p = true := by
  induction p with
  | nil => cases r <;> simp [hasPrefix]
  | cons a p ih => simp [hasPrefix, ih]

theorem hasPrefix_iff (s p : Bytes) : hasPrefix s p = true ↔ ∃ r, s = p ++ r := by
  induction p generalizing s with
  | nil => cases s <;> simp [hasPrefix]
  | cons a p ih =>
    cases s with
    | nil => simp [hasPrefix]
    | cons b s =>
      simp only [hasPrefix, Bool.and_eq_true, beq_iff_eq, ih, List.cons_append, List.cons.injEq]
      constructor
      · rintro ⟨rfl, r, rfl⟩; exact ⟨r, rfl, rfl⟩
      · rintro ⟨r, rfl, rfl⟩; exact ⟨rfl, r, rfl⟩

theorem all_flatMap {α β} (p : β → Bool) (f : α → List β) (l : List α)
    (h : ∀ a, (f a).all p = true) : (l.flatMap f).all p = true := by
  induction l with
  | nil => simp
  | cons a l ih => simp only [List.flatMap_cons, List.all_append, h a, ih, Bool.and_self]

/-! ### htmlEscaper / attrEscaper -/

/-- the bytes that could open or close markup or an attribute value, and NUL -/
def isMarkupByte (c : UInt8) : Bool := c == 60 || c == 62 || c == 34 || c == 39 || c == 0

/-- the character references html/template's tables produce -/
def entityTails : List Bytes := [b!"amp;", b!"lt;", b!"gt;", b!"#34;", b!"#39;", b!"#43;"]

/-- every `&` starts one of the six character references -/
def ampOK : Bytes → Bool
  | [] => true
  | c :: t => (c != 38 || entityTails.any (hasPrefix t)) && ampOK t

/-- escaped character data: no `<`, `>`, `"`, `'`, NUL, and every `&` starts a reference -/
def textSafe (s : Bytes) : Bool := s.all (fun c => !isMarkupByte c) && ampOK s

def htmlChunk (tbl : UInt8 → Option Bytes) (c : UInt8) : Bytes :=
  match tbl c with | some r => r | none => [c]

theorem htmlReplacer_eq (tbl : UInt8 → Option Bytes) (s : Bytes) :
    htmlReplacer tbl s = s.flatMap (htmlChunk tbl) := rfl

theorem htmlReplacer_nil (tbl : UInt8 → Option Bytes) : htmlReplacer tbl [] = [] := rfl

theorem htmlReplacer_cons (tbl : UInt8 → Option Bytes) (c : UInt8) (s : Bytes) :
    htmlReplacer tbl (c :: s) = htmlChunk tbl c ++ htmlReplacer tbl s := by
  simp [htmlReplacer_eq]

theorem htmlReplacer_append (tbl : UInt8 → Option Bytes) (a b : Bytes) :
    htmlReplacer tbl (a ++ b) = htmlReplacer tbl a ++ htmlReplacer tbl b := by
  simp [htmlReplacer_eq]

set_option maxRecDepth 100000 in
theorem htmlChunk_cases (c : UInt8) :
    (htmlChunk htmlReplacementTable c = [c] ∧ c ≠ 38 ∧ isMarkupByte c = false) ∨
    htmlChunk htmlReplacementTable c = [0xEF, 0xBF, 0xBD] ∨
    htmlChunk htmlReplacementTable c = b!"&#34;" ∨ htmlChunk htmlReplacementTable c = b!"&amp;" ∨
    htmlChunk htmlReplacementTable c = b!"&#39;" ∨ htmlChunk htmlReplacementTable c = b!"&#43;" ∨
    htmlChunk htmlReplacementTable c = b!"&lt;" ∨ htmlChunk htmlReplacementTable c = b!"&gt;" := by
  revert c; decide

set_option maxRecDepth 100000 in
theorem htmlChunk_noMarkup (c : UInt8) :
    (htmlChunk htmlReplacementTable c).all (fun c => !isMarkupByte c) = true := by
  revert c; decide

set_option maxRecDepth 100000 in
theorem htmlChunkNorm_noMarkup (c : UInt8) :
    (htmlChunk htmlNormReplacementTable c).all (fun c => !isMarkupByte c) = true := by
  revert c; decide

theorem ampOK_chunk (c : UInt8) (r : Bytes) (h : ampOK r = true) :
    ampOK (htmlChunk htmlReplacementTable c ++ r) = true := by
  rcases htmlChunk_cases c with ⟨h1, h2, _⟩ | h1 | h1 | h1 | h1 | h1 | h1 | h1
  · rw [h1]; simp [ampOK, h, h2]
  all_goals (rw [h1]; simp [ampOK, entityTails, hasPrefix, h])

theorem ampOK_htmlReplacer (s : Bytes) : ampOK (htmlReplacer htmlReplacementTable s) = true := by
  induction s with
  | nil => rfl
  | cons c s ih => rw [htmlReplacer_cons]; exact ampOK_chunk c _ ih

theorem noMarkup_htmlReplacer (s : Bytes) :
    (htmlReplacer htmlReplacementTable s).all (fun c => !isMarkupByte c) = true := by
  rw [htmlReplacer_eq]; exact all_flatMap _ _ _ htmlChunk_noMarkup

theorem noMarkup_htmlReplacerNorm (s : Bytes) :
    (htmlReplacer htmlNormReplacementTable s).all (fun c => !isMarkupByte c) = true := by
  rw [htmlReplacer_eq]; exact all_flatMap _ _ _ htmlChunkNorm_noMarkup

theorem textSafe_htmlReplacer (s : Bytes) : textSafe (htmlReplacer htmlReplacementTable s) = true := by
  simp [textSafe, noMarkup_htmlReplacer, ampOK_htmlReplacer]

/-! ### urlNormalizer -/

/-- the bytes `processURLOnto(norm)` can emit: ASCII letters and digits,
`- . _ ~`, `! # $ & * + , / : ; = ? @ [ ]` and `%` -/
def urlSafeByte (c : UInt8) : Bool := isAlnum c || urlUnreservedMark c || urlNormReserved c || c == 37

set_option maxRecDepth 100000 in
theorem urlSafeByte_spec (c : UInt8) (h : urlSafeByte c = true) :
    32 < c ∧ c < 127 ∧ c ≠ 34 ∧ c ≠ 39 ∧ c ≠ 60 ∧ c ≠ 62 ∧ c ≠ 96 ∧ c ≠ 92 ∧ c ≠ 40 ∧ c ≠ 41 ∧ isMarkupByte c = false := by
  revert c; decide

set_option maxRecDepth 100000 in
theorem pctLower_safe (c : UInt8) : (pctLower c).all urlSafeByte = true := by
  revert c; decide

theorem urlNormPass_safe (c : UInt8) (t : Bytes) (h : urlNormPass c t = true) : urlSafeByte c = true := by
  unfold urlNormPass at h
  unfold urlSafeByte
  split at h
  · simp [*]
  · split at h
    · simp [*]
    · split at h
      · simp [*]
      · simp [h]

theorem urlNormalizer_all_safe (s : Bytes) : (urlNormalizer s).all urlSafeByte = true := by
  induction s with
  | nil => rfl
  | cons c t ih =>
    unfold urlNormalizer
    rw [List.all_append, ih, Bool.and_true]
    split
    · rename_i h; simp [urlNormPass_safe c t h]
    · exact pctLower_safe c

/-- a byte that is not `%` and passes is copied whatever follows -/
def urlPlainPass (c : UInt8) : Bool := urlNormReserved c || urlUnreservedMark c || isAlnum c

set_option maxRecDepth 100000 in
theorem urlPlainPass_pass (c : UInt8) (h : urlPlainPass c = true) (t : Bytes) : urlNormPass c t = true := by
  have : urlPlainPass c = true → c ≠ 37 := by revert c; decide
  have h37 := this h
  unfold urlNormPass
  unfold urlPlainPass at h
  split
  · rfl
  · split
    · rfl
    · simp [h37]; simp_all

theorem urlNormalizer_prefix (p r : Bytes) (hp : p.all urlPlainPass = true) :
    urlNormalizer (p ++ r) = p ++ urlNormalizer r := by
  induction p with
  | nil => rfl
  | cons c p ih =>
    simp only [List.all_cons, Bool.and_eq_true] at hp
    simp only [List.cons_append, urlNormalizer, urlPlainPass_pass c hp.1, if_true, ih hp.2, List.nil_append]

/-- bytes that `htmlReplacementTable` leaves alone -/
def htmlPlain (c : UInt8) : Bool := (htmlReplacementTable c).isNone

theorem htmlReplacer_prefix (p r : Bytes) (hp : p.all htmlPlain = true) :
    htmlReplacer htmlReplacementTable (p ++ r) = p ++ htmlReplacer htmlReplacementTable r := by
  induction p with
  | nil => rfl
  | cons c p ih =>
    simp only [List.all_cons, Bool.and_eq_true] at hp
    have hc : htmlChunk htmlReplacementTable c = [c] := by
      have := hp.1; unfold htmlPlain at this
      unfold htmlChunk
      cases h : htmlReplacementTable c <;> simp_all
    simp only [List.cons_append, htmlReplacer_cons, hc, ih hp.2, List.nil_append]

set_option maxRecDepth 100000 in
theorem htmlChunk_urlSafe (c : UInt8) (h : urlSafeByte c = true) :
    (htmlChunk htmlReplacementTable c).all urlSafeByte = true := by
  revert c; decide

theorem htmlReplacer_urlSafe (s : Bytes) (h : s.all urlSafeByte = true) :
    (htmlReplacer htmlReplacementTable s).all urlSafeByte = true := by
  induction s with
  | nil => rfl
  | cons c s ih =>
    simp only [List.all_cons, Bool.and_eq_true] at h
    rw [htmlReplacer_cons, List.all_append, htmlChunk_urlSafe c h.1, ih h.2]; rfl

/-! ### net/url -/

/-- bytes `escape(s, encodePath)` / `QueryEscape` can emit -/
def pathSafeByte (c : UInt8) : Bool :=
  isAlnum c || urlUnreservedMark c || c == 36 || c == 38 || c == 43 || c == 44 || c == 47 || c == 58 ||
  c == 59 || c == 61 || c == 64 || c == 37 || c == 42

set_option maxRecDepth 100000 in
theorem pathSafe_urlSafe (c : UInt8) (h : pathSafeByte c = true) : urlSafeByte c = true := by
  revert c; decide

set_option maxRecDepth 100000 in
theorem urlEscape_chunk_safe (m : Enc) (c : UInt8) :
    (if (c == 32 && m == .queryComponent) = true then [43]
     else if shouldEscape c m = true then [37, upperhex (c >>> 4), upperhex (c &&& 15)] else [c]).all pathSafeByte = true := by
  cases m <;> (revert c; decide)

theorem urlEscape_safe (s : Bytes) (m : Enc) : (urlEscape s m).all pathSafeByte = true := by
  unfold urlEscape
  exact all_flatMap _ _ _ (urlEscape_chunk_safe m)

theorem escape_safe (s : Bytes) : (escape s).all pathSafeByte = true := by
  unfold escape escapedPath
  split
  · decide
  · exact urlEscape_safe _ _

theorem queryEscape_safe (s : Bytes) : (queryEscape s).all pathSafeByte = true := urlEscape_safe _ _

/-! ### fixed scheme and host of the built URLs -/

/-- `u` is empty or starts with one of the prefixes -/
def startsWithOneOf (ps : List Bytes) (u : Bytes) : Bool := u.isEmpty || ps.any (hasPrefix u)

def srcSchemes : List Bytes := [pfxGithub, pfxFile]
def pkgSchemes : List Bytes := [pfxGolangPkg, pfxGodoc, pfxPkgGoDev]

theorem startsWith_github (x : Bytes) : startsWithOneOf srcSchemes (pfxGithub ++ x) = true := by
  simp [startsWithOneOf, srcSchemes, hasPrefix_append_self]

theorem startsWith_file (x : Bytes) : startsWithOneOf srcSchemes (pfxFile ++ x) = true := by
  simp [startsWithOneOf, srcSchemes, hasPrefix_append_self]

theorem fileURL_scheme (c : Call) (t : Bytes) : startsWithOneOf srcSchemes (fileURL c t).1 = true := by
  unfold fileURL
  split
  · exact startsWith_file _
  · split
    · exact startsWith_file _
    · rfl

theorem githubURL_scheme (rest : Bytes) (line : Nat) (ut : Bytes × Bytes)
    (h : githubURL rest line = some ut) : startsWithOneOf srcSchemes ut.1 = true := by
  unfold githubURL at h
  split at h
  · injection h with h; subst h
    simp only [List.append_assoc]; exact startsWith_github _
  · cases h

theorem golangURL_scheme (rest : Bytes) (line : Nat) (ut : Bytes × Bytes)
    (h : golangURL rest line = some ut) : startsWithOneOf srcSchemes ut.1 = true := by
  unfold golangURL at h
  split at h
  · split at h
    · injection h with h; subst h
      simp only [List.append_assoc]; exact startsWith_github _
    · cases h
  · cases h

theorem getD_scheme (o : Option (Bytes × Bytes)) (d : Bytes × Bytes)
    (ho : ∀ ut, o = some ut → startsWithOneOf srcSchemes ut.1 = true)
    (hd : startsWithOneOf srcSchemes d.1 = true) : startsWithOneOf srcSchemes (o.getD d).1 = true := by
  cases o with
  | none => exact hd
  | some ut => exact ho ut rfl

theorem nonStdlibURL_scheme (c : Call) : startsWithOneOf srcSchemes (nonStdlibURL c).1 = true := by
  unfold nonStdlibURL
  split
  · simp only []
    split
    · exact getD_scheme _ _ (githubURL_scheme _ _) (fileURL_scheme _ _)
    · split
      · exact getD_scheme _ _ (golangURL_scheme _ _) (fileURL_scheme _ _)
      · exact fileURL_scheme _ _
  · exact fileURL_scheme _ _

theorem stdlibURL_scheme (v : Bytes) (c : Call) : startsWithOneOf srcSchemes (stdlibURL v c) = true := by
  unfold stdlibURL; simp only [List.append_assoc]; exact startsWith_github _

theorem getSrcBranchURL_scheme (ver : Bytes) (c : Call) (ut : Bytes × Bytes)
    (h : getSrcBranchURL ver c = .ok ut) : startsWithOneOf srcSchemes ut.1 = true := by
  unfold getSrcBranchURL at h
  split at h
  · split at h
    · cases h
    · injection h with h; subst h; exact stdlibURL_scheme _ _
  · injection h with h; subst h; exact nonStdlibURL_scheme c

theorem srcURL_scheme (ver : Bytes) (c : Call) (u : Bytes) (h : srcURL ver c = .ok u) :
    startsWithOneOf srcSchemes u = true := by
  unfold srcURL at h
  cases hg : getSrcBranchURL ver c with
  | error e => rw [hg] at h; cases h
  | ok ut =>
    rw [hg] at h
    simp only [Except.map] at h
    injection h with h; subst h
    exact getSrcBranchURL_scheme ver c ut hg

theorem pkgSite_mem (ver : Bytes) (c : Call) (u : Bytes) (h : pkgSite ver c = .ok u) : u ∈ pkgSchemes := by
  unfold pkgSite at h
  split at h
  · injection h with h; subst h; simp [pkgSchemes]
  · split at h
    · cases h
    · split at h <;> (injection h with h; subst h; simp [pkgSchemes])

theorem startsWith_pkg (p x : Bytes) (hp : p ∈ pkgSchemes) : startsWithOneOf pkgSchemes (p ++ x) = true := by
  simp only [startsWithOneOf, Bool.or_eq_true, List.any_eq_true]
  exact Or.inr ⟨p, hp, hasPrefix_append_self p x⟩

theorem pkgURL_scheme (ver : Bytes) (c : Call) (u : Bytes) (h : pkgURL ver c = .ok u) :
    startsWithOneOf pkgSchemes u = true := by
  unfold pkgURL at h
  simp only [] at h
  split at h
  · injection h with h; subst h; rfl
  · split at h
    · cases h
    · rename_i site hs
      split at h <;> (injection h with h; subst h; try simp only [List.append_assoc]) <;> exact startsWith_pkg _ _ (pkgSite_mem ver c site hs)

/-! ### the href hole -/

theorem renderHole_href (v : Bytes) : renderHole .href v = .ok (attrEscaper (urlNormalizer v)) := rfl

theorem hrefHole_all_safe (v : Bytes) : (attrEscaper (urlNormalizer v)).all urlSafeByte = true :=
  htmlReplacer_urlSafe _ (urlNormalizer_all_safe v)

theorem hrefHole_ampOK (v : Bytes) : ampOK (attrEscaper (urlNormalizer v)) = true := ampOK_htmlReplacer _

theorem hrefHole_prefix (ps : List Bytes) (hps : ∀ p ∈ ps, p.all urlPlainPass = true ∧ p.all htmlPlain = true)
    (v : Bytes) (h : startsWithOneOf ps v = true) : startsWithOneOf ps (attrEscaper (urlNormalizer v)) = true := by
  simp only [startsWithOneOf, Bool.or_eq_true, List.any_eq_true, List.isEmpty_iff] at h ⊢
  rcases h with rfl | ⟨p, hp, hpre⟩
  · left; rfl
  · right
    obtain ⟨x, rfl⟩ := (hasPrefix_iff v p).1 hpre
    refine ⟨p, hp, ?_⟩
    rw [urlNormalizer_prefix p x (hps p hp).1]
    unfold attrEscaper
    rw [htmlReplacer_prefix p _ (hps p hp).2]
    exact hasPrefix_append_self _ _

theorem srcSchemes_plain : ∀ p ∈ srcSchemes, p.all urlPlainPass = true ∧ p.all htmlPlain = true := by decide
theorem pkgSchemes_plain : ∀ p ∈ pkgSchemes, p.all urlPlainPass = true ∧ p.all htmlPlain = true := by decide

/-! ### bytes of the built URLs -/

theorem natToDec_safe (n : Nat) : (natToDec n).all pathSafeByte = true := by
  unfold natToDec
  rw [List.all_map, List.all_eq_true]
  intro c hc
  have hd := Nat.isDigit_of_mem_toDigits (by decide) (by decide) hc
  simp only [Char.isDigit, Bool.and_eq_true, decide_eq_true_eq] at hd
  have h1 : 48 ≤ c.toNat := by
    have := hd.1; simpa [UInt32.le_iff_toNat_le] using this
  have h2 : c.toNat ≤ 57 := by
    have := hd.2; simpa [UInt32.le_iff_toNat_le] using this
  have : c.toNat = 48 ∨ c.toNat = 49 ∨ c.toNat = 50 ∨ c.toNat = 51 ∨ c.toNat = 52 ∨ c.toNat = 53 ∨
      c.toNat = 54 ∨ c.toNat = 55 ∨ c.toNat = 56 ∨ c.toNat = 57 := by omega
  simp only [Function.comp]
  rcases this with h | h | h | h | h | h | h | h | h | h <;> rw [h] <;> decide

theorem all_mono {p q : UInt8 → Bool} (h : ∀ c, p c = true → q c = true) (s : Bytes) (hs : s.all p = true) :
    s.all q = true := by
  rw [List.all_eq_true] at hs ⊢
  exact fun c hc => h c (hs c hc)

theorem escape_urlSafe (s : Bytes) : (escape s).all urlSafeByte = true :=
  all_mono pathSafe_urlSafe _ (escape_safe s)
theorem queryEscape_urlSafe (s : Bytes) : (queryEscape s).all urlSafeByte = true :=
  all_mono pathSafe_urlSafe _ (queryEscape_safe s)
theorem natToDec_urlSafe (n : Nat) : (natToDec n).all urlSafeByte = true :=
  all_mono pathSafe_urlSafe _ (natToDec_safe n)

theorem cut_all (p : UInt8 → Bool) (s : Bytes) (sep : UInt8) (a b : Bytes)
    (h : cut s sep = some (a, b)) (hs : s.all p = true) : a.all p = true ∧ b.all p = true := by
  induction s generalizing a b with
  | nil => simp [cut] at h
  | cons c t ih =>
    simp only [List.all_cons, Bool.and_eq_true] at hs
    unfold cut at h
    split at h
    · injection h with h; injection h with h1 h2; subst h1; subst h2; exact ⟨rfl, hs.2⟩
    · cases hc : cut t sep with
      | none => rw [hc] at h; cases h
      | some ab =>
        rw [hc] at h
        simp only [Option.map_some] at h
        obtain ⟨x, y⟩ := ab
        have := ih x y hc hs.2
        injection h with h; injection h with h1 h2; subst h1; subst h2
        simp [List.all_cons, hs.1, this.1, this.2]

theorem splitN3_all (p : UInt8 → Bool) (s a b c : Bytes) (h : splitN3 s = some (a, b, c)) (hs : s.all p = true) :
    a.all p = true ∧ b.all p = true ∧ c.all p = true := by
  unfold splitN3 at h
  split at h
  · cases h
  · rename_i a' r h1
    split at h
    · cases h
    · rename_i b' c' h2
      injection h with h; injection h with ha h; injection h with hb hc; subst ha; subst hb; subst hc
      have := cut_all p s 47 _ _ h1 hs
      have h3 := cut_all p _ 47 _ _ h2 this.2
      exact ⟨this.1, h3.1, h3.2⟩

theorem splitHost_all (p : UInt8 → Bool) (s : Bytes) (hs : s.all p = true) :
    (splitHost s).1.all p = true ∧ (splitHost s).2.all p = true := by
  unfold splitHost
  split
  · exact ⟨hs, rfl⟩
  · rename_i a b h; exact cut_all p s 47 a b h hs

theorem afterVendor_all (p : UInt8 → Bool) (s : Bytes) (hs : s.all p = true) : (afterVendor s).all p = true := by
  unfold afterVendor
  split
  · rw [List.all_eq_true] at hs ⊢
    exact fun c hc => hs c (List.mem_of_mem_drop hc)
  · exact hs

/-- the repository name `splitTag` returns is a piece of its input (not escaped) -/
theorem splitTag_fst_all (p : UInt8 → Bool) (s : Bytes) (hs : s.all p = true) : (splitTag s).1.all p = true := by
  unfold splitTag
  split
  · exact hs
  · rename_i a b h; exact (cut_all p s 64 a b h hs).1

theorem splitTag_snd_safe (s : Bytes) : (splitTag s).2.1.all urlSafeByte = true := by
  unfold splitTag
  split
  · show (b!"master").all urlSafeByte = true; decide
  · exact queryEscape_urlSafe _

theorem fileURL_safe (c : Call) (t : Bytes) : (fileURL c t).1.all urlSafeByte = true := by
  unfold fileURL
  split
  · rw [List.all_append, escape_urlSafe]; decide
  · split
    · rw [List.all_append, escape_urlSafe]; decide
    · rfl

theorem stdlibURL_safe (v : Bytes) (c : Call) : (stdlibURL v c).all urlSafeByte = true := by
  unfold stdlibURL
  simp only [List.all_append, escape_urlSafe, queryEscape_urlSafe, natToDec_urlSafe, Bool.and_true]
  decide

theorem githubURL_safe (rest : Bytes) (line : Nat) (ut : Bytes × Bytes) (hr : rest.all urlSafeByte = true)
    (h : githubURL rest line = some ut) : ut.1.all urlSafeByte = true := by
  unfold githubURL at h
  split at h
  · rename_i p0 p1 p2 hs
    injection h with h; subst h
    have h3 := splitN3_all urlSafeByte rest p0 p1 p2 hs hr
    simp only [List.all_append, escape_urlSafe, natToDec_urlSafe, splitTag_snd_safe,
      splitTag_fst_all urlSafeByte p1 h3.2.1, Bool.and_true]
    decide
  · cases h

theorem golangURL_safe (rest : Bytes) (line : Nat) (ut : Bytes × Bytes) (hr : rest.all urlSafeByte = true)
    (h : golangURL rest line = some ut) : ut.1.all urlSafeByte = true := by
  unfold golangURL at h
  split at h
  · rename_i p0 p1 p2 hs
    split at h
    · injection h with h; subst h
      have h3 := splitN3_all urlSafeByte rest p0 p1 p2 hs hr
      simp only [List.all_append, escape_urlSafe, natToDec_urlSafe, splitTag_snd_safe,
        splitTag_fst_all urlSafeByte p1 h3.2.1, Bool.and_true]
      decide
    · cases h
  · cases h

theorem getD_safe (o : Option (Bytes × Bytes)) (d : Bytes × Bytes)
    (ho : ∀ ut, o = some ut → ut.1.all urlSafeByte = true)
    (hd : d.1.all urlSafeByte = true) : (o.getD d).1.all urlSafeByte = true := by
  cases o with
  | none => exact hd
  | some ut => exact ho ut rfl

theorem nonStdlibURL_safe (c : Call) (hr : c.relSrcPath.all urlSafeByte = true) :
    (nonStdlibURL c).1.all urlSafeByte = true := by
  have hv := afterVendor_all urlSafeByte _ hr
  have hh := splitHost_all urlSafeByte _ hv
  unfold nonStdlibURL
  split
  · simp only []
    split
    · exact getD_safe _ _ (fun ut h => githubURL_safe _ _ ut hh.2 h) (fileURL_safe _ _)
    · split
      · exact getD_safe _ _ (fun ut h => golangURL_safe _ _ ut hh.2 h) (fileURL_safe _ _)
      · exact fileURL_safe _ _
  · exact fileURL_safe _ _

theorem srcURL_safe_of_rel (ver : Bytes) (c : Call) (u : Bytes) (h : srcURL ver c = .ok u)
    (hr : c.location = .stdlib ∨ c.relSrcPath.all urlSafeByte = true) : u.all urlSafeByte = true := by
  unfold srcURL at h
  cases hg : getSrcBranchURL ver c with
  | error e => rw [hg] at h; cases h
  | ok ut =>
    rw [hg] at h
    simp only [Except.map] at h
    injection h with h; subst h
    unfold getSrcBranchURL at hg
    split at hg
    · split at hg
      · cases hg
      · injection hg with hg; subst hg; exact stdlibURL_safe _ _
    · rename_i hl
      injection hg with hg; subst hg
      rcases hr with hr | hr
      · rw [hr] at hl; exact absurd rfl hl
      · exact nonStdlibURL_safe c hr

set_option maxRecDepth 100000 in
theorem pkgURL_safe (ver : Bytes) (c : Call) (u : Bytes) (h : pkgURL ver c = .ok u) : u.all urlSafeByte = true := by
  unfold pkgURL at h
  simp only [] at h
  split at h
  · injection h with h; subst h; rfl
  · split at h
    · cases h
    · rename_i site hs
      have hsite : site.all urlSafeByte = true := by
        have := pkgSite_mem ver c site hs
        simp only [pkgSchemes, List.mem_cons, List.not_mem_nil, or_false] at this
        rcases this with rfl | rfl | rfl <;> decide
      split at h <;> (injection h with h; subst h)
      · simp only [List.all_append, hsite, escape_urlSafe, symbol, Bool.and_true, Bool.true_and]
        split <;> simp [queryEscape_urlSafe] <;> decide
      · simp only [List.all_append, hsite, escape_urlSafe, Bool.and_true]

end PP.Html
