import PP.Model.Unicode
/-
Facts about `decodeRune` / `runeCount` (utf8.RuneCountInString): the count is
at most the byte length, and it is additive across a boundary that is followed
by an ASCII byte (an ASCII byte is never part of a longer sequence).
-/
namespace PP
open PP.Bytes

/-! ### width of the first rune -/

theorem decodeRune_width_long (b0 b1 b2 b3 : UInt8) (x y : Bytes) :
    (decodeRune (b0 :: b1 :: b2 :: b3 :: x)).2 = (decodeRune (b0 :: b1 :: b2 :: b3 :: y)).2 := rfl

theorem decodeRune_width_one (b0 : UInt8) : (decodeRune [b0]).2 = 1 := by
  unfold decodeRune
  simp only
  repeat' split
  all_goals rfl

theorem decodeRune_width_1a (b0 c : UInt8) (bt : Bytes) (hc : c.toNat < 0x80) :
    (decodeRune (b0 :: c :: bt)).2 = 1 := by
  unfold decodeRune
  simp only
  repeat' split
  all_goals first | rfl | (simp_all <;> omega)

theorem decodeRune_width_2a (b0 b1 c : UInt8) (bt : Bytes) (hc : c.toNat < 0x80) :
    (decodeRune (b0 :: b1 :: c :: bt)).2 = (decodeRune [b0, b1]).2 := by
  unfold decodeRune
  simp only
  repeat' split
  all_goals first | rfl | (simp_all <;> omega)

theorem decodeRune_width_3a (b0 b1 b2 c : UInt8) (bt : Bytes) (hc : c.toNat < 0x80) :
    (decodeRune (b0 :: b1 :: b2 :: c :: bt)).2 = (decodeRune [b0, b1, b2]).2 := by
  unfold decodeRune
  simp only
  repeat' split
  all_goals first | rfl | (simp_all <;> omega)

/-- `b` is empty or starts with an ASCII byte -/
def AsciiHead (b : Bytes) : Prop := ∀ c t, b = c :: t → c.toNat < 0x80

theorem asciiHead_nil : AsciiHead [] := by intro c t h; cases h
theorem asciiHead_cons (c : UInt8) (t : Bytes) (h : c.toNat < 0x80) : AsciiHead (c :: t) := by
  intro c' t' e; cases e; exact h

/-- what follows an ASCII boundary does not change the width of the first rune -/
theorem decodeRune_width_append (s b : Bytes) (hs : s ≠ []) (hb : AsciiHead b) :
    (decodeRune (s ++ b)).2 = (decodeRune s).2 := by
  cases b with
  | nil => simp
  | cons c bt =>
    have hc : c.toNat < 0x80 := hb c bt rfl
    match s, hs with
    | [b0], _ => simpa [decodeRune_width_one] using decodeRune_width_1a b0 c bt hc
    | [b0, b1], _ => exact decodeRune_width_2a b0 b1 c bt hc
    | [b0, b1, b2], _ => exact decodeRune_width_3a b0 b1 b2 c bt hc
    | b0 :: b1 :: b2 :: b3 :: t, _ => exact decodeRune_width_long b0 b1 b2 b3 _ _

theorem decodeRune_width_pos (c : UInt8) (t : Bytes) : 1 ≤ (decodeRune (c :: t)).2 := by
  unfold decodeRune
  simp only
  repeat' split
  all_goals simp

theorem decodeRune_width_le (s : Bytes) : (decodeRune s).2 ≤ s.length := by
  match s with
  | [] => simp [decodeRune]
  | [b0] => rw [decodeRune_width_one]; simp
  | [b0, b1] =>
    unfold decodeRune
    simp only
    repeat' split
    all_goals simp
  | [b0, b1, b2] =>
    unfold decodeRune
    simp only
    repeat' split
    all_goals simp
  | b0 :: b1 :: b2 :: b3 :: t =>
    unfold decodeRune
    simp only
    repeat' split
    all_goals simp

theorem decodeRune_width_ascii (c : UInt8) (t : Bytes) (hc : c.toNat < 0x80) : (decodeRune (c :: t)).2 = 1 := by
  unfold decodeRune
  simp [hc]

/-! ### runeCount -/

theorem runeCount_go_eq : ∀ (fuel : Nat) (s : Bytes) (n : Nat), s.length ≤ fuel →
    runeCount.go fuel s n = n + runeCount.go s.length s 0 := by
  intro fuel
  induction fuel using Nat.strongRecOn with
  | _ fuel ih =>
    intro s n hle
    cases s with
    | nil => cases fuel <;> simp [runeCount.go]
    | cons c t =>
      cases fuel with
      | zero => simp at hle
      | succ f =>
        have hw := decodeRune_width_pos c t
        have hlen : ((c :: t).drop (max 1 (decodeRune (c :: t)).2)).length ≤ t.length := by
          simp only [List.length_drop, List.length_cons]; omega
        simp only [runeCount.go, List.length_cons]
        rw [ih f (by omega) _ (n + 1) (by simp only [List.length_cons] at hle; omega)]
        rw [ih t.length (by simp only [List.length_cons] at hle; omega) _ 1 hlen]
        omega

theorem runeCount_nil : runeCount [] = 0 := rfl

/-- unfolding equation, without fuel -/
theorem runeCount_cons (c : UInt8) (t : Bytes) :
    runeCount (c :: t) = 1 + runeCount ((c :: t).drop (max 1 (decodeRune (c :: t)).2)) := by
  have hw := decodeRune_width_pos c t
  have hlen : ((c :: t).drop (max 1 (decodeRune (c :: t)).2)).length ≤ t.length := by
    simp only [List.length_drop, List.length_cons]; omega
  show runeCount.go (c :: t).length (c :: t) 0 = 1 + runeCount.go _ _ 0
  simp only [List.length_cons, runeCount.go]
  rw [runeCount_go_eq t.length _ (0 + 1) hlen]

theorem runeCount_le_length : ∀ (n : Nat) (s : Bytes), s.length ≤ n → runeCount s ≤ s.length := by
  intro n
  induction n with
  | zero => intro s h; cases s with
    | nil => simp [runeCount_nil]
    | cons c t => simp at h
  | succ n ih =>
    intro s h
    cases s with
    | nil => simp [runeCount_nil]
    | cons c t =>
      have hw := decodeRune_width_pos c t
      rw [runeCount_cons]
      have := ih ((c :: t).drop (max 1 (decodeRune (c :: t)).2))
        (by simp only [List.length_drop, List.length_cons] at *; omega)
      simp only [List.length_drop, List.length_cons] at *
      omega

theorem runeCount_le (s : Bytes) : runeCount s ≤ s.length := runeCount_le_length s.length s (Nat.le_refl _)

/-- additivity across a boundary followed by an ASCII byte (or the end) -/
theorem runeCount_append_asciiHead : ∀ (n : Nat) (a b : Bytes), a.length ≤ n → AsciiHead b →
    runeCount (a ++ b) = runeCount a + runeCount b := by
  intro n
  induction n with
  | zero => intro a b h _; cases a with
    | nil => simp [runeCount_nil]
    | cons c t => simp at h
  | succ n ih =>
    intro a b h hb
    cases a with
    | nil => simp [runeCount_nil]
    | cons c t =>
      have hw := decodeRune_width_pos c t
      have hle := decodeRune_width_le (c :: t)
      have hwe := decodeRune_width_append (c :: t) b (by simp) hb
      rw [List.cons_append, runeCount_cons, runeCount_cons c t, ← List.cons_append, hwe]
      have hd : (c :: t ++ b).drop (max 1 (decodeRune (c :: t)).2)
          = (c :: t).drop (max 1 (decodeRune (c :: t)).2) ++ b := by
        rw [List.drop_append_of_le_length]
        simp only [List.length_cons] at hle ⊢; omega
      rw [hd, ih _ b (by simp only [List.length_drop, List.length_cons] at *; omega) hb]
      omega

theorem runeCount_append_of_asciiHead (a b : Bytes) (hb : AsciiHead b) :
    runeCount (a ++ b) = runeCount a + runeCount b :=
  runeCount_append_asciiHead a.length a b (Nat.le_refl _) hb

theorem runeCount_ascii_cons (c : UInt8) (t : Bytes) (hc : c.toNat < 0x80) :
    runeCount (c :: t) = 1 + runeCount t := by
  rw [runeCount_cons, decodeRune_width_ascii c t hc]
  simp

theorem runeCount_replicate_space (n : Nat) : runeCount (List.replicate n (32 : UInt8)) = n := by
  induction n with
  | zero => rfl
  | succ n ih => rw [List.replicate_succ, runeCount_ascii_cons _ _ (by decide), ih]; omega

theorem asciiHead_replicate_space_append (n : Nat) (b : Bytes) (hb : AsciiHead b) :
    AsciiHead (List.replicate n (32 : UInt8) ++ b) := by
  cases n with
  | zero => simpa using hb
  | succ n => rw [List.replicate_succ, List.cons_append]; exact asciiHead_cons _ _ (by decide)

/-- text followed by pad spaces: the count is the text's count plus the pad -/
theorem runeCount_append_spaces (a : Bytes) (n : Nat) :
    runeCount (a ++ List.replicate n (32 : UInt8)) = runeCount a + n := by
  rw [runeCount_append_of_asciiHead a _ (by simpa using asciiHead_replicate_space_append n [] asciiHead_nil),
    runeCount_replicate_space]

/-- additivity after a prefix that ends with an ASCII byte -/
theorem runeCount_snoc_ascii_append (a : Bytes) (c : UInt8) (b : Bytes) (hc : c.toNat < 0x80) :
    runeCount (a ++ c :: b) = runeCount (a ++ [c]) + runeCount b := by
  rw [runeCount_append_of_asciiHead a (c :: b) (asciiHead_cons c b hc),
    runeCount_append_of_asciiHead a [c] (asciiHead_cons c [] hc),
    runeCount_ascii_cons c b hc, runeCount_ascii_cons c [] hc, runeCount_nil]
  omega

end PP
