import PP.Spec.TypeAst
/-
Helper definitions and lemmas about `PP.TN.extractArgumentsType`
(PP/Model/TypeNames.lean): the loop in closed form, in terms of
`PP.Spec.usedFields` / `isEllipsis` (PP/Spec/TypeAst.lean).
-/
namespace PP.TN
open PP PP.Bytes PP.Spec

/-- value of the variable `ellipsis` after the loop over `fs` when it was `e`
before -/
def lastFlag : List GoField → Bool → Bool
  | [], e => e
  | f :: fs, _ => lastFlag fs (fieldToType f).2

theorem mult_eq_max (f : GoField) : mult f = max 1 f.names := by
  unfold mult
  split <;> omega

theorem mult_pos (f : GoField) : 1 ≤ mult f := by
  rw [mult_eq_max]; omega

/-- `unparen` of a `paren` node strips it -/
theorem unparen_paren (x : GoExpr) : unparen (.paren x) = unparen x := rfl

/-- the result of `unparen` is not a `*ast.ParenExpr` -/
theorem unparen_ne_paren : ∀ (e y : GoExpr), unparen e ≠ .paren y
  | .paren x, y => unparen_ne_paren x y
  | .ident _, _ => nofun
  | .selector _ _, _ => nofun
  | .star _, _ => nofun
  | .basicLit _, _ => nofun
  | .ellipsis _, _ => nofun
  | .arrayType _ _, _ => nofun
  | .funcType, _ => nofun
  | .interfaceType, _ => nofun
  | .mapType _ _, _ => nofun
  | .chanType _, _ => nofun
  | .other, _ => nofun

theorem unparen_idem : ∀ e : GoExpr, unparen (unparen e) = unparen e
  | .paren x => unparen_idem x
  | .ident _ => rfl
  | .selector _ _ => rfl
  | .star _ => rfl
  | .basicLit _ => rfl
  | .ellipsis _ => rfl
  | .arrayType _ _ => rfl
  | .funcType => rfl
  | .interfaceType => rfl
  | .mapType _ _ => rfl
  | .chanType _ => rfl
  | .other => rfl

/-- Go's `name` switches on `unparen(e)`: the structurally recursive model
agrees with it -/
theorem name_eq_unparen : ∀ e : GoExpr, name e = name (unparen e)
  | .paren x => name_eq_unparen x
  | .ident _ => rfl
  | .selector _ _ => rfl
  | .star _ => rfl
  | .basicLit _ => rfl
  | .ellipsis _ => rfl
  | .arrayType _ _ => rfl
  | .funcType => rfl
  | .interfaceType => rfl
  | .mapType _ _ => rfl
  | .chanType _ => rfl
  | .other => rfl

/-- `fieldToType` reads the type only through `unparen` -/
theorem fieldToType_unparen (n : Nat) (t : GoExpr) : fieldToType ⟨n, t⟩ = fieldToType ⟨n, unparen t⟩ := by
  simp only [fieldToType, unparen_idem]

theorem fieldToType_snd (f : GoField) : (fieldToType f).2 = isEllipsis f.typ := by
  obtain ⟨n, t⟩ := f
  simp only [fieldToType, isEllipsis]
  generalize unparen t = u
  cases u with
  | arrayType len elt => cases len <;> rfl
  | _ => rfl

/-- the result of `fieldToType` does not depend on the names of the field -/
theorem fieldToType_names (n m : Nat) (t : GoExpr) : fieldToType ⟨n, t⟩ = fieldToType ⟨m, t⟩ := rfl

theorem recvFields_append (d : GoFuncDecl) : recvFields d.recv ++ d.params = usedFields d := by
  obtain ⟨recv, params⟩ := d
  cases recv with
  | none => rfl
  | some l =>
    cases l with
    | nil => rfl
    | cons f t =>
      cases t with
      | nil =>
        obtain ⟨n, ty⟩ := f
        simp only [recvFields, usedFields]
        generalize unparen ty = u
        cases u <;> rfl
      | cons g t => rfl

theorem extractLoop_cons (a : GoField) (rest : List GoField) (types : List Bytes) (e : Bool) :
    extractLoop (a :: rest) types e =
      extractLoop rest (types ++ List.replicate (mult a) (fieldToType a).1) (fieldToType a).2 := rfl

theorem extractLoop_eq (fs : List GoField) (types : List Bytes) (e : Bool) :
    extractLoop fs types e =
      (types ++ fs.flatMap (fun f => List.replicate (mult f) (fieldToType f).1), lastFlag fs e) := by
  induction fs generalizing types e with
  | nil => simp [extractLoop, lastFlag]
  | cons a rest ih =>
    rw [extractLoop_cons, ih]
    simp [lastFlag, List.flatMap_cons, List.append_assoc]

theorem lastFlag_getLast? (fs : List GoField) (e : Bool) :
    lastFlag fs e = match fs.getLast? with
      | some f => isEllipsis f.typ
      | none => e := by
  induction fs generalizing e with
  | nil => rfl
  | cons a rest ih =>
    rw [lastFlag, ih]
    cases rest with
    | nil => simp [fieldToType_snd]
    | cons b t =>
      rw [List.getLast?_cons_cons]
      cases h : (b :: t).getLast? with
      | none => simp at h
      | some f => rfl

theorem sum_max_ge_length (fs : List GoField) :
    fs.length ≤ (fs.map (fun f => max 1 f.names)).sum := by
  induction fs with
  | nil => simp
  | cons a t ih => simp only [List.length_cons, List.map_cons, List.sum_cons]; omega

end PP.TN
