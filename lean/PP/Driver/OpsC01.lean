import PP.Driver.Codec
import PP.Spec.Print
import PP.Spec.WF
import PP.Spec.RaceWF
/-
Driver ops of the C01 / C08 specification printer:

* `gen`     : {"cfg":{"crlf","indent","fileIndent"}, "gs":[GSpec…]} → {"text", "gs", "wf"}
              (`wf`: the description lies in the domain `PP.Spec.WF` of the round-trip theorem)
* `genrace` : {"crlf", "ops":[…], "gors":[…]} → {"text", "gs", "wf"}  (`wf` = `PP.Spec.raceWF`)

JSON shape of a description (bytes as hex, like everywhere in the protocol):
  arg   : {"isAgg":bool,"agg":[arg],"elided":bool,"v":nat,"otl":bool,"inacc":bool}
  frame : {"pkg","name","args":[arg],"argsElide","inlined","file","line",
           "off":null|nat,"fp":null|{"fp":nat,"sp":nat,"pc":null|nat}}
  g     : {"id","state","scan","waitMin","locked","gpm":null|{"gp","m","mp":null|hex},
           "unavail","frames":[frame],"elided":-1|0|n,"elidedAt":nat,
           "created":null|frame,"parent":nat (0 = not printed)}
Not part of any proof.
-/
namespace PP.OpsC01
open Lean PP PP.Codec PP.Spec

def optField (j : Json) (k : String) : Option Json :=
  match j.getObjVal? k with
  | .ok Json.null => none
  | .ok v => some v
  | .error _ => none

partial def decArgSpec (j : Json) : Except String ArgSpec := do
  if (← getBool j "isAgg") then
    let fs ← (← getArr j "agg").toList.mapM decArgSpec
    pure (.agg fs (← getBool j "elided"))
  else if (← getBool j "otl") then pure .otl
  else pure (.val (← getNat j "v") (← getBool j "inacc"))

def decFrame (j : Json) : Except String FrameSpec := do
  let off ← match optField j "off" with
    | none => pure none
    | some v => do pure (some (← v.getNat?))
  let fp ← match optField j "fp" with
    | none => pure none
    | some v => do
      let pc ← match optField v "pc" with
        | none => pure none
        | some p => do pure (some (← p.getNat?))
      pure (some (← getNat v "fp", ← getNat v "sp", pc))
  pure { pkg := ← getBytes j "pkg", name := ← getBytes j "name",
         args := ← (← getArr j "args").toList.mapM decArgSpec,
         argsElide := ← getBool j "argsElide", inlined := ← getBool j "inlined",
         file := ← getBytes j "file", line := ← getNat j "line", off := off, fp := fp }

def decG (j : Json) : Except String GSpec := do
  let gpm ← match optField j "gpm" with
    | none => pure none
    | some v => do
      let mp ← match optField v "mp" with
        | none => pure none
        | some p => do pure (some (← ofHex (← p.getStr?)))
      pure (some (← getBytes v "gp", ← getBytes v "m", mp))
  let el ← (← j.getObjVal? "elided").getInt?
  let pos ← getNat j "elidedAt"
  let elided : Option (Option Nat × Nat) :=
    if el < 0 then none else if el = 0 then some (none, pos) else some (some el.toNat, pos)
  let parent ← getNat j "parent"
  let created ← match optField j "created" with
    | none => pure none
    | some v => do pure (some (← decFrame v, if parent = 0 then none else some parent))
  pure { id := ← getNat j "id", state := ← getBytes j "state", scan := ← getBool j "scan",
         waitMin := ← getNat j "waitMin", locked := ← getBool j "locked", gpm := gpm,
         unavail := ← getBool j "unavail", frames := ← (← getArr j "frames").toList.mapM decFrame,
         elided := elided, created := created }

def decCfg (j : Json) : Except String PrintCfg := do
  pure { crlf := ← getBool j "crlf", indent := ← getBytes j "indent", fileIndent := ← getBytes j "fileIndent" }

def decRaceOp (j : Json) : Except String RaceOp := do
  pure { write := ← getBool j "write", addr := ← getNat j "addr", id := ← getNat j "id",
         frames := ← (← getArr j "frames").toList.mapM decFrame }

def decRaceGor (j : Json) : Except String RaceGor := do
  pure { id := ← getNat j "id", finished := ← getBool j "finished",
         frames := ← (← getArr j "frames").toList.mapM decFrame }

def handle (op : String) (j : Json) : Option (Except String Json) :=
  match op with
  | "gen" => some do
    let cfg ← decCfg (← j.getObjVal? "cfg")
    let gs ← (← getArr j "gs").toList.mapM decG
    pure (Json.mkObj [("text", jBytes (printDump cfg gs)), ("gs", encGs (expected gs)),
      ("wf", Json.bool (WF cfg gs))])
  | "genrace" => some do
    let crlf ← getBool j "crlf"
    let ops ← (← getArr j "ops").toList.mapM decRaceOp
    let gors ← (← getArr j "gors").toList.mapM decRaceGor
    let r : RaceSpec := { ops := ops, gors := gors }
    pure (Json.mkObj [("text", jBytes (printRace crlf r)), ("gs", encGs (expectedRace r)),
      ("wf", Json.bool (raceWF r))])
  | _ => none

end PP.OpsC01
