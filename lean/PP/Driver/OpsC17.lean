import PP.Driver.Codec
import PP.Model.Html
import PP.Model.HtmlDoc
/-
Driver ops of C17 (HTML rendering): escapers, URL builders, document content, whole document.
-/
namespace PP.OpsC17
open Lean PP PP.Codec PP.Html

def errStr : HtmlErr → String
  | .sliceBounds => "PANIC-slice"
  | .stripTagsUnmodelled => "unmodelled-stripTags"

def encExc (r : Except HtmlErr Bytes) : Json :=
  match r with
  | .ok b => Json.mkObj [("err", ""), ("v", jBytes b)]
  | .error e => Json.mkObj [("err", errStr e)]

def decBucket (j : Json) : Except String Bucket := do
  let ids ← (← getArr j "ids").toList.mapM (·.getNat?)
  pure { sig := ← decSig (← j.getObjVal? "sig"), ids := ids, first := ← getBool j "first" }

def countLit (b : Bytes) (ps : List Piece) : Nat :=
  (ps.filter fun p => match p with | .lit x => x == b | _ => false).length

def encContent (r : Except HtmlErr (List Piece)) : Json :=
  match r with
  | .error e => Json.mkObj [("err", errStr e)]
  | .ok ps =>
    match renderPieces ps with
    | .error e => Json.mkObj [("err", errStr e)]
    | .ok b => Json.mkObj [("err", ""), ("content", jBytes b)]

/-- the metadata of `html.doc`: hex strings `favicon`, `now`, `remoteGOROOT`, `localGOROOT`, `footer`;
`gomaxprocs`; `localGOPATHs` (array of hex strings); `localGomods` (array of [key, value] pairs of hex
strings, in sorted key order) -/
def decMeta (j : Json) : Except String DocMeta := do
  let mods ← (← getArr j "localGomods").toList.mapM fun kv => do
    let a ← kv.getArr?
    match a.toList with
    | [k, v] => pure ((← ofHex (← k.getStr?)), (← ofHex (← v.getStr?)))
    | _ => throw "localGomods: pair expected"
  pure { favicon := ← getBytes j "favicon", now := ← getBytes j "now", gomaxprocs := ← getNat j "gomaxprocs",
         remoteGOROOT := ← getBytes j "remoteGOROOT", localGOROOT := ← getBytes j "localGOROOT",
         localGOPATHs := ← getBytesList j "localGOPATHs", localGomods := mods, footer := ← getBytes j "footer" }

def encDoc (r : Except HtmlErr Bytes) : Json :=
  match r with
  | .error e => Json.mkObj [("err", errStr e)]
  | .ok b => Json.mkObj [("err", ""), ("doc", jBytes b)]

def handle (op : String) (j : Json) : Option (Except String Json) :=
  match op with
  | "html.esc" => some do
    let s ← getBytes j "s"
    let (p, srcTag, tag) := splitTag s
    pure (Json.mkObj [
      ("htmlEscaper", jBytes (htmlEscaper s)),
      ("attrEscaper", jBytes (attrEscaper s)),
      ("attrEscaperHTML", encExc (attrEscaperHTML s)),
      ("urlNormalizer", jBytes (urlNormalizer s)),
      ("href", encExc (renderHole .href s)),
      ("escape", jBytes (escape s)),
      ("queryEscape", jBytes (queryEscape s)),
      ("htmlEscapeString", jBytes (htmlEscapeString s)),
      ("splitTag", Json.arr #[jBytes p, jBytes srcTag, jBytes tag]),
      ("symbol", jBytes (symbol { name := s }))])
  | "html.call" => some do
    let c ← decCall (← j.getObjVal? "call")
    let ver ← getBytes j "ver"
    pure (Json.mkObj [
      ("pkgURL", encExc (pkgURL ver c)),
      ("srcURL", encExc (srcURL ver c)),
      ("symbol", jBytes (symbol c.fn)),
      ("funcClass", jBytes (funcClass c))])
  | "html.snapshot" => some do
    let gs ← decGs j "gs"
    let ver ← getBytes j "ver"
    pure (encContent (contentSnapshot ver gs))
  | "html.aggregated" => some do
    let bs ← (← getArr j "buckets").toList.mapM decBucket
    let ver ← getBytes j "ver"
    pure (encContent (contentAggregated ver bs))
  | "html.doc" => some do
    -- the whole document of `Snapshot.ToHTML` (key "gs") or `Aggregated.ToHTML` (key "buckets")
    let m ← decMeta j
    let ver ← getBytes j "ver"
    let body ← match j.getObjVal? "buckets" with
      | .ok _ => do pure (DocBody.aggregated (← (← getArr j "buckets").toList.mapM decBucket))
      | .error _ => do pure (DocBody.snapshot (← decGs j "gs"))
    pure (encDoc (renderDoc { m with ver := ver, body := body }))
  | _ => none

end PP.OpsC17
