import PP.Driver.Codec
import PP.Model.Web
/-
Driver ops of C20: `web` (handler decision), `atoi`, `webgrow` (buffer growth).
-/
namespace PP.OpsC20
open Lean PP PP.Codec

def jInt (i : Int) : Json := Json.num (JsonNumber.fromInt i)
def optInt : Option Int → Json
  | none => Json.null
  | some i => jInt i

def lvlNat : Lvl → Nat
  | .exactFlags => 0 | .exactLines => 1 | .anyPointer => 2 | .anyValue => 3

def getInt (j : Json) (k : String) : Except String Int := do (← j.getObjVal? k).getInt?

def handle (op : String) (j : Json) : Option (Except String Json) :=
  match op with
  | "web" => some do
    let m ← getBytes j "method"
    let mm ← getBytes j "maxmem"
    let au ← getBytes j "augment"
    let si ← getBytes j "similarity"
    let ok ← getBool j "ok"
    let plan : Json := match handlerPlan m mm au with
      | .error _ => Json.null
      | .ok p => Json.mkObj [("maxmem", jInt p.maxmem), ("analyze", p.analyzeSources)]
    let lvl : Json := match parseSimilarity si with
      | none => Json.null
      | some l => Json.num (lvlNat l)
    pure (Json.mkObj [("status", Json.num (handlerStatus m mm au si ok)), ("plan", plan), ("lvl", lvl),
      ("maxmemOK", maxmemOK mm), ("augmentOK", augmentOK au), ("similarityOK", similarityOK si)])
  | "atoi" => some do
    pure (Json.mkObj [("v", optInt (atoi (← getBytes j "s")))])
  | "webgrow" => some do
    let mm ← getInt j "maxmem"
    let need ← (← getArr j "need").toList.mapM (·.getNat?)
    -- need i = the i-th entry, the last one repeated
    let f : Nat → Nat := fun i => need.getD i (need.getLast?.getD 0)
    pure (Json.mkObj [("steps", Json.arr ((growStepsVar mm f).map fun (n : Nat) => Json.num (JsonNumber.fromNat n)).toArray)])
  | _ => none

end PP.OpsC20
