import PP.Driver.Codec
import PP.Spec.Grammar
/-
Driver op for C07: the reference automaton of the documented line grammar
(`PP.Spec.step` / `munch`) on a sequence of line kinds.  Used by the harness as
a direct oracle on the implementation: how many lines of a canonical sequence
the scanner must consume, and whether it may end there cleanly.
-/
namespace PP.OpsC07
open Lean PP PP.Codec PP.Spec

def kindOf : String → Option Kind
  | "header" => some .header | "func" => some .func | "file" => some .file | "created" => some .created
  | "blank" => some .blank | "elided" => some .elided | "unavail" => some .unavail | "sep" => some .sep
  | "warn" => some .warn | "raceOp" => some .raceOp | "racePrev" => some .racePrev | "raceGor" => some .raceGor
  | "other" => some .other | _ => none

def handle (op : String) (j : Json) : Option (Except String Json) :=
  if op != "munch" then none else some do
    let ks ← (← getArr j "kinds").toList.mapM fun x => do
      match kindOf (← x.getStr?) with
      | some k => pure k
      | none => throw "bad kind"
    let (n, q) := munch .start ks
    pure (Json.mkObj [("n", Json.num n), ("state", Json.str (reprStr q)), ("accepting", Json.bool (accepting q)),
      ("cleanEnd", Json.bool (accepting q && q != .unav))])

end PP.OpsC07
