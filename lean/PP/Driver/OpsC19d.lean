import PP.Driver.Codec
import PP.Model.FuncAt
/-
Driver op of C19d: `funcat`.
Request: {"op":"funcat","root":NODE,("src":hex | "offsets":[n…]),("l":n | "lines":[n…])}
  NODE = {"p":pos,"f":bool,"d":n,"c":[NODE…]}   ("f" default false, "d" default 0, "c" default [])
With "src" the table is `AugGlue.lineToByteOffsets src` (the model's), with
"offsets" it is the one given.
Reply for "l":     {"decl":k} | {"decl":null} | {"err":"lineOver"} | {"err":"index"}
Reply for "lines": {"res":[one such object per line]}
Not part of any proof.
-/
namespace PP.OpsC19d
open Lean PP PP.Codec PP.FA

partial def decNode (j : Json) : Except String Node := do
  let pos ← getNat j "p"
  let isF ← match j.getObjVal? "f" with
    | .ok v => v.getBool?
    | .error _ => pure false
  let decl ← match j.getObjVal? "d" with
    | .ok v => v.getNat?
    | .error _ => pure 0
  let cs ← match j.getObjVal? "c" with
    | .ok (Json.arr a) => a.toList.mapM decNode
    | .ok Json.null => pure []
    | .ok _ => throw "c: array expected"
    | .error _ => pure []
  pure ⟨pos, isF, decl, cs⟩

def encRes : Except Err (Option Nat) → Json
  | .ok (some k) => Json.mkObj [("decl", (k : Nat))]
  | .ok none => Json.mkObj [("decl", Json.null)]
  | .error .lineOver => Json.mkObj [("err", "lineOver")]
  | .error .index => Json.mkObj [("err", "index")]

def handle (op : String) (j : Json) : Option (Except String Json) :=
  match op with
  | "funcat" => some do
    let root ← decNode (← j.getObjVal? "root")
    let offsets ← match j.getObjVal? "src" with
      | .ok (Json.str s) => (ofHex s).map AugGlue.lineToByteOffsets
      | _ => (← getArr j "offsets").toList.mapM (·.getNat?)
    match j.getObjVal? "lines" with
    | .ok (Json.arr ls) =>
      let ls ← ls.toList.mapM (·.getNat?)
      pure (Json.mkObj [("res", Json.arr (ls.map (fun l => encRes (getFuncAST offsets root l))).toArray)])
    | _ =>
      let l ← getNat j "l"
      pure (encRes (getFuncAST offsets root l))
  | _ => none

end PP.OpsC19d
