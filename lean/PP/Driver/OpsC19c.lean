import PP.Model.Bytes
import PP.Driver.Codec
import PP.Model.TypeNames
/-
Driver op of C19c: `typenames`.
Request: {"op":"typenames","recv":null|[FIELD…],"params":[FIELD…]}
  FIELD = {"names":n,"type":EXPR}
  EXPR  = {"k":"ident","name":hex} | {"k":"selector","x":EXPR,"sel":hex} | {"k":"star","x":EXPR}
        | {"k":"basiclit","value":hex} | {"k":"ellipsis","elt":EXPR|null}
        | {"k":"array","len":EXPR|null,"elt":EXPR} | {"k":"func"} | {"k":"interface"}
        | {"k":"map","key":EXPR,"value":EXPR} | {"k":"chan","value":EXPR} | {"k":"paren","x":EXPR}
        | {"k":"other"}
Reply: {"types":[hex…],"ellipsis":bool}.
Not part of any proof.
-/
namespace PP.OpsC19c
open Lean PP PP.Codec PP.TN

partial def decExpr (j : Json) : Except String GoExpr := do
  let opt (k : String) : Except String (Option GoExpr) :=
    match j.getObjVal? k with
    | .ok Json.null => pure none
    | .ok e => (decExpr e).map some
    | .error _ => pure none
  match ← getStr j "k" with
  | "ident" => pure (.ident (← getBytes j "name"))
  | "selector" => pure (.selector (← decExpr (← j.getObjVal? "x")) (← getBytes j "sel"))
  | "star" => pure (.star (← decExpr (← j.getObjVal? "x")))
  | "basiclit" => pure (.basicLit (← getBytes j "value"))
  | "ellipsis" => pure (.ellipsis (← opt "elt"))
  | "array" => pure (.arrayType (← opt "len") (← decExpr (← j.getObjVal? "elt")))
  | "func" => pure .funcType
  | "interface" => pure .interfaceType
  | "map" => pure (.mapType (← decExpr (← j.getObjVal? "key")) (← decExpr (← j.getObjVal? "value")))
  | "chan" => pure (.chanType (← decExpr (← j.getObjVal? "value")))
  | "paren" => pure (.paren (← decExpr (← j.getObjVal? "x")))
  | "other" => pure .other
  | k => throw s!"unknown expression kind {k}"

def decField (j : Json) : Except String GoField := do
  pure { names := ← getNat j "names", typ := ← decExpr (← j.getObjVal? "type") }

def decFields (a : Array Json) : Except String (List GoField) := a.toList.mapM decField

def handle (op : String) (j : Json) : Option (Except String Json) :=
  match op with
  | "typenames" => some do
    let recv ← match j.getObjVal? "recv" with
      | .ok (Json.arr a) => (decFields a).map some
      | .ok Json.null => pure none
      | .ok _ => throw "recv: array or null expected"
      | .error _ => pure none
    let params ← decFields (← getArr j "params")
    let (types, ell) := extractArgumentsType { recv := recv, params := params }
    pure (Json.mkObj [("types", Json.arr (types.map jBytes).toArray), ("ellipsis", ell)])
  | _ => none

end PP.OpsC19c
