import PP.Driver.Codec
import PP.Model.Roots
/-
Driver ops of the C18 vertical (path rebasing).
  roots    : guessPaths on a snapshot with an explicit file-system oracle
  updloc   : Call.updateLocations with explicit maps
  c18fn    : splitPath / reModule / path.Dir on one byte string
-/
namespace PP.OpsC18
open Lean PP PP.Codec

def decPairs (j : Json) (k : String) : Except String (List (Bytes × Bytes)) := do
  let a ← getArr j k
  a.toList.mapM fun x => do
    let p ← x.getArr?
    match p.toList with
    | [a, b] => pure (← ofHex (← a.getStr?), ← ofHex (← b.getStr?))
    | _ => throw "bad pair"

/-- a Go map given as pairs: later pairs overwrite earlier ones -/
def mapOfPairs (ps : List (Bytes × Bytes)) : AMap := ps.foldl (fun m kv => m.insert kv.1 kv.2) []

def sortPairs (m : AMap) : AMap := m.mergeSort fun a b => !bytesLt b.1 a.1

def encPairs (m : AMap) : Json :=
  Json.arr ((sortPairs m).map fun kv => Json.arr #[jBytes kv.1, jBytes kv.2]).toArray

def fsOf (files : List Bytes) (contents : List (Bytes × Bytes)) : FS :=
  { isFile := fun p => files.contains p, readFile := fun p => contents.lookup p }

def errStr : RootsErr → String
  | .sliceGoroot => "PANIC-slice-goroot"
  | .sliceGopath => "PANIC-slice-gopath"

def handle (op : String) (j : Json) : Option (Except String Json) :=
  match op with
  | "roots" => some do
    let gs ← decGs j "gs"
    let fs := fsOf (← getBytesList j "files") (← decPairs j "gomods")
    let s : Snapshot := { goroutines := gs, localGOROOT := ← getBytes j "goroot",
                          localGOPATHs := ← getBytesList j "gopaths",
                          remoteGOROOT := ← getBytes j "remoteGoroot" }
    match s.guessPaths fs with
    | .error e => pure (Json.mkObj [("panic", errStr e)])
    | .ok (s', ok) =>
      pure (Json.mkObj [("panic", ""), ("ok", ok), ("remoteGoroot", jBytes s'.remoteGOROOT),
        ("remoteGopaths", encPairs s'.remoteGOPATHs), ("localGomods", encPairs s'.localGomods),
        ("gs", encGs s'.goroutines)])
  | "updloc" => some do
    let c ← decCall (← j.getObjVal? "call")
    let gomods := mapOfPairs (← decPairs j "gomods")
    let gopaths := mapOfPairs (← decPairs j "gopaths")
    let r := c.updateLocations (← getBytes j "goroot") (← getBytes j "localgoroot") gomods gopaths
    pure (Json.mkObj [("ok", r.2), ("call", encCall r.1)])
  | "c18fn" => some do
    let s ← getBytes j "s"
    pure (Json.mkObj [
      ("splitpath", Json.arr ((splitPath s).map jBytes).toArray),
      ("remodule", match reModule s with | some m => jBytes m | none => Json.null),
      ("pathdir", jBytes (pathDir s))])
  | _ => none

end PP.OpsC18
