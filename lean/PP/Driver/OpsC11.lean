import PP.Driver.Codec
import PP.Lemmas.Progress
/-
Driver op for C11: the event log of the instrumented loop (`PP.Live.scanBT`,
proved to erase to the model's `scanB`) for a given delivery, reduced to what
the harness can observe on the real code at every `Read`: how many bytes had
been delivered, how many this `Read` returned, and how many bytes had been
written to the pass-through writer at that moment.
-/
namespace PP.OpsC11
open Lean PP PP.Codec PP.Live

def readsOf (log : Log) : List (Nat × Nat × Nat) :=
  let rec go (evs : Log) (delivered written : Nat) (acc : List (Nat × Nat × Nat)) : List (Nat × Nat × Nat) :=
    match evs with
    | [] => acc.reverse
    | .read _ _ got _ :: t => go t (delivered + got.length) written ((delivered, got.length, written) :: acc)
    | .write d :: t => go t delivered (written + d.length) acc
    | .scanned _ _ :: t => go t delivered written acc
  go log 0 0 []

def handle (op : String) (j : Json) : Option (Except String Json) :=
  if op != "livelog" then none else some do
    let data ← getBytes j "data"
    let sched ← (← getArr j "sched").toList.mapM (·.getNat?)
    let withData ← getBool j "withData"
    let src : Src := { rest := data, sched := sched, final := .eof, withData := withData }
    let (_, log) := scanBT Extracted.readerBufSize Extracted.readerRetry (data.length + 2) {} [] [] { src := src }
    pure (Json.mkObj [("reads", Json.arr ((readsOf log).map fun (d, g, w) =>
      Json.arr #[Json.num d, Json.num g, Json.num w]).toArray)])

end PP.OpsC11
