import PP.Driver.Codec
import PP.Model.Augment
/-
Driver op of C19: `augment`.
Request: {"op":"augment","types":[hex…],"ellipsis":bool,"args":Args,
          "f32":[[bits,hex]…],"f64":[[bits,hex]…]}
The float tables are the harness' `strconv.FormatFloat` results for the bit
patterns that occur in the request (FormatFloat is trusted, not modelled).
Reply: {"processed":[hex…]} or {"panic":"index"} / {"panic":"fuel"}.
-/
namespace PP.OpsC19
open Lean PP PP.Codec PP.Aug

def decTable (j : Json) (k : String) : Except String (List (Nat × Bytes)) := do
  let a ← getArr j k
  a.toList.mapM fun e => do
    let p ← e.getArr?
    match p.toList with
    | [b, s] => pure (← b.getNat?, ← ofHex (← s.getStr?))
    | _ => throw "bad float table entry"

def tableFn (t : List (Nat × Bytes)) (b : Nat) : Bytes :=
  match t.lookup b with
  | some s => s
  | none => b!"<float-not-in-table>"

def handle (op : String) (j : Json) : Option (Except String Json) :=
  match op with
  | "augment" => some do
    let types ← getBytesList j "types"
    let ell ← getBool j "ellipsis"
    let args ← decArgs (← j.getObjVal? "args")
    let ff : FloatFmt := { f32 := tableFn (← decTable j "f32"), f64 := tableFn (← decTable j "f64") }
    match augmentCall ff types ell args with
    | .ok p => pure (Json.mkObj [("processed", Json.arr (p.map jBytes).toArray)])
    | .error .index => pure (Json.mkObj [("panic", "index")])
    | .error .fuel => pure (Json.mkObj [("panic", "fuel")])
  | _ => none

end PP.OpsC19
