import PP.Driver.Codec
import PP.Driver.OpsC19
import PP.Model.AugmentGlue
/-
Driver op of C19B: `augmentglue`.
Request: {"op":"augmentglue","gs":[Goroutine…],
          "files":[{"name":hex,"content":hex|null,"parse":bool,
                    "funcs":[{"name":hex,"line":n,"found":bool,"types":[hex…],"ellipsis":bool}…]}…],
          "f32":[[bits,hex]…],"f64":[[bits,hex]…]}
The tables are the oracles: `readFile name` is the `content` of the entry with
that name (`none` when null or when there is no entry); `parse src` succeeds
iff an entry with that content has `"parse":true`, and its `funcAt name line`
is looked up in the `funcs` of the entries with that content (a query that is
not in the table answers a recognisable bogus type so that it shows up as a
disagreement).
Reply: {"gs":[Goroutine…],"err":"none|nongo|read|parse|lineover"} or {"panic":…}.
-/
namespace PP.OpsC19b
open Lean PP PP.Codec PP.Aug PP.AugGlue

structure FuncRow where
  name : Bytes
  line : Nat
  res : Option (List Bytes × Bool)

structure FileRow where
  name : Bytes
  content : Option Bytes
  parseOk : Bool
  funcs : List FuncRow

def decFuncRow (j : Json) : Except String FuncRow := do
  let found ← getBool j "found"
  let types ← getBytesList j "types"
  let ell ← getBool j "ellipsis"
  pure { name := ← getBytes j "name", line := ← getNat j "line",
         res := if found then some (types, ell) else none }

def decFileRow (j : Json) : Except String FileRow := do
  let content ← match j.getObjVal? "content" with
    | .ok (Json.str s) => (ofHex s).map some
    | _ => pure none
  let fs ← getArr j "funcs"
  pure { name := ← getBytes j "name", content := content, parseOk := ← getBool j "parse",
         funcs := ← fs.toList.mapM decFuncRow }

def readFileOf (files : List FileRow) (name : Bytes) : Option Bytes :=
  match files.find? (fun f => f.name == name) with
  | some f => f.content
  | none => none

def funcAtOf (files : List FileRow) (src : Bytes) (name : Bytes) (line : Nat) : Option (List Bytes × Bool) :=
  let rows := (files.filter (fun f => f.content == some src)).flatMap (·.funcs)
  match rows.find? (fun r => r.name == name && r.line == line) with
  | some r => r.res
  | none => some ([b!"<query-not-in-table>"], false)

def parseOf (files : List FileRow) (src : Bytes) : Option Parsed :=
  if files.any (fun f => f.content == some src && f.parseOk) then some { funcAt := funcAtOf files src }
  else none

def errStr : Option ErrKind → String
  | none => "none" | some .nonGo => "nongo" | some .read => "read" | some .parse => "parse"
  | some .lineOver => "lineover"

def handle (op : String) (j : Json) : Option (Except String Json) :=
  match op with
  | "augmentglue" => some do
    let gs ← decGs j "gs"
    let fa ← getArr j "files"
    let files ← fa.toList.mapM decFileRow
    let ff : FloatFmt := { f32 := PP.OpsC19.tableFn (← PP.OpsC19.decTable j "f32"),
                           f64 := PP.OpsC19.tableFn (← PP.OpsC19.decTable j "f64") }
    let o : Oracle := { readFile := readFileOf files, parse := parseOf files }
    match augment ff o gs with
    | .ok r => pure (Json.mkObj [("gs", encGs r.1), ("err", errStr r.2)])
    | .error .index => pure (Json.mkObj [("panic", "index")])
    | .error .fuel => pure (Json.mkObj [("panic", "fuel")])
  | "linetobyteoffsets" => some do
    let src ← getBytes j "src"
    pure (Json.mkObj [("offsets", Json.arr ((lineToByteOffsets src).map (fun (n : Nat) => Json.num n)).toArray)])
  | _ => none

end PP.OpsC19b
