import PP.Driver.Codec
import PP.Model.Console
/-
Driver op of C16: `console`.  Request:
  {"op":"console","kind":"buckets"|"goroutines","palette":{…hex…},"pf":0|1|2,
   "needsEnv":bool,"filter":hex|null,"match":hex|null,"buckets":[MBucket…] | "gs":[MG…]}
`filter`/`match` are literal substrings (the harness compiles
`regexp.QuoteMeta(sub)`).  Reply: {"out":hex,"srcLen":n,"pkgLen":n,"headers":[hex…],"stacks":[hex…]}.
-/
namespace PP.OpsC16
open Lean PP PP.Codec PP.Console

def decPalette (j : Json) : Except String Palette := do
  pure { eolReset := ← getBytes j "EOLReset", routineFirst := ← getBytes j "RoutineFirst",
         routine := ← getBytes j "Routine", createdBy := ← getBytes j "CreatedBy", race := ← getBytes j "Race",
         pkg := ← getBytes j "Package", srcFile := ← getBytes j "SrcFile", funcMain := ← getBytes j "FuncMain",
         funcLocationUnknown := ← getBytes j "FuncLocationUnknown",
         funcLocationUnknownExported := ← getBytes j "FuncLocationUnknownExported",
         funcGoMod := ← getBytes j "FuncGoMod", funcGoModExported := ← getBytes j "FuncGoModExported",
         funcGOPATH := ← getBytes j "FuncGOPATH", funcGOPATHExported := ← getBytes j "FuncGOPATHExported",
         funcGoPkg := ← getBytes j "FuncGoPkg", funcGoPkgExported := ← getBytes j "FuncGoPkgExported",
         funcStdLib := ← getBytes j "FuncStdLib", funcStdLibExported := ← getBytes j "FuncStdLibExported",
         arguments := ← getBytes j "Arguments" }

def pfOfNat : Nat → Except String PathFormat
  | 0 => .ok .fullPath | 1 => .ok .relPath | 2 => .ok .basePath
  | n => .error s!"bad path format {n}"

def decPred (j : Json) (k : String) : Except String (Option (Bytes → Bool)) := do
  match j.getObjVal? k with
  | .error _ => pure none
  | .ok Json.null => pure none
  | .ok v =>
    let sub ← ofHex (← v.getStr?)
    pure (some (containsSub sub))

def decBucket (j : Json) : Except String Bucket := do
  let ids ← (← getArr j "ids").toList.mapM (·.getNat?)
  pure { sig := ← decSig (← j.getObjVal? "sig"), ids := ids, first := ← getBool j "first" }

def handle (op : String) (j : Json) : Option (Except String Json) :=
  match op with
  | "console" => some do
    let p ← decPalette (← j.getObjVal? "palette")
    let pf ← pfOfNat (← getNat j "pf")
    let needsEnv ← getBool j "needsEnv"
    let filter ← decPred j "filter"
    let mtch ← decPred j "match"
    match (← getStr j "kind") with
    | "buckets" =>
      let bs ← (← getArr j "buckets").toList.mapM decBucket
      let lens := calcBucketsLengths bs pf
      let multi := decide (bs.length > 1)
      pure (Json.mkObj [("out", jBytes (writeBuckets p bs pf needsEnv filter mtch)),
        ("srcLen", Json.num lens.1), ("pkgLen", Json.num lens.2),
        ("headers", Json.arr (bs.map fun b => jBytes (bucketHeader p b pf multi)).toArray),
        ("stacks", Json.arr (bs.map fun b => jBytes (stackLines p b.sig lens.1 lens.2 pf)).toArray)])
    | "goroutines" =>
      let gs ← decGs j "gs"
      let lens := calcGoroutinesLengths gs pf
      let multi := decide (gs.length > 1)
      pure (Json.mkObj [("out", jBytes (writeGoroutines p gs pf needsEnv filter mtch)),
        ("srcLen", Json.num lens.1), ("pkgLen", Json.num lens.2),
        ("headers", Json.arr (gs.map fun g => jBytes (goroutineHeader p g pf multi)).toArray),
        ("stacks", Json.arr (gs.map fun g => jBytes (stackLines p g.sig lens.1 lens.2 pf)).toArray)])
    | k => throw s!"bad kind {k}"
  | _ => none

end PP.OpsC16
