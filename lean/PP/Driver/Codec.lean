import Lean.Data.Json
import PP.Model.Types
/-
JSON codec of the line protocol between the Go harness and the model driver.
Byte strings travel as lower-case hex.  Not part of any proof.
-/
namespace PP.Codec
open Lean

def hexDigit (n : Nat) : Char := if n < 10 then Char.ofNat (48 + n) else Char.ofNat (87 + n)

def toHex (b : Bytes) : String :=
  String.ofList (b.flatMap fun c => [hexDigit (c.toNat / 16), hexDigit (c.toNat % 16)])

def hexNib (c : Char) : Option Nat :=
  if '0' ≤ c ∧ c ≤ '9' then some (c.toNat - 48)
  else if 'a' ≤ c ∧ c ≤ 'f' then some (c.toNat - 87)
  else none

def ofHexChars : List Char → Option Bytes
  | [] => some []
  | a :: b :: rest => do
    let x ← hexNib a
    let y ← hexNib b
    let t ← ofHexChars rest
    pure ((x * 16 + y).toUInt8 :: t)
  | _ => none

def ofHex (s : String) : Except String Bytes :=
  match ofHexChars s.toList with
  | some b => .ok b
  | none => .error s!"bad hex {s}"

def jBytes (b : Bytes) : Json := Json.str (toHex b)

def getBytes (j : Json) (k : String) : Except String Bytes := do
  let s ← (← j.getObjVal? k).getStr?
  ofHex s
def getNat (j : Json) (k : String) : Except String Nat := do (← j.getObjVal? k).getNat?
def getBool (j : Json) (k : String) : Except String Bool := do (← j.getObjVal? k).getBool?
def getArr (j : Json) (k : String) : Except String (Array Json) := do (← j.getObjVal? k).getArr?
def getStr (j : Json) (k : String) : Except String String := do (← j.getObjVal? k).getStr?
def getBytesList (j : Json) (k : String) : Except String (List Bytes) := do
  let a ← getArr j k
  a.toList.mapM fun x => do ofHex (← x.getStr?)

def lvlOfNat : Nat → Except String Lvl
  | 0 => .ok .exactFlags | 1 => .ok .exactLines | 2 => .ok .anyPointer | 3 => .ok .anyValue
  | n => .error s!"bad level {n}"
def locOfNat : Nat → Except String Loc
  | 0 => .ok .unknown | 1 => .ok .goMod | 2 => .ok .gopath | 3 => .ok .goPkg | 4 => .ok .stdlib
  | n => .error s!"bad location {n}"

partial def decArg (j : Json) : Except String Arg := do
  match j.getObjVal? "agg" with
  | .ok a =>
    let vs ← getArr a "values"
    let fs ← vs.toList.mapM decArg
    pure (.agg fs (← getBool a "elided"))
  | .error _ =>
    pure (.scalar (← getBytes j "name") (← getNat j "v") (← getBool j "ptr") (← getBool j "otl") (← getBool j "inacc"))

partial def encArg : Arg → Json
  | .scalar n v p o i =>
    Json.mkObj [("name", jBytes n), ("v", Json.num v), ("ptr", p), ("otl", o), ("inacc", i)]
  | .agg fs e =>
    Json.mkObj [("agg", Json.mkObj [("elided", e), ("values", Json.arr (fs.map encArg).toArray)])]

def decArgs (j : Json) : Except String Args := do
  let vs ← getArr j "values"
  pure { values := ← vs.toList.mapM decArg, processed := ← getBytesList j "processed", elided := ← getBool j "elided" }

def encArgs (a : Args) : Json :=
  Json.mkObj [("elided", a.elided), ("processed", Json.arr (a.processed.map jBytes).toArray),
    ("values", Json.arr (a.values.map encArg).toArray)]

def decFunc (j : Json) : Except String Func := do
  pure { complete := ← getBytes j "c", importPath := ← getBytes j "ip", dirName := ← getBytes j "dn",
         name := ← getBytes j "n", isExported := ← getBool j "ex", isPkgMain := ← getBool j "main" }

def encFunc (f : Func) : Json :=
  Json.mkObj [("c", jBytes f.complete), ("ip", jBytes f.importPath), ("dn", jBytes f.dirName),
    ("n", jBytes f.name), ("ex", f.isExported), ("main", f.isPkgMain)]

def decCall (j : Json) : Except String Call := do
  pure { fn := ← decFunc (← j.getObjVal? "fn"), args := ← decArgs (← j.getObjVal? "args"),
         remoteSrcPath := ← getBytes j "remote", line := ← getNat j "line", srcName := ← getBytes j "src",
         dirSrc := ← getBytes j "dirsrc", localSrcPath := ← getBytes j "local", relSrcPath := ← getBytes j "rel",
         importPath := ← getBytes j "ip", location := ← locOfNat (← getNat j "loc") }

def encCall (c : Call) : Json :=
  Json.mkObj [("fn", encFunc c.fn), ("args", encArgs c.args), ("remote", jBytes c.remoteSrcPath),
    ("line", Json.num c.line), ("src", jBytes c.srcName), ("dirsrc", jBytes c.dirSrc),
    ("local", jBytes c.localSrcPath), ("rel", jBytes c.relSrcPath), ("ip", jBytes c.importPath),
    ("loc", Json.num c.location.toNat)]

def decStack (j : Json) : Except String Stack := do
  let cs ← getArr j "calls"
  pure { calls := ← cs.toList.mapM decCall, elided := ← getBool j "elided" }

def encStack (s : Stack) : Json :=
  Json.mkObj [("elided", s.elided), ("calls", Json.arr (s.calls.map encCall).toArray)]

def decSig (j : Json) : Except String Signature := do
  pure { state := ← getBytes j "state", createdBy := ← decStack (← j.getObjVal? "created"),
         sleepMin := ← getNat j "smin", sleepMax := ← getNat j "smax",
         stack := ← decStack (← j.getObjVal? "stack"), locked := ← getBool j "locked" }

def encSig (s : Signature) : Json :=
  Json.mkObj [("state", jBytes s.state), ("created", encStack s.createdBy), ("smin", Json.num s.sleepMin),
    ("smax", Json.num s.sleepMax), ("stack", encStack s.stack), ("locked", s.locked)]

def decG (j : Json) : Except String Goroutine := do
  pure { sig := ← decSig (← j.getObjVal? "sig"), id := ← getNat j "id", first := ← getBool j "first",
         raceWrite := ← getBool j "rw", raceAddr := ← getNat j "ra" }

def encG (g : Goroutine) : Json :=
  Json.mkObj [("sig", encSig g.sig), ("id", Json.num g.id), ("first", g.first), ("rw", g.raceWrite),
    ("ra", Json.num g.raceAddr)]

def decGs (j : Json) (k : String) : Except String (List Goroutine) := do
  let a ← getArr j k
  a.toList.mapM decG

def encGs (gs : List Goroutine) : Json := Json.arr (gs.map encG).toArray

def encBucket (b : Bucket) : Json :=
  Json.mkObj [("sig", encSig b.sig), ("ids", Json.arr (b.ids.map (fun (n : Nat) => Json.num n)).toArray), ("first", b.first)]

end PP.Codec
