import PP.Driver.Codec
import PP.Driver.OpsC16
import PP.Model.Cli
/-
Driver op of the CLI vertical: `cli`.  Request:
  {"op":"cli","data":hex,"final":"eof"|"noprogress"|"reader:N","palette":{…hex…},"lvl":0..3,
   "pf":0|1|2,"gotraceback":hex,"filter":hex|null,"match":hex|null,
   "goroot":hex,"gopaths":[hex…]}
`filter`/`match` are literal substrings (the harness compiles `regexp.QuoteMeta(sub)`), decoded
as the `console` op of `PP.Driver.OpsC16` does.  Reply:
  {"out":hex,"status":"ok"|"failed"|"invalidOpts"|"panicked"|"outOfFuel","err":string,
   "calls":n,"snaps":n,"lost":hex,"tail":hex,
   "outB":hex,"statusB":…,"errB":…,"exactB":bool}
`outB`… = the same run through the reader model (`processB`, buffer size and retry bound of the
extracted constants) for the delivery schedule `implSched` of the request (default: one piece);
`exactB` = every MultiReader of that run was modelled exactly (each suffix fitted the buffer).
`err` is spelled as the `scan` op spells errors; `calls` = number of ScanSnapshot calls, `snaps`
= how many returned a snapshot, `lost` = line-level `unread` of the last call (what a failing
run drops at least), `tail` = line-level `suffix` of the last call (the last bytes written).

Second op `cliopts`: the option gate.
  {"op":"cliopts","nil":bool,"goroot":hex,"gopaths":[hex…],"names":bool,"guess":bool,"analyze":bool}
Reply: {"valid":bool}.
-/
namespace PP.OpsCLI
open Lean PP PP.Codec PP.Console PP.Cli

def errKind : Err → String
  | .funcAfterHeader => "funcAfterHeader" | .fileAfterFunc => "fileAfterFunc"
  | .fileAfterCreated => "fileAfterCreated" | .emptyAfterUnavail => "emptyAfterUnavail"
  | .indent => "indent" | .raceExpected => "raceExpected" | .raceAddr => "raceAddr" | .raceId => "raceId"
  | .raceFunc => "raceFunc" | .raceFile => "raceFile" | .raceFuncOrFile => "raceFuncOrFile"
  | .raceEmptyAfterFile => "raceEmptyAfterFile" | .raceOpOrGoroutine => "raceOpOrGoroutine"
  | .raceUnknownGoroutine => "raceUnknownGoroutine" | .funcNoDot => "funcNoDot" | .funcEscape => "funcEscape"
  | .funcSlice => "PANIC-slice" | .argsDepth => "argsDepth" | .argsInt => "int" | .argsOpen => "argsOpen"
  | .argsClose => "argsClose" | .fileInt => "int" | .internal => "internal"

def rerrStr : RErr → String
  | .eof => "eof" | .noProgress => "noprogress" | .other t => s!"reader:{t}"

def lerrStr : LErr → String
  | .reader e => rerrStr e
  | .parse e => "parse:" ++ errKind e

def decFinal (j : Json) : Except String RErr := do
  match j.getObjVal? "final" with
  | .error _ => pure .eof
  | .ok v =>
    match (← v.getStr?) with
    | "eof" => pure .eof
    | "noprogress" => pure .noProgress
    | s =>
      if s.startsWith "reader:" then
        match (s.drop 7).toNat? with
        | some n => pure (.other n)
        | none => throw s!"bad final {s}"
      else throw s!"bad final {s}"

def statusStr : Status → String × String
  | .ok => ("ok", "")
  | .failed e => ("failed", lerrStr e)
  | .invalidOpts => ("invalidOpts", "invalid Opts")
  | .panicked => ("panicked", "")
  | .outOfFuel => ("outOfFuel", "")

/-- ghost counters for the reply: (calls, snapshots, line-level unread of the last call) -/
def stats (fin : RErr) : Nat → Bytes → Nat → Nat → Nat × Nat × Bytes × Bytes
  | 0, _, c, s => (c, s, [], [])
  | fuel + 1, input, c, s =>
    let r := scanSnapshotL true input fin
    let s' := if r.snap.isSome then s + 1 else s
    match r.err with
    | none => if r.panicked then (c + 1, s', [], []) else stats fin fuel (r.suffix.getD [] ++ r.unread) (c + 1) s'
    | some _ => (c + 1, s', r.unread, r.suffix.getD [])

def handle (op : String) (j : Json) : Option (Except String Json) :=
  match op with
  | "cli" => some do
    let data ← getBytes j "data"
    let fin ← decFinal j
    let p ← OpsC16.decPalette (← j.getObjVal? "palette")
    let lvl ← lvlOfNat (← getNat j "lvl")
    let pf ← OpsC16.pfOfNat (← getNat j "pf")
    let gtb ← getBytes j "gotraceback"
    let filter ← OpsC16.decPred j "filter"
    let mtch ← OpsC16.decPred j "match"
    let goroot ← (match j.getObjVal? "goroot" with | .ok _ => getBytes j "goroot" | .error _ => pure [])
    let gopaths ← (match j.getObjVal? "gopaths" with | .ok _ => getBytesList j "gopaths" | .error _ => pure [])
    let cfg : CliCfg := { palette := p, level := lvl, pf := pf, showBanner := showBanner gtb,
                          filter := filter, mtch := mtch }
    let (out, st) := process cfg goroot gopaths fin data
    let (status, err) := statusStr st
    let (calls, snaps, lost, tail) := stats fin (processFuel data) data 0 0
    -- the same run through the reader model, for the delivery the implementation was given
    let sched ← (match j.getObjVal? "implSched" with
      | .ok v => do (← v.getArr?).toList.mapM (·.getNat?)
      | .error _ => pure [])
    let src : Src := { rest := data, sched := sched, final := fin, withData := false }
    let (outB, stB, exactB) := processB cfg Extracted.readerBufSize Extracted.readerRetry (processFuel data) src [] true
    let (statusB, errB) := statusStr stB
    pure (Json.mkObj [("out", jBytes out), ("status", status), ("err", err),
      ("calls", Json.num calls), ("snaps", Json.num snaps), ("lost", jBytes lost), ("tail", jBytes tail),
      ("outB", jBytes outB), ("statusB", statusB), ("errB", errB), ("exactB", Json.bool exactB)])
  | "cliopts" => some do
    let isNil ← getBool j "nil"
    let o : Opts := { localGOROOT := ← getBytes j "goroot", localGOPATHs := ← getBytesList j "gopaths",
                      nameArguments := ← getBool j "names", guessPaths := ← getBool j "guess",
                      analyzeSources := ← getBool j "analyze" }
    let r := scanSnapshotOpts (if isNil then none else some o) id id [] .eof
    pure (Json.mkObj [("valid", Json.bool (match r with | .ok _ => true | .error _ => false))])
  | _ => none

end PP.OpsCLI
