import PP.Driver.Codec
import PP.Model.Aggregate
import PP.Model.Names
import PP.Model.Loop
import PP.Driver.OpsC19
import PP.Driver.OpsC18
import PP.Driver.OpsC17
import PP.Driver.OpsC20
import PP.Driver.OpsC16
import PP.Driver.OpsC01
import PP.Driver.OpsC11
import PP.Driver.OpsC07
import PP.Driver.OpsC19b
import PP.Driver.OpsCLI
import PP.Driver.OpsC19c
import PP.Driver.OpsC19d
/-
Request handlers of the model driver.
-/
namespace PP.Ops
open Lean PP PP.Codec

def oracleOf : Nat → Oracle
  | 0 => idOracle
  | 1 => revOracle
  | _ => rotOracle

def errKind : Err → String
  | .funcAfterHeader => "funcAfterHeader" | .fileAfterFunc => "fileAfterFunc"
  | .fileAfterCreated => "fileAfterCreated" | .emptyAfterUnavail => "emptyAfterUnavail"
  | .indent => "indent" | .raceExpected => "raceExpected" | .raceAddr => "raceAddr" | .raceId => "raceId"
  | .raceFunc => "raceFunc" | .raceFile => "raceFile" | .raceFuncOrFile => "raceFuncOrFile"
  | .raceEmptyAfterFile => "raceEmptyAfterFile" | .raceOpOrGoroutine => "raceOpOrGoroutine"
  | .raceUnknownGoroutine => "raceUnknownGoroutine" | .funcNoDot => "funcNoDot" | .funcEscape => "funcEscape"
  | .funcSlice => "PANIC-slice" | .argsDepth => "argsDepth" | .argsInt => "int" | .argsOpen => "argsOpen"
  | .argsClose => "argsClose" | .fileInt => "int" | .internal => "internal"

def rerrStr : RErr → String
  | .eof => "eof" | .noProgress => "noprogress" | .other t => s!"reader:{t}"

def lerrStr : Option LErr → String
  | none => ""
  | some (.reader e) => rerrStr e
  | some (.parse e) => "parse:" ++ errKind e

def optErrStr : Option Err → String
  | none => ""
  | some e => errKind e

def optBytes : Option Bytes → Json
  | none => Json.null
  | some b => jBytes b

def decFinal (j : Json) : Except String RErr := do
  match (← getStr j "final") with
  | "eof" => pure .eof
  | "noprogress" => pure .noProgress
  | s =>
    if s.startsWith "reader:" then
      match (s.drop 7).toNat? with
      | some n => pure (.other n)
      | none => throw s!"bad final {s}"
    else throw s!"bad final {s}"

def decSrc (j : Json) : Except String Src := do
  let data ← getBytes j "data"
  let sched ← (← getArr j "sched").toList.mapM (·.getNat?)
  pure { rest := data, sched := sched, final := ← decFinal j, withData := ← getBool j "withData" }

def encFuncOpt : Except FErr Func → Json
  | .ok f => Json.mkObj [("err", ""), ("func", encFunc f)]
  | .error e => Json.mkObj [("err", errKind (Err.ofFErr e))]

def encMatch (m : Option (List Bytes)) : Json :=
  match m with
  | none => Json.null
  | some gs => Json.arr (gs.map jBytes).toArray

/-- S1: every matcher on one line -/
def reAll (line : Bytes) : Json :=
  Json.mkObj [
    ("reRoutineHeader", encMatch ((matchHeader line).map fun m => [m.indent, m.id, m.status])),
    ("reMinutes", encMatch ((matchMinutes line).map fun d => [d])),
    ("reUnavail", Json.bool (matchUnavail line)),
    ("reFile", encMatch ((matchFile line).map fun m => [m.path, m.line])),
    ("reCreated", encMatch ((matchCreated line).map fun n => [n])),
    ("reFunc", encMatch ((matchFunc line).map fun (a, b) => [a, b])),
    ("reRaceOperationHeader", encMatch ((matchRaceOp line).map fun (a, b, c) => [a, b, c])),
    ("reRacePreviousOperationHeader", encMatch ((matchRacePrev line).map fun (a, b, c) => [a, b, c])),
    ("reRaceGoroutine", encMatch ((matchRaceGoroutine line).map fun (a, b) => [a, b])),
    ("elided", Json.bool (isFramesElidedLine line)),
    ("trimLeft", jBytes (trimLeftSpace line))]

def encScanResult (r : ScanResult) : Json :=
  Json.mkObj [
    ("snap", match r.snap with | none => Json.null | some gs => encGs gs),
    ("fwd", jBytes r.fwd),
    ("rest", jBytes ((r.suffix.getD []) ++ r.unread)),
    ("suffixNil", Json.bool r.suffix.isNone),
    ("err", lerrStr r.err),
    ("consumed", Json.arr (r.consumed.map jBytes).toArray),
    ("state", Json.num r.state.toNat),
    ("panic", Json.bool r.panicked)]

def handle (j : Json) : Except String Json := do
  let op ← getStr j "op"
  match op with
  | "ping" => pure (Json.mkObj [("ok", true)])
  | "agg" =>
    let gs ← decGs j "gs"
    let l ← lvlOfNat (← getNat j "lvl")
    let π := oracleOf (← getNat j "oracle")
    if !aggregateSafe l gs then pure (Json.mkObj [("panic", true)]) else
    pure (Json.mkObj [("buckets", Json.arr ((aggregateWith π l gs).map encBucket).toArray)])
  | "sig" =>
    let a ← decSig (← j.getObjVal? "a")
    let b ← decSig (← j.getObjVal? "b")
    let l ← lvlOfNat (← getNat j "lvl")
    pure (Json.mkObj [("similar", Signature.similar l a b), ("equal", Signature.equal a b),
      ("less", if Signature.lessSafe a b then Json.bool (Signature.less a b) else Json.null),
      ("merge", if Signature.shapeOK a b then encSig (Signature.merge a b) else Json.null)])
  | "names" =>
    let gs ← decGs j "gs"
    pure (Json.mkObj [("gs", encGs (nameArguments gs))])
  | "re" => pure (reAll (← getBytes j "line"))
  | "num" =>
    let s ← getBytes j "s"
    let enc (o : Option Nat) : Json := match o with | some n => Json.num n | none => Json.null
    pure (Json.mkObj [("atou", enc (atou s)), ("parseuint", enc (parseUint0 s))])
  | "funcinit" => pure (encFuncOpt (funcInit (← getBytes j "raw")))
  | "args" =>
    match parseArgs (← getBytes j "s") with
    | .ok a => pure (Json.mkObj [("err", ""), ("args", encArgs a)])
    | .error e => pure (Json.mkObj [("err", errKind (Err.ofArgErr e))])
  | "reader" =>
    let src ← decSrc j
    match readAll Extracted.readerBufSize Extracted.readerRetry (src.rest.length + 2) { src := src } with
    | none => pure (Json.mkObj [("fuel", true)])
    | some (.error _) => pure (Json.mkObj [("panic", true)])
    | some (.ok ls) =>
      pure (Json.mkObj [("lines", Json.arr (ls.map fun (l, e) =>
        Json.arr #[jBytes l, Json.str (match e with | none => "" | some e => rerrStr e)]).toArray)])
  | "scanlines" =>
    let lines ← getBytesList j "lines"
    let rec go (s : S) (ls : List Bytes) (acc : Array Json) : Array Json × S × Bool :=
      match ls with
      | [] => (acc, s, false)
      | l :: rest =>
        match scanBytes s l with
        | .error _ => (acc.push (Json.mkObj [("panic", true)]), s, true)
        | .ok (s', p, e) =>
          go s' rest (acc.push (Json.mkObj [("state", Json.num s'.st.toNat), ("processed", p), ("err", optErrStr e)]))
    let (steps, s, _) := go {} lines #[]
    pure (Json.mkObj [("steps", Json.arr steps), ("gs", encGs s.gs), ("pfx", jBytes s.pfx), ("gi", Json.num s.gi)])
  | "scan" =>
    let src ← decSrc j
    let names ← getBool j "names"
    match scanSnapshot Extracted.readerBufSize Extracted.readerRetry names src with
    | none => pure (Json.mkObj [("fuel", true)])
    | some r => pure (encScanResult r)
  | "scanL" =>
    let data ← getBytes j "data"
    let names ← getBool j "names"
    pure (encScanResult (scanSnapshotL names data (← decFinal j)))
  | _ =>
    match PP.OpsC19.handle op j with
    | some r => r
    | none =>
      match PP.OpsC18.handle op j with
      | some r => r
      | none =>
        match PP.OpsC17.handle op j with
        | some r => r
        | none =>
          match PP.OpsC20.handle op j with
          | some r => r
          | none =>
            match PP.OpsC16.handle op j with
            | some r => r
            | none =>
              match PP.OpsC01.handle op j with
              | some r => r
              | none =>
                match PP.OpsC11.handle op j with
                | some r => r
                | none =>
                  match PP.OpsC07.handle op j with
                  | some r => r
                  | none =>
                    match PP.OpsC19b.handle op j with
                    | some r => r
                    | none =>
                      match PP.OpsCLI.handle op j with
                      | some r => r
                      | none =>
                        match PP.OpsC19c.handle op j with
                        | some r => r
                        | none =>
                          match PP.OpsC19d.handle op j with
                          | some r => r
                          | none => throw s!"unknown op {op}"

end PP.Ops
