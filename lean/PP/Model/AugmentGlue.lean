import PP.Model.Augment
/-
The glue around `augmentCall` (stack/source.go:24-157, stack/context.go:234-252):
`Snapshot.augment`, `cacheAST.augmentGoroutine`, `cacheAST.loadFile`,
`lineToByteOffsets`, `parsedFile.getFuncAST`.

Oracles (trusted, not modelled):
* `readFile` is `os.ReadFile` (`none` = any error);
* `parse` is `parser.ParseFile(fset, fileName, src, 0)` (`none` = any error) and
  yields a `Parsed`, which abstracts the only use the code makes of the
  `*ast.File`: `funcAt name line` is `getFuncAST(name, line)` after its line
  check, composed with `extractArgumentsType` — the parameter type names and
  the ellipsis flag of the enclosing function declaration, `none` when the AST
  walk finds no function (`f == nil`).

Go maps: `c.parsed` is an association list with distinct keys
(`Cache.insert` overwrites in place, appends otherwise); a key bound to `none`
is Go's `c.parsed[fileName] = nil` ("being loaded / failed").  `c.files` is
only ever written (`c.files[fileName] = src`), never read: not represented.

`Call.Line` is a Go `int`; the model has `Nat` (the scanner only produces
naturals).  With a negative `Line` in a constructed snapshot the check
`len(p.lineToByteOffset) <= l` passes and `p.lineToByteOffset[l]` panics; that
input is outside the model.

Where Go panics (`augmentCall` with an empty type list and the ellipsis flag)
the model returns `.error`.
-/
namespace PP.AugGlue
open PP PP.Bytes PP.Aug

/-- what the code uses of a parsed file: `getFuncAST` (after the line check) +
`extractArgumentsType` -/
structure Parsed where
  funcAt : (name : Bytes) → (line : Nat) → Option (List Bytes × Bool)

structure Oracle where
  readFile : Bytes → Option Bytes
  parse : Bytes → Option Parsed

/-- the kinds of `error` values the glue produces -/
inductive ErrKind
  | nonGo     -- "cannot load non-go file %q"
  | read      -- the error of os.ReadFile
  | parse     -- "failed to parse %w"
  | lineOver  -- "line %d is over line count of %d"
  deriving DecidableEq, Repr

/-- `parsedFile` -/
structure ParsedFile where
  lineToByteOffset : List Nat
  parsed : Parsed

/-- `map[string]*parsedFile` -/
abbrev Cache := List (Bytes × Option ParsedFile)

/-- `c.parsed[k] = v` -/
def Cache.insert : Cache → Bytes → Option ParsedFile → Cache
  | [], k, v => [(k, v)]
  | (k', v') :: t, k, v => if k = k' then (k, v) :: t else (k', v') :: Cache.insert t k v

/-- `_, ok := c.parsed[k]` -/
def Cache.has (c : Cache) (k : Bytes) : Bool := (c.lookup k).isSome

/-- `c.parsed[k]`: the zero value `nil` when absent -/
def Cache.get (c : Cache) (k : Bytes) : Option ParsedFile := (c.lookup k).join

/-! ### lineToByteOffsets -/

/-- the `for offset := 0; offset < len(src); { … }` loop; `offsets` is the
slice built so far -/
def lineOffsetsLoop : Nat → Bytes → Nat → List Nat → List Nat
  | 0, _, _, offsets => offsets
  | fuel + 1, src, offset, offsets =>
    if offset < src.length then
      match indexByte (src.drop offset) 10 with
      | none => offsets                                   -- `break`
      | some n => lineOffsetsLoop fuel src (offset + n + 1) (offsets ++ [offset + n + 1])
    else offsets

/-- `lineToByteOffsets(src)` -/
def lineToByteOffsets (src : Bytes) : List Nat :=
  lineOffsetsLoop (src.length + 1) src 0 [0, 0]

/-! ### getFuncAST -/

/-- `p.getFuncAST(f, l)` followed by `extractArgumentsType`: `.error` is the
returned error, `.ok none` is `f == nil` -/
def ParsedFile.getFuncAST (p : ParsedFile) (f : Bytes) (l : Nat) :
    Except ErrKind (Option (List Bytes × Bool)) :=
  if p.lineToByteOffset.length ≤ l then .error .lineOver
  else .ok (p.parsed.funcAt f l)

/-! ### loadFile -/

/-- `c.loadFile(fileName)`: the cache afterwards and the returned error -/
def loadFile (o : Oracle) (c : Cache) (fileName : Bytes) : Cache × Option ErrKind :=
  if fileName = [] then (c, none)
  else if c.has fileName then (c, none)
  else
    if !hasSuffix fileName b!".go" then (c.insert fileName none, some .nonGo)
    else
      match o.readFile fileName with
      | none => (c.insert fileName none, some .read)
      | some src =>
        match o.parse src with
        | none => (c.insert fileName none, some .parse)
        | some parsed =>
          ((c.insert fileName none).insert fileName (some ⟨lineToByteOffsets src, parsed⟩), none)

/-! ### augmentGoroutine -/

/-- `err = err1` under `if err1 != nil` -/
def lastErr (old new : Option ErrKind) : Option ErrKind :=
  match new with
  | some e => some e
  | none => old

/-- `augmentCall(&g.Stack.Calls[i], f)`: appends to `Processed` -/
def applyAugment (ff : FloatFmt) (call : Call) (types : List Bytes) (ellipsis : Bool) : Except AugErr Call :=
  match augmentCall ff types ellipsis call.args with
  | .error e => .error e
  | .ok ps => .ok { call with args := { call.args with processed := call.args.processed ++ ps } }

/-- the part of one iteration after `loadFile`: `c1` is the cache, `e1` the
error of `loadFile`.  Returns the call afterwards and the error assigned to
`err` in this iteration (`none`: `err` is not assigned). -/
def lookupAndAugment (ff : FloatFmt) (c1 : Cache) (e1 : Option ErrKind) (call : Call) :
    Except AugErr (Call × Option ErrKind) :=
  match c1.get call.localSrcPath with
  | none => .ok (call, e1)
  | some p =>
    match p.getFuncAST call.fn.name call.line with
    | .error e => .ok (call, some e)
    | .ok none => .ok (call, e1)
    | .ok (some te) =>
      match applyAugment ff call te.1 te.2 with
      | .error pe => .error pe
      | .ok call' => .ok (call', e1)

/-- one iteration of the loop of `augmentGoroutine`: the cache afterwards, the
call afterwards, the error assigned in this iteration -/
def augmentStep (ff : FloatFmt) (o : Oracle) (c : Cache) (call : Call) :
    Except AugErr (Cache × Call × Option ErrKind) :=
  if call.args.values.length = 0 then .ok (c, call, none)      -- `continue`
  else
    match lookupAndAugment ff (loadFile o c call.localSrcPath).1 (loadFile o c call.localSrcPath).2 call with
    | .error pe => .error pe
    | .ok r => .ok ((loadFile o c call.localSrcPath).1, r.1, r.2)

/-- the loop of `augmentGoroutine` over `g.Stack.Calls` -/
def augmentCalls (ff : FloatFmt) (o : Oracle) :
    Cache → Option ErrKind → List Call → Except AugErr (Cache × List Call × Option ErrKind)
  | c, err, [] => .ok (c, [], err)
  | c, err, call :: rest =>
    match augmentStep ff o c call with
    | .error pe => .error pe
    | .ok s =>
      match augmentCalls ff o s.1 (lastErr err s.2.2) rest with
      | .error pe => .error pe
      | .ok r => .ok (r.1, s.2.1 :: r.2.1, r.2.2)

/-- `g.Stack.Calls = calls` -/
def Goroutine.setCalls (g : Goroutine) (calls : List Call) : Goroutine :=
  { g with sig := { g.sig with stack := { g.sig.stack with calls := calls } } }

/-- `c.augmentGoroutine(g)`: cache, goroutine and returned error -/
def augmentGoroutine (ff : FloatFmt) (o : Oracle) (c : Cache) (g : Goroutine) :
    Except AugErr (Cache × Goroutine × Option ErrKind) :=
  match augmentCalls ff o c none g.sig.stack.calls with
  | .error pe => .error pe
  | .ok r => .ok (r.1, Goroutine.setCalls g r.2.1, r.2.2)

/-! ### Snapshot.augment -/

/-- the loop of `Snapshot.augment` over `s.Goroutines`, one shared cache -/
def augmentGs (ff : FloatFmt) (o : Oracle) :
    Cache → Option ErrKind → List Goroutine → Except AugErr (Cache × List Goroutine × Option ErrKind)
  | c, err, [] => .ok (c, [], err)
  | c, err, g :: rest =>
    match augmentGoroutine ff o c g with
    | .error pe => .error pe
    | .ok s =>
      match augmentGs ff o s.1 (lastErr err s.2.2) rest with
      | .error pe => .error pe
      | .ok r => .ok (r.1, s.2.1 :: r.2.1, r.2.2)

/-- `(*Snapshot).augment`: the goroutines afterwards and the last error;
`.error` = the Go code panics -/
def augment (ff : FloatFmt) (o : Oracle) (gs : List Goroutine) :
    Except AugErr (List Goroutine × Option ErrKind) :=
  match augmentGs ff o [] none gs with
  | .error pe => .error pe
  | .ok r => .ok (r.2.1, r.2.2)

end PP.AugGlue
