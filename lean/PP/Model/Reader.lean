import PP.Model.Bytes
/-
The line reader of stack/reader.go (`fill`, `readSlice`, `readLine`,
`buffered`) over a *delivery schedule*.

List-level model: the buffer content `r.buf[r.r:r.w]` is a list; sliding the
data to the front of the array (`copy`) and the search offset `s` are
invisible at this level.  The capacity `N` (16 KiB in the code) and the retry
bound (100) are parameters; the theorems hold for every `N > 0`.

What is modelled by contract: `io.Reader.Read(p)` returns `0 ≤ n ≤ len(p)`
bytes and possibly an error.  A source is the remaining bytes, the sizes the
successive `Read`s are willing to deliver (0 = a zero-length read without
error), the terminal error, and whether that error is reported together with
the last data or by a separate `Read` returning `0, err`.
-/
namespace PP

inductive RErr
  | eof
  | other (tag : Nat)
  | noProgress
  deriving DecidableEq, Repr, Inhabited

structure Src where
  rest : Bytes
  sched : List Nat
  final : RErr := .eof
  withData : Bool := false
  deriving Repr, Inhabited

/-- one `Read` into a slice with `space > 0` free bytes -/
def Src.read (s : Src) (space : Nat) : Bytes × Option RErr × Src :=
  if s.rest = [] then ([], some s.final, s)
  else
    let n := match s.sched with
      | [] => space
      | k :: _ => min k space
    let c := s.rest.take n
    let rest' := s.rest.drop n
    let s' : Src := { s with rest := rest', sched := s.sched.drop 1 }
    if rest' = [] && s.withData && n > 0 then (c, some s.final, s') else (c, none, s')

inductive RPanic | fillFull
  deriving DecidableEq, Repr

/-- reader state: `buf` = `r.buf[r.r:r.w]`, `err` = `r.err` -/
structure Rd where
  buf : Bytes := []
  err : Option RErr := none
  src : Src
  deriving Repr, Inhabited

/-- the retry loop of `fill` (reader.go:36-49): `k` attempts left -/
def fillLoop (N : Nat) : Nat → Rd → Rd
  | 0, r => { r with err := some .noProgress }
  | k + 1, r =>
    let (c, e, s') := r.src.read (N - r.buf.length)
    let r' : Rd := { r with buf := r.buf ++ c, src := s' }
    match e with
    | some e => { r' with err := some e }
    | none => if c.length > 0 then r' else fillLoop N k r'

/-- `fill` (reader.go:25-50) -/
def fill (N retry : Nat) (r : Rd) : Except RPanic Rd :=
  if r.buf.length ≥ N then .error .fillFull else .ok (fillLoop N retry r)

/-- split at the first '\n', inclusive -/
def cutNL : Bytes → Option (Bytes × Bytes)
  | [] => none
  | b :: bs =>
    if b = 10 then some ([b], bs)
    else match cutNL bs with
      | some (l, r) => some (b :: l, r)
      | none => none

inductive SliceErr
  | rerr (e : RErr)
  | bufferFull
  deriving DecidableEq, Repr

/-- `readSlice` (reader.go:56-77); `fuel` bounds the number of `fill`s
(`readSlice_fuel`: `N + 1` always suffices). `none` = out of fuel. -/
def readSlice (N retry : Nat) : Nat → Rd → Option (Except RPanic (Bytes × Option SliceErr × Rd))
  | 0, _ => none
  | fuel + 1, r =>
    match cutNL r.buf with
    | some (l, rest) => some (.ok (l, none, { r with buf := rest }))
    | none =>
      match r.err with
      | some e => some (.ok (r.buf, some (.rerr e), { r with buf := [], err := none }))
      | none =>
        if r.buf.length = N then some (.ok (r.buf, some .bufferFull, { r with buf := [] }))
        else match fill N retry r with
          | .error p => some (.error p)
          | .ok r' => readSlice N retry fuel r'

/-- `readLine` (reader.go:87-103): glue `errBufferFull` slices. `fuel` bounds the
number of `readSlice` calls. -/
def readLine (N retry : Nat) : Nat → Bytes → Rd → Option (Except RPanic (Bytes × Option RErr × Rd))
  | 0, _, _ => none
  | fuel + 1, acc, r =>
    match readSlice N retry (N + 2) r with
    | none => none
    | some (.error p) => some (.error p)
    | some (.ok (f, some .bufferFull, r')) => readLine N retry fuel (acc ++ f) r'
    | some (.ok (f, some (.rerr e), r')) => some (.ok (acc ++ f, some e, r'))
    | some (.ok (f, none, r')) => some (.ok (acc ++ f, none, r'))

/-- enough fuel for any state: every `errBufferFull` round consumes `N ≥ 1` bytes -/
def lineFuel (r : Rd) : Nat := r.buf.length + r.src.rest.length + 2

/-- the whole stream as the reader delivers it: the successive `readLine`
results up to and including the first error. -/
def readAll (N retry : Nat) : Nat → Rd → Option (Except RPanic (List (Bytes × Option RErr)))
  | 0, _ => none
  | fuel + 1, r =>
    match readLine N retry (lineFuel r) [] r with
    | none => none
    | some (.error p) => some (.error p)
    | some (.ok (l, some e, _)) => some (.ok [(l, some e)])
    | some (.ok (l, none, r')) =>
      match readAll N retry fuel r' with
      | some (.ok ls) => some (.ok ((l, none) :: ls))
      | x => x

/-! ### Specification: the canonical line split -/

/-- complete lines (each ending in '\n') and the unterminated tail -/
def splitLines : Bytes → List Bytes × Bytes
  | [] => ([], [])
  | b :: bs =>
    let (ls, t) := splitLines bs
    if b = 10 then ([b] :: ls, t)
    else match ls with
      | [] => ([], b :: t)
      | l :: ls' => ((b :: l) :: ls', t)

/-- what `readAll` must return for a stream with content `bs` ending in `e` -/
def specLines (bs : Bytes) (e : RErr) : List (Bytes × Option RErr) :=
  let (ls, t) := splitLines bs
  ls.map (fun l => (l, none)) ++ [(t, some e)]

/-- longest run of zero-length reads in a schedule -/
def maxZeroRun : List Nat → Nat
  | [] => 0
  | 0 :: t => max (1 + zeroPrefix t) (maxZeroRun t)
  | _ :: t => maxZeroRun t
where zeroPrefix : List Nat → Nat
  | 0 :: t => 1 + zeroPrefix t
  | _ => 0

end PP
