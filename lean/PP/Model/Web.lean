import PP.Model.Num
import PP.Model.Types
/-
stack/webstack/webstack.go: `SnapshotHandler` (decision logic) and `snapshot`
(buffer growth), together with the part of `strconv.Atoi` they rely on.

Trusted by contract (not modelled): `net/http` (`req.Method`, `req.FormValue`
are inputs of the model), `runtime.Stack` (its result is a parameter: the size
`need i` of the text it wants to write at the i-th call, truncated to the
buffer), `stack.ScanSnapshot` on the captured text (a Boolean `snapOK` at this
level; the scanner itself is `PP/Model/Scan.lean`), `Aggregate`/`ToHTML`.
-/
namespace PP
open Bytes

/-! ## strconv.Atoi (64-bit `int`) -/

/-- strconv.ParseUint(s, 10, 64) (atoi.go:61-157 with base = 10, so `base0` is
false: no underscores, no prefixes).  `none` = syntax or range error. -/
def parseUint10 (s : Bytes) : Option Nat :=
  let cutoff : Nat := (2 ^ 64 - 1) / 10 + 1
  let rec go (n : Nat) : Bytes → Option Nat
    | [] => some n
    | c :: t =>
      -- `'0' <= c <= '9'`; letters give `d >= base`, everything else the default case
      if !isDigit c then none
      else if n ≥ cutoff then none                 -- n*base overflows
      else
        let n1 := n * 10 + (c.toNat - 48)
        if n1 ≥ 2 ^ 64 then none else go n1 t       -- n+d overflows (`n1 < n`)
  match s with
  | [] => none
  | _ => go 0 s

/-- strconv.ParseInt(s, 10, 0) with a 64-bit `int` (atoi.go:185-227). -/
def parseInt10 (s0 : Bytes) : Option Int :=
  match s0 with
  | [] => none
  | c :: t =>
    let neg := c == 45
    let s := if c == 43 || c == 45 then t else s0
    match parseUint10 s with
    | none => none
    | some un =>
      let cutoff : Nat := 2 ^ 63
      if !neg && un ≥ cutoff then none
      else if neg && un > cutoff then none
      else some (if neg then -(un : Int) else (un : Int))

/-- the fast path of strconv.Atoi (atoi.go:235-257): `0 < len(s) < 19`. -/
def atoiFast (s0 : Bytes) : Option Int :=
  match s0 with
  | [] => none                                      -- unreachable: 0 < len
  | c :: t =>
    let signed := c == 45 || c == 43
    let s := if signed then t else s0
    if signed && s.length < 1 then none
    else if !s.all isDigit then none                -- `ch -= '0'; if ch > 9`
    else
      let n : Int := (digitsVal s : Nat)
      some (if c == 45 then -n else n)

/-- strconv.Atoi -/
def atoi (s : Bytes) : Option Int :=
  if 0 < s.length && s.length < 19 then atoiFast s else parseInt10 s

/-! ## SnapshotHandler -/

def methodGET : Bytes := b!"GET"
def defaultMaxmem : Int := 64 * 2 ^ 20

/-- the `maxmem` form value: `some` the value handed to `snapshot`, `none` = 400 -/
def parseMaxmem (s : Bytes) : Option Int :=
  if s == [] then some defaultMaxmem else atoi s

/-- the `augment` form value: `some analyzeSources`, `none` = 400.
`stack.DefaultOpts()` has `AnalyzeSources = true`; only the value 0 clears it. -/
def parseAugment (s : Bytes) : Option Bool :=
  if s == [] then some true
  else match atoi s with
    | none => none
    | some v => if v < 0 || v > 1 then none else some (v != 0)

/-- the `similarity` switch -/
def parseSimilarity (s : Bytes) : Option Lvl :=
  if s == b!"exactflags" then some .exactFlags
  else if s == b!"exactlines" then some .exactLines
  else if s == b!"anypointer" || s == [] then some .anyPointer
  else if s == b!"anyvalue" then some .anyValue
  else none

/-- what the handler hands to `snapshot` and `Aggregate` -/
structure WebPlan where
  maxmem : Int
  analyzeSources : Bool
  deriving DecidableEq, Repr

/-- the part of the handler before the call of `snapshot`: an early status or
the arguments of `snapshot`. -/
def handlerPlan (method maxmem augment : Bytes) : Except Nat WebPlan :=
  if method != methodGET then .error 405
  else match parseMaxmem maxmem with
    | none => .error 400
    | some mm =>
      match parseAugment augment with
      | none => .error 400
      | some a => .ok { maxmem := mm, analyzeSources := a }

/-- `SnapshotHandler`'s status as a function of the method, the three form
values and whether `snapshot` returned without error.  The order is the
code's: method, maxmem, augment, snapshot, similarity. -/
def handlerStatus (method maxmem augment similarity : Bytes) (snapOK : Bool) : Nat :=
  match handlerPlan method maxmem augment with
  | .error st => st
  | .ok _ =>
    if !snapOK then 500
    else match parseSimilarity similarity with
      | none => 400
      | some _ => 200

/-- the options of a request that reaches `Aggregate` -/
def handlerOpts (maxmem augment similarity : Bytes) : Option (WebPlan × Lvl) :=
  match handlerPlan methodGET maxmem augment, parseSimilarity similarity with
  | .ok p, some l => some (p, l)
  | _, _ => none

/-! ### the parameter classes, as the property speaks of them -/

def maxmemOK (s : Bytes) : Bool := s == [] || (atoi s).isSome
def augmentOK (s : Bytes) : Bool := s == [] || atoi s == some 0 || atoi s == some 1
def similarityOK (s : Bytes) : Bool :=
  s == b!"exactflags" || s == b!"exactlines" || s == b!"anypointer" || s == [] || s == b!"anyvalue"

/-! ## snapshot: buffer growth -/

def minBuf : Nat := 2 ^ 20

/-- `if maxmem < len(buf) { maxmem = len(buf) }` -/
def clampMaxmem (maxmem : Int) : Nat := max maxmem.toNat minBuf

/-- the `for i := 0; ; i++` loop of `snapshot`: the buffer sizes tried, from the
current one (`len`) on.  `need i` is the size of the text `runtime.Stack` wants
to write at the i-th call (it changes from call to call in a live process);
`runtime.Stack` returns `min (need i) len`, so `n < len(buf)` is `need i < len`.
`mm` is the clamped `maxmem`. -/
def growLoop (mm : Nat) (need : Nat → Nat) (i len : Nat) (h : 0 < len) : List Nat :=
  if need i < len then [len]                       -- fits: `buf = buf[:n]; break`
  else if hmm : mm ≤ len then [len]                -- `len(buf) >= maxmem`: give up, truncated
  else
    let l := if mm < len * 2 then mm else len * 2
    len :: growLoop mm need (i + 1) l (by
      show 0 < (if mm < len * 2 then mm else len * 2); split <;> omega)
termination_by mm - len
decreasing_by
  show mm - (if mm < len * 2 then mm else len * 2) < mm - len
  split <;> omega

/-- buffer sizes tried by `snapshot(maxmem, _)` when the dump size varies -/
def growStepsVar (maxmem : Int) (need : Nat → Nat) : List Nat :=
  growLoop (clampMaxmem maxmem) need 0 minBuf (by decide)

/-- buffer sizes tried by `snapshot(maxmem, _)` for a dump of constant size -/
def growSteps (maxmem : Int) (need : Nat) : List Nat := growStepsVar maxmem (fun _ => need)

/-- the bytes handed to `ScanSnapshot`: the runtime's text cut to the last buffer -/
def snapshotInput (maxmem : Int) (dump : Bytes) : Bytes :=
  dump.take ((growSteps maxmem dump.length).getLast?.getD minBuf)

end PP
