import PP.Model.Types
/-
equal / similar / merge / less for Arg … Signature (stack.go:178-756).
-/
namespace PP

def star : Bytes := b!"*"

/-- lexicographic `<` on Go strings (byte-wise) -/
def bytesLt : Bytes → Bytes → Bool
  | [], [] => false
  | [], _ :: _ => true
  | _ :: _, [] => false
  | a :: as, b :: bs => a < b || (a == b && bytesLt as bs)

mutual
/-- Arg.similar (stack.go:184-216) -/
def Arg.similar (l : Lvl) : Arg → Arg → Bool
  | .scalar n v p o _, .scalar n' v' p' o' _ =>
    match l with
    | .exactFlags | .exactLines => n == n' && o == o' && p == p' && v == v'
    | .anyValue => true
    | .anyPointer => o == o' && p == p' && (p || v == v')
  | .agg fs e, .agg fs' e' => e == e' && Arg.similarL l fs fs'
  | _, _ => false
/-- the element-wise loop of Args.similar, including the length test -/
def Arg.similarL (l : Lvl) : List Arg → List Arg → Bool
  | [], [] => true
  | a :: as, b :: bs => Arg.similar l a b && Arg.similarL l as bs
  | _, _ => false
end

/-- Arg.equal (stack.go:179-181) -/
abbrev Arg.equal : Arg → Arg → Bool := Arg.similar .exactFlags

mutual
/-- One element of Args.merge (stack.go:282-294).  For an aggregate on the left
Go recurses into `rv.Fields` whatever `rv` is; a scalar on the right has no
fields, so the recursion runs against the empty list. -/
def Arg.merge : Arg → Arg → Arg
  | .agg fs e, .agg fs' _ => .agg (Arg.mergeL fs fs') e
  | .agg fs e, .scalar .. => .agg (Arg.mergeL fs []) e
  | .scalar n v p o i, r =>
    if Arg.equal (.scalar n v p o i) r then .scalar n v p o i else .scalar star v p false false
/-- Args.merge on the value lists.  Go indexes `r.Values[i]` for every `i` of the
left list and panics when the right list is shorter; the model keeps the left
element there and `Arg.shapeOKL` records that this case is a panic. -/
def Arg.mergeL : List Arg → List Arg → List Arg
  | a :: as, b :: bs => Arg.merge a b :: Arg.mergeL as bs
  | as, _ => as
end

mutual
/-- `merge` does not index out of range: the right side is at least as long
wherever Go indexes it. -/
def Arg.shapeOK : Arg → Arg → Bool
  | .agg fs _, .agg fs' _ => Arg.shapeOKL fs fs'
  | .agg fs _, .scalar .. => Arg.shapeOKL fs []
  | .scalar .., _ => true
def Arg.shapeOKL : List Arg → List Arg → Bool
  | a :: as, b :: bs => Arg.shapeOK a b && Arg.shapeOKL as bs
  | [], _ => true
  | _ :: _, [] => false
end

def Args.similar (l : Lvl) (a r : Args) : Bool :=
  a.elided == r.elided && Arg.similarL l a.values r.values

def Args.equal (a r : Args) : Bool := Args.similar .exactFlags a r

/-- Args.merge (stack.go:277-296): `Processed` is not carried over. -/
def Args.merge (a r : Args) : Args :=
  { values := Arg.mergeL a.values r.values, processed := [], elided := a.elided }

def Call.similar (l : Lvl) (c r : Call) : Bool :=
  c.line == r.line && c.fn.complete == r.fn.complete && c.remoteSrcPath == r.remoteSrcPath &&
    Args.similar l c.args r.args

def Call.equal (c r : Call) : Bool := Call.similar .exactFlags c r

def Call.merge (c r : Call) : Call := { c with args := Args.merge c.args r.args }

def callsSimilar (l : Lvl) : List Call → List Call → Bool
  | [], [] => true
  | a :: as, b :: bs => Call.similar l a b && callsSimilar l as bs
  | _, _ => false

def callsMerge : List Call → List Call → List Call
  | a :: as, b :: bs => Call.merge a b :: callsMerge as bs
  | as, _ => as

def callsShapeOK : List Call → List Call → Bool
  | a :: as, b :: bs => Arg.shapeOKL a.args.values b.args.values && callsShapeOK as bs
  | [], _ => true
  | _ :: _, [] => false

def Stack.similar (l : Lvl) (s r : Stack) : Bool :=
  s.elided == r.elided && callsSimilar l s.calls r.calls

def Stack.equal (s r : Stack) : Bool := Stack.similar .exactFlags s r

def Stack.merge (s r : Stack) : Stack :=
  { calls := callsMerge s.calls r.calls, elided := s.elided }

/-- Signature.equal (stack.go:693-698) -/
def Signature.equal (s r : Signature) : Bool :=
  s.state == r.state && Stack.equal s.createdBy r.createdBy && s.locked == r.locked &&
    s.sleepMin == r.sleepMin && s.sleepMax == r.sleepMax && Stack.equal s.stack r.stack

/-- Signature.similar (stack.go:702-710) -/
def Signature.similar (l : Lvl) (s r : Signature) : Bool :=
  s.state == r.state && Stack.similar l s.createdBy r.createdBy &&
    (l != .exactFlags || s.locked == r.locked) && Stack.similar l s.stack r.stack

/-- Signature.merge (stack.go:713-730) -/
def Signature.merge (s r : Signature) : Signature :=
  { state := s.state, createdBy := s.createdBy,
    sleepMin := min s.sleepMin r.sleepMin, sleepMax := max s.sleepMax r.sleepMax,
    stack := Stack.merge s.stack r.stack, locked := s.locked || r.locked }

/-- `Signature.merge` does not index out of range -/
def Signature.shapeOK (s r : Signature) : Bool := callsShapeOK s.stack.calls r.stack.calls

/-! ### less -/

def countLoc (cs : List Call) (loc : Loc) : Nat := (cs.filter (fun c => c.location == loc)).length
def countMain (cs : List Call) : Nat := (cs.filter (fun c => c.fn.isPkgMain)).length

/-- three-way result of the per-frame comparison loop of Stack.less
(stack.go:604-623); `none` = Go would index `r.Calls[x]` out of range. -/
def framesCmp : List Call → List Call → Option Ordering
  | [], _ => some .eq
  | _ :: _, [] => none
  | a :: as, b :: bs =>
    if bytesLt a.fn.complete b.fn.complete then some .lt
    else if bytesLt b.fn.complete a.fn.complete then some .gt
    else if bytesLt a.dirSrc b.dirSrc then some .lt
    else if bytesLt b.dirSrc a.dirSrc then some .gt
    else if a.line < b.line then some .lt
    else if b.line < a.line then some .gt
    else framesCmp as bs

/-- the counters compared by Stack.less, most significant first:
main, then locations 1..4 (GoMod, GOPATH, GoPkg, Stdlib), then unknown. -/
def histo (cs : List Call) : List Nat :=
  [countMain cs, countLoc cs .goMod, countLoc cs .gopath, countLoc cs .goPkg, countLoc cs .stdlib,
   countLoc cs .unknown]

/-- "more is less": first differing counter decides, larger count first -/
def histoCmp : List Nat → List Nat → Ordering
  | a :: as, b :: bs => if a > b then .lt else if a < b then .gt else histoCmp as bs
  | _, _ => .eq

/-- Stack.less (stack.go:564-626); `none` = index out of range panic -/
def Stack.less? (s r : Stack) : Option Bool :=
  match histoCmp (histo s.calls) (histo r.calls) with
  | .lt => some true
  | .gt => some false
  | .eq => (framesCmp s.calls r.calls).map (· == .lt)

def Stack.less (s r : Stack) : Bool := (Stack.less? s r).getD false

/-- Signature.less (stack.go:736-756) -/
def Signature.less (s r : Signature) : Bool :=
  if Stack.less s.stack r.stack then true
  else if Stack.less r.stack s.stack then false
  else if s.locked && !r.locked then true
  else if r.locked && !s.locked then false
  else bytesLt s.state r.state

/-- no index panic in Signature.less -/
def Signature.lessSafe (s r : Signature) : Bool :=
  (Stack.less? s.stack r.stack).isSome && (Stack.less? r.stack s.stack).isSome

end PP
