import PP.Model.Types
/-
augmentCall (stack/source.go:241-380).

What is modelled: the walk that flattens `call.Args` (`Args.walk`), the three
closures `pop` / `popFmt` / `popName`, the loop over the flattened scalars
with its `i >= len(types)` / ellipsis logic and every case of `switch t`.

What is NOT modelled (inputs of the model, trusted):
* go/parser, `getFuncAST`, `extractArgumentsType`: the list of parameter type
  names and the ellipsis flag are inputs;
* `strconv.FormatFloat(f, 'g', -1, 32|64)`: the two functions from the bit
  pattern to the text are parameters (`FloatFmt`).

Representation of the loop state: Go keeps the index `i` and reads
`types[i]`, `types[len(types)-1]` and `call.Args.Values[i]`; the model keeps
`types[i:]` (`tys`), `types[len(types)-1]` (`last`, `none` iff `types` is
empty) and `call.Args.Values[i:]` (`vals`).  `i >= len(types)` is `tys = []`,
`i < len(call.Args.Values)` is `vals ≠ []`, `i++` is `tail` on both.
-/
namespace PP.Aug
open PP PP.Bytes

/-- what `augmentCall` reads of a non-aggregate `*Arg`: Name, Value,
IsOffsetTooLarge -/
structure Flat where
  name : Bytes
  value : Nat
  otl : Bool
  deriving Repr, DecidableEq, Inhabited

mutual
/-- `Args.walk` collecting the visited scalars in visiting order -/
def flat1 : Arg → List Flat
  | .scalar n v _ o _ => [⟨n, v, o⟩]
  | .agg fs _ => flatL fs
def flatL : List Arg → List Flat
  | [] => []
  | a :: as => flat1 a ++ flatL as
end

/-- trusted: `strconv.FormatFloat(float64(math.Float32frombits(b)), 'g', -1, 32)`
and `strconv.FormatFloat(math.Float64frombits(b), 'g', -1, 64)` as functions
of the bit pattern. -/
structure FloatFmt where
  f32 : Nat → Bytes
  f64 : Nat → Bytes

/-- closure `pop` -/
def pop : List Flat → Option Flat × List Flat
  | [] => (none, [])
  | a :: t => (some a, t)

/-- closure `popFmt` -/
def popFmt (f : Nat → Bytes) (flat : List Flat) : Bytes × List Flat :=
  match pop flat with
  | (none, r) => (b!"<nil>", r)
  | (some a, r) => if a.otl then (b!"_", r) else (f a.value, r)

/-- closure `popName`; `fmt.Sprintf("0x%x", v)` is `"0x"` followed by the
lower-case hexadecimal digits -/
def popName (flat : List Flat) : Bytes × List Flat :=
  match pop flat with
  | (none, r) => (b!"<nil>", r)
  | (some a, r) =>
    if a.name.length != 0 then (a.name, r)
    else if a.otl then (b!"_", r)
    else (b!"0x" ++ natToHex a.value, r)

/-- `n` successive `popName()` (the visitor of `v.walk` in the aggregate case) -/
def popNames : Nat → List Flat → List Bytes × List Flat
  | 0, flat => ([], flat)
  | n + 1, flat =>
    let (s, flat) := popName flat
    let (ss, flat) := popNames n flat
    (s :: ss, flat)

/-- Go conversion `intN(v)` of a `uint64`: two's complement truncation -/
def toSigned (bits : Nat) (v : Nat) : Int :=
  let m := v % 2 ^ bits
  if m < 2 ^ (bits - 1) then (m : Int) else (m : Int) - (2 ^ bits : Nat)

/-- `strconv.FormatInt(i, 10)` -/
def formatInt (i : Int) : Bytes :=
  if i < 0 then 45 :: natToDec i.natAbs else natToDec i.toNat

/-- `strconv.FormatUint(v, 10)` -/
def formatUint (v : Nat) : Bytes := natToDec v

/-- the cases of `switch t`, in the order the code tests them -/
inductive Kind
  | float32 | float64 | int | int8 | int16 | int32 | int64 | uint | bool | string
  | star    -- default, `strings.HasPrefix(t, "*")`
  | single  -- default, `map[` / `chan ` prefix or `func`
  | slice   -- default, `[]` prefix
  | other   -- default, anything else (interface, struct, array, named type …)
  deriving DecidableEq, Repr

def classify (t : Bytes) : Kind :=
  if t = b!"float32" then .float32
  else if t = b!"float64" then .float64
  else if t = b!"int" then .int
  else if t = b!"int8" then .int8
  else if t = b!"int16" then .int16
  else if t = b!"int32" ∨ t = b!"rune" then .int32
  else if t = b!"int64" then .int64
  else if t = b!"uint" ∨ t = b!"uint8" ∨ t = b!"uint16" ∨ t = b!"uint32" ∨ t = b!"uint64"
      ∨ t = b!"uintptr" ∨ t = b!"byte" then .uint
  else if t = b!"bool" then .bool
  else if t = b!"string" then .string
  else if hasPrefix t b!"*" then .star
  else if hasPrefix t b!"map[" || hasPrefix t b!"chan " || t = b!"func" then .single
  else if hasPrefix t b!"[]" then .slice
  else .other

def fmtBool (v : Nat) : Bytes := if v = 0 then b!"false" else b!"true"

/-- the body of one loop iteration once `t` is known: the string appended to
`Processed` and the remaining scalars.  `vals` is `call.Args.Values[i:]`. -/
def render (ff : FloatFmt) (t : Bytes) (vals : List Arg) (flat : List Flat) : Bytes × List Flat :=
  match classify t with
  | .float32 => popFmt (fun v => ff.f32 (v % 2 ^ 32)) flat
  | .float64 => popFmt ff.f64 flat
  | .int => popFmt (fun v => formatInt (toSigned 64 v)) flat
  | .int8 => popFmt (fun v => formatInt (toSigned 8 v)) flat
  | .int16 => popFmt (fun v => formatInt (toSigned 16 v)) flat
  | .int32 => popFmt (fun v => formatInt (toSigned 32 v)) flat
  | .int64 => popFmt (fun v => formatInt (toSigned 64 v)) flat
  | .uint => popFmt formatUint flat
  | .bool => popFmt fmtBool flat
  | .string =>
    let (name, flat) := popName flat
    let (lenStr, flat) := popFmt formatUint flat
    (t ++ b!"(" ++ name ++ b!", len=" ++ lenStr ++ b!")", flat)
  | .star =>
    let (name, flat) := popName flat
    (t ++ b!"(" ++ name ++ b!")", flat)
  | .single =>
    let (name, flat) := popName flat
    (t ++ b!"(" ++ name ++ b!")", flat)
  | .slice =>
    let (name, flat) := popName flat
    let (lenStr, flat) := popFmt formatUint flat
    let (capStr, flat) := popFmt formatUint flat
    (t ++ b!"(" ++ name ++ b!" len=" ++ lenStr ++ b!" cap=" ++ capStr ++ b!")", flat)
  | .other =>
    match vals with
    | .agg fs elided :: _ =>
      let (fields, flat) := popNames (flatL fs).length flat
      let fields := if elided then fields ++ [b!"..."] else fields
      (t ++ b!"{" ++ join b!", " fields ++ b!"}", flat)
    | _ =>
      let (name, flat) := popName flat
      (t ++ b!"(" ++ name ++ b!")", (pop flat).2)

inductive AugErr
  | index  -- Go panics: `types[len(types)-1]` with `len(types) == 0`
  | fuel   -- artefact of the model, unreachable (`augmentCall_ne_fuel`)
  deriving DecidableEq, Repr

def consOk (s : Bytes) : Except AugErr (List Bytes) → Except AugErr (List Bytes)
  | .ok r => .ok (s :: r)
  | .error e => .error e

/-- the `for i := 0; len(flatArgs) != 0; i++` loop.  Returns the strings
appended to `Processed`. -/
def augmentLoop (ff : FloatFmt) (last : Option Bytes) (extra : Bool) :
    Nat → List Bytes → List Arg → List Flat → Except AugErr (List Bytes)
  | _, _, _, [] => .ok []
  | 0, _, _, _ :: _ => .error .fuel
  | fuel + 1, tys, vals, a :: flat =>
    match tys with
    | [] =>
      if !extra then
        let (s, flat') := popName (a :: flat)
        consOk s (augmentLoop ff last extra fuel [] vals.tail flat')
      else
        match last with
        | none => .error .index
        | some t =>
          let (s, flat') := render ff t vals (a :: flat)
          consOk s (augmentLoop ff last extra fuel [] vals.tail flat')
    | t :: tys' =>
      let (s, flat') := render ff t vals (a :: flat)
      consOk s (augmentLoop ff last extra fuel tys' vals.tail flat')

/-- augmentCall given the result `(types, extra)` of `extractArgumentsType`:
the strings appended to `call.Args.Processed` (which is empty before; nothing
else of the call is written). -/
def augmentCall (ff : FloatFmt) (types : List Bytes) (ellipsis : Bool) (args : Args) :
    Except AugErr (List Bytes) :=
  let flat := flatL args.values
  augmentLoop ff types.getLast? ellipsis (flat.length + args.values.length + 1) types args.values flat

end PP.Aug
