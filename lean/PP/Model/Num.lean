import PP.Model.Bytes
/-
atou (context.go:1162-1174, 64-bit branch) and strconv.ParseUint(s, 0, 64).
-/
namespace PP
open Bytes

def digitsVal (s : Bytes) : Nat := s.foldl (fun n c => n * 10 + (c.toNat - 48)) 0

/-- atou: 1..18 ASCII digits -/
def atou (s : Bytes) : Option Nat :=
  if 0 < s.length && s.length < 19 && s.all isDigit then some (digitsVal s) else none

def lower (c : UInt8) : UInt8 := c ||| 0x20

/-- strconv.underscoreOK -/
def underscoreOK (s0 : Bytes) : Bool :=
  let s := match s0 with
    | c :: t => if c == 45 || c == 43 then t else s0
    | [] => s0
  let (hex, st0, s) := match s with
    | 48 :: c :: t =>
      if lower c == 98 || lower c == 111 || lower c == 120 then (lower c == 120, (48 : UInt8), t)
      else (false, (94 : UInt8), s)
    | _ => (false, (94 : UInt8), s)
  let rec go (st : UInt8) : Bytes → Bool
    | [] => st != 95
    | c :: t =>
      if isDigit c || (hex && 97 ≤ lower c && lower c ≤ 102) then go 48 t
      else if c == 95 then (if st != 48 then false else go 95 t)
      else if st == 95 then false
      else go 33 t
  go st0 s

/-- strconv.ParseUint(s, 0, 64); `none` = any error (syntax or range) -/
def parseUint0 (s0 : Bytes) : Option Nat :=
  match s0 with
  | [] => none
  | c0 :: _ =>
    let (base, s) : Nat × Bytes :=
      if c0 == 48 then
        match s0 with
        | _ :: c1 :: t@(_ :: _) =>
          if lower c1 == 98 then (2, t)
          else if lower c1 == 111 then (8, t)
          else if lower c1 == 120 then (16, t)
          else (8, s0.drop 1)
        | _ => (8, s0.drop 1)
      else (10, s0)
    let rec go (n : Nat) (us : Bool) : Bytes → Option (Nat × Bool)
      | [] => some (n, us)
      | c :: t =>
        if c == 95 then go n true t
        else
          let d? : Option Nat :=
            if isDigit c then some (c.toNat - 48)
            else if 97 ≤ lower c && lower c ≤ 122 then some ((lower c).toNat - 97 + 10)
            else none
          match d? with
          | none => none
          | some d =>
            if d ≥ base then none
            else
              let n1 := n * base + d
              if n1 ≥ 2 ^ 64 then none else go n1 us t
    match go 0 false s with
    | none => none
    | some (n, us) => if us && !underscoreOK s0 then none else some n

end PP
