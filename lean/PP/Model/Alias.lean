import PP.Model.Aggregate
/-
An explicit-heap ("aliasing") model of `Snapshot.Aggregate` and the `merge`
family (bucket.go:42-107, stack.go:282-296, 497-511, 553-563, 720-737).

In `PP/Model/Aggregate.lean` values are immutable, so "Aggregate does not
modify the snapshot" is true by construction and says nothing about Go, where
a bucket key starts as a *shallow copy* of a goroutine's signature
(`*key = routine.Signature`: `Stack.Calls`, every `Args.Values` and every nested
`Fields.Values` slice is shared with the snapshot).  Here the backing arrays of
`[]Arg` and `[]Call` live in a heap of cells, a slice is an address, every
allocation (`make`) and every element write (`out.Values[i] = …`,
`out.Calls[i] = …`) is an explicit heap operation, and reads are lookups in
the *current* heap.

Conventions.
* An address is an index into the list of cells; `alloc` appends, so the
  address of a new cell is the old length.  Cells are never freed or moved.
* A slice header is `Option Addr`: `none` is the nil slice.  No function
  modelled here reslices or appends to an `[]Arg`/`[]Call`, so length and
  capacity are the length of the cell.
* The field writes `out.Values[i].IsAggregate = true; out.Values[i].Fields = …`
  and `….Name = "*"; ….Value = …; ….IsPtr = …` target the same element of the
  same cell; each group is one `writeArg` of the resulting element.
* `Args.Processed` (`[]string`) is kept as immutable data: no write in the
  pinned write set (`PP/Tie/Alias.lean`) goes through it.
* The struct fields of a `Goroutine`/`Signature` themselves (State, SleepMin,
  the slice headers, …) are values, not heap cells: `*key = routine.Signature`
  copies them, and the pinned write set has no write through `routine` or `s`.
* Index-out-of-range panics (`r.Values[i]`, `r.Calls[i]` with a shorter right
  side) are modelled as in `Arg.mergeL` / `callsMerge`: the left element is
  kept (copied as a struct, i.e. an aggregate keeps pointing to the old fields
  cell).  `Signature.shapeOK` says when this does not happen.
* Recursion through the heap is not structural (a heap can be cyclic).  The
  recursive functions take *fuel* (`mergeArgsH`, `absArgsL`): one unit per
  nesting level of aggregates.  `wfArgs d` (in range, nesting depth < d) makes
  fuel `d` sufficient (a nil slice has depth 0); the parser bounds nesting by `Extracted.maxDepth`.
-/
namespace PP.Alias

abbrev Addr := Nat
/-- a Go slice header; `none` = nil -/
abbrev Slice := Option Addr

/-- stack.Arg with `Fields.Values` as a slice into the heap -/
inductive HArg where
  | scalar (name : Bytes) (value : Nat) (isPtr otl inaccurate : Bool)
  | agg (fields : Slice) (elided : Bool)
  deriving DecidableEq, Repr, Inhabited

/-- the zero `Arg{}` that `make([]Arg, n)` fills the new array with -/
def HArg.zero : HArg := .scalar [] 0 false false false

/-- stack.Args -/
structure HArgs where
  values : Slice := none
  processed : List Bytes := []
  elided : Bool := false
  deriving DecidableEq, Repr, Inhabited

/-- `rv.Fields` : the fields of an aggregate, the zero `Args{}` for a scalar -/
def HArg.fieldsArgs : HArg → HArgs
  | .agg fs e => { values := fs, elided := e }
  | .scalar .. => {}

/-- stack.Call -/
structure HCall where
  fn : Func := {}
  args : HArgs := {}
  remoteSrcPath : Bytes := []
  line : Nat := 0
  srcName : Bytes := []
  dirSrc : Bytes := []
  localSrcPath : Bytes := []
  relSrcPath : Bytes := []
  importPath : Bytes := []
  location : Loc := .unknown
  deriving DecidableEq, Repr, Inhabited

/-- the zero `Call{}` of `make([]Call, n)` -/
def HCall.zero : HCall := {}

/-- stack.Stack -/
structure HStack where
  calls : Slice := none
  elided : Bool := false
  deriving DecidableEq, Repr, Inhabited

/-- stack.Signature -/
structure HSig where
  state : Bytes := []
  createdBy : HStack := {}
  sleepMin : Nat := 0
  sleepMax : Nat := 0
  stack : HStack := {}
  locked : Bool := false
  deriving DecidableEq, Repr, Inhabited

/-- stack.Goroutine -/
structure HGoroutine where
  sig : HSig := {}
  id : Nat := 0
  first : Bool := false
  raceWrite : Bool := false
  raceAddr : Nat := 0
  deriving DecidableEq, Repr, Inhabited

/-- the backing arrays -/
structure Heap where
  argCells : List (List HArg) := []
  callCells : List (List HCall) := []
  deriving DecidableEq, Repr, Inhabited

namespace Heap

/-- read a whole `[]Arg` -/
def argCell (h : Heap) : Slice → List HArg
  | none => []
  | some a => (h.argCells[a]?).getD []

/-- read a whole `[]Call` -/
def callCell (h : Heap) : Slice → List HCall
  | none => []
  | some a => (h.callCells[a]?).getD []

/-- `make([]Arg, n)` with given initial contents -/
def allocArgs (h : Heap) (init : List HArg) : Heap × Addr :=
  ({ h with argCells := h.argCells ++ [init] }, h.argCells.length)

/-- `make([]Call, n)` -/
def allocCalls (h : Heap) (init : List HCall) : Heap × Addr :=
  ({ h with callCells := h.callCells ++ [init] }, h.callCells.length)

/-- `cell[a][i] = v` -/
def writeArg (h : Heap) (a : Addr) (i : Nat) (v : HArg) : Heap :=
  { h with argCells := h.argCells.modify a (fun c => c.set i v) }

/-- `cell[a][i] = v` -/
def writeCall (h : Heap) (a : Addr) (i : Nat) (v : HCall) : Heap :=
  { h with callCells := h.callCells.modify a (fun c => c.set i v) }

end Heap

/-! ### merge over the heap -/

/-- `l.equal(rv)` for a non-aggregate `l` (stack.go:189-205 at ExactFlags): a pure
comparison of the two structs, no slice is read. -/
def scalarEqual : HArg → HArg → Bool
  | .scalar n v p o _, .scalar n' v' p' o' _ => n == n' && o == o' && p == p' && v == v'
  | _, _ => false

/-- the body of `for i, l := range a.Values` in Args.merge (stack.go:287-298) for
index `i`, in heap `h`; `rec` is Args.merge itself (one nesting level down),
`o` the address of `out.Values`. -/
def mergeArgsStep (rec : Heap → HArgs → HArgs → Heap × HArgs) (a r : Slice) (o : Addr)
    (i : Nat) (h : Heap) : Heap :=
  match (h.argCell a)[i]? with
  | none => h
  | some l =>
    match (h.argCell r)[i]? with
    | none => h.writeArg o i l
    | some rv =>
      match l with
      | .agg fs e =>
        let res := rec h { values := fs, elided := e } rv.fieldsArgs
        res.1.writeArg o i (.agg res.2.values res.2.elided)
      | .scalar _ v p _ _ =>
        if scalarEqual l rv then h.writeArg o i l
        else h.writeArg o i (.scalar star v p false false)

/-- the loop: `k` iterations left, next index `i` -/
def mergeArgsLoop (rec : Heap → HArgs → HArgs → Heap × HArgs) (a r : Slice) (o : Addr) :
    Nat → Nat → Heap → Heap
  | 0, _, h => h
  | k + 1, i, h => mergeArgsLoop rec a r o k (i + 1) (mergeArgsStep rec a r o i h)

/-- Args.merge (stack.go:282-299).  Out of fuel: return the receiver (no write). -/
def mergeArgsH : Nat → Heap → HArgs → HArgs → Heap × HArgs
  | 0, h, a, _ => (h, { values := a.values, processed := [], elided := a.elided })
  | f + 1, h, a, r =>
    let n := (h.argCell a.values).length
    let al := h.allocArgs (List.replicate n HArg.zero)
    (mergeArgsLoop (mergeArgsH f) a.values r.values al.2 n 0 al.1,
     { values := some al.2, processed := [], elided := a.elided })

/-- Call.merge (stack.go:497-511) -/
def mergeCallH (fuel : Nat) (h : Heap) (c r : HCall) : Heap × HCall :=
  let res := mergeArgsH fuel h c.args r.args
  (res.1, { c with args := res.2 })

/-- the body of `for i := range s.Calls` in Stack.merge -/
def mergeStackStep (fuel : Nat) (s r : Slice) (o : Addr) (i : Nat) (h : Heap) : Heap :=
  match (h.callCell s)[i]? with
  | none => h
  | some c =>
    match (h.callCell r)[i]? with
    | none => h.writeCall o i c
    | some rc =>
      let res := mergeCallH fuel h c rc
      res.1.writeCall o i res.2

def mergeStackLoop (fuel : Nat) (s r : Slice) (o : Addr) : Nat → Nat → Heap → Heap
  | 0, _, h => h
  | k + 1, i, h => mergeStackLoop fuel s r o k (i + 1) (mergeStackStep fuel s r o i h)

/-- Stack.merge (stack.go:553-563) -/
def mergeStackH (fuel : Nat) (h : Heap) (s r : HStack) : Heap × HStack :=
  let n := (h.callCell s.calls).length
  let al := h.allocCalls (List.replicate n HCall.zero)
  (mergeStackLoop fuel s.calls r.calls al.2 n 0 al.1, { calls := some al.2, elided := s.elided })

/-- Signature.merge (stack.go:720-737): `CreatedBy: s.CreatedBy` copies the slice
header, the merged key keeps pointing to the receiver's `CreatedBy.Calls`. -/
def mergeSigH (fuel : Nat) (h : Heap) (s r : HSig) : Heap × HSig :=
  let res := mergeStackH fuel h s.stack r.stack
  (res.1, { state := s.state, createdBy := s.createdBy,
            sleepMin := min s.sleepMin r.sleepMin, sleepMax := max s.sleepMax r.sleepMax,
            stack := res.2, locked := s.locked || r.locked })

/-! ### abstraction: read a heap value out into the immutable model types -/

/-- the `[]Arg` at a slice, `fuel` nesting levels deep -/
def absArgsL : Nat → Heap → Slice → List Arg
  | 0, _, _ => []
  | f + 1, h, s => (h.argCell s).map fun x =>
    match x with
    | .scalar n v p o i => .scalar n v p o i
    | .agg fs e => .agg (absArgsL f h fs) e

/-- one element of a cell read with `absArgsL (f+1)` -/
def absArg (f : Nat) (h : Heap) : HArg → Arg
  | .scalar n v p o i => .scalar n v p o i
  | .agg fs e => .agg (absArgsL f h fs) e

def absArgs (fuel : Nat) (h : Heap) (a : HArgs) : Args :=
  { values := absArgsL fuel h a.values, processed := a.processed, elided := a.elided }

def absCall (fuel : Nat) (h : Heap) (c : HCall) : Call :=
  { fn := c.fn, args := absArgs fuel h c.args, remoteSrcPath := c.remoteSrcPath, line := c.line,
    srcName := c.srcName, dirSrc := c.dirSrc, localSrcPath := c.localSrcPath,
    relSrcPath := c.relSrcPath, importPath := c.importPath, location := c.location }

def absStack (fuel : Nat) (h : Heap) (s : HStack) : Stack :=
  { calls := (h.callCell s.calls).map (absCall fuel h), elided := s.elided }

def absSig (fuel : Nat) (h : Heap) (s : HSig) : Signature :=
  { state := s.state, createdBy := absStack fuel h s.createdBy, sleepMin := s.sleepMin,
    sleepMax := s.sleepMax, stack := absStack fuel h s.stack, locked := s.locked }

def absGoroutine (fuel : Nat) (h : Heap) (g : HGoroutine) : Goroutine :=
  { sig := absSig fuel h g.sig, id := g.id, first := g.first, raceWrite := g.raceWrite,
    raceAddr := g.raceAddr }

def absGoroutines (fuel : Nat) (h : Heap) (gs : List HGoroutine) : List Goroutine :=
  gs.map (absGoroutine fuel h)

/-! ### Aggregate over the heap -/

/-- one map entry; the key is the `Signature` struct `key` points to (a fresh
struct in every case: `&Signature{}` or the result of `merge`), whose slices
live in the heap -/
structure HBkt where
  key : HSig
  ids : List Nat
  first : Bool
  order : Nat
  deriving DecidableEq, Repr, Inhabited

/-- stack.Bucket -/
structure HBucket where
  sig : HSig
  ids : List Nat
  first : Bool
  deriving DecidableEq, Repr, Inhabited

def absBkt (fuel : Nat) (h : Heap) (b : HBkt) : Bkt :=
  { key := absSig fuel h b.key, ids := b.ids, first := b.first, order := b.order }

def absBucket (fuel : Nat) (h : Heap) (b : HBucket) : Bucket :=
  { sig := absSig fuel h b.sig, ids := b.ids, first := b.first }

/-- `key.similar(&routine.Signature, similar)`: a pure read of both values -/
def similarH (fuel : Nat) (l : Lvl) (h : Heap) (k r : HSig) : Bool :=
  Signature.similar l (absSig fuel h k) (absSig fuel h r)

/-- `key.equal(&routine.Signature)`: a pure read -/
def equalH (fuel : Nat) (h : Heap) (k r : HSig) : Bool :=
  Signature.equal (absSig fuel h k) (absSig fuel h r)

/-- the body of the outer loop of Aggregate for one goroutine (bucket.go:55-78).
In the `!found` case the new key is `g.sig` itself: `*key = routine.Signature`
copies the struct, every slice of the key aliases the goroutine's. -/
def insertGH (fuel : Nat) (l : Lvl) (h : Heap) (bs : List HBkt) (i : Nat) (g : HGoroutine) :
    Heap × List HBkt :=
  match bs with
  | [] => (h, [{ key := g.sig, ids := [g.id], first := g.first, order := i }])
  | b :: rest =>
    if similarH fuel l h b.key g.sig then
      if equalH fuel h b.key g.sig then
        (h, { key := b.key, ids := b.ids ++ [g.id], first := b.first || g.first,
              order := b.order } :: rest)
      else
        let res := mergeSigH fuel h b.key g.sig
        (res.1, { key := res.2, ids := b.ids ++ [g.id], first := b.first || g.first,
                  order := b.order } :: rest)
    else
      let res := insertGH fuel l h rest i g
      (res.1, b :: res.2)

/-- the order in which a `range` over the map visits the entries -/
abbrev HOracle := Nat → List HBkt → List HBkt

def idHOracle : HOracle := fun _ bs => bs

def bucketLoopH (π : HOracle) (fuel : Nat) (l : Lvl) :
    Nat → Heap → List HBkt → List HGoroutine → Heap × List HBkt
  | _, h, bs, [] => (h, bs)
  | i, h, bs, g :: gs =>
    let res := insertGH fuel l h (π i bs) i g
    bucketLoopH π fuel l (i + 1) res.1 res.2 gs

/-- sort.SliceStable with the closure of bucket.go:80-100; `less` only reads -/
def sortBucketsH (fuel : Nat) (h : Heap) (bs : List HBkt) : List HBkt :=
  bs.mergeSort (fun a b => !bucketLess (absBkt fuel h b) (absBkt fuel h a))

/-- `&Bucket{Signature: *signature, IDs: c.ids, First: c.first}`: again a struct
copy, the bucket's slices are the key's -/
def HBkt.toBucket (b : HBkt) : HBucket := { sig := b.key, ids := sortNat b.ids, first := b.first }

/-- Snapshot.Aggregate over the heap, for an arbitrary map iteration order -/
def aggregateHWith (π : HOracle) (fuel : Nat) (l : Lvl) (h : Heap) (gs : List HGoroutine) :
    Heap × List HBucket :=
  let res := bucketLoopH π fuel l 0 h [] gs
  (res.1, (sortBucketsH fuel res.1 (π gs.length res.2)).map HBkt.toBucket)

def aggregateH (fuel : Nat) (l : Lvl) (h : Heap) (gs : List HGoroutine) : Heap × List HBucket :=
  aggregateHWith idHOracle fuel l h gs

/-! ### the buggy variant: merge in place -/

/-- Args.merge as it would be with `out := *a` (sharing `a.Values`) instead of a
fresh `make`: the `*` is written into the receiver's own array. -/
def mergeArgsInPlaceH (fuel : Nat) (h : Heap) (a r : HArgs) : Heap × HArgs :=
  match a.values with
  | none => (h, a)
  | some o =>
    (mergeArgsLoop (mergeArgsH fuel) a.values r.values o (h.argCell a.values).length 0 h,
     { values := some o, processed := [], elided := a.elided })

/-! ### well-formedness -/

/-- every address reachable from `s` is in range and satisfies `P`, and the
nesting depth below `s` is less than `d` -/
def wfArgs (P : Addr → Bool) : Nat → Heap → Slice → Bool
  | _, _, none => true
  | 0, _, some _ => false
  | d + 1, h, some a =>
    P a && decide (a < h.argCells.length) &&
      (h.argCell (some a)).all fun x =>
        match x with
        | .scalar .. => true
        | .agg fs _ => wfArgs P d h fs

/-- one element of a cell -/
def wfArg (P : Addr → Bool) (d : Nat) (h : Heap) : HArg → Bool
  | .scalar .. => true
  | .agg fs _ => wfArgs P d h fs

def wfStack (d : Nat) (h : Heap) (s : HStack) : Bool :=
  match s.calls with
  | none => true
  | some a => decide (a < h.callCells.length) &&
      (h.callCell (some a)).all fun c => wfArgs (fun _ => true) d h c.args.values

def wfSig (d : Nat) (h : Heap) (s : HSig) : Bool := wfStack d h s.createdBy && wfStack d h s.stack

/-- the snapshot's goroutines only point into the heap, with bounded nesting -/
def HeapWF (d : Nat) (h : Heap) (gs : List HGoroutine) : Prop := ∀ g ∈ gs, wfSig d h g.sig = true

end PP.Alias
