import PP.Model.Types
/-
nameArguments (stack.go:804-860).  The Go code collects pointer arguments in a
`map[uint64]object` and ranges over it twice, sorting the keys each time, so
the result does not depend on the iteration order; the model works on the
sorted key list directly.
-/
namespace PP

mutual
/-- Args.walk restricted to what nameArguments needs: the pointer values, in
visiting order -/
def Arg.ptrs : Arg → List Nat
  | .scalar _ v p _ _ => if p then [v] else []
  | .agg fs _ => Arg.ptrsL fs
def Arg.ptrsL : List Arg → List Nat
  | [] => []
  | a :: as => Arg.ptrs a ++ Arg.ptrsL as
end

def Goroutine.ptrs (g : Goroutine) : List Nat :=
  g.sig.stack.calls.flatMap (fun c => Arg.ptrsL c.args.values)

def insertDedup (x : Nat) : List Nat → List Nat
  | [] => [x]
  | y :: ys => if x < y then x :: y :: ys else if x = y then y :: ys else y :: insertDedup x ys
/-- sorted, duplicate-free list of the values -/
def sortDedup (l : List Nat) : List Nat := l.foldr insertDedup []

def countOcc (x : Nat) (l : List Nat) : Nat := (l.filter (· == x)).length

/-- the value → number table: first the values that occur in goroutine 0 and
at least twice overall, ascending; then the values that do not occur in
goroutine 0, ascending. -/
def nameTable (gs : List Goroutine) : List (Nat × Nat) :=
  let all := gs.flatMap Goroutine.ptrs
  let prim := match gs with | [] => [] | g :: _ => g.ptrs
  let keys := sortDedup all
  let r1 := keys.filter (fun v => prim.contains v && countOcc v all ≥ 2)
  let r2 := keys.filter (fun v => !prim.contains v)
  (r1 ++ r2).zipIdx.map (fun (v, i) => (v, i + 1))

def pseudoName (n : Nat) : Bytes := b!"#" ++ Bytes.natToDec n

mutual
def Arg.rename (t : List (Nat × Nat)) : Arg → Arg
  | .scalar n v p o i =>
    if p then
      match t.lookup v with
      | some k => .scalar (pseudoName k) v p o i
      | none => .scalar n v p o i
    else .scalar n v p o i
  | .agg fs e => .agg (Arg.renameL t fs) e
def Arg.renameL (t : List (Nat × Nat)) : List Arg → List Arg
  | [] => []
  | a :: as => Arg.rename t a :: Arg.renameL t as
end

def Goroutine.rename (t : List (Nat × Nat)) (g : Goroutine) : Goroutine :=
  { g with sig := { g.sig with stack := { g.sig.stack with
      calls := g.sig.stack.calls.map (fun c => { c with args := { c.args with values := Arg.renameL t c.args.values } }) } } }

/-- nameArguments -/
def nameArguments (gs : List Goroutine) : List Goroutine :=
  gs.map (Goroutine.rename (nameTable gs))

end PP
