import PP.Model.Re
import PP.Model.Args
import PP.Model.FuncInit
/-
scanningState.scan (context.go:472-814) as a pure step function.

`classify` evaluates every classifier the Go code may consult on a line (the
regexps, the literal comparisons, parseFunc/parseFile) and records the
outcomes in a `Line`; `scan` is the state machine over that record.  The
proofs about the state machine (no panic, delimitation, conservation) thus do
not depend on the matchers, only on this file.

Panics are values: every place where the Go code would dereference a nil
`cur`, index an empty slice or call panic() yields `Except.error`.
-/
namespace PP
open Bytes

/-- scanner states, in the declaration order of the Go `state` constants -/
inductive St
  | looking | done | betweenRoutine | gotRoutineHeader | gotFunc | gotCreated | gotFileFunc
  | gotFileCreated | gotUnavail | gotRaceHeader1 | gotRaceHeader2 | gotRaceOperationHeader
  | gotRaceOperationFunc | gotRaceOperationFile | betweenRaceOperations | gotRaceGoroutineHeader
  | gotRaceGoroutineFunc | gotRaceGoroutineFile | betweenRaceGoroutines
  deriving DecidableEq, Repr, Inhabited

def St.toNat : St → Nat
  | .looking => 0 | .done => 1 | .betweenRoutine => 2 | .gotRoutineHeader => 3 | .gotFunc => 4
  | .gotCreated => 5 | .gotFileFunc => 6 | .gotFileCreated => 7 | .gotUnavail => 8
  | .gotRaceHeader1 => 9 | .gotRaceHeader2 => 10 | .gotRaceOperationHeader => 11
  | .gotRaceOperationFunc => 12 | .gotRaceOperationFile => 13 | .betweenRaceOperations => 14
  | .gotRaceGoroutineHeader => 15 | .gotRaceGoroutineFunc => 16 | .gotRaceGoroutineFile => 17
  | .betweenRaceGoroutines => 18

/-- error kinds (the text of the messages is never compared) -/
inductive Err
  | funcAfterHeader | fileAfterFunc | fileAfterCreated | emptyAfterUnavail | indent
  | raceExpected | raceAddr | raceId | raceFunc | raceFile | raceFuncOrFile | raceEmptyAfterFile
  | raceOpOrGoroutine | raceUnknownGoroutine
  | funcNoDot | funcEscape | funcSlice | argsDepth | argsInt | argsOpen | argsClose | fileInt | internal
  deriving DecidableEq, Repr, Inhabited

inductive Panic | goroutinesNotNil | nilCur | index
  deriving DecidableEq, Repr

def Err.ofFErr : FErr → Err
  | .noDot => .funcNoDot | .escape => .funcEscape | .slice => .funcSlice
def Err.ofArgErr : ArgErr → Err
  | .depth => .argsDepth | .int => .argsInt | .close => .argsClose | .open_ => .argsOpen

/-- parseFunc (context.go:819-836): `none` = not a function line; otherwise the
call as far as it was filled in and the error, if any. -/
def parseFunc (line : Bytes) : Option (Call × Option Err) :=
  match matchFunc line with
  | none => none
  | some (name, args) =>
    match funcInit name with
    | .error e => some ({}, some (Err.ofFErr e))
    | .ok f =>
      let c : Call := { fn := f, importPath := f.importPath }
      match parseArgs args with
      | .error e => some (c, some (Err.ofArgErr e))
      | .ok a => some ({ c with args := a }, none)

/-- parseFile (context.go:900-910): `none` = not a file line; `some none` =
matched but the line number does not parse. -/
def parseFile (line : Bytes) : Option (Option (Bytes × Nat)) :=
  match matchFile line with
  | none => none
  | some m => some ((atou m.line).map (fun n => (m.path, n)))

structure Hdr where
  indent : Bytes
  id : Nat
  state : Bytes
  sleep : Nat
  locked : Bool
  deriving Repr

/-- the header branch of `looking`/`betweenRoutine` (context.go:519-555):
`none` when the regexp does not match or the id does not parse. -/
def parseHeader (line : Bytes) : Option Hdr :=
  match matchHeader line with
  | none => none
  | some m =>
    match atou m.id with
    | none => none
    | some id =>
      let items := splitOn m.status Extracted.commaSpace
      let rest := items.drop 1
      let locked := rest.any (· == Extracted.lockedToThread)
      -- the last matching "N minutes" item wins; an unparsable number gives 0
      let sleep := rest.foldl (fun acc it =>
        if it == Extracted.lockedToThread then acc
        else match matchMinutes it with
          | some d => (atou d).getD 0
          | none => acc) 0
      some { indent := m.indent, id := id, state := items.headD [], sleep := sleep, locked := locked }

/-- race operation header: matched; then address and id must parse -/
def parseRaceOp (m : Option (Bytes × Bytes × Bytes)) (writeWord : Bytes) : Option (Except Err (Bool × Nat × Nat)) :=
  match m with
  | none => none
  | some (kind, addr, id) =>
    match parseUint0 addr with
    | none => some (.error .raceAddr)
    | some a =>
      match atou id with
      | none => some (.error .raceId)
      | some i => some (.ok (kind == writeWord, a, i))

/-- everything `scan` may ask about one line -/
structure Line where
  hasEOL : Bool
  /-- `false`: the line is not empty, a prefix is set, and the line does not start with it -/
  indentOK : Bool
  empty : Bool
  header : Option Hdr
  sep : Bool
  warn : Bool
  unavail : Bool
  func : Option (Call × Option Err)
  funcL : Option (Call × Option Err)
  file : Option (Option (Bytes × Nat))
  created : Option (Except Err Func)
  elidedMark : Bool
  raceOp : Option (Except Err (Bool × Nat × Nat))
  racePrev : Option (Except Err (Bool × Nat × Nat))
  raceGor : Option (Option Nat × Bytes)
  deriving Repr

/-- strip the end of line (context.go:482-494) -/
def stripEOL (raw : Bytes) : Bytes × Bool :=
  if hasSuffix raw Extracted.crlf then (raw.take (raw.length - 2), true)
  else if hasSuffix raw Extracted.lf then (raw.take (raw.length - 1), true)
  else (raw, false)

def classify (pfx raw : Bytes) : Line :=
  let (trimmed, hasEOL) := stripEOL raw
  let (indentOK, t) :=
    if trimmed.length != 0 && pfx.length != 0 then
      if hasPrefix trimmed pfx then (true, trimmed.drop pfx.length) else (false, trimmed)
    else (true, trimmed)
  { hasEOL := hasEOL, indentOK := indentOK, empty := t.isEmpty,
    header := parseHeader t,
    sep := t == Extracted.raceHeaderFooter,
    warn := t == Extracted.raceHeader,
    unavail := matchUnavail t,
    func := parseFunc t,
    funcL := parseFunc (trimLeftSpace t),
    file := parseFile t,
    created := (matchCreated t).map (fun n => match funcInit n with | .ok f => .ok f | .error e => .error (Err.ofFErr e)),
    elidedMark := isFramesElidedLine t,
    raceOp := parseRaceOp (matchRaceOp t) Extracted.writeCap,
    racePrev := parseRaceOp (matchRacePrev t) Extracted.writeLow,
    raceGor := (matchRaceGoroutine t).map (fun (d, st) => (atou d, st)) }

/-- scanningState: `gs` = s.Goroutines (nil and empty are not distinguished
here; `gsNil` below recovers the distinction the caller observes) -/
structure S where
  st : St := .looking
  gs : List Goroutine := []
  gi : Nat := 0
  pfx : Bytes := []
  deriving Repr, Inhabited

abbrev R := Except Panic (S × Bool × Option Err)

def modifyLast (gs : List Goroutine) (f : Goroutine → Goroutine) : Option (List Goroutine) :=
  match gs.reverse with
  | [] => none
  | g :: rest => some ((f g :: rest).reverse)

def modifyAt (gs : List Goroutine) (i : Nat) (f : Goroutine → Goroutine) : Option (List Goroutine) :=
  if h : i < gs.length then some (gs.set i (f gs[i])) else none

def setStack (g : Goroutine) (f : Stack → Stack) : Goroutine := { g with sig := { g.sig with stack := f g.sig.stack } }
def setCreated (g : Goroutine) (f : Stack → Stack) : Goroutine := { g with sig := { g.sig with createdBy := f g.sig.createdBy } }

/-- `c.init(path, line)` on the last element of a call list; `none` if it is empty -/
def initLast (cs : List Call) (pl : Bytes × Nat) : Option (List Call) :=
  match cs.reverse with
  | [] => none
  | c :: rest => some ((c.init pl.1 pl.2 :: rest).reverse)

/-- `cur.Stack.Calls = append(cur.Stack.Calls, c)` -/
def curAppendCall (s : S) (c : Call) : Except Panic S :=
  match modifyLast s.gs (fun g => setStack g (fun st => { st with calls := st.calls ++ [c] })) with
  | none => .error .nilCur
  | some gs => .ok { s with gs := gs }

/-- `&cur.Stack.Calls[len-1]` is evaluated before parseFile is called -/
def needLastCall (s : S) : Except Panic Unit :=
  match s.gs.reverse with
  | [] => .error .nilCur
  | g :: _ => if g.sig.stack.calls.isEmpty then .error .index else .ok ()

def needCreated0 (s : S) : Except Panic Unit :=
  match s.gs.reverse with
  | [] => .error .nilCur
  | g :: _ => if g.sig.createdBy.calls.isEmpty then .error .index else .ok ()

def mkGoroutine (h : Hdr) (first : Bool) : Goroutine :=
  { sig := { state := h.state, sleepMin := h.sleep, sleepMax := h.sleep, locked := h.locked }, id := h.id, first := first }

/-- the `created by` branch shared by gotFileFunc and gotUnavail; `doInit` is
the extra `init("", 0)` call that only gotFileFunc makes -/
def createdStep (s : S) (r : Except Err Func) (doInit : Bool) : R :=
  match r with
  | .ok f =>
    let c : Call := { fn := f }
    let c := if doInit then c.init [] 0 else c
    match modifyLast s.gs (fun g => setCreated g (fun st => { st with calls := [c] })) with
    | none => .error .nilCur
    | some gs => .ok ({ s with st := .gotCreated, gs := gs }, true, none)
  | .error e =>
    match modifyLast s.gs (fun g => setCreated g (fun st => { st with calls := [] })) with
    | none => .error .nilCur
    | some gs => .ok ({ s with gs := gs }, false, some e)

/-- the `parseFunc` + append pattern (gotRoutineHeader, gotFileFunc, race operation states) -/
def funcStep (s : S) (r : Option (Call × Option Err)) (next : St) (orElse : R) : R :=
  match r with
  | some (c, e) =>
    match curAppendCall s c with
    | .error p => .error p
    | .ok s' => .ok ({ s' with st := next }, e.isNone, e)
  | none => orElse

def scan (s : S) (l : Line) : R :=
  if !l.hasEOL && (s.st == .looking || s.st == .done) then .ok (s, false, none)
  else if !l.indentOK then .ok ({ s with st := .done, pfx := [] }, false, some .indent)
  else
  match s.st with
  | .done => .ok (s, false, none)
  | .looking | .betweenRoutine =>
    match l.header with
    | some h =>
      .ok ({ s with st := .gotRoutineHeader, gs := s.gs ++ [mkGoroutine h s.gs.isEmpty],
                    pfx := if s.st == .looking then h.indent else s.pfx }, true, none)
    | none =>
      if s.st == .looking && l.sep then .ok ({ s with st := .gotRaceHeader1 }, true, none)
      else if s.st != .looking then .ok ({ s with st := .done }, false, none)
      else .ok (s, false, none)
  | .gotRoutineHeader =>
    if l.unavail then
      match modifyLast s.gs (fun g => setStack g (fun st => { st with calls := [{ remoteSrcPath := b!"<unavailable>" }] })) with
      | none => .error .nilCur
      | some gs => .ok ({ s with st := .gotUnavail, gs := gs }, true, none)
    else
      match s.gs.reverse with
      | [] => (match l.func with | some _ => .error .nilCur | none => .ok (s, false, some .funcAfterHeader))
      | _ => funcStep s l.func .gotFunc (.ok (s, false, some .funcAfterHeader))
  | .gotFunc =>
    match needLastCall s with
    | .error p => .error p
    | .ok () =>
      match l.file with
      | some (some pl) =>
        match modifyLast s.gs (fun g => setStack g (fun st => { st with calls := (initLast st.calls pl).getD st.calls })) with
        | none => .error .nilCur
        | some gs => .ok ({ s with st := .gotFileFunc, gs := gs }, true, none)
      | some none => .ok (s, false, some .fileInt)
      | none => .ok (s, false, some .fileAfterFunc)
  | .gotCreated =>
    match needCreated0 s with
    | .error p => .error p
    | .ok () =>
      match l.file with
      | some (some pl) =>
        match modifyLast s.gs (fun g => setCreated g (fun st =>
            { st with calls := match st.calls with | c :: cs => c.init pl.1 pl.2 :: cs | [] => [] })) with
        | none => .error .nilCur
        | some gs => .ok ({ s with st := .gotFileCreated, gs := gs }, true, none)
      | some none => .ok (s, false, some .fileInt)
      | none => .ok (s, false, some .fileAfterCreated)
  | .gotFileFunc =>
    match l.created with
    | some r => createdStep s r true
    | none =>
      if l.elidedMark then
        match modifyLast s.gs (fun g => setStack g (fun st => { st with elided := true })) with
        | none => .error .nilCur
        | some gs => .ok ({ s with gs := gs }, true, none)
      else
        funcStep s l.func .gotFunc
          (if l.empty then .ok ({ s with st := .betweenRoutine }, true, none)
           else .ok ({ s with st := .done }, false, none))
  | .gotFileCreated =>
    if l.empty then .ok ({ s with st := .betweenRoutine }, true, none)
    else .ok ({ s with st := .done }, false, none)
  | .gotUnavail =>
    if l.empty then .ok ({ s with st := .betweenRoutine }, true, none)
    else
      match l.created with
      | some r => createdStep s r false
      | none => .ok (s, false, some .emptyAfterUnavail)
  | .gotRaceHeader1 =>
    if l.warn then .ok ({ s with st := .gotRaceHeader2 }, true, none)
    else .ok ({ s with st := .looking, pfx := [] }, false, none)
  | .gotRaceHeader2 =>
    match l.raceOp with
    | some (.ok (w, addr, id)) =>
      if !s.gs.isEmpty then .error .goroutinesNotNil
      else .ok ({ s with st := .gotRaceOperationHeader,
                         gs := [{ id := id, first := true, raceWrite := w, raceAddr := addr }], gi := 0 }, true, none)
    | some (.error e) => .ok (s, false, some e)
    | none => .ok (s, false, some .raceExpected)
  | .gotRaceOperationHeader =>
    funcStep s l.funcL .gotRaceOperationFunc (.ok (s, false, some .raceFunc))
  | .gotRaceOperationFunc =>
    match needLastCall s with
    | .error p => .error p
    | .ok () =>
      match l.file with
      | some (some pl) =>
        match modifyLast s.gs (fun g => setStack g (fun st => { st with calls := (initLast st.calls pl).getD st.calls })) with
        | none => .error .nilCur
        | some gs => .ok ({ s with st := .gotRaceOperationFile, gs := gs }, true, none)
      | some none => .ok (s, false, some .fileInt)
      | none => .ok (s, false, some .raceFile)
  | .gotRaceOperationFile =>
    if l.empty then .ok ({ s with st := .betweenRaceOperations }, true, none)
    else funcStep s l.funcL .gotRaceOperationFunc (.ok (s, false, some .raceEmptyAfterFile))
  | .betweenRaceOperations | .betweenRaceGoroutines =>
    let prev : Option R :=
      if s.st == .betweenRaceOperations then
        match l.racePrev with
        | some (.ok (w, addr, id)) =>
          some (.ok ({ s with st := .gotRaceOperationHeader,
                              gs := s.gs ++ [{ id := id, raceWrite := w, raceAddr := addr }], gi := s.gs.length }, true, none))
        | some (.error e) => some (.ok (s, false, some e))
        | none => none
      else none
    match prev with
    | some r => r
    | none =>
      match l.raceGor with
      | some (some id, stt) =>
        match s.gs.findIdx? (fun g => g.id == id) with
        | some i =>
          match modifyAt s.gs i (fun g => { g with sig := { g.sig with state := stt } }) with
          | some gs => .ok ({ s with st := .gotRaceGoroutineHeader, gs := gs, gi := i }, true, none)
          | none => .error .index
        | none => .ok (s, false, some .raceUnknownGoroutine)
      | some (none, _) => .ok (s, false, some .raceId)
      | none => .ok (s, false, some .raceOpOrGoroutine)
  | .gotRaceGoroutineFunc =>
    if h : s.gi < s.gs.length then
      let cs := s.gs[s.gi].sig.createdBy.calls
      if cs.isEmpty then .error .index
      else
        match l.file with
        | some (some pl) =>
          .ok ({ s with st := .gotRaceGoroutineFile,
                        gs := s.gs.set s.gi (setCreated s.gs[s.gi] (fun st => { st with calls := (initLast st.calls pl).getD st.calls })) }, true, none)
        | some none => .ok (s, false, some .fileInt)
        | none => .ok (s, false, some .raceFile)
    else .error .index
  | .gotRaceGoroutineFile | .gotRaceGoroutineHeader =>
    if s.st == .gotRaceGoroutineFile && l.empty then .ok ({ s with st := .betweenRaceGoroutines }, true, none)
    else if s.st == .gotRaceGoroutineFile && l.sep then .ok ({ s with st := .done }, true, none)
    else
      match l.funcL with
      | some (c, e) =>
        match modifyAt s.gs s.gi (fun g => setCreated g (fun st => { st with calls := st.calls ++ [c] })) with
        | some gs => .ok ({ s with st := .gotRaceGoroutineFunc, gs := gs }, e.isNone, e)
        | none => .error .index
      | none => .ok (s, false, some .raceFuncOrFile)

/-- scan on raw bytes -/
def scanBytes (s : S) (raw : Bytes) : R := scan s (classify s.pfx raw)

end PP
