import PP.Model.Html
/-
The whole HTML document of stack/html.go (`toHTML`) and stack/goroutines.tpl:
everything around the content division that PP/Model/Html.lean already has.

  <!DOCTYPE html> … <link … href="data:image/gif;base64,{{.Favicon}}"/> <style>…</style>
  <div id="content"> CONTENT </div>
  <h2>Metadata</h2> <ul> … {{.Now.String}} {{.Version}} GOROOT GOPATH go modules GOMAXPROCS </ul>
  <h2>Legend</h2> … {{.Footer}} <div class="bottom-padding"></div>

Only additions: no definition of PP/Model/Html.lean is changed.  The document is
again a list of `Piece`s (literal template text and holes) followed by the
footer, which is a caller-supplied `template.HTML` and is written unescaped,
and the last text node.

The literal text nodes are named after their ordinal among the text nodes of
the main template `t` (`Extracted.templateTexts` / `templateLongTexts`); the
pins are in PP/Tie/Html.lean.  The four long nodes (1, 3, 4, 53: `<meta>` block,
style sheet in two parts, legend) are the bytes of the nodes after html/template's
escaping pass, exactly as the extractor walks them; the extractor only emits
their lengths, which is what the pin checks.
-/
namespace PP.Html
open PP PP.Bytes

namespace Lit
/-- template `Join`, text node 0 -/
def j0 : Bytes := b!", "
def t0 : Bytes := b!"<!DOCTYPE html>"
def t2 : Bytes := b!"\"/>\n<style>"
def t37 : Bytes := b!"</div>\n<h2>Metadata</h2>\n<ul>\n<li>Created on "
def t38 : Bytes := b!"</li>\n<li>"
def t39 : Bytes := b!"</li>"
def t40 : Bytes := b!"<li>GOROOT (remote): "
def t41 : Bytes := b!"</li>\n<li>GOROOT (local): "
def t42 : Bytes := b!"</li>"
def t43 : Bytes := b!"<li>GOROOT: "
def t44 : Bytes := b!"</li>"
def t45 : Bytes := b!"<li>GOPATH: "
def t46 : Bytes := b!"</li>"
def t47 : Bytes := b!"<li>go modules (local):\n<ul>"
def t48 : Bytes := b!"<li>"
def t49 : Bytes := b!": "
def t50 : Bytes := b!"</li>"
def t51 : Bytes := b!"</ul>\n</li>"
def t52 : Bytes := b!"<li>GOMAXPROCS: "
def t54 : Bytes := b!"<div class=\"bottom-padding\"></div>\n"

/- text node t1 of `t`: 311 bytes
<meta charset="UTF-8">
<meta name="author" content="Marc-Antoine Ruel" >
<meta name="generator" content="https://github.com/maruel/panicparse" >
<meta name="viewport" content="width=device-width, initial-scale=1">
<title>PanicParse</title>
<link rel="shortcut icon" type="image/gif" href="data:image/gif;base64,
-/
def t1 : Bytes :=
  ([60, 109, 101, 116, 97, 32, 99, 104, 97, 114, 115, 101, 116, 61, 34, 85, 84, 70, 45, 56, 34, 62, 10, 60, 109, 101, 116, 97, 32, 110, 97, 109, 101, 61, 34, 97, 117, 116, 104, 111, 114, 34, 32, 99, 111, 110, 116, 101, 110, 116, 61, 34, 77, 97, 114, 99, 45, 65, 110, 116, 111, 105, 110, 101] : List UInt8) ++
  ([32, 82, 117, 101, 108, 34, 32, 62, 10, 60, 109, 101, 116, 97, 32, 110, 97, 109, 101, 61, 34, 103, 101, 110, 101, 114, 97, 116, 111, 114, 34, 32, 99, 111, 110, 116, 101, 110, 116, 61, 34, 104, 116, 116, 112, 115, 58, 47, 47, 103, 105, 116, 104, 117, 98, 46, 99, 111, 109, 47, 109, 97, 114, 117] : List UInt8) ++
  ([101, 108, 47, 112, 97, 110, 105, 99, 112, 97, 114, 115, 101, 34, 32, 62, 10, 60, 109, 101, 116, 97, 32, 110, 97, 109, 101, 61, 34, 118, 105, 101, 119, 112, 111, 114, 116, 34, 32, 99, 111, 110, 116, 101, 110, 116, 61, 34, 119, 105, 100, 116, 104, 61, 100, 101, 118, 105, 99, 101, 45, 119, 105, 100] : List UInt8) ++
  ([116, 104, 44, 32, 105, 110, 105, 116, 105, 97, 108, 45, 115, 99, 97, 108, 101, 61, 49, 34, 62, 10, 60, 116, 105, 116, 108, 101, 62, 80, 97, 110, 105, 99, 80, 97, 114, 115, 101, 60, 47, 116, 105, 116, 108, 101, 62, 10, 60, 108, 105, 110, 107, 32, 114, 101, 108, 61, 34, 115, 104, 111, 114, 116] : List UInt8) ++
  ([99, 117, 116, 32, 105, 99, 111, 110, 34, 32, 116, 121, 112, 101, 61, 34, 105, 109, 97, 103, 101, 47, 103, 105, 102, 34, 32, 104, 114, 101, 102, 61, 34, 100, 97, 116, 97, 58, 105, 109, 97, 103, 101, 47, 103, 105, 102, 59, 98, 97, 115, 101, 54, 52, 44] : List UInt8)

/- text node t3 of `t`: 1317 bytes
* {
font-family: inherit;
font-size: 1em;
margin: 0;
padding: 0;
}
html {
box-sizing: border-box;
font-size: 62.5%;
}
*, *:before, *:after {
box-sizing: inherit;
}
h1, h2 {
margin-bottom: 0.2em;
margin-top: 0.8em;
}
h1 {
font-size: 1.4em;
}
h2 {
font-size: 1.2em;
}
body {
font-size: 1.6em;
margin: 2px;
}
li {
margin-left: 2.5em;
}
a {
color: inherit;
text-decoration: inherit;
}
ol, ul {
margin-bottom: 0.5em;
margin-top: 0.5em;
}
p {
margin-bottom: 2em;
}
table {
margin: 0.6em;
}
table tr:nth-child(odd) {
background-color: #F0F0F0;
}
table tr:hover {
background-color: #DDD !important;
}
table td {
font-family: monospace;
padding: 0.2em 0.4em 0.2em;
}
.call {
font-family: monospace;
}
@media screen and (max-width: 500px) {
h1 {
font-size: 1.3em;
}
}
@media screen and (max-width: 500px) and (orientation: portrait) {
.args span {
display: none;
}
.args::after {
content: '…';
}
}
.created {
white-space: nowrap;
}
.race {
font-weight: 700;
color: #600;
}
#content {
width: 100%;
}
.hastooltip:hover .tooltip {
background: #fffAF0;
border: 1px solid #DCA;
border-radius: 6px;
box-shadow: 5px 5px 8px #CCC;
color: #111;
display: inline;
position: absolute;
}
.tooltip {
display: none;
line-height: 16px;
margin-left: 1rem;
margin-top: 2.5rem;
padding: 1rem;
z-index: 10;
}
.bottom-padding {
margin-top: 5em;
}
-/
def t3 : Bytes :=
  ([42, 32, 123, 10, 102, 111, 110, 116, 45, 102, 97, 109, 105, 108, 121, 58, 32, 105, 110, 104, 101, 114, 105, 116, 59, 10, 102, 111, 110, 116, 45, 115, 105, 122, 101, 58, 32, 49, 101, 109, 59, 10, 109, 97, 114, 103, 105, 110, 58, 32, 48, 59, 10, 112, 97, 100, 100, 105, 110, 103, 58, 32, 48, 59] : List UInt8) ++
  ([10, 125, 10, 104, 116, 109, 108, 32, 123, 10, 98, 111, 120, 45, 115, 105, 122, 105, 110, 103, 58, 32, 98, 111, 114, 100, 101, 114, 45, 98, 111, 120, 59, 10, 102, 111, 110, 116, 45, 115, 105, 122, 101, 58, 32, 54, 50, 46, 53, 37, 59, 10, 125, 10, 42, 44, 32, 42, 58, 98, 101, 102, 111, 114] : List UInt8) ++
  ([101, 44, 32, 42, 58, 97, 102, 116, 101, 114, 32, 123, 10, 98, 111, 120, 45, 115, 105, 122, 105, 110, 103, 58, 32, 105, 110, 104, 101, 114, 105, 116, 59, 10, 125, 10, 104, 49, 44, 32, 104, 50, 32, 123, 10, 109, 97, 114, 103, 105, 110, 45, 98, 111, 116, 116, 111, 109, 58, 32, 48, 46, 50, 101] : List UInt8) ++
  ([109, 59, 10, 109, 97, 114, 103, 105, 110, 45, 116, 111, 112, 58, 32, 48, 46, 56, 101, 109, 59, 10, 125, 10, 104, 49, 32, 123, 10, 102, 111, 110, 116, 45, 115, 105, 122, 101, 58, 32, 49, 46, 52, 101, 109, 59, 10, 125, 10, 104, 50, 32, 123, 10, 102, 111, 110, 116, 45, 115, 105, 122, 101, 58] : List UInt8) ++
  ([32, 49, 46, 50, 101, 109, 59, 10, 125, 10, 98, 111, 100, 121, 32, 123, 10, 102, 111, 110, 116, 45, 115, 105, 122, 101, 58, 32, 49, 46, 54, 101, 109, 59, 10, 109, 97, 114, 103, 105, 110, 58, 32, 50, 112, 120, 59, 10, 125, 10, 108, 105, 32, 123, 10, 109, 97, 114, 103, 105, 110, 45, 108, 101] : List UInt8) ++
  ([102, 116, 58, 32, 50, 46, 53, 101, 109, 59, 10, 125, 10, 97, 32, 123, 10, 99, 111, 108, 111, 114, 58, 32, 105, 110, 104, 101, 114, 105, 116, 59, 10, 116, 101, 120, 116, 45, 100, 101, 99, 111, 114, 97, 116, 105, 111, 110, 58, 32, 105, 110, 104, 101, 114, 105, 116, 59, 10, 125, 10, 111, 108, 44] : List UInt8) ++
  ([32, 117, 108, 32, 123, 10, 109, 97, 114, 103, 105, 110, 45, 98, 111, 116, 116, 111, 109, 58, 32, 48, 46, 53, 101, 109, 59, 10, 109, 97, 114, 103, 105, 110, 45, 116, 111, 112, 58, 32, 48, 46, 53, 101, 109, 59, 10, 125, 10, 112, 32, 123, 10, 109, 97, 114, 103, 105, 110, 45, 98, 111, 116, 116] : List UInt8) ++
  ([111, 109, 58, 32, 50, 101, 109, 59, 10, 125, 10, 116, 97, 98, 108, 101, 32, 123, 10, 109, 97, 114, 103, 105, 110, 58, 32, 48, 46, 54, 101, 109, 59, 10, 125, 10, 116, 97, 98, 108, 101, 32, 116, 114, 58, 110, 116, 104, 45, 99, 104, 105, 108, 100, 40, 111, 100, 100, 41, 32, 123, 10, 98, 97] : List UInt8) ++
  ([99, 107, 103, 114, 111, 117, 110, 100, 45, 99, 111, 108, 111, 114, 58, 32, 35, 70, 48, 70, 48, 70, 48, 59, 10, 125, 10, 116, 97, 98, 108, 101, 32, 116, 114, 58, 104, 111, 118, 101, 114, 32, 123, 10, 98, 97, 99, 107, 103, 114, 111, 117, 110, 100, 45, 99, 111, 108, 111, 114, 58, 32, 35, 68] : List UInt8) ++
  ([68, 68, 32, 33, 105, 109, 112, 111, 114, 116, 97, 110, 116, 59, 10, 125, 10, 116, 97, 98, 108, 101, 32, 116, 100, 32, 123, 10, 102, 111, 110, 116, 45, 102, 97, 109, 105, 108, 121, 58, 32, 109, 111, 110, 111, 115, 112, 97, 99, 101, 59, 10, 112, 97, 100, 100, 105, 110, 103, 58, 32, 48, 46, 50] : List UInt8) ++
  ([101, 109, 32, 48, 46, 52, 101, 109, 32, 48, 46, 50, 101, 109, 59, 10, 125, 10, 46, 99, 97, 108, 108, 32, 123, 10, 102, 111, 110, 116, 45, 102, 97, 109, 105, 108, 121, 58, 32, 109, 111, 110, 111, 115, 112, 97, 99, 101, 59, 10, 125, 10, 64, 109, 101, 100, 105, 97, 32, 115, 99, 114, 101, 101] : List UInt8) ++
  ([110, 32, 97, 110, 100, 32, 40, 109, 97, 120, 45, 119, 105, 100, 116, 104, 58, 32, 53, 48, 48, 112, 120, 41, 32, 123, 10, 104, 49, 32, 123, 10, 102, 111, 110, 116, 45, 115, 105, 122, 101, 58, 32, 49, 46, 51, 101, 109, 59, 10, 125, 10, 125, 10, 64, 109, 101, 100, 105, 97, 32, 115, 99, 114] : List UInt8) ++
  ([101, 101, 110, 32, 97, 110, 100, 32, 40, 109, 97, 120, 45, 119, 105, 100, 116, 104, 58, 32, 53, 48, 48, 112, 120, 41, 32, 97, 110, 100, 32, 40, 111, 114, 105, 101, 110, 116, 97, 116, 105, 111, 110, 58, 32, 112, 111, 114, 116, 114, 97, 105, 116, 41, 32, 123, 10, 46, 97, 114, 103, 115, 32, 115] : List UInt8) ++
  ([112, 97, 110, 32, 123, 10, 100, 105, 115, 112, 108, 97, 121, 58, 32, 110, 111, 110, 101, 59, 10, 125, 10, 46, 97, 114, 103, 115, 58, 58, 97, 102, 116, 101, 114, 32, 123, 10, 99, 111, 110, 116, 101, 110, 116, 58, 32, 39, 226, 128, 166, 39, 59, 10, 125, 10, 125, 10, 46, 99, 114, 101, 97, 116] : List UInt8) ++
  ([101, 100, 32, 123, 10, 119, 104, 105, 116, 101, 45, 115, 112, 97, 99, 101, 58, 32, 110, 111, 119, 114, 97, 112, 59, 10, 125, 10, 46, 114, 97, 99, 101, 32, 123, 10, 102, 111, 110, 116, 45, 119, 101, 105, 103, 104, 116, 58, 32, 55, 48, 48, 59, 10, 99, 111, 108, 111, 114, 58, 32, 35, 54, 48] : List UInt8) ++
  ([48, 59, 10, 125, 10, 35, 99, 111, 110, 116, 101, 110, 116, 32, 123, 10, 119, 105, 100, 116, 104, 58, 32, 49, 48, 48, 37, 59, 10, 125, 10, 46, 104, 97, 115, 116, 111, 111, 108, 116, 105, 112, 58, 104, 111, 118, 101, 114, 32, 46, 116, 111, 111, 108, 116, 105, 112, 32, 123, 10, 98, 97, 99, 107] : List UInt8) ++
  ([103, 114, 111, 117, 110, 100, 58, 32, 35, 102, 102, 102, 65, 70, 48, 59, 10, 98, 111, 114, 100, 101, 114, 58, 32, 49, 112, 120, 32, 115, 111, 108, 105, 100, 32, 35, 68, 67, 65, 59, 10, 98, 111, 114, 100, 101, 114, 45, 114, 97, 100, 105, 117, 115, 58, 32, 54, 112, 120, 59, 10, 98, 111, 120] : List UInt8) ++
  ([45, 115, 104, 97, 100, 111, 119, 58, 32, 53, 112, 120, 32, 53, 112, 120, 32, 56, 112, 120, 32, 35, 67, 67, 67, 59, 10, 99, 111, 108, 111, 114, 58, 32, 35, 49, 49, 49, 59, 10, 100, 105, 115, 112, 108, 97, 121, 58, 32, 105, 110, 108, 105, 110, 101, 59, 10, 112, 111, 115, 105, 116, 105, 111] : List UInt8) ++
  ([110, 58, 32, 97, 98, 115, 111, 108, 117, 116, 101, 59, 10, 125, 10, 46, 116, 111, 111, 108, 116, 105, 112, 32, 123, 10, 100, 105, 115, 112, 108, 97, 121, 58, 32, 110, 111, 110, 101, 59, 10, 108, 105, 110, 101, 45, 104, 101, 105, 103, 104, 116, 58, 32, 49, 54, 112, 120, 59, 10, 109, 97, 114, 103] : List UInt8) ++
  ([105, 110, 45, 108, 101, 102, 116, 58, 32, 49, 114, 101, 109, 59, 10, 109, 97, 114, 103, 105, 110, 45, 116, 111, 112, 58, 32, 50, 46, 53, 114, 101, 109, 59, 10, 112, 97, 100, 100, 105, 110, 103, 58, 32, 49, 114, 101, 109, 59, 10, 122, 45, 105, 110, 100, 101, 120, 58, 32, 49, 48, 59, 10, 125] : List UInt8) ++
  ([10, 46, 98, 111, 116, 116, 111, 109, 45, 112, 97, 100, 100, 105, 110, 103, 32, 123, 10, 109, 97, 114, 103, 105, 110, 45, 116, 111, 112, 58, 32, 53, 101, 109, 59, 10, 125] : List UInt8)

/- text node t4 of `t`: 241 bytes
.FuncMain {
color: #880;
}
.FuncLocationUnknown {
color: #888;
}
.FuncGoMod {
color: #800;
}
.FuncGOPATH {
color: #109090;
}
.FuncGoPkg {
color: #008;
}
.FuncStdlib {
color: #080;
}
.Exported {
font-weight: 700;
}
</style>
<div id="content">
-/
def t4 : Bytes :=
  ([46, 70, 117, 110, 99, 77, 97, 105, 110, 32, 123, 10, 99, 111, 108, 111, 114, 58, 32, 35, 56, 56, 48, 59, 10, 125, 10, 46, 70, 117, 110, 99, 76, 111, 99, 97, 116, 105, 111, 110, 85, 110, 107, 110, 111, 119, 110, 32, 123, 10, 99, 111, 108, 111, 114, 58, 32, 35, 56, 56, 56, 59, 10, 125] : List UInt8) ++
  ([10, 46, 70, 117, 110, 99, 71, 111, 77, 111, 100, 32, 123, 10, 99, 111, 108, 111, 114, 58, 32, 35, 56, 48, 48, 59, 10, 125, 10, 46, 70, 117, 110, 99, 71, 79, 80, 65, 84, 72, 32, 123, 10, 99, 111, 108, 111, 114, 58, 32, 35, 49, 48, 57, 48, 57, 48, 59, 10, 125, 10, 46, 70, 117] : List UInt8) ++
  ([110, 99, 71, 111, 80, 107, 103, 32, 123, 10, 99, 111, 108, 111, 114, 58, 32, 35, 48, 48, 56, 59, 10, 125, 10, 46, 70, 117, 110, 99, 83, 116, 100, 108, 105, 98, 32, 123, 10, 99, 111, 108, 111, 114, 58, 32, 35, 48, 56, 48, 59, 10, 125, 10, 46, 69, 120, 112, 111, 114, 116, 101, 100, 32] : List UInt8) ++
  ([123, 10, 102, 111, 110, 116, 45, 119, 101, 105, 103, 104, 116, 58, 32, 55, 48, 48, 59, 10, 125, 10, 60, 47, 115, 116, 121, 108, 101, 62, 10, 60, 100, 105, 118, 32, 105, 100, 61, 34, 99, 111, 110, 116, 101, 110, 116, 34, 62] : List UInt8)

/- text node t53 of `t`: 1618 bytes
</li>
</ul>
<h2>Legend</h2>
<table class="legend">
<thead>
<th>Type</th>
<th>Exported</th>
<th>Private</th>
</thead>
<tr class="call hastooltip">
<td>
Package main
<span class="tooltip">Sources that are in the main package.</span>
</td>
<td class="FuncMain">main.Foo()</td>
<td class="FuncMain">main.foo()</td>
</tr>
<tr class="call hastooltip">
<td>
Go module
<span class="tooltip">Sources located inside a directory containing a
<strong>go.mod</strong> file but outside $GOPATH.</span>
</td>
<td class="FuncGoMod Exported">pkg.Foo()</td>
<td class="FuncGoMod">pkg.foo()</td>
</tr>
<tr class="call hastooltip">
<td>
$GOPATH/src/...
<span class="tooltip">Sources located inside the traditional $GOPATH/src
directory.</span>
</td>
<td class="FuncGOPATH Exported">pkg.Foo()</td>
<td class="FuncGOPATH">pkg.foo()</td>
</tr>
<tr class="call hastooltip">
<td>
$GOPATH/pkg/mod/...
<span class="tooltip">Sources located inside the go module dependency
cache under $GOPATH/pkg/mod. These files are unmodified third parties.</span>
</td>
<td class="FuncGoPkg Exported">pkg.Foo()</td>
<td class="FuncGoPkg">pkg.foo()</td>
</tr>
<tr class="call hastooltip">
<td>
Standard library
<span class="tooltip">Sources from the Go standard library under
$GOROOT/src/.</span>
</td>
<td class="FuncStdlib Exported">pkg.Foo()</td>
<td class="FuncStdlib">pkg.foo()</td>
</tr>
<tr class="call hastooltip">
<td>
Unknown source location
<span class="tooltip">Sources which location was not successfully
determined.</span>
</td>
<td class="FuncLocationUnknown Exported">pkg.Foo()</td>
<td class="FuncLocationUnknown">pkg.foo()</td>
</tr>
</table>
-/
def t53 : Bytes :=
  ([60, 47, 108, 105, 62, 10, 60, 47, 117, 108, 62, 10, 60, 104, 50, 62, 76, 101, 103, 101, 110, 100, 60, 47, 104, 50, 62, 10, 60, 116, 97, 98, 108, 101, 32, 99, 108, 97, 115, 115, 61, 34, 108, 101, 103, 101, 110, 100, 34, 62, 10, 60, 116, 104, 101, 97, 100, 62, 10, 60, 116, 104, 62, 84] : List UInt8) ++
  ([121, 112, 101, 60, 47, 116, 104, 62, 10, 60, 116, 104, 62, 69, 120, 112, 111, 114, 116, 101, 100, 60, 47, 116, 104, 62, 10, 60, 116, 104, 62, 80, 114, 105, 118, 97, 116, 101, 60, 47, 116, 104, 62, 10, 60, 47, 116, 104, 101, 97, 100, 62, 10, 60, 116, 114, 32, 99, 108, 97, 115, 115, 61, 34] : List UInt8) ++
  ([99, 97, 108, 108, 32, 104, 97, 115, 116, 111, 111, 108, 116, 105, 112, 34, 62, 10, 60, 116, 100, 62, 10, 80, 97, 99, 107, 97, 103, 101, 32, 109, 97, 105, 110, 10, 60, 115, 112, 97, 110, 32, 99, 108, 97, 115, 115, 61, 34, 116, 111, 111, 108, 116, 105, 112, 34, 62, 83, 111, 117, 114, 99, 101] : List UInt8) ++
  ([115, 32, 116, 104, 97, 116, 32, 97, 114, 101, 32, 105, 110, 32, 116, 104, 101, 32, 109, 97, 105, 110, 32, 112, 97, 99, 107, 97, 103, 101, 46, 60, 47, 115, 112, 97, 110, 62, 10, 60, 47, 116, 100, 62, 10, 60, 116, 100, 32, 99, 108, 97, 115, 115, 61, 34, 70, 117, 110, 99, 77, 97, 105, 110] : List UInt8) ++
  ([34, 62, 109, 97, 105, 110, 46, 70, 111, 111, 40, 41, 60, 47, 116, 100, 62, 10, 60, 116, 100, 32, 99, 108, 97, 115, 115, 61, 34, 70, 117, 110, 99, 77, 97, 105, 110, 34, 62, 109, 97, 105, 110, 46, 102, 111, 111, 40, 41, 60, 47, 116, 100, 62, 10, 60, 47, 116, 114, 62, 10, 60, 116, 114] : List UInt8) ++
  ([32, 99, 108, 97, 115, 115, 61, 34, 99, 97, 108, 108, 32, 104, 97, 115, 116, 111, 111, 108, 116, 105, 112, 34, 62, 10, 60, 116, 100, 62, 10, 71, 111, 32, 109, 111, 100, 117, 108, 101, 10, 60, 115, 112, 97, 110, 32, 99, 108, 97, 115, 115, 61, 34, 116, 111, 111, 108, 116, 105, 112, 34, 62, 83] : List UInt8) ++
  ([111, 117, 114, 99, 101, 115, 32, 108, 111, 99, 97, 116, 101, 100, 32, 105, 110, 115, 105, 100, 101, 32, 97, 32, 100, 105, 114, 101, 99, 116, 111, 114, 121, 32, 99, 111, 110, 116, 97, 105, 110, 105, 110, 103, 32, 97, 10, 60, 115, 116, 114, 111, 110, 103, 62, 103, 111, 46, 109, 111, 100, 60, 47, 115] : List UInt8) ++
  ([116, 114, 111, 110, 103, 62, 32, 102, 105, 108, 101, 32, 98, 117, 116, 32, 111, 117, 116, 115, 105, 100, 101, 32, 36, 71, 79, 80, 65, 84, 72, 46, 60, 47, 115, 112, 97, 110, 62, 10, 60, 47, 116, 100, 62, 10, 60, 116, 100, 32, 99, 108, 97, 115, 115, 61, 34, 70, 117, 110, 99, 71, 111, 77] : List UInt8) ++
  ([111, 100, 32, 69, 120, 112, 111, 114, 116, 101, 100, 34, 62, 112, 107, 103, 46, 70, 111, 111, 40, 41, 60, 47, 116, 100, 62, 10, 60, 116, 100, 32, 99, 108, 97, 115, 115, 61, 34, 70, 117, 110, 99, 71, 111, 77, 111, 100, 34, 62, 112, 107, 103, 46, 102, 111, 111, 40, 41, 60, 47, 116, 100, 62] : List UInt8) ++
  ([10, 60, 47, 116, 114, 62, 10, 60, 116, 114, 32, 99, 108, 97, 115, 115, 61, 34, 99, 97, 108, 108, 32, 104, 97, 115, 116, 111, 111, 108, 116, 105, 112, 34, 62, 10, 60, 116, 100, 62, 10, 36, 71, 79, 80, 65, 84, 72, 47, 115, 114, 99, 47, 46, 46, 46, 10, 60, 115, 112, 97, 110, 32, 99] : List UInt8) ++
  ([108, 97, 115, 115, 61, 34, 116, 111, 111, 108, 116, 105, 112, 34, 62, 83, 111, 117, 114, 99, 101, 115, 32, 108, 111, 99, 97, 116, 101, 100, 32, 105, 110, 115, 105, 100, 101, 32, 116, 104, 101, 32, 116, 114, 97, 100, 105, 116, 105, 111, 110, 97, 108, 32, 36, 71, 79, 80, 65, 84, 72, 47, 115, 114] : List UInt8) ++
  ([99, 10, 100, 105, 114, 101, 99, 116, 111, 114, 121, 46, 60, 47, 115, 112, 97, 110, 62, 10, 60, 47, 116, 100, 62, 10, 60, 116, 100, 32, 99, 108, 97, 115, 115, 61, 34, 70, 117, 110, 99, 71, 79, 80, 65, 84, 72, 32, 69, 120, 112, 111, 114, 116, 101, 100, 34, 62, 112, 107, 103, 46, 70, 111] : List UInt8) ++
  ([111, 40, 41, 60, 47, 116, 100, 62, 10, 60, 116, 100, 32, 99, 108, 97, 115, 115, 61, 34, 70, 117, 110, 99, 71, 79, 80, 65, 84, 72, 34, 62, 112, 107, 103, 46, 102, 111, 111, 40, 41, 60, 47, 116, 100, 62, 10, 60, 47, 116, 114, 62, 10, 60, 116, 114, 32, 99, 108, 97, 115, 115, 61, 34] : List UInt8) ++
  ([99, 97, 108, 108, 32, 104, 97, 115, 116, 111, 111, 108, 116, 105, 112, 34, 62, 10, 60, 116, 100, 62, 10, 36, 71, 79, 80, 65, 84, 72, 47, 112, 107, 103, 47, 109, 111, 100, 47, 46, 46, 46, 10, 60, 115, 112, 97, 110, 32, 99, 108, 97, 115, 115, 61, 34, 116, 111, 111, 108, 116, 105, 112, 34] : List UInt8) ++
  ([62, 83, 111, 117, 114, 99, 101, 115, 32, 108, 111, 99, 97, 116, 101, 100, 32, 105, 110, 115, 105, 100, 101, 32, 116, 104, 101, 32, 103, 111, 32, 109, 111, 100, 117, 108, 101, 32, 100, 101, 112, 101, 110, 100, 101, 110, 99, 121, 10, 99, 97, 99, 104, 101, 32, 117, 110, 100, 101, 114, 32, 36, 71, 79] : List UInt8) ++
  ([80, 65, 84, 72, 47, 112, 107, 103, 47, 109, 111, 100, 46, 32, 84, 104, 101, 115, 101, 32, 102, 105, 108, 101, 115, 32, 97, 114, 101, 32, 117, 110, 109, 111, 100, 105, 102, 105, 101, 100, 32, 116, 104, 105, 114, 100, 32, 112, 97, 114, 116, 105, 101, 115, 46, 60, 47, 115, 112, 97, 110, 62, 10, 60] : List UInt8) ++
  ([47, 116, 100, 62, 10, 60, 116, 100, 32, 99, 108, 97, 115, 115, 61, 34, 70, 117, 110, 99, 71, 111, 80, 107, 103, 32, 69, 120, 112, 111, 114, 116, 101, 100, 34, 62, 112, 107, 103, 46, 70, 111, 111, 40, 41, 60, 47, 116, 100, 62, 10, 60, 116, 100, 32, 99, 108, 97, 115, 115, 61, 34, 70, 117] : List UInt8) ++
  ([110, 99, 71, 111, 80, 107, 103, 34, 62, 112, 107, 103, 46, 102, 111, 111, 40, 41, 60, 47, 116, 100, 62, 10, 60, 47, 116, 114, 62, 10, 60, 116, 114, 32, 99, 108, 97, 115, 115, 61, 34, 99, 97, 108, 108, 32, 104, 97, 115, 116, 111, 111, 108, 116, 105, 112, 34, 62, 10, 60, 116, 100, 62, 10] : List UInt8) ++
  ([83, 116, 97, 110, 100, 97, 114, 100, 32, 108, 105, 98, 114, 97, 114, 121, 10, 60, 115, 112, 97, 110, 32, 99, 108, 97, 115, 115, 61, 34, 116, 111, 111, 108, 116, 105, 112, 34, 62, 83, 111, 117, 114, 99, 101, 115, 32, 102, 114, 111, 109, 32, 116, 104, 101, 32, 71, 111, 32, 115, 116, 97, 110, 100] : List UInt8) ++
  ([97, 114, 100, 32, 108, 105, 98, 114, 97, 114, 121, 32, 117, 110, 100, 101, 114, 10, 36, 71, 79, 82, 79, 79, 84, 47, 115, 114, 99, 47, 46, 60, 47, 115, 112, 97, 110, 62, 10, 60, 47, 116, 100, 62, 10, 60, 116, 100, 32, 99, 108, 97, 115, 115, 61, 34, 70, 117, 110, 99, 83, 116, 100, 108] : List UInt8) ++
  ([105, 98, 32, 69, 120, 112, 111, 114, 116, 101, 100, 34, 62, 112, 107, 103, 46, 70, 111, 111, 40, 41, 60, 47, 116, 100, 62, 10, 60, 116, 100, 32, 99, 108, 97, 115, 115, 61, 34, 70, 117, 110, 99, 83, 116, 100, 108, 105, 98, 34, 62, 112, 107, 103, 46, 102, 111, 111, 40, 41, 60, 47, 116, 100] : List UInt8) ++
  ([62, 10, 60, 47, 116, 114, 62, 10, 60, 116, 114, 32, 99, 108, 97, 115, 115, 61, 34, 99, 97, 108, 108, 32, 104, 97, 115, 116, 111, 111, 108, 116, 105, 112, 34, 62, 10, 60, 116, 100, 62, 10, 85, 110, 107, 110, 111, 119, 110, 32, 115, 111, 117, 114, 99, 101, 32, 108, 111, 99, 97, 116, 105, 111] : List UInt8) ++
  ([110, 10, 60, 115, 112, 97, 110, 32, 99, 108, 97, 115, 115, 61, 34, 116, 111, 111, 108, 116, 105, 112, 34, 62, 83, 111, 117, 114, 99, 101, 115, 32, 119, 104, 105, 99, 104, 32, 108, 111, 99, 97, 116, 105, 111, 110, 32, 119, 97, 115, 32, 110, 111, 116, 32, 115, 117, 99, 99, 101, 115, 115, 102, 117] : List UInt8) ++
  ([108, 108, 121, 10, 100, 101, 116, 101, 114, 109, 105, 110, 101, 100, 46, 60, 47, 115, 112, 97, 110, 62, 10, 60, 47, 116, 100, 62, 10, 60, 116, 100, 32, 99, 108, 97, 115, 115, 61, 34, 70, 117, 110, 99, 76, 111, 99, 97, 116, 105, 111, 110, 85, 110, 107, 110, 111, 119, 110, 32, 69, 120, 112, 111] : List UInt8) ++
  ([114, 116, 101, 100, 34, 62, 112, 107, 103, 46, 70, 111, 111, 40, 41, 60, 47, 116, 100, 62, 10, 60, 116, 100, 32, 99, 108, 97, 115, 115, 61, 34, 70, 117, 110, 99, 76, 111, 99, 97, 116, 105, 111, 110, 85, 110, 107, 110, 111, 119, 110, 34, 62, 112, 107, 103, 46, 102, 111, 111, 40, 41, 60, 47] : List UInt8) ++
  ([116, 100, 62, 10, 60, 47, 116, 114, 62, 10, 60, 47, 116, 97, 98, 108, 101, 62] : List UInt8)

end Lit

/-! ## The data map of `toHTML` -/

/-- What the template reads from the data map besides the goroutines or buckets:
the four entries `toHTML` adds (`Favicon`, `GOMAXPROCS`, `Now`, `Version` — the
version is the `ver` parameter the URL builders already take), the caller's
`Footer`, and the root fields of `*Snapshot` printed by the Metadata section.
All strings are arbitrary bytes. -/
structure DocMeta where
  /-- `data["Favicon"]`: the constant `favicon` of stack/data.go -/
  favicon : Bytes := []
  /-- `.Now.String`: `time.Now().Truncate(time.Second).String()` -/
  now : Bytes := []
  /-- `runtime.GOMAXPROCS(0)` (always positive) -/
  gomaxprocs : Nat := 1
  remoteGOROOT : Bytes := []
  localGOROOT : Bytes := []
  localGOPATHs : List Bytes := []
  /-- `Snapshot.LocalGomods`, in the order text/template's `range` visits a map
  (sorted keys); no theorem depends on the order -/
  localGomods : List (Bytes × Bytes) := []
  /-- the `footer template.HTML` argument of `ToHTML` -/
  footer : Bytes := []
  deriving Repr

/-- `data["Snapshot"].Goroutines` or `data["Aggregated"].Buckets`: which of the
two loops of the content division runs (`{{if .Aggregated}}`) -/
inductive DocBody
  | snapshot (gs : List Goroutine)
  | aggregated (bs : List Bucket)
  deriving Repr

/-- the data map of `toHTML`; `.Snapshot` is assumed non-nil -/
structure DocData extends DocMeta where
  /-- `runtime.Version()`: `data["Version"]` and the version the URL builders use -/
  ver : Bytes := []
  body : DocBody := .snapshot []
  deriving Repr

/-! ## The pieces around the content division -/

/-- `href="data:image/gif;base64,{{.Favicon}}"`: the hole sits inside a URL
attribute after a literal prefix, so html/template gives it `urlnormalizer,
attrescaper` and no `urlfilter` (pinned as `esc_dataurl`).  `HoleKind.href`
renders with `attrEscaper (urlNormalizer (urlFilterURL v))` and `urlFilterURL`
is the identity, so the same hole kind renders it (`faviconHole_render` in
PP/Lemmas/HtmlDocMeta.lean).  The favicon constant is typed `template.HTML`,
not `template.URL`: `urlNormalizer` normalises whatever the content type, and
its result is a plain string for `attrEscaper`. -/
def faviconHole (v : Bytes) : Piece := .hole .href v

/-- text nodes 0..4 and the Favicon hole: everything before the content -/
def headPieces (m : DocMeta) : List Piece :=
  [.lit Lit.t0, .lit Lit.t1, faviconHole m.favicon, .lit Lit.t2, .lit Lit.t3, .lit Lit.t4]

/-- template `Join`: elements separated by `, ` (nothing for an empty list) -/
def joinItems : List Bytes → List Piece
  | [] => []
  | [e] => [tx e]
  | e :: es => tx e :: .lit Lit.j0 :: joinItems es

/-- `{{if and .Snapshot.LocalGOROOT (ne .Snapshot.RemoteGOROOT .Snapshot.LocalGOROOT)}}` -/
def gorootPieces (m : DocMeta) : List Piece :=
  if m.localGOROOT != [] && m.remoteGOROOT != m.localGOROOT then
    [.lit Lit.t40, tx m.remoteGOROOT, .lit Lit.t41, tx m.localGOROOT, .lit Lit.t42]
  else [.lit Lit.t43, tx m.remoteGOROOT, .lit Lit.t44]

/-- the body of `range $path, $import := .Snapshot.LocalGomods` -/
def gomodItems : List (Bytes × Bytes) → List Piece
  | [] => []
  | (p, i) :: r => [.lit Lit.t48, tx p, .lit Lit.t49, tx i, .lit Lit.t50] ++ gomodItems r

/-- `{{if .Snapshot.LocalGomods}}` -/
def gomodPieces (m : DocMeta) : List Piece :=
  if m.localGomods.isEmpty then [] else [.lit Lit.t47] ++ gomodItems m.localGomods ++ [.lit Lit.t51]

/-- from `</div>` closing the content to the GOMAXPROCS value: text nodes 37..52 -/
def metaListPieces (ver : Bytes) (m : DocMeta) : List Piece :=
  [.lit Lit.t37, tx m.now, .lit Lit.t38, tx ver, .lit Lit.t39] ++ gorootPieces m ++
  [.lit Lit.t45] ++ joinItems m.localGOPATHs ++ [.lit Lit.t46] ++ gomodPieces m ++
  [.lit Lit.t52, txNat m.gomaxprocs]

/-- … and text node 53 (end of the list, the legend) -/
def metaPieces (ver : Bytes) (m : DocMeta) : List Piece := metaListPieces ver m ++ [.lit Lit.t53]

/-- the content division for either body -/
def contentOf (ver : Bytes) : DocBody → Except HtmlErr (List Piece)
  | .snapshot gs => contentSnapshot ver gs
  | .aggregated bs => contentAggregated ver bs

/-- every piece of the document before `{{.Footer}}` -/
def docPieces (d : DocData) : Except HtmlErr (List Piece) :=
  match contentOf d.ver d.body with
  | .error e => .error e
  | .ok c => .ok (headPieces d.toDocMeta ++ c ++ metaPieces d.ver d.toDocMeta)

/-- pieces, then `{{.Footer}}` (a `template.HTML` value in a text context:
`htmlEscaperHTML`, unchanged), then text node 54 -/
def renderWithFooter (ps : List Piece) (footer : Bytes) : Except HtmlErr Bytes :=
  match renderPieces ps with
  | .error e => .error e
  | .ok r => .ok (r ++ htmlEscaperHTML footer ++ Lit.t54)

/-- the bytes `toHTML` writes -/
def renderDoc (d : DocData) : Except HtmlErr Bytes :=
  match docPieces d with
  | .error e => .error e
  | .ok ps => renderWithFooter ps d.footer

/-- the Metadata section alone, rendered -/
def renderMeta (ver : Bytes) (m : DocMeta) : Except HtmlErr Bytes := renderPieces (metaPieces ver m)

end PP.Html
