import PP.Model.Bytes
/-
Data types of package stack (stack.go, bucket.go), as immutable values.
Go `int`s that only ever hold parsed naturals (ids, lines, minutes; `atou`
accepts at most 18 digits) are `Nat`; `uint64` argument values and race
addresses are `Nat` with the `< 2^64` bound enforced by the parser model.
-/
namespace PP

/-- stack.Similarity (bucket.go:15-24), in declaration order. -/
inductive Lvl | exactFlags | exactLines | anyPointer | anyValue
  deriving DecidableEq, Repr, Inhabited

/-- stack.Location (stack.go:314-332), in declaration order. -/
inductive Loc | unknown | goMod | gopath | goPkg | stdlib
  deriving DecidableEq, Repr, Inhabited

def Loc.toNat : Loc → Nat
  | .unknown => 0 | .goMod => 1 | .gopath => 2 | .goPkg => 3 | .stdlib => 4

structure Func where
  complete : Bytes := []
  importPath : Bytes := []
  dirName : Bytes := []
  name : Bytes := []
  isExported : Bool := false
  isPkgMain : Bool := false
  deriving DecidableEq, Repr, Inhabited

/-- stack.Arg.  A scalar carries (Name, Value, IsPtr, IsOffsetTooLarge,
IsInaccurate); an aggregate carries its `Fields` (`Args.Values`, `Args.Elided`). -/
inductive Arg where
  | scalar (name : Bytes) (value : Nat) (isPtr otl inaccurate : Bool)
  | agg (fields : List Arg) (elided : Bool)
  deriving Repr, Inhabited

structure Args where
  values : List Arg := []
  processed : List Bytes := []
  elided : Bool := false
  deriving Repr, Inhabited

structure Call where
  fn : Func := {}
  args : Args := {}
  remoteSrcPath : Bytes := []
  line : Nat := 0
  srcName : Bytes := []
  dirSrc : Bytes := []
  localSrcPath : Bytes := []
  relSrcPath : Bytes := []
  importPath : Bytes := []
  location : Loc := .unknown
  deriving Repr, Inhabited

structure Stack where
  calls : List Call := []
  elided : Bool := false
  deriving Repr, Inhabited

structure Signature where
  state : Bytes := []
  createdBy : Stack := {}
  sleepMin : Nat := 0
  sleepMax : Nat := 0
  stack : Stack := {}
  locked : Bool := false
  deriving Repr, Inhabited

structure Goroutine where
  sig : Signature := {}
  id : Nat := 0
  first : Bool := false
  raceWrite : Bool := false
  raceAddr : Nat := 0
  deriving Repr, Inhabited

/-- stack.Bucket -/
structure Bucket where
  sig : Signature
  ids : List Nat
  first : Bool
  deriving Repr, Inhabited

end PP
