import PP.Model.Scan
import PP.Model.Reader
import PP.Model.Names
/-
ScanSnapshot (context.go:160-208): the read-scan-forward loop, at two levels.

* `scanB`: byte level, through the reader model, for a given capacity and
  delivery schedule.
* `scanL`: line level, over the sequence of (line, error) pairs the reader
  yields (`specLines`).

`PP.Props.C09` relates the two.  The prefix writer is modelled as infallible
(the properties do not quantify over writer failures).
-/
namespace PP

inductive LErr
  | reader (e : RErr)
  | parse (e : Err)
  deriving DecidableEq, Repr, Inhabited

/-- `if err1 != nil && (err == nil || err == io.EOF) { err = err1 }` -/
def combineErr (e : Option RErr) (e1 : Option Err) : Option LErr :=
  match e1, e with
  | some p, none => some (.parse p)
  | some p, some .eof => some (.parse p)
  | _, some r => some (.reader r)
  | none, none => none

/-- result of the line-level loop -/
structure OutL where
  s : S
  fwd : Bytes                              -- bytes written to the pass-through writer
  consumed : List Bytes                    -- ghost: lines for which scan returned true
  err : Option LErr
  rest : List (Bytes × Option RErr)        -- items not consumed: the terminating line first
  broke : Bool                             -- left through the `suffix = …; break` exit
  panicked : Option Panic := none
  deriving Repr

/-- the loop of ScanSnapshot over reader items -/
def scanL : S → Bytes → List Bytes → List (Bytes × Option RErr) → OutL
  | s, fwd, cons, [] => { s := s, fwd := fwd, consumed := cons, err := none, rest := [], broke := false }
  | s, fwd, cons, (d, e) :: items =>
    if s.st == .done then { s := s, fwd := fwd, consumed := cons, err := none, rest := (d, e) :: items, broke := false }
    else if d.length != 0 then
      match scanBytes s d with
      | .error p => { s := s, fwd := fwd, consumed := cons, err := none, rest := (d, e) :: items, broke := false, panicked := some p }
      | .ok (s', l, e1) =>
        let err := combineErr e e1
        if !l then
          if s'.st != .looking then
            { s := s', fwd := fwd, consumed := cons, err := err, rest := (d, e) :: items, broke := true }
          else if err.isSome then
            { s := s', fwd := fwd ++ d, consumed := cons, err := err, rest := items, broke := false }
          else scanL s' (fwd ++ d) cons items
        else if err.isSome then
          { s := s', fwd := fwd, consumed := cons ++ [d], err := err, rest := items, broke := false }
        else scanL s' fwd (cons ++ [d]) items
    else
      match e with
      | some r => { s := s, fwd := fwd, consumed := cons, err := some (.reader r), rest := items, broke := false }
      | none => scanL s fwd cons items

def itemsBytes (items : List (Bytes × Option RErr)) : Bytes := items.flatMap (·.1)

/-- result of the byte-level loop -/
structure OutB where
  s : S
  fwd : Bytes
  consumed : List Bytes
  err : Option LErr
  suffix : Option Bytes                    -- `none` = nil
  rd : Rd                                  -- the reader when the loop ended
  panicked : Bool := false
  deriving Repr

/-- the loop of ScanSnapshot through the reader; `fuel` bounds the iterations
(one line or one final empty read each). -/
def scanB (N retry : Nat) : Nat → S → Bytes → List Bytes → Rd → Option OutB
  | 0, _, _, _, _ => none
  | fuel + 1, s, fwd, cons, rd =>
    if s.st == .done then some { s := s, fwd := fwd, consumed := cons, err := none, suffix := none, rd := rd }
    else
      match readLine N retry (lineFuel rd) [] rd with
      | none => none
      | some (.error _) => some { s := s, fwd := fwd, consumed := cons, err := none, suffix := none, rd := rd, panicked := true }
      | some (.ok (d, e, rd')) =>
        if d.length != 0 then
          match scanBytes s d with
          | .error _ => some { s := s, fwd := fwd, consumed := cons, err := none, suffix := none, rd := rd', panicked := true }
          | .ok (s', l, e1) =>
            let err := combineErr e e1
            if !l then
              if s'.st != .looking then
                some { s := s', fwd := fwd, consumed := cons, err := err, suffix := some (d ++ rd'.buf), rd := { rd' with buf := [] } }
              else if err.isSome then
                some { s := s', fwd := fwd ++ d, consumed := cons, err := err, suffix := none, rd := rd' }
              else scanB N retry fuel s' (fwd ++ d) cons rd'
            else if err.isSome then
              some { s := s', fwd := fwd, consumed := cons ++ [d], err := err, suffix := none, rd := rd' }
            else scanB N retry fuel s' fwd (cons ++ [d]) rd'
        else
          match e with
          | some r => some { s := s, fwd := fwd, consumed := cons, err := some (.reader r), suffix := none, rd := rd' }
          | none => scanB N retry fuel s fwd cons rd'

/-- the tail of ScanSnapshot after the loop: hand back what was read ahead when
the trace ended on a consumed line; `suffix` stays nil otherwise. -/
def finishSuffix (o : OutB) : Option Bytes × Rd :=
  if o.s.st == .done && o.suffix.isNone then (some o.rd.buf, { o.rd with buf := [] }) else (o.suffix, o.rd)

structure ScanResult where
  snap : Option (List Goroutine)           -- nil *Snapshot = none
  fwd : Bytes
  suffix : Option Bytes
  unread : Bytes                           -- bytes the source still holds
  err : Option LErr
  consumed : List Bytes
  state : St
  panicked : Bool
  deriving Repr

/-- ScanSnapshot with GuessPaths and AnalyzeSources off -/
def scanSnapshot (N retry : Nat) (nameArgs : Bool) (src : Src) : Option ScanResult :=
  match scanB N retry (src.rest.length + 2) {} [] [] { src := src } with
  | none => none
  | some o =>
    let (suffix, rd) := finishSuffix o
    let snap := if o.s.gs.isEmpty then none else some (if nameArgs then nameArguments o.s.gs else o.s.gs)
    some { snap := snap, fwd := o.fwd, suffix := suffix, unread := rd.buf ++ rd.src.rest, err := o.err,
           consumed := o.consumed, state := o.s.st, panicked := o.panicked }

/-- the same at line level, for a stream with content `bs` that ends in `fin` -/
def scanSnapshotL (nameArgs : Bool) (bs : Bytes) (fin : RErr) : ScanResult :=
  let o := scanL {} [] [] (specLines bs fin)
  let snap := if o.s.gs.isEmpty then none else some (if nameArgs then nameArguments o.s.gs else o.s.gs)
  let remaining := itemsBytes o.rest
  -- the suffix is non-nil after a `break`, and (F2) whenever the state is done
  let suffix := if o.broke || o.s.st == .done then some remaining else none
  { snap := snap, fwd := o.fwd, suffix := suffix, unread := if suffix.isSome then [] else remaining,
    err := o.err, consumed := o.consumed, state := o.s.st, panicked := o.panicked.isSome }

end PP
