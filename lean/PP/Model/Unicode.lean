import PP.Model.Bytes
import PP.Extracted
/-
UTF-8 decoding of the first rune (utf8.DecodeRune) and the one Unicode fact
Func.Init needs: `unicode.ToUpper(r) == r`.  The table of code points whose
upper-case mapping differs comes from the Go toolchain in use (PP/Extracted.lean,
regenerated on every run).
-/
namespace PP

def runeError : Nat := 0xFFFD

/-- utf8.DecodeRune: the first rune and its width; invalid or empty input gives
(U+FFFD, 1) or (U+FFFD, 0). -/
def decodeRune (s : Bytes) : Nat × Nat :=
  match s with
  | [] => (runeError, 0)
  | b0 :: t =>
    let c0 := b0.toNat
    if c0 < 0x80 then (c0, 1)
    else
      let cont (b : UInt8) : Bool := 0x80 ≤ b.toNat && b.toNat ≤ 0xBF
      if 0xC2 ≤ c0 && c0 ≤ 0xDF then
        match t with
        | b1 :: _ => if cont b1 then ((c0 &&& 0x1F) <<< 6 ||| (b1.toNat &&& 0x3F), 2) else (runeError, 1)
        | _ => (runeError, 1)
      else if 0xE0 ≤ c0 && c0 ≤ 0xEF then
        match t with
        | b1 :: b2 :: _ =>
          let lo := if c0 == 0xE0 then 0xA0 else 0x80
          let hi := if c0 == 0xED then 0x9F else 0xBF
          if lo ≤ b1.toNat && b1.toNat ≤ hi && cont b2 then
            ((c0 &&& 0x0F) <<< 12 ||| (b1.toNat &&& 0x3F) <<< 6 ||| (b2.toNat &&& 0x3F), 3)
          else (runeError, 1)
        | _ => (runeError, 1)
      else if 0xF0 ≤ c0 && c0 ≤ 0xF4 then
        match t with
        | b1 :: b2 :: b3 :: _ =>
          let lo := if c0 == 0xF0 then 0x90 else 0x80
          let hi := if c0 == 0xF4 then 0x8F else 0xBF
          if lo ≤ b1.toNat && b1.toNat ≤ hi && cont b2 && cont b3 then
            ((c0 &&& 0x07) <<< 18 ||| (b1.toNat &&& 0x3F) <<< 12 ||| (b2.toNat &&& 0x3F) <<< 6 ||| (b3.toNat &&& 0x3F), 4)
          else (runeError, 1)
        | _ => (runeError, 1)
      else (runeError, 1)

def firstRune (s : Bytes) : Nat := (decodeRune s).1

/-- number of runes as `range` over a Go string / utf8.RuneCount counts them -/
def runeCount (s : Bytes) : Nat :=
  let rec go (fuel : Nat) (s : Bytes) (n : Nat) : Nat :=
    match fuel with
    | 0 => n
    | fuel + 1 =>
      match s with
      | [] => n
      | _ => go fuel (s.drop (max 1 (decodeRune s).2)) (n + 1)
  go s.length s 0

/-- `unicode.ToUpper(r) == r` -/
def toUpperIsSelf (r : Nat) : Bool :=
  !(Extracted.toUpperDiffers.any fun (lo, hi, stride) => lo ≤ r && r ≤ hi && (r - lo) % stride == 0)

end PP
