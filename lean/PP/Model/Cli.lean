import PP.Model.Loop
import PP.Model.Aggregate
import PP.Model.Console
/-
The `pp` command: internal/main.go `process`, `processInner`, `showBanner`, and the option
gate of stack/context.go `ScanSnapshot` (`Opts.isValid`, `NameArguments`, `GuessPaths`,
`AnalyzeSources`), `Snapshot.IsRace`.

`process` is modelled at line level (`processL`): every iteration is one `ScanSnapshot` call on
what is left of the stream (`scanSnapshotL true rest fin`, `DefaultOpts` has
`NameArguments = true`), followed by `processInner` when a snapshot came back.

Trusted by contract (parameters or not modelled):
* the output writer never fails (`out.Write`, `io.WriteString`); `processInner` then always
  returns nil with `html == ""`;
* `io.MultiReader(bytes.NewReader(suffix), in)` delivers `suffix` followed by the unread input
  (the byte content is `suffix ++ unread`; how it is cut into `Read`s is irrelevant by C09b);
* `log.Printf` (discarded unless `-v`), `os.Getenv("GOTRACEBACK")` (a parameter), `-html`
  (not modelled: `html = ""`), `regexp` (`filter`/`match` are predicates on the header text);
* `guessPaths` / `augment` read the file system: abstract stages in `scanSnapshotOpts`, and
  switched off in `process` (as `verifhooks.Process` does: `rebase = false`).

One thing the line level cannot see: on a *parse error* the bytes written last are
`suffix = line ++ reader.buffered()`, i.e. the offending line and whatever the reader had read
ahead; what the reader had not yet pulled from the source is lost.  At line level `suffix` is
everything that remains (`unread = []`): the delivery in which the whole remainder was
buffered.  `PP.Cli.process_exit_status` and `PP.Cli.last_call_any_delivery` (PP/Props/CLI.lean)
make precise how the two relate; `processB` at the end of this file runs the same loop through
the reader model for a given delivery (used by the driver for the byte-exact comparison).
-/
namespace PP.Cli
open PP PP.Console

/-! ### stack/context.go: the option gate of ScanSnapshot -/

/-- stack.Opts -/
structure Opts where
  localGOROOT : Bytes := []
  localGOPATHs : List Bytes := []
  nameArguments : Bool := false
  guessPaths : Bool := false
  analyzeSources : Bool := false
  deriving Repr, Inhabited

def backslash : UInt8 := 92

/-- `strings.Contains(s, "\\")` -/
def containsBackslash (s : Bytes) : Bool := s.contains backslash

/-- the `for _, p := range o.LocalGOPATHs` loop of isValid -/
def gopathsValid : List Bytes → Bool
  | [] => true
  | p :: ps => if containsBackslash p then false else gopathsValid ps

/-- Opts.isValid (context.go:78-91) -/
def Opts.isValid (o : Opts) : Bool :=
  if !o.guessPaths && o.analyzeSources then false
  else if containsBackslash o.localGOROOT then false
  else gopathsValid o.localGOPATHs

/-- `errors.New("invalid Opts")` -/
inductive OptsErr | invalidOpts
  deriving DecidableEq, Repr

/-- stack.DefaultOpts() for a given GOROOT / GOPATH list -/
def defaultOpts (goroot : Bytes) (gopaths : List Bytes) : Opts :=
  { localGOROOT := goroot, localGOPATHs := gopaths, nameArguments := true, guessPaths := true,
    analyzeSources := true }

/-- the tail of ScanSnapshot (context.go:200-212) on a non-nil goroutine list:
`nameArguments`, then `guessPaths`, then `augment`; the last two are abstract (they read the
file system) -/
def postProcess (o : Opts) (guess augment : List Goroutine → List Goroutine) (gs : List Goroutine) :
    List Goroutine :=
  let gs := if o.nameArguments then nameArguments gs else gs
  let gs := if o.guessPaths then guess gs else gs
  if o.analyzeSources then augment gs else gs

/-- ScanSnapshot with its option gate (context.go:160-213), at line level.  `opts = none` is the
nil pointer.  With `GuessPaths`/`AnalyzeSources` off this is `scanSnapshotL o.nameArguments`. -/
def scanSnapshotOpts (opts : Option Opts) (guess augment : List Goroutine → List Goroutine)
    (bs : Bytes) (fin : RErr) : Except OptsErr ScanResult :=
  match opts with
  | none => .error .invalidOpts
  | some o =>
    if !o.isValid then .error .invalidOpts
    else
      let r := scanSnapshotL false bs fin
      .ok { r with snap := r.snap.map (postProcess o guess augment) }

/-! ### internal/main.go -/

/-- showBanner (main.go:184-187): `gtb` is `os.Getenv("GOTRACEBACK")` -/
def showBanner (gtb : Bytes) : Bool := gtb == [] || gtb == b!"single"

/-- what `process` is called with, besides the streams -/
structure CliCfg where
  palette : Palette := {}
  level : Lvl := .anyPointer
  pf : PathFormat := .basePath
  showBanner : Bool := false
  filter : Option (Bytes → Bool) := none
  mtch : Option (Bytes → Bool) := none

inductive CliPanic
  /-- `s.Goroutines[0]` on an empty slice (Snapshot.IsRace) -/
  | goroutines0
  deriving DecidableEq, Repr

/-- Snapshot.IsRace (context.go:220-222): indexes `Goroutines[0]` -/
def isRace : List Goroutine → Except CliPanic Bool
  | [] => .error .goroutines0
  | g :: _ => .ok (g.raceAddr != 0)

/-- processInner with `html == ""` (main.go:127-144): the bytes written to `out` -/
def renderSnapshot (cfg : CliCfg) (gs : List Goroutine) : Except CliPanic Bytes :=
  let needsEnv := gs.length == 1 && cfg.showBanner
  match isRace gs with
  | .error p => .error p
  | .ok false => .ok (writeBuckets cfg.palette (aggregate cfg.level gs) cfg.pf needsEnv cfg.filter cfg.mtch)
  | .ok true => .ok (writeGoroutines cfg.palette gs cfg.pf needsEnv cfg.filter cfg.mtch)

/-- `if c != nil { processInner(…) }` -/
def renderOpt (cfg : CliCfg) : Option (List Goroutine) → Except CliPanic Bytes
  | none => .ok []
  | some gs => renderSnapshot cfg gs

/-- how `process` ended -/
inductive Status
  /-- `return nil` (the last ScanSnapshot call returned io.EOF) -/
  | ok
  /-- `return err` -/
  | failed (e : LErr)
  /-- ScanSnapshot rejected the options -/
  | invalidOpts
  /-- a panic in `scan` or in `IsRace` (proved unreachable) -/
  | panicked
  /-- model artefact: the fuel ran out (proved unreachable with `input.length + 2`) -/
  | outOfFuel
  deriving DecidableEq, Repr

/-- `if err == io.EOF { return nil }; return err` -/
def statusOf (e : LErr) : Status := if e = .reader .eof then .ok else .failed e

/-- the loop of `process` (main.go:158-181) on a stream with remaining content `input` that ends
in `fin`; `out` = what has been written so far.  One unit of fuel per ScanSnapshot call. -/
def processL (cfg : CliCfg) (fin : RErr) : Nat → Bytes → Bytes → Bytes × Status
  | 0, _, out => (out, .outOfFuel)
  | fuel + 1, input, out =>
    let r := scanSnapshotL true input fin
    if r.panicked then (out ++ r.fwd, .panicked)
    else
      match renderOpt cfg r.snap with
      | .error _ => (out ++ r.fwd, .panicked)
      | .ok rendered =>
        match r.err with
        | none => processL cfg fin fuel (r.suffix.getD [] ++ r.unread) (out ++ r.fwd ++ rendered)
        | some e => (out ++ r.fwd ++ rendered ++ r.suffix.getD [], statusOf e)

/-- enough fuel for every input (`PP.Props.CLI.process_terminates`) -/
def processFuel (input : Bytes) : Nat := input.length + 2

/-- the options `process` builds with `rebase = false`: `DefaultOpts()` with `GuessPaths` and
`AnalyzeSources` cleared -/
def processOpts (goroot : Bytes) (gopaths : List Bytes) : Opts :=
  { defaultOpts goroot gopaths with guessPaths := false, analyzeSources := false }

/-- `process(in, out, p, s, pf, parse, rebase=false, html="", filter, match)`: the first
ScanSnapshot call returns `(nil, nil, "invalid Opts")` when the options are rejected, and
nothing is written. -/
def process (cfg : CliCfg) (goroot : Bytes) (gopaths : List Bytes) (fin : RErr) (input : Bytes) :
    Bytes × Status :=
  if (processOpts goroot gopaths).isValid then processL cfg fin (processFuel input) input []
  else ([], .invalidOpts)

/-! ### the same loop through the reader model (byte level, a given delivery)

Used by the driver for the byte-exact comparison with the implementation when the run ends in a
parse error (then the last bytes written depend on how much the reader had read ahead).  No
theorem is stated about `processB`; C09b (`scanSnapshot_eq_L`) relates each of its calls to the
line-level call. -/

/-- one `ScanSnapshot` call through the reader model: the body of `PP.scanSnapshot` with
`NameArguments = true`, also returning the source as the call left it -/
def scanCallB (N retry : Nat) (src : Src) : Option (ScanResult × Src) :=
  match scanB N retry (src.rest.length + 2) {} [] [] { src := src } with
  | none => none
  | some o =>
    let (suffix, rd) := finishSuffix o
    let snap := if o.s.gs.isEmpty then none else some (nameArguments o.s.gs)
    some ({ snap := snap, fwd := o.fwd, suffix := suffix, unread := rd.buf ++ rd.src.rest, err := o.err,
            consumed := o.consumed, state := o.s.st, panicked := o.panicked }, rd.src)

/-- `io.MultiReader(bytes.NewReader(suffix), in)` as one source: the first `Read` of the next
call (fresh reader, `N` free bytes) returns the whole `suffix` when it fits, then the reads go
to `in` as before.  Exact when `suffix.length ≤ N`; the flag of `processB` records it. -/
def multiReader (suffix : Bytes) (src : Src) : Src :=
  { src with rest := suffix ++ src.rest,
             sched := (if suffix.isEmpty then [] else [suffix.length]) ++ src.sched }

/-- the loop of `process` through the reader model; the last component is `true` when every
`MultiReader` was modelled exactly -/
def processB (cfg : CliCfg) (N retry : Nat) : Nat → Src → Bytes → Bool → Bytes × Status × Bool
  | 0, _, out, ex => (out, .outOfFuel, ex)
  | fuel + 1, src, out, ex =>
    match scanCallB N retry src with
    | none => (out, .outOfFuel, ex)
    | some (r, src') =>
      if r.panicked then (out ++ r.fwd, .panicked, ex)
      else
        match renderOpt cfg r.snap with
        | .error _ => (out ++ r.fwd, .panicked, ex)
        | .ok rendered =>
          match r.err with
          | none =>
            processB cfg N retry fuel (multiReader (r.suffix.getD []) src') (out ++ r.fwd ++ rendered)
              (ex && decide ((r.suffix.getD []).length ≤ N))
          | some e => (out ++ r.fwd ++ rendered ++ r.suffix.getD [], statusOf e, ex)

end PP.Cli
