import PP.Model.Types
import PP.Model.Num
import PP.Extracted
/-
parseArgs / trimCurlyBrackets (context.go:840-895, 1190-1203).
-/
namespace PP
open Bytes

/-- trimCurlyBrackets: (number of leading '{', the middle, number of trailing '}') -/
def trimCurlyBrackets (s : Bytes) : Nat × Bytes × Nat :=
  let i := (s.takeWhile (· == 123)).length
  let rest := s.drop i
  let k := (rest.reverse.takeWhile (· == 125)).length
  (i, rest.take (rest.length - k), k)

inductive ArgErr | depth | int | close | open_
  deriving DecidableEq, Repr

/-- a partially built `Args`: the values so far (in order) and the `Elided` flag -/
abbrev Frame := List Arg × Bool

def isPtrValue (v : Nat) : Bool := v > Extracted.pointerFloor && v < Extracted.pointerCeiling

/-- add a value to the innermost open aggregate -/
def pushVal (a : Arg) : List Frame → List Frame
  | [] => []
  | (vs, e) :: t => (vs ++ [a], e) :: t

/-- process one ", "-separated item: `opened` times open an aggregate, then the
value, then `closed` times close one.  `st` is the stack of open aggregates,
innermost first; its length is Go's `depth + 1`. -/
def argItem (st : List Frame) (item : Bytes) : Except ArgErr (List Frame) :=
  let (opened, a, closed) := trimCurlyBrackets item
  let rec openN : Nat → List Frame → Except ArgErr (List Frame)
    | 0, st => .ok st
    | n + 1, st =>
      -- depth++ ; if depth >= maxDepth → error
      if st.length ≥ Extracted.maxDepth then .error .depth else openN n (([], false) :: st)
  let rec closeN : Nat → List Frame → Except ArgErr (List Frame)
    | 0, st => .ok st
    | n + 1, st =>
      match st with
      | (vs, e) :: (pvs, pe) :: t => closeN n ((pvs ++ [Arg.agg vs e], pe) :: t)
      | _ => .error .close
  match openN opened st with
  | .error e => .error e
  | .ok st =>
    let st? : Except ArgErr (List Frame) :=
      if a.length > 0 then
        if a == Extracted.threeDots then
          match st with
          | (vs, _) :: t => .ok ((vs, true) :: t)
          | [] => .ok st
        else if a == Extracted.underscore then .ok (pushVal (.scalar [] 0 false true false) st)
        else
          let inacc := hasSuffix a Extracted.inaccurateQuestionMark
          let a' := if inacc then a.take (a.length - Extracted.inaccurateQuestionMark.length) else a
          match parseUint0 a' with
          | none => .error .int
          | some v => .ok (pushVal (.scalar [] v (isPtrValue v) false inacc) st)
      else .ok st
    match st? with
    | .error e => .error e
    | .ok st => closeN closed st

/-- parseArgs -/
def parseArgs (line : Bytes) : Except ArgErr Args :=
  let items := splitOn line Extracted.commaSpace
  let rec go : List Bytes → List Frame → Except ArgErr (List Frame)
    | [], st => .ok st
    | it :: rest, st =>
      match argItem st it with
      | .error e => .error e
      | .ok st => go rest st
  match go items [([], false)] with
  | .error e => .error e
  | .ok [(vs, e)] => .ok { values := vs, elided := e }
  | .ok _ => .error .open_

end PP
