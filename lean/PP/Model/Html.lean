import PP.Model.Types
/-
HTML rendering (stack/html.go, stack/goroutines.tpl).

Three layers:
 1. the escapers of Go's html/template that the template's holes go through
    (html.go, url.go of html/template), and the pieces of net/url used by the
    URL builders (`URL.EscapedPath`, `QueryEscape`);
 2. the builders of stack/html.go (`escape`, `splitHost`, `splitTag`, `symbol`,
    `getSrcBranchURL`, `srcURL`, `pkgURL`, `funcClass`, `Location.String`,
    `Arg.String`);
 3. the dynamic part of the document (`<div id="content">…</div>`) as a list of
    pieces: literal template text and holes; a hole is rendered by the escaper
    pipeline html/template assigned to it (pinned in PP/Tie/Html.lean).

Everything is byte level: Go strings are byte strings.
-/
namespace PP.Html
open PP PP.Bytes

inductive HtmlErr
  /-- `ver[len(devel) : len(devel)+10]` with a short runtime version (html.go:142) -/
  | sliceBounds
  /-- `stripTags` on input containing `<`: outside the modelled fragment -/
  | stripTagsUnmodelled
  deriving DecidableEq, Repr, Inhabited

/-! ## html/template: html.go -/

/-- `htmlReplacementTable` -/
def htmlReplacementTable (c : UInt8) : Option Bytes :=
  if c == 0 then some [0xEF, 0xBF, 0xBD]
  else if c == 34 then some b!"&#34;"
  else if c == 38 then some b!"&amp;"
  else if c == 39 then some b!"&#39;"
  else if c == 43 then some b!"&#43;"
  else if c == 60 then some b!"&lt;"
  else if c == 62 then some b!"&gt;"
  else none

/-- `htmlNormReplacementTable`: the same without `&` -/
def htmlNormReplacementTable (c : UInt8) : Option Bytes :=
  if c == 38 then none else htmlReplacementTable c

/-- `htmlReplacer(s, table, badRunes = true)`.  The Go loop decodes runes, but
both tables only have entries below 0x3F, bytes below 0x80 always decode as
themselves with width 1, and with `badRunes` nothing else is rewritten: the
function acts byte by byte. -/
def htmlReplacer (tbl : UInt8 → Option Bytes) (s : Bytes) : Bytes :=
  s.flatMap fun c => match tbl c with | some r => r | none => [c]

/-- `htmlEscaper` on a plain `string` (or any non-`template.HTML` value after `fmt.Sprint`) -/
def htmlEscaper (s : Bytes) : Bytes := htmlReplacer htmlReplacementTable s

/-- `htmlEscaper` on a `template.HTML` value (only `.Footer`): unchanged -/
def htmlEscaperHTML (s : Bytes) : Bytes := s

/-- `attrEscaper` on a plain `string` -/
def attrEscaper (s : Bytes) : Bytes := htmlReplacer htmlReplacementTable s

/-- `stripTags`, modelled only where the input has no `<`: the text transition
function consumes everything as text and `allText` stays true, so the input is
returned unchanged. -/
def stripTags (s : Bytes) : Except HtmlErr Bytes :=
  if s.contains 60 then .error .stripTagsUnmodelled else .ok s

/-- `attrEscaper` on a `template.HTML` value -/
def attrEscaperHTML (s : Bytes) : Except HtmlErr Bytes :=
  (stripTags s).map (htmlReplacer htmlNormReplacementTable)

/-! ## html/template: url.go -/

def isAlnum (c : UInt8) : Bool := (97 ≤ c && c ≤ 122) || (65 ≤ c && c ≤ 90) || (48 ≤ c && c ≤ 57)

/-- `isHex` (css.go) -/
def isHexT (c : UInt8) : Bool := (48 ≤ c && c ≤ 57) || (97 ≤ c && c ≤ 102) || (65 ≤ c && c ≤ 70)

def lowerhex (n : UInt8) : UInt8 := if n < 10 then 48 + n else 87 + n
def upperhex (n : UInt8) : UInt8 := if n < 10 then 48 + n else 55 + n

/-- `fmt.Fprintf(b, "%%%02x", c)` -/
def pctLower (c : UInt8) : Bytes := [37, lowerhex (c >>> 4), lowerhex (c &&& 15)]

/-- bytes `processURLOnto` passes when `norm` -/
def urlNormReserved (c : UInt8) : Bool :=
  c == 33 || c == 35 || c == 36 || c == 38 || c == 42 || c == 43 || c == 44 || c == 47 || c == 58 ||
  c == 59 || c == 61 || c == 63 || c == 64 || c == 91 || c == 93

def urlUnreservedMark (c : UInt8) : Bool := c == 45 || c == 46 || c == 95 || c == 126

/-- does `processURLOnto(s, norm=true)` copy byte `c` (followed by `t`) unchanged? -/
def urlNormPass (c : UInt8) (t : Bytes) : Bool :=
  if urlNormReserved c then true
  else if urlUnreservedMark c then true
  else if c == 37 then
    match t with
    | a :: b :: _ => isHexT a && isHexT b
    | _ => false
  else isAlnum c

/-- `urlNormalizer` = `processURLOnto(s, norm=true)` -/
def urlNormalizer : Bytes → Bytes
  | [] => []
  | c :: t => (if urlNormPass c t then [c] else pctLower c) ++ urlNormalizer t

/-- `urlFilter` on a `template.URL` value: returned as is (the scheme check is
skipped; the value continues as a plain string). -/
def urlFilterURL (s : Bytes) : Bytes := s

/-! ## net/url -/

inductive Enc | path | queryComponent
  deriving DecidableEq, Repr

/-- `shouldEscape(c, mode)` for the two modes in use -/
def shouldEscape (c : UInt8) (mode : Enc) : Bool :=
  if isAlnum c then false
  else if urlUnreservedMark c then false
  else if c == 36 || c == 38 || c == 43 || c == 44 || c == 47 || c == 58 || c == 59 || c == 61 || c == 63 || c == 64 then
    match mode with
    | .path => c == 63
    | .queryComponent => true
  else true

/-- `escape(s, mode)`; the counting pass and the two fast paths of the Go
function do not change the result. -/
def urlEscape (s : Bytes) (mode : Enc) : Bytes :=
  s.flatMap fun c =>
    if c == 32 && mode == .queryComponent then [43]
    else if shouldEscape c mode then [37, upperhex (c >>> 4), upperhex (c &&& 15)]
    else [c]

/-- `url.QueryEscape` -/
def queryEscape (s : Bytes) : Bytes := urlEscape s .queryComponent

/-- `validEncoded(s, encodePath)` — only consulted by `EscapedPath` when
`RawPath != ""`, which never holds in `escape` below; transcribed for reference. -/
def validEncodedPath (s : Bytes) : Bool :=
  s.all fun c =>
    if c == 33 || c == 36 || c == 38 || c == 39 || c == 40 || c == 41 || c == 42 || c == 43 || c == 44 ||
       c == 59 || c == 61 || c == 58 || c == 64 || c == 91 || c == 93 || c == 37 then true
    else !shouldEscape c .path

/-- `(&url.URL{Path: s}).EscapedPath()`: `RawPath` is empty, so the
`validEncoded` shortcut is not taken. -/
def escapedPath (path : Bytes) : Bytes :=
  if path == b!"*" then b!"*" else urlEscape path .path

/-! ## stack/html.go -/

/-- `escape` -/
def escape (s : Bytes) : Bytes := escapedPath s

/-- first `sep` byte: (before, after) -/
def cut (s : Bytes) (sep : UInt8) : Option (Bytes × Bytes) :=
  match s with
  | [] => none
  | c :: t => if c == sep then some ([], t) else (cut t sep).map fun (a, b) => (c :: a, b)

/-- `splitHost` -/
def splitHost (s : Bytes) : Bytes × Bytes :=
  match cut s 47 with
  | none => (s, [])
  | some (a, b) => (a, b)

/-- `strings.SplitN(s, "/", 3)` when it yields three parts -/
def splitN3 (s : Bytes) : Option (Bytes × Bytes × Bytes) :=
  match cut s 47 with
  | none => none
  | some (a, r) =>
    match cut r 47 with
    | none => none
    | some (b, c) => some (a, b, c)

def takeWhileDigits (s : Bytes) : Bytes × Bytes := (s.takeWhile isDigit, s.dropWhile isDigit)

/-- `\d+` then the literal byte `c` -/
def digitsThen (s : Bytes) (c : UInt8) : Option Bytes :=
  match s.takeWhile isDigit, s.dropWhile isDigit with
  | [], _ => none
  | _ :: _, d :: rest => if d == c then some rest else none
  | _ :: _, [] => none

/-- `reVersion` = `v\d+\.\d+\.\d+\-\d+\-([a-f0-9]+)` anchored at the head of `s`:
the capture.  Greedy digit runs never need backtracking because the byte that
must follow is not a digit. -/
def reVersionAt (s : Bytes) : Option Bytes :=
  match s with
  | 118 :: s1 =>
    match digitsThen s1 46 with
    | none => none
    | some s2 =>
      match digitsThen s2 46 with
      | none => none
      | some s3 =>
        match digitsThen s3 45 with
        | none => none
        | some s4 =>
          match digitsThen s4 45 with
          | none => none
          | some s5 =>
            match s5.takeWhile isLowerHex with
            | [] => none
            | h => some h
  | _ => none

/-- `reVersion.FindStringSubmatch(tag)[1]`: leftmost match -/
def reVersionFind : Bytes → Option Bytes
  | [] => none
  | c :: t =>
    match reVersionAt (c :: t) with
    | some h => some h
    | none => reVersionFind t

/-- `splitTag` -/
def splitTag (s : Bytes) : Bytes × Bytes × Bytes :=
  match cut s 64 with
  | none => (s, b!"master", b!"master")
  | some (p, tag) =>
    let srcTag := match reVersionFind tag with | some h => h | none => tag
    (p, queryEscape srcTag, queryEscape tag)

/-- `reMethodSymbol` = `^\(\*?([^)]+)\)(\..+)$`: the two captures.  `[^)]+` stops
at the first `)`; `\*?` is preferred but given back when the receiver would be
empty; `.` does not match a newline byte. -/
def reMethodSymbol (s : Bytes) : Option (Bytes × Bytes) :=
  match s with
  | 40 :: r =>
    match cut r 41 with
    | none => none
    | some (recv, rest) =>
      match rest with
      | 46 :: y =>
        if y.isEmpty || y.contains 10 then none
        else
          match recv with
          | [] => none
          | 42 :: x => if x.isEmpty then some (recv, rest) else some (x, rest)
          | _ => some (recv, rest)
      | _ => none
  | _ => none

/-- `symbol` -/
def symbol (f : Func) : Bytes :=
  match reMethodSymbol f.name with
  | some (a, b) => queryEscape (a ++ b)
  | none => queryEscape f.name

/-- `Location.String` (location_string.go) for the five declared values -/
def Loc.string : Loc → Bytes
  | .unknown => b!"LocationUnknown" | .goMod => b!"GoMod" | .gopath => b!"GOPATH"
  | .goPkg => b!"GoPkg" | .stdlib => b!"Stdlib"

/-- `template.HTMLEscapeString` (text/template/funcs.go: `HTMLEscape`) -/
def htmlEscapeString (s : Bytes) : Bytes :=
  s.flatMap fun c =>
    if c == 0 then [0xEF, 0xBF, 0xBD]
    else if c == 34 then b!"&#34;"
    else if c == 39 then b!"&#39;"
    else if c == 38 then b!"&amp;"
    else if c == 60 then b!"&lt;"
    else if c == 62 then b!"&gt;"
    else [c]

/-- `funcClass` -/
def funcClass (c : Call) : Bytes :=
  if c.fn.isPkgMain then b!"FuncMain Exported"
  else
    let s := Loc.string c.location
    let s := if c.fn.isExported then s ++ b!" Exported" else s
    b!"Func" ++ htmlEscapeString s

/-- `rel[i+8:]` when `/vendor/` occurs at `i` -/
def afterVendor (s : Bytes) : Bytes :=
  match indexOf s b!"/vendor/" with
  | some i => s.drop (i + 8)
  | none => s

def develPrefix : Bytes := b!"devel +"

def pfxGithub : Bytes := b!"https://github.com/"
def pfxFile : Bytes := b!"file:///"
def pfxGolangPkg : Bytes := b!"https://golang.org/pkg/"
def pfxGodoc : Bytes := b!"https://godoc.org/"
def pfxPkgGoDev : Bytes := b!"https://pkg.go.dev/"

/-- `ver` of html.go:139-143: `runtime.Version()`, sliced when it starts with
`devel +`; the slice expression panics on a version shorter than 17 bytes. -/
def develVersion (ver : Bytes) : Except HtmlErr Bytes :=
  if hasPrefix ver develPrefix then
    if ver.length < develPrefix.length + 10 then .error .sliceBounds
    else .ok ((ver.drop develPrefix.length).take 10)
  else .ok ver

/-- html.go:146: the `Stdlib` link -/
def stdlibURL (v : Bytes) (c : Call) : Bytes :=
  pfxGithub ++ b!"golang/go/blob/" ++ queryEscape v ++ b!"/src/" ++ escape c.relSrcPath ++ b!"#L" ++ natToDec c.line

/-- html.go:192-200: the tail of `getSrcBranchURL` -/
def fileURL (c : Call) (tag : Bytes) : Bytes × Bytes :=
  if c.localSrcPath != [] then (pfxFile ++ escape c.localSrcPath, tag)
  else if c.remoteSrcPath != [] then (pfxFile ++ escape c.remoteSrcPath, tag)
  else ([], [])

/-- html.go:158-164, `case "github.com"`; `none` when it falls out of the switch -/
def githubURL (rest : Bytes) (line : Nat) : Option (Bytes × Bytes) :=
  match splitN3 rest with
  | some (p0, p1, p2) =>
    let st := splitTag p1
    some (pfxGithub ++ escape p0 ++ b!"/" ++ st.1 ++ b!"/blob/" ++ st.2.1 ++ b!"/" ++ escape p2 ++ b!"#L" ++ natToDec line, st.2.2)
  | none => none

/-- html.go:166-177, `case "golang.org"`; `none` when it falls out of the switch -/
def golangURL (rest : Bytes) (line : Nat) : Option (Bytes × Bytes) :=
  match splitN3 rest with
  | some (p0, p1, p2) =>
    if p0 == b!"x" then
      let st := splitTag p1
      some (pfxGithub ++ b!"golang/" ++ st.1 ++ b!"/blob/" ++ st.2.1 ++ b!"/" ++ escape p2 ++ b!"#L" ++ natToDec line, st.2.2)
    else none
  | none => none

/-- html.go:184-188, `default:` the text between the first `@` and the next `/` -/
def moduleTag (rel : Bytes) : Bytes :=
  match cut rel 64 with
  | some (_, after) =>
    match cut after 47 with
    | some (t, _) => t
    | none => []
  | none => []

/-- `getSrcBranchURL` for a location other than `Stdlib` -/
def nonStdlibURL (c : Call) : Bytes × Bytes :=
  if c.relSrcPath != [] then
    let rel := afterVendor c.relSrcPath
    let hr := splitHost rel
    if hr.1 == b!"github.com" then (githubURL hr.2 c.line).getD (fileURL c [])
    else if hr.1 == b!"golang.org" then (golangURL hr.2 c.line).getD (fileURL c [])
    else fileURL c (moduleTag rel)
  else fileURL c []

/-- `getSrcBranchURL`, with `runtime.Version()` as a parameter -/
def getSrcBranchURL (ver : Bytes) (c : Call) : Except HtmlErr (Bytes × Bytes) :=
  if c.location == .stdlib then
    match develVersion ver with
    | .error e => .error e
    | .ok v => .ok (stdlibURL v c, queryEscape v)
  else .ok (nonStdlibURL c)

/-- `srcURL` -/
def srcURL (ver : Bytes) (c : Call) : Except HtmlErr Bytes :=
  (getSrcBranchURL ver c).map (·.1)

/-- html.go:94-109: the documentation site -/
def pkgSite (ver : Bytes) (c : Call) : Except HtmlErr Bytes :=
  if c.location == .stdlib then .ok pfxGolangPkg
  else
    match getSrcBranchURL ver c with
    | .error e => .error e
    | .ok ub => if ub.2 == b!"master" || ub.2 == [] then .ok pfxGodoc else .ok pfxPkgGoDev

/-- `pkgURL` -/
def pkgURL (ver : Bytes) (c : Call) : Except HtmlErr Bytes :=
  let ip := escape (afterVendor c.importPath)
  if ip == [] then .ok []
  else
    match pkgSite ver c with
    | .error e => .error e
    | .ok u => if c.fn.isExported then .ok (u ++ ip ++ b!"#" ++ symbol c.fn) else .ok (u ++ ip)

/-! ## stack.go: `Arg.String`, `Args.String` -/

mutual
/-- `Arg.String` -/
def argString : Arg → Bytes
  | .scalar name v _ otl _ =>
    if name != [] then name
    else if otl then b!"_"
    else if v < 10 then [48 + v.toUInt8]
    else b!"0x" ++ natToHex v
  | .agg fs el => b!"{" ++ Bytes.join b!", " (argStrings fs ++ (if el then [b!"..."] else [])) ++ b!"}"
def argStrings : List Arg → List Bytes
  | [] => []
  | a :: as => argString a :: argStrings as
end

/-! ## The dynamic part of the document -/

/-- How a hole is rendered; each kind is one escaper pipeline of the template. -/
inductive HoleKind
  /-- `{{x}}` in element content: `_html_template_htmlescaper` -/
  | text
  /-- `href="{{srcURL .}}"` with a `template.URL`: urlfilter, urlnormalizer, attrescaper -/
  | href
  /-- `class="{{funcClass .}}"` with a `template.HTML`: attrescaper -/
  | cls
  deriving DecidableEq, Repr

def renderHole : HoleKind → Bytes → Except HtmlErr Bytes
  | .text, v => .ok (htmlEscaper v)
  | .href, v => .ok (attrEscaper (urlNormalizer (urlFilterURL v)))
  | .cls, v => attrEscaperHTML v

inductive Piece
  | lit (b : Bytes)
  | hole (k : HoleKind) (v : Bytes)
  deriving Repr

def Piece.render : Piece → Except HtmlErr Bytes
  | .lit b => .ok b
  | .hole k v => renderHole k v

def renderPieces : List Piece → Except HtmlErr Bytes
  | [] => .ok []
  | p :: ps =>
    match p.render with
    | .error e => .error e
    | .ok b =>
      match renderPieces ps with
      | .error e => .error e
      | .ok r => .ok (b ++ r)

def tx (v : Bytes) : Piece := .hole .text v
def txNat (n : Nat) : Piece := .hole .text (natToDec n)

/-- upper-case hexadecimal padded to 8 digits: `printf "0x%08X"` -/
def hex08X (n : Nat) : Bytes :=
  let d := (Nat.toDigits 16 n).map fun c => (c.toUpper).toNat.toUInt8
  b!"0x" ++ List.replicate (8 - d.length) 48 ++ d

/- The literal text nodes of the template after trimming, in template order
(pinned against the extracted template in PP/Tie/Html.lean). -/
namespace Lit
-- RenderArgs
def a0 : Bytes := b!"<span class=\"args\"><span>"
def a1 : Bytes := b!", "
def a2 : Bytes := b!", "
def a3 : Bytes := b!"…"
def a4 : Bytes := b!"</span></span>"
-- RenderCalls
def c0 : Bytes := b!"<table class=\"stack\">"
def c1 : Bytes := b!"<tr>\n<td>"
def c2 : Bytes := b!"</td>\n<td>\n<a href=\""
def c3 : Bytes := b!"\">"
def c4 : Bytes := b!"</a>\n</td>\n<td class=\"hastooltip\">\n<span class=\"tooltip\">"
def c5 : Bytes := b!"RemoteSrcPath: "
def c6 : Bytes := b!"\n<br>LocalSrcPath: "
def c7 : Bytes := b!"SrcPath: "
def c8 : Bytes := b!"<br>Func: "
def c9 : Bytes := b!"\n<br>Location: "
def c10 : Bytes := b!"\n</span>\n<a href=\""
def c11 : Bytes := b!"\">"
def c12 : Bytes := b!":"
def c13 : Bytes := b!"</a>\n</td>\n<td>\n<span class=\""
def c14 : Bytes := b!"\"><a href=\""
def c15 : Bytes := b!"\">"
def c16 : Bytes := b!"</a></span>("
def c17 : Bytes := b!")\n</td>\n</tr>"
def c18 : Bytes := b!"<tr><td>(…)</td><tr>"
def c19 : Bytes := b!"</table>"
-- RenderCreatedBy
def r0 : Bytes := b!"<span class=\"call hastooltip\"><span class=\"tooltip\">"
def r1 : Bytes := b!"RemoteSrcPath: "
def r2 : Bytes := b!"\n<br>LocalSrcPath: "
def r3 : Bytes := b!"SrcPath: "
def r4 : Bytes := b!"<br>Func: "
def r5 : Bytes := b!"\n<br>Location: "
def r6 : Bytes := b!"\n</span><a href=\""
def r7 : Bytes := b!"\">"
def r8 : Bytes := b!":"
def r9 : Bytes := b!"</a> <span class=\""
def r10 : Bytes := b!"\">\n<a href=\""
def r11 : Bytes := b!"\">"
def r12 : Bytes := b!"."
def r13 : Bytes := b!"</a></span>()\n</span>"
-- t, `range .Aggregated.Buckets` (text nodes 5..19)
def h1Bucket : Bytes := b!"\n<h1>Signature #"
def b6 : Bytes := b!": "
def b7 : Bytes := b!" routine"
def b8 : Bytes := b!"s"
def stateOpen : Bytes := b!": <span class=\"state\">"
def stateClose : Bytes := b!"</span>"
def sleepOpen : Bytes := b!" <span class=\"sleep\">["
def sleepTilde : Bytes := b!"~"
def sleepClose : Bytes := b!" mins]</span>"
def h1Close : Bytes := b!"</h1>\n"
def locked : Bytes := b!" <span class=\"locked\">[locked]</span>"
def createdOpen : Bytes := b!" <span class=\"created\">Created by: "
def createdClose : Bytes := b!"</span>"
-- t, `range .Snapshot.Goroutines` (text nodes 20..36)
def h1Goroutine : Bytes := b!"<h1>Routine "
def raceOpen : Bytes := b!" <span class=\"race\">Race "
def raceWrite : Bytes := b!"write"
def raceRead : Bytes := b!"read"
def raceAt : Bytes := b!" @ "
def raceClose : Bytes := b!"</span><br>"
end Lit

/-- the `range` of RenderArgs: element, then `, ` unless last and not elided -/
def argItems (elided : Bool) : List Bytes → List Piece
  | [] => []
  | [e] => tx e :: (if elided then [.lit Lit.a1] else [])
  | e :: es => tx e :: .lit Lit.a1 :: argItems elided es

/-- template `RenderArgs` -/
def renderArgs (a : Args) : List Piece :=
  [.lit Lit.a0] ++
  (if a.processed != [] then argItems a.elided a.processed else argItems a.elided (argStrings a.values)) ++
  (if a.elided then [.lit Lit.a3] else []) ++ [.lit Lit.a4]

/-- the tooltip body shared by RenderCreatedBy and RenderCalls (same text in both) -/
def srcPathPieces (c : Call) : List Piece :=
  if c.localSrcPath != [] && c.remoteSrcPath != c.localSrcPath then
    [.lit Lit.c5, tx c.remoteSrcPath, .lit Lit.c6, tx c.localSrcPath]
  else [.lit Lit.c7, tx c.remoteSrcPath]

/-- one iteration of the `range` of RenderCalls -/
def callRow (ver : Bytes) (i : Nat) (c : Call) : Except HtmlErr (List Piece) :=
  match pkgURL ver c, srcURL ver c with
  | .ok pu, .ok su =>
    .ok ([.lit Lit.c1, txNat i, .lit Lit.c2, .hole .href pu, .lit Lit.c3, tx c.fn.dirName, .lit Lit.c4] ++
      srcPathPieces c ++
     [.lit Lit.c8, tx c.fn.complete, .lit Lit.c9, tx (Loc.string c.location),
      .lit Lit.c10, .hole .href su, .lit Lit.c11, tx c.srcName, .lit Lit.c12, txNat c.line,
      .lit Lit.c13, .hole .cls (funcClass c), .lit Lit.c14, .hole .href pu,
      .lit Lit.c15, tx c.fn.name, .lit Lit.c16] ++ renderArgs c.args ++ [.lit Lit.c17])
  | .error e, _ => .error e
  | _, .error e => .error e

def callRows (ver : Bytes) : Nat → List Call → Except HtmlErr (List Piece)
  | _, [] => .ok []
  | i, c :: cs =>
    match callRow ver i c with
    | .error e => .error e
    | .ok r =>
      match callRows ver (i + 1) cs with
      | .error e => .error e
      | .ok rs => .ok (r ++ rs)

/-- template `RenderCalls` -/
def renderCalls (ver : Bytes) (s : Stack) : Except HtmlErr (List Piece) :=
  match callRows ver 0 s.calls with
  | .error e => .error e
  | .ok rows => .ok ([.lit Lit.c0] ++ rows ++ (if s.elided then [.lit Lit.c18] else []) ++ [.lit Lit.c19])

/-- template `RenderCreatedBy` -/
def renderCreatedBy (ver : Bytes) (c : Call) : Except HtmlErr (List Piece) :=
  match pkgURL ver c, srcURL ver c with
  | .ok pu, .ok su =>
    .ok ([.lit Lit.r0] ++ srcPathPieces c ++
     [.lit Lit.r4, tx c.fn.complete, .lit Lit.r5, tx (Loc.string c.location),
      .lit Lit.r6, .hole .href su, .lit Lit.r7, tx c.srcName, .lit Lit.r8, txNat c.line,
      .lit Lit.r9, .hole .cls (funcClass c), .lit Lit.r10, .hole .href pu, .lit Lit.r11,
      tx c.fn.dirName, .lit Lit.r12, tx c.fn.name, .lit Lit.r13])
  | .error e, _ => .error e
  | _, .error e => .error e

def sleepPieces (s : Signature) : List Piece :=
  if s.sleepMax != 0 then
    if s.sleepMin != s.sleepMax then
      [.lit Lit.sleepOpen, txNat s.sleepMin, .lit Lit.sleepTilde, txNat s.sleepMax, .lit Lit.sleepClose]
    else [.lit Lit.sleepOpen, txNat s.sleepMax, .lit Lit.sleepClose]
  else []

def lockedPieces (s : Signature) : List Piece :=
  if s.locked then [.lit Lit.locked] else []

def createdPieces (ver : Bytes) (s : Signature) : Except HtmlErr (List Piece) :=
  match s.createdBy.calls with
  | [] => .ok []
  | c :: _ =>
    match renderCreatedBy ver c with
    | .error e => .error e
    | .ok ps => .ok ([.lit Lit.createdOpen] ++ ps ++ [.lit Lit.createdClose])

/-- one iteration of `range .Aggregated.Buckets` -/
def bucketBlock (ver : Bytes) (i : Nat) (b : Bucket) : Except HtmlErr (List Piece) :=
  match createdPieces ver b.sig, renderCalls ver b.sig.stack with
  | .ok cr, .ok calls =>
    let l := b.ids.length
    .ok ([.lit Lit.h1Bucket, txNat i, .lit Lit.b6, txNat l, .lit Lit.b7] ++ (if l != 1 then [.lit Lit.b8] else []) ++
      [.lit Lit.stateOpen, tx b.sig.state, .lit Lit.stateClose] ++ sleepPieces b.sig ++ [.lit Lit.h1Close] ++
      lockedPieces b.sig ++ cr ++ calls)
  | .error e, _ => .error e
  | _, .error e => .error e

def racePieces (g : Goroutine) : List Piece :=
  if g.raceAddr != 0 then
    [.lit Lit.raceOpen, .lit (if g.raceWrite then Lit.raceWrite else Lit.raceRead), .lit Lit.raceAt,
     tx (hex08X g.raceAddr), .lit Lit.raceClose]
  else []

/-- one iteration of `range .Snapshot.Goroutines` -/
def goroutineBlock (ver : Bytes) (g : Goroutine) : Except HtmlErr (List Piece) :=
  match createdPieces ver g.sig, renderCalls ver g.sig.stack with
  | .ok cr, .ok calls =>
    .ok ([.lit Lit.h1Goroutine, txNat g.id, .lit Lit.stateOpen, tx g.sig.state, .lit Lit.stateClose] ++
      sleepPieces g.sig ++ [.lit Lit.h1Close] ++ lockedPieces g.sig ++ racePieces g ++ cr ++ calls)
  | .error e, _ => .error e
  | _, .error e => .error e

def bucketBlocks (ver : Bytes) : Nat → List Bucket → Except HtmlErr (List Piece)
  | _, [] => .ok []
  | i, b :: bs =>
    match bucketBlock ver i b with
    | .error e => .error e
    | .ok r =>
      match bucketBlocks ver (i + 1) bs with
      | .error e => .error e
      | .ok rs => .ok (r ++ rs)

def goroutineBlocks (ver : Bytes) : List Goroutine → Except HtmlErr (List Piece)
  | [] => .ok []
  | g :: gs =>
    match goroutineBlock ver g with
    | .error e => .error e
    | .ok r =>
      match goroutineBlocks ver gs with
      | .error e => .error e
      | .ok rs => .ok (r ++ rs)

/-- the content of `<div id="content">` of `Aggregated.ToHTML` -/
def contentAggregated (ver : Bytes) (bs : List Bucket) : Except HtmlErr (List Piece) := bucketBlocks ver 0 bs

/-- the content of `<div id="content">` of `Snapshot.ToHTML` -/
def contentSnapshot (ver : Bytes) (gs : List Goroutine) : Except HtmlErr (List Piece) := goroutineBlocks ver gs

end PP.Html
