import PP.Model.Types
import PP.Model.Unicode
/-
Console rendering: internal/ui.go (Palette, pathFormat.formatCall,
createdByString, calcBucketsLengths, calcGoroutinesLengths, funcColor,
routineColor, BucketHeader, GoroutineHeader, callLine, StackLines),
internal/main.go (writeBucketsToConsole, writeGoroutinesToConsole) and
stack/stack.go (Arg.String, Args.String, Signature.SleepString).

Trusted by contract: package fmt (only the verbs modelled below), package
regexp (the filter and match expressions are abstract predicates on the
header text), io.WriteString on the output (never fails, appends).
-/
namespace PP.Console
open PP PP.Bytes

/-- internal.Palette: one escape string per field, in declaration order. -/
structure Palette where
  eolReset : Bytes := []
  routineFirst : Bytes := []
  routine : Bytes := []
  createdBy : Bytes := []
  race : Bytes := []
  pkg : Bytes := []
  srcFile : Bytes := []
  funcMain : Bytes := []
  funcLocationUnknown : Bytes := []
  funcLocationUnknownExported : Bytes := []
  funcGoMod : Bytes := []
  funcGoModExported : Bytes := []
  funcGOPATH : Bytes := []
  funcGOPATHExported : Bytes := []
  funcGoPkg : Bytes := []
  funcGoPkgExported : Bytes := []
  funcStdLib : Bytes := []
  funcStdLibExported : Bytes := []
  arguments : Bytes := []
  deriving Repr, Inhabited

/-- `Palette{}`: colouring disabled. -/
def emptyPalette : Palette := {}

/-- internal.pathFormat, in declaration order (pinned in PP/Tie/Console.lean). -/
inductive PathFormat | fullPath | relPath | basePath
  deriving DecidableEq, Repr, Inhabited

def PathFormat.toNat : PathFormat → Nat
  | .fullPath => 0 | .relPath => 1 | .basePath => 2

/-! ### package fmt, the verbs used -/

def space : UInt8 := 32

/-- fmt: a `*` width above 10^6 is rejected (`tooLarge`), "%!(BADWIDTH)" is
written and the operand is formatted without width. -/
def fmtMaxWidth : Nat := 1000000
def badWidthString : Bytes := b!"%!(BADWIDTH)"

/-- right padding of `%-*s` when the width is accepted: `fmt.padString` pads
with `wid - utf8.RuneCountInString(s)` spaces (none when that is ≤ 0). -/
def padRight (w : Nat) (s : Bytes) : Bytes := s ++ List.replicate (w - runeCount s) space

/-- `%-*s` with a non-negative `int` width argument. -/
def fmtPadRight (w : Nat) (s : Bytes) : Bytes :=
  if w > fmtMaxWidth then badWidthString ++ s else padRight w s

/-- `%d` of a non-negative int -/
def fmtDec (n : Nat) : Bytes := natToDec n

/-- `%x` -/
def fmtHex (n : Nat) : Bytes := natToHex n

/-- `%08x`: zero padded on the left to 8 digits -/
def fmtHex08 (n : Nat) : Bytes :=
  let h := natToHex n
  List.replicate (8 - h.length) 48 ++ h

/-! ### stack.go -/

mutual
/-- stack.Arg.String (stack.go:154-168) -/
def argString : Arg → Bytes
  | .scalar name v _ otl _ =>
    if name ≠ [] then name
    else if otl then b!"_"
    else if v < 10 then [(48 + v).toUInt8]
    else b!"0x" ++ fmtHex v
  | .agg fs el =>
    b!"{" ++ join b!", " (argStrings fs ++ (if el then [b!"..."] else [])) ++ b!"}"
/-- the loop of Args.String over `Values` -/
def argStrings : List Arg → List Bytes
  | [] => []
  | a :: as => argString a :: argStrings as
end

/-- stack.Args.String (stack.go:238-252) -/
def argsString (a : Args) : Bytes :=
  let v := if a.processed.length ≠ 0 then a.processed else argStrings a.values
  let v := if a.elided then v ++ [b!"..."] else v
  join b!", " v

/-- stack.Signature.SleepString (stack.go:769-777) -/
def sleepString (s : Signature) : Bytes :=
  if s.sleepMax = 0 then []
  else if s.sleepMin ≠ s.sleepMax then fmtDec s.sleepMin ++ b!"~" ++ fmtDec s.sleepMax ++ b!" minutes"
  else fmtDec s.sleepMax ++ b!" minutes"

/-! ### ui.go -/

/-- `fmt.Sprintf("%s:%d", path, line)` -/
def pathLine (path : Bytes) (line : Nat) : Bytes := path ++ b!":" ++ fmtDec line

/-- pathFormat.formatCall (ui.go:52-67) -/
def formatCall (pf : PathFormat) (c : Call) : Bytes :=
  let full := if c.localSrcPath ≠ [] then pathLine c.localSrcPath c.line else pathLine c.remoteSrcPath c.line
  match pf with
  | .relPath => if c.relSrcPath ≠ [] then pathLine c.relSrcPath c.line else full
  | .fullPath => full
  | .basePath => pathLine c.srcName c.line

/-- pathFormat.createdByString (ui.go:69-74) -/
def createdByString (pf : PathFormat) (s : Signature) : Bytes :=
  match s.createdBy.calls with
  | [] => []
  | c :: _ => c.fn.dirName ++ b!"." ++ c.fn.name ++ b!" @ " ++ formatCall pf c

/-- the inner loop of calcBucketsLengths / calcGoroutinesLengths over one stack -/
def calcCallsLengths (pf : PathFormat) (acc : Nat × Nat) (calls : List Call) : Nat × Nat :=
  calls.foldl (fun a c =>
    (if (formatCall pf c).length > a.1 then (formatCall pf c).length else a.1,
     if c.fn.dirName.length > a.2 then c.fn.dirName.length else a.2)) acc

/-- the loop shared by calcBucketsLengths and calcGoroutinesLengths:
`(srcLen, pkgLen)`, both `len()` in bytes. -/
def calcLengths (pf : PathFormat) (sigs : List Signature) : Nat × Nat :=
  sigs.foldl (fun a s => calcCallsLengths pf a s.stack.calls) (0, 0)

/-- calcBucketsLengths (ui.go:78-92) -/
def calcBucketsLengths (bs : List Bucket) (pf : PathFormat) : Nat × Nat :=
  calcLengths pf (bs.map (·.sig))

/-- calcGoroutinesLengths (ui.go:96-110) -/
def calcGoroutinesLengths (gs : List Goroutine) (pf : PathFormat) : Nat × Nat :=
  calcLengths pf (gs.map (·.sig))

/-- Palette.funcColor (ui.go:118-151) -/
def funcColor (p : Palette) (l : Loc) (main exported : Bool) : Bytes :=
  if main then p.funcMain
  else match l with
    | .unknown => if exported then p.funcLocationUnknownExported else p.funcLocationUnknown
    | .goMod => if exported then p.funcGoModExported else p.funcGoMod
    | .gopath => if exported then p.funcGOPATHExported else p.funcGOPATH
    | .goPkg => if exported then p.funcGoPkgExported else p.funcGoPkg
    | .stdlib => if exported then p.funcStdLibExported else p.funcStdLib

/-- Palette.functionColor (ui.go:114-116) -/
def functionColor (p : Palette) (c : Call) : Bytes :=
  funcColor p c.location c.fn.isPkgMain c.fn.isExported

/-- Palette.routineColor (ui.go:154-159) -/
def routineColor (p : Palette) (first multiple : Bool) : Bytes :=
  if first && multiple then p.routineFirst else p.routine

/-- the part of `extra` shared by BucketHeader and GoroutineHeader -/
def headerExtra (p : Palette) (s : Signature) (pf : PathFormat) : Bytes :=
  let extra : Bytes := []
  let extra := if sleepString s ≠ [] then extra ++ b!" [" ++ sleepString s ++ b!"]" else extra
  let extra := if s.locked then extra ++ b!" [locked]" else extra
  let extra := if createdByString pf s ≠ [] then
    extra ++ p.createdBy ++ b!" [Created by " ++ createdByString pf s ++ b!"]" else extra
  extra

/-- Palette.BucketHeader (ui.go:162-178) -/
def bucketHeader (p : Palette) (b : Bucket) (pf : PathFormat) (multipleBuckets : Bool) : Bytes :=
  routineColor p b.first multipleBuckets ++ fmtDec b.ids.length ++ b!": " ++ b.sig.state
    ++ headerExtra p b.sig pf ++ p.eolReset ++ b!"\n"

/-- Palette.GoroutineHeader (ui.go:181-204) -/
def goroutineHeader (p : Palette) (g : Goroutine) (pf : PathFormat) (multipleGoroutines : Bool) : Bytes :=
  let extra := headerExtra p g.sig pf
  let extra := if g.raceAddr ≠ 0 then
    extra ++ p.eolReset ++ p.race ++ b!" Race " ++ (if g.raceWrite then b!"write" else b!"read")
      ++ b!" @ 0x" ++ fmtHex08 g.raceAddr
    else extra
  routineColor p g.first multipleGoroutines ++ fmtDec g.id ++ b!": " ++ g.sig.state
    ++ extra ++ p.eolReset ++ b!"\n"

/-- Palette.callLine (ui.go:207-215) -/
def callLine (p : Palette) (line : Call) (srcLen pkgLen : Nat) (pf : PathFormat) : Bytes :=
  b!"    " ++ p.pkg ++ fmtPadRight pkgLen line.fn.dirName ++ b!" "
    ++ p.srcFile ++ fmtPadRight srcLen (formatCall pf line) ++ b!" "
    ++ functionColor p line ++ line.fn.name
    ++ p.arguments ++ b!"(" ++ argsString line.args ++ b!")"
    ++ p.eolReset

/-- the marker line of elided frames -/
def elidedLine : Bytes := b!"    (...)"

/-- the slice `out` of StackLines before the join -/
def stackLineList (p : Palette) (sig : Signature) (srcLen pkgLen : Nat) (pf : PathFormat) : List Bytes :=
  let out := sig.stack.calls.map (fun c => callLine p c srcLen pkgLen pf)
  if sig.stack.elided then out ++ [elidedLine] else out

/-- Palette.StackLines (ui.go:218-227) -/
def stackLines (p : Palette) (sig : Signature) (srcLen pkgLen : Nat) (pf : PathFormat) : Bytes :=
  join b!"\n" (stackLineList p sig srcLen pkgLen pf) ++ b!"\n"

/-! ### main.go -/

def banner : Bytes :=
  b!"\nTo see all goroutines, visit https://github.com/maruel/panicparse#gotraceback\n\n"

/-- `filter != nil && filter.MatchString(header)` -/
def filterHit (filter : Option (Bytes → Bool)) (header : Bytes) : Bool :=
  match filter with
  | none => false
  | some f => f header

/-- `match != nil && !match.MatchString(header)` -/
def matchMiss (mtch : Option (Bytes → Bool)) (header : Bytes) : Bool :=
  match mtch with
  | none => false
  | some m => !m header

/-- the `for _, e := range …` loop of writeBucketsToConsole / writeGoroutinesToConsole,
generic in the element: `hdr e` is the header, `body e` the stack lines. -/
def writeLoop {α : Type} (hdr body : α → Bytes) (filter mtch : Option (Bytes → Bool)) : List α → Bytes
  | [] => []
  | e :: rest =>
    let header := hdr e
    if filterHit filter header then writeLoop hdr body filter mtch rest
    else if matchMiss mtch header then writeLoop hdr body filter mtch rest
    else header ++ body e ++ writeLoop hdr body filter mtch rest

/-- writeBucketsToConsole (main.go:66-84): the bytes written to `out`. -/
def writeBuckets (p : Palette) (bs : List Bucket) (pf : PathFormat) (needsEnv : Bool)
    (filter mtch : Option (Bytes → Bool)) : Bytes :=
  let lens := calcBucketsLengths bs pf
  let multi := decide (bs.length > 1)
  (if needsEnv then banner else []) ++
    writeLoop (fun e => bucketHeader p e pf multi) (fun e => stackLines p e.sig lens.1 lens.2 pf) filter mtch bs

/-- writeGoroutinesToConsole (main.go:86-104): the bytes written to `out`. -/
def writeGoroutines (p : Palette) (gs : List Goroutine) (pf : PathFormat) (needsEnv : Bool)
    (filter mtch : Option (Bytes → Bool)) : Bytes :=
  let lens := calcGoroutinesLengths gs pf
  let multi := decide (gs.length > 1)
  (if needsEnv then banner else []) ++
    writeLoop (fun e => goroutineHeader p e pf multi) (fun e => stackLines p e.sig lens.1 lens.2 pf) filter mtch gs

/-- substring containment: what `regexp.MustCompile(regexp.QuoteMeta(sub)).MatchString`
decides for a literal (used by the driver only). -/
def containsSub (sub s : Bytes) : Bool := (indexOf s sub).isSome

end PP.Console
