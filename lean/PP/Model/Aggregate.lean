import PP.Model.Sig
/-
Snapshot.Aggregate (bucket.go:42-107, with the deterministic tie-break).

Go keeps the buckets in a `map[*Signature]*count` and ranges over it, so the
order in which keys are tried, and the order in which buckets are collected
before sorting, is arbitrary.  The model keeps a list and takes an *order
oracle* `π`: before every range over the map the list is rearranged by `π k`
(k = how many ranges happened so far).  Determinism (C06) is the theorem that
the result does not depend on `π` as long as each `π k` permutes its input.
-/
namespace PP

/-- one map entry: key signature + `count{ids, first, order}` -/
structure Bkt where
  key : Signature
  ids : List Nat
  first : Bool
  order : Nat
  deriving Repr, Inhabited

/-- the body of the outer loop for one goroutine, trying keys in list order -/
def insertG (l : Lvl) (bs : List Bkt) (i : Nat) (g : Goroutine) : List Bkt :=
  match bs with
  | [] => [{ key := g.sig, ids := [g.id], first := g.first, order := i }]
  | b :: rest =>
    if Signature.similar l b.key g.sig then
      { key := if Signature.equal b.key g.sig then b.key else Signature.merge b.key g.sig,
        ids := b.ids ++ [g.id], first := b.first || g.first, order := b.order } :: rest
    else b :: insertG l rest i g

abbrev Oracle := Nat → List Bkt → List Bkt

/-- the bucketing loop; `i` is the index of the next goroutine -/
def bucketLoop (π : Oracle) (l : Lvl) : Nat → List Bkt → List Goroutine → List Bkt
  | _, bs, [] => bs
  | i, bs, g :: gs => bucketLoop π l (i + 1) (insertG l (π i bs) i g) gs

/-- insertion sort of the id list (`sort.Ints`) -/
def insertSorted (x : Nat) : List Nat → List Nat
  | [] => [x]
  | y :: ys => if x ≤ y then x :: y :: ys else y :: insertSorted x ys
def sortNat (l : List Nat) : List Nat := l.foldr insertSorted []

/-- the comparison closure given to sort.SliceStable (bucket.go:80-100) -/
def bucketLess (l r : Bkt) : Bool :=
  if l.first || r.first then l.first
  else if Signature.less l.key r.key then true
  else if Signature.less r.key l.key then false
  else if r.ids.length != l.ids.length then r.ids.length > l.ids.length
  else l.order < r.order

/-- a stable sort with `less`: a goes before b unless `less b a` -/
def sortBuckets (bs : List Bkt) : List Bkt := bs.mergeSort (fun a b => !bucketLess b a)

def Bkt.toBucket (b : Bkt) : Bucket := { sig := b.key, ids := sortNat b.ids, first := b.first }

/-- Snapshot.Aggregate -/
def aggregateWith (π : Oracle) (l : Lvl) (gs : List Goroutine) : List Bucket :=
  let bs := bucketLoop π l 0 [] gs
  (sortBuckets (π gs.length bs)).map Bkt.toBucket

def idOracle : Oracle := fun _ bs => bs
def revOracle : Oracle := fun _ bs => bs.reverse
/-- rotate by k: a cheap family of different iteration orders for the driver -/
def rotOracle : Oracle := fun k bs => bs.rotateLeft (k % (bs.length + 1))

def aggregate (l : Lvl) (gs : List Goroutine) : List Bucket := aggregateWith idOracle l gs

/-- Aggregate never panics when every merge it performs has matching shapes and
every `less` it evaluates stays in range. -/
def aggregateSafe (l : Lvl) (gs : List Goroutine) : Bool :=
  let bs := bucketLoop idOracle l 0 [] gs
  -- merges: replay the loop and check shapes at each merge
  let rec go (bs : List Bkt) (i : Nat) : List Goroutine → Bool
    | [] => true
    | g :: gs =>
      (bs.all fun b => !(Signature.similar l b.key g.sig) || Signature.shapeOK b.key g.sig) &&
        go (insertG l bs i g) (i + 1) gs
  go [] 0 gs && bs.all (fun a => bs.all (fun b => Signature.lessSafe a.key b.key))

end PP
