import PP.Model.Types
import PP.Model.Unicode
/-
url.PathUnescape, Func.Init (stack.go:52-106), Call.init (stack.go:383-399).
-/
namespace PP
open Bytes

/-- url.PathUnescape: `%XX` escapes only (`+` stays `+`); `none` = EscapeError -/
def pathUnescape : Bytes → Option Bytes
  | [] => some []
  | 37 :: a :: b :: rest =>
    if isHex a && isHex b then (pathUnescape rest).map (fun t => (hexVal a * 16 + hexVal b).toUInt8 :: t)
    else none
  | [37] => none
  | [37, _] => none
  | c :: rest => (pathUnescape rest).map (fun t => c :: t)

inductive FErr
  | noDot       -- "expected to have at least one dot"
  | escape      -- bad percent escape
  | slice       -- a slice expression out of range: a Go runtime panic
  deriving DecidableEq, Repr

def inGoroutineSuffix : Bytes := b!" in goroutine"

/-- the part of Func.Init after `Complete` and `endPkg` are known -/
def funcFinish (complete : Bytes) (endPkg : Option Nat) : Except FErr Func :=
  -- f.ImportPath = f.Complete[:endPkg] ; f.Name = f.Complete[endPkg+1:]
  let bounds : Bool := match endPkg with
    | some e => e + 1 ≤ complete.length
    | none => true
  if !bounds then .error .slice else
  let importPath := match endPkg with | some e => complete.take e | none => []
  let name0 := match endPkg with | some e => complete.drop (e + 1) | none => complete
  let name := match lastIndexByte name0 32 with
    | some idx =>
      let cut := name0.take idx
      if hasSuffix cut inGoroutineSuffix then cut.take (cut.length - inGoroutineSuffix.length) else name0
    | none => name0
  let dirName := match lastIndexByte importPath 47 with
    | some i => importPath.drop (i + 1)
    | none => importPath
  let isMain := importPath == b!"main"
  let exported :=
    if isMain then name == b!"main"
    else
      let parts := splitOn name [46]
      let r := firstRune (parts.getLast?.getD [])
      toUpperIsSelf r
  .ok { complete := complete, importPath := importPath, dirName := dirName, name := name,
        isExported := exported, isPkgMain := isMain }

/-- Func.Init.  `endPkg` is `none` for Go's `-1`. -/
def funcInit (raw : Bytes) : Except FErr Func :=
  let endPkg? : Except FErr (Option Nat) :=
    match lastIndexByte raw 47 with
    | some ls =>
      match indexByte (raw.drop (ls + 1)) 46 with
      | none => .error .noDot
      | some r => .ok (some (ls + r + 1))
    | none => .ok (indexByte raw 46)
  match endPkg? with
  | .error e => .error e
  | .ok endPkg =>
    match pathUnescape raw with
    | none => .error .escape
    | some complete =>
      let endPkg' := match endPkg with
        | some e =>
          if e > 0 then
            match pathUnescape (raw.take e) with
            | some pkg => some pkg.length
            | none => some e
          else some e
        | none => none
      funcFinish complete endPkg'

def testMainSrc : Bytes := b!"_test/_testmain.go"

/-- Call.init -/
def Call.init (c : Call) (srcPath : Bytes) (line : Nat) : Call :=
  let c := { c with line := line }
  let c :=
    if srcPath != [] then
      let c := { c with remoteSrcPath := srcPath }
      let c := match lastIndexByte srcPath 47 with
        | some i =>
          let c := { c with srcName := srcPath.drop (i + 1) }
          match lastIndexByte (srcPath.take i) 47 with
          | some j => { c with dirSrc := srcPath.drop (j + 1) }
          | none => c
        | none => c
      if c.dirSrc == testMainSrc then { c with location := .stdlib } else c
    else c
  { c with importPath := c.fn.importPath }

end PP
