import PP.Model.AugmentGlue
/-
`(*parsedFile).getFuncAST` (stack/source.go:114-157): which function
declaration a traceback line is attributed to.

    func (p *parsedFile) getFuncAST(f string, l int) (d *ast.FuncDecl, err error) {
        if len(p.lineToByteOffset) <= l {
            return nil, fmt.Errorf("line %d is over line count of %d", …)
        }
        var lastFunc *ast.FuncDecl
        eol := math.MaxInt
        if l+1 < len(p.lineToByteOffset) { eol = p.lineToByteOffset[l+1] }
        ast.Inspect(p.parsed, func(n ast.Node) bool {
            if d != nil { return false }
            if n == nil { return true }
            if f, ok := n.(*ast.FuncDecl); ok && int(n.Pos()) >= p.lineToByteOffset[l] && int(n.Pos()) <= eol {
                lastFunc = f
                return true
            }
            if int(n.Pos()) >= p.lineToByteOffset[l] {
                d = lastFunc
                return false
            } else if f, ok := n.(*ast.FuncDecl); ok {
                lastFunc = f
            }
            return true
        })
        return
    }

What the code reads of the tree is, for every node, `Pos()` and whether it is
an `*ast.FuncDecl`: `Node`.  `decl` identifies the declaration (the harness
uses the index in the list of the file's `FuncDecl`s in source order); it is
meaningful only when `isFuncDecl`.  `children` are the non-nil children in the
order `ast.Walk` visits them (go/ast/walk.go) — e.g. for a `FuncDecl`: Doc
(absent: the file is parsed with mode 0, no comments), Recv, Name, Type, Body.

What is compared with what (established on the Go source and by experiment,
harness stream (f) of C19 compares every line of generated files):

* `n.Pos()` is a `token.Pos`: the file is the only file of a fresh
  `token.FileSet`, whose base is 1, so `int(n.Pos())` = byte offset of the
  first character of the node + 1 (1-based).  `Node.pos` is that number.
* `p.lineToByteOffset[l]` is the 0-based byte offset of the first byte of line
  `l` (`lineToByteOffsets` = `AugGlue.lineToByteOffsets` starts `[0, 0]`: index
  0 is a dummy, line 1 starts at 0).
* hence the test `pos >= offsets[l]` is `byteOffset + 1 >= lineStart`: true for
  every node that starts on line `l` or later, and ALSO for a node that would
  start on the last byte of line `l-1`; that byte is the `'\n'`, where no node
  of a parsed file starts (the harness counts: never seen).  So the walk stops
  at the first node, in `ast.Inspect` order, that starts on line `l` or later.
* `eol` is the 0-based offset of the first byte of line `l+1` (`math.MaxInt`
  when `l` is the last line: `none` in the model, positions are unbounded
  naturals); a node starts on line `l` iff `offsets[l] <= byteOffset < eol`, i.e.
  `offsets[l] + 1 <= pos <= eol`.  A `FuncDecl` that starts on line `l` is
  remembered and entered (fix F12; before it, it stopped the walk and the line
  of a one-line function was attributed to the previous declaration): theorem
  `getFuncAST_first_line_is_self`.
* positions are not monotone in `ast.Inspect` order: the `FuncType` child of a
  `FuncDecl` has the position of the `func` keyword and comes after the
  receiver and the name.  The model makes no assumption on positions.
* `ast.Inspect(node, f)`: `f(node)`; if it returns true, `Inspect` of every
  child, then `f(nil)`.  When `f` returns false the children are skipped and
  there is NO `f(nil)` call for that node; the walk goes on with the next
  sibling.  `inspect` below is that function, for any callback.
* the callback sets `d = lastFunc` at the stop point.  When `lastFunc` is nil
  there, `d` stays nil, `d != nil` stays false and the walk CONTINUES with the
  next sibling of the stop node (its children are skipped); a later node may
  still set `lastFunc` (if its position is smaller) and a later stop point may
  then assign `d`.  The model does what the code does.
* the parameter `f string` is not used (it is shadowed in the callback).
* `p.lineToByteOffset[l]` is evaluated at every callback with `d == nil` and
  `n != nil`, `p.lineToByteOffset[l+1]` once, behind its own length test; an
  index out of range would be a run-time panic: `.error .index` in the model
  (`callback`, `eolOf`), shown unreachable in `getFuncAST_indexes_in_range`.  A negative `l` (Go `int`) is outside the
  model, as in `AugmentGlue.lean`.

Trusted, not modelled: go/parser (which tree a source yields), `ast.Walk`'s
order of children (the harness converts the real tree with `ast.Inspect`
itself, so the order is the real one).
-/
namespace PP.FA
open PP

/-- what `getFuncAST` reads of an `ast.Node` -/
structure Node where
  /-- `int(n.Pos())` -/
  pos : Nat
  /-- `_, ok := n.(*ast.FuncDecl)` -/
  isFuncDecl : Bool
  /-- which declaration (meaningful when `isFuncDecl`) -/
  decl : Nat
  /-- the non-nil children in `ast.Walk` order -/
  children : List Node
  deriving Repr, Inhabited

/-- the outcomes of `getFuncAST` other than a declaration or nil -/
inductive Err
  | lineOver   -- "line %d is over line count of %d"
  | index      -- run-time panic: `p.lineToByteOffset[l]` out of range
  deriving DecidableEq, Repr

/-! ### ast.Inspect -/

mutual
/-- `ast.Inspect(n, f)` for a callback `f` with state `σ` that may fail:
`f(n)`; if true, the children, then `f(nil)` (whose result is ignored) -/
def inspect {σ ε : Type} (f : σ → Option Node → Except ε (σ × Bool)) (s : σ) : Node → Except ε σ
  | ⟨pos, isF, decl, children⟩ =>
    match f s (some ⟨pos, isF, decl, children⟩) with
    | .error e => .error e
    | .ok (s1, false) => .ok s1
    | .ok (s1, true) =>
      match inspectList f s1 children with
      | .error e => .error e
      | .ok s2 =>
        match f s2 none with
        | .error e => .error e
        | .ok (s3, _) => .ok s3
/-- the children, in order -/
def inspectList {σ ε : Type} (f : σ → Option Node → Except ε (σ × Bool)) (s : σ) : List Node → Except ε σ
  | [] => .ok s
  | n :: ns =>
    match inspect f s n with
    | .error e => .error e
    | .ok s1 => inspectList f s1 ns
end

/-! ### the callback -/

/-- the variables the closure captures and assigns: the named result `d` and
`lastFunc` (`none` = nil) -/
structure St where
  d : Option Nat := none
  lastFunc : Option Nat := none
  deriving DecidableEq, Repr

/-- `pos <= eol`, `none` being `math.MaxInt` -/
def leEol (pos : Nat) : Option Nat → Bool
  | none => true
  | some e => decide (pos ≤ e)

/-- the function literal passed to `ast.Inspect` -/
def callback (offsets : List Nat) (l : Nat) (eol : Option Nat) (s : St) (n : Option Node) :
    Except Err (St × Bool) :=
  if s.d.isSome then .ok (s, false)                         -- if d != nil { return false }
  else
    match n with
    | none => .ok (s, true)                                 -- if n == nil { return true }
    | some n =>
      match offsets[l]? with
      | none => .error .index                               -- p.lineToByteOffset[l] panics
      | some off =>
        if n.isFuncDecl && decide (n.pos ≥ off) && leEol n.pos eol then
          .ok ({ s with lastFunc := some n.decl }, true)    -- a declaration that starts on line l
        else if n.pos ≥ off then .ok ({ s with d := s.lastFunc }, false)
        else if n.isFuncDecl then .ok ({ s with lastFunc := some n.decl }, true)
        else .ok (s, true)

/-- `eol := math.MaxInt; if l+1 < len(p.lineToByteOffset) { eol = p.lineToByteOffset[l+1] }` -/
def eolOf (offsets : List Nat) (l : Nat) : Except Err (Option Nat) :=
  if l + 1 < offsets.length then
    match offsets[l + 1]? with
    | none => .error .index                                 -- p.lineToByteOffset[l+1] panics
    | some e => .ok (some e)
  else .ok none

/-- `p.getFuncAST(f, l)`: `.ok none` is `d == nil, err == nil` -/
def getFuncAST (offsets : List Nat) (root : Node) (l : Nat) : Except Err (Option Nat) :=
  if offsets.length ≤ l then .error .lineOver
  else
    match eolOf offsets l with
    | .error e => .error e
    | .ok eol =>
      match inspect (callback offsets l eol) {} root with
      | .error e => .error e
      | .ok s => .ok s.d

/-- `parser.ParseFile` + `lineToByteOffsets` + `getFuncAST` on a source whose
tree is `root` -/
def getFuncASTSrc (src : Bytes) (root : Node) (l : Nat) : Except Err (Option Nat) :=
  getFuncAST (AugGlue.lineToByteOffsets src) root l

/-! ### discharging the oracle of `AugmentGlue` -/

/-- the `Parsed` of `AugmentGlue` for a tree: `funcAt` is the walk, composed
with `types` (= `extractArgumentsType` of the declaration, `PP.TN`; `none` for
a declaration whose receiver list is present and not of length one, which
`augmentCall` leaves alone: the guard of fix F10) -/
def toParsed (offsets : List Nat) (root : Node) (types : Nat → Option (List Bytes × Bool)) : AugGlue.Parsed where
  funcAt := fun _ l =>
    match getFuncAST offsets root l with
    | .ok (some k) => types k
    | _ => none

end PP.FA
