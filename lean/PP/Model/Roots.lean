import PP.Model.Types
import PP.Model.Sig
import PP.Model.Unicode
import PP.Model.FuncInit
/-
Path rebasing (stack/context.go: guessPaths, findRoots, getFiles, splitPath,
isFile, isRootedIn, isGoModule, reModule, hasPrefix, hasSrcPrefix;
stack/stack.go: Call/Stack/Signature.updateLocations, sortedByLen, pathJoin).

The file system is an oracle (`FS`): `isFile p` stands for
`os.Stat(p)` succeeding on a non-directory, `readFile p` for `os.ReadFile(p)`
(`none` = any error).  Go maps are association lists (`AMap`); where the code
ranges over a map, the model does what the code does: `hasPrefix` and
`hasSrcPrefix` are existence tests, `updateLocations` walks `sortedByLen`.
-/
namespace PP
open Bytes

/-- `map[string]string` as an association list.  Built through `AMap.insert`
the keys stay distinct. -/
abbrev AMap := List (Bytes × Bytes)

namespace AMap
def keys (m : AMap) : List Bytes := m.map Prod.fst
/-- `m[k]` (the zero value when absent) -/
def get (m : AMap) (k : Bytes) : Bytes := (m.lookup k).getD []
/-- `m[k] = v` -/
def insert : AMap → Bytes → Bytes → AMap
  | [], k, v => [(k, v)]
  | (k', v') :: t, k, v => if k' == k then (k, v) :: t else (k', v') :: insert t k v
end AMap

/-- the two file-system calls of context.go -/
structure FS where
  isFile : Bytes → Bool
  readFile : Bytes → Option Bytes

/-- pathJoin = strings.Join(s, "/") -/
def pathJoin (xs : List Bytes) : Bytes := Bytes.join b!"/" xs

def srcSep : Bytes := b!"/src/"
def pkgmodSep : Bytes := b!"/pkg/mod/"

/-- context.go `hasPrefix(p, s)`: some key `k` of `s` with `len(p) > len(k)+1`,
`p[:len(k)] == k`, `p[len(k)] == '/'`. -/
def mapHasPrefix (p : Bytes) (s : AMap) : Bool :=
  s.any fun kv =>
    let l := kv.1.length
    decide (p.length > l + 1) && p.take l == kv.1 && (p.drop l).head? == some 47

/-- context.go `hasSrcPrefix(p, s)` -/
def hasSrcPrefix (p : Bytes) (s : AMap) : Bool :=
  s.any fun kv =>
    let l := kv.1.length
    (decide (p.length > l + srcSep.length) && p.take l == kv.1 && (p.drop l).take srcSep.length == srcSep) ||
    (decide (p.length > l + pkgmodSep.length) && p.take l == kv.1 && (p.drop l).take pkgmodSep.length == pkgmodSep)

/-- insertion in a strictly ascending list (set semantics) -/
def insertUniq (a : Bytes) : List Bytes → List Bytes
  | [] => [a]
  | b :: t => if a == b then b :: t else if bytesLt a b then a :: b :: t else b :: insertUniq a t

/-- `getFiles`: the `RemoteSrcPath` of every call of every `Stack.Calls`
(not `CreatedBy`), deduplicated and sorted (`sort.Strings`). -/
def getFiles (gs : List Goroutine) : List Bytes :=
  (gs.flatMap fun g => g.sig.stack.calls.map (·.remoteSrcPath)).foldr insertUniq []

/-! ### splitPath -/

def runeErrorUTF8 : Bytes := [0xEF, 0xBF, 0xBD]

/-- one iteration of `for _, c := range p`: the bytes of `string(c)` and the
unread rest.  An invalid byte decodes to U+FFFD, whose `string()` is EF BF BD. -/
def nextRune (p : Bytes) : Bytes × Bytes :=
  let rw := decodeRune p
  if rw.1 == runeError && rw.2 ≤ 1 then (runeErrorUTF8, p.drop 1) else (p.take rw.2, p.drop rw.2)

/-- `strings.Count(s, "/") == len(s)` -/
def allSlash (s : Bytes) : Bool := s.all (· == 47)

def splitPathGo : Nat → Bytes → List Bytes → Bytes → List Bytes
  | 0, _, out, _ => out
  | fuel + 1, p, out, s =>
    match p with
    | [] => if s != [] then out ++ [s] else out
    | _ :: _ =>
      let cr := nextRune p
      if cr.1 != [47] || (out.isEmpty && allSlash s) then splitPathGo fuel cr.2 out (s ++ cr.1)
      else if s != [] then splitPathGo fuel cr.2 (out ++ [s]) []
      else splitPathGo fuel cr.2 out s

/-- `splitPath` -/
def splitPath (p : Bytes) : List Bytes :=
  if p == [] then [] else splitPathGo (p.length + 1) p [] []

/-! ### isRootedIn -/

/-- `isRootedIn(root, parts)`: the first `i ≥ 1` such that
`root/parts[i:]` is a file gives `parts[:i]` joined; `""` otherwise. -/
def isRootedIn (fs : FS) (root : Bytes) (parts : List Bytes) : Bytes :=
  match (List.range' 1 (parts.length - 1)).find?
      (fun i => fs.isFile (pathJoin [root, pathJoin (parts.drop i)])) with
  | some i => pathJoin (parts.take i)
  | none => []

/-! ### reModule = `(?m)^module\s+([^\n\r]+)\r?$` (hand matcher, trusted
against the regexp engine by the correspondence stream) -/

/-- `\s` of RE2: `[\t\n\f\r ]` -/
def isReSpace (c : UInt8) : Bool := c == 9 || c == 10 || c == 12 || c == 13 || c == 32
def isNLCR (c : UInt8) : Bool := c == 10 || c == 13

/-- `([^\n\r]+)\r?$` anchored at the head of `t`.  The capture is greedy; a
shorter capture can never be followed by `\r?$`, so only the maximal run is
tried. -/
def matchModuleTail (t : Bytes) : Option Bytes :=
  let cap := t.takeWhile (fun c => !isNLCR c)
  if cap == [] then none else
  match t.dropWhile (fun c => !isNLCR c) with
  | [] => some cap
  | [13] => some cap
  | 10 :: _ => some cap
  | 13 :: 10 :: _ => some cap
  | _ => none

/-- `\s+` is greedy: try `k` white-space characters for `k = n, n-1, …, 1`. -/
def matchModuleWs (u : Bytes) : Nat → Option Bytes
  | 0 => none
  | k + 1 =>
    match matchModuleTail (u.drop (k + 1)) with
    | some c => some c
    | none => matchModuleWs u k

/-- the pattern anchored at a line start -/
def matchModuleAt (t : Bytes) : Option Bytes :=
  if hasPrefix t b!"module" then
    let u := t.drop 6
    matchModuleWs u (u.takeWhile isReSpace).length
  else none

def reModuleGo : Bytes → Bool → Option Bytes
  | [], _ => none
  | c :: t, bol =>
    match (if bol then matchModuleAt (c :: t) else none) with
    | some m => some m
    | none => reModuleGo t (c == 10)

/-- `reModule.FindSubmatch(b)[1]` -/
def reModule (b : Bytes) : Option Bytes := reModuleGo b true

/-! ### isGoModule -/

def isGoModuleGo (fs : FS) (parts : List Bytes) : Nat → List Bytes → List Bytes × Bytes × Bytes
  | 0, cache => (cache, [], [])
  | i + 1, cache =>
    let pfx := pathJoin (parts.take (i + 1))
    if cache.contains pfx then (cache, [], [])
    else
      let cache := pfx :: cache
      match fs.readFile (pathJoin [pfx, b!"go.mod"]) with
      | none => isGoModuleGo fs parts i cache
      | some b =>
        match reModule b with
        | some m => (cache, pfx, m)
        | none => isGoModuleGo fs parts i cache

/-- `(*gomodCache).isGoModule(parts)`: the updated cache, the directory and
the module path (`""`, `""` when not found). -/
def isGoModule (fs : FS) (cache : List Bytes) (parts : List Bytes) : List Bytes × Bytes × Bytes :=
  isGoModuleGo fs parts parts.length cache

/-! ### path.Dir (hand model of path.Split + path.Clean) -/

def cleanElems (rooted : Bool) : List Bytes → List Bytes → List Bytes
  | [], out => out.reverse
  | e :: es, out =>
    if e == [] || e == b!"." then cleanElems rooted es out
    else if e == b!".." then
      match out with
      | top :: rest =>
        if top == b!".." then cleanElems rooted es (e :: out) else cleanElems rooted es rest
      | [] => if rooted then cleanElems rooted es [] else cleanElems rooted es [e]
    else cleanElems rooted es (e :: out)

/-- path.Clean -/
def pathClean (p : Bytes) : Bytes :=
  if p == [] then b!"." else
  let rooted := p.head? == some 47
  let body := pathJoin (cleanElems rooted (splitOn p [47]) [])
  let r := if rooted then 47 :: body else body
  if r == [] then b!"." else r

/-- path.Dir -/
def pathDir (p : Bytes) : Bytes :=
  match lastIndexByte p 47 with
  | some i => pathClean (p.take (i + 1))
  | none => b!"."

/-! ### findRoots -/

/-- `r[:len(r)-len(src)]` with `len(r) < len(src)` would be a Go run-time panic
(slice bounds out of range).  Since the fix "only accept the split when the
remote root ends with /src (or /pkg/mod)" these branches are unreachable
(`findRoots_no_panic`); they are kept so that the slice expression stays
explicit. -/
inductive RootsErr | sliceGoroot | sliceGopath
  deriving DecidableEq, Repr

structure RootsState where
  goroot : Bytes := []
  gopaths : AMap := []
  gomods : AMap := []
  missing : Nat := 0
  cache : List Bytes := []
  deriving Repr

def srcDir : Bytes := b!"/src"
def pkgmodDir : Bytes := b!"/pkg/mod"

/-- the loop over `s.LocalGOPATHs`: the (remote root, local root) to record -/
def findGopath (fs : FS) (parts : List Bytes) : List Bytes → Except RootsErr (Option (Bytes × Bytes))
  | [] => .ok none
  | l :: ls =>
    let r := isRootedIn fs (l ++ srcDir) parts
    if hasSuffix r srcDir then
      if r.length < srcDir.length then .error .sliceGopath
      else .ok (some (r.take (r.length - srcDir.length), l))
    else
      let r := isRootedIn fs (l ++ pkgmodDir) parts
      if hasSuffix r pkgmodDir then
        if r.length < pkgmodDir.length then .error .sliceGopath
        else .ok (some (r.take (r.length - pkgmodDir.length), l))
      else findGopath fs parts ls

/-- `if len(parts) > 1 { gmc.isGoModule(parts[:len(parts)-1]) }` -/
def findModule (fs : FS) (cache : List Bytes) (parts : List Bytes) : List Bytes × Bytes × Bytes :=
  if parts.length > 1 then isGoModule fs cache parts.dropLast else (cache, [], [])

/-- the go.mod / plain file part of one iteration -/
def findRootsMod (fs : FS) (st : RootsState) (f : Bytes) (parts : List Bytes) : RootsState :=
  if (findModule fs st.cache parts).2.1 != [] then
    { st with cache := (findModule fs st.cache parts).1,
              gomods := st.gomods.insert (findModule fs st.cache parts).2.1 (findModule fs st.cache parts).2.2 }
  else if fs.isFile f then
    { st with cache := (findModule fs st.cache parts).1, gomods := st.gomods.insert (pathDir f) b!"main" }
  else { st with cache := (findModule fs st.cache parts).1, missing := st.missing + 1 }

/-- `if s.RemoteGOROOT == "" { r := isRootedIn(s.LocalGOROOT+src, parts) … }` (`""` when skipped) -/
def gorootProbe (fs : FS) (localGoroot : Bytes) (st : RootsState) (parts : List Bytes) : Bytes :=
  if st.goroot == [] then isRootedIn fs (localGoroot ++ srcDir) parts else []

/-- the part of one iteration that touches the disk -/
def findRootsDisk (fs : FS) (localGoroot : Bytes) (localGopaths : List Bytes)
    (st : RootsState) (f : Bytes) : Except RootsErr RootsState :=
  if hasSuffix (gorootProbe fs localGoroot st (splitPath f)) srcDir then
    if (gorootProbe fs localGoroot st (splitPath f)).length < srcDir.length then .error .sliceGoroot
    else .ok { st with goroot := (gorootProbe fs localGoroot st (splitPath f)).take
                                   ((gorootProbe fs localGoroot st (splitPath f)).length - srcDir.length) }
  else
    match findGopath fs (splitPath f) localGopaths with
    | .error e => .error e
    | .ok (some (k, l)) => .ok { st with gopaths := st.gopaths.insert k l }
    | .ok none => .ok (findRootsMod fs st f (splitPath f))

/-- one iteration of the loop of `findRoots` -/
def findRootsStep (fs : FS) (localGoroot : Bytes) (localGopaths : List Bytes)
    (st : RootsState) (f : Bytes) : Except RootsErr RootsState :=
  if st.goroot != [] && hasPrefix f (st.goroot ++ srcSep) then .ok st
  else if hasSrcPrefix f st.gopaths then .ok st
  else if mapHasPrefix f st.gomods then .ok st
  else findRootsDisk fs localGoroot localGopaths st f

def findRootsLoop (fs : FS) (localGoroot : Bytes) (localGopaths : List Bytes) :
    RootsState → List Bytes → Except RootsErr RootsState
  | st, [] => .ok st
  | st, f :: fs' =>
    match findRootsStep fs localGoroot localGopaths st f with
    | .error e => .error e
    | .ok st' => findRootsLoop fs localGoroot localGopaths st' fs'

structure Snapshot where
  goroutines : List Goroutine := []
  localGOROOT : Bytes := []
  localGOPATHs : List Bytes := []
  remoteGOROOT : Bytes := []
  remoteGOPATHs : AMap := []
  localGomods : AMap := []
  deriving Repr

/-- `(*Snapshot).findRoots`: the maps are reset, `RemoteGOROOT` is kept as it
was.  Returns the final state (`missing` is the Go return value). -/
def Snapshot.findRoots (fs : FS) (s : Snapshot) : Except RootsErr RootsState :=
  findRootsLoop fs s.localGOROOT s.localGOPATHs { goroot := s.remoteGOROOT } (getFiles s.goroutines)

/-! ### updateLocations -/

/-- the order of `sortedByLen`: longer first, ties in lexical order -/
def lenLexLe (a b : Bytes) : Bool :=
  decide (a.length > b.length) || (a.length == b.length && !bytesLt b a)

/-- `sortedByLen(m)` -/
def sortedByLen (m : AMap) : List Bytes := m.keys.mergeSort lenLexLe

/-- `if i := LastIndexByte(rel, '/'); i != -1 { ImportPath = rel[:i] }` -/
def importOfRel (rel dflt : Bytes) : Bytes :=
  match lastIndexByte rel 47 with
  | some i => rel.take i
  | none => dflt

/-- `if c.Location == LocationUnknown { c.Location = l }` -/
def setLoc (c : Call) (l : Loc) : Loc := if c.location == .unknown then l else c.location

def Call.tryGoroot (c : Call) (goroot localgoroot : Bytes) : Option Call :=
  if goroot != [] && hasPrefix c.remoteSrcPath (goroot ++ srcSep) then
    let rel := c.remoteSrcPath.drop (goroot ++ srcSep).length
    some { c with relSrcPath := rel, localSrcPath := pathJoin [localgoroot, b!"src", rel],
                  importPath := importOfRel rel c.importPath, location := setLoc c .stdlib }
  else none

def Call.tryGopath (c : Call) (pfx dest : Bytes) : Option Call :=
  if hasPrefix c.remoteSrcPath (pfx ++ srcSep) then
    let rel := c.remoteSrcPath.drop (pfx ++ srcSep).length
    some { c with relSrcPath := rel, localSrcPath := pathJoin [dest, b!"src", rel],
                  importPath := importOfRel rel c.importPath, location := setLoc c .gopath }
  else if hasPrefix c.remoteSrcPath (pfx ++ pkgmodSep) then
    let rel := c.remoteSrcPath.drop (pfx ++ pkgmodSep).length
    some { c with relSrcPath := rel, localSrcPath := pathJoin [dest, b!"pkg/mod", rel],
                  importPath := importOfRel rel c.importPath, location := setLoc c .goPkg }
  else none

/-- the import path of the module branch: `pkg + "/" + rel[:i]`, or `pkg` -/
def gomodImport (pkg rel : Bytes) : Bytes :=
  match lastIndexByte rel 47 with
  | some i => pkg ++ b!"/" ++ rel.take i
  | none => pkg

def Call.tryGomod (c : Call) (pfx pkg : Bytes) : Option Call :=
  if hasPrefix c.remoteSrcPath (pfx ++ b!"/") then
    let rel := c.remoteSrcPath.drop (pfx.length + 1)
    some { c with relSrcPath := rel, localSrcPath := c.remoteSrcPath, importPath := gomodImport pkg rel,
                  location := setLoc c .goMod }
  else none

def Call.gopathLoop (c : Call) (gopaths : AMap) : List Bytes → Option Call
  | [] => none
  | k :: ks =>
    match c.tryGopath k (gopaths.get k) with
    | some c' => some c'
    | none => Call.gopathLoop c gopaths ks

def Call.gomodLoop (c : Call) (gomods : AMap) : List Bytes → Option Call
  | [] => none
  | k :: ks =>
    match c.tryGomod k (gomods.get k) with
    | some c' => some c'
    | none => Call.gomodLoop c gomods ks

/-- `(*Call).updateLocations` as a function: the updated call, or `none` for
`return false` (the call is then untouched). -/
def Call.updateLocations? (c : Call) (goroot localgoroot : Bytes) (localgomods gopaths : AMap) : Option Call :=
  if c.remoteSrcPath == [] then none else
  match c.tryGoroot goroot localgoroot with
  | some c' => some c'
  | none =>
    match c.gopathLoop gopaths (sortedByLen gopaths) with
    | some c' => some c'
    | none => c.gomodLoop localgomods (sortedByLen localgomods)

/-- `(*Call).updateLocations`: the call afterwards and the returned bool -/
def Call.updateLocations (c : Call) (goroot localgoroot : Bytes) (localgomods gopaths : AMap) : Call × Bool :=
  match c.updateLocations? goroot localgoroot localgomods gopaths with
  | some c' => (c', true)
  | none => (c, false)

/-- `(*Stack).updateLocations` (every call is visited, no short cut) -/
def Stack.updateLocations (s : Stack) (goroot localgoroot : Bytes) (localgomods gopaths : AMap) : Stack × Bool :=
  let rs := s.calls.map fun c => c.updateLocations goroot localgoroot localgomods gopaths
  ({ s with calls := rs.map (·.1) }, rs.all (·.2))

/-- `(*Signature).updateLocations` -/
def Signature.updateLocations (s : Signature) (goroot localgoroot : Bytes) (localgomods gopaths : AMap) : Signature × Bool :=
  let c := s.createdBy.updateLocations goroot localgoroot localgomods gopaths
  let k := s.stack.updateLocations goroot localgoroot localgomods gopaths
  ({ s with createdBy := c.1, stack := k.1 }, k.2 && c.2)

/-- `(*Goroutine).updateLocations` (promoted from the embedded Signature) -/
def Goroutine.updateLocations (g : Goroutine) (goroot localgoroot : Bytes) (localgomods gopaths : AMap) : Goroutine × Bool :=
  let r := g.sig.updateLocations goroot localgoroot localgomods gopaths
  ({ g with sig := r.1 }, r.2)

/-- `(*Snapshot).guessPaths`; `.error` = the Go code panics in `findRoots`. -/
def Snapshot.guessPaths (fs : FS) (s : Snapshot) : Except RootsErr (Snapshot × Bool) :=
  match s.findRoots fs with
  | .error e => .error e
  | .ok st =>
    let rs := s.goroutines.map fun g => g.updateLocations st.goroot s.localGOROOT st.gomods st.gopaths
    .ok ({ s with remoteGOROOT := st.goroot, remoteGOPATHs := st.gopaths, localGomods := st.gomods,
                  goroutines := rs.map (·.1) },
         decide (st.missing = 0) && rs.all (·.2))

end PP
