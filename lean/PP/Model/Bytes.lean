/-
Byte strings.  Go strings and []byte are byte sequences (not Unicode), so the
model works on `List UInt8` throughout.
-/
namespace PP

abbrev Bytes := List UInt8

open Lean in
/-- `b!"abc"` is the explicit list of the UTF-8 bytes of the literal. -/
macro:max "b!" s:str : term => do
  let bs := s.getString.toUTF8.toList.toArray
  let elems ← bs.mapM fun b => `(($(quote b.toNat) : UInt8))
  `(([$elems,*] : List UInt8))

namespace Bytes

def NL : UInt8 := 10
def CR : UInt8 := 13

/-- bytes.HasPrefix -/
def hasPrefix : Bytes → Bytes → Bool
  | _, [] => true
  | [], _ :: _ => false
  | a :: as, p :: ps => a == p && hasPrefix as ps

/-- bytes.HasSuffix -/
def hasSuffix (s suf : Bytes) : Bool :=
  suf.length ≤ s.length && s.drop (s.length - suf.length) == suf

/-- bytes.IndexByte -/
def indexByte (s : Bytes) (c : UInt8) : Option Nat := s.idxOf? c

/-- bytes.LastIndexByte -/
def lastIndexByte (s : Bytes) (c : UInt8) : Option Nat :=
  match s.reverse.idxOf? c with
  | some i => some (s.length - 1 - i)
  | none => none

/-- strings.Index of a non-empty separator (first occurrence) -/
def indexOf (s sep : Bytes) : Option Nat :=
  let rec go (fuel : Nat) (s : Bytes) (i : Nat) : Option Nat :=
    match fuel with
    | 0 => none
    | fuel + 1 =>
      if hasPrefix s sep then some i
      else match s with
        | [] => none
        | _ :: t => go fuel t (i + 1)
  go (s.length + 1) s 0

/-- bytes.Split(s, sep) for a non-empty separator. -/
def splitOn (s sep : Bytes) : List Bytes :=
  let rec go (fuel : Nat) (s cur : Bytes) : List Bytes :=
    match fuel with
    | 0 => [cur.reverse]
    | fuel + 1 =>
      match s with
      | [] => [cur.reverse]
      | c :: t =>
        if hasPrefix s sep then cur.reverse :: go fuel (s.drop sep.length) []
        else go fuel t (c :: cur)
  go (s.length + 1) s []

def join (sep : Bytes) : List Bytes → Bytes
  | [] => []
  | [x] => x
  | x :: xs => x ++ sep ++ join sep xs

def isDigit (c : UInt8) : Bool := 48 ≤ c && c ≤ 57
def isLowerHex (c : UInt8) : Bool := isDigit c || (97 ≤ c && c ≤ 102)
def isHex (c : UInt8) : Bool := isLowerHex c || (65 ≤ c && c ≤ 70)

def hexVal (c : UInt8) : Nat :=
  if isDigit c then c.toNat - 48
  else if 97 ≤ c && c ≤ 102 then c.toNat - 87
  else c.toNat - 55

/-- decimal rendering (strconv.Itoa for naturals) -/
def natToDec (n : Nat) : Bytes := (Nat.toDigits 10 n).map (fun c => c.toNat.toUInt8)

/-- lower-case hexadecimal without prefix -/
def natToHex (n : Nat) : Bytes := (Nat.toDigits 16 n).map (fun c => c.toNat.toUInt8)

def ofString (s : String) : Bytes := s.toUTF8.toList
def toStringLossy (b : Bytes) : String := String.fromUTF8! (ByteArray.mk b.toArray)

end Bytes
end PP
