import PP.Model.Bytes
/-
`unparen`, `name`, `fieldToType`, `extractArgumentsType` (stack/source.go:159-250): from
the `*ast.FuncDecl` found by `getFuncAST` to the list of parameter type names
and the ellipsis flag that `augmentCall` consumes.

What is modelled: the three functions, case by case, over a datatype that has
one constructor per go/ast node kind the two type switches distinguish, and
`paren` for `*ast.ParenExpr` (which `unparen` strips), and one (`other`) for
every other kind (StructType, IndexExpr, IndexListExpr, BadExpr, …: the
`default` branches).

What is NOT modelled (trusted): go/parser (which `GoFuncDecl` a source text
yields; the harness converts the real `*ast.FuncDecl` with a plain type
switch), and the following facts about the trees go/parser builds, which make
the Go code panic-free: `f.Type.Params` is never nil, `SelectorExpr.Sel` is
never nil, `StarExpr.X`, `ParenExpr.X`, `ArrayType.Elt`, `MapType.Key/Value`,
`ChanType.Value` are never nil (`name` of a nil interface would take the
`default` branch anyway).  The only nil-able children the code meets are
`ArrayType.Len` (tested) and `Ellipsis.Elt` (NOT tested: `name(nil)` is
`"<unknown>"`), both `Option` here.  `fmt.Sprintf("map[%s]%s", a, b)` and
`fmt.Sprintf("chan %s", a)` on strings are concatenations.

Of a field only `len(f.Names)` and `f.Type` are read.
-/
namespace PP.TN
open PP PP.Bytes

/-- go/ast expression nodes, as far as `name` / `fieldToType` tell them apart -/
inductive GoExpr where
  | ident (name : Bytes)                                -- *ast.Ident
  | selector (x : GoExpr) (sel : Bytes)                 -- *ast.SelectorExpr (Sel.Name)
  | star (x : GoExpr)                                   -- *ast.StarExpr
  | basicLit (value : Bytes)                            -- *ast.BasicLit
  | ellipsis (elt : Option GoExpr)                      -- *ast.Ellipsis, Elt may be nil
  | arrayType (len : Option GoExpr) (elt : GoExpr)      -- *ast.ArrayType, Len nil for slices
  | funcType                                            -- *ast.FuncType
  | interfaceType                                       -- *ast.InterfaceType
  | mapType (k v : GoExpr)                              -- *ast.MapType
  | chanType (v : GoExpr)                               -- *ast.ChanType (direction is not read)
  | paren (x : GoExpr)                                  -- *ast.ParenExpr
  | other                                               -- any other node kind
  deriving Repr, Inhabited

/-- `*ast.Field`: `len(Names)` and `Type` -/
structure GoField where
  names : Nat
  typ : GoExpr
  deriving Repr, Inhabited

/-- `*ast.FuncDecl`: `Recv` (nil or its `List`) and `Type.Params.List` -/
structure GoFuncDecl where
  recv : Option (List GoField)
  params : List GoField
  deriving Repr, Inhabited

def unknown : Bytes := b!"<unknown>"

/-- `func unparen(e ast.Expr) ast.Expr`: the loop strips one `*ast.ParenExpr`
per iteration -/
def unparen : GoExpr → GoExpr
  | .paren x => unparen x
  | e => e

/-- `func name(n ast.Node) string` on a non-nil node: `n = unparen(e)` then
the type switch.  The loop of `unparen` is unfolded into the recursion (one
`paren` constructor per iteration) so that the function stays structurally
recursive; `name_eq_unparen` (PP/Lemmas/TypeNamesLemmas.lean) states that
`name e = name (unparen e)` and on a node that is not a `paren` the equations
below are the cases of the switch. -/
def name : GoExpr → Bytes
  | .paren x => name x
  | .interfaceType => b!"interface{}"
  | .ident n => n
  | .selector _ sel => sel
  | .star x => b!"*" ++ name x
  | .basicLit v => v
  | .ellipsis _ => b!"..."
  | _ => unknown

/-- `name(n)` where the interface `n` may be nil: a nil interface matches no
case of the type switch, hence `default` -/
def nameOpt : Option GoExpr → Bytes
  | some e => name e
  | none => unknown

/-- `func fieldToType(f *ast.Field) (string, bool)` -/
def fieldToType (f : GoField) : Bytes × Bool :=
  match unparen f.typ with
  | .arrayType (some len) elt => (b!"[" ++ name len ++ b!"]" ++ name elt, false)
  | .arrayType none elt => (b!"[]" ++ name elt, false)
  | .ellipsis elt => (nameOpt elt, true)
  | .funcType => (b!"func", false)
  | .ident n => (n, false)
  | .interfaceType => (b!"interface{}", false)
  | .selector _ sel => (sel, false)
  | .star x => (b!"*" ++ name x, false)
  | .mapType k v => (b!"map[" ++ name k ++ b!"]" ++ name v, false)
  | .chanType v => (b!"chan " ++ name v, false)
  | _ => (unknown, false)

/-- `_, ok := e.(*ast.StarExpr)` -/
def isStar : GoExpr → Bool
  | .star _ => true
  | _ => false

/-- the slice `fields` before the loop: the receiver iff `f.Recv != nil`,
`len(f.Recv.List) == 1` and its type, parentheses stripped, is a
`*ast.StarExpr` -/
def recvFields : Option (List GoField) → List GoField
  | some [f] => if isStar (unparen f.typ) then [f] else []
  | _ => []

/-- `mult := len(arg.Names); if mult == 0 { mult = 1 }` -/
def mult (f : GoField) : Nat := if f.names = 0 then 1 else f.names

/-- the `for _, arg := range …` loop with its two variables `types`, `ellipsis` -/
def extractLoop : List GoField → List Bytes → Bool → List Bytes × Bool
  | [], types, ellipsis => (types, ellipsis)
  | arg :: rest, types, _ =>
    let (t, ellipsis) := fieldToType arg
    extractLoop rest (types ++ List.replicate (mult arg) t) ellipsis

/-- `func extractArgumentsType(f *ast.FuncDecl) ([]string, bool)` -/
def extractArgumentsType (f : GoFuncDecl) : List Bytes × Bool :=
  extractLoop (recvFields f.recv ++ f.params) [] false

end PP.TN
